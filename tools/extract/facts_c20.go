package main

import (
	"fmt"
	"go/ast"
	"go/token"
	"regexp"
	"strconv"
	"strings"
)

// ---------- C20: client configuration (internal/client/state.go, cmd/ck-client) ----------
//
// Group "ClientCfg".  The model Model/ClientConfig.lean takes from here: the right-hand sides of the
// assignments to remote.KeepAlive, local.Timeout, remote.NumConn/Singleplex (translated expressions over the
// variables `raw.X` / `remote.X`), the tested conditions, the three switch tables (encryption method,
// transport, browser) after strings.ToLower, the default literals, the wsUrl concatenation, the public-key
// length test of ecdh.Unmarshal, the order of the mandatory-field checks with the name each reports, and the
// constants of ssvToJson (unquoted keys, the Replace pairs in order).

func init() { register(factsClientCfg) }

func fUnq(e ast.Expr) (string, bool) {
	if l, ok := e.(*ast.BasicLit); ok && l.Kind == token.STRING {
		s, err := strconv.Unquote(l.Value)
		return s, err == nil
	}
	return "", false
}

// fSwitchTable flattens `switch tag { case "a","b": body ; case "c": fallthrough ; default: body }` into
// label -> key(body), where key maps the body that finally executes (after fallthroughs) to a short name.
func fSwitchTable(sw *ast.SwitchStmt, key func(body []ast.Stmt) string) (cases [][2]string, dflt string, ok bool) {
	cl := sw.Body.List
	bodyOf := func(i int) []ast.Stmt {
		for ; i < len(cl); i++ {
			b := cl[i].(*ast.CaseClause).Body
			if len(b) == 1 {
				if br, isBr := b[0].(*ast.BranchStmt); isBr && br.Tok == token.FALLTHROUGH {
					continue
				}
			}
			return b
		}
		return nil
	}
	dflt = "<none>"
	for i, c := range cl {
		cc := c.(*ast.CaseClause)
		k := key(bodyOf(i))
		if cc.List == nil {
			dflt = k
			continue
		}
		for _, e := range cc.List {
			s, isStr := fUnq(e)
			if !isStr {
				return nil, "", false
			}
			cases = append(cases, [2]string{s, k})
		}
	}
	return cases, dflt, true
}

func fFindSwitch(fn *ast.FuncDecl, tagRe string) *ast.SwitchStmt {
	var found *ast.SwitchStmt
	r := regexp.MustCompile(tagRe)
	ast.Inspect(fn.Body, func(n ast.Node) bool {
		if s, ok := n.(*ast.SwitchStmt); ok && found == nil && s.Tag != nil && r.MatchString(show(s.Tag)) {
			found = s
		}
		return true
	})
	return found
}

func fFindIf(n ast.Node, condRe string) *ast.IfStmt {
	var found *ast.IfStmt
	r := regexp.MustCompile(condRe)
	ast.Inspect(n, func(m ast.Node) bool {
		if s, ok := m.(*ast.IfStmt); ok && found == nil && r.MatchString(show(s.Cond)) {
			found = s
		}
		return true
	})
	return found
}

// fAssignIn returns the RHS of `lhs = rhs` among the top-level statements of a block
func fAssignIn(list []ast.Stmt, lhs string) ast.Expr {
	for _, s := range list {
		if a, ok := s.(*ast.AssignStmt); ok && len(a.Lhs) == 1 && len(a.Rhs) == 1 && show(a.Lhs[0]) == lhs {
			return a.Rhs[0]
		}
	}
	return nil
}

func fPairList(xs [][2]string) string {
	var q []string
	for _, x := range xs {
		q = append(q, "("+leanStr(x[0])+", "+leanStr(x[1])+")")
	}
	return "[" + strings.Join(q, ", ") + "]"
}

// fStrExpr translates a concatenation of string literals and known variables
func fStrExpr(e ast.Expr, vars map[string]string) (string, bool) {
	if v, ok := vars[show(e)]; ok {
		return v, true
	}
	switch e := e.(type) {
	case *ast.BasicLit:
		if s, ok := fUnq(e); ok {
			return leanStr(s), true
		}
	case *ast.ParenExpr:
		return fStrExpr(e.X, vars)
	case *ast.BinaryExpr:
		if e.Op == token.ADD {
			a, ok1 := fStrExpr(e.X, vars)
			b, ok2 := fStrExpr(e.Y, vars)
			return "(" + a + " ++ " + b + ")", ok1 && ok2
		}
	}
	return "", false
}

func factsClientCfg() {
	g := "ClientCfg"
	fn := fnOf(cl, "RawConfig.ProcessRawConfig")
	if fn == nil {
		unrec(g, "processRawConfig", "RawConfig.ProcessRawConfig not found")
		return
	}
	vars := map[string]string{"raw.KeepAlive": "rawKeepAlive", "remote.KeepAlive": "remoteKeepAlive",
		"raw.StreamTimeout": "rawStreamTimeout", "local.Timeout": "localTimeout", "raw.NumConn": "rawNumConn",
		"remote.NumConn": "remoteNumConn"}

	// ---- KeepAlive ----
	if is := fFindIf(fn.Body, `raw\.KeepAlive`); is == nil || is.Else == nil {
		unrec(g, "keepAlive", "if on raw.KeepAlive with an else branch not found")
	} else {
		boolExpr(g, "keepAliveOffCond", "(rawKeepAlive : Int)", cl, is.Cond, vars)
		numExpr(g, "keepAliveOffVal", "(rawKeepAlive remoteKeepAlive : Int)", cl, fAssignIn(is.Body.List, "remote.KeepAlive"), vars)
		eb, _ := is.Else.(*ast.BlockStmt)
		if eb == nil {
			unrec(g, "keepAliveOnVal", "else branch is not a block")
		} else {
			numExpr(g, "keepAliveOnVal", "(rawKeepAlive remoteKeepAlive : Int)", cl, fAssignIn(eb.List, "remote.KeepAlive"), vars)
		}
		// how often remote.KeepAlive is assigned before this statement (the model passes its value at that point: the zero value)
		n := 0
		ast.Inspect(fn.Body, func(m ast.Node) bool {
			if a, ok := m.(*ast.AssignStmt); ok && a.Pos() < is.Pos() {
				for _, l := range a.Lhs {
					if show(l) == "remote.KeepAlive" || show(l) == "remote" {
						n++
					}
				}
			}
			return true
		})
		natFact(g, "keepAliveEarlierAssignments", n, "assignments to remote.KeepAlive (or remote) before the KeepAlive statement")
	}
	// ---- StreamTimeout ----
	if is := fFindIf(fn.Body, `raw\.StreamTimeout`); is == nil || is.Else == nil {
		unrec(g, "timeout", "if on raw.StreamTimeout with an else branch not found")
	} else {
		boolExpr(g, "timeoutDefaultCond", "(rawStreamTimeout : Int)", cl, is.Cond, vars)
		numExpr(g, "timeoutDefaultVal", "(rawStreamTimeout : Int)", cl, fAssignIn(is.Body.List, "local.Timeout"), vars)
		if eb, _ := is.Else.(*ast.BlockStmt); eb != nil {
			numExpr(g, "timeoutVal", "(rawStreamTimeout : Int)", cl, fAssignIn(eb.List, "local.Timeout"), vars)
		}
	}
	// ---- NumConn / Singleplex ----
	if is := fFindIf(fn.Body, `raw\.NumConn`); is == nil || is.Else == nil {
		unrec(g, "numConn", "if on raw.NumConn with an else branch not found")
	} else {
		boolExpr(g, "singleplexCond", "(rawNumConn : Int)", cl, is.Cond, vars)
		numExpr(g, "numConnThen", "(rawNumConn : Int)", cl, fAssignIn(is.Body.List, "remote.NumConn"), vars)
		boolExpr(g, "singleplexThen", "", cl, fAssignIn(is.Body.List, "remote.Singleplex"), vars)
		if eb, _ := is.Else.(*ast.BlockStmt); eb != nil {
			numExpr(g, "numConnElse", "(rawNumConn : Int)", cl, fAssignIn(eb.List, "remote.NumConn"), vars)
			boolExpr(g, "singleplexElse", "", cl, fAssignIn(eb.List, "remote.Singleplex"), vars)
		}
	}
	// ---- encryption method switch ----
	if sw := fFindSwitch(fn, `raw\.EncryptionMethod`); sw == nil {
		unrec(g, "methodCases", "switch on raw.EncryptionMethod not found")
	} else {
		boolFact(g, "methodLowered", show(sw.Tag) == "strings.ToLower(raw.EncryptionMethod)", "switch "+show(sw.Tag))
		bad := ""
		cases, dflt, ok := fSwitchTable(sw, func(body []ast.Stmt) string {
			if e := fAssignIn(body, "auth.EncryptionMethod"); e != nil {
				name := strings.TrimPrefix(show(e), "mux.")
				p := pkgs[mx]
				if c, ok := p.consts[name]; ok {
					if v, err := p.evalConst(c, p.iotas[name]); err == nil {
						return fmt.Sprint(v)
					}
				}
				bad = "cannot evaluate " + show(e)
				return "?"
			}
			if len(body) > 0 {
				if _, ok := body[len(body)-1].(*ast.ReturnStmt); ok && fAssignIn(body, "err") != nil {
					return "error"
				}
			}
			bad = "unexpected case body"
			return "?"
		})
		if !ok || bad != "" {
			unrec(g, "methodCases", "switch on the encryption method: "+bad)
		} else {
			var q []string
			for _, c := range cases {
				q = append(q, "("+leanStr(c[0])+", "+c[1]+")")
			}
			emit(g, "methodCases", "List (String × Nat)", "["+strings.Join(q, ", ")+"]", "switch strings.ToLower(raw.EncryptionMethod): label -> mux.EncryptionMethod* value")
			boolFact(g, "methodDefaultIsError", dflt == "error", "default: "+dflt)
		}
	}
	// ---- transport and browser switches ----
	if sw := fFindSwitch(fn, `raw\.Transport`); sw == nil {
		unrec(g, "transportCases", "switch on raw.Transport not found")
	} else {
		boolFact(g, "transportLowered", show(sw.Tag) == "strings.ToLower(raw.Transport)", "switch "+show(sw.Tag))
		modeOf := func(body []ast.Stmt) string {
			m := "?"
			for _, s := range body {
				ast.Inspect(s, func(n ast.Node) bool {
					if kv, ok := n.(*ast.KeyValueExpr); ok && show(kv.Key) == "mode" {
						if v, ok := fUnq(kv.Value); ok {
							m = v
						}
					}
					return true
				})
			}
			return m
		}
		cases, dflt, ok := fSwitchTable(sw, modeOf)
		if !ok {
			unrec(g, "transportCases", "non-literal case label")
		} else {
			emit(g, "transportCases", "List (String × String)", fPairList(cases), "switch strings.ToLower(raw.Transport): label -> TransportConfig.mode")
			emit(g, "transportDefault", "String", leanStr(dflt), "default branch of the transport switch")
		}
		// cdn branch
		for _, c := range sw.Body.List {
			cc := c.(*ast.CaseClause)
			if len(cc.List) == 1 && show(cc.List[0]) == `"cdn"` {
				if is := fFindIf(cc, `raw\.CDNOriginHost`); is != nil && is.Else != nil {
					a1 := callArgs(is.Body, `^net\.JoinHostPort$`)
					a2 := callArgs(is.Else, `^net\.JoinHostPort$`)
					if len(a1) == 2 && len(a2) == 2 {
						emit(g, "cdnHostPort", "List String", fLeanStrList([]string{show(is.Cond), show(a1[0]), show(a1[1]), show(a2[0]), show(a2[1])}),
							"cdn: condition, JoinHostPort args when it holds, JoinHostPort args otherwise")
					}
				}
				if is := fFindIf(cc, `raw\.CDNWsUrlPath`); is != nil {
					if e := fAssignIn(is.Body.List, "raw.CDNWsUrlPath"); e != nil {
						if s, ok := fUnq(e); ok {
							emit(g, "cdnPathDefault", "String", leanStr(s), "if "+show(is.Cond)+" { raw.CDNWsUrlPath = "+show(e)+" }")
							boolFact(g, "cdnPathDefaultWhenEmpty", show(is.Cond) == `raw.CDNWsUrlPath == ""`, show(is.Cond))
						}
					}
				}
				ast.Inspect(cc, func(n ast.Node) bool {
					if kv, ok := n.(*ast.KeyValueExpr); ok && show(kv.Key) == "wsUrl" {
						if t, ok := fStrExpr(kv.Value, map[string]string{"cdnDomainPort": "hostPort", "raw.CDNWsUrlPath": "path"}); ok {
							emitFn(g, "wsUrl", "(hostPort path : String)", "String", t, show(kv.Value))
						} else {
							unrec(g, "wsUrl", "unsupported expression "+show(kv.Value))
						}
					}
					return true
				})
			}
		}
	}
	if sw := fFindSwitch(fn, `raw\.BrowserSig`); sw == nil {
		unrec(g, "browserCases", "switch on raw.BrowserSig not found")
	} else {
		boolFact(g, "browserLowered", show(sw.Tag) == "strings.ToLower(raw.BrowserSig)", "switch "+show(sw.Tag))
		cases, dflt, ok := fSwitchTable(sw, func(body []ast.Stmt) string {
			if e := fAssignIn(body, "browser"); e != nil {
				return show(e)
			}
			return "?"
		})
		if !ok {
			unrec(g, "browserCases", "non-literal case label")
		} else {
			emit(g, "browserCases", "List (String × String)", fPairList(cases), "switch strings.ToLower(raw.BrowserSig): label -> browser constant")
			emit(g, "browserDefault", "String", leanStr(dflt), "default branch of the browser switch")
		}
	}
	// ---- the early returns, in order: which field is tested, what name the error carries ----
	{
		var checks [][2]string
		for _, st := range fn.Body.List {
			switch s := st.(type) {
			case *ast.IfStmt:
				c := show(s.Cond)
				if len(s.Body.List) == 0 {
					continue
				}
				last, isRet := s.Body.List[len(s.Body.List)-1].(*ast.ReturnStmt)
				if !isRet {
					continue
				}
				what := "?"
				if len(last.Results) == 1 {
					if call, ok := last.Results[0].(*ast.CallExpr); ok && show(call.Fun) == "nullErr" && len(call.Args) == 1 {
						if a, ok := fUnq(call.Args[0]); ok {
							what = "empty:" + a
						}
					}
				} else if e := fAssignIn(s.Body.List, "err"); e != nil {
					if a := callArgs(e, `^fmt\.Errorf$`); len(a) >= 1 {
						if m, ok := fUnq(a[0]); ok {
							what = "error:" + m
						}
					}
				}
				checks = append(checks, [2]string{c, what})
			case *ast.SwitchStmt:
				if s.Tag != nil && strings.Contains(show(s.Tag), "raw.EncryptionMethod") {
					checks = append(checks, [2]string{"switch " + show(s.Tag), "default"})
				}
			}
		}
		emit(g, "earlyReturns", "List (String × String)", fPairList(checks), "top-level statements of ProcessRawConfig that can return early, in order: (condition, what is reported)")
	}
	// the public key goes through ecdh.Unmarshal; its length test
	if a := callArgs(fn.Body, `^ecdh\.Unmarshal$`); len(a) == 1 && show(a[0]) == "raw.PublicKey" {
		if uf := fnOf("internal/ecdh", "Unmarshal"); uf != nil {
			if is := fFindIf(uf.Body, `len\(data\)`); is != nil {
				retFalse := false
				if len(is.Body.List) == 1 {
					if r, ok := is.Body.List[0].(*ast.ReturnStmt); ok && len(r.Results) == 2 && show(r.Results[1]) == "false" {
						retFalse = true
					}
				}
				if retFalse {
					boolExpr(g, "pubKeyRejected", "(len : Int)", "internal/ecdh", is.Cond, map[string]string{"len(data)": "len"})
				} else {
					unrec(g, "pubKeyRejected", "ecdh.Unmarshal: length test does not return (nil, false)")
				}
			} else {
				unrec(g, "pubKeyRejected", "ecdh.Unmarshal: no length test")
			}
		}
	} else {
		unrec(g, "pubKeyRejected", "ecdh.Unmarshal(raw.PublicKey) not found")
	}
	// ---- plain assignments ----
	{
		want := []string{"auth.UID", "auth.Unordered", "auth.MockDomain", "auth.ProxyMethod", "auth.ServerPubKey", "remote.RemoteAddr", "local.LocalAddr",
			"local.MockDomainList", "raw.AlternativeNames"}
		var got [][2]string
		for _, st := range fn.Body.List {
			if a, ok := st.(*ast.AssignStmt); ok && len(a.Lhs) == 1 && len(a.Rhs) == 1 {
				for _, w := range want {
					if show(a.Lhs[0]) == w {
						got = append(got, [2]string{w, show(a.Rhs[0])})
					}
				}
			}
		}
		emit(g, "assigns", "List (String × String)", fPairList(got), "top-level assignments of ProcessRawConfig to the listed fields, in order")
		// the filter loop of the alternative names
		var rs *ast.RangeStmt
		ast.Inspect(fn.Body, func(n ast.Node) bool {
			if r, ok := n.(*ast.RangeStmt); ok && rs == nil && show(r.X) == "raw.AlternativeNames" {
				rs = r
			}
			return true
		})
		if rs != nil && len(rs.Body.List) == 1 {
			if is, ok := rs.Body.List[0].(*ast.IfStmt); ok && is.Else == nil && len(is.Body.List) == 1 &&
				show(is.Body.List[0]) == "filteredAlternativeNames = append(filteredAlternativeNames, "+show(rs.Value)+")" {
				boolExpr(g, "altNameKept", "(len : Int)", cl, is.Cond, map[string]string{"len(" + show(rs.Value) + ")": "len"})
			} else {
				unrec(g, "altNameKept", "unexpected filter loop body")
			}
		} else {
			unrec(g, "altNameKept", "filter loop over raw.AlternativeNames not found")
		}
	}
	// ---- ssvToJson ----
	if sf := fnOf(cl, "ssvToJson"); sf == nil {
		unrec(g, "ssvUnquoted", "ssvToJson not found")
	} else {
		if e := assignRHS(sf, `^unquoted$`); e != nil {
			if cl, ok := e.(*ast.CompositeLit); ok {
				var xs []string
				for _, el := range cl.Elts {
					if s, ok := fUnq(el); ok {
						xs = append(xs, s)
					}
				}
				emit(g, "ssvUnquoted", "List String", fLeanStrList(xs), show(e))
			}
		}
		var reps [][2]string
		chain := true
		for i, c := range allCalls(sf.Body, `^strings\.Replace$`) {
			if len(c.Args) == 4 {
				a, ok1 := fUnq(c.Args[1])
				b, ok2 := fUnq(c.Args[2])
				if ok1 && ok2 && show(c.Args[3]) == "-1" {
					reps = append(reps, [2]string{a, b})
				}
				if (i == 0 && show(c.Args[0]) != "s") || (i > 0 && show(c.Args[0]) != "r") {
					chain = false
				}
			}
		}
		emit(g, "ssvUnescape", "List (String × String)", fPairList(reps), "unescape: strings.Replace(_, old, new, -1) pairs in order")
		boolFact(g, "ssvUnescapeChained", chain, "each Replace works on the result of the previous one")
		src := show(sf.Body)
		boolFact(g, "ssvShape", strings.Contains(src, `strings.Split(unescape(ssv), ";")`) && strings.Contains(src, `if ln == "" { break }`) &&
			strings.Contains(src, `strings.SplitN(ln, "=", 2)`) && strings.Contains(src, `if len(sp) < 2 {`) &&
			strings.Contains(src, `strings.HasPrefix(key, "AlternativeNames")`) && strings.Contains(src, `strings.Contains(value, ",")`) &&
			strings.Contains(src, `ret = ret[:len(ret)-1]`) && strings.Contains(src, `ret = append(ret, '}')`),
			"unescape, split on ';', stop at the first empty item, split on the first '=', skip items without '=', array case, last comma dropped")
	}
	if pf := fnOf(cl, "ParseConfig"); pf != nil {
		if c := ifCond(pf, `strings\.Contains`); c != nil {
			emit(g, "parseIsSsvCond", "String", leanStr(show(c)), "ParseConfig: when the argument is treated as an option string")
		}
	}
	// ---- ParseConfig: what json.Unmarshal decodes into ----
	// `raw` is a *RawConfig. Unmarshal(content, &raw) decodes into the POINTER: the JSON value `null` sets it to nil and
	// reports no error, so the caller gets (nil, nil). Unmarshal(content, raw) decodes into the struct: `null` is a no-op
	// and the (empty) configuration is then refused by ProcessRawConfig.
	fParseTarget(g)
	fConnectFacts(g)
	// ---- cmd/ck-client: what the dialer gets ----
	found := ""
	for _, f := range pkgs["cmd/ck-client"].files {
		ast.Inspect(f, func(n ast.Node) bool {
			if c, ok := n.(*ast.CompositeLit); ok && show(c.Type) == "net.Dialer" {
				for _, el := range c.Elts {
					if kv, ok := el.(*ast.KeyValueExpr); ok && show(kv.Key) == "KeepAlive" {
						found = show(kv.Value)
					}
				}
			}
			return true
		})
		ast.Inspect(f, func(n ast.Node) bool {
			if a, ok := n.(*ast.AssignStmt); ok && len(a.Rhs) == 1 && strings.Contains(show(a.Rhs[0]), "ProcessRawConfig(") && len(a.Lhs) == 4 {
				emit(g, "processResultNames", "List String", fLeanStrList([]string{show(a.Lhs[0]), show(a.Lhs[1]), show(a.Lhs[2])}), show(a))
			}
			return true
		})
	}
	emit(g, "dialerKeepAliveArg", "String", leanStr(found), "cmd/ck-client: net.Dialer{KeepAlive: ...}")
	// ---- cmd/ck-client: an invalid LocalHost/LocalPort is an error in UDP mode as it is in TCP mode: the error of
	// net.ResolveUDPAddr is not dropped (ListenUDP(nil) listens on a random port of every interface) ----
	resolveCalls, dropped, checked := 0, 0, 0
	for _, f := range pkgs["cmd/ck-client"].files {
		ast.Inspect(f, func(n ast.Node) bool {
			blk, ok := n.(*ast.BlockStmt)
			if !ok {
				return true
			}
			for i, st := range blk.List {
				a, ok := st.(*ast.AssignStmt)
				if !ok || len(a.Rhs) != 1 || !strings.HasPrefix(show(a.Rhs[0]), "net.ResolveUDPAddr(") || len(a.Lhs) != 2 {
					continue
				}
				resolveCalls++
				if show(a.Lhs[1]) == "_" {
					dropped++
					continue
				}
				if i+1 < len(blk.List) {
					if is, ok := blk.List[i+1].(*ast.IfStmt); ok && show(is.Cond) == show(a.Lhs[1])+" != nil" && len(is.Body.List) >= 1 {
						if _, isRet := is.Body.List[len(is.Body.List)-1].(*ast.ReturnStmt); isRet || strings.Contains(show(is.Body), "log.Fatal") {
							checked++
						}
					}
				}
			}
			return true
		})
	}
	boolFact(g, "udpLocalAddrErrorChecked", resolveCalls >= 1 && dropped == 0 && checked == resolveCalls, "cmd/ck-client: the error of every net.ResolveUDPAddr(localConfig.LocalAddr) is tested and ends the bind")
}

func fParseTarget(g string) {
	pf := fnOf(cl, "ParseConfig")
	if pf == nil {
		unrec(g, "parseNullOutcome", "ParseConfig not found")
		return
	}
	// the configuration variable: a named result or local of type *RawConfig, allocated with new(RawConfig) / &RawConfig{}
	name := ""
	if pf.Type.Results != nil {
		for _, f := range pf.Type.Results.List {
			if show(f.Type) == "*RawConfig" && len(f.Names) == 1 {
				name = f.Names[0].Name
			}
		}
	}
	um := allCalls(pf.Body, `^json\.Unmarshal$`)
	if name == "" || len(um) != 1 || len(um[0].Args) != 2 {
		unrec(g, "parseNullOutcome", "ParseConfig: expected a result `x *RawConfig` and one json.Unmarshal(content, target)")
		return
	}
	alloc := assignRHS(pf, "^"+regexp.QuoteMeta(name)+"$")
	allocated := alloc != nil && (show(alloc) == "new(RawConfig)" || show(alloc) == "&RawConfig{}")
	// a later `if x == nil { return ..., <error> }` also repairs it
	nilCheck := false
	ast.Inspect(pf.Body, func(n ast.Node) bool {
		if is, ok := n.(*ast.IfStmt); ok && is.Pos() > um[0].Pos() && show(is.Cond) == name+" == nil" && len(is.Body.List) > 0 {
			if rs, ok := is.Body.List[len(is.Body.List)-1].(*ast.ReturnStmt); ok {
				t := show(rs)
				nilCheck = nilCheck || (t != "return" && !strings.HasSuffix(t, ", nil")) || strings.Contains(show(is.Body), "err = ")
			}
		}
		return true
	})
	target := show(um[0].Args[1])
	strFact := func(v, src string) { emit(g, "parseNullOutcome", "String", leanStr(v), src) }
	switch {
	case !allocated:
		unrec(g, "parseNullOutcome", "ParseConfig: "+name+" is not allocated with new(RawConfig) before json.Unmarshal")
	case target == name:
		strFact("empty-config", "ParseConfig: json.Unmarshal(content, "+target+") decodes into the allocated struct: a `null` document leaves an empty configuration")
	case target == "&"+name && nilCheck:
		strFact("error", "ParseConfig: json.Unmarshal(content, "+target+") decodes into the pointer variable (a `null` document sets it to nil) and a nil test with an error return follows")
	case target == "&"+name:
		strFact("nil-config", "ParseConfig: json.Unmarshal(content, "+target+") decodes into the pointer variable: a `null` document sets it to nil without an error and nothing checks it: ParseConfig returns (nil, nil)")
	default:
		unrec(g, "parseNullOutcome", "ParseConfig: unexpected json.Unmarshal target "+target)
	}
	// cmd/ck-client uses the result without a nil test (field access right after the error check)
	deref := false
	for _, f := range pkgs["cmd/ck-client"].files {
		ast.Inspect(f, func(n ast.Node) bool {
			if a, ok := n.(*ast.AssignStmt); ok && len(a.Rhs) == 1 && len(a.Lhs) == 2 && strings.Contains(show(a.Rhs[0]), "client.ParseConfig(") {
				v := show(a.Lhs[0])
				src := show(f)
				deref = strings.Contains(src, v+".") && !strings.Contains(src, v+" == nil")
			}
			return true
		})
	}
	boolFact(g, "mainUsesConfigWithoutNilTest", deref, "cmd/ck-client: the *RawConfig returned by client.ParseConfig is dereferenced without a nil test")
}

// fConnectFacts: what the first connection does with two processed values.
//   - makeAuthenticationPayload answers an error of ecdh.GenerateSharedSecret(.., authInfo.ServerPubKey) with log.Panicf
//   - which transport replaces the server name "random" by randomServerName()
func fConnectFacts(g string) {
	if fn := fnOf(cl, "makeAuthenticationPayload"); fn == nil {
		unrec(g, "authPayloadPanicsOnDHError", "makeAuthenticationPayload not found")
	} else {
		found, panics := false, false
		var list []ast.Stmt = fn.Body.List
		for i, st := range list {
			a, ok := st.(*ast.AssignStmt)
			if !ok || len(a.Rhs) != 1 || len(a.Lhs) != 2 || show(a.Lhs[1]) != "err" {
				continue
			}
			c, ok := a.Rhs[0].(*ast.CallExpr)
			if !ok || show(c.Fun) != "ecdh.GenerateSharedSecret" || len(c.Args) != 2 || show(c.Args[1]) != "authInfo.ServerPubKey" {
				continue
			}
			found = true
			if i+1 < len(list) {
				if is, ok := list[i+1].(*ast.IfStmt); ok && show(is.Cond) == "err != nil" {
					panics = len(allCalls(is.Body, `^(log\.Panicf?|log\.Fatalf?|panic)$`)) > 0
					if !panics {
						// must leave the function with the error instead
						if _, ok := is.Body.List[len(is.Body.List)-1].(*ast.ReturnStmt); !ok {
							unrec(g, "authPayloadPanicsOnDHError", "makeAuthenticationPayload: the DH error is neither fatal nor returned")
							return
						}
					}
				}
			}
		}
		if !found {
			unrec(g, "authPayloadPanicsOnDHError", "makeAuthenticationPayload: ecdh.GenerateSharedSecret(_, authInfo.ServerPubKey) not found")
		} else {
			boolFact(g, "authPayloadPanicsOnDHError", panics, "makeAuthenticationPayload: an error of ecdh.GenerateSharedSecret(ephPv, authInfo.ServerPubKey) is answered with log.Panicf")
		}
	}
	for _, t := range []struct{ fact, fn string }{{"directRandomisesServerName", "DirectTLS.Handshake"}, {"cdnRandomisesServerName", "WSOverTLS.Handshake"}} {
		fn := fnOf(cl, t.fn)
		if fn == nil {
			unrec(g, t.fact, t.fn+" not found")
			continue
		}
		src := show(fn.Body)
		if !strings.Contains(src, "authInfo.MockDomain") {
			unrec(g, t.fact, t.fn+": authInfo.MockDomain is not used")
			continue
		}
		rnd := false
		ast.Inspect(fn.Body, func(n ast.Node) bool {
			if is, ok := n.(*ast.IfStmt); ok && regexp.MustCompile(`^strings\.EqualFold\([A-Za-z.]+, "random"\)$`).MatchString(show(is.Cond)) &&
				len(allCalls(is.Body, `^randomServerName$`)) == 1 {
				rnd = true
			}
			return true
		})
		boolFact(g, t.fact, rnd, t.fn+": the server name `random` (any case) is replaced by randomServerName() for this connection")
	}
}
