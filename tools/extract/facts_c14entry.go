package main

import (
	"strings"
	"fmt"
	"go/ast"
	"go/token"
	"regexp"
)

// ---------- C14, the two places where a datagram ENTERS a stream from a packet source ----------
//   client.RouteUDP   (internal/client/piper.go):     localConn.ReadFrom(data) ; stream.Write(data[:i])
//   Stream.ReadFrom   (internal/multiplex/stream.go): r.Read((*buf)[hdr : hdr+L]) ; one frame per Read
// A packet source cuts a datagram to the buffer it is read into, silently. So the buffer lengths and the size
// test (or its absence) decide whether a datagram arrives whole / is refused, or is sent truncated.
// Everything goes to group "Datagram" (Gen.Datagram.*), next to the facts of facts_c14.go.

func init() { register(factsC14Entry) }

func factsC14Entry() {
	g := "Datagram"
	constFact(g, "frameHeaderLen", mx, "frameHeaderLength")
	if ms := fnOf(mx, "MakeSession"); ms == nil {
		unrec(g, "streamSendBufferSize", "MakeSession not found")
	} else {
		numExpr(g, "streamSendBufferSize", "(limit : Int)", mx, assignRHS(ms, `^sesh\.streamSendBufferSize$`), map[string]string{"sesh.MsgOnWireSizeLimit": "limit"})
	}

	// ----- client.RouteUDP -----
	ru := fnOf(cl, "RouteUDP")
	if ru == nil {
		unrec(g, "routeUDPBufLen", "client.RouteUDP not found")
	} else {
		evs := events(ru)
		// the entry buffer: `data := make([]byte, N)` before the loop, N a constant expression
		var bufName string
		var bufLen ast.Expr
		iFor := idx(evs, 0, "for", `^$`)
		reRead := regexp.MustCompile(`^localConn\.ReadFrom\((\w+)\)$`)
		iRead := -1
		for i, e := range evs {
			if e.kind == "call" && i > iFor && iFor >= 0 {
				if m := reRead.FindStringSubmatch(e.text); m != nil {
					iRead, bufName = i, m[1]
					break
				}
			}
		}
		nMake := 0
		if bufName != "" {
			for i, e := range evs {
				a, ok := e.node.(*ast.AssignStmt)
				if !ok || e.kind != "assign" || len(a.Lhs) != 1 || show(a.Lhs[0]) != bufName {
					continue
				}
				nMake++
				if c, ok := a.Rhs[0].(*ast.CallExpr); ok && i < iFor && e.depth == 0 && show(c.Fun) == "make" && len(c.Args) == 2 && show(c.Args[0]) == "[]byte" {
					bufLen = c.Args[1]
				}
			}
		}
		if bufLen == nil || nMake != 1 {
			unrec(g, "routeUDPBufLen", "RouteUDP: `<buf> := make([]byte, N)` before the loop, read by `localConn.ReadFrom(<buf>)` inside it, not found (or <buf> is assigned more than once)")
		} else if v, err := pkgs[cl].evalConst(bufLen, 0); err != nil {
			unrec(g, "routeUDPBufLen", err.Error())
		} else {
			emit(g, "routeUDPBufLen", "Int", fmt.Sprintf("%d", v), "RouteUDP: "+bufName+" := make([]byte, "+show(bufLen)+"); ... localConn.ReadFrom("+bufName+")")
		}
		// the way back: the goroutine of a stream reads it with `buf := make([]byte, N)` (inside the go func) and writes exactly
		// what it read to the local socket
		retLen := int64(-1)
		retWrites := false
		ast.Inspect(ru.Body, func(n ast.Node) bool {
			fl, ok := n.(*ast.FuncLit)
			if !ok {
				return true
			}
			var name string
			for _, st := range fl.Body.List {
				if a, ok := st.(*ast.AssignStmt); ok && len(a.Lhs) == 1 && len(a.Rhs) == 1 {
					if c, ok := a.Rhs[0].(*ast.CallExpr); ok && show(c.Fun) == "make" && len(c.Args) == 2 && show(c.Args[0]) == "[]byte" {
						if v, err := pkgs[cl].evalConst(c.Args[1], 0); err == nil {
							name, retLen = show(a.Lhs[0]), v
						}
					}
				}
			}
			if name != "" {
				body := show(fl.Body)
				retWrites = strings.Contains(body, "stream.Read("+name+")") && regexp.MustCompile(`localConn\.WriteTo\(`+regexp.QuoteMeta(name)+`\[:n\], \w+\)`).MatchString(body)
			}
			return false
		})
		if retLen < 0 {
			unrec(g, "routeUDPReturnBufLen", "RouteUDP: the per-stream goroutine's `buf := make([]byte, N)` not found")
		} else {
			emit(g, "routeUDPReturnBufLen", "Int", fmt.Sprintf("%d", retLen), "RouteUDP: buffer the per-stream goroutine reads the stream with")
			boolFact(g, "routeUDPReturnWritesWhatWasRead", retWrites, "RouteUDP: stream.Read(buf) then localConn.WriteTo(buf[:n], proxyAddr)")
		}
		// the datagram is read into the WHOLE buffer once per iteration and exactly what was read is written to the stream
		var nName string
		if iRead >= 0 {
			for i := iRead; i < len(evs) && i <= iRead+1; i++ {
				if a, ok := evs[i].node.(*ast.AssignStmt); ok && len(a.Lhs) == 3 && len(a.Rhs) == 1 && show(a.Rhs[0]) == evs[iRead].text {
					nName = show(a.Lhs[0])
				}
			}
		}
		iWrite := -1
		if nName != "" {
			iWrite = idx(evs, iRead, "call", `^stream\.Write\(`+regexp.QuoteMeta(bufName)+`\[:`+regexp.QuoteMeta(nName)+`\]\)$`)
		}
		reassigned := 0
		if nName != "" {
			for i := iRead + 2; i < len(evs) && i < iWrite; i++ {
				if a, ok := evs[i].node.(*ast.AssignStmt); ok && evs[i].kind == "assign" {
					for _, l := range a.Lhs {
						if show(l) == nName || show(l) == bufName {
							reassigned++
						}
					}
				}
			}
		}
		boolFact(g, "routeUDPWritesWhatWasRead", iRead >= 0 && iWrite > iRead && reassigned == 0 &&
			count(evs, "call", `^localConn\.ReadFrom\(`) == 1 && count(evs, "call", `^stream\.Write\(`) == 1,
			"RouteUDP: one `i, addr, err := localConn.ReadFrom(data)` per iteration (into the whole buffer) and one `stream.Write(data[:i])` after it, i and data untouched in between")
		// a refused datagram: the write error is handled by dropping the stream (delete from the map, Close) and going on
		refusal := false
		if iWrite >= 0 {
			if iIf := idx(evs, iWrite, "if", `^err != nil$`); iIf >= 0 {
				if s, ok := evs[iIf].node.(*ast.IfStmt); ok {
					be := g14blockEvents(s.Body)
					iDel := idx(be, 0, "call", `^delete\(streams, addr\.String\(\)\)$`)
					iClose := idx(be, 0, "call", `^stream\.Close\(\)$`)
					iCont := idx(be, 0, "branch", `^continue$`)
					refusal = iDel >= 0 && iClose >= 0 && iCont > iDel && iCont > iClose
				}
			}
		}
		boolFact(g, "routeUDPRefusalDropsStream", refusal,
			"RouteUDP: `if err != nil` after stream.Write: delete(streams, addr.String()); stream.Close(); continue")
	}

	// ----- Stream.ReadFrom -----
	rf := fnOf(mx, "Stream.ReadFrom")
	if rf == nil {
		unrec(g, "readFromLen", "Stream.ReadFrom not found")
		return
	}
	evs := events(rf)
	reRd := regexp.MustCompile(`^r\.Read\(\(\*buf\)\[frameHeaderLength : ?frameHeaderLength ?\+ ?(.+)\]\)$`)
	iRd, lenTxt := -1, ""
	var rdCall *ast.CallExpr
	for i, e := range evs {
		if e.kind == "call" {
			if m := reRd.FindStringSubmatch(e.text); m != nil {
				iRd, lenTxt = i, m[1]
				rdCall = e.node.(*ast.CallExpr)
				break
			}
		}
	}
	iSend := idx(evs, 0, "call", `^s\.obfuscateAndSend\(\*buf, frameHeaderLength\)$`)
	if iRd < 0 || iSend < iRd || count(evs, "call", `^r\.Read\(`) != 1 || count(evs, "call", `obfuscateAndSend\(`) != 1 {
		unrec(g, "readFromLen", "ReadFrom: one `r.Read((*buf)[frameHeaderLength : frameHeaderLength+L])` followed by one `s.obfuscateAndSend(*buf, frameHeaderLength)` not found")
		return
	}
	_ = rdCall
	// the length L handed to the source's Read, as a function of (max, packet source?, unordered?)
	const maxTxt = "s.session.maxStreamUnitWrite"
	switch {
	case lenTxt == maxTxt:
		emitFn(g, "readFromLen", "(max : Int) (pkt unordered : Bool)", "Int", "max", "ReadFrom: r.Read((*buf)[frameHeaderLength : frameHeaderLength+"+lenTxt+"])")
	case regexp.MustCompile(`^\w+$`).MatchString(lenTxt):
		// L is a local: `L := s.session.maxStreamUnitWrite`, then at most one `if _, p := r.(net.PacketConn); <cond over p, s.session.Unordered> { L++ | L += k | L = L + k }`
		var base ast.Expr
		var bump *ast.IfStmt
		bumpBy := int64(0)
		baseDepth := -1
		nAssign := 0
		bad := ""
		for i := 0; i < iRd; i++ {
			e := evs[i]
			switch n := e.node.(type) {
			case *ast.AssignStmt:
				if e.kind != "assign" || len(n.Lhs) != 1 || show(n.Lhs[0]) != lenTxt {
					continue
				}
				nAssign++
				if n.Tok == token.DEFINE && base == nil {
					base, baseDepth = n.Rhs[0], e.depth
					continue
				}
				k, ok := int64(0), false
				if n.Tok == token.ADD_ASSIGN {
					if v, err := pkgs[mx].evalConst(n.Rhs[0], 0); err == nil {
						k, ok = v, true
					}
				} else if n.Tok == token.ASSIGN {
					if b, isB := n.Rhs[0].(*ast.BinaryExpr); isB && b.Op == token.ADD && show(b.X) == lenTxt {
						if v, err := pkgs[mx].evalConst(b.Y, 0); err == nil {
							k, ok = v, true
						}
					}
				}
				if !ok || e.depth != baseDepth+1 {
					bad = "unsupported assignment " + e.text
				}
				bumpBy += k
			case *ast.IncDecStmt:
				if show(n.X) != lenTxt {
					continue
				}
				nAssign++
				if n.Tok != token.INC || e.depth != baseDepth+1 {
					bad = "unsupported " + e.text
				}
				bumpBy++
			}
		}
		// the enclosing if of the bump
		ast.Inspect(rf.Body, func(n ast.Node) bool {
			if s, ok := n.(*ast.IfStmt); ok && bump == nil {
				be := g14blockEvents(s.Body)
				for _, b := range be {
					if (b.kind == "incdec" || b.kind == "assign") && regexp.MustCompile(`^`+lenTxt+`\b`).MatchString(b.text) && b.depth == 0 {
						bump = s
					}
				}
			}
			return true
		})
		switch {
		case bad != "" || base == nil || show(base) != maxTxt:
			unrec(g, "readFromLen", "ReadFrom: read length `"+lenTxt+"` is not `"+lenTxt+" := "+maxTxt+"` plus one conditional increment ("+bad+")")
		case nAssign == 1:
			emitFn(g, "readFromLen", "(max : Int) (pkt unordered : Bool)", "Int", "max", "ReadFrom: "+lenTxt+" := "+maxTxt)
		case nAssign == 2 && bump != nil && bump.Else == nil:
			vars := map[string]string{"s.session.Unordered": "unordered"}
			okInit := bump.Init == nil
			if a, ok := bump.Init.(*ast.AssignStmt); ok && len(a.Lhs) == 2 && show(a.Lhs[0]) == "_" && len(a.Rhs) == 1 && show(a.Rhs[0]) == "r.(net.PacketConn)" {
				vars[show(a.Lhs[1])] = "pkt"
				okInit = true
			}
			x := &xlate{p: pkgs[mx], vars: vars}
			c := x.cond(bump.Cond)
			if !okInit || x.err != nil {
				unrec(g, "readFromLen", fmt.Sprintf("ReadFrom: condition of the read-length increment not understood: %s (%v)", show(bump.Cond), x.err))
			} else {
				emitFn(g, "readFromLen", "(max : Int) (pkt unordered : Bool)", "Int", fmt.Sprintf("if %s then max + %d else max", c, bumpBy),
					"ReadFrom: "+lenTxt+" := "+maxTxt+"; if "+show(bump.Init)+"; "+show(bump.Cond)+" { "+lenTxt+" += "+fmt.Sprint(bumpBy)+" }")
			}
		default:
			unrec(g, "readFromLen", "ReadFrom: read length `"+lenTxt+"` assigned in a way the extractor does not know")
		}
	default:
		unrec(g, "readFromLen", "ReadFrom: read length expression `"+lenTxt+"` not understood")
	}

	// what was read: `read, er := r.Read(...)`; the frame payload is exactly those bytes
	readName := ""
	if iRd+1 < len(evs) {
		if a, ok := evs[iRd+1].node.(*ast.AssignStmt); ok && len(a.Lhs) == 2 && len(a.Rhs) == 1 && show(a.Rhs[0]) == evs[iRd].text {
			readName = show(a.Lhs[0])
		}
	}
	iPl := -1
	if readName != "" {
		iPl = idx(evs, iRd, "assign", `^s\.writingFrame\.Payload = \(\*buf\)\[frameHeaderLength : ?frameHeaderLength ?\+ ?`+regexp.QuoteMeta(readName)+`\]$`)
	}
	boolFact(g, "readFromSendsWhatWasRead", iPl > iRd && iPl < iSend && count(evs, "assign", `^s\.writingFrame\.Payload =`) == 1,
		"ReadFrom: `read, er := r.Read(...)`, then `s.writingFrame.Payload = (*buf)[frameHeaderLength : frameHeaderLength+read]` before the single obfuscateAndSend (one frame per Read, carrying exactly the bytes read)")

	// the size test between the Read and the send: `if read > s.session.maxStreamUnitWrite { ...; return n, io.ErrShortBuffer }`
	var tests []*ast.IfStmt
	for i := iRd; i < iSend; i++ {
		if s, ok := evs[i].node.(*ast.IfStmt); ok && evs[i].kind == "if" && evs[i].depth == 1 && readName != "" &&
			regexp.MustCompile(`\b`+regexp.QuoteMeta(readName)+`\b`).MatchString(evs[i].text) {
			tests = append(tests, s)
		}
	}
	switch {
	case readName == "":
		unrec(g, "readFromRefuses", "ReadFrom: `read, er := r.Read(...)` not found")
	case len(tests) == 0:
		emitFn(g, "readFromRefuses", "(read max : Int)", "Bool", "false", "ReadFrom: no test on the number of bytes read between r.Read and obfuscateAndSend")
	case len(tests) == 1:
		be := g14blockEvents(tests[0].Body)
		last := ""
		if len(be) > 0 && be[len(be)-1].kind == "return" {
			last = be[len(be)-1].text
		}
		if !regexp.MustCompile(`^return \w+, io\.ErrShortBuffer$`).MatchString(last) || count(be, "call", `obfuscateAndSend`) != 0 {
			unrec(g, "readFromRefuses", "ReadFrom: the size test does not end in `return n, io.ErrShortBuffer`")
		} else {
			boolExpr(g, "readFromRefuses", "(read max : Int)", mx, tests[0].Cond, map[string]string{readName: "read", maxTxt: "max"})
		}
	default:
		unrec(g, "readFromRefuses", "ReadFrom: more than one test on the number of bytes read before the send")
	}
}
