package main

import (
	"fmt"
	"go/ast"
	"go/token"
	"regexp"
	"strconv"
	"strings"
)

func init() { register(factsHandshake) }

// sl is one slice or index expression `base[lo:hi]` / `base[i]` found in a function body, bounds evaluated.
type sl struct {
	lo, hi       int64
	hasLo, hasHi bool
	index        bool
	node         ast.Node
}

// slicesOf returns, in source order, every slice/index expression whose operand prints as `base`.
func slicesOf(p *pkgInfo, n ast.Node, base string) []sl {
	var out []sl
	if n == nil {
		return nil
	}
	ast.Inspect(n, func(m ast.Node) bool {
		switch e := m.(type) {
		case *ast.SliceExpr:
			if show(e.X) != base {
				return true
			}
			s := sl{node: e}
			if e.Low != nil {
				if v, err := p.evalConst(e.Low, 0); err == nil {
					s.lo, s.hasLo = v, true
				} else {
					s.lo = -1
				}
			} else {
				s.hasLo = true
			}
			if e.High != nil {
				if v, err := p.evalConst(e.High, 0); err == nil {
					s.hi, s.hasHi = v, true
				}
			}
			out = append(out, s)
		case *ast.IndexExpr:
			if show(e.X) != base {
				return true
			}
			if v, err := p.evalConst(e.Index, 0); err == nil {
				out = append(out, sl{lo: v, hi: v + 1, hasLo: true, hasHi: true, index: true, node: e})
			}
		}
		return true
	})
	return out
}

// byteLit evaluates `[]byte{…}` / `[N]byte{…}` composite literals of constants.
func byteLit(p *pkgInfo, e ast.Expr) ([]int64, bool) {
	cl, ok := e.(*ast.CompositeLit)
	if !ok {
		return nil, false
	}
	t := show(cl.Type)
	if !regexp.MustCompile(`^\[\d*\]byte$`).MatchString(t) {
		return nil, false
	}
	var out []int64
	for _, el := range cl.Elts {
		v, err := p.evalConst(el, 0)
		if err != nil || v < 0 || v > 255 {
			return nil, false
		}
		out = append(out, v)
	}
	return out, true
}

func natList(vs []int64) string {
	ss := make([]string, len(vs))
	for i, v := range vs {
		ss[i] = fmt.Sprint(v)
	}
	return "[" + strings.Join(ss, ", ") + "]"
}

func listFact(g, name string, vs []int64, ok bool, src string) {
	if !ok {
		unrec(g, name, "byte literal not found: "+src)
		return
	}
	emit(g, name, "List Nat", natList(vs), src)
}

// rangeFact emits <name>Lo / <name>Hi from the k-th slice of `base` inside node n.
func rangeFact(g, name string, p *pkgInfo, n ast.Node, base string, k int, src string) {
	ss := slicesOf(p, n, base)
	if k >= len(ss) || !ss[k].hasLo || !ss[k].hasHi {
		unrec(g, name+"Lo", fmt.Sprintf("slice #%d of %s with constant bounds not found (%s)", k, base, src))
		return
	}
	natFact(g, name+"Lo", int(ss[k].lo), src+": "+show(ss[k].node))
	natFact(g, name+"Hi", int(ss[k].hi), src+": "+show(ss[k].node))
}

// callWith finds the first call of funRe in n and returns its printed arguments.
func callWith(n ast.Node, funRe string) []string {
	as := callArgs(n, funRe)
	var out []string
	for _, a := range as {
		out = append(out, show(a))
	}
	return out
}

// ---------- C06: handshake layouts on both sides ----------
func factsHandshake() {
	g := "Handshake"
	pc, ps := pkgs[cl], pkgs[sv]

	// ===== client: 48-byte authentication plaintext =====
	fn := fnOf(cl, "makeAuthenticationPayload")
	if fn == nil {
		unrec(g, "cPlainLen", "makeAuthenticationPayload not found")
	} else {
		if a := assignRHS(fn, `^plaintext$`); a != nil && regexp.MustCompile(`^make\(\[\]byte, \d+\)$`).MatchString(show(a)) {
			v, _ := pc.evalConst(a.(*ast.CallExpr).Args[1], 0)
			natFact(g, "cPlainLen", int(v), show(a))
		} else {
			unrec(g, "cPlainLen", "plaintext := make([]byte, N) not found")
		}
		// copy(plaintext, authInfo.UID): destination is the start of the buffer
		uidAt0 := len(allCalls(fn.Body, `^copy$`)) >= 2 && func() bool {
			for _, c := range allCalls(fn.Body, `^copy$`) {
				if len(c.Args) == 2 && show(c.Args[0]) == "plaintext" && show(c.Args[1]) == "authInfo.UID" {
					return true
				}
			}
			return false
		}()
		boolFact(g, "cUidAtZero", uidAt0, "copy(plaintext, authInfo.UID)")
		// copy(plaintext[a:b], authInfo.ProxyMethod)
		found := false
		for _, c := range allCalls(fn.Body, `^copy$`) {
			if len(c.Args) == 2 && show(c.Args[1]) == "authInfo.ProxyMethod" {
				rangeFact(g, "cMethod", pc, c.Args[0], "plaintext", 0, "client method")
				found = true
			}
		}
		if !found {
			unrec(g, "cMethodLo", "copy(plaintext[a:b], authInfo.ProxyMethod) not found")
		}
		// plaintext[28] = authInfo.EncryptionMethod
		found = false
		ast.Inspect(fn.Body, func(n ast.Node) bool {
			if s, ok := n.(*ast.AssignStmt); ok && len(s.Lhs) == 1 && len(s.Rhs) == 1 && s.Tok == token.ASSIGN && show(s.Rhs[0]) == "authInfo.EncryptionMethod" {
				if ss := slicesOf(pc, s.Lhs[0], "plaintext"); len(ss) == 1 && ss[0].index {
					natFact(g, "cEncIdx", int(ss[0].lo), show(s))
					found = true
				}
			}
			return true
		})
		if !found {
			unrec(g, "cEncIdx", "plaintext[i] = authInfo.EncryptionMethod not found")
		}
		// PutUint64(plaintext[29:37], uint64(…Now().UTC().Unix())) ; PutUint32(plaintext[37:41], authInfo.SessionId)
		if as := callArgs(fn.Body, `^binary\.BigEndian\.PutUint64$`); len(as) == 2 {
			rangeFact(g, "cTs", pc, as[0], "plaintext", 0, "client timestamp")
			boolFact(g, "cTsIsUnixSeconds", regexp.MustCompile(`^uint64\(authInfo\.WorldState\.Now\(\)(\.UTC\(\))?\.Unix\(\)\)$`).MatchString(show(as[1])), show(as[1]))
		} else {
			unrec(g, "cTsLo", "PutUint64(plaintext[..], ..) not found")
		}
		if as := callArgs(fn.Body, `^binary\.BigEndian\.PutUint32$`); len(as) == 2 && show(as[1]) == "authInfo.SessionId" {
			rangeFact(g, "cSid", pc, as[0], "plaintext", 0, "client session id")
		} else {
			unrec(g, "cSidLo", "PutUint32(plaintext[..], authInfo.SessionId) not found")
		}
		// if authInfo.Unordered { plaintext[41] |= UNORDERED_FLAG }
		found = false
		ast.Inspect(fn.Body, func(n ast.Node) bool {
			if s, ok := n.(*ast.IfStmt); ok && show(s.Cond) == "authInfo.Unordered" && len(s.Body.List) == 1 && s.Else == nil {
				if a, ok := s.Body.List[0].(*ast.AssignStmt); ok && a.Tok == token.OR_ASSIGN && len(a.Lhs) == 1 {
					if ss := slicesOf(pc, a.Lhs[0], "plaintext"); len(ss) == 1 && ss[0].index {
						if m, err := pc.evalConst(a.Rhs[0], 0); err == nil {
							natFact(g, "cFlagIdx", int(ss[0].lo), show(s))
							natFact(g, "cFlagMask", int(m), show(a.Rhs[0]))
							found = true
						}
					}
				}
			}
			return true
		})
		if !found {
			unrec(g, "cFlagIdx", "if authInfo.Unordered { plaintext[i] |= FLAG } not found")
		}
		// seal: AESGCMEncrypt(ret.randPubKey[:12], sharedSecret[:], plaintext)
		if as := callArgs(fn.Body, `^common\.AESGCMEncrypt$`); len(as) == 3 {
			rangeFact(g, "cNonce", pc, as[0], "ret.randPubKey", 0, "client nonce")
			boolFact(g, "cSealArgs", show(as[1]) == "sharedSecret[:]" && show(as[2]) == "plaintext", "AESGCMEncrypt(nonce, sharedSecret[:], plaintext)")
		} else {
			unrec(g, "cNonceLo", "AESGCMEncrypt call not found")
		}
		evs := events(fn)
		boolFact(g, "cPayloadShape",
			idx(evs, 0, "call", `^copy\(ret\.randPubKey\[:\], ecdh\.Marshal\(ephPub\)\)`) >= 0 &&
				idx(evs, 0, "call", `^ecdh\.GenerateSharedSecret\(ephPv, authInfo\.ServerPubKey\)`) >= 0 &&
				idx(evs, 0, "call", `^copy\(sharedSecret\[:\], secret\)`) >= 0 &&
				idx(evs, 0, "call", `^copy\(ret\.ciphertextWithTag\[:\], ciphertextWithTag\[:\]\)`) >= 0,
			"random = ephemeral public key; secret = DH(eph, server public key); ciphertext copied whole")
	}

	// ===== server: decryptClientInfo =====
	fn = fnOf(sv, "decryptClientInfo")
	if fn == nil {
		unrec(g, "sUidLo", "decryptClientInfo not found")
	} else {
		if as := callArgs(fn.Body, `^common\.AESGCMDecrypt$`); len(as) == 3 {
			rangeFact(g, "sNonce", ps, as[0], "fragments.randPubKey", 0, "server nonce")
			boolFact(g, "sOpenArgs", show(as[1]) == "fragments.sharedSecret[:]" && show(as[2]) == "fragments.ciphertextWithTag[:]", "AESGCMDecrypt(nonce, sharedSecret[:], ciphertextWithTag[:])")
		} else {
			unrec(g, "sNonceLo", "AESGCMDecrypt call not found")
		}
		// the composite literal info = ClientInfo{...}
		var lit *ast.CompositeLit
		ast.Inspect(fn.Body, func(n ast.Node) bool {
			if c, ok := n.(*ast.CompositeLit); ok && lit == nil && show(c.Type) == "ClientInfo" {
				lit = c
			}
			return true
		})
		fields := map[string]ast.Expr{}
		if lit != nil {
			for _, e := range lit.Elts {
				if kv, ok := e.(*ast.KeyValueExpr); ok {
					fields[show(kv.Key)] = kv.Value
				}
			}
		}
		if f := fields["UID"]; f != nil {
			rangeFact(g, "sUid", ps, f, "plaintext", 0, "server UID")
		} else {
			unrec(g, "sUidLo", "ClientInfo{UID: plaintext[a:b]} not found")
		}
		if f := fields["ProxyMethod"]; f != nil {
			as := callArgs(f, `^bytes\.Trim$`)
			if len(as) == 2 && regexp.MustCompile(`^string\(bytes\.Trim\(`).MatchString(show(f)) {
				rangeFact(g, "sMethod", ps, as[0], "plaintext", 0, "server method")
				cut, err := strconv.Unquote(show(as[1]))
				var bs []int64
				for _, b := range []byte(cut) {
					bs = append(bs, int64(b))
				}
				listFact(g, "sTrimCutset", bs, err == nil, "bytes.Trim cutset "+show(as[1]))
			} else {
				unrec(g, "sMethodLo", "string(bytes.Trim(plaintext[a:b], cutset)) not found")
			}
		} else {
			unrec(g, "sMethodLo", "ClientInfo{ProxyMethod: …} not found")
		}
		if f := fields["EncryptionMethod"]; f != nil {
			if ss := slicesOf(ps, f, "plaintext"); len(ss) == 1 && ss[0].index && show(f) == show(ss[0].node) {
				natFact(g, "sEncIdx", int(ss[0].lo), show(f))
			} else {
				unrec(g, "sEncIdx", "EncryptionMethod: plaintext[i] not found")
			}
		} else {
			unrec(g, "sEncIdx", "ClientInfo{EncryptionMethod: …} not found")
		}
		if f := fields["Unordered"]; f != nil {
			// plaintext[41]&UNORDERED_FLAG != 0
			okf := false
			if b, ok := f.(*ast.BinaryExpr); ok && b.Op == token.NEQ && show(b.Y) == "0" {
				if a, ok := b.X.(*ast.BinaryExpr); ok && a.Op == token.AND {
					if ss := slicesOf(ps, a.X, "plaintext"); len(ss) == 1 && ss[0].index {
						if m, err := ps.evalConst(a.Y, 0); err == nil {
							natFact(g, "sFlagIdx", int(ss[0].lo), show(f))
							natFact(g, "sFlagMask", int(m), show(a.Y))
							okf = true
						}
					}
				}
			}
			if !okf {
				unrec(g, "sFlagIdx", "Unordered: plaintext[i]&FLAG != 0 not found")
			}
		} else {
			unrec(g, "sFlagIdx", "ClientInfo{Unordered: …} not found")
		}
		if a := assignRHS(fn, `^timestamp$`); a != nil && regexp.MustCompile(`^int64\(binary\.BigEndian\.Uint64\(plaintext\[`).MatchString(show(a)) {
			rangeFact(g, "sTs", ps, a, "plaintext", 0, "server timestamp")
		} else {
			unrec(g, "sTsLo", "timestamp := int64(binary.BigEndian.Uint64(plaintext[a:b])) not found")
		}
		if a := assignRHS(fn, `^info\.SessionId$`); a != nil && regexp.MustCompile(`^binary\.BigEndian\.Uint32\(plaintext\[`).MatchString(show(a)) {
			rangeFact(g, "sSid", ps, a, "plaintext", 0, "server session id")
		} else {
			unrec(g, "sSidLo", "info.SessionId = binary.BigEndian.Uint32(plaintext[a:b]) not found")
		}
	}

	// ===== client, direct transport: where the payload goes and where the reply is read =====
	fn = fnOf(cl, "DirectTLS.Handshake")
	if fn == nil {
		unrec(g, "cHelloSidLo", "DirectTLS.Handshake not found")
	} else {
		var lit *ast.CompositeLit
		ast.Inspect(fn.Body, func(n ast.Node) bool {
			if c, ok := n.(*ast.CompositeLit); ok && lit == nil && show(c.Type) == "clientHelloFields" {
				lit = c
			}
			return true
		})
		fields := map[string]ast.Expr{}
		if lit != nil {
			for _, e := range lit.Elts {
				if kv, ok := e.(*ast.KeyValueExpr); ok {
					fields[show(kv.Key)] = kv.Value
				}
			}
		}
		boolFact(g, "cHelloRandomIsPub", fields["random"] != nil && show(fields["random"]) == "payload.randPubKey[:]", "random: payload.randPubKey[:]")
		if f := fields["sessionId"]; f != nil {
			rangeFact(g, "cHelloSid", pc, f, "payload.ciphertextWithTag", 0, "ClientHello session id")
		} else {
			unrec(g, "cHelloSidLo", "clientHelloFields{sessionId: …} not found")
		}
		if f := fields["x25519KeyShare"]; f != nil {
			rangeFact(g, "cHelloKs", pc, f, "payload.ciphertextWithTag", 0, "ClientHello key share")
		} else {
			unrec(g, "cHelloKsLo", "clientHelloFields{x25519KeyShare: …} not found")
		}
		if as := callWith(fn.Body, `^common\.AddRecordLayer$`); len(as) == 3 {
			t, e1 := pkgs[cm].evalConst(mustExpr(strings.TrimPrefix(as[1], "common.")), 0)
			v, e2 := pkgs[cm].evalConst(mustExpr(strings.TrimPrefix(as[2], "common.")), 0)
			if e1 == nil && e2 == nil {
				natFact(g, "cHelloRecType", int(t), as[1])
				natFact(g, "cHelloRecVer", int(v), as[2])
			} else {
				unrec(g, "cHelloRecType", "record type/version constants not evaluable")
			}
		} else {
			unrec(g, "cHelloRecType", "common.AddRecordLayer(ch, typ, ver) not found")
		}
		if a := assignRHS(fn, `^buf$`); a != nil && regexp.MustCompile(`^make\(\[\]byte, \d+\)$`).MatchString(show(a)) {
			v, _ := pc.evalConst(a.(*ast.CallExpr).Args[1], 0)
			natFact(g, "cReplyBufLen", int(v), show(a))
		} else {
			unrec(g, "cReplyBufLen", "buf := make([]byte, N) not found")
		}
		// encrypted := append(buf[6:38], buf[84:116]...)
		if a := assignRHS(fn, `^encrypted$`); a != nil && regexp.MustCompile(`^append\(buf\[\d+:\d+\], buf\[\d+:\d+\]\.\.\.\)$`).MatchString(show(a)) {
			rangeFact(g, "cReplyRand", pc, a, "buf", 0, "reply: ServerHello.random")
			rangeFact(g, "cReplyKs", pc, a, "buf", 1, "reply: ServerHello key share")
		} else {
			unrec(g, "cReplyRandLo", "encrypted := append(buf[a:b], buf[c:d]...) not found")
		}
		if a := assignRHS(fn, `^nonce$`); a != nil {
			rangeFact(g, "cReplyNonce", pc, a, "encrypted", 0, "reply nonce")
		} else {
			unrec(g, "cReplyNonceLo", "nonce := encrypted[a:b] not found")
		}
		if a := assignRHS(fn, `^ciphertextWithTag$`); a != nil {
			rangeFact(g, "cReplyCt", pc, a, "encrypted", 0, "reply sealed key")
		} else {
			unrec(g, "cReplyCtLo", "ciphertextWithTag := encrypted[a:b] not found")
		}
		if as := callWith(fn.Body, `^common\.AESGCMDecrypt$`); len(as) == 3 {
			boolFact(g, "cReplyOpenArgs", as[0] == "nonce" && as[1] == "sharedSecret[:]" && as[2] == "ciphertextWithTag", "AESGCMDecrypt(nonce, sharedSecret[:], ciphertextWithTag)")
		} else {
			unrec(g, "cReplyOpenArgs", "AESGCMDecrypt call not found")
		}
		evs := events(fn)
		iW := idx(evs, 0, "call", `^rawConn\.Write\(chWithRecordLayer\)`)
		iR := idx(evs, 0, "call", `^tls\.Read\(buf\)`)
		iEnc := idx(evs, 0, "assign", `^encrypted := `)
		boolFact(g, "cReplyFirstRecord", iW >= 0 && iR > iW && iEnc > iR && countIn(evs, iR+1, iEnc, "call", `^tls\.Read\(`) == 0, "the offsets are applied to the FIRST record read after the hello was written")
	}

	// ===== client, CDN transport =====
	fn = fnOf(cl, "WSOverTLS.Handshake")
	if fn == nil {
		unrec(g, "cWsReplyLen", "WSOverTLS.Handshake not found")
	} else {
		c := ifCond(fn, `^n != \d+$`)
		if c != nil {
			v, _ := pc.evalConst(c.(*ast.BinaryExpr).Y, 0)
			natFact(g, "cWsReplyLen", int(v), show(c))
		} else {
			unrec(g, "cWsReplyLen", "if n != N not found")
		}
		if a := assignRHS(fn, `^reply$`); a != nil {
			rangeFact(g, "cWsReply", pc, a, "buf", 0, "ws reply")
		} else {
			unrec(g, "cWsReplyLo", "reply := buf[:N] not found")
		}
		if as := callArgs(fn.Body, `^common\.AESGCMDecrypt$`); len(as) == 3 {
			rangeFact(g, "cWsNonce", pc, as[0], "reply", 0, "ws reply nonce")
			ss := slicesOf(pc, as[2], "reply")
			if len(ss) == 1 && ss[0].hasLo && !ss[0].hasHi && ss[0].node.(*ast.SliceExpr).High == nil {
				natFact(g, "cWsCtLo", int(ss[0].lo), show(as[2]))
			} else {
				unrec(g, "cWsCtLo", "reply[k:] not found")
			}
			boolFact(g, "cWsOpenKey", show(as[1]) == "sharedSecret[:]", show(as[1]))
		} else {
			unrec(g, "cWsNonceLo", "AESGCMDecrypt call not found")
		}
		as := callWith(fn.Body, `^header\.Add$`)
		boolFact(g, "cWsHidden", len(as) == 2 && as[0] == `"hidden"` &&
			as[1] == "base64.StdEncoding.EncodeToString(append(payload.randPubKey[:], payload.ciphertextWithTag[:]...))",
			"hidden = base64(randPubKey ‖ ciphertextWithTag)")
	}

	// ===== server, TLS transport: parser =====
	fn = fnOf(sv, "parseClientHello")
	if fn == nil {
		unrec(g, "chMagic", "parseClientHello not found")
	} else {
		// if !bytes.Equal(data[0:3], []byte{0x16, 0x03, 0x01})
		c := ifCond(fn, `^!bytes\.Equal\(data\[`)
		okm := false
		if c != nil {
			as := callArgs(c, `^bytes\.Equal$`)
			if len(as) == 2 {
				if lit, ok := byteLit(ps, as[1]); ok {
					listFact(g, "chMagic", lit, true, show(c))
					rangeFact(g, "chMagicAt", ps, as[0], "data", 0, "magic")
					okm = true
				}
			}
		}
		if !okm {
			unrec(g, "chMagic", "magic test not found")
		}
		// peeled := make([]byte, len(data)-5); copy(peeled, data[5:])
		a := assignRHS(fn, `^peeled$`)
		okp := false
		if a != nil {
			if m := regexp.MustCompile(`^make\(\[\]byte, len\(data\)-(\d+)\)$`).FindStringSubmatch(show(a)); m != nil {
				for _, cc := range allCalls(fn.Body, `^copy$`) {
					if len(cc.Args) == 2 && show(cc.Args[0]) == "peeled" && show(cc.Args[1]) == "data["+m[1]+":]" {
						v, _ := strconv.Atoi(m[1])
						natFact(g, "chRecHdr", v, show(a)+"; "+show(cc))
						okp = true
					}
				}
			}
		}
		if !okp {
			unrec(g, "chRecHdr", "peeled := make(len(data)-N); copy(peeled, data[N:]) not found")
		}
		c = ifCond(fn, `^handshakeType != `)
		if c != nil {
			v, err := ps.evalConst(c.(*ast.BinaryExpr).Y, 0)
			if err == nil {
				natFact(g, "chType", int(v), show(c))
			} else {
				unrec(g, "chType", "handshake type not constant")
			}
		} else {
			unrec(g, "chType", "if handshakeType != T not found")
		}
		boolFact(g, "chLenCheck", ifCond(fn, `^length != len\(peeled\[pointer:\]\)$`) != nil &&
			assignRHS(fn, `^length$`) != nil && show(assignRHS(fn, `^length$`)) == "int(u32(append([]byte{0x00}, peeled[pointer:pointer+3]...)))",
			"24-bit length must equal the rest of the record")
		// the walk: order of pointer advances and of the slices taken
		var adv []string
		for _, e := range rawEvents(fn) {
			if e.kind == "assign" {
				if s := e.node.(*ast.AssignStmt); s.Tok == token.ADD_ASSIGN && show(s.Lhs[0]) == "pointer" {
					adv = append(adv, show(s.Rhs[0]))
				}
			}
		}
		emit(g, "chAdvances", "List String", strList(adv), "`pointer += …` statements of parseClientHello, in order")
		var takes []string
		for _, nm := range []string{"handshakeType", "length", "clientVersion", "random", "sessionIdLen", "sessionId", "cipherSuitesLen", "cipherSuites",
			"compressionMethodsLen", "compressionMethods", "extensionsLen"} {
			if r := assignRHS(fn, "^"+nm+"$"); r != nil {
				takes = append(takes, nm+" := "+show(r))
			}
		}
		emit(g, "chTakes", "List String", strList(takes), "field extractions of parseClientHello")
		evs := events(fn)
		iExt := idx(evs, 0, "call", `^parseExtensions\(peeled\[pointer:\]\)$`)
		boolFact(g, "chExtsRestOfBuffer", iExt >= 0 && idx(evs, iExt, "assign", `^extensions, err := parseExtensions\(peeled\[pointer:\]\)$`) >= 0,
			"extensions are parsed from peeled[pointer:] (the rest of the buffer; extensionsLen is not used) and the error is returned")
	}
	fn = fnOf(sv, "parseExtensions")
	if fn == nil {
		unrec(g, "extLoop", "parseExtensions not found")
	} else {
		var body []string
		ast.Inspect(fn.Body, func(n ast.Node) bool {
			if f, ok := n.(*ast.ForStmt); ok && body == nil {
				body = append(body, "for "+show(f.Cond))
				for _, s := range f.Body.List {
					body = append(body, show(s))
				}
			}
			return true
		})
		emit(g, "extLoop", "List String", strList(body), "loop of parseExtensions")
		boolFact(g, "extTotalIsLen", assignRHS(fn, `^totalLen$`) != nil && show(assignRHS(fn, `^totalLen$`)) == "len(input)", "totalLen := len(input)")
	}
	fn = fnOf(sv, "parseKeyShare")
	if fn == nil {
		unrec(g, "ksLoop", "parseKeyShare not found")
	} else {
		var body []string
		ast.Inspect(fn.Body, func(n ast.Node) bool {
			if f, ok := n.(*ast.ForStmt); ok && body == nil {
				body = append(body, "for "+show(f.Cond))
				for _, s := range f.Body.List {
					body = append(body, show(s))
				}
			}
			return true
		})
		emit(g, "ksLoop", "List String", strList(body), "loop of parseKeyShare")
		c := ifCond(fn, `^bytes\.Equal\(\[\]byte\{`)
		if c != nil {
			lit, ok := byteLit(ps, callArgs(c, `^bytes\.Equal$`)[0])
			listFact(g, "ksGroup", lit, ok, show(c))
		} else {
			unrec(g, "ksGroup", "bytes.Equal([]byte{…}, input[pointer:pointer+2]) not found")
		}
		c = ifCond(fn, `^length != \d+$`)
		if c != nil {
			v, _ := ps.evalConst(c.(*ast.BinaryExpr).Y, 0)
			natFact(g, "ksKeyLen", int(v), show(c))
		} else {
			unrec(g, "ksKeyLen", "if length != N not found")
		}
		boolFact(g, "ksTotalFromFirstTwo", assignRHS(fn, `^totalLen$`) != nil && show(assignRHS(fn, `^totalLen$`)) == "int(u16(input[0:2]))" &&
			assignRHS(fn, `^pointer$`) != nil && show(assignRHS(fn, `^pointer$`)) == "2", "totalLen := int(u16(input[0:2])); pointer := 2")
	}
	nRec := 0
	for _, f := range []string{"parseExtensions", "parseKeyShare", "parseClientHello"} {
		if fn := fnOf(sv, f); fn != nil && len(fn.Body.List) > 0 {
			if d, ok := fn.Body.List[0].(*ast.DeferStmt); ok && contains(show(d), "recover()") && contains(show(d), "err = errors.New") {
				nRec++
			}
		}
	}
	natFact(g, "parsersRecover", nRec, "parsers that open with `defer func(){ if recover() != nil { err = … } }()`")

	fn = fnOf(sv, "TLS.unmarshalClientHello")
	if fn == nil {
		unrec(g, "umExtKey", "TLS.unmarshalClientHello not found")
	} else {
		as := callArgs(fn.Body, `^parseKeyShare$`)
		okk := false
		if len(as) == 1 {
			if ix, ok := as[0].(*ast.IndexExpr); ok && show(ix.X) == "ch.extensions" {
				lit, ok2 := byteLit(ps, ix.Index)
				listFact(g, "umExtKey", lit, ok2, show(as[0]))
				okk = ok2
			}
		}
		if !okk {
			unrec(g, "umExtKey", "parseKeyShare(ch.extensions[[2]byte{…}]) not found")
		}
		c := ifCond(fn, `^len\(ctxTag\) != \d+$`)
		if c != nil {
			v, _ := ps.evalConst(c.(*ast.BinaryExpr).Y, 0)
			natFact(g, "umCtLen", int(v), show(c))
		} else {
			unrec(g, "umCtLen", "if len(ctxTag) != N not found")
		}
		evs := events(fn)
		boolFact(g, "umShape",
			idx(evs, 0, "call", `^copy\(fragments\.randPubKey\[:\], ch\.random\)`) >= 0 &&
				idx(evs, 0, "call", `^ecdh\.Unmarshal\(fragments\.randPubKey\[:\]\)`) >= 0 &&
				idx(evs, 0, "call", `^ecdh\.GenerateSharedSecret\(staticPv, ephPub\)`) >= 0 &&
				idx(evs, 0, "assign", `^ctxTag := append\(ch\.sessionId, keyShare\.\.\.\)$`) >= 0 &&
				idx(evs, 0, "call", `^copy\(fragments\.ciphertextWithTag\[:\], ctxTag\)`) >= 0,
			"random → randPubKey → DH with the static key; ciphertext = session id ‖ key share")
	}

	// ===== server, TLS transport: reply =====
	fn = fnOf(sv, "composeServerHello")
	if fn == nil {
		unrec(g, "shPieces", "composeServerHello not found")
	} else {
		rhs := map[int]ast.Expr{}
		ast.Inspect(fn.Body, func(n ast.Node) bool {
			if s, ok := n.(*ast.AssignStmt); ok && len(s.Lhs) == 1 && len(s.Rhs) == 1 {
				if ix, ok := s.Lhs[0].(*ast.IndexExpr); ok && show(ix.X) == "serverHello" {
					if v, err := ps.evalConst(ix.Index, 0); err == nil {
						rhs[int(v)] = s.Rhs[0]
					}
				}
			}
			return true
		})
		for _, i := range []int{0, 1, 2, 4, 6, 7, 8, 10} {
			if rhs[i] == nil {
				unrec(g, fmt.Sprintf("shPiece%d", i), "serverHello[i] assignment not found")
				continue
			}
			lit, ok := byteLit(ps, rhs[i])
			listFact(g, fmt.Sprintf("shPiece%d", i), lit, ok, fmt.Sprintf("serverHello[%d] = %s", i, show(rhs[i])))
		}
		natFact(g, "shNumPieces", len(rhs), "assigned serverHello pieces")
		if r := rhs[3]; r != nil && regexp.MustCompile(`^append\(nonce\[\d+:\d+\], encryptedSessionKeyWithTag\[\d+:\d+\]\.\.\.\)$`).MatchString(show(r)) {
			rangeFact(g, "shRandNonce", ps, r, "nonce", 0, "ServerHello.random part 1")
			rangeFact(g, "shRandKey", ps, r, "encryptedSessionKeyWithTag", 0, "ServerHello.random part 2")
		} else {
			unrec(g, "shRandNonceLo", "serverHello[3] = append(nonce[a:b], encryptedSessionKeyWithTag[c:d]...) not found")
		}
		boolFact(g, "shEchoesSessionId", rhs[5] != nil && show(rhs[5]) == "sessionId", "serverHello[5] = sessionId")
		if a := assignRHS(fn, `^keyShare$`); a != nil {
			lit, ok := byteLit(ps, a)
			listFact(g, "shKeyShareHdr", lit, ok, show(a))
		} else {
			unrec(g, "shKeyShareHdr", "keyShare := []byte{…} not found")
		}
		if a := assignRHS(fn, `^keyExchange$`); a != nil && regexp.MustCompile(`^make\(\[\]byte, \d+\)$`).MatchString(show(a)) {
			v, _ := ps.evalConst(a.(*ast.CallExpr).Args[1], 0)
			natFact(g, "shKeyExchangeLen", int(v), show(a))
		} else {
			unrec(g, "shKeyExchangeLen", "keyExchange := make([]byte, N) not found")
		}
		okc := false
		for _, c := range allCalls(fn.Body, `^copy$`) {
			if len(c.Args) == 2 && show(c.Args[0]) == "keyExchange" {
				rangeFact(g, "shKsKey", ps, c.Args[1], "encryptedSessionKeyWithTag", 0, "key share payload")
				okc = true
			}
		}
		if !okc {
			unrec(g, "shKsKeyLo", "copy(keyExchange, encryptedSessionKeyWithTag[a:b]) not found")
		}
		if as := callArgs(fn.Body, `^common\.CryptoRandRead$`); len(as) == 1 {
			rangeFact(g, "shKsPad", ps, as[0], "keyExchange", 0, "random tail of the key share")
		} else {
			unrec(g, "shKsPadLo", "common.CryptoRandRead(keyExchange[a:b]) not found")
		}
		boolFact(g, "shPiece9IsKeyShare", rhs[9] != nil && show(rhs[9]) == "append(keyShare, keyExchange...)", "serverHello[9] = append(keyShare, keyExchange...)")
		evs := events(fn)
		iFor := idx(evs, 0, "for", `^range serverHello$`)
		boolFact(g, "shConcatInOrder", iFor >= 0 && idx(evs, iFor, "assign", `^ret = append\(ret, s\.\.\.\)$`) == iFor+2 && evs[iFor+2].depth == evs[iFor].depth+1, "for _, s := range serverHello { ret = append(ret, s...) }")
	}
	fn = fnOf(sv, "composeReply")
	if fn == nil {
		unrec(g, "replyRecTypes", "composeReply not found")
	} else {
		var types []int64
		var inputs []string
		okAll := true
		for _, c := range allCalls(fn.Body, `^addRecordLayer$`) {
			if len(c.Args) != 3 {
				okAll = false
				continue
			}
			lit, ok := byteLit(ps, c.Args[1])
			if !ok || len(lit) != 1 || show(c.Args[2]) != "TLS12" {
				okAll = false
				continue
			}
			types = append(types, lit[0])
			inputs = append(inputs, show(c.Args[0]))
		}
		listFact(g, "replyRecTypes", types, okAll, "record types of composeReply, in order")
		emit(g, "replyRecInputs", "List String", strList(inputs), "record bodies of composeReply, in order")
		if a := assignRHS(fn, `^TLS12$`); a != nil {
			lit, ok := byteLit(ps, a)
			listFact(g, "replyVersion", lit, ok, show(a))
		} else {
			unrec(g, "replyVersion", "TLS12 := []byte{…} not found")
		}
		evs := events(fn)
		boolFact(g, "replyConcat", idx(evs, 0, "assign", `^ret := append\(shBytes, ccsBytes\.\.\.\)$`) >= 0 &&
			idx(evs, 0, "assign", `^ret = append\(ret, encryptedCertBytes\.\.\.\)$`) >= 0 &&
			idx(evs, 0, "assign", `^sh := composeServerHello\(clientHelloSessionId, nonce, encryptedSessionKeyWithTag\)$`) >= 0,
			"reply = ServerHello record ‖ CCS record ‖ cert record")
	}
	fn = fnOf(sv, "addRecordLayer")
	if fn == nil {
		unrec(g, "recLayerShape", "addRecordLayer not found")
	} else {
		evs := events(fn)
		boolFact(g, "recLayerShape",
			idx(evs, 0, "call", `^binary\.BigEndian\.PutUint16\(length, uint16\(len\(input\)\)\)`) >= 0 &&
				idx(evs, 0, "assign", `^ret := make\(\[\]byte, 5\+len\(input\)\)$`) >= 0 &&
				idx(evs, 0, "call", `^copy\(ret\[0:1\], typ\)`) >= 0 && idx(evs, 0, "call", `^copy\(ret\[1:3\], ver\)`) >= 0 &&
				idx(evs, 0, "call", `^copy\(ret\[3:5\], length\)`) >= 0 && idx(evs, 0, "call", `^copy\(ret\[5:\], input\)`) >= 0,
			"record = typ(1) ‖ ver(2) ‖ be16 len ‖ body")
	}
	fn = fnOf(sv, "TLS.makeResponder")
	if fn == nil {
		unrec(g, "tlsReplyArgs", "TLS.makeResponder not found")
	} else {
		seal := callWith(fn.Body, `^common\.AESGCMEncrypt$`)
		comp := callWith(fn.Body, `^composeReply$`)
		boolFact(g, "tlsReplyArgs", len(seal) == 3 && seal[0] == "nonce[:]" && seal[1] == "sharedSecret[:]" && seal[2] == "sessionKey[:]" &&
			len(comp) == 4 && comp[0] == "clientHelloSessionId" && comp[1] == "nonce" && comp[2] == "encryptedSessionKeyArr" && comp[3] == "cert" &&
			len(allCalls(fn.Body, `^copy$`)) == 1 && show(allCalls(fn.Body, `^copy$`)[0]) == "copy(encryptedSessionKeyArr[:], encryptedSessionKey)",
			"reply = composeReply(sid, nonce, Seal(sharedSecret, nonce, sessionKey), cert)")
		f2 := fnOf(sv, "TLS.processFirstPacket")
		boolFact(g, "tlsResponderArgs", f2 != nil && len(callWith(f2.Body, `makeResponder$`)) == 2 &&
			callWith(f2.Body, `makeResponder$`)[0] == "ch.sessionId" && callWith(f2.Body, `makeResponder$`)[1] == "fragments.sharedSecret",
			"makeResponder(ch.sessionId, fragments.sharedSecret)")
	}

	// ===== server, WebSocket transport =====
	fn = fnOf(sv, "WebSocket.unmarshalHidden")
	if fn == nil {
		unrec(g, "wsHiddenMin", "WebSocket.unmarshalHidden not found")
	} else {
		c := ifCond(fn, `^len\(hidden\) < \d+$`)
		if c != nil {
			v, _ := ps.evalConst(c.(*ast.BinaryExpr).Y, 0)
			natFact(g, "wsHiddenMin", int(v), show(c))
		} else {
			unrec(g, "wsHiddenMin", "if len(hidden) < N not found")
		}
		c = ifCond(fn, `^len\(hidden\[\d+:\]\) != \d+$`)
		if c != nil {
			v, _ := ps.evalConst(c.(*ast.BinaryExpr).Y, 0)
			natFact(g, "wsCtLen", int(v), show(c))
			ss := slicesOf(ps, c, "hidden")
			natFact(g, "wsCtFrom", int(ss[0].lo), show(c))
		} else {
			unrec(g, "wsCtLen", "if len(hidden[k:]) != N not found")
		}
		okr, okc := false, false
		for _, cc := range allCalls(fn.Body, `^copy$`) {
			if len(cc.Args) != 2 {
				continue
			}
			if show(cc.Args[0]) == "fragments.randPubKey[:]" {
				rangeFact(g, "wsRand", ps, cc.Args[1], "hidden", 0, "hidden: random")
				okr = true
			}
			if show(cc.Args[0]) == "fragments.ciphertextWithTag[:]" {
				ss := slicesOf(ps, cc.Args[1], "hidden")
				if len(ss) == 1 && ss[0].hasLo && ss[0].node.(*ast.SliceExpr).High == nil {
					natFact(g, "wsCtCopyFrom", int(ss[0].lo), show(cc))
					okc = true
				}
			}
		}
		if !okr {
			unrec(g, "wsRandLo", "copy(fragments.randPubKey[:], hidden[a:b]) not found")
		}
		if !okc {
			unrec(g, "wsCtCopyFrom", "copy(fragments.ciphertextWithTag[:], hidden[k:]) not found")
		}
	}
	fn = fnOf(sv, "WebSocket.makeResponder")
	if fn == nil {
		unrec(g, "wsReplyNonceLen", "WebSocket.makeResponder not found")
	} else {
		nonceLen := int64(-1)
		if a := assignRHS(fn, `^nonce$`); a != nil {
			// make([]byte, N) with N a literal or a named constant
			if c, ok := a.(*ast.CallExpr); ok && show(c.Fun) == "make" && len(c.Args) == 2 && show(c.Args[0]) == "[]byte" {
				if v, err := ps.evalConst(c.Args[1], 0); err == nil {
					nonceLen = v
				}
			}
		}
		if nonceLen >= 0 {
			natFact(g, "wsReplyNonceLen", int(nonceLen), "nonce := make([]byte, N) in WebSocket.makeResponder")
		} else {
			unrec(g, "wsReplyNonceLen", "nonce := make([]byte, N) not found")
		}
		seal := callWith(fn.Body, `^common\.AESGCMEncrypt$`)
		boolFact(g, "wsReplyArgs", len(seal) == 3 && seal[0] == "nonce" && seal[1] == "sharedSecret[:]" && seal[2] == "sessionKey[:]" &&
			assignRHS(fn, `^reply$`) != nil && show(assignRHS(fn, `^reply$`)) == "append(nonce, encryptedKey...)" &&
			len(callWith(fn.Body, `^preparedConn\.Write$`)) == 1 && callWith(fn.Body, `^preparedConn\.Write$`)[0] == "reply",
			"reply = nonce ‖ Seal(sharedSecret, nonce, sessionKey), one binary message")
	}
	fn = fnOf(sv, "WebSocket.processFirstPacket")
	boolFact(g, "wsHiddenHeader", fn != nil && contains(show(fn.Body), `base64.StdEncoding.DecodeString(req.Header.Get("hidden"))`) &&
		contains(show(fn.Body), "WebSocket{}.unmarshalHidden(hiddenData, privateKey)") &&
		contains(show(fn.Body), "WebSocket{}.makeResponder(reqPacket, fragments.sharedSecret)"),
		"hidden header → base64 → unmarshalHidden; responder gets the shared secret")
}

func strList(ss []string) string {
	q := make([]string, len(ss))
	for i, s := range ss {
		q[i] = leanStr(s)
	}
	return "[" + strings.Join(q, ", ") + "]"
}

// mustExpr builds an identifier expression (used to evaluate a constant of another package by name).
func mustExpr(name string) ast.Expr { return &ast.Ident{Name: name} }
