package main

import (
	"fmt"
	"go/ast"
	"os"
	"regexp"
	"sort"
	"strings"
)

// ---------- C13: the sender side of a stream (group "Sender") ----------
//
// What the C13 model takes from here:
//   lockWrite / lockReadFrom / lockClose  – is every call chain into obfuscateAndSend covered by writingM?
//       (they select whether the thread programs of Model/Sender.lean contain the lock/unlock steps)
//   seqIncrAfterObfuscate                 – `Seq++` directly after the obfuscate call, before the error return and before send
//       (selects the order of the commit and send steps)
//   the remaining facts are compared with their expected values in C13.gen_structure.

func init() { register(factsSender) }

var reWLock = `\.writingM\.Lock\(\)$`
var reWUnlock = `\.writingM\.Unlock\(\)$`

func dumpEvents(key string, evs []ev) {
	if os.Getenv("VERIF_DUMP") == "" {
		return
	}
	fmt.Fprintln(os.Stderr, "== events of", key)
	for i, e := range evs {
		fmt.Fprintf(os.Stderr, "%3d d%d %-7s %s\n", i, e.depth, e.kind, e.text)
	}
}

// wholeBodyLocked: the body opens with `<x>.writingM.Lock()` followed by `defer <x>.writingM.Unlock()`.
func wholeBodyLocked(evs []ev, lockRe, unlockRe string) bool {
	return len(evs) >= 2 && evs[0].kind == "call" && evs[0].depth == 0 && regexp.MustCompile(lockRe).MatchString(evs[0].text) &&
		evs[1].kind == "defer" && evs[1].depth == 0 && regexp.MustCompile(unlockRe).MatchString(evs[1].text)
}

// callsUnderLock reports whether there is at least one call matching callRe and every such call happens while
// the mutex is held: either the whole body is locked (Lock; defer Unlock) or the call sits, in the same block,
// between a Lock and an Unlock with no way out of the block in between.
func callsUnderLock(evs []ev, lockRe, unlockRe, callRe string) bool {
	cr := regexp.MustCompile(callRe)
	lr := regexp.MustCompile(lockRe)
	ur := regexp.MustCompile(unlockRe)
	var sites []int
	for i, e := range evs {
		if e.kind == "call" && cr.MatchString(e.text) {
			sites = append(sites, i)
		}
	}
	if len(sites) == 0 {
		return false
	}
	if wholeBodyLocked(evs, lockRe, unlockRe) {
		return true
	}
	for _, i := range sites {
		d := evs[i].depth
		okBefore, okAfter := false, false
		for j := i - 1; j >= 0; j-- {
			e := evs[j]
			if e.depth < d || e.kind == "return" || e.kind == "branch" || e.kind == "go" {
				break
			}
			if e.depth == d && (e.kind == "call" || e.kind == "defer") && ur.MatchString(e.text) {
				break
			}
			if e.depth == d && e.kind == "call" && lr.MatchString(e.text) {
				okBefore = true
				break
			}
		}
		for j := i + 1; j < len(evs); j++ {
			e := evs[j]
			if e.depth < d || e.kind == "return" || e.kind == "branch" {
				break
			}
			if e.depth == d && e.kind == "call" && ur.MatchString(e.text) {
				okAfter = true
				break
			}
		}
		if !okBefore || !okAfter {
			return false
		}
	}
	return true
}

// funcsCalling lists the functions of a package whose body contains a call whose printed function matches funRe.
func funcsCalling(dir, funRe string) []string {
	var out []string
	p := pkgs[dir]
	if p == nil {
		return nil
	}
	for key, fn := range p.funcs {
		if fn.Body != nil && len(allCalls(fn.Body, funRe)) > 0 {
			out = append(out, key)
		}
	}
	sort.Strings(out)
	return out
}

// compositeField finds, inside n, the first composite literal whose printed type matches typeRe and that has a
// `key: value` element; returns the value.
func compositeField(n ast.Node, typeRe, key string) ast.Expr {
	var found ast.Expr
	if n == nil {
		return nil
	}
	r := regexp.MustCompile(typeRe)
	ast.Inspect(n, func(m ast.Node) bool {
		if found != nil {
			return false
		}
		if c, ok := m.(*ast.CompositeLit); ok && c.Type != nil && r.MatchString(show(c.Type)) {
			for _, el := range c.Elts {
				if kv, ok := el.(*ast.KeyValueExpr); ok && show(kv.Key) == key {
					found = kv.Value
					return false
				}
			}
		}
		return true
	})
	return found
}

func intFactExpr(group, name, dir string, e ast.Expr, src string) {
	if e == nil {
		unrec(group, name, "expression not found: "+src)
		return
	}
	v, err := pkgs[dir].evalConst(e, 0)
	if err != nil {
		unrec(group, name, err.Error())
		return
	}
	emit(group, name, "Int", fmt.Sprintf("%d", v), src+" = "+show(e))
}

// markedUnderLock: on every control-flow path of the function (lock walker of facts_c17.go: branches, early returns,
// defer), every call whose printed callee matches callRe happens while the named mutex field is held, and there is
// at least one such call.
func markedUnderLock(dir, key, field, callRe string) bool {
	cr := regexp.MustCompile(callRe)
	w := &lockWalker{dir: dir, classes: map[string]int{field: 0}, listed: map[string]string{}, stack: map[string]bool{}, cache: map[string][][]lockEv{}}
	w.markerOf = func(n ast.Node) (int, bool) {
		if c, ok := n.(*ast.CallExpr); ok && cr.MatchString(show(c.Fun)+"(") {
			return 100, true
		}
		return 0, false
	}
	seen := false
	for _, p := range w.fnPrograms(key) {
		held := 0
		for _, e := range p {
			switch {
			case e.cls >= 100:
				seen = true
				if held <= 0 {
					return false
				}
			case e.acq:
				held++
			default:
				held--
			}
		}
	}
	return seen && len(w.bad) == 0
}

// guardedUnderLock: on every control-flow path, every call matching callRe happens while the mutex field is held AND
// a call matching guardRe (the closed test) has been evaluated since that acquisition — the test and the send are
// in ONE critical section.
func guardedUnderLock(dir, key, field, guardRe, callRe string) bool {
	cr, gr := regexp.MustCompile(callRe), regexp.MustCompile(guardRe)
	w := &lockWalker{dir: dir, classes: map[string]int{field: 0}, listed: map[string]string{}, stack: map[string]bool{}, cache: map[string][][]lockEv{}}
	w.markerOf = func(n ast.Node) (int, bool) {
		if c, ok := n.(*ast.CallExpr); ok {
			t := show(c.Fun) + "("
			if cr.MatchString(t) {
				return 100, true
			}
			if gr.MatchString(t) {
				return 101, true
			}
		}
		return 0, false
	}
	seen := false
	for _, p := range w.fnPrograms(key) {
		held, guarded := 0, false
		for _, e := range p {
			switch {
			case e.cls == 101:
				if held > 0 {
					guarded = true
				}
			case e.cls == 100:
				seen = true
				if held <= 0 || !guarded {
					return false
				}
			case e.acq:
				held++
				guarded = false
			default:
				held--
				guarded = false
			}
		}
	}
	return seen && len(w.bad) == 0
}

func factsSender() {
	g := "Sender"
	w := fnOf(mx, "Stream.Write")
	rf := fnOf(mx, "Stream.ReadFrom")
	cl := fnOf(mx, "Stream.Close")
	cs := fnOf(mx, "Session.closeStream")
	oas := fnOf(mx, "Stream.obfuscateAndSend")
	if w == nil || rf == nil || cl == nil || cs == nil || oas == nil {
		unrec(g, "lockWrite", "Stream.Write/ReadFrom/Close, Session.closeStream or Stream.obfuscateAndSend not found")
		return
	}
	for _, k := range []string{"Stream.Write", "Stream.ReadFrom", "Stream.Close", "Session.closeStream", "Stream.obfuscateAndSend", "Session.OpenStream", "Session.Close"} {
		dumpEvents(k, events(fnOf(mx, k)))
	}
	send := `\.obfuscateAndSend\(`
	we, re, ce, cse := events(w), events(rf), events(cl), events(cs)

	// --- the three call chains into obfuscateAndSend
	// Write is modelled as ONE critical section (closed test + all frames): the whole body must be locked
	boolFact(g, "lockWrite", wholeBodyLocked(we, reWLock, reWUnlock) && callsUnderLock(we, reWLock, reWUnlock, send), "Stream.Write: Lock; defer Unlock open the body (closed test and every obfuscateAndSend call in one critical section)")
	boolFact(g, "lockReadFrom", callsUnderLock(re, reWLock, reWUnlock, send) || markedUnderLock(mx, "Stream.ReadFrom", "writingM", send),
		"Stream.ReadFrom: every obfuscateAndSend call is under writingM (on every control-flow path)")
	boolFact(g, "readFromChkUnderLock", guardedUnderLock(mx, "Stream.ReadFrom", "writingM", `\.isClosed\(`, send),
		"Stream.ReadFrom: the closed test that precedes each obfuscateAndSend is made under writingM, in the same critical section (every path)")
	boolFact(g, "writeChkUnderLock", guardedUnderLock(mx, "Stream.Write", "writingM", `\.isClosed\(`, send),
		"Stream.Write: the closed test and every obfuscateAndSend are in one critical section (every path)")
	// Close: the active closeStream call is under writingM, and closeStream sends only in its `if active` branch
	closeLocked := wholeBodyLocked(ce, reWLock, reWUnlock) && callsUnderLock(ce, reWLock, reWUnlock, `\.closeStream\(`)
	iIf := idx(cse, 0, "if", `^active$`)
	sendOnlyIfActive := false
	if iIf >= 0 {
		d := cse[iIf].depth
		end := len(cse)
		for j := iIf + 1; j < len(cse); j++ {
			if cse[j].depth == d && (cse[j].kind == "else" || cse[j].kind == "endif") {
				end = j
				break
			}
		}
		n, inside := 0, 0
		for j, e := range cse {
			if e.kind == "call" && regexp.MustCompile(send).MatchString(e.text) {
				n++
				if j > iIf && j < end {
					inside++
				}
			}
		}
		sendOnlyIfActive = n >= 1 && n == inside
	}
	boolFact(g, "closeSendOnlyIfActive", sendOnlyIfActive, "Session.closeStream: obfuscateAndSend only inside `if active`")
	// every closeStream call site whose second argument is not the literal false must be in a function that holds writingM
	activeOK, nActive, nPassive := true, 0, 0
	for _, key := range funcsCalling(mx, `\.closeStream$`) {
		fn := fnOf(mx, key)
		for _, c := range allCalls(fn.Body, `\.closeStream$`) {
			if len(c.Args) == 2 && show(c.Args[1]) == "false" {
				nPassive++
				continue
			}
			nActive++
			if !callsUnderLock(events(fn), reWLock, reWUnlock, `\.closeStream\(`) {
				activeOK = false
			}
		}
	}
	boolFact(g, "lockClose", closeLocked && activeOK && nActive >= 1, "Stream.Close: Lock; defer Unlock; closeStream(s, true) — and every non-passive closeStream call site holds writingM")
	natFact(g, "activeCloseSites", nActive, "closeStream call sites with a second argument other than the literal false")
	natFact(g, "passiveCloseSites", nPassive, "closeStream(…, false) call sites")
	callers := funcsCalling(mx, `\.obfuscateAndSend$`)
	known := true
	for _, c := range callers {
		if c != "Session.closeStream" && c != "Stream.ReadFrom" && c != "Stream.Write" {
			known = false
		}
	}
	natFact(g, "sendCallerCount", len(callers), "functions of internal/multiplex that call obfuscateAndSend: "+strings.Join(callers, ", "))
	boolFact(g, "sendCallersKnown", known, "they are among Stream.Write, Stream.ReadFrom, Session.closeStream (the three modelled call chains)")

	// --- obfuscateAndSend: obfuscate(&writingFrame …); Seq++; if err != nil {return}; …send…
	oe := events(oas)
	iObf := idx(oe, 0, "call", `\.obfuscate\(&s\.writingFrame`)
	iInc := idx(oe, 0, "incdec", `^s\.writingFrame\.Seq\+\+$`)
	iSend := idx(oe, 0, "call", `\.sb\.send\(`)
	placed := false
	if iObf >= 0 && iInc >= 0 && iSend >= 0 && oe[iInc].depth == 0 {
		// between the obfuscate call and the increment only the assignment that holds the call
		onlyAssign := iInc == iObf+2 && oe[iObf+1].kind == "assign" || iInc == iObf+1
		nextIsErrRet := iInc+2 < len(oe) && oe[iInc+1].kind == "if" && strings.Contains(oe[iInc+1].text, "err != nil") && oe[iInc+2].kind == "return"
		placed = onlyAssign && nextIsErrRet && iSend > iInc
	}
	boolFact(g, "seqIncrAfterObfuscate", placed, "obfuscateAndSend: obfuscate(&s.writingFrame,…); s.writingFrame.Seq++; if err != nil {return err}; … sb.send")
	natFact(g, "seqIncrCount", count(oe, "incdec", `writingFrame\.Seq`)+count(oe, "assign", `^s\.writingFrame(\.Seq)? [-+*/]?=`), "writes of writingFrame.Seq in obfuscateAndSend")
	// package-wide: no other statement writes writingFrame / writingFrame.Seq
	sites := 0
	for _, fn := range pkgs[mx].funcs {
		for _, e := range rawEvents(fn) {
			switch e.kind {
			case "incdec":
				if regexp.MustCompile(`writingFrame(\.Seq)?(\+\+|--)$`).MatchString(e.text) {
					sites++
				}
			case "assign":
				if a, ok := e.node.(*ast.AssignStmt); ok {
					for _, l := range a.Lhs {
						if regexp.MustCompile(`\.writingFrame(\.Seq)?$`).MatchString(show(l)) {
							sites++
						}
					}
				}
			}
		}
	}
	natFact(g, "seqWriteSites", sites, "statements in internal/multiplex that assign writingFrame or writingFrame.Seq")
	// writingFrame.Closing is set in one place (closeStream, to closingStream) and never reset
	clSites, clToStream := 0, 0
	for _, fn := range pkgs[mx].funcs {
		for _, e := range events(fn) {
			if a, ok := e.node.(*ast.AssignStmt); ok && e.kind == "assign" {
				for i, l := range a.Lhs {
					if regexp.MustCompile(`\.writingFrame\.Closing$`).MatchString(show(l)) {
						clSites++
						if i < len(a.Rhs) && show(a.Rhs[i]) == "closingStream" {
							clToStream++
						}
					}
				}
			}
		}
	}
	natFact(g, "closingWriteSites", clSites, "statements in internal/multiplex that assign writingFrame.Closing")
	natFact(g, "closingSetToStream", clToStream, "…of which assign closingStream")
	intFactExpr(g, "closingInit", mx, compositeField(fnOf(mx, "makeStream"), `^Frame$`, "Closing"), "makeStream: writingFrame literal Closing")
	// obfuscate only reads f.Seq
	if of := fnOf(mx, "Obfuscator.obfuscate"); of != nil {
		n := 0
		for _, e := range events(of) {
			if a, ok := e.node.(*ast.AssignStmt); ok && e.kind == "assign" {
				for _, l := range a.Lhs {
					if regexp.MustCompile(`^f(\.\w+)?$`).MatchString(show(l)) {
						n++
					}
				}
			}
			if e.kind == "incdec" && strings.HasPrefix(e.text, "f.") {
				n++
			}
		}
		natFact(g, "obfuscateWritesFrame", n, "assignments to the frame argument inside Obfuscator.obfuscate")
	} else {
		unrec(g, "obfuscateWritesFrame", "Obfuscator.obfuscate not found")
	}
	intFactExpr(g, "seqInit", mx, compositeField(fnOf(mx, "makeStream"), `^Frame$`, "Seq"), "makeStream: writingFrame literal Seq")

	// --- stream ids
	if opn := fnOf(mx, "Session.OpenStream"); opn != nil {
		rhs := assignRHS(opn, `^id$`)
		ok := rhs != nil && regexp.MustCompile(`^atomic\.AddUint32\(&sesh\.nextStreamID, 1\) - 1$`).MatchString(show(rhs))
		boolFact(g, "streamIdAtomic", ok, "OpenStream: id := atomic.AddUint32(&sesh.nextStreamID, 1) - 1")
	} else {
		unrec(g, "streamIdAtomic", "Session.OpenStream not found")
	}
	intFactExpr(g, "nextStreamIDInit", mx, compositeField(fnOf(mx, "MakeSession"), `^Session$`, "nextStreamID"), "MakeSession: nextStreamID")
	uses := 0
	for _, fn := range pkgs[mx].funcs {
		if fn.Body == nil {
			continue
		}
		ast.Inspect(fn.Body, func(n ast.Node) bool {
			if s, ok := n.(*ast.SelectorExpr); ok && s.Sel.Name == "nextStreamID" {
				uses++
			}
			return true
		})
	}
	natFact(g, "nextStreamIDUses", uses, "mentions of .nextStreamID inside function bodies of internal/multiplex (the allocator only)")

	// --- the session-closing notice
	if sc := fnOf(mx, "Session.Close"); sc != nil {
		intFactExpr(g, "sessCloseStreamID", mx, compositeField(sc, `^Frame$`, "StreamID"), "Session.Close: Frame literal StreamID")
		intFactExpr(g, "sessCloseSeq", mx, compositeField(sc, `^Frame$`, "Seq"), "Session.Close: Frame literal Seq")
		intFactExpr(g, "sessCloseClosing", mx, compositeField(sc, `^Frame$`, "Closing"), "Session.Close: Frame literal Closing")
		se := events(sc)
		iCS := idx(se, 0, "call", `^sesh\.closeSession\(\)$`)
		iObf := idx(se, 0, "call", `\.obfuscate\(`)
		guarded := iCS >= 0 && iObf > iCS
		if guarded {
			// `if err != nil { return err }` between the CAS call and the encode
			iIf := idx(se, iCS, "if", `err != nil`)
			guarded = iIf > iCS && iIf < iObf && se[iIf+1].kind == "return"
		}
		csf := fnOf(mx, "Session.closeSession")
		cas := false
		if csf != nil {
			ce := events(csf)
			i := idx(ce, 0, "if", `^!atomic\.CompareAndSwapUint32\(&sesh\.closed, 0, 1\)$`)
			cas = i >= 0 && i <= 1 && idx(ce, i, "return", `errRepeatSessionClosing`) > i
		}
		boolFact(g, "sessCloseOnce", guarded && cas, "Session.Close encodes the notice only after closeSession's CAS succeeded")
	} else {
		unrec(g, "sessCloseStreamID", "Session.Close not found")
	}
	// who else builds a frame with closingSession
	nLit := 0
	for _, fn := range pkgs[mx].funcs {
		if fn.Body == nil {
			continue
		}
		ast.Inspect(fn.Body, func(n ast.Node) bool {
			if kv, ok := n.(*ast.KeyValueExpr); ok && show(kv.Key) == "Closing" && show(kv.Value) == "closingSession" {
				nLit++
			}
			if a, ok := n.(*ast.AssignStmt); ok {
				for i, l := range a.Lhs {
					if strings.HasSuffix(show(l), ".Closing") && i < len(a.Rhs) && show(a.Rhs[i]) == "closingSession" {
						nLit++
					}
				}
			}
			return true
		})
	}
	natFact(g, "sessCloseSites", nLit, "places in internal/multiplex that build a frame with Closing = closingSession")
	constFact(g, "closingNothing", mx, "closingNothing")
	constFact(g, "closingStream", mx, "closingStream")
	constFact(g, "closingSession", mx, "closingSession")
}

// ---------- the payload of a closing frame is never empty ----------
//
// obfuscate refuses an empty payload ("payload cannot be empty"): a closing frame (stream close, session notice, refusal)
// whose random padding came out empty would not be sent at all - the peer would wait for ever on a stream that was closed.
// Every place that builds such a payload must draw `int(<random byte>) + 1` bytes.

func init() { register(factsClosingPad) }

func factsClosingPad() {
	g := "Sender"
	re := regexp.MustCompile(`^int\(\(?\*?\w+\)?\[0\]\) \+ 1$`)
	sites, good := 0, 0
	var bad []string
	helpers := map[string]bool{} // functions (by bare name) that hold a site
	for name, f := range pkgs[mx].funcs {
		if f.Body == nil || name == "Session.obfuscate" || strings.HasPrefix(name, "Obfuscator.") || strings.HasPrefix(name, "MakeObfuscator") {
			continue
		}
		usesClosing := strings.Contains(show(f.Body), "closingStream") || strings.Contains(show(f.Body), "closingSession")
		ast.Inspect(f.Body, func(n ast.Node) bool {
			a, ok := n.(*ast.AssignStmt)
			if !ok || len(a.Lhs) != 1 || len(a.Rhs) != 1 || show(a.Lhs[0]) != "padLen" {
				return true
			}
			if !strings.Contains(show(a.Rhs[0]), "[0]") {
				return true // not a length drawn from a random byte (obfuscate's own padLen is C04's)
			}
			sites++
			helpers[name[strings.LastIndex(name, ".")+1:]] = true
			if re.MatchString(show(a.Rhs[0])) {
				good++
			} else {
				bad = append(bad, name+": padLen := "+show(a.Rhs[0]))
			}
			return true
		})
		_ = usesClosing
	}
	// every function that builds a closing frame must reach one of those sites itself (not through a helper we cannot see into)
	builders := 0
	for _, key := range []string{"Session.closeStream", "Session.Close", "Session.tellRefusals"} {
		f := fnOf(mx, key)
		viaHelper := false
		if f != nil {
			for h := range helpers {
				if regexp.MustCompile(`\b` + regexp.QuoteMeta(h) + `\(`).MatchString(show(f.Body)) {
					viaHelper = true
				}
			}
		}
		if f != nil && (strings.Contains(show(f.Body), "padLen :=") || viaHelper) {
			builders++
		} else if f == nil && key == "Session.tellRefusals" {
			builders++ // a tree without the refusal teller
		}
	}
	sort.Strings(bad)
	src := fmt.Sprintf("closing-frame payloads: %d site(s) `padLen := int(<byte>) + 1`, reached by closeStream, Session.Close and tellRefusals (directly or through a helper that holds the site)", good)
	if len(bad) > 0 {
		src = "a closing-frame payload length that can be 0: " + strings.Join(bad, "; ")
	}
	boolFact(g, "closingPayloadNeverEmpty", sites > 0 && good == sites && builders == 3, src)
}
