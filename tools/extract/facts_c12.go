package main

import (
	"fmt"
	"go/ast"
	"os"
	"strings"
)

// C12 (and C01's switchboard part): step boundaries of the session state machine in
// internal/multiplex/session.go and switchboard.go.

func init() { register(factsSession) }

func between(evs []ev, lo, hi int, kind, re string) bool {
	i := idx(evs, lo+1, kind, re)
	return lo >= 0 && hi >= 0 && i > lo && i < hi
}

func factsSession() {
	g := "Session"
	// ---- OpenStream ----
	if fn := fnOf(mx, "Session.OpenStream"); fn == nil {
		unrec(g, "openStreamCheckUnderLock", "Session.OpenStream not found")
	} else {
		evs := events(fn)
		iLock := idx(evs, 0, "call", `^sesh\.streamsM\.Lock\(\)`)
		iIns := idx(evs, 0, "assign", `^sesh\.streams\[id\] = stream`)
		iUnl := idx(evs, iIns, "call", `^sesh\.streamsM\.Unlock\(\)`)
		iIncr := idx(evs, 0, "call", `^sesh\.streamCountIncr\(\)`)
		if iLock < 0 || iIns < iLock || iUnl < iIns {
			unrec(g, "openStreamCheckUnderLock", "lock/insert/unlock shape of OpenStream not recognised")
		} else {
			// is there an IsClosed test between Lock and the insert, whose body unlocks and returns?
			iChk := -1
			for i := iLock + 1; i < iIns; i++ {
				if evs[i].kind == "if" && contains(evs[i].text, "IsClosed()") && !contains(evs[i].text, "!") {
					iChk = i
				}
			}
			under := false
			if iChk > 0 {
				j := iChk + 1
				sawUnlock, sawRet := false, false
				for ; j < len(evs) && evs[j].kind != "endif"; j++ {
					if evs[j].kind == "call" && contains(evs[j].text, "streamsM.Unlock()") {
						sawUnlock = true
					}
					if evs[j].kind == "return" {
						sawRet = true
					}
				}
				under = sawUnlock && sawRet
			}
			boolFact(g, "openStreamCheckUnderLock", under, "OpenStream: `if sesh.IsClosed() {unlock; return}` between streamsM.Lock() and the table insert")
			boolFact(g, "openStreamIncrAfterUnlock", iIncr > iUnl, "OpenStream: streamCountIncr after the locked insert")
			natFact(g, "openStreamIncrs", count(evs, "call", `^sesh\.streamCountIncr\(\)`), "OpenStream: number of streamCountIncr calls")
			// any unlocked early test (pinned code has one) is harmless but recorded
			boolFact(g, "openStreamEarlyCheck", idx(evs, 0, "if", `IsClosed\(\)`) >= 0 && idx(evs, 0, "if", `IsClosed\(\)`) < iLock, "OpenStream tests IsClosed before taking the lock")
		}
	}
	// ---- recvDataFromRemote ----
	if fn := fnOf(mx, "Session.recvDataFromRemote"); fn == nil {
		unrec(g, "recvCheckUnderLock", "recvDataFromRemote not found")
	} else {
		evs := events(fn)
		iDeobf := idx(evs, 0, "call", `^sesh\.deobfuscate\(frame, data\)`)
		iErr := idx(evs, iDeobf, "if", `^err != nil$`)
		iLock := idx(evs, 0, "call", `^sesh\.streamsM\.Lock\(\)`)
		iChk := idx(evs, iLock, "if", `^sesh\.IsClosed\(\)$`)
		iLook := idx(evs, 0, "assign", `:= sesh\.streams\[frame\.StreamID\]`)
		iIns := idx(evs, 0, "assign", `^sesh\.streams\[frame\.StreamID\] = newStream`)
		iEnq := idx(evs, 0, "send", `^sesh\.acceptCh <- newStream`)
		iIncr := idx(evs, 0, "call", `^sesh\.streamCountIncr\(\)`)
		iUnlAfterEnq := idx(evs, iEnq, "call", `^sesh\.streamsM\.Unlock\(\)`)
		boolFact(g, "recvDecodeErrorReturnsFirst", iDeobf >= 0 && iErr > iDeobf && iErr < iLock && evs[iErr+1].kind != "endif" && idx(evs, iErr, "return", ``) < iLock,
			"recvDataFromRemote: decode error returns before any session state is touched")
		boolFact(g, "recvCheckUnderLock", iLock >= 0 && iChk > iLock && iChk < iLook, "recvDataFromRemote: IsClosed tested under streamsM before the table lookup")
		iUnlAfterIns := idx(evs, iIns, "call", `^sesh\.streamsM\.Unlock\(\)`)
		boolFact(g, "recvInsertEnqueueUnderLock", iIns > iLock && iEnq > iLock && iUnlAfterEnq > iEnq && iUnlAfterIns > iIns && iIncr > iUnlAfterEnq && iIncr > iUnlAfterIns,
			"recvDataFromRemote: insert and enqueue inside one streamsM section, count++ after the unlock")
		// the enqueue into the accept queue must not block while streamsM is held: it has to be the send case of a select
		// that has a default branch (a full backlog refuses the stream)
		nonBlocking := false
		ast.Inspect(fn.Body, func(n ast.Node) bool {
			if sel, ok := n.(*ast.SelectStmt); ok {
				hasSend, hasDefault := false, false
				for _, c := range sel.Body.List {
					cc := c.(*ast.CommClause)
					if cc.Comm == nil {
						hasDefault = true
					} else if snd, ok := cc.Comm.(*ast.SendStmt); ok && contains(show(snd), "sesh.acceptCh <- newStream") {
						hasSend = true
					}
				}
				if hasSend && hasDefault {
					nonBlocking = true
				}
			}
			return true
		})
		// what the default branch (backlog full) does with the stream: remembers the id as closed (`= nil`) and returns, or
		// registers the stream, counts it after the unlock and closes it from this side in a goroutine of its own
		// (the peer gets a stream-closing frame) - anything else is not recognised
		refusal := ""
		ast.Inspect(fn.Body, func(n ast.Node) bool {
			sel, ok := n.(*ast.SelectStmt)
			if !ok {
				return true
			}
			isAcceptSelect := false
			for _, c := range sel.Body.List {
				if cc := c.(*ast.CommClause); cc.Comm != nil {
					if snd, ok := cc.Comm.(*ast.SendStmt); ok && contains(show(snd), "sesh.acceptCh <- newStream") {
						isAcceptSelect = true
					}
				}
			}
			if !isAcceptSelect {
				return true
			}
			for _, c := range sel.Body.List {
				cc := c.(*ast.CommClause)
				if cc.Comm != nil {
					continue
				}
				var ss []string
				for _, st := range cc.Body {
					ss = append(ss, show(st))
				}
				j := strings.Join(ss, " ; ")
				switch {
				case j == "sesh.streams[frame.StreamID] = nil ; sesh.streamsM.Unlock() ; return errAcceptBacklogFull":
					refusal = "tombstone"
				case j == "sesh.streams[frame.StreamID] = newStream ; sesh.streamsM.Unlock() ; sesh.streamCountIncr() ; go newStream.Close() ; return errAcceptBacklogFull":
					refusal = "close"
				case refusalQueueShape(ss):
					refusal = "queue"
				default:
					refusal = "?"
					if os.Getenv("EXTRACT_DEBUG") != "" {
						fmt.Fprintf(os.Stderr, "refusal branch: %q\n", j)
					}
				}
			}
			return true
		})
		// the queue variant: the teller sends one stream-closing frame (Seq 0) per queued id and ends on a failed send; the
		// queue is closed where the accept queue is closed (closeSession, under streamsM - the lock the enqueue is made under)
		told := false
		if refusal == "queue" {
			tr := fnOf(mx, "Session.tellRefusals")
			cs := fnOf(mx, "Session.closeSession")
			okTeller, okClose := false, false
			if tr != nil {
				src := show(tr.Body)
				okTeller = strings.Contains(src, "for id := range sesh.refusals") && strings.Contains(src, "StreamID: id") && strings.Contains(src, "Closing:") && strings.Contains(src, "closingStream") &&
					strings.Contains(src, "Seq:") && len(allCalls(tr, `^sesh\.sb\.send$`)) == 1
			}
			if cs != nil {
				ce := events(cs)
				iL := idx(ce, 0, "call", `^sesh\.streamsM\.Lock\(\)`)
				iC := idx(ce, iL, "call", `^close\(sesh\.refusals\)`)
				iU := idx(ce, iL, "call", `^sesh\.streamsM\.Unlock\(\)`)
				okClose = iL >= 0 && iC > iL && iU > iC
			}
			told = okTeller && okClose
		}
		boolFact(g, "refusedStreamToldFromQueue", told, "recvDataFromRemote, backlog full: streams[id] = nil; non-blocking enqueue of the id into sesh.refusals (under streamsM); one tellRefusals goroutine per session sends a stream-closing frame per id; closeSession closes the queue under streamsM")
		switch refusal {
		case "tombstone", "queue":
			boolFact(g, "refusedStreamClosedActively", false, "recvDataFromRemote, backlog full: streams[id] = nil (the id is remembered as closed, later frames are dropped, the count is not touched)")
		case "close":
			boolFact(g, "refusedStreamClosedActively", true, "recvDataFromRemote, backlog full: streams[id] = newStream; Unlock; streamCountIncr(); go newStream.Close(); return - registered, counted after the unlock and closed from this side (the peer gets a closing frame)")
		default:
			unrec(g, "refusedStreamClosedActively", "the default branch of the accept-queue select is neither of the two known refusals")
		}
		plainSends := count(evs, "send", `^sesh\.acceptCh <- newStream`)
		boolFact(g, "recvEnqueueNonBlocking", nonBlocking && plainSends == 1, "recvDataFromRemote: the accept-queue send is a select case with a default branch (never blocks under streamsM)")
		iNil := idx(evs, 0, "if", `^existingStream == nil$`)
		boolFact(g, "recvTombstoneDrops", iNil > 0 && evs[iNil+1].kind == "return" && contains(evs[iNil+1].text, "return nil"), "frame for a tombstoned id is dropped")
		iCS := idx(evs, 0, "if", `^frame\.Closing == closingSession$`)
		boolFact(g, "recvSessionCloseIsPassiveClose", iCS > 0 && between(evs, iCS, idx(evs, iCS, "endif", ``), "call", `^sesh\.passiveClose\(\)`), "closing-session frame → passiveClose")
	}
	// ---- closeStream ----
	if fn := fnOf(mx, "Session.closeStream"); fn == nil {
		unrec(g, "closeStreamCASFirst", "closeStream not found")
	} else {
		evs := events(fn)
		iCAS := idx(evs, 0, "if", `^!atomic\.CompareAndSwapUint32\(&s\.closed, 0, 1\)$`)
		iPipe := idx(evs, 0, "call", `^s\.recvBuf\.Close\(\)`)
		iAct := idx(evs, 0, "if", `^active$`)
		iSend := idx(evs, 0, "call", `^s\.obfuscateAndSend\(`)
		iTomb := idx(evs, 0, "assign", `^sesh\.streams\[s\.id\] = nil$`)
		iDecr := idx(evs, 0, "if", `^sesh\.streamCountDecr\(\) == 0$`)
		boolFact(g, "closeStreamCASFirst", iCAS >= 0 && iCAS <= 1 && evs[iCAS+2].kind == "return", "closeStream: CAS on the stream's closed flag first, repeat → error return")
		boolFact(g, "closeStreamPipeCloseUnconditional", iPipe > iCAS && iPipe < iAct && evs[iPipe].depth == 0, "closeStream: recvBuf.Close() unconditional, right after the CAS")
		boolFact(g, "closeStreamActiveSends", iAct > 0 && iSend > iAct && idx(evs, iAct, "assign", `^s\.writingFrame\.Closing = closingStream$`) > iAct && idx(evs, iAct, "assign", `^s\.writingFrame\.Closing = closingStream$`) < iSend,
			"closeStream(active): Closing = closingStream then obfuscateAndSend")
		lockB := idx(evs, iSend, "call", `^sesh\.streamsM\.Lock\(\)`)
		unlA := idx(evs, iTomb, "call", `^sesh\.streamsM\.Unlock\(\)`)
		boolFact(g, "closeStreamTombstoneUnderLockThenDecr", lockB > 0 && iTomb > lockB && unlA > iTomb && iDecr > unlA, "closeStream: tombstone under streamsM, then count--")
		natFact(g, "closeStreamDecrs", count(evs, "call", `^sesh\.streamCountDecr\(\)`), "closeStream: number of streamCountDecr calls")
		iSingle := idx(evs, iDecr, "if", `^sesh\.Singleplex$`)
		boolFact(g, "closeStreamZeroAction", iDecr > 0 && iSingle > iDecr && idx(evs, iSingle, "call", `^sesh\.Close\(\)`) > iSingle &&
			idx(evs, iSingle, "call", `^time\.AfterFunc\(sesh\.InactivityTimeout, sesh\.checkTimeout\)`) > iSingle,
			"closeStream: on count 0 a singleplex session closes, otherwise the inactivity timer is armed")
	}
	// ---- closeSession ----
	if fn := fnOf(mx, "Session.closeSession"); fn == nil {
		unrec(g, "closeSessionShape", "closeSession not found")
	} else {
		evs := events(fn)
		iCAS := idx(evs, 0, "if", `^!atomic\.CompareAndSwapUint32\(&sesh\.closed, 0, 1\)$`)
		iLock := idx(evs, 0, "call", `^sesh\.streamsM\.Lock\(\)`)
		iCloseQ := idx(evs, 0, "call", `^close\(sesh\.acceptCh\)`)
		iFor := idx(evs, 0, "for", `^range sesh\.streams$`)
		iIf := idx(evs, iFor, "if", `^stream != nil && atomic\.CompareAndSwapUint32\(&stream\.closed, 0, 1\)$`)
		iPipe := idx(evs, iIf, "call", `^stream\.recvBuf\.Close\(\)`)
		iDel := idx(evs, iIf, "call", `^delete\(sesh\.streams, id\)`)
		iDecr := idx(evs, iIf, "call", `^sesh\.streamCountDecr\(\)`)
		iEndFor := idx(evs, iFor, "endfor", ``)
		iUnl := idx(evs, iEndFor, "call", `^sesh\.streamsM\.Unlock\(\)`)
		ok := iCAS >= 0 && iCAS <= 1 && iLock > iCAS && iCloseQ > iLock && iFor > iCloseQ && iIf > iFor && iPipe > iIf && iDel > iIf && iDecr > iIf &&
			iPipe < iEndFor && iDel < iEndFor && iDecr < iEndFor && iUnl > iEndFor
		boolFact(g, "closeSessionShape", ok, "closeSession: CAS; lock; close(acceptCh); for each open stream: CAS, recvBuf.Close, delete, count--; unlock")
		natFact(g, "closeSessionDecrsPerStream", count(evs, "call", `^sesh\.streamCountDecr\(\)`), "closeSession: streamCountDecr calls inside the sweep")
	}
	// ---- passiveClose / Close / closeAll / deplex / checkTimeout ----
	if fn := fnOf(mx, "Session.passiveClose"); fn != nil {
		evs := events(fn)
		iCS := idx(evs, 0, "assign", `^err := sesh\.closeSession\(\)$`)
		iCA := idx(evs, 0, "call", `^sesh\.sb\.closeAll\(\)`)
		boolFact(g, "passiveCloseClosesAll", iCS >= 0 && iCA > iCS && evs[iCA].depth == 0, "passiveClose: closeSession then sb.closeAll()")
	} else {
		unrec(g, "passiveCloseClosesAll", "passiveClose not found")
	}
	if fn := fnOf(mx, "Session.Close"); fn != nil {
		evs := events(fn)
		iCS := idx(evs, 0, "assign", `^err := sesh\.closeSession\(\)$`)
		iSend := idx(evs, 0, "call", `^sesh\.sb\.send\(`)
		iCA := idx(evs, 0, "call", `^sesh\.sb\.closeAll\(\)`)
		// either `closeAll()` after the send at depth 0 (reached only when the notice went out), or deferred right after the
		// closeSession test (runs on every way out once closeSession has succeeded, after the notice was attempted)
		iDef := idx(evs, 0, "defer", `^sesh\.sb\.closeAll\(\)$`)
		iCSErr := idx(evs, iCS, "if", `^err != nil$`)
		deferred := iCS >= 0 && iCSErr > iCS && iDef > matchingEnd(evs, iCSErr) && iDef < iSend && evs[iDef].depth == 0
		boolFact(g, "closeSendsNoticeThenClosesAll", iCS >= 0 && iSend > iCS && ((iCA > iSend && evs[iCA].depth == 0) || deferred), "Close: closeSession, send the closing notice, closeAll")
		boolFact(g, "closeSweepsEvenIfNoticeFails", deferred, "Close: sb.closeAll() is deferred as soon as closeSession has succeeded, so the connections are closed whether or not the notice could be built and sent")
	} else {
		unrec(g, "closeSendsNoticeThenClosesAll", "Session.Close not found")
	}
	// the receive buffers' Close wakes EVERY waiter: closed = true, then Broadcast (not Signal) on the condition variable
	for _, pp := range []struct{ typ, recv, fact string }{{"streamBufferedPipe", "p", "streamPipeCloseWakesAll"}, {"datagramBufferedPipe", "d", "dgramPipeCloseWakesAll"}} {
		if pc := fnOf(mx, pp.typ+".Close"); pc != nil {
			pe := events(pc)
			iS := idx(pe, 0, "assign", `^`+pp.recv+`\.closed = true$`)
			iB := idx(pe, iS, "call", `^`+pp.recv+`\.rwCond\.Broadcast\(\)$`)
			boolFact(g, pp.fact, iS >= 0 && iB > iS && pe[iB].depth == 0, pp.typ+".Close: closed = true; rwCond.Broadcast() unconditionally (every parked Read returns, not just one)")
		} else {
			unrec(g, pp.fact, pp.typ+".Close not found")
		}
	}
	if fn := fnOf(mx, "switchboard.closeAll"); fn != nil {
		evs := events(fn)
		iCAS := idx(evs, 0, "if", `^!atomic\.CompareAndSwapUint32\(&sb\.broken, 0, 1\)$`)
		iZero := idx(evs, 0, "call", `^atomic\.StoreUint32\(&sb\.connsCount, 0\)`)
		iRange := idx(evs, 0, "call", `^sb\.conns\.Range\(.*conn\.\(net\.Conn\)\.Close\(\)`)
		boolFact(g, "closeAllShape", iCAS >= 0 && iZero > iCAS && iRange > iZero, "closeAll: CAS broken; connsCount := 0; Range closing every pooled conn")
	} else {
		unrec(g, "closeAllShape", "closeAll not found")
	}
	if fn := fnOf(mx, "switchboard.deplex"); fn != nil {
		evs := events(fn)
		iRead := idx(evs, 0, "assign", `^n, err := conn\.Read\(buf\)$`)
		iErr := idx(evs, iRead, "if", `^err != nil$`)
		iPC := idx(evs, iErr, "call", `^sb\.session\.passiveClose\(\)`)
		iRet := idx(evs, iPC, "return", ``)
		iRecv := idx(evs, 0, "assign", `^err = sb\.session\.recvDataFromRemote\(buf\[:n\]\)$`)
		iIf2 := idx(evs, iRecv, "if", `^err != nil$`)
		cont := iIf2 > 0 && idx(evs, iIf2, "return", ``) < 0 && idx(evs, iIf2, "branch", `break`) < 0
		boolFact(g, "deplexReadErrorPassiveCloses", iRead >= 0 && iErr > iRead && iPC > iErr && iRet > iPC && iRet < iRecv, "deplex: read error → passiveClose and return")
		boolFact(g, "deplexContinuesAfterRecvError", cont, "deplex: an error from recvDataFromRemote is logged and the loop continues")
		boolFact(g, "deplexDefersConnClose", idx(evs, 0, "defer", `^conn\.Close\(\)`) == 0, "deplex: defer conn.Close()")
		boolFact(g, "deplexPassesWholeRead", iRecv > 0, "deplex: each Read's buf[:n] is handed over as one frame")
	} else {
		unrec(g, "deplexReadErrorPassiveCloses", "deplex not found")
	}
	if fn := fnOf(mx, "Session.checkTimeout"); fn != nil {
		c := ifCond(fn, `streamCount\(\)`)
		boolExpr(g, "timeoutCond", "(count : Int) (closed : Bool)", mx, c, map[string]string{"sesh.streamCount()": "count", "sesh.IsClosed()": "closed"})
		evs := events(fn)
		boolFact(g, "timeoutCloses", idx(evs, 0, "call", `^sesh\.Close\(\)`) > idx(evs, 0, "if", `streamCount`), "checkTimeout: Close() inside the test")
	} else {
		unrec(g, "timeoutCond", "checkTimeout not found")
	}
	// ---- Accept ----
	if fn := fnOf(mx, "Session.Accept"); fn != nil {
		evs := events(fn)
		iRecv := idx(evs, 0, "assign", `^stream := <-sesh\.acceptCh$`)
		iNil := idx(evs, iRecv, "if", `^stream == nil$`)
		boolFact(g, "acceptNilIsBroken", iRecv >= 0 && iNil > iRecv && contains(evs[iNil+1].text, "ErrBrokenSession"), "Accept: a closed queue yields ErrBrokenSession")
		// does Accept refuse on the closed flag BEFORE it looks at the queue (streams queued when the session closed are then lost)?
		iClosedTest := idx(evs, 0, "if", `^sesh\.IsClosed\(\)$`)
		boolFact(g, "acceptChecksClosedFirst", iRecv >= 0 && iClosedTest >= 0 && iClosedTest < iRecv, "Accept tests IsClosed() before receiving from acceptCh")
	} else {
		unrec(g, "acceptNilIsBroken", "Accept not found")
	}
	constFact(g, "acceptBacklog", mx, "acceptBacklog")
	// ---- the receive pipes never hold a writer back in practice: a writer parks (inside the stream's recvM, see
	// streamBuffer.Write) only while MORE than recvBufferSizeLimit bytes are unread ----
	constFact(g, "recvBufferSizeLimit", mx, "recvBufferSizeLimit")
	for _, k := range []struct{ fn, name, buf string }{{"streamBufferedPipe.Write", "pipeWriteProceeds", "p.buf.Len()"}, {"datagramBufferedPipe.Write", "dgPipeWriteProceeds", "d.buf.Len()"}} {
		if fn := fnOf(mx, k.fn); fn != nil {
			boolExpr(g, k.name, "(buffered : Int)", mx, ifCond(fn, `buf\.Len\(\)`, `recvBufferSizeLimit`), map[string]string{k.buf: "buffered"})
		} else {
			unrec(g, k.name, k.fn+" not found")
		}
	}
	// ---- switchboard.addConn publish order (C01) ----
	if fn := fnOf(mx, "switchboard.addConn"); fn != nil {
		evs := events(fn)
		iIncr := idx(evs, 0, "call", `^atomic\.AddUint32\(&sb\.connsCount, 1\)`)
		iStore := idx(evs, 0, "call", `^sb\.conns\.Store\(`)
		if iIncr < 0 || iStore < 0 {
			unrec(g, "addConnStoreBeforePublish", "addConn: counter increment or conns.Store not recognised")
		} else {
			boolFact(g, "addConnStoreBeforePublish", iStore < iIncr, "addConn: conns.Store happens before the incremented count is published")
		}
		// a connection handed over after the teardown is refused and closed: the test sits under addConnM, before the store,
		// and closeAll sweeps under the same mutex
		iLock := idx(evs, 0, "call", `^sb\.addConnM\.Lock\(\)`)
		iTest := idx(evs, 0, "if", `sb\.broken.*== 1 \|\| sb\.session\.IsClosed\(\)|sb\.session\.IsClosed\(\) \|\| .*sb\.broken`)
		refuses := false
		if iLock >= 0 && iTest > iLock && iStore > iTest {
			e := matchingEnd(evs, iTest)
			refuses = e > iTest && e < iStore && countIn(evs, iTest, e, "call", `^conn\.Close\(\)$`) == 1 && countIn(evs, iTest, e, "return", ``) == 1
		}
		sweepLocked := false
		if ca := fnOf(mx, "switchboard.closeAll"); ca != nil {
			ce := events(ca)
			il := idx(ce, 0, "call", `^sb\.addConnM\.Lock\(\)`)
			id := idx(ce, 0, "defer", `^sb\.addConnM\.Unlock\(\)`)
			ic := idx(ce, 0, "if", `CompareAndSwapUint32\(&sb\.broken, 0, 1\)`)
			sweepLocked = il == 0 && id == 1 && ic > id
		}
		boolFact(g, "addConnRefusesAfterTeardown", refuses && sweepLocked, "addConn: under addConnM, a torn-down session (broken or closed) refuses and closes the connection before storing it; closeAll sweeps under addConnM")
	} else {
		unrec(g, "addConnStoreBeforePublish", "addConn not found")
	}
	if fn := fnOf(mx, "switchboard.pickRandConn"); fn != nil {
		evs := events(fn)
		iCnt := idx(evs, 0, "assign", `^connsCount := atomic\.LoadUint32\(&sb\.connsCount\)$`)
		iLoad := idx(evs, 0, "assign", `:= sb\.conns\.Load\(connId\)$`)
		iMiss := idx(evs, iLoad, "if", `^!ok$`)
		boolFact(g, "pickMissIsError", iCnt >= 0 && iLoad > iCnt && iMiss > iLoad && idx(evs, iMiss, "return", `errBrokenSwitchboard`) > iMiss, "pickRandConn: count read, then Load(id); a miss is errBrokenSwitchboard")
	} else {
		unrec(g, "pickMissIsError", "pickRandConn not found")
	}
}

// refusalQueueShape: the statements of the backlog-full branch, in any order that keeps the tombstone and the non-blocking
// enqueue inside the critical section: tombstone; select { case sesh.refusals <- id: default: }; Unlock; start the teller
// once; return the refusal error. Nothing else.
func refusalQueueShape(ss []string) bool {
	iTomb, iEnq, iUnl, iOnce, iRet := -1, -1, -1, -1, -1
	for i, t := range ss {
		switch {
		case t == "sesh.streams[frame.StreamID] = nil":
			iTomb = i
		case strings.HasPrefix(t, "select {") && strings.Contains(t, "case sesh.refusals <- frame.StreamID:") && strings.Contains(t, "default:"):
			iEnq = i
		case t == "sesh.streamsM.Unlock()":
			iUnl = i
		case strings.Contains(t, "refusalsOnce.Do(") && strings.Contains(t, "go sesh.tellRefusals()"):
			iOnce = i
		case t == "return errAcceptBacklogFull":
			iRet = i
		default:
			return false
		}
	}
	return iTomb >= 0 && iEnq >= 0 && iUnl > iTomb && iUnl > iEnq && iOnce >= 0 && iRet == len(ss)-1
}
