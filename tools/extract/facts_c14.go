package main

import (
	"go/ast"
	"regexp"
)

// ---------- C14: datagramBufferedPipe.Read/Write, Stream.Write (unordered branch), makeStream, demux ----------
// Everything goes to group "Datagram" (Gen.Datagram.*). Patterns are on statement kinds and printed
// sub-expressions, so renaming locals other than the ones named below, reformatting or reordering
// independent statements keeps them matching; anything else ends in unrec(...).

func init() { register(factsC14) }

// g14if finds the first if statement (in source order) whose printed condition matches every regexp.
func g14if(fn *ast.FuncDecl, res ...string) *ast.IfStmt {
	var found *ast.IfStmt
	if fn == nil || fn.Body == nil {
		return nil
	}
	ast.Inspect(fn.Body, func(n ast.Node) bool {
		if found != nil {
			return false
		}
		if s, ok := n.(*ast.IfStmt); ok {
			t := show(s.Cond)
			for _, r := range res {
				if !regexp.MustCompile(r).MatchString(t) {
					return true
				}
			}
			found = s
			return false
		}
		return true
	})
	return found
}

// g14evIdx returns the index in evs of the event whose node is n (-1 if absent).
func g14evIdx(evs []ev, n ast.Node, kind string) int {
	for i, e := range evs {
		if e.node == n && e.kind == kind {
			return i
		}
	}
	return -1
}

// g14blockEvents lists the events of a block (depth 0 = statements of the block)
func g14blockEvents(b *ast.BlockStmt) []ev {
	var out []ev
	if b == nil {
		return nil
	}
	walkStmts(b.List, 0, &out)
	return out
}

func g14cond(s *ast.IfStmt) ast.Expr {
	if s == nil {
		return nil
	}
	return s.Cond
}

func factsC14() {
	g := "Datagram"

	// ----- datagramBufferedPipe.Read -----
	rd := fnOf(mx, "datagramBufferedPipe.Read")
	if rd == nil {
		unrec(g, "dgRead", "datagramBufferedPipe.Read not found")
	} else {
		evs := events(rd)
		vars := map[string]string{"d.closed": "closed", "len(d.pLens)": "nLens", "len(target)": "cap", "dataLen": "dataLen"}
		ifEOF := g14if(rd, `d\.closed`, `len\(d\.pLens\)`)
		boolExpr(g, "dgEOF", "(closed : Bool) (nLens : Int)", mx, g14cond(ifEOF), vars)
		// the "there is a datagram" test: an if on len(d.pLens) alone whose body leaves the wait loop
		var ifHas *ast.IfStmt
		ast.Inspect(rd.Body, func(n ast.Node) bool {
			if s, ok := n.(*ast.IfStmt); ok && ifHas == nil {
				t := show(s.Cond)
				if contains(t, "len(d.pLens)") && !contains(t, "d.closed") {
					be := g14blockEvents(s.Body)
					if len(be) == 1 && be[0].kind == "branch" && be[0].text == "break" {
						ifHas = s
					}
				}
			}
			return true
		})
		boolExpr(g, "dgHasData", "(nLens : Int)", mx, g14cond(ifHas), vars)
		ifShort := g14if(rd, `len\(target\)`)
		boolExpr(g, "dgShort", "(cap dataLen : Int)", mx, g14cond(ifShort), vars)

		iFor := idx(evs, 0, "for", `^$`)
		iEnd := idx(evs, iFor, "endfor", ``)
		iEOF := g14evIdx(evs, ifEOF, "if")
		iHas := g14evIdx(evs, ifHas, "if")
		iWait := idx(evs, 0, "call", `^d\.rwCond\.Wait\(\)$`)
		eofReturns := false
		if ifEOF != nil {
			be := g14blockEvents(ifEOF.Body)
			eofReturns = len(be) == 1 && be[0].kind == "return" && be[0].text == "return 0, io.EOF"
		}
		boolFact(g, "dgReadEOFFirst", iFor >= 0 && iFor < iEOF && iEOF < iHas && iHas < iWait && iWait < iEnd && eofReturns,
			"Read: inside the wait loop the `closed && empty` test (returning 0, io.EOF) precedes the has-data test, which precedes rwCond.Wait()")
		// after the loop: dataLen := d.pLens[0]; short-buffer test returning (0, io.ErrShortBuffer); only then the pop and the byte read
		iLen := idx(evs, iEnd, "assign", `^dataLen := d\.pLens\[0\]$`)
		iShort := g14evIdx(evs, ifShort, "if")
		shortReturns := false
		if ifShort != nil {
			be := g14blockEvents(ifShort.Body)
			shortReturns = len(be) == 1 && be[0].kind == "return" && be[0].text == "return 0, io.ErrShortBuffer"
		}
		iPop := idx(evs, 0, "assign", `^d\.pLens = d\.pLens\[1:\]$`)
		iBuf := idx(evs, 0, "call", `^d\.buf\.Read\(target\[:dataLen\]\)$`)
		nMut := count(evs, "assign", `^d\.pLens\b.*=`) + count(evs, "call", `^d\.buf\.(Read|Next|Truncate|Reset|ReadByte|WriteTo)\(`)
		boolFact(g, "dgReadTestBeforePop", iEnd >= 0 && iEnd < iLen && iLen < iShort && iShort < iPop && iShort < iBuf && shortReturns && nMut == 2,
			"Read: `dataLen := d.pLens[0]`, then the short-buffer test returning (0, io.ErrShortBuffer), and only after it the single pop `d.pLens = d.pLens[1:]` and the single `d.buf.Read(target[:dataLen])`")
		iRet := idx(evs, iPop, "return", `^return dataLen, nil$`)
		boolFact(g, "dgReadReturnsHeadLen", iPop >= 0 && iBuf >= 0 && iRet > iPop && iRet > iBuf, "Read: returns (dataLen, nil) after the pop and the byte read")
		boolFact(g, "dgReadLocked", idx(evs, 0, "call", `^d\.rwCond\.L\.Lock\(\)$`) == 0 && idx(evs, 0, "defer", `^d\.rwCond\.L\.Unlock\(\)$`) == 1,
			"Read: rwCond.L.Lock(); defer rwCond.L.Unlock() open the body")
	}

	// ----- datagramBufferedPipe.Write -----
	wr := fnOf(mx, "datagramBufferedPipe.Write")
	if wr == nil {
		unrec(g, "dgWrite", "datagramBufferedPipe.Write not found")
	} else {
		evs := events(wr)
		vars := map[string]string{"f.Closing": "closing", "d.closed": "closed"}
		ifClosing := g14if(wr, `f\.Closing`)
		boolExpr(g, "dgClosing", "(closing : Int)", mx, g14cond(ifClosing), vars)
		ifClosed := g14if(wr, `^d\.closed$`)
		iClosed := g14evIdx(evs, ifClosed, "if")
		closedReturns := false
		if ifClosed != nil {
			be := g14blockEvents(ifClosed.Body)
			closedReturns = len(be) == 1 && be[0].kind == "return" && be[0].text == "return true, io.ErrClosedPipe"
		}
		iClosing := g14evIdx(evs, ifClosing, "if")
		boolFact(g, "dgWriteClosedFirst", iClosed >= 0 && iClosed < iClosing && closedReturns && idx(evs, 0, "if", ``) == iClosed,
			"Write: the first test is `d.closed`, returning (true, io.ErrClosedPipe); it precedes the closing-frame test")
		closingOK := false
		if ifClosing != nil && ifClosing.Else == nil {
			be := g14blockEvents(ifClosing.Body)
			iSet := idx(be, 0, "assign", `^d\.closed = true$`)
			iR := idx(be, 0, "return", `^return true, nil$`)
			closingOK = iSet >= 0 && iR > iSet && count(be, "assign", `pLens`) == 0 && count(be, "call", `^d\.buf\.Write`) == 0
		}
		boolFact(g, "dgWriteClosingBranch", closingOK, "Write: a closing frame sets d.closed = true and returns (true, nil) without storing anything")
		iEndClosing := -1
		if iClosing >= 0 {
			for i := iClosing + 1; i < len(evs); i++ {
				if evs[i].kind == "endif" && evs[i].node == ast.Node(ifClosing) {
					iEndClosing = i
					break
				}
			}
		}
		iDL := idx(evs, 0, "assign", `^dataLen := len\(f\.Payload\)$`)
		iApp := idx(evs, 0, "assign", `^d\.pLens = append\(d\.pLens, dataLen\)$`)
		iBW := idx(evs, 0, "call", `^d\.buf\.Write\(f\.Payload\)$`)
		iRet := idx(evs, 0, "return", `^return false, nil$`)
		okDepth := iApp >= 0 && iBW >= 0 && evs[iApp].depth == 0 && evs[iBW].depth == 0
		boolFact(g, "dgWriteAppendsLenAndBytes",
			iEndClosing >= 0 && iEndClosing < iDL && iDL < iApp && iEndClosing < iBW && iApp < iRet && iBW < iRet && okDepth &&
				count(evs, "assign", `^d\.pLens\b.*=`) == 1 && count(evs, "call", `^d\.buf\.Write\(`) == 1,
			"Write: after the closing branch exactly one `d.pLens = append(d.pLens, len(f.Payload))` and one `d.buf.Write(f.Payload)`, unconditionally, then return (false, nil)")
		// no way out of Write between the end of the closing branch and the append: a datagram that reaches this point is stored
		nExitsBetween := 0
		for i := iEndClosing + 1; iEndClosing >= 0 && i < iApp; i++ {
			if evs[i].kind == "return" || evs[i].kind == "branch" || (evs[i].kind == "call" && contains(evs[i].text, "panic(")) {
				nExitsBetween++
			}
		}
		boolFact(g, "dgWriteStoresWhatItDoesNotRefuse", iEndClosing >= 0 && iApp > iEndClosing && nExitsBetween == 0 && count(evs, "return", ``) == 3,
			"Write: three returns in all (closed pipe; closing frame; stored) and none between the closing branch and the append: a data frame for an open pipe is always stored (seed C14-8: an early `return false, errFull` there dropped datagrams)")
		boolFact(g, "dgWriteLocked", idx(evs, 0, "call", `^d\.rwCond\.L\.Lock\(\)$`) == 0 && idx(evs, 0, "defer", `^d\.rwCond\.L\.Unlock\(\)$`) == 1,
			"Write: rwCond.L.Lock(); defer rwCond.L.Unlock() open the body (length and bytes are appended in one critical section)")
	}
	constFact(g, "closingNothing", mx, "closingNothing")
	constFact(g, "recvBufferSizeLimit", mx, "recvBufferSizeLimit")

	// ----- datagramBufferedPipe.Close -----
	if cl := fnOf(mx, "datagramBufferedPipe.Close"); cl == nil {
		unrec(g, "dgCloseSets", "datagramBufferedPipe.Close not found")
	} else {
		evs := events(cl)
		boolFact(g, "dgCloseSets", idx(evs, 0, "assign", `^d\.closed = true$`) >= 0 && count(evs, "assign", `pLens|d\.buf`) == 0,
			"Close: sets d.closed = true and leaves the queue alone")
	}

	// ----- Stream.Write -----
	sw := fnOf(mx, "Stream.Write")
	if sw == nil {
		unrec(g, "writeFits", "Stream.Write not found")
	} else {
		evs := events(sw)
		vars := map[string]string{"len(in)": "inLen", "n": "n", "s.session.maxStreamUnitWrite": "max"}
		ifFits := g14if(sw, `maxStreamUnitWrite`)
		boolExpr(g, "writeFits", "(inLen n max : Int)", mx, g14cond(ifFits), vars)
		boolExpr(g, "writeLoop", "(inLen n : Int)", mx, forCond(sw, `len\(in\)`), vars)
		// shape: for n < len(in) { if fits { framePayload = in[n:] } else { if s.session.Unordered { err = io.ErrShortBuffer; return } ... } ... obfuscateAndSend ... n += len(framePayload) }
		ok := false
		fitsWhole := false
		if ifFits != nil {
			be := g14blockEvents(ifFits.Body)
			fitsWhole = len(be) == 1 && be[0].kind == "assign" && be[0].text == "framePayload = in[n:]"
			if els, isBlock := ifFits.Else.(*ast.BlockStmt); isBlock && len(els.List) >= 1 {
				if ifU, isIf := els.List[0].(*ast.IfStmt); isIf && show(ifU.Cond) == "s.session.Unordered" {
					ue := g14blockEvents(ifU.Body)
					ok = len(ue) == 2 && ue[0].kind == "assign" && ue[0].text == "err = io.ErrShortBuffer" && ue[1].kind == "return" && ue[1].text == "return"
				}
			}
		}
		iFor := idx(evs, 0, "for", `n < len\(in\)|len\(in\) > n`)
		iFits := g14evIdx(evs, ifFits, "if")
		iSend := idx(evs, 0, "call", `obfuscateAndSend\(`)
		nSendBefore := 0
		for i := 0; i < iFits && i < len(evs); i++ {
			if evs[i].kind == "call" && regexp.MustCompile(`obfuscateAndSend|\.send\(|\.obfuscate\(`).MatchString(evs[i].text) {
				nSendBefore++
			}
		}
		boolFact(g, "unorderedRefusesBeforeSend", ok && iFor >= 0 && iFor < iFits && iFits < iSend && nSendBefore == 0,
			"Stream.Write: in the does-not-fit branch `if s.session.Unordered { err = io.ErrShortBuffer; return }` comes first, and no send precedes the fit test in the iteration")
		iPl := idx(evs, iFits, "assign", `^s\.writingFrame\.Payload = framePayload$`)
		iAdv := idx(evs, iSend, "assign", `^n \+= len\(framePayload\)$`)
		boolFact(g, "writeOneFramePerDatagram", fitsWhole && iPl > iFits && iPl < iSend && iAdv > iSend && count(evs, "call", `obfuscateAndSend\(`) == 1,
			"Stream.Write: a fitting remainder is sent whole (`framePayload = in[n:]`) as the payload of exactly one obfuscateAndSend, then n += len(framePayload)")
	}

	// ----- MakeSession: maxStreamUnitWrite -----
	ms := fnOf(mx, "MakeSession")
	numExpr(g, "maxStreamUnitWrite", "(limit : Int)", mx, assignRHS(ms, `^sesh\.maxStreamUnitWrite$`), map[string]string{"sesh.MsgOnWireSizeLimit": "limit"})
	constFact(g, "defaultMaxOnWireSize", mx, "defaultMaxOnWireSize")
	for _, d := range []struct{ name, dir string }{{"appDataMaxLengthClient", cl}, {"appDataMaxLengthServer", sv}} {
		if _, ok := pkgs[d.dir].consts["appDataMaxLength"]; ok {
			constFact(g, d.name, d.dir, "appDataMaxLength")
		} else {
			unrec(g, d.name, "appDataMaxLength not found in "+d.dir)
		}
	}

	// ----- makeStream: the pipe is chosen by Unordered -----
	mk := fnOf(mx, "makeStream")
	pick := false
	if ifU := g14if(mk, `^sesh\.Unordered$`); ifU != nil {
		be := g14blockEvents(ifU.Body)
		a := idx(be, 0, "assign", `^stream\.recvBuf = NewDatagramBufferedPipe\(\)$`) >= 0 && count(be, "assign", `recvBuf`) == 1
		b := false
		if els, ok := ifU.Else.(*ast.BlockStmt); ok {
			ee := g14blockEvents(els)
			b = idx(ee, 0, "assign", `^stream\.recvBuf = NewStreamBuffer\(\)$`) >= 0 && count(ee, "assign", `recvBuf`) == 1
		}
		pick = a && b
	}
	boolFact(g, "makeStreamPicksByUnordered", pick, "makeStream: `if sesh.Unordered { recvBuf = NewDatagramBufferedPipe() } else { recvBuf = NewStreamBuffer() }`")

	// ----- demultiplexing: frames reach the pipe of the stream named in the frame -----
	rv := fnOf(mx, "Session.recvDataFromRemote")
	if rv == nil {
		unrec(g, "recvDemuxByStreamID", "Session.recvDataFromRemote not found")
	} else {
		evs := events(rv)
		iLook := idx(evs, 0, "assign", `^existingStream, existing := sesh\.streams\[frame\.StreamID\]$`)
		iEx := idx(evs, iLook, "call", `^existingStream\.recvFrame\(frame\)$`)
		iMk := idx(evs, iLook, "call", `^makeStream\(sesh, frame\.StreamID\)$`)
		iSt := idx(evs, iMk, "assign", `^sesh\.streams\[frame\.StreamID\] = newStream$`)
		iNw := idx(evs, iSt, "call", `^newStream\.recvFrame\(frame\)$`)
		ifTomb := g14if(rv, `^existingStream == nil$`)
		tomb := false
		if ifTomb != nil {
			be := g14blockEvents(ifTomb.Body)
			tomb = len(be) == 1 && be[0].kind == "return" && be[0].text == "return nil"
		}
		boolFact(g, "recvDemuxByStreamID", iLook >= 0 && iEx > iLook && iMk > iLook && iSt > iMk && iNw > iSt && tomb &&
			count(evs, "call", `\.recvFrame\(`) == 2,
			"recvDataFromRemote: lookup streams[frame.StreamID]; existing -> that stream's recvFrame (tombstone: drop); absent -> makeStream(sesh, frame.StreamID), store, recvFrame")
	}
	rf := fnOf(mx, "Stream.recvFrame")
	boolFact(g, "recvFrameWritesOwnPipe", rf != nil && len(allCalls(rf, `^s\.recvBuf\.Write$`)) == 1 && len(allCalls(rf, `\.Write$`)) == 1,
		"Stream.recvFrame: exactly one write, into the stream's own recvBuf")
	sr := fnOf(mx, "Stream.Read")
	// Stream.Read's first statement: `if len(buf) == 0 { return 0, nil }` -- an empty buffer never reaches the pipe
	emptyNoop := false
	if sr != nil && len(sr.Body.List) > 0 {
		if ifs, ok := sr.Body.List[0].(*ast.IfStmt); ok && ifs.Init == nil && ifs.Else == nil && show(ifs.Cond) == "len(buf) == 0" && len(ifs.Body.List) == 1 {
			if ret, ok := ifs.Body.List[0].(*ast.ReturnStmt); ok && len(ret.Results) == 2 && show(ret.Results[0]) == "0" && show(ret.Results[1]) == "nil" {
				emptyNoop = true
			}
		}
	}
	boolFact(g, "streamReadEmptyBufIsNoop", emptyNoop, "Stream.Read: first statement `if len(buf) == 0 { return 0, nil }`")
	boolFact(g, "streamReadReadsOwnPipe", sr != nil && len(allCalls(sr, `^s\.recvBuf\.Read$`)) == 1 && len(allCalls(sr, `\.Read$`)) == 1,
		"Stream.Read: exactly one read, from the stream's own recvBuf")
}
