package main

import (
	"fmt"
	"go/ast"
	"go/token"
	"regexp"
	"sort"
	"strings"
)

// ---------- C06 (connector): client.MakeSession, common.backoff / RandRead / RandInt, AES-GCM wrappers ----------
//
// Group "Connector".  Model/Connector.lean takes from here: the chrome->firefox fallback condition (translated Boolean
// expression over the goroutine's own copy of the transport configuration), the browser it falls back to, what each
// failure branch of the goroutine does (close the transport? fall back? how long it sleeps) and that it jumps back to
// the label in front of CreateTransport; what the success path does and in which order; channel capacity, spawn loop
// and adding loop bounds; where the fields of the SessionConfig come from; for `backoff` the table of waits, the
// retry bound and the loop shape; for RandInt the bound handed to crypto/rand.Int; for the AES-GCM wrappers the nonce test.

func init() { register(factsConnector) }

// kAct classifies one statement of a failure branch
func kActs(list []ast.Stmt, tcVar, cfgVar, label string, sleeps *[]ast.Expr, fb **ast.IfStmt) []string {
	var acts []string
	for _, s := range list {
		switch s := s.(type) {
		case *ast.ExprStmt:
			c, ok := s.X.(*ast.CallExpr)
			if !ok {
				acts = append(acts, "other:"+show(s))
				continue
			}
			f := show(c.Fun)
			switch {
			case strings.HasPrefix(f, "log."):
			case f == "time.Sleep" && len(c.Args) == 1:
				acts = append(acts, "sleep")
				*sleeps = append(*sleeps, c.Args[0])
			case f == tcVar+".Close" && len(c.Args) == 0:
				acts = append(acts, "close")
			default:
				acts = append(acts, "other:"+show(s))
			}
		case *ast.IfStmt:
			assigns := false
			ast.Inspect(s, func(n ast.Node) bool {
				if a, ok := n.(*ast.AssignStmt); ok {
					for _, l := range a.Lhs {
						if show(l) == cfgVar+".browser" {
							assigns = true
						}
					}
				}
				return true
			})
			if assigns && s.Init == nil {
				acts = append(acts, "fallback")
				*fb = s
			} else {
				acts = append(acts, "other:if "+show(s.Cond))
			}
		case *ast.BranchStmt:
			if s.Tok == token.GOTO && s.Label != nil && s.Label.Name == label {
				acts = append(acts, "goto")
			} else {
				acts = append(acts, "other:"+show(s))
			}
		case *ast.EmptyStmt:
		default:
			acts = append(acts, "other:"+show(s))
		}
	}
	return acts
}

func kHas(a []string, x string) bool {
	for _, y := range a {
		if y == x {
			return true
		}
	}
	return false
}

// kClean: the branch consists of recognised actions only, sleeps exactly once and ends in the jump back
func kClean(a []string) bool {
	n := 0
	for _, y := range a {
		if strings.HasPrefix(y, "other:") {
			return false
		}
		if y == "sleep" {
			n++
		}
	}
	return n == 1 && len(a) > 0 && a[len(a)-1] == "goto" && strings.Count(strings.Join(a, " "), "goto") == 1
}

// kErrIf: `if <errVar> != nil { ... }` without else
func kErrIf(s ast.Stmt, errVar string) *ast.IfStmt {
	is, ok := s.(*ast.IfStmt)
	if !ok || is.Else != nil || is.Init != nil {
		return nil
	}
	c := show(is.Cond)
	if c == errVar+" != nil" || c == "nil != "+errVar {
		return is
	}
	return nil
}

func kLoopBound(f *ast.ForStmt) string {
	if f == nil || f.Init == nil || f.Cond == nil || f.Post == nil {
		return ""
	}
	m := regexp.MustCompile(`^(\w+) := 0$`).FindStringSubmatch(show(f.Init))
	if m == nil {
		return ""
	}
	p := show(f.Post)
	if p != m[1]+"++" && p != m[1]+" += 1" {
		return ""
	}
	c := regexp.MustCompile(`^` + m[1] + ` < (.+)$`).FindStringSubmatch(show(f.Cond))
	if c == nil {
		return ""
	}
	return c[1]
}

func factsConnector() {
	g := "Connector"
	factsMakeSession(g)
	factsBackoff(g)
	factsGCM(g)
}

func factsMakeSession(g string) {
	fn := fnOf(cl, "MakeSession")
	if fn == nil || fn.Type.Params == nil || len(fn.Type.Params.List) < 3 {
		unrec(g, "makeSession", "client.MakeSession(connConfig, authInfo, dialer) not found")
		return
	}
	constFact(g, "appDataMaxLength", cl, "appDataMaxLength")
	constFact(g, "chromeId", cl, "chrome")
	constFact(g, "firefoxId", cl, "firefox")
	constFact(g, "safariId", cl, "safari")
	cc := fn.Type.Params.List[0].Names[0].Name // connConfig
	ai := fn.Type.Params.List[1].Names[0].Name // authInfo
	dl := fn.Type.Params.List[2].Names[0].Name // dialer

	// ---- top level: channel, spawn loop, wait, load, obfuscator, config, session, adding loop ----
	var chVar, chCap, keyVar, wgVar string
	var spawn, add *ast.ForStmt
	var loadedVar, cfgLit string
	var lit *ast.CompositeLit
	var seshVar string
	var msArgs []ast.Expr
	order := []string{}
	for _, s := range fn.Body.List {
		switch s := s.(type) {
		case *ast.AssignStmt:
			if len(s.Lhs) >= 1 && len(s.Rhs) == 1 {
				r := show(s.Rhs[0])
				if m := regexp.MustCompile(`^make\(chan net\.Conn, (.+)\)$`).FindStringSubmatch(r); m != nil {
					chVar, chCap = show(s.Lhs[0]), m[1]
					order = append(order, "makechan")
				} else if keyVar != "" && r == keyVar+".Load().([32]byte)" {
					loadedVar = show(s.Lhs[0])
					order = append(order, "load")
				} else if c, ok := s.Rhs[0].(*ast.CallExpr); ok && regexp.MustCompile(`\bMakeObfuscator$`).MatchString(show(c.Fun)) {
					if len(c.Args) == 2 && show(c.Args[0]) == ai+".EncryptionMethod" && show(c.Args[1]) == loadedVar {
						order = append(order, "obfuscator")
					} else {
						order = append(order, "obfuscator?"+r)
					}
				} else if cl2, ok := s.Rhs[0].(*ast.CompositeLit); ok && regexp.MustCompile(`\bSessionConfig$`).MatchString(show(cl2.Type)) {
					lit, cfgLit = cl2, show(s.Lhs[0])
					order = append(order, "config")
				} else if c, ok := s.Rhs[0].(*ast.CallExpr); ok && regexp.MustCompile(`\bMakeSession$`).MatchString(show(c.Fun)) {
					seshVar, msArgs = show(s.Lhs[0]), c.Args
					order = append(order, "session")
				}
			}
		case *ast.DeclStmt:
			if m := regexp.MustCompile(`^var (\w+) atomic\.Value$`).FindStringSubmatch(show(s)); m != nil {
				keyVar = m[1]
			}
			if m := regexp.MustCompile(`^var (\w+) sync\.WaitGroup$`).FindStringSubmatch(show(s)); m != nil {
				wgVar = m[1]
			}
		case *ast.ForStmt:
			if spawn == nil {
				spawn = s
				order = append(order, "spawn")
			} else if add == nil {
				add = s
				order = append(order, "add")
			} else {
				order = append(order, "loop?")
			}
		case *ast.ExprStmt:
			if wgVar != "" && show(s.X) == wgVar+".Wait()" {
				order = append(order, "wait")
			}
		case *ast.ReturnStmt:
			if show(s) == "return "+seshVar {
				order = append(order, "return")
			} else {
				order = append(order, "return?"+show(s))
			}
		}
	}
	emit(g, "topOrder", "List String", leanList(order), "top-level statements of MakeSession, in order")
	if spawn == nil || add == nil || chVar == "" || keyVar == "" || wgVar == "" {
		unrec(g, "loops", "channel / atomic.Value / WaitGroup / the two loops not found")
		return
	}
	sb, ab := kLoopBound(spawn), kLoopBound(add)
	boolFact(g, "capIsNumConn", chCap == cc+".NumConn", "make(chan net.Conn, "+chCap+")")
	boolFact(g, "spawnBoundIsNumConn", sb == cc+".NumConn", "spawn loop: "+show(spawn.Cond))
	boolFact(g, "addBoundIsNumConn", ab == cc+".NumConn", "adding loop: "+show(add.Cond))
	// adding loop: conn := <-connsCh ; sesh.AddConnection(conn)
	addOK := false
	if len(add.Body.List) == 2 {
		if a, ok := add.Body.List[0].(*ast.AssignStmt); ok && len(a.Lhs) == 1 && len(a.Rhs) == 1 && show(a.Rhs[0]) == "<-"+chVar {
			addOK = show(add.Body.List[1]) == seshVar+".AddConnection("+show(a.Lhs[0])+")"
		}
	} else if len(add.Body.List) == 1 {
		addOK = show(add.Body.List[0]) == seshVar+".AddConnection(<-"+chVar+")"
	}
	boolFact(g, "addLoopReceivesAndAdds", addOK, "body of the adding loop: "+show(add.Body))
	boolFact(g, "sessionIdFromAuthInfo", len(msArgs) == 2 && show(msArgs[0]) == ai+".SessionId" && show(msArgs[1]) == cfgLit, "mux.MakeSession arguments")

	// ---- SessionConfig literal ----
	if lit == nil {
		unrec(g, "seshConfigFields", "SessionConfig literal not found")
	} else {
		var fs [][2]string
		ok := true
		for _, e := range lit.Elts {
			kv, isKV := e.(*ast.KeyValueExpr)
			if !isKV {
				ok = false
				break
			}
			v := show(kv.Value)
			v = strings.Replace(v, cc+".", "connConfig.", 1)
			v = strings.Replace(v, ai+".", "authInfo.", 1)
			if kv.Key != nil && show(kv.Key) == "Obfuscator" {
				// the obfuscator variable: must be the result of MakeObfuscator (checked in topOrder)
				v = "obfuscator"
			}
			fs = append(fs, [2]string{show(kv.Key), v})
		}
		if !ok {
			unrec(g, "seshConfigFields", "SessionConfig literal is not keyed")
		} else {
			sort.Slice(fs, func(i, j int) bool { return fs[i][0] < fs[j][0] })
			emit(g, "seshConfigFields", "List (String × String)", fPairList(fs), show(lit))
		}
	}

	// ---- spawn loop body: wg.Add(1); transportConfig := connConfig.Transport; go func(){...}() ----
	var cfgVar string
	var gofn *ast.FuncLit
	addBefore, cfgCopied := false, false
	for _, s := range spawn.Body.List {
		switch s := s.(type) {
		case *ast.ExprStmt:
			if show(s.X) == wgVar+".Add(1)" && gofn == nil {
				addBefore = true
			}
		case *ast.AssignStmt:
			if s.Tok == token.DEFINE && len(s.Lhs) == 1 && len(s.Rhs) == 1 && show(s.Rhs[0]) == cc+".Transport" && gofn == nil {
				cfgVar, cfgCopied = show(s.Lhs[0]), true
			}
		case *ast.GoStmt:
			if fl, ok := s.Call.Fun.(*ast.FuncLit); ok && len(s.Call.Args) == 0 {
				gofn = fl
			}
		}
	}
	boolFact(g, "wgAddBeforeGo", addBefore, "wg.Add(1) in the spawn loop, before the go statement")
	boolFact(g, "transportConfigCopiedPerIteration", cfgCopied, "`x := connConfig.Transport` declared inside the spawn loop")
	// the field is a struct VALUE (a pointer would be shared between the goroutines)
	valField := false
	if p := pkgs[cl]; p != nil {
		for _, f := range p.files {
			ast.Inspect(f, func(n ast.Node) bool {
				ts, ok := n.(*ast.TypeSpec)
				if !ok || ts.Name.Name != "RemoteConnConfig" {
					return true
				}
				if st, ok := ts.Type.(*ast.StructType); ok {
					for _, fl := range st.Fields.List {
						for _, nm := range fl.Names {
							if nm.Name == "Transport" && show(fl.Type) == "TransportConfig" {
								valField = true
							}
						}
					}
				}
				return false
			})
		}
	}
	boolFact(g, "transportFieldIsValue", valField, "RemoteConnConfig.Transport has type TransportConfig (not a pointer)")
	if gofn == nil || cfgVar == "" {
		unrec(g, "goroutine", "go func(){...}() / per-iteration transport configuration not found in the spawn loop")
		return
	}

	// ---- goroutine body ----
	body := gofn.Body.List
	if len(body) != 1 {
		// a labelled statement swallows only the first statement; the rest follow it
	}
	var label string
	var stmts []ast.Stmt
	if len(body) >= 1 {
		if ls, ok := body[0].(*ast.LabeledStmt); ok {
			label = ls.Label.Name
			stmts = append([]ast.Stmt{ls.Stmt}, body[1:]...)
		}
	}
	if label == "" {
		unrec(g, "goroutine", "the goroutine body does not start with a label")
		return
	}
	// expected: tc := cfg.CreateTransport(); rc, err := dialer.Dial(..); if err != nil {..}; sk, err := tc.Handshake(rc, authInfo); if err != nil {..}; Store; send; Done
	var tcVar, rcVar, skVar, errVar string
	var dialIf, hsIf *ast.IfStmt
	var tail []ast.Stmt
	stage := 0
	shape := true
	for _, s := range stmts {
		switch stage {
		case 0:
			if a, ok := s.(*ast.AssignStmt); ok && len(a.Lhs) == 1 && len(a.Rhs) == 1 && show(a.Rhs[0]) == cfgVar+".CreateTransport()" {
				tcVar = show(a.Lhs[0])
				stage = 1
			} else {
				shape = false
			}
		case 1:
			if a, ok := s.(*ast.AssignStmt); ok && len(a.Lhs) == 2 && len(a.Rhs) == 1 && strings.HasPrefix(show(a.Rhs[0]), dl+".Dial(") {
				rcVar, errVar = show(a.Lhs[0]), show(a.Lhs[1])
				args := a.Rhs[0].(*ast.CallExpr).Args
				boolFact(g, "dialsRemoteAddr", len(args) == 2 && show(args[1]) == cc+".RemoteAddr", show(a.Rhs[0]))
				stage = 2
			} else {
				shape = false
			}
		case 2:
			if dialIf = kErrIf(s, errVar); dialIf != nil {
				stage = 3
			} else {
				shape = false
			}
		case 3:
			if a, ok := s.(*ast.AssignStmt); ok && len(a.Lhs) == 2 && len(a.Rhs) == 1 && show(a.Rhs[0]) == tcVar+".Handshake("+rcVar+", "+ai+")" {
				skVar, errVar = show(a.Lhs[0]), show(a.Lhs[1])
				stage = 4
			} else {
				shape = false
			}
		case 4:
			if hsIf = kErrIf(s, errVar); hsIf != nil {
				stage = 5
			} else {
				shape = false
			}
		case 5:
			tail = append(tail, s)
		}
	}
	if !shape || stage != 5 {
		unrec(g, "goroutine", fmt.Sprintf("goroutine body is not create/dial/if/handshake/if/tail (stopped at stage %d)", stage))
		return
	}
	var sleepsD, sleepsH []ast.Expr
	var fbD, fbH *ast.IfStmt
	dActs := kActs(dialIf.Body.List, tcVar, cfgVar, label, &sleepsD, &fbD)
	hActs := kActs(hsIf.Body.List, tcVar, cfgVar, label, &sleepsH, &fbH)
	emit(g, "dialFailActs", "List String", leanList(dActs), show(dialIf.Body))
	emit(g, "hsFailActs", "List String", leanList(hActs), "failure branch of Handshake")
	boolFact(g, "dialFailJumpsBack", kClean(dActs), "dial failure: recognised actions only, one sleep, ends in goto "+label)
	boolFact(g, "hsFailJumpsBack", kClean(hActs), "handshake failure: recognised actions only, one sleep, ends in goto "+label)
	boolFact(g, "dialFailCloses", kHas(dActs, "close"), "transport closed in the dial-failure branch")
	boolFact(g, "hsFailCloses", kHas(hActs, "close"), "transport closed in the handshake-failure branch")
	boolFact(g, "dialFailFallsBack", kHas(dActs, "fallback"), "browser fallback in the dial-failure branch")
	boolFact(g, "hsFailFallsBack", kHas(hActs, "fallback"), "browser fallback in the handshake-failure branch")
	x := &xlate{p: pkgs[cl]}
	for _, q := range []struct {
		n  string
		es []ast.Expr
	}{{"sleepDialFail", sleepsD}, {"sleepHsFail", sleepsH}} {
		if len(q.es) != 1 {
			unrec(g, q.n, "not exactly one time.Sleep in the branch")
			continue
		}
		v, err := x.p.evalConst(q.es[0], 0)
		if err != nil {
			unrec(g, q.n, err.Error())
			continue
		}
		emit(g, q.n, "Int", fmt.Sprintf("%d", v), "time.Sleep("+show(q.es[0])+") [ns]")
	}
	// the fallback: condition and the browser assigned
	fb := fbH
	if fb == nil {
		fb = fbD
	}
	if fb == nil {
		// no fallback anywhere: the model still needs the two terms
		emitFn(g, "fallbackCond", "(mode : String) (browser : Int)", "Bool", "false", "no fallback statement")
		emitFn(g, "fallbackBrowser", "(browser : Int)", "Int", "browser", "no fallback statement")
	} else if fb.Else != nil {
		unrec(g, "fallbackCond", "the fallback if has an else branch")
	} else {
		vars := map[string]string{cfgVar + ".browser": "browser"}
		ast.Inspect(fb.Cond, func(n ast.Node) bool {
			be, ok := n.(*ast.BinaryExpr)
			if !ok || (be.Op != token.EQL && be.Op != token.NEQ) {
				return true
			}
			op := map[token.Token]string{token.EQL: "=", token.NEQ: "≠"}[be.Op]
			if s, isS := fUnq(be.Y); isS && show(be.X) == cfgVar+".mode" {
				vars[show(be)] = "decide (mode " + op + " " + leanStr(s) + ")"
			} else if s, isS := fUnq(be.X); isS && show(be.Y) == cfgVar+".mode" {
				vars[show(be)] = "decide (mode " + op + " " + leanStr(s) + ")"
			}
			return true
		})
		boolExpr(g, "fallbackCond", "(mode : String) (browser : Int)", cl, fb.Cond, vars)
		var rhs ast.Expr
		n := 0
		for _, s := range fb.Body.List {
			if a, ok := s.(*ast.AssignStmt); ok {
				n++
				if len(a.Lhs) == 1 && len(a.Rhs) == 1 && show(a.Lhs[0]) == cfgVar+".browser" && a.Tok == token.ASSIGN {
					rhs = a.Rhs[0]
				}
			} else if es, ok := s.(*ast.ExprStmt); !ok || !strings.HasPrefix(show(es.X), "log.") {
				n += 100
			}
		}
		if n != 1 {
			unrec(g, "fallbackBrowser", "the fallback body is not a single assignment to .browser (plus logging)")
		} else {
			numExpr(g, "fallbackBrowser", "(browser : Int)", cl, rhs, vars)
		}
	}
	// success path
	var tl []string
	for _, s := range tail {
		t := show(s)
		switch {
		case t == keyVar+".Store("+skVar+")":
			tl = append(tl, "store")
		case t == chVar+" <- "+tcVar:
			tl = append(tl, "send")
		case t == wgVar+".Done()":
			tl = append(tl, "done")
		case strings.HasPrefix(t, "log."):
		default:
			tl = append(tl, "other:"+t)
		}
	}
	emit(g, "okActs", "List String", leanList(tl), "success path of the goroutine")
	iS, iC, iD := -1, -1, -1
	for i, a := range tl {
		switch a {
		case "store":
			iS = i
		case "send":
			iC = i
		case "done":
			iD = i
		}
	}
	boolFact(g, "okStoresSendsThenDone", len(tl) == 3 && iS >= 0 && iC >= 0 && iD > iS && iD > iC, "Store(sk) and the send both precede wg.Done(), nothing else")
	_ = sb
	_ = ab

	// cmd/ck-client: every assignment to <x>.NumConn after ProcessRawConfig is a positive literal
	minNC, nNC := int64(1<<62), 0
	if p := pkgs["cmd/ck-client"]; p != nil {
		for _, f := range p.files {
			ast.Inspect(f, func(n ast.Node) bool {
				a, ok := n.(*ast.AssignStmt)
				if !ok || len(a.Lhs) != 1 || len(a.Rhs) != 1 || !strings.HasSuffix(show(a.Lhs[0]), ".NumConn") {
					return true
				}
				nNC++
				v, err := p.evalConst(a.Rhs[0], 0)
				if err != nil {
					v = -1
				}
				if v < minNC {
					minNC = v
				}
				return true
			})
		}
	}
	if nNC == 0 {
		minNC = 1
	}
	emit(g, "ckClientNumConnMin", "Int", fmt.Sprintf("%d", minNC), "smallest value cmd/ck-client assigns to a .NumConn field (-1: not a literal; 1 if it assigns none)")
}

func leanList(xs []string) string {
	var q []string
	for _, x := range xs {
		q = append(q, leanStr(x))
	}
	return "[" + strings.Join(q, ", ") + "]"
}

func factsBackoff(g string) {
	fn := fnOf(cm, "backoff")
	if fn == nil || len(fn.Type.Params.List) != 1 {
		unrec(g, "backoff", "common.backoff(f) not found")
		return
	}
	f := fn.Type.Params.List[0].Names[0].Name
	// shape: err := f(); if err == nil {return}; waitDur := [N]time.Duration{...}; for i := 0; i < K; i++ { log; err = f(); if err == nil {return}; time.Sleep(waitDur[i]) }; log.Fatal
	var shape []string
	var loop *ast.ForStmt
	var waits []string
	var arrLen int64 = -1
	var waitVar string
	okRet := func(s ast.Stmt) bool {
		is, ok := s.(*ast.IfStmt)
		if !ok || is.Else != nil || is.Init != nil || len(is.Body.List) != 1 {
			return false
		}
		c := show(is.Cond)
		return (c == "err == nil" || c == "nil == err") && show(is.Body.List[0]) == "return"
	}
	for _, s := range fn.Body.List {
		t := show(s)
		switch {
		case t == "err := "+f+"()":
			shape = append(shape, "call")
		case okRet(s):
			shape = append(shape, "retok")
		case strings.HasPrefix(t, "log.Fatal"):
			shape = append(shape, "fatal")
		case strings.HasPrefix(t, "log."):
		default:
			if a, ok := s.(*ast.AssignStmt); ok && len(a.Rhs) == 1 {
				if cl2, ok := a.Rhs[0].(*ast.CompositeLit); ok {
					if at, ok := cl2.Type.(*ast.ArrayType); ok && show(at.Elt) == "time.Duration" {
						waitVar = show(a.Lhs[0])
						if at.Len != nil {
							if v, err := pkgs[cm].evalConst(at.Len, 0); err == nil {
								arrLen = v
							}
						}
						good := true
						for _, e := range cl2.Elts {
							v, err := pkgs[cm].evalConst(e, 0)
							if err != nil {
								good = false
								break
							}
							waits = append(waits, fmt.Sprintf("%d", v))
						}
						if !good {
							waits = nil
						}
						shape = append(shape, "table")
						continue
					}
				}
			}
			if fs, ok := s.(*ast.ForStmt); ok && loop == nil {
				loop = fs
				shape = append(shape, "loop")
				continue
			}
			shape = append(shape, "other:"+t)
		}
	}
	emit(g, "backoffShape", "List String", leanList(shape), "top-level statements of common.backoff")
	if waits == nil || loop == nil {
		unrec(g, "backoffWaits", "wait table / retry loop not found")
		return
	}
	emit(g, "backoffWaits", "List Int", "["+strings.Join(waits, ", ")+"]", "the waitDur table [ns]")
	emit(g, "backoffTableLen", "Int", fmt.Sprintf("%d", arrLen), "declared array length")
	b := kLoopBound(loop)
	iv := ""
	if m := regexp.MustCompile(`^(\w+) := 0$`).FindStringSubmatch(show(loop.Init)); m != nil {
		iv = m[1]
	}
	if v, err := pkgs[cm].evalConst(kIntLit(b), 0); b == "" || err != nil {
		unrec(g, "backoffRetries", "retry loop is not `for i := 0; i < K; i++`")
	} else {
		emit(g, "backoffRetries", "Nat", fmt.Sprintf("%d", v), "for "+show(loop.Init)+"; "+show(loop.Cond)+"; "+show(loop.Post))
	}
	var ls []string
	for _, s := range loop.Body.List {
		t := show(s)
		switch {
		case t == "err = "+f+"()":
			ls = append(ls, "call")
		case okRet(s):
			ls = append(ls, "retok")
		case t == "time.Sleep("+waitVar+"["+iv+"])":
			ls = append(ls, "sleep")
		case strings.HasPrefix(t, "log.Fatal"):
			ls = append(ls, "fatal")
		case strings.HasPrefix(t, "log."):
		default:
			ls = append(ls, "other:"+t)
		}
	}
	emit(g, "backoffLoopShape", "List String", leanList(ls), "body of the retry loop")

	// RandRead: the byte count of Read is discarded, only the error decides
	if rr := fnOf(cm, "RandRead"); rr == nil {
		unrec(g, "randReadIgnoresCount", "common.RandRead not found")
	} else {
		t := show(rr.Body)
		boolFact(g, "randReadUsesBackoff", len(allCalls(rr.Body, `^backoff$`)) == 1, "RandRead calls backoff once")
		boolFact(g, "randReadIgnoresCount", regexp.MustCompile(`_, err := \w+\.Read\(\w+\)`).MatchString(t) && !strings.Contains(t, "ReadFull"), "`_, err := randSource.Read(buf)`")
	}
	// RandInt: rand.Int(rand.Reader, big.NewInt(int64(n))) ; *s = int(size.Int64())
	if ri := fnOf(cm, "RandInt"); ri == nil || len(ri.Type.Params.List) != 1 {
		unrec(g, "randIntBound", "common.RandInt(n) not found")
	} else {
		n := ri.Type.Params.List[0].Names[0].Name
		args := callArgs(ri.Body, `^rand\.Int$`)
		if len(args) != 2 {
			unrec(g, "randIntBound", "rand.Int(reader, max) not found")
		} else {
			ba := callArgs(args[1], `^big\.NewInt$`)
			if len(ba) != 1 {
				unrec(g, "randIntBound", "max is not big.NewInt(..)")
			} else {
				numExpr(g, "randIntBound", "(n : Int)", cm, ba[0], map[string]string{n: "n"})
			}
			boolFact(g, "randIntReaderIsCrypto", show(args[0]) == "rand.Reader", show(args[0]))
		}
		// the result: *s = int(<v>.Int64()) where <v> is rand.Int's first result; return *s
		resOK := false
		var sizeVar string
		ast.Inspect(ri.Body, func(m ast.Node) bool {
			if a, ok := m.(*ast.AssignStmt); ok && len(a.Rhs) == 1 && strings.HasPrefix(show(a.Rhs[0]), "rand.Int(") && len(a.Lhs) == 2 {
				sizeVar = show(a.Lhs[0])
			}
			return true
		})
		ast.Inspect(ri.Body, func(m ast.Node) bool {
			if a, ok := m.(*ast.AssignStmt); ok && len(a.Lhs) == 1 && len(a.Rhs) == 1 && show(a.Lhs[0]) == "*s" {
				r := show(a.Rhs[0])
				resOK = sizeVar != "" && (r == "int("+sizeVar+".Int64())")
			}
			return true
		})
		boolFact(g, "randIntReturnsDraw", resOK && strings.Contains(show(ri.Body), "return *s"), "*s = int(size.Int64()); return *s")
		boolFact(g, "randIntUsesBackoff", len(allCalls(ri.Body, `^backoff$`)) == 1, "RandInt calls backoff once")
	}
}

func kIntLit(s string) ast.Expr {
	if s == "" {
		return nil
	}
	return &ast.BasicLit{Kind: token.INT, Value: s}
}

func factsGCM(g string) {
	for _, q := range [][2]string{{"AESGCMEncrypt", "Seal"}, {"AESGCMDecrypt", "Open"}} {
		fn := fnOf(cm, q[0])
		if fn == nil {
			unrec(g, "gcm"+q[1]+"Order", "common."+q[0]+" not found")
			continue
		}
		evs := rawEvents(fn)
		iC := idx(evs, 0, "call", `^aes\.NewCipher\(key\)`)
		iG := idx(evs, 0, "call", `^cipher\.NewGCM\(block\)`)
		iN := idx(evs, 0, "if", `^len\(nonce\) != aesgcm\.NonceSize\(\)$`)
		iO := idx(evs, 0, "call", `^aesgcm\.`+q[1]+`\(nil, nonce, \w+, nil\)`)
		boolFact(g, "gcm"+q[1]+"Order", iC >= 0 && iG > iC && iN > iG && iO > iN, "NewCipher, NewGCM, nonce length test, "+q[1]+" in this order")
	}
}
