package main

import (
	"fmt"
	"go/ast"
	"regexp"
	"sort"
	"strings"
)

// C12 (lock order of internal/multiplex): every control-flow path of the stream/session/switchboard/buffer
// operations as a sequence of lock acquisitions and releases over the lock classes
//   W = Stream.writingM   T = Session.streamsM   R = streamBuffer.recvM   L = the pipes' rwCond.L   N = switchboard.addConnM
// (callees inlined, loop bodies once, defer Unlock = release at return), with the walker of facts_c17.go.

func init() { register(factsMuxLocks) }

func factsMuxLocks() {
	g := "MuxLocks"
	classes := map[string]int{"writingM": 0, "streamsM": 1, "recvM": 2, "rwCond.L": 3, "addConnM": 4}
	// all mutex-typed fields of the package must be among the classes above (a new mutex must not go unnoticed)
	var unknown []string
	for _, typ := range []string{"Stream", "Session", "switchboard", "streamBuffer", "streamBufferedPipe", "datagramBufferedPipe"} {
		for _, f := range mutexFields(mx, typ) {
			if _, ok := classes[f]; !ok {
				unknown = append(unknown, typ+"."+f)
			}
		}
	}
	if len(unknown) > 0 {
		unrec(g, "lockPrograms", "mutex fields without a lock class: "+strings.Join(unknown, ", "))
		return
	}
	table := []struct{ re, keys string }{
		{`^s\.recvBuf\.Write$`, "streamBuffer.Write,datagramBufferedPipe.Write"},
		{`^s\.recvBuf\.Read$`, "streamBuffer.Read,datagramBufferedPipe.Read"},
		{`^(s|stream)\.recvBuf\.Close$`, "streamBuffer.Close,datagramBufferedPipe.Close"},
		{`^sb\.buf\.Write$`, "streamBufferedPipe.Write"},
		{`^sb\.buf\.Read$`, "streamBufferedPipe.Read"},
		{`^sb\.buf\.Close$`, "streamBufferedPipe.Close"},
		{`^(s\.session|sesh)\.closeStream$`, "Session.closeStream"},
		{`^s\.passiveClose$`, "Stream.passiveClose"},
		{`^(sesh|sb\.session|s\.session)\.passiveClose$`, "Session.passiveClose"},
		{`^s\.obfuscateAndSend$`, "Stream.obfuscateAndSend"},
		{`^(s\.session\.sb|sesh\.sb)\.send$`, "switchboard.send"},
		{`^sesh\.sb\.closeAll$`, "switchboard.closeAll"},
		{`^sesh\.sb\.addConn$`, "switchboard.addConn"},
		{`^sesh\.closeSession$`, "Session.closeSession"},
		{`^sesh\.Close$`, "Session.Close"},
		{`^(existingStream|newStream)\.recvFrame$`, "Stream.recvFrame"},
		{`^sb\.session\.recvDataFromRemote$`, "Session.recvDataFromRemote"},
		{`^sb\.pickRandConn$`, "switchboard.pickRandConn"},
	}
	type ent struct {
		re   *regexp.Regexp
		keys []string
	}
	var ents []ent
	for _, t := range table {
		ents = append(ents, ent{regexp.MustCompile(t.re), strings.Split(t.keys, ",")})
	}
	resolved := map[string]int{}
	w := &lockWalker{dir: mx, classes: classes, listed: map[string]string{}, stack: map[string]bool{}, cache: map[string][][]lockEv{}, auto: true}
	w.resolve = func(c *ast.CallExpr) ([]string, bool) {
		t := show(c.Fun)
		for _, e := range ents {
			if e.re.MatchString(t) {
				resolved[e.re.String()]++
				return e.keys, true
			}
		}
		return nil, false
	}
	w.lockName = func(x ast.Expr) (string, bool) {
		t := show(x)
		for nm := range classes {
			if strings.HasSuffix(t, "."+nm) {
				return nm, true
			}
		}
		return "", false
	}
	// the operations an application goroutine, a deplex goroutine or a timer runs
	entries := []string{"Stream.Write", "Stream.ReadFrom", "Stream.Close", "Stream.Read", "Session.OpenStream", "Session.Accept",
		"Session.Close", "Session.checkTimeout", "Session.AddConnection", "switchboard.deplex"}
	// the session's refusal teller (a goroutine of its own), when the tree has one
	if fnOf(mx, "Session.tellRefusals") != nil {
		entries = append(entries, "Session.tellRefusals")
	}
	// There are over a thousand distinct paths (error paths nest deeply), too many to hand to Lean as literals.
	// Rank-orderedness of a path depends only on its ACQUISITION CONTEXTS — for every acquisition, the stack of locks
	// held at that moment — and on its being well bracketed (Lean: C12L.ok_iff_ctx). Emit the distinct contexts.
	type ctxT struct {
		held []int
		l    int
	}
	seenCtx := map[string]bool{}
	var ctxs []string
	paths, wellBracketed := 0, true
	perEntry := map[string]int{}
	for _, k := range entries {
		progs := w.fnPrograms(k)
		paths += len(progs)
		perEntry[k] = len(progs)
		for _, p := range progs {
			var held []int
			for _, e := range p {
				if e.acq {
					var hs []string
					for _, h := range held {
						hs = append(hs, fmt.Sprint(h))
					}
					key := fmt.Sprintf("([%s], %d)", strings.Join(hs, ", "), e.cls)
					if !seenCtx[key] {
						seenCtx[key] = true
						ctxs = append(ctxs, key)
					}
					held = append([]int{e.cls}, held...) // most recent first, as Locks.ok pushes
				} else {
					k := -1
					for i, h := range held {
						if h == e.cls {
							k = i
							break
						}
					}
					if k < 0 {
						wellBracketed = false
					} else {
						held = append(append([]int(nil), held[:k]...), held[k+1:]...)
					}
				}
			}
			if len(held) != 0 {
				wellBracketed = false
			}
		}
	}
	sort.Strings(ctxs)
	// every table line must have matched at least one call site, otherwise the call graph above is stale
	var dead []string
	for _, e := range ents {
		if resolved[e.re.String()] == 0 {
			dead = append(dead, e.re.String())
		}
	}
	sort.Strings(dead)
	if len(w.bad) > 0 || len(dead) > 0 {
		unrec(g, "lockPrograms", strings.Join(append(w.bad, dead...), "; "))
		return
	}
	emit(g, "lockContexts", "List (List Nat × Nat)", "["+strings.Join(ctxs, ", ")+"]",
		"distinct acquisition contexts (locks held, most recent first; lock acquired) over all paths; W=0 T=1 R=2 L=3 N=4")
	natFact(g, "lockPathCount", paths, "number of distinct control-flow paths examined")
	boolFact(g, "lockPathsWellBracketed", wellBracketed, "every path releases exactly what it acquired")
	var pe []string
	for _, k := range entries {
		pe = append(pe, fmt.Sprintf("(%s, %d)", leanStr(k), perEntry[k]))
	}
	emit(g, "lockPathsPerEntry", "List (String × Nat)", "["+strings.Join(pe, ", ")+"]", "paths per entry point")
	// the one blocking operation performed while a lock is held: `sesh.acceptCh <- newStream` under streamsM
	if fn := fnOf(mx, "Session.recvDataFromRemote"); fn != nil {
		evs := events(fn)
		natFact(g, "sendsUnderStreamsM", count(evs, "send", `acceptCh <-`), "channel sends in recvDataFromRemote (performed under streamsM)")
	}
}
