package main

// T1 facts for the binary heap that reorders frames: sorterHeap (internal/multiplex/streamBuffer.go) and Go's
// container/heap, read from the GOROOT of the toolchain the repository builds with.  Regenerates Gen/Heap.lean.
// Every pattern that does not match ends in unrec(...) or in a `false` Boolean; nothing has a silent default.

import (
	"fmt"
	"go/ast"
	"go/token"
	"os"
	"os/exec"
	"path/filepath"
	"regexp"
	"strings"
)

func init() { register(factsHeap) }

// hpNS prints a node without any white space (so `old[0 : n-1]`, `old[0:n-1]` compare equal).
func hpNS(n ast.Node) string {
	if n == nil {
		return ""
	}
	return strings.ReplaceAll(show(n), " ", "")
}

// hpParams: the flattened parameter names of a declaration.
func hpParams(fn *ast.FuncDecl) []string {
	var out []string
	if fn == nil || fn.Type.Params == nil {
		return nil
	}
	for _, f := range fn.Type.Params.List {
		for _, n := range f.Names {
			out = append(out, n.Name)
		}
	}
	return out
}

func hpRecv(fn *ast.FuncDecl) string {
	if fn == nil || fn.Recv == nil || len(fn.Recv.List) != 1 || len(fn.Recv.List[0].Names) != 1 {
		return ""
	}
	return fn.Recv.List[0].Names[0].Name
}

// hpNat translates an index expression to a Lean Nat term: identifiers in vars, INT literals, + - * /, parentheses.
func hpNat(e ast.Expr, vars map[string]string) (string, error) {
	switch e := e.(type) {
	case *ast.ParenExpr:
		return hpNat(e.X, vars)
	case *ast.Ident:
		if v, ok := vars[e.Name]; ok {
			return v, nil
		}
		return "", fmt.Errorf("unknown identifier %s", e.Name)
	case *ast.BasicLit:
		if e.Kind == token.INT && regexp.MustCompile(`^(0|[1-9][0-9]*)$`).MatchString(e.Value) {
			return e.Value, nil
		}
	case *ast.BinaryExpr:
		op := map[token.Token]string{token.ADD: "+", token.SUB: "-", token.MUL: "*", token.QUO: "/"}[e.Op]
		if op == "" {
			break
		}
		a, err := hpNat(e.X, vars)
		if err != nil {
			return "", err
		}
		b, err := hpNat(e.Y, vars)
		if err != nil {
			return "", err
		}
		return "(" + a + " " + op + " " + b + ")", nil
	}
	return "", fmt.Errorf("unsupported index expression %s", show(e))
}

func hpNatFact(g, name, params string, e ast.Expr, vars map[string]string, note string) {
	if e == nil {
		unrec(g, name, "expression not found")
		return
	}
	t, err := hpNat(e, vars)
	if err != nil {
		unrec(g, name, err.Error())
		return
	}
	emitFn(g, name, params, "Nat", t, show(e)+note)
}

func hpBool(g, name, params string, e ast.Expr, vars map[string]string) {
	if e == nil {
		unrec(g, name, "expression not found")
		return
	}
	x := &xlate{p: pkgs[mx], vars: vars}
	t := x.cond(e)
	if x.err != nil {
		unrec(g, name, x.err.Error())
		return
	}
	emitFn(g, name, params, "Bool", t, show(e))
}

// hpGoroot: GOROOT of the toolchain the repository builds with, and its version string.
func hpGoroot(root string) (string, string, string) {
	ok := func(d string) bool {
		_, err := os.Stat(filepath.Join(d, "src", "container", "heap", "heap.go"))
		return d != "" && err == nil
	}
	goroot, why := "", ""
	cmd := exec.Command("go", "env", "GOROOT")
	cmd.Dir = root
	for _, kv := range os.Environ() {
		if strings.HasPrefix(kv, "GOTOOLCHAIN=") || strings.HasPrefix(kv, "GOFLAGS=") || strings.HasPrefix(kv, "GOSUMDB=") {
			continue
		}
		cmd.Env = append(cmd.Env, kv)
	}
	if out, err := cmd.Output(); err == nil {
		ls := strings.Split(strings.TrimSpace(string(out)), "\n")
		if d := strings.TrimSpace(ls[len(ls)-1]); ok(d) {
			goroot = d
		} else {
			why = "`go env GOROOT` gave " + d + " which has no src/container/heap"
		}
	} else {
		why = "`go env GOROOT` failed: " + err.Error()
	}
	if goroot == "" {
		// fallback: the toolchain (or go) line of go.mod, looked up in the module cache
		ver := ""
		if b, err := os.ReadFile(filepath.Join(root, "go.mod")); err == nil {
			if m := regexp.MustCompile(`(?m)^toolchain\s+go(\S+)`).FindStringSubmatch(string(b)); m != nil {
				ver = m[1]
			} else if m := regexp.MustCompile(`(?m)^go\s+(\S+)`).FindStringSubmatch(string(b)); m != nil {
				ver = m[1]
			}
		}
		if ver != "" {
			for _, mc := range g19modcache() {
				ds, _ := filepath.Glob(filepath.Join(mc, "golang.org", "toolchain@v0.0.1-go"+ver+".*"))
				for _, d := range ds {
					if goroot == "" && ok(d) {
						goroot = d
					}
				}
			}
		}
		if goroot == "" {
			return "", "", why + "; no toolchain go" + ver + " in the module cache"
		}
	}
	ver := ""
	if b, err := os.ReadFile(filepath.Join(goroot, "VERSION")); err == nil {
		ver = strings.TrimSpace(strings.SplitN(string(b), "\n", 2)[0])
	}
	if ver == "" {
		if m := regexp.MustCompile(`go[0-9][0-9a-z.]*[0-9]`).FindString(filepath.Base(goroot)); m != "" {
			ver = m
		}
	}
	return goroot, ver, ""
}

// hpIsBreakIf: `if cond { break }` without init and without else.
func hpIsBreakIf(s ast.Stmt) (*ast.IfStmt, bool) {
	f, ok := s.(*ast.IfStmt)
	if !ok || f.Else != nil || len(f.Body.List) != 1 {
		return nil, false
	}
	b, ok := f.Body.List[0].(*ast.BranchStmt)
	if !ok || b.Tok != token.BREAK || b.Label != nil {
		return nil, false
	}
	return f, true
}

// hpDefine: `name := rhs` (a single definition); returns the name and the rhs.
func hpDefine(s ast.Stmt) (string, ast.Expr) {
	a, ok := s.(*ast.AssignStmt)
	if !ok || a.Tok != token.DEFINE || len(a.Lhs) != 1 || len(a.Rhs) != 1 {
		return "", nil
	}
	id, ok := a.Lhs[0].(*ast.Ident)
	if !ok {
		return "", nil
	}
	return id.Name, a.Rhs[0]
}

// hpBareFor: the statement is `for { ... }` (no init, condition, post); returns its body.
func hpBareFor(s ast.Stmt) []ast.Stmt {
	f, ok := s.(*ast.ForStmt)
	if !ok || f.Init != nil || f.Cond != nil || f.Post != nil {
		return nil
	}
	return f.Body.List
}

func factsHeap() {
	g := "Heap"
	factsSorterHeap(g)
	factsStreamBufferHeap(g)

	libNames := []string{"upParent", "upBreak", "upLoopShape", "downLeft", "downRight", "downStop", "downPickRight",
		"downBreak", "downLoopShape", "heapPushShape", "heapPopShape"}
	goroot, ver, why := hpGoroot(g19repoRoot())
	if goroot == "" {
		unrec(g, "goVersion", why)
		for _, n := range libNames {
			unrec(g, n, "container/heap source not found: "+why)
		}
		return
	}
	if ver == "" {
		unrec(g, "goVersion", "no VERSION in "+goroot)
	} else {
		emit(g, "goVersion", "String", leanStr(ver), "GOROOT of the toolchain the repository builds with: "+goroot)
	}
	lib := loadPkg(goroot, filepath.Join("src", "container", "heap"))
	factsHeapUp(g, lib.funcs["up"])
	factsHeapDown(g, lib.funcs["down"])

	// Push: h.Push(x); up(h, h.Len()-1)
	if fn := lib.funcs["Push"]; fn == nil || fn.Body == nil || len(hpParams(fn)) != 2 {
		unrec(g, "heapPushShape", "container/heap.Push(h, x) not found")
	} else {
		ps, b := hpParams(fn), fn.Body.List
		h, x := ps[0], ps[1]
		boolFact(g, "heapPushShape", len(b) == 2 && hpNS(b[0]) == h+".Push("+x+")" && hpNS(b[1]) == "up("+h+","+h+".Len()-1)",
			"container/heap.Push: "+show(fn.Body))
	}
	// Pop: n := h.Len() - 1; h.Swap(0, n); down(h, 0, n); return h.Pop()
	if fn := lib.funcs["Pop"]; fn == nil || fn.Body == nil || len(hpParams(fn)) != 1 {
		unrec(g, "heapPopShape", "container/heap.Pop(h) not found")
	} else {
		h, b := hpParams(fn)[0], fn.Body.List
		okShape := false
		if len(b) == 4 {
			n, rhs := hpDefine(b[0])
			okShape = n != "" && n != h && hpNS(rhs) == h+".Len()-1" && hpNS(b[1]) == h+".Swap(0,"+n+")" &&
				hpNS(b[2]) == "down("+h+",0,"+n+")" && hpNS(b[3]) == "return"+h+".Pop()"
		}
		boolFact(g, "heapPopShape", okShape, "container/heap.Pop: "+show(fn.Body))
	}
}

func factsHeapUp(g string, fn *ast.FuncDecl) {
	names := []string{"upParent", "upBreak", "upLoopShape"}
	fail := func(why string) {
		for _, n := range names {
			unrec(g, n, why)
		}
	}
	if fn == nil || fn.Body == nil || len(hpParams(fn)) != 2 {
		fail("container/heap.up(h, j) not found")
		return
	}
	h, j := hpParams(fn)[0], hpParams(fn)[1]
	if len(fn.Body.List) != 1 || hpBareFor(fn.Body.List[0]) == nil {
		fail("up is not a single `for { ... }`")
		return
	}
	b := hpBareFor(fn.Body.List[0])
	if len(b) < 2 {
		fail("up's loop body is too short")
		return
	}
	i, rhs := hpDefine(b[0])
	if i == "" || i == j || i == h {
		fail("up's loop does not begin with `i := <parent of j>`")
		return
	}
	hpNatFact(g, "upParent", "(j : Nat)", rhs, map[string]string{j: "j"},
		"  (Go's int division truncates toward zero and Nat's truncated subtraction agrees for j ≥ 0; at j = 0 both give 0)")
	brk, ok := hpIsBreakIf(b[1])
	if !ok || brk.Init != nil {
		unrec(g, "upBreak", "second statement of up's loop is not `if ... { break }`")
		unrec(g, "upLoopShape", "second statement of up's loop is not `if ... { break }`")
		return
	}
	hpBool(g, "upBreak", "(i j : Int) (lessJI : Bool)", brk.Cond,
		map[string]string{h + ".Less(" + j + ", " + i + ")": "lessJI", i: "i", j: "j"})
	boolFact(g, "upLoopShape", len(b) == 4 && hpNS(b[2]) == h+".Swap("+i+","+j+")" && hpNS(b[3]) == j+"="+i,
		"container/heap.up: after the break-if come h.Swap(i, j); j = i")
}

func factsHeapDown(g string, fn *ast.FuncDecl) {
	names := []string{"downLeft", "downRight", "downStop", "downPickRight", "downBreak", "downLoopShape"}
	fail := func(why string) {
		for _, n := range names {
			unrec(g, n, why)
		}
	}
	if fn == nil || fn.Body == nil || len(hpParams(fn)) != 3 {
		fail("container/heap.down(h, i0, n) not found")
		return
	}
	ps := hpParams(fn)
	h, i0, n := ps[0], ps[1], ps[2]
	top := fn.Body.List
	if len(top) < 2 {
		fail("down's body is too short")
		return
	}
	i, irhs := hpDefine(top[0])
	b := hpBareFor(top[1])
	if i == "" || hpNS(irhs) != i0 || b == nil {
		fail("down does not begin with `i := i0; for { ... }`")
		return
	}
	if len(b) != 7 {
		fail(fmt.Sprintf("down's loop has %d statements, expected 7", len(b)))
		return
	}
	j1, j1rhs := hpDefine(b[0])
	stop, okStop := hpIsBreakIf(b[1])
	j, jrhs := hpDefine(b[2])
	pick, okPick := b[3].(*ast.IfStmt)
	brk, okBrk := hpIsBreakIf(b[4])
	if j1 == "" || !okStop || stop.Init != nil || j == "" || !okPick || pick.Init == nil || pick.Else != nil || !okBrk || brk.Init != nil {
		fail("down's loop is not `j1 := ..; if .. {break}; j := j1; if j2 := ..; .. {..}; if .. {break}; ..`")
		return
	}
	j2, j2rhs := hpDefine(pick.Init)
	if j2 == "" {
		fail("the pick-if of down has no `j2 := ...` init statement")
		return
	}
	distinct := map[string]bool{h: true, i0: true, n: true, i: true, j1: true, j: true, j2: true}
	if len(distinct) != 7 {
		fail("down's variables are not seven distinct names")
		return
	}
	hpNatFact(g, "downLeft", "(i : Nat)", j1rhs, map[string]string{i: "i"}, "")
	hpNatFact(g, "downRight", "(j1 : Nat)", j2rhs, map[string]string{j1: "j1"}, "")
	hpBool(g, "downStop", "(j1 n : Int)", stop.Cond, map[string]string{j1: "j1", n: "n"})
	hpBool(g, "downPickRight", "(j2 n : Int) (lessJ2J1 : Bool)", pick.Cond,
		map[string]string{j2: "j2", n: "n", h + ".Less(" + j2 + ", " + j1 + ")": "lessJ2J1"})
	hpBool(g, "downBreak", "(lessJI : Bool)", brk.Cond, map[string]string{h + ".Less(" + j + ", " + i + ")": "lessJI"})
	shape := hpNS(jrhs) == j1 &&
		len(pick.Body.List) == 1 && hpNS(pick.Body.List[0]) == j+"="+j2 &&
		hpNS(b[5]) == h+".Swap("+i+","+j+")" && hpNS(b[6]) == i+"="+j
	boolFact(g, "downLoopShape", shape,
		"container/heap.down: i := i0; loop: j := j1; pick-if assigns j = j2; after the break-if h.Swap(i, j); i = j")
}

func factsSorterHeap(g string) {
	// Less
	if fn := fnOf(mx, "sorterHeap.Less"); fn == nil || fn.Body == nil || hpRecv(fn) == "" || len(hpParams(fn)) != 2 {
		unrec(g, "shLess", "sorterHeap.Less(i, j) not found")
	} else {
		sh, ps := hpRecv(fn), hpParams(fn)
		var ret ast.Expr
		if len(fn.Body.List) == 1 {
			if r, ok := fn.Body.List[0].(*ast.ReturnStmt); ok && len(r.Results) == 1 {
				ret = r.Results[0]
			}
		}
		if ret == nil {
			unrec(g, "shLess", "sorterHeap.Less is not a single return statement")
		} else {
			hpBool(g, "shLess", "(si sj : Int)", ret,
				map[string]string{sh + "[" + ps[0] + "].Seq": "si", sh + "[" + ps[1] + "].Seq": "sj"})
		}
	}
	// Swap
	if fn := fnOf(mx, "sorterHeap.Swap"); fn == nil || fn.Body == nil || hpRecv(fn) == "" || len(hpParams(fn)) != 2 {
		unrec(g, "shSwapSwaps", "sorterHeap.Swap(i, j) not found")
	} else {
		sh, ps := hpRecv(fn), hpParams(fn)
		a, b := sh+"["+ps[0]+"]", sh+"["+ps[1]+"]"
		okSwap := false
		if len(fn.Body.List) == 1 && ps[0] != ps[1] {
			if s, ok := fn.Body.List[0].(*ast.AssignStmt); ok && s.Tok == token.ASSIGN && len(s.Lhs) == 2 && len(s.Rhs) == 2 {
				l0, l1, r0, r1 := hpNS(s.Lhs[0]), hpNS(s.Lhs[1]), hpNS(s.Rhs[0]), hpNS(s.Rhs[1])
				okSwap = l0 == r1 && l1 == r0 && ((l0 == a && l1 == b) || (l0 == b && l1 == a))
			}
		}
		boolFact(g, "shSwapSwaps", okSwap, "sorterHeap.Swap: "+show(fn.Body))
	}
	// Push
	if fn := fnOf(mx, "sorterHeap.Push"); fn == nil || fn.Body == nil || hpRecv(fn) == "" || len(hpParams(fn)) != 1 {
		unrec(g, "shPushAppends", "sorterHeap.Push(x) not found")
	} else {
		sh, x := hpRecv(fn), hpParams(fn)[0]
		boolFact(g, "shPushAppends", len(fn.Body.List) == 1 && hpNS(fn.Body.List[0]) == "*"+sh+"=append(*"+sh+","+x+".(*Frame))",
			"sorterHeap.Push: "+show(fn.Body))
	}
	// Pop
	if fn := fnOf(mx, "sorterHeap.Pop"); fn == nil || fn.Body == nil || hpRecv(fn) == "" || len(hpParams(fn)) != 0 {
		unrec(g, "shPopLast", "sorterHeap.Pop() not found")
	} else if b := fn.Body.List; len(b) != 5 {
		unrec(g, "shPopLast", fmt.Sprintf("sorterHeap.Pop has %d statements, expected old := *sh; n := len(old); x := old[n-1]; *sh = old[0 : n-1]; return x", len(b)))
	} else {
		sh := hpRecv(fn)
		old, oldRhs := hpDefine(b[0])
		n, nRhs := hpDefine(b[1])
		x, xRhs := hpDefine(b[2])
		if old == "" || n == "" || x == "" || hpNS(oldRhs) != "*"+sh || hpNS(nRhs) != "len("+old+")" {
			unrec(g, "shPopLast", "sorterHeap.Pop does not begin with old := *sh; n := len(old); x := ...")
		} else {
			distinct := map[string]bool{sh: true, old: true, n: true, x: true}
			trunc := hpNS(b[3])
			okPop := len(distinct) == 4 && hpNS(xRhs) == old+"["+n+"-1]" &&
				(trunc == "*"+sh+"="+old+"[0:"+n+"-1]" || trunc == "*"+sh+"="+old+"[:"+n+"-1]") &&
				hpNS(b[4]) == "return"+x
			boolFact(g, "shPopLast", okPop, "sorterHeap.Pop: "+show(fn.Body))
		}
	}
	// Len
	if fn := fnOf(mx, "sorterHeap.Len"); fn == nil || fn.Body == nil || hpRecv(fn) == "" {
		unrec(g, "shLenIsLen", "sorterHeap.Len() not found")
	} else {
		boolFact(g, "shLenIsLen", len(fn.Body.List) == 1 && hpNS(fn.Body.List[0]) == "returnlen("+hpRecv(fn)+")",
			"sorterHeap.Len: "+show(fn.Body))
	}
}

func factsStreamBufferHeap(g string) {
	// import "container/heap" under the name heap
	uses := false
	if p := pkgs[mx]; p != nil {
		if f := p.files["streamBuffer.go"]; f != nil {
			for _, im := range f.Imports {
				if im.Path.Value == `"container/heap"` && (im.Name == nil || im.Name.Name == "heap") {
					uses = true
				}
			}
		}
	}
	boolFact(g, "sbUsesContainerHeap", uses, `streamBuffer.go imports "container/heap" (as heap)`)

	fn := fnOf(mx, "streamBuffer.Write")
	if fn == nil || fn.Body == nil || hpRecv(fn) == "" {
		unrec(g, "sbPushCall", "streamBuffer.Write not found")
		return
	}
	sb := hpRecv(fn)
	heapExpr := sb + ".sh"
	pushes := allCalls(fn.Body, `^heap\.Push$`)
	pops := allCalls(fn.Body, `^heap\.Pop$`)
	okPush := len(pushes) == 1 && len(pushes[0].Args) == 2 && hpNS(pushes[0].Args[0]) == "&"+heapExpr &&
		regexp.MustCompile(`^&[A-Za-z_]\w*$`).MatchString(hpNS(pushes[0].Args[1]))
	okPop := len(pops) == 1 && len(pops[0].Args) == 1 && hpNS(pops[0].Args[0]) == "&"+heapExpr
	// the loop whose condition mentions nextRecvSeq: it compares sb.sh[0].Seq with sb.nextRecvSeq, reads the heap at no
	// other index, and contains the one heap.Pop
	var loop *ast.ForStmt
	ast.Inspect(fn.Body, func(n ast.Node) bool {
		if s, ok := n.(*ast.ForStmt); ok && loop == nil && s.Cond != nil && contains(show(s.Cond), "nextRecvSeq") {
			loop = s
		}
		return true
	})
	if loop == nil {
		unrec(g, "sbPushCall", "no for loop on nextRecvSeq in streamBuffer.Write")
		return
	}
	head, next := heapExpr+"[0].Seq", sb+".nextRecvSeq"
	cmp, idxs, idx0 := false, 0, 0
	ast.Inspect(loop.Cond, func(n ast.Node) bool {
		switch e := n.(type) {
		case *ast.BinaryExpr:
			if e.Op == token.EQL {
				a, b := hpNS(e.X), hpNS(e.Y)
				if (a == head && b == next) || (a == next && b == head) {
					cmp = true
				}
			}
		case *ast.IndexExpr:
			if hpNS(e.X) == heapExpr {
				idxs++
				if l, ok := e.Index.(*ast.BasicLit); ok && l.Kind == token.INT && l.Value == "0" {
					idx0++
				}
			}
		}
		return true
	})
	popInLoop := okPop && len(allCalls(loop.Body, `^heap\.Pop$`)) == 1
	pushBefore := okPush && pushes[0].Pos() < loop.Pos()
	boolFact(g, "sbPushCall", okPush && okPop && cmp && idxs == 1 && idx0 == 1 && popInLoop && pushBefore,
		"streamBuffer.Write: one heap.Push(&sb.sh, &saved) before the loop, one heap.Pop(&sb.sh) in it; loop condition "+show(loop.Cond))
}
