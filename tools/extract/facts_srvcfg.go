package main

// C09 (links to C07/C06) — the server's configuration: internal/server/state.go (parseRedirAddr, parseProxyBook, InitState,
// IsBypass) and the address goWeb dials (internal/server/dispatcher.go). Group "ServerCfg".
//
// parseRedirAddr is not compared with an expected shape: its if-tree and assignments are EXECUTED SYMBOLICALLY up to the
// net.ResolveIPAddr call and emitted as a Lean function `redirSplit` (string primitives are parameters of the generated term,
// an index into the split result is an Option so that a Go index panic is an explicit `none`); Model/ServerConfig.lean USES it.
// A statement or expression outside the small language below ends in unrec(...).

import (
	"fmt"
	"go/ast"
	"go/token"
	"os"
	"regexp"
	"strconv"
	"strings"
)

func init() { register(factsServerCfg) }

// ---- a tiny symbolic executor for straight-line string code with if/else ----

type symx struct {
	n    int
	err  string
	list map[string]bool // Lean variables holding a split result
}

func (s *symx) fresh(p string) string { s.n++; return fmt.Sprintf("%s%d", p, s.n) }
func (s *symx) fail(f string, a ...any) string {
	if s.err == "" {
		s.err = fmt.Sprintf(f, a...)
	}
	return "sorryUnrecognised"
}

func leanChars(v string) string {
	var c []string
	for _, b := range []byte(v) {
		c = append(c, fmt.Sprintf("Char.ofNat %d", b))
	}
	return "[" + strings.Join(c, ", ") + "]"
}

func strLit(e ast.Expr) (string, bool) {
	b, ok := e.(*ast.BasicLit)
	if !ok || b.Kind != token.STRING {
		return "", false
	}
	v, err := strconv.Unquote(b.Value)
	return v, err == nil
}

type symBind struct{ v, opt string }

// str translates a string-valued expression; index expressions become fresh variables bound from an Option (binds).
func (s *symx) str(e ast.Expr, env map[string]string, binds *[]symBind) string {
	switch e := e.(type) {
	case *ast.ParenExpr:
		return s.str(e.X, env, binds)
	case *ast.Ident:
		if v, ok := env[e.Name]; ok && !s.list[v] {
			return v
		}
		return s.fail("unknown string variable %s", e.Name)
	case *ast.BasicLit:
		if v, ok := strLit(e); ok {
			return leanChars(v)
		}
	case *ast.BinaryExpr:
		if e.Op == token.ADD {
			return "(" + s.str(e.X, env, binds) + " ++ " + s.str(e.Y, env, binds) + ")"
		}
	case *ast.CallExpr:
		fn := show(e.Fun)
		switch {
		case (fn == "strings.TrimSuffix" || fn == "strings.TrimPrefix") && len(e.Args) == 2:
			return "(" + map[string]string{"strings.TrimSuffix": "trimSuffix", "strings.TrimPrefix": "trimPrefix"}[fn] + " " +
				s.str(e.Args[0], env, binds) + " " + s.str(e.Args[1], env, binds) + ")"
		}
	case *ast.IndexExpr:
		id, ok := e.X.(*ast.Ident)
		if !ok || !s.list[env[id.Name]] {
			return s.fail("index into something that is not a split result: %s", show(e))
		}
		l := env[id.Name]
		var opt string
		if b, ok := e.Index.(*ast.BasicLit); ok && b.Kind == token.INT {
			opt = fmt.Sprintf("%s[%s]?", l, b.Value)
		} else if show(e.Index) == "len("+id.Name+")-1" || show(e.Index) == "len("+id.Name+") - 1" {
			opt = l + ".getLast?"
		} else {
			return s.fail("unsupported index %s", show(e))
		}
		v := s.fresh("i")
		*binds = append(*binds, symBind{v, opt})
		return v
	}
	return s.fail("unsupported string expression %s", show(e))
}

func oneChar(e ast.Expr) (string, bool) {
	v, ok := strLit(e)
	if !ok || len(v) != 1 {
		return "", false
	}
	return fmt.Sprintf("(Char.ofNat %d)", v[0]), true
}

// cond translates a condition to a Lean Prop (decidable).
func (s *symx) cond(e ast.Expr, env map[string]string) string {
	switch e := e.(type) {
	case *ast.ParenExpr:
		return s.cond(e.X, env)
	case *ast.UnaryExpr:
		if e.Op == token.NOT {
			return "(¬ " + s.cond(e.X, env) + ")"
		}
	case *ast.BinaryExpr:
		switch e.Op {
		case token.LAND:
			return "(" + s.cond(e.X, env) + " ∧ " + s.cond(e.Y, env) + ")"
		case token.LOR:
			return "(" + s.cond(e.X, env) + " ∨ " + s.cond(e.Y, env) + ")"
		case token.LSS, token.LEQ, token.GTR, token.GEQ, token.EQL, token.NEQ:
			op := map[token.Token]string{token.LSS: "<", token.LEQ: "≤", token.GTR: ">", token.GEQ: "≥", token.EQL: "=", token.NEQ: "≠"}[e.Op]
			return "(" + s.nat(e.X, env) + " " + op + " " + s.nat(e.Y, env) + ")"
		}
	case *ast.CallExpr:
		if show(e.Fun) == "strings.Contains" && len(e.Args) == 2 {
			if c, ok := oneChar(e.Args[1]); ok {
				var b []symBind
				t := s.str(e.Args[0], env, &b)
				if len(b) > 0 {
					return s.fail("index inside a condition: %s", show(e))
				}
				return "(contains " + t + " " + c + " = true)"
			}
		}
	}
	return s.fail("unsupported condition %s", show(e))
}

func (s *symx) nat(e ast.Expr, env map[string]string) string {
	switch e := e.(type) {
	case *ast.ParenExpr:
		return s.nat(e.X, env)
	case *ast.BasicLit:
		if e.Kind == token.INT {
			return e.Value
		}
	case *ast.CallExpr:
		if show(e.Fun) == "len" && len(e.Args) == 1 {
			if id, ok := e.Args[0].(*ast.Ident); ok && s.list[env[id.Name]] {
				return "(List.length " + env[id.Name] + ")"
			}
		}
	}
	return s.fail("unsupported integer expression %s", show(e))
}

func cloneEnv(m map[string]string) map[string]string {
	r := map[string]string{}
	for k, v := range m {
		r[k] = v
	}
	return r
}

// exec runs stmts; `stop` recognises the statement at which the execution ends and yields the result term.
func (s *symx) exec(stmts []ast.Stmt, env map[string]string, stop func(ast.Stmt, map[string]string) (string, bool)) string {
	if s.err != "" {
		return "sorryUnrecognised"
	}
	if len(stmts) == 0 {
		return s.fail("fell off the end before the resolver call")
	}
	st, rest := stmts[0], stmts[1:]
	if r, ok := stop(st, env); ok {
		return r
	}
	switch st := st.(type) {
	case *ast.DeclStmt:
		gd, ok := st.Decl.(*ast.GenDecl)
		if ok && gd.Tok == token.VAR {
			for _, sp := range gd.Specs {
				vs := sp.(*ast.ValueSpec)
				if show(vs.Type) != "string" || len(vs.Values) != 0 {
					return s.fail("unsupported declaration %s", show(st))
				}
				for _, n := range vs.Names {
					env[n.Name] = "([] : List Char)"
				}
			}
			return s.exec(rest, env, stop)
		}
	case *ast.AssignStmt:
		if len(st.Lhs) == 1 && len(st.Rhs) == 1 {
			lhs, ok := st.Lhs[0].(*ast.Ident)
			if !ok {
				break
			}
			if c, ok := st.Rhs[0].(*ast.CallExpr); ok && show(c.Fun) == "strings.Split" && len(c.Args) == 2 {
				ch, ok := oneChar(c.Args[1])
				if !ok {
					return s.fail("strings.Split separator is not a one-byte literal: %s", show(c))
				}
				var b []symBind
				arg := s.str(c.Args[0], env, &b)
				if len(b) > 0 {
					return s.fail("index inside Split argument")
				}
				v := s.fresh("l")
				s.list[v] = true
				env[lhs.Name] = v
				return "let " + v + " := split " + arg + " " + ch + "; " + s.exec(rest, env, stop)
			}
			var b []symBind
			t := s.str(st.Rhs[0], env, &b)
			v := s.fresh("v")
			env[lhs.Name] = v
			body := "let " + v + " := " + t + "; " + s.exec(rest, env, stop)
			for i := len(b) - 1; i >= 0; i-- {
				body = "(" + b[i].opt + ").bind fun " + b[i].v + " => " + body
			}
			return body
		}
	case *ast.BlockStmt:
		return s.exec(append(append([]ast.Stmt{}, st.List...), rest...), env, stop)
	case *ast.IfStmt:
		if st.Init != nil {
			break
		}
		c := s.cond(st.Cond, env)
		th := s.exec(append(append([]ast.Stmt{}, st.Body.List...), rest...), cloneEnv(env), stop)
		var el string
		if st.Else == nil {
			el = s.exec(rest, cloneEnv(env), stop)
		} else {
			el = s.exec(append([]ast.Stmt{st.Else}, rest...), cloneEnv(env), stop)
		}
		return "(if " + c + " then (" + th + ") else (" + el + "))"
	}
	return s.fail("unsupported statement %s", strings.SplitN(show(st), "\n", 2)[0])
}

const scfgPrims = "(split : List Char → Char → List (List Char)) (contains : List Char → Char → Bool) (trimSuffix trimPrefix : List Char → List Char → List Char)"

func factsServerCfg() {
	g := "ServerCfg"

	// ---------- parseRedirAddr ----------
	if fn := fnOf(sv, "parseRedirAddr"); fn == nil || fn.Type.Params == nil || len(fn.Type.Params.List) != 1 || len(fn.Type.Params.List[0].Names) != 1 {
		unrec(g, "redirSplit", "parseRedirAddr(redirAddr string) not found")
	} else {
		s := &symx{list: map[string]bool{}}
		env := map[string]string{fn.Type.Params.List[0].Names[0].Name: "s"}
		network := ""
		errReturns := false
		t := s.exec(fn.Body.List, env, func(st ast.Stmt, env map[string]string) (string, bool) {
			a, ok := st.(*ast.AssignStmt)
			if !ok || len(a.Rhs) != 1 || len(a.Lhs) != 2 {
				return "", false
			}
			c, ok := a.Rhs[0].(*ast.CallExpr)
			if !ok || show(c.Fun) != "net.ResolveIPAddr" || len(c.Args) != 2 {
				return "", false
			}
			network, _ = strLit(c.Args[0])
			var b []symBind
			host := s.str(c.Args[1], env, &b)
			if len(b) > 0 {
				return s.fail("index in resolver argument"), true
			}
			// what follows the resolver call: `if err != nil { return nil, "", … }` and `return <resolved>, <port>, nil`
			resVar, errVar := show(a.Lhs[0]), show(a.Lhs[1])
			var port string
			seen := false
			for _, r := range fn.Body.List {
				if r == st {
					seen = true
					continue
				}
				if !seen {
					continue
				}
				switch r := r.(type) {
				case *ast.IfStmt:
					if show(r.Cond) == errVar+" != nil" && len(r.Body.List) > 0 {
						if ret, ok := r.Body.List[len(r.Body.List)-1].(*ast.ReturnStmt); ok && len(ret.Results) == 3 && show(ret.Results[0]) == "nil" && show(ret.Results[2]) != "nil" {
							errReturns = true
							continue
						}
					}
					return s.fail("unexpected statement after the resolver call: %s", show(r.Cond)), true
				case *ast.ReturnStmt:
					if len(r.Results) == 3 && show(r.Results[0]) == resVar && show(r.Results[2]) == "nil" {
						var b []symBind
						port = s.str(r.Results[1], env, &b)
						if len(b) > 0 {
							return s.fail("index in the returned port"), true
						}
						continue
					}
					return s.fail("unexpected return after the resolver call: %s", show(r)), true
				default:
					return s.fail("unexpected statement after the resolver call"), true
				}
			}
			if port == "" {
				return s.fail("final `return <resolved>, <port>, nil` not found"), true
			}
			return "some (" + host + ", " + port + ")", true
		})
		if s.err != "" {
			unrec(g, "redirSplit", s.err)
		} else {
			emitFn(g, "redirSplit", scfgPrims+" (s : List Char)", "Option (List Char × List Char)", t,
				"parseRedirAddr up to net.ResolveIPAddr: (host handed to the resolver, port returned); none = index panic")
			emit(g, "redirResolveNetwork", "String", leanStr(network), "net.ResolveIPAddr(<network>, host)")
			boolFact(g, "redirResolveErrIsError", errReturns, "parseRedirAddr: a resolver error returns (nil, \"\", error)")
		}
	}

	// ---------- parseProxyBook ----------
	if fn := fnOf(sv, "parseProxyBook"); fn == nil {
		unrec(g, "bookCases", "parseProxyBook not found")
	} else {
		var loop *ast.RangeStmt
		ast.Inspect(fn.Body, func(n ast.Node) bool {
			if r, ok := n.(*ast.RangeStmt); ok && loop == nil {
				loop = r
			}
			return loop == nil
		})
		if loop == nil || loop.Key == nil || loop.Value == nil {
			unrec(g, "bookCases", "for name, pair := range … not found")
		} else {
			name, pair := show(loop.Key), show(loop.Value)
			evs := []ev{}
			walkStmts(loop.Body.List, 0, &evs)
			q := regexp.QuoteMeta
			iLow := idx(evs, 0, "assign", `^`+q(name)+` = strings\.ToLower\(`+q(name)+`\)$`)
			if iLow < 0 {
				iLow = idx(evs, 0, "assign", `^\w+ := strings\.ToLower\(`+q(name)+`\)$`)
			}
			key := name
			if iLow >= 0 {
				key = strings.TrimSpace(strings.SplitN(evs[iLow].text, "=", 2)[0])
				key = strings.TrimSuffix(key, " :")
				key = strings.TrimSuffix(key, ":")
				key = strings.TrimSpace(key)
			}
			// every store into the result map is indexed by the lower-cased name
			stores, goodStores := 0, 0
			ast.Inspect(loop.Body, func(n ast.Node) bool {
				if a, ok := n.(*ast.AssignStmt); ok && len(a.Lhs) == 1 {
					if ix, ok := a.Lhs[0].(*ast.IndexExpr); ok {
						stores++
						if iLow >= 0 && show(ix.Index) == key {
							goodStores++
						}
					}
				}
				return true
			})
			boolFact(g, "bookKeyLowered", iLow >= 0 && stores > 0 && stores == goodStores, "parseProxyBook: every proxyBook[k] = … has k = strings.ToLower(name)")
			// pair length test: translated, used by the model
			var lenCond ast.Expr
			var lenIf *ast.IfStmt
			ast.Inspect(loop.Body, func(n ast.Node) bool {
				if s, ok := n.(*ast.IfStmt); ok && lenCond == nil && strings.Contains(show(s.Cond), "len("+pair+")") {
					lenCond, lenIf = s.Cond, s
				}
				return true
			})
			boolExpr(g, "bookPairBad", "(pairLen : Int)", sv, lenCond, map[string]string{"len(" + pair + ")": "pairLen"})
			lenRet := false
			if lenIf != nil && len(lenIf.Body.List) > 0 {
				if r, ok := lenIf.Body.List[len(lenIf.Body.List)-1].(*ast.ReturnStmt); ok && len(r.Results) == 2 && show(r.Results[0]) == "nil" && show(r.Results[1]) != "nil" {
					lenRet = true
				}
			}
			boolFact(g, "bookPairBadIsError", lenRet, "parseProxyBook: a pair of the wrong length returns (nil, error)")
			// the network switch
			var sw *ast.SwitchStmt
			ast.Inspect(loop.Body, func(n ast.Node) bool {
				if s, ok := n.(*ast.SwitchStmt); ok && sw == nil {
					sw = s
				}
				return sw == nil
			})
			if sw == nil || sw.Tag == nil {
				unrec(g, "bookCases", "switch <network> not found in parseProxyBook")
			} else {
				tag := show(sw.Tag)
				tagLowered := tag == "strings.ToLower("+pair+"[0])" || idx(evs, 0, "assign", `^`+q(tag)+` :?= strings\.ToLower\(`+q(pair)+`\[0\]\)$`) >= 0
				boolFact(g, "bookNetworkLowered", tagLowered, "parseProxyBook: the switch is on strings.ToLower(pair[0])")
				var cases []string
				hasDefault := false
				ok := true
				why := ""
				lenPos := token.NoPos
				if lenIf != nil {
					lenPos = lenIf.Pos()
				}
				for _, c := range sw.Body.List {
					cc := c.(*ast.CaseClause)
					if cc.List == nil {
						// a default clause that stores nothing and returns nothing is the same as none
						if len(cc.Body) > 0 {
							hasDefault = true
						}
						continue
					}
					for _, l := range cc.List {
						lit, isLit := strLit(l)
						if !isLit {
							ok, why = false, "case label is not a string literal: "+show(l)
							continue
						}
						// body: addr, err := net.ResolveXAddr("<net>", pair[1]); if err != nil { return nil, err }; proxyBook[key] = addr
						calls := allCalls(&ast.BlockStmt{List: cc.Body}, `^net\.Resolve(TCP|UDP|IP|Unix)Addr$`)
						if len(calls) != 1 || len(calls[0].Args) != 2 {
							ok, why = false, "case "+lit+": expected exactly one net.Resolve*Addr(net, addr)"
							continue
						}
						rnet, _ := strLit(calls[0].Args[0])
						if show(calls[0].Args[1]) != pair+"[1]" {
							ok, why = false, "case "+lit+": resolver argument is not "+pair+"[1]"
							continue
						}
						cevs := []ev{}
						walkStmts(cc.Body, 0, &cevs)
						iRes := idx(cevs, 0, "assign", `:?= net\.Resolve`)
						iIf := idx(cevs, iRes, "if", `^err != nil$`)
						iSt := idx(cevs, iRes, "assign", `^\w+\[`+q(key)+`\] = \w+$`)
						if iRes < 0 || iIf != iRes+1 || cevs[iIf+1].kind != "return" || !regexp.MustCompile(`^return nil, `).MatchString(cevs[iIf+1].text) || iSt < iIf {
							ok, why = false, "case "+lit+": expected resolve; if err != nil { return nil, err }; book[key] = addr"
							continue
						}
						cases = append(cases, fmt.Sprintf("(%s, %s)", leanStr(lit), leanStr(strings.TrimPrefix(show(calls[0].Fun), "net.")+":"+rnet)))
					}
				}
				if !ok {
					unrec(g, "bookCases", why)
				} else {
					emit(g, "bookCases", "List (String × String)", "["+strings.Join(cases, ", ")+"]", "parseProxyBook: switch "+tag+" { case <network>: net.Resolve…(…, "+pair+"[1]) }")
					boolFact(g, "bookHasDefault", hasDefault, "parseProxyBook: the network switch has a default clause with statements")
				}
				// the pair-length test precedes the first use of pair[0]
				boolFact(g, "bookLenTestFirst", lenIf != nil && lenPos < sw.Pos() && (idx(evs, 0, "assign", q(pair)+`\[0\]`) < 0 || evs[idx(evs, 0, "assign", q(pair)+`\[0\]`)].node.Pos() > lenPos),
					"parseProxyBook: len(pair) is tested before pair[0] / pair[1] are read")
			}
			// final return
			fevs := rawEvents(fn)
			last := fevs[len(fevs)-1]
			boolFact(g, "bookReturnsBook", last.kind == "return" && regexp.MustCompile(`^return \w+, nil$`).MatchString(last.text), "parseProxyBook ends in return proxyBook, nil")
		}
	}

	// ---------- InitState ----------
	if fn := fnOf(sv, "InitState"); fn == nil {
		unrec(g, "initOrder", "InitState not found")
	} else {
		pp := "preParse"
		if fn.Type.Params != nil && len(fn.Type.Params.List) > 0 && len(fn.Type.Params.List[0].Names) > 0 {
			pp = fn.Type.Params.List[0].Names[0].Name
		}
		q := regexp.QuoteMeta(pp)
		evs := rawEvents(fn)
		type stage struct{ name, kind, re string }
		stages := []stage{
			{"cnc", "if", `^` + q + `\.CncMode$`},
			{"manager", "if", `len\(` + q + `\.AdminUID\)|` + q + `\.DatabasePath`},
			{"panel", "assign", `^sta\.Panel = MakeUserPanel\(manager\)$`},
			{"keepalive", "if", q + `\.KeepAlive`},
			{"redir", "assign", `^sta\.RedirHost, sta\.RedirPort, err = parseRedirAddr\(` + q + `\.RedirAddr\)$`},
			{"book", "assign", `^sta\.ProxyBook, err = parseProxyBook\(` + q + `\.ProxyBook\)$`},
			{"key", "if", `len\(` + q + `\.PrivateKey\)`},
			{"pv", "call", `^copy\(pv\[:\], ` + q + `\.PrivateKey\)`},
			{"admin", "assign", `^sta\.AdminUID = ` + q + `\.AdminUID$`},
			{"bypass", "for", `range ` + q + `\.BypassUID`},
			{"adminkey", "if", `len\(sta\.AdminUID\)`},
			{"cleaner", "go", `sta\.UsedRandomCleaner\(\)`},
		}
		type pos struct {
			name string
			i    int
		}
		var found []pos
		missing := ""
		for _, st := range stages {
			i := idx(evs, 0, st.kind, st.re)
			if i < 0 {
				missing += " " + st.name
				continue
			}
			found = append(found, pos{st.name, i})
		}
		if missing != "" {
			unrec(g, "initOrder", "InitState: stage(s) not recognised:"+missing)
		} else {
			// sort by position
			for i := range found {
				for j := i + 1; j < len(found); j++ {
					if found[j].i < found[i].i {
						found[i], found[j] = found[j], found[i]
					}
				}
			}
			var names []string
			for _, f := range found {
				names = append(names, leanStr(f.name))
			}
			emit(g, "initOrder", "List String", "["+strings.Join(names, ", ")+"]", "InitState: order of the stages")
		}
		// every `if err != nil` after redir/book/manager returns; the private-key test returns
		errRets := 0
		for i, e := range evs {
			if e.kind == "if" && e.text == "err != nil" {
				// the branch must contain a return before its endif
				for j := i + 1; j < len(evs) && !(evs[j].kind == "endif" && evs[j].depth == e.depth); j++ {
					if evs[j].kind == "return" {
						errRets++
						break
					}
				}
			}
		}
		natFact(g, "initErrReturns", errRets, "InitState: `if err != nil {… return}` branches (manager, RedirAddr, ProxyBook)")
		var cncIf, keyIf *ast.IfStmt
		ast.Inspect(fn.Body, func(n ast.Node) bool {
			if s, ok := n.(*ast.IfStmt); ok {
				if show(s.Cond) == pp+".CncMode" {
					cncIf = s
				}
				if strings.Contains(show(s.Cond), "len("+pp+".PrivateKey)") {
					keyIf = s
				}
			}
			return true
		})
		endsInReturn := func(b *ast.BlockStmt) bool {
			if b == nil || len(b.List) == 0 {
				return false
			}
			_, ok := b.List[len(b.List)-1].(*ast.ReturnStmt)
			return ok
		}
		boolFact(g, "initCncIsError", cncIf != nil && endsInReturn(cncIf.Body), "InitState: CncMode returns an error")
		if keyIf == nil {
			unrec(g, "initKeyMissing", "the private-key test of InitState not found")
		} else {
			boolExpr(g, "initKeyMissing", "(keyLen : Int)", sv, keyIf.Cond, map[string]string{"len(" + pp + ".PrivateKey)": "keyLen"})
			boolFact(g, "initKeyMissingIsError", endsInReturn(keyIf.Body), "InitState: an empty private key returns an error")
		}
		// manager choice
		boolExpr(g, "initVoidManager", "(adminLen : Int) (dbEmpty : Bool)", sv, ifCond(fn, `AdminUID`, `DatabasePath`),
			map[string]string{"len(" + pp + ".AdminUID)": "adminLen", pp + `.DatabasePath == ""`: "dbEmpty", pp + `.DatabasePath != ""`: "(!dbEmpty)"})
		var mgrIf *ast.IfStmt
		ast.Inspect(fn.Body, func(n ast.Node) bool {
			if s, ok := n.(*ast.IfStmt); ok && mgrIf == nil && strings.Contains(show(s.Cond), "AdminUID") && strings.Contains(show(s.Cond), "DatabasePath") {
				mgrIf = s
			}
			return true
		})
		if mgrIf != nil {
			thenVoid := strings.Contains(show(mgrIf.Body), "usermanager.Voidmanager{}") && !strings.Contains(show(mgrIf.Body), "MakeLocalManager")
			elseLocal := mgrIf.Else != nil && strings.Contains(show(mgrIf.Else), "usermanager.MakeLocalManager("+pp+".DatabasePath") && !strings.Contains(show(mgrIf.Else), "Voidmanager")
			boolFact(g, "initVoidThenLocalElse", thenVoid && elseLocal, "InitState: the manager test's then-branch makes the Voidmanager, its else-branch MakeLocalManager(DatabasePath, …)")
		} else {
			unrec(g, "initVoidThenLocalElse", "manager test not found")
		}
		// KeepAlive
		var kaIf *ast.IfStmt
		ast.Inspect(fn.Body, func(n ast.Node) bool {
			if s, ok := n.(*ast.IfStmt); ok && kaIf == nil && strings.Contains(show(s.Cond), pp+".KeepAlive") {
				kaIf = s
			}
			return true
		})
		if kaIf == nil || kaIf.Else == nil {
			unrec(g, "initKeepAliveCond", "if preParse.KeepAlive … else … not found")
		} else {
			vars := map[string]string{pp + ".KeepAlive": "ka"}
			boolExpr(g, "initKeepAliveCond", "(ka : Int)", sv, kaIf.Cond, vars)
			kaOf := func(n ast.Node) ast.Expr {
				var r ast.Expr
				cnt := 0
				ast.Inspect(n, func(m ast.Node) bool {
					if kv, ok := m.(*ast.KeyValueExpr); ok && show(kv.Key) == "KeepAlive" {
						r = kv.Value
						cnt++
					}
					return true
				})
				if cnt != 1 || !strings.Contains(show(n), "sta.ProxyDialer = &net.Dialer{") {
					return nil
				}
				return r
			}
			numExpr(g, "initKeepAliveThen", "(ka : Int)", sv, kaOf(kaIf.Body), vars)
			numExpr(g, "initKeepAliveElse", "(ka : Int)", sv, kaOf(kaIf.Else), vars)
		}
		// key arrays: [N]byte declared in the block of each store, filled by copy(arr[:], <entry>)
		lens := map[string]bool{}
		nArr := 0
		ast.Inspect(fn.Body, func(n ast.Node) bool {
			if d, ok := n.(*ast.DeclStmt); ok {
				if m := regexp.MustCompile(`(^|\s)var arrUID \[(\d+)\]byte$`).FindStringSubmatch(show(d)); m != nil {
					lens[m[2]] = true
					nArr++
				}
			}
			return true
		})
		if is := fnOf(sv, "State.IsBypass"); is != nil {
			ast.Inspect(is.Body, func(n ast.Node) bool {
				if d, ok := n.(*ast.DeclStmt); ok {
					if m := regexp.MustCompile(`^var \w+ \[(\d+)\]byte$`).FindStringSubmatch(show(d)); m != nil {
						lens[m[1]] = true
						nArr++
					}
				}
				return true
			})
			ievs := rawEvents(is)
			iCopy := idx(ievs, 0, "call", `^copy\(\w+\[:\], UID\)`)
			iLook := idx(ievs, 0, "assign", `^_, \w+ :?= sta\.BypassUID\[\w+\]$`)
			iRet := idx(ievs, 0, "return", `^return \w+$`)
			boolFact(g, "isBypassShape", iCopy >= 0 && iLook > iCopy && iRet > iLook, "IsBypass: copy(arr[:], UID); _, exist := sta.BypassUID[arr]; return exist")
		} else {
			unrec(g, "isBypassShape", "State.IsBypass not found")
		}
		if len(lens) == 1 && nArr == 3 {
			for k := range lens {
				n, _ := strconv.Atoi(k)
				natFact(g, "bypassKeyLen", n, "the [N]byte key arrays of InitState (BypassUID loop, AdminUID) and IsBypass")
			}
		} else {
			unrec(g, "bypassKeyLen", fmt.Sprintf("expected three key arrays of one length, found %d arrays / %d lengths", nArr, len(lens)))
		}
		boolExpr(g, "initAdminKeyAdded", "(adminLen : Int)", sv, ifCond(fn, `^len\(sta\.AdminUID\)`), map[string]string{"len(sta.AdminUID)": "adminLen"})
		nCopy := len(allCalls(fn.Body, `^copy$`))
		natFact(g, "initCopies", nCopy, "InitState: copy calls (pv, BypassUID entry, AdminUID)")
		bevs := rawEvents(fn)
		boolFact(g, "initKeyCopiesWhole", idx(bevs, 0, "call", `^copy\(arrUID\[:\], UID\)`) >= 0 && idx(bevs, 0, "call", `^copy\(arrUID\[:\], sta\.AdminUID\)`) >= 0 &&
			idx(bevs, 0, "call", `^copy\(pv\[:\], `+q+`\.PrivateKey\)`) >= 0, "InitState: copy(arrUID[:], UID), copy(arrUID[:], sta.AdminUID), copy(pv[:], PrivateKey)")
	}

	// ---------- goWeb: the address dialled ----------
	if fn := fnOf(sv, "dispatchConnection"); fn == nil {
		unrec(g, "goWebDial", "dispatchConnection not found")
	} else {
		var goWeb *ast.FuncLit
		ast.Inspect(fn.Body, func(n ast.Node) bool {
			a, ok := n.(*ast.AssignStmt)
			if ok && len(a.Lhs) == 1 && show(a.Lhs[0]) == "goWeb" && goWeb == nil {
				goWeb, _ = a.Rhs[0].(*ast.FuncLit)
			}
			return goWeb == nil
		})
		if goWeb == nil {
			unrec(g, "goWebDial", "goWeb := func() {…} not found")
		} else {
			gevs := []ev{}
			walkStmts(goWeb.Body.List, 0, &gevs)
			if os.Getenv("EXTRACT_DUMP_GOWEB") != "" {
				for i, e := range gevs {
					fmt.Fprintf(os.Stderr, "%3d %d %-7s %s\n", i, e.depth, e.kind, e.text)
				}
			}
			dial := allCalls(goWeb.Body, `^sta\.RedirDialer\.Dial$`)
			if len(dial) != 1 || len(dial[0].Args) != 2 {
				unrec(g, "goWebDial", "expected exactly one sta.RedirDialer.Dial(network, address) in goWeb")
			} else {
				nw, _ := strLit(dial[0].Args[0])
				emit(g, "goWebDialNetwork", "String", leanStr(nw), "goWeb: sta.RedirDialer.Dial(<network>, …)")
				m := regexp.MustCompile(`^net\.JoinHostPort\(sta\.RedirHost\.String\(\), (\w+)\)$`).FindStringSubmatch(show(dial[0].Args[1]))
				if m == nil {
					unrec(g, "goWebDial", "Dial address is not net.JoinHostPort(sta.RedirHost.String(), <port var>): "+show(dial[0].Args[1]))
				} else {
					pv := regexp.QuoteMeta(m[1])
					iInit := idx(gevs, 0, "assign", `^`+pv+` := sta\.RedirPort$`)
					iIf := idx(gevs, iInit, "if", `^`+pv+` == ""$`)
					iDef := idx(gevs, iIf, "assign", `^_, `+pv+`, _ = net\.SplitHostPort\(conn\.LocalAddr\(\)\.String\(\)\)$`)
					iDial := idx(gevs, 0, "assign", `sta\.RedirDialer\.Dial\(`)
					// no other assignment to the port variable
					nAssign := count(gevs, "assign", `(^|[ ,])`+pv+`(,| :?=)`)
					boolFact(g, "goWebDial", iInit >= 0 && iIf == iInit+1 && iDef > iIf && gevs[iDef+1].kind == "endif" && gevs[iDef+1].depth == gevs[iIf].depth && iDial > iDef && nAssign == 2,
						"goWeb: port := sta.RedirPort; if port == \"\" { _, port, _ = net.SplitHostPort(conn.LocalAddr().String()) }; Dial(…, net.JoinHostPort(sta.RedirHost.String(), port))")
				}
			}
		}
		// the ProxyBook lookup key (C06/C07): lower-cased ProxyMethod
		n := 0
		ast.Inspect(fn.Body, func(nd ast.Node) bool {
			if ix, ok := nd.(*ast.IndexExpr); ok && show(ix.X) == "sta.ProxyBook" {
				if show(ix.Index) == "strings.ToLower(ci.ProxyMethod)" {
					n++
				} else {
					n = -1000
				}
			}
			return true
		})
		boolFact(g, "dispatchLookupLowered", n >= 1, "dispatchConnection: every sta.ProxyBook[…] lookup uses strings.ToLower(ci.ProxyMethod)")
	}
}
