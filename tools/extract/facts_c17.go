package main

// C17 — interprocedural LOCK-PROGRAM extractor for internal/server (userpanel.go, activeuser.go and the
// dispatcher's admission path) plus the structural facts of the orphan-session repair.
//
// For each listed function every control-flow path (if/else and switch branches, early returns; a loop body
// contributes zero or one time, an unconditional `for {}` exactly once) is turned into the sequence of
// acquire/release events over the bookkeeping mutexes. `defer X.Unlock()` releases when the function returns,
// calls to other listed functions are inlined (recursion guarded). The result is emitted as data; whether it is
// well-bracketed and rank-ordered is DECIDED in Lean on whatever was extracted (Props/C17.lean).

import (
	"fmt"
	"os"
	"go/ast"
	"go/token"
	"sort"
	"strings"
)

func init() { register(factsC17) }

type lockEv struct {
	acq bool
	cls int
}

type lockPath struct {
	evs      []lockEv
	deferred []lockEv // releases registered by defer in the current frame, in registration order
	state    int      // 0 running, 1 returned, 2 break, 3 continue
}

func (p lockPath) key() string {
	var b strings.Builder
	for _, e := range p.evs {
		fmt.Fprintf(&b, "%v%d,", e.acq, e.cls)
	}
	b.WriteString("|")
	for _, e := range p.deferred {
		fmt.Fprintf(&b, "%v%d,", e.acq, e.cls)
	}
	fmt.Fprintf(&b, "|%d", p.state)
	return b.String()
}

func (p lockPath) with(e lockEv) lockPath {
	q := p
	q.evs = append(append([]lockEv(nil), p.evs...), e)
	return q
}

type lockWalker struct {
	dir     string
	classes map[string]int // mutex field name -> class id
	listed  map[string]string
	stack   map[string]bool
	cache   map[string][][]lockEv
	bad     []string
	cur     []string // keys of the functions being walked, innermost last
	auto    bool     // inline calls the tables do not name (autoResolve); off for walkers that look at one function body only
	// markerOf, when set, turns selected AST nodes into pseudo events (acq=true, cls>=100) so that a fact can say
	// "this access happens inside that critical section"
	markerOf func(ast.Node) (int, bool)
	// resolve, when set, replaces calleeKey: it maps a call to the listed functions it may reach (several when the
	// receiver is an interface), by the printed callee expression
	resolve func(*ast.CallExpr) ([]string, bool)
	// lockName, when set, replaces the default "X.<field>.Lock()" recognition of the mutex operand
	lockName func(ast.Expr) (string, bool)
}

func dedupe(ps []lockPath) []lockPath {
	seen := map[string]bool{}
	var out []lockPath
	for _, p := range ps {
		k := p.key()
		if !seen[k] {
			seen[k] = true
			out = append(out, p)
		}
	}
	if len(out) > 4000 {
		out = out[:4000]
	}
	return out
}

// lockOp recognises X.<mutexfield>.Lock/RLock/Unlock/RUnlock()
func (w *lockWalker) lockOp(c *ast.CallExpr) (lockEv, bool) {
	sel, ok := c.Fun.(*ast.SelectorExpr)
	if !ok {
		return lockEv{}, false
	}
	var acq bool
	switch sel.Sel.Name {
	case "Lock", "RLock":
		acq = true
	case "Unlock", "RUnlock":
		acq = false
	default:
		return lockEv{}, false
	}
	if w.lockName != nil {
		if nm, ok := w.lockName(sel.X); ok {
			if cls, ok := w.classes[nm]; ok {
				return lockEv{acq, cls}, true
			}
		}
		return lockEv{}, false
	}
	inner, ok := sel.X.(*ast.SelectorExpr)
	if !ok {
		return lockEv{}, false
	}
	cls, ok := w.classes[inner.Sel.Name]
	if !ok {
		return lockEv{}, false
	}
	return lockEv{acq, cls}, true
}

// autoResolve covers calls the hand-written tables do not name, so that a helper split off an operation (or a
// new helper that takes a lock) is walked like the code it came from instead of being passed over as lock-free:
// a method called on the walked function's own receiver, a package-level function, and — over-approximating — every
// unexported method of that name in the package when the receiver is some other expression.
func (w *lockWalker) autoResolve(c *ast.CallExpr) ([]string, bool) {
	p := pkgs[w.dir]
	if p == nil || !w.auto {
		return nil, false
	}
	switch f := c.Fun.(type) {
	case *ast.Ident:
		if fn := p.funcs[f.Name]; fn != nil && fn.Body != nil {
			return []string{f.Name}, true
		}
	case *ast.SelectorExpr:
		if len(w.cur) > 0 {
			ck := w.cur[len(w.cur)-1]
			if i := strings.Index(ck, "."); i > 0 {
				if cf := p.funcs[ck]; cf != nil && cf.Recv != nil && len(cf.Recv.List) == 1 && len(cf.Recv.List[0].Names) == 1 {
					if x, ok := f.X.(*ast.Ident); ok && x.Name == cf.Recv.List[0].Names[0].Name {
						if fn := p.funcs[ck[:i]+"."+f.Sel.Name]; fn != nil && fn.Body != nil {
							return []string{ck[:i] + "." + f.Sel.Name}, true
						}
						return nil, false
					}
				}
			}
		}
		if !ast.IsExported(f.Sel.Name) {
			var keys []string
			for k, fn := range p.funcs {
				if strings.HasSuffix(k, "."+f.Sel.Name) && fn.Body != nil {
					keys = append(keys, k)
				}
			}
			sort.Strings(keys)
			return keys, len(keys) > 0
		}
	}
	return nil, false
}

func (w *lockWalker) calleeKey(c *ast.CallExpr) (string, bool) {
	switch f := c.Fun.(type) {
	case *ast.SelectorExpr:
		k, ok := w.listed[f.Sel.Name]
		return k, ok
	case *ast.Ident:
		k, ok := w.listed[f.Name]
		return k, ok
	}
	return "", false
}

// exprCalls applies, in source order, every call found in the expression (function literals are not entered)
func (w *lockWalker) expr(n ast.Node, in []lockPath) []lockPath {
	if n == nil {
		return in
	}
	type item struct {
		end  token.Pos
		call *ast.CallExpr
		mark int
	}
	var items []item
	ast.Inspect(n, func(m ast.Node) bool {
		if m == nil {
			return true
		}
		if _, ok := m.(*ast.FuncLit); ok {
			return false
		}
		if w.markerOf != nil {
			if k, ok := w.markerOf(m); ok {
				items = append(items, item{end: m.End(), mark: k})
			}
		}
		if c, ok := m.(*ast.CallExpr); ok {
			items = append(items, item{end: c.End(), call: c})
		}
		return true
	})
	// ast.Inspect is pre-order: an outer call is listed before the calls in its arguments, but is executed after them
	sort.SliceStable(items, func(i, j int) bool { return items[i].end < items[j].end })
	out := in
	for _, it := range items {
		if it.call != nil {
			out = w.call(it.call, out)
			continue
		}
		var o2 []lockPath
		for _, p := range out {
			if p.state == 0 {
				p = p.with(lockEv{true, it.mark})
			}
			o2 = append(o2, p)
		}
		out = o2
	}
	return out
}

func (w *lockWalker) call(c *ast.CallExpr, in []lockPath) []lockPath {
	if e, ok := w.lockOp(c); ok {
		var out []lockPath
		for _, p := range in {
			if p.state != 0 {
				out = append(out, p)
				continue
			}
			out = append(out, p.with(e))
		}
		return out
	}
	if w.resolve != nil {
		keys, ok := w.resolve(c)
		if !ok {
			keys, ok = w.autoResolve(c)
		}
		if !ok {
			return in
		}
		var progs [][]lockEv
		for _, k := range keys {
			progs = append(progs, w.fnPrograms(k)...)
		}
		var out []lockPath
		for _, p := range in {
			if p.state != 0 {
				out = append(out, p)
				continue
			}
			for _, pr := range progs {
				q := p
				q.evs = append(append([]lockEv(nil), p.evs...), pr...)
				out = append(out, q)
			}
		}
		return dedupe(out)
	}
	if k, ok := w.calleeKey(c); ok {
		progs := w.fnPrograms(k)
		var out []lockPath
		for _, p := range in {
			if p.state != 0 {
				out = append(out, p)
				continue
			}
			for _, pr := range progs {
				q := p
				q.evs = append(append([]lockEv(nil), p.evs...), pr...)
				out = append(out, q)
			}
		}
		return dedupe(out)
	}
	if keys, ok := w.autoResolve(c); ok {
		var progs [][]lockEv
		for _, k := range keys {
			progs = append(progs, w.fnPrograms(k)...)
		}
		var out []lockPath
		for _, p := range in {
			if p.state != 0 {
				out = append(out, p)
				continue
			}
			for _, pr := range progs {
				q := p
				q.evs = append(append([]lockEv(nil), p.evs...), pr...)
				out = append(out, q)
			}
		}
		return dedupe(out)
	}
	return in
}

func (w *lockWalker) stmts(list []ast.Stmt, in []lockPath) []lockPath {
	out := in
	for _, s := range list {
		out = w.stmt(s, out)
	}
	return out
}

func split(in []lockPath) (run, done []lockPath) {
	for _, p := range in {
		if p.state == 0 {
			run = append(run, p)
		} else {
			done = append(done, p)
		}
	}
	return
}

func (w *lockWalker) stmt(s ast.Stmt, in []lockPath) []lockPath {
	run, done := split(in)
	if len(run) == 0 {
		return in
	}
	var res []lockPath
	switch s := s.(type) {
	case nil:
		res = run
	case *ast.ExprStmt:
		res = w.expr(s.X, run)
	case *ast.DeferStmt:
		if e, ok := w.lockOp(s.Call); ok {
			for _, p := range run {
				q := p
				q.deferred = append(append([]lockEv(nil), p.deferred...), e)
				res = append(res, q)
			}
		} else if _, ok := w.calleeKey(s.Call); ok {
			w.bad = append(w.bad, "deferred call of a listed function: "+show(s.Call))
			res = run
		} else if fl, ok := s.Call.Fun.(*ast.FuncLit); ok && w.touches(fl) {
			w.bad = append(w.bad, "deferred function literal touching bookkeeping locks")
			res = run
		} else {
			res = run
		}
	case *ast.GoStmt:
		res = run // a new goroutine: its body is a separate program (see uploadRound)
	case *ast.ReturnStmt:
		r := run
		for _, x := range s.Results {
			r = w.expr(x, r)
		}
		for _, p := range r {
			if p.state == 0 {
				p.state = 1
			}
			res = append(res, p)
		}
	case *ast.AssignStmt:
		r := run
		for _, x := range s.Rhs {
			r = w.expr(x, r)
		}
		for _, x := range s.Lhs {
			r = w.expr(x, r)
		}
		res = r
	case *ast.IncDecStmt:
		res = w.expr(s.X, run)
	case *ast.SendStmt:
		res = w.expr(s.Value, w.expr(s.Chan, run))
	case *ast.DeclStmt:
		res = w.expr(s, run)
	case *ast.BlockStmt:
		res = w.stmts(s.List, run)
	case *ast.LabeledStmt:
		res = w.stmt(s.Stmt, run)
	case *ast.IfStmt:
		r := w.stmt(s.Init, run)
		r = w.expr(s.Cond, r)
		a := w.stmts(s.Body.List, r)
		var b []lockPath
		if s.Else != nil {
			b = w.stmt(s.Else, r)
		} else {
			b = r
		}
		res = append(a, b...)
	case *ast.ForStmt:
		r := w.stmt(s.Init, run)
		if s.Cond != nil {
			r = w.expr(s.Cond, r)
		}
		body := w.stmts(s.Body.List, r)
		body = w.stmt(s.Post, body)
		body = loopExit(body)
		if s.Cond != nil {
			res = append(body, r...) // zero iterations
		} else {
			res = body
		}
	case *ast.RangeStmt:
		r := w.expr(s.X, run)
		body := loopExit(w.stmts(s.Body.List, r))
		res = append(body, r...)
	case *ast.SwitchStmt:
		r := w.stmt(s.Init, run)
		if s.Tag != nil {
			r = w.expr(s.Tag, r)
		}
		res = w.clauses(s.Body, r)
	case *ast.TypeSwitchStmt:
		r := w.stmt(s.Init, run)
		r = w.stmt(s.Assign, r)
		res = w.clauses(s.Body, r)
	case *ast.SelectStmt:
		res = w.clauses(s.Body, run)
	case *ast.BranchStmt:
		for _, p := range run {
			switch s.Tok {
			case token.BREAK:
				p.state = 2
			case token.CONTINUE:
				p.state = 3
			case token.GOTO:
				p.state = 1 // a backward jump restarts the sequence: the part so far is one complete program
			}
			res = append(res, p)
		}
	default:
		res = run
	}
	return dedupe(append(res, done...))
}

func loopExit(ps []lockPath) []lockPath {
	var out []lockPath
	for _, p := range ps {
		if p.state == 2 || p.state == 3 {
			p.state = 0
		}
		out = append(out, p)
	}
	return out
}

func (w *lockWalker) clauses(body *ast.BlockStmt, in []lockPath) []lockPath {
	var out []lockPath
	hasDefault := false
	for _, c := range body.List {
		switch cc := c.(type) {
		case *ast.CaseClause:
			r := in
			if cc.List == nil {
				hasDefault = true
			}
			for _, e := range cc.List {
				r = w.expr(e, r)
			}
			b := w.stmts(cc.Body, r)
			for _, p := range b {
				if p.state == 2 { // break leaves the switch
					p.state = 0
				}
				out = append(out, p)
			}
		case *ast.CommClause:
			r := in
			if cc.Comm == nil {
				hasDefault = true
			} else {
				r = w.stmt(cc.Comm, r)
			}
			b := w.stmts(cc.Body, r)
			for _, p := range b {
				if p.state == 2 {
					p.state = 0
				}
				out = append(out, p)
			}
		}
	}
	if !hasDefault {
		out = append(out, in...)
	}
	return out
}

func (w *lockWalker) touches(n ast.Node) bool {
	found := false
	ast.Inspect(n, func(m ast.Node) bool {
		if c, ok := m.(*ast.CallExpr); ok {
			if _, ok := w.lockOp(c); ok {
				found = true
			}
			if _, ok := w.calleeKey(c); ok {
				found = true
			}
		}
		return true
	})
	return found
}

// bodyPrograms: every path through the statement list as a flat event sequence (deferred releases appended LIFO)
func (w *lockWalker) bodyPrograms(list []ast.Stmt) [][]lockEv {
	ps := w.stmts(list, []lockPath{{}})
	seen := map[string]bool{}
	var out [][]lockEv
	for _, p := range ps {
		evs := append([]lockEv(nil), p.evs...)
		for i := len(p.deferred) - 1; i >= 0; i-- {
			evs = append(evs, p.deferred[i])
		}
		k := lockPath{evs: evs}.key()
		if !seen[k] {
			seen[k] = true
			out = append(out, evs)
		}
	}
	sort.Slice(out, func(i, j int) bool { return lockPath{evs: out[i]}.key() < lockPath{evs: out[j]}.key() })
	return out
}

func (w *lockWalker) fnPrograms(key string) [][]lockEv {
	if r, ok := w.cache[key]; ok {
		return r
	}
	if w.stack[key] {
		w.bad = append(w.bad, "recursive call chain through "+key)
		return [][]lockEv{{}}
	}
	fn := fnOf(w.dir, key)
	if fn == nil || fn.Body == nil {
		w.bad = append(w.bad, "function "+key+" not found")
		return [][]lockEv{{}}
	}
	w.stack[key] = true
	w.cur = append(w.cur, key)
	out := w.bodyPrograms(fn.Body.List)
	w.cur = w.cur[:len(w.cur)-1]
	delete(w.stack, key)
	w.cache[key] = out
	return out
}

func leanProg(p []lockEv) string {
	var xs []string
	for _, e := range p {
		xs = append(xs, fmt.Sprintf("(%v, %d)", e.acq, e.cls))
	}
	return "[" + strings.Join(xs, ", ") + "]"
}

// mutexFields lists the sync.Mutex / sync.RWMutex fields of a struct type of the package
func mutexFields(dir, typ string) []string {
	var out []string
	p := pkgs[dir]
	if p == nil {
		return nil
	}
	for _, f := range p.files {
		for _, d := range f.Decls {
			gd, ok := d.(*ast.GenDecl)
			if !ok || gd.Tok != token.TYPE {
				continue
			}
			for _, s := range gd.Specs {
				ts := s.(*ast.TypeSpec)
				st, ok := ts.Type.(*ast.StructType)
				if !ok || ts.Name.Name != typ {
					continue
				}
				for _, fl := range st.Fields.List {
					t := show(fl.Type)
					if t == "sync.Mutex" || t == "sync.RWMutex" || t == "*sync.Mutex" || t == "*sync.RWMutex" {
						for _, n := range fl.Names {
							out = append(out, n.Name)
						}
					}
				}
			}
		}
	}
	return out
}

func structHasBoolField(dir, typ, field string) bool {
	p := pkgs[dir]
	if p == nil {
		return false
	}
	for _, f := range p.files {
		for _, d := range f.Decls {
			gd, ok := d.(*ast.GenDecl)
			if !ok || gd.Tok != token.TYPE {
				continue
			}
			for _, s := range gd.Specs {
				ts := s.(*ast.TypeSpec)
				st, ok := ts.Type.(*ast.StructType)
				if !ok || ts.Name.Name != typ {
					continue
				}
				for _, fl := range st.Fields.List {
					if show(fl.Type) == "bool" {
						for _, n := range fl.Names {
							if n.Name == field {
								return true
							}
						}
					}
				}
			}
		}
	}
	return false
}

func factsC17() {
	g := "Panel"
	// --- lock classes: Q = 0, A = 1, S = 2 are the names the Expect rank speaks about; anything else gets 3, 4, ...
	classes := map[string]int{}
	fixed := map[string]int{"usageUpdateQueueM": 0, "activeUsersM": 1, "sessionsM": 2}
	var names []string
	names = append(names, mutexFields(sv, "userPanel")...)
	names = append(names, mutexFields(sv, "ActiveUser")...)
	sort.Strings(names)
	next := 3
	for _, n := range names {
		if c, ok := fixed[n]; ok {
			classes[n] = c
		} else {
			classes[n] = next
			next++
		}
	}
	var cl []string
	for _, n := range names {
		cl = append(cl, fmt.Sprintf("(%s, %d)", leanStr(n), classes[n]))
	}
	emit(g, "lockClasses", "List (String × Nat)", "["+strings.Join(cl, ", ")+"]",
		"sync.Mutex / sync.RWMutex fields of userPanel and ActiveUser")

	listed := map[string]string{
		"GetUser": "userPanel.GetUser", "GetBypassUser": "userPanel.GetBypassUser",
		"TerminateActiveUser": "userPanel.TerminateActiveUser", "isActive": "userPanel.isActive",
		"updateUsageQueue": "userPanel.updateUsageQueue", "updateUsageQueueForOne": "userPanel.updateUsageQueueForOne",
		"commitUpdate": "userPanel.commitUpdate", "CloseSession": "ActiveUser.CloseSession",
		"GetSession": "ActiveUser.GetSession", "closeAllSessions": "ActiveUser.closeAllSessions",
		"NumSession": "ActiveUser.NumSession", "serveSession": "serveSession",
	}
	w := &lockWalker{dir: sv, classes: classes, listed: listed, stack: map[string]bool{}, cache: map[string][][]lockEv{}, auto: true}
	order := []string{"userPanel.GetUser", "userPanel.GetBypassUser", "userPanel.TerminateActiveUser", "userPanel.isActive",
		"userPanel.updateUsageQueue", "userPanel.updateUsageQueueForOne", "userPanel.commitUpdate",
		"ActiveUser.CloseSession", "ActiveUser.GetSession", "ActiveUser.closeAllSessions", "ActiveUser.NumSession",
		"serveSession", "dispatchConnection"}
	// any OTHER function of the package that operates one of the bookkeeping mutexes itself (a helper added later, such
	// as the refused connection's clean-up of C15) is listed too: otherwise a call to it would count as lock-free
	var extra []string
	if p := pkgs[sv]; p != nil {
		known := map[string]bool{"dispatchConnection": true}
		for _, k := range listed {
			known[k] = true
		}
		for key, fn := range p.funcs {
			if known[key] || fn.Body == nil {
				continue
			}
			direct := false
			ast.Inspect(fn.Body, func(n ast.Node) bool {
				if _, ok := n.(*ast.FuncLit); ok {
					return false
				}
				if c, ok := n.(*ast.CallExpr); ok {
					if _, ok := w.lockOp(c); ok {
						direct = true
					}
				}
				return true
			})
			if direct {
				extra = append(extra, key)
			}
		}
		sort.Strings(extra)
		for _, key := range extra {
			nm := key
			if i := strings.Index(key, "."); i >= 0 {
				nm = key[i+1:]
			}
			if prev, clash := listed[nm]; clash {
				w.bad = append(w.bad, "two lock-taking functions named "+nm+": "+prev+", "+key)
				continue
			}
			listed[nm] = key
		}
		// order: the helpers first in the dump, then the operations that may call them (the walker inlines by name)
		order = append(append([]string{}, order[:len(order)-2]...), append(extra, order[len(order)-2:]...)...)
	}
	var entries []string
	total := 0
	for _, k := range order {
		progs := w.fnPrograms(k)
		var ps []string
		for _, p := range progs {
			ps = append(ps, leanProg(p))
			total++
		}
		nm := k
		if i := strings.Index(k, "."); i >= 0 {
			nm = k[i+1:]
		}
		entries = append(entries, fmt.Sprintf("  (%s, [%s])", leanStr(nm), strings.Join(ps, ",\n      ")))
	}
	// the body of the goroutine started by regularQueueUpload every interval: one upload round
	if fn := fnOf(sv, "userPanel.regularQueueUpload"); fn != nil {
		var lit *ast.FuncLit
		ast.Inspect(fn.Body, func(n ast.Node) bool {
			if gs, ok := n.(*ast.GoStmt); ok && lit == nil {
				if fl, ok := gs.Call.Fun.(*ast.FuncLit); ok {
					lit = fl
				}
			}
			return true
		})
		if lit != nil {
			var ps []string
			for _, p := range w.bodyPrograms(lit.Body.List) {
				ps = append(ps, leanProg(p))
				total++
			}
			entries = append(entries, fmt.Sprintf("  (%s, [%s])", leanStr("uploadRound"), strings.Join(ps, ",\n      ")))
		} else {
			w.bad = append(w.bad, "regularQueueUpload: no `go func(){…}()` found")
		}
	} else {
		w.bad = append(w.bad, "regularQueueUpload not found")
	}
	if len(w.bad) > 0 {
		unrec(g, "lockPrograms", strings.Join(w.bad, "; "))
	} else {
		emit(g, "lockPrograms", "List (String × List (List (Bool × Nat)))", "[\n"+strings.Join(entries, ",\n")+"]",
			"interprocedural lock programs, (true, c) = acquire class c, (false, c) = release; every control-flow path, loops once")
		natFact(g, "lockProgramCount", total, "number of distinct paths")
	}

	// --- where the VerifPoint of updateUsageQueue sits: number of lock acquisitions before it (the replay parks there)
	if fn := fnOf(sv, "userPanel.updateUsageQueue"); fn != nil {
		evs := events(fn)
		iv := idx(evs, 0, "call", `VerifPoint\("userPanel\.updateUsageQueue:betweenLocks"\)`)
		n := 0
		for i := 0; i < iv; i++ {
			if evs[i].kind == "call" {
				if c, ok := evs[i].node.(*ast.CallExpr); ok {
					if e, ok := w.lockOp(c); ok && e.acq {
						n++
					}
				}
			}
		}
		if iv < 0 {
			unrec(g, "uuqAcqBeforeHook", "VerifPoint userPanel.updateUsageQueue:betweenLocks not found")
		} else {
			natFact(g, "uuqAcqBeforeHook", n, "lock acquisitions of updateUsageQueue that precede its VerifPoint")
		}
	}

	// --- admission is two separately locked steps: GetUser/GetBypassUser ... VerifPoint ... GetSession, no bookkeeping lock held across
	if fn := fnOf(sv, "dispatchConnection"); fn != nil {
		evs := events(fn)
		iu := idx(evs, 0, "call", `Panel\.GetUser\(`)
		ib := idx(evs, 0, "call", `Panel\.GetBypassUser\(`)
		iv := idx(evs, 0, "call", `VerifPoint\("dispatchConnection:beforeGetSession"\)`)
		is := idx(evs, 0, "call", `\.GetSession\(`)
		boolFact(g, "admissionTwoSteps", iu >= 0 && ib >= 0 && iv > iu && iv > ib && is > iv,
			"dispatchConnection: GetUser/GetBypassUser, then the schedule point, then GetSession")
	} else {
		unrec(g, "admissionTwoSteps", "dispatchConnection not found")
	}

	// --- orphan-session repair facts -------------------------------------------------------------
	// (1) ActiveUser has a bool field that GetSession tests right after taking sessionsM (before the table lookup) and
	//     returns an error when set; (2) closeAllSessions sets that field to true between Lock and Unlock of sessionsM;
	//     (3) TerminateActiveUser deletes the map entry only if it still is this record; (4) closeAllSessions is called
	//     before the delete section; (5) the dispatcher goes back to the user lookup on that error.
	field := ""
	gs := fnOf(sv, "ActiveUser.GetSession")
	checks := false
	if gs != nil && gs.Body != nil {
		locked := false
		for _, st := range gs.Body.List {
			if es, ok := st.(*ast.ExprStmt); ok {
				if strings.HasSuffix(show(es.X), ".sessionsM.Lock()") {
					locked = true
				}
				continue
			}
			if _, ok := st.(*ast.DeferStmt); ok {
				continue
			}
			if is, ok := st.(*ast.IfStmt); ok && locked && is.Init == nil {
				if sel, ok := is.Cond.(*ast.SelectorExpr); ok && structHasBoolField(sv, "ActiveUser", sel.Sel.Name) && sel.Sel.Name != "bypass" {
					// body must return a non-nil error
					if len(is.Body.List) == 1 {
						if rs, ok := is.Body.List[0].(*ast.ReturnStmt); ok && len(rs.Results) == 3 && show(rs.Results[0]) == "nil" && show(rs.Results[2]) != "nil" {
							field = sel.Sel.Name
							checks = true
						}
					}
				}
			}
			break // only statements before the first other statement count
		}
	}
	boolFact(g, "getSessionChecksRetired", checks, "GetSession: `if u.<flag> { return nil, false, err }` first thing under sessionsM")
	// the flag is set under sessionsM either by closeAllSessions itself, or by TerminateActiveUser in its own
	// sessionsM section BEFORE it calls closeAllSessions (retire first, then close what is there)
	marks := false
	if ca := fnOf(sv, "ActiveUser.closeAllSessions"); ca != nil && field != "" {
		evs := events(ca)
		il := idx(evs, 0, "call", `sessionsM\.Lock\(\)`)
		iu := idx(evs, 0, "", `sessionsM\.Unlock\(\)`)
		ia := idx(evs, 0, "assign", `^u\.`+field+` = true$`)
		deferred := iu >= 0 && evs[iu].kind == "defer"
		marks = il >= 0 && ia > il && (deferred || ia < iu) && evs[ia].depth == 0
	}
	if ta := fnOf(sv, "userPanel.TerminateActiveUser"); ta != nil && field != "" && !marks {
		evs := events(ta)
		il := idx(evs, 0, "call", `^user\.sessionsM\.Lock\(\)`)
		ia := idx(evs, il+1, "assign", `^user\.`+field+` = true$`)
		iu := idx(evs, ia+1, "call", `^user\.sessionsM\.Unlock\(\)`)
		ic := idx(evs, 0, "call", `\.closeAllSessions\(`)
		marks = il >= 0 && ia == il+1 && iu == ia+1 && ic > iu && evs[ia].depth == 0 && evs[ic].depth == 0
	}
	// CloseSession: does the locked part, where "no session left" is decided, retire the record in the same section?
	closeRetires := false
	if cs := fnOf(sv, "ActiveUser.CloseSession"); cs != nil && field != "" {
		evs := events(cs)
		il := idx(evs, 0, "call", `^u\.sessionsM\.Lock\(\)`)
		ir := idx(evs, 0, "assign", `^remaining := len\(u\.sessions\)$`)
		ia := idx(evs, ir+1, "assign", `^u\.`+field+` = u\.`+field+` \|\| remaining == 0$`)
		iu := idx(evs, 0, "call", `^u\.sessionsM\.Unlock\(\)`)
		closeRetires = il >= 0 && ir > il && ia > ir && iu > ia && evs[ia].depth == 0
		if !closeRetires && il >= 0 && ir > il {
			// the same written as a conditional: `if remaining == 0 { u.<flag> = true }` (nothing else in the branch)
			if is := g14if(cs, `^remaining == 0$`); is != nil && is.Else == nil && len(is.Body.List) == 1 && show(is.Body.List[0]) == "u."+field+" = true" {
				iIf := g19ifIdx(evs, `^remaining == 0$`)
				closeRetires = iIf > ir && iIf < iu
			}
		}
	}
	boolFact(g, "closeSessionRetiresWhenEmpty", closeRetires, "CloseSession sets the retired flag, in the section that counts the remaining sessions, when none remains")
	boolFact(g, "terminateRetiresFirst", marks, "TerminateActiveUser sets the flag under sessionsM before (or closeAllSessions sets it while) the sessions are closed")
	guarded, closeFirst := false, false
	if ta := fnOf(sv, "userPanel.TerminateActiveUser"); ta != nil {
		evs := events(ta)
		ic := idx(evs, 0, "call", `\.closeAllSessions\(`)
		il := idx(evs, 0, "call", `activeUsersM\.Lock\(\)`)
		id := idx(evs, 0, "call", `^delete\(panel\.activeUsers, user\.arrUID\)`)
		closeFirst = ic >= 0 && il > ic && id > il
		if id >= 0 {
			// the delete is inside an if whose condition compares the current map entry with this record
			for i := id - 1; i > il && i >= 0; i-- {
				if evs[i].kind == "if" && evs[i].depth == evs[id].depth-1 {
					t := strings.ReplaceAll(evs[i].text, " ", "")
					guarded = t == "panel.activeUsers[user.arrUID]==user" || t == "user==panel.activeUsers[user.arrUID]"
					break
				}
			}
			// exactly one delete
			if count(evs, "call", `^delete\(panel\.activeUsers`) != 1 {
				guarded = false
			}
		}
	}
	boolFact(g, "terminateClosesBeforeDelete", closeFirst, "TerminateActiveUser: closeAllSessions precedes the activeUsersM section that deletes the entry")
	boolFact(g, "terminateDeleteGuarded", guarded, "TerminateActiveUser deletes activeUsers[uid] only if it still is this record")
	retries := false
	if dc := fnOf(sv, "dispatchConnection"); dc != nil && field != "" {
		// after GetSession: an if comparing err with a sentinel whose body jumps back (goto label placed before the lookup, or continue of an enclosing loop)
		ast.Inspect(dc.Body, func(n ast.Node) bool {
			is, ok := n.(*ast.IfStmt)
			if !ok {
				return true
			}
			t := show(is.Cond)
			if strings.Contains(t, "err ==") || strings.Contains(t, "errors.Is(err") {
				for _, b := range is.Body.List {
					if br, ok := b.(*ast.BranchStmt); ok && (br.Tok == token.GOTO || br.Tok == token.CONTINUE) {
						retries = true
					}
				}
			}
			return true
		})
	}
	boolFact(g, "dispatcherRetriesRetired", retries, "dispatchConnection repeats the user lookup when GetSession reports a retired record (informational)")
	// what the retry waits for. Either nothing (it spins until the terminator has removed the record), or a receive from
	// a channel field of the record: then every composite literal that makes an ActiveUser must make that channel, and
	// TerminateActiveUser must close it on every way out, after the entry was deleted - otherwise admission blocks for ever
	waitField := ""
	waitsOther := false
	if dc := fnOf(sv, "dispatchConnection"); dc != nil {
		ast.Inspect(dc.Body, func(n ast.Node) bool {
			is, ok := n.(*ast.IfStmt)
			if !ok {
				return true
			}
			t := show(is.Cond)
			if !(strings.Contains(t, "err ==") || strings.Contains(t, "errors.Is(err")) {
				return true
			}
			jumps := false
			for _, b := range is.Body.List {
				if br, ok := b.(*ast.BranchStmt); ok && (br.Tok == token.GOTO || br.Tok == token.CONTINUE) {
					jumps = true
				}
			}
			if !jumps {
				return true
			}
			for _, b := range is.Body.List {
				switch x := b.(type) {
				case *ast.BranchStmt:
				case *ast.ExprStmt:
					if u, ok := x.X.(*ast.UnaryExpr); ok && u.Op == token.ARROW && strings.HasPrefix(show(u.X), "user.") {
						waitField = strings.TrimPrefix(show(u.X), "user.")
					} else {
						waitsOther = true
					}
				default:
					waitsOther = true
				}
			}
			return true
		})
	}
	waitOK := !waitsOther
	src := "dispatchConnection's retry after a retired record waits for nothing before it looks the user up again"
	if waitField != "" && waitOK {
		src = "dispatchConnection's retry receives from user." + waitField + "; every &ActiveUser{...} literal sets " + waitField + ": make(chan struct{}); TerminateActiveUser closes it (through a sync.Once) as its last statement, unconditionally, after the delete"
		made := 0
		lits := 0
		for _, f := range pkgs[sv].funcs {
			ast.Inspect(f.Body, func(n ast.Node) bool {
				cl, ok := n.(*ast.CompositeLit)
				if !ok || show(cl.Type) != "ActiveUser" {
					return true
				}
				lits++
				for _, e := range cl.Elts {
					if kv, ok := e.(*ast.KeyValueExpr); ok && show(kv.Key) == waitField && show(kv.Value) == "make(chan struct{})" {
						made++
					}
				}
				return true
			})
		}
		closes := false
		if tf := fnOf(sv, "userPanel.TerminateActiveUser"); tf != nil && len(tf.Body.List) > 0 {
			last := show(tf.Body.List[len(tf.Body.List)-1])
			closes = strings.Contains(last, ".Do(func() { close(user."+waitField+") })") && count(rawEvents(tf), "return", `.`) == 0
		}
		waitOK = lits > 0 && made == lits && closes
		if os.Getenv("EXTRACT_DEBUG") != "" {
			fmt.Fprintln(os.Stderr, "retryWait:", lits, made, closes)
		}
	}
	boolFact(g, "retryWaitIsSignalled", waitOK, src)
}
