package main

import (
	"go/ast"
	"os"
	"go/token"
	"regexp"
	"strings"
)

// ev is one syntactic event of a function body, in source order.
type ev struct {
	kind  string // call defer go return if else endif for endfor switch case assign incdec send
	text  string
	depth int
	node  ast.Node
}

func fnOf(dir, key string) *ast.FuncDecl {
	p := pkgs[dir]
	if p == nil {
		return nil
	}
	return p.funcs[key]
}

func callsIn(n ast.Node, depth int, out *[]ev) {
	if n == nil {
		return
	}
	ast.Inspect(n, func(m ast.Node) bool {
		switch c := m.(type) {
		case *ast.FuncLit:
			return false
		case *ast.CallExpr:
			*out = append(*out, ev{"call", show(c), depth, c})
		}
		return true
	})
}

func walkStmts(list []ast.Stmt, depth int, out *[]ev) {
	for _, s := range list {
		walkStmt(s, depth, out)
	}
}

func walkStmt(s ast.Stmt, depth int, out *[]ev) {
	switch s := s.(type) {
	case nil:
	case *ast.ExprStmt:
		callsIn(s.X, depth, out)
	case *ast.DeferStmt:
		*out = append(*out, ev{"defer", show(s.Call), depth, s})
	case *ast.GoStmt:
		*out = append(*out, ev{"go", show(s.Call), depth, s})
	case *ast.ReturnStmt:
		for _, r := range s.Results {
			callsIn(r, depth, out)
		}
		*out = append(*out, ev{"return", show(s), depth, s})
	case *ast.AssignStmt:
		for _, r := range s.Rhs {
			callsIn(r, depth, out)
		}
		for _, l := range s.Lhs {
			callsIn(l, depth, out)
		}
		*out = append(*out, ev{"assign", show(s), depth, s})
	case *ast.IncDecStmt:
		*out = append(*out, ev{"incdec", show(s), depth, s})
	case *ast.SendStmt:
		callsIn(s.Value, depth, out)
		*out = append(*out, ev{"send", show(s), depth, s})
	case *ast.DeclStmt:
		callsIn(s, depth, out)
		*out = append(*out, ev{"decl", show(s), depth, s})
	case *ast.BlockStmt:
		walkStmts(s.List, depth, out)
	case *ast.LabeledStmt:
		walkStmt(s.Stmt, depth, out)
	case *ast.IfStmt:
		walkStmt(s.Init, depth, out)
		callsIn(s.Cond, depth, out)
		*out = append(*out, ev{"if", show(s.Cond), depth, s})
		walkStmts(s.Body.List, depth+1, out)
		if s.Else != nil {
			*out = append(*out, ev{"else", "", depth, s})
			walkStmt(s.Else, depth+1, out)
		}
		*out = append(*out, ev{"endif", "", depth, s})
	case *ast.ForStmt:
		walkStmt(s.Init, depth, out)
		c := ""
		if s.Cond != nil {
			c = show(s.Cond)
			callsIn(s.Cond, depth, out)
		}
		*out = append(*out, ev{"for", c, depth, s})
		walkStmts(s.Body.List, depth+1, out)
		walkStmt(s.Post, depth+1, out)
		*out = append(*out, ev{"endfor", "", depth, s})
	case *ast.RangeStmt:
		callsIn(s.X, depth, out)
		*out = append(*out, ev{"for", "range " + show(s.X), depth, s})
		walkStmts(s.Body.List, depth+1, out)
		*out = append(*out, ev{"endfor", "", depth, s})
	case *ast.SwitchStmt:
		walkStmt(s.Init, depth, out)
		t := ""
		if s.Tag != nil {
			t = show(s.Tag)
			callsIn(s.Tag, depth, out)
		}
		*out = append(*out, ev{"switch", t, depth, s})
		for _, c := range s.Body.List {
			cc := c.(*ast.CaseClause)
			var xs []string
			for _, e := range cc.List {
				xs = append(xs, show(e))
			}
			*out = append(*out, ev{"case", strings.Join(xs, ","), depth, cc})
			walkStmts(cc.Body, depth+1, out)
		}
		*out = append(*out, ev{"endswitch", "", depth, s})
	case *ast.SelectStmt:
		*out = append(*out, ev{"select", "", depth, s})
		for _, c := range s.Body.List {
			cc := c.(*ast.CommClause)
			if cc.Comm == nil {
				*out = append(*out, ev{"default", "", depth, cc})
			} else {
				*out = append(*out, ev{"comm", show(cc.Comm), depth, cc})
				walkStmt(cc.Comm, depth+1, out)
			}
			walkStmts(cc.Body, depth+1, out)
		}
		*out = append(*out, ev{"endselect", "", depth, s})
	case *ast.TypeSwitchStmt:
		*out = append(*out, ev{"other", show(s), depth, s})
	case *ast.BranchStmt:
		*out = append(*out, ev{"branch", s.Tok.String(), depth, s})
	}
}

// events: the function's event list with the bodies of the package's own unexported helpers spliced in (see
// inlEvents); rawEvents is the function body alone.
func events(fn *ast.FuncDecl) []ev {
	if os.Getenv("VERIF_NO_INLINE") != "" {
		return rawEvents(fn)
	}
	for dir, p := range pkgs {
		for _, f := range p.funcs {
			if f == fn {
				return inlEvents(dir, fn, 2, map[*ast.FuncDecl]bool{fn: true})
			}
		}
	}
	return rawEvents(fn)
}

func rawEvents(fn *ast.FuncDecl) []ev {
	var out []ev
	if fn == nil || fn.Body == nil {
		return nil
	}
	walkStmts(fn.Body.List, 0, &out)
	return out
}

// idx returns the index of the first event at or after `from` of the given kind whose text matches re; -1 if none.
func idx(evs []ev, from int, kind, re string) int {
	r := regexp.MustCompile(re)
	for i := from; i < len(evs); i++ {
		if i < 0 {
			continue
		}
		if (kind == "" || evs[i].kind == kind) && r.MatchString(evs[i].text) {
			return i
		}
	}
	return -1
}

func count(evs []ev, kind, re string) int {
	r := regexp.MustCompile(re)
	n := 0
	for _, e := range evs {
		if (kind == "" || e.kind == kind) && r.MatchString(e.text) {
			n++
		}
	}
	return n
}

// ifCond finds the first if-condition in fn whose printed text matches every regexp.
func ifCond(fn *ast.FuncDecl, res ...string) ast.Expr {
	var found ast.Expr
	if fn == nil {
		return nil
	}
	ast.Inspect(fn.Body, func(n ast.Node) bool {
		if found != nil {
			return false
		}
		if s, ok := n.(*ast.IfStmt); ok {
			t := show(s.Cond)
			for _, r := range res {
				if !regexp.MustCompile(r).MatchString(t) {
					return true
				}
			}
			found = s.Cond
			return false
		}
		return true
	})
	return found
}

func forCond(fn *ast.FuncDecl, res ...string) ast.Expr {
	var found ast.Expr
	if fn == nil {
		return nil
	}
	ast.Inspect(fn.Body, func(n ast.Node) bool {
		if found != nil {
			return false
		}
		if s, ok := n.(*ast.ForStmt); ok && s.Cond != nil {
			t := show(s.Cond)
			for _, r := range res {
				if !regexp.MustCompile(r).MatchString(t) {
					return true
				}
			}
			found = s.Cond
			return false
		}
		return true
	})
	return found
}

// assignRHS finds the RHS of the first assignment whose LHS text matches lhsRe.
func assignRHS(fn *ast.FuncDecl, lhsRe string) ast.Expr {
	var found ast.Expr
	if fn == nil {
		return nil
	}
	r := regexp.MustCompile(lhsRe)
	ast.Inspect(fn.Body, func(n ast.Node) bool {
		if found != nil {
			return false
		}
		if s, ok := n.(*ast.AssignStmt); ok && len(s.Lhs) == 1 && len(s.Rhs) == 1 && r.MatchString(show(s.Lhs[0])) {
			found = s.Rhs[0]
			return false
		}
		return true
	})
	return found
}

// allAssignRHS returns the RHS of every assignment whose LHS matches.
func allAssignRHS(fn *ast.FuncDecl, lhsRe string) []ast.Expr {
	var found []ast.Expr
	if fn == nil {
		return nil
	}
	r := regexp.MustCompile(lhsRe)
	ast.Inspect(fn.Body, func(n ast.Node) bool {
		if s, ok := n.(*ast.AssignStmt); ok && len(s.Lhs) == 1 && len(s.Rhs) == 1 && r.MatchString(show(s.Lhs[0])) {
			found = append(found, s.Rhs[0])
		}
		return true
	})
	return found
}

// callArgs finds the first call whose function text matches funRe and returns its arguments.
func callArgs(n ast.Node, funRe string) []ast.Expr {
	var found *ast.CallExpr
	if n == nil {
		return nil
	}
	r := regexp.MustCompile(funRe)
	ast.Inspect(n, func(m ast.Node) bool {
		if found != nil {
			return false
		}
		if c, ok := m.(*ast.CallExpr); ok && r.MatchString(show(c.Fun)) {
			found = c
			return false
		}
		return true
	})
	if found == nil {
		return nil
	}
	return found.Args
}

func allCalls(n ast.Node, funRe string) []*ast.CallExpr {
	var found []*ast.CallExpr
	if n == nil {
		return nil
	}
	r := regexp.MustCompile(funRe)
	ast.Inspect(n, func(m ast.Node) bool {
		if c, ok := m.(*ast.CallExpr); ok && r.MatchString(show(c.Fun)) {
			found = append(found, c)
		}
		return true
	})
	return found
}

var _ = token.ADD

// eventsInl is events(fn) with the bodies of the package's own unexported helpers spliced in after each call to them
// (methods called on fn's receiver, and package-level functions), two levels deep, never recursively: a block that
// was moved into a helper still shows up, in order, in the operation it was moved out of.  The spliced events keep
// the helper's own parameter names.
func eventsInl(dir string, fn *ast.FuncDecl) []ev {
	return inlEvents(dir, fn, 2, map[*ast.FuncDecl]bool{fn: true})
}

func inlEvents(dir string, fn *ast.FuncDecl, fuel int, busy map[*ast.FuncDecl]bool) []ev {
	base := rawEvents(fn)
	p := pkgs[dir]
	if p == nil || fn == nil || fuel == 0 {
		return base
	}
	recvName, recvType := "", ""
	if fn.Recv != nil && len(fn.Recv.List) == 1 && len(fn.Recv.List[0].Names) == 1 {
		recvName = fn.Recv.List[0].Names[0].Name
		t := fn.Recv.List[0].Type
		if st, ok := t.(*ast.StarExpr); ok {
			t = st.X
		}
		recvType = show(t)
	}
	var out []ev
	for _, e := range base {
		out = append(out, e)
		if e.kind != "call" {
			continue
		}
		c, ok := e.node.(*ast.CallExpr)
		if !ok {
			continue
		}
		var callee *ast.FuncDecl
		switch f := c.Fun.(type) {
		case *ast.Ident:
			if !ast.IsExported(f.Name) {
				callee = p.funcs[f.Name]
			}
		case *ast.SelectorExpr:
			if x, ok := f.X.(*ast.Ident); ok && recvName != "" && x.Name == recvName && !ast.IsExported(f.Sel.Name) {
				callee = p.funcs[recvType+"."+f.Sel.Name]
			}
		}
		if callee == nil || callee.Body == nil || busy[callee] {
			continue
		}
		busy[callee] = true
		for _, s := range inlEvents(dir, callee, fuel-1, busy) {
			s.depth += e.depth + 1
			out = append(out, s)
		}
		delete(busy, callee)
	}
	return out
}
