package main

import (
	"fmt"
	"go/ast"
	"go/token"
	"regexp"
	"strings"
)

// ---------- client.RouteUDP / client.RouteTCP as routing state machines (internal/client/piper.go) ----------
// group "Route" (Gen.Route.*), consumed by Model/Route.lean (the reuse condition) and pinned by C14R.gen_route* theorems.

func init() { register(factsRoute) }

// routeFuncLits returns the function literals started with `go` directly inside n (not nested ones)
func routeGoLits(n ast.Node) []*ast.FuncLit {
	var out []*ast.FuncLit
	ast.Inspect(n, func(x ast.Node) bool {
		if g, ok := x.(*ast.GoStmt); ok {
			if fl, ok := g.Call.Fun.(*ast.FuncLit); ok {
				out = append(out, fl)
				return false
			}
		}
		return true
	})
	return out
}

// routeLockedDeletes counts `delete(streams, addr.String())` calls in evs that sit between streamsMutex.Lock() and
// streamsMutex.Unlock() and are followed (after the Unlock) by stream.Close(); returns (good, total)
func routeLockedDeletes(evs []ev) (int, int) {
	good, total := 0, 0
	for i, e := range evs {
		if e.kind != "call" || e.text != "delete(streams, addr.String())" {
			continue
		}
		total++
		lock, unlock, closed := false, -1, false
		for j := i - 1; j >= 0; j-- {
			if evs[j].kind == "call" && evs[j].text == "streamsMutex.Unlock()" {
				break
			}
			if evs[j].kind == "call" && evs[j].text == "streamsMutex.Lock()" {
				lock = true
				break
			}
		}
		for j := i + 1; j < len(evs); j++ {
			if evs[j].kind == "call" && evs[j].text == "streamsMutex.Unlock()" {
				unlock = j
				break
			}
		}
		if unlock >= 0 {
			for j := unlock + 1; j < len(evs) && evs[j].depth >= e.depth; j++ {
				if evs[j].kind == "call" && evs[j].text == "stream.Close()" {
					closed = true
				}
			}
		}
		if lock && unlock >= 0 && closed {
			good++
		}
	}
	return good, total
}

func factsRoute() {
	g := "Route"
	vars := map[string]string{"singleplex": "single", "sesh == nil": "seshNil", "sesh.IsClosed()": "seshClosed"}
	ru := fnOf(cl, "RouteUDP")
	if ru == nil {
		unrec(g, "routeUDPReuse", "client.RouteUDP not found")
	} else {
		evs := events(ru)
		iFor := idx(evs, 0, "for", `^$`)
		iRead := idx(evs, iFor, "call", `^localConn\.ReadFrom\(`)
		// the reuse test: the only `if` between the ReadFrom error test and streamsMutex.Lock() whose body is `sesh = newSeshFunc()`
		iLock := idx(evs, iRead, "call", `^streamsMutex\.Lock\(\)$`)
		var reuse *ast.IfStmt
		iReuse := -1
		for i := iRead; i >= 0 && i < iLock; i++ {
			if s, ok := evs[i].node.(*ast.IfStmt); ok && evs[i].kind == "if" && evs[i].depth == 1 {
				be := g14blockEvents(s.Body)
				if idx(be, 0, "assign", `^sesh = newSeshFunc\(\)$`) >= 0 && s.Else == nil {
					if reuse != nil {
						reuse = nil
						break
					}
					reuse, iReuse = s, i
				}
			}
		}
		if reuse == nil {
			unrec(g, "routeUDPReuse", "RouteUDP: `if <cond> { sesh = newSeshFunc() }` between localConn.ReadFrom and streamsMutex.Lock() not found (or not unique)")
		} else {
			boolExpr(g, "routeUDPReuse", "(single seshNil seshClosed : Bool)", cl, reuse.Cond, vars)
		}
		// lookup -> open -> insert, all under streamsMutex
		iLookup := idx(evs, iLock, "assign", `^stream, ok := streams\[addr\.String\(\)\]$`)
		iNotOk := -1
		var ifNotOk *ast.IfStmt
		swapped := false
		for i := iLookup; i >= 0 && i < len(evs); i++ {
			if s, ok := evs[i].node.(*ast.IfStmt); ok && evs[i].kind == "if" && evs[i].depth == 1 && (evs[i].text == "!ok" || evs[i].text == "ok") {
				iNotOk, ifNotOk, swapped = i, s, evs[i].text == "ok"
				break
			}
		}
		order, failPath, capture := false, false, false
		refresh := 0
		if ifNotOk == nil {
			unrec(g, "routeUDPDeleteSites", "RouteUDP: `stream, ok := streams[addr.String()]` under streamsMutex followed by `if !ok {...} else {...}` not found")
		} else {
			missBody := ifNotOk.Body
			var hitBody *ast.BlockStmt
			if b, ok := ifNotOk.Else.(*ast.BlockStmt); ok {
				hitBody = b
			}
			if swapped {
				missBody, hitBody = hitBody, ifNotOk.Body
			}
			if missBody == nil || hitBody == nil {
				unrec(g, "routeUDPDeleteSites", "RouteUDP: the table lookup's `if` has no else branch")
			} else {
				be := g14blockEvents(missBody)
				iNew := idx(be, 0, "assign", `^sesh = newSeshFunc\(\)$`)
				iNewIf := idx(be, 0, "if", `^singleplex$`)
				iOpen := idx(be, 0, "assign", `^stream, err = sesh\.OpenStream\(\)$`)
				iErr := idx(be, iOpen, "if", `^err != nil$`)
				iEnd := -1
				if iErr >= 0 {
					for j := iErr + 1; j < len(be); j++ {
						if be[j].kind == "endif" && be[j].depth == be[iErr].depth {
							iEnd = j
							break
						}
					}
				}
				iIns := idx(be, iEnd, "assign", `^streams\[addr\.String\(\)\] = stream$`)
				iUnl := idx(be, iIns, "call", `^streamsMutex\.Unlock\(\)$`)
				iGo := idx(be, iIns, "go", ``)
				he := g14blockEvents(hitBody)
				hitOnlyUnlocks := len(he) == 1 && he[0].text == "streamsMutex.Unlock()"
				noUnlockBefore := true
				for j := 0; j < len(be) && j < iIns; j++ {
					if be[j].kind == "call" && be[j].text == "streamsMutex.Unlock()" && !(j > iErr && j < iEnd) {
						noUnlockBefore = false
					}
				}
				order = iLock >= 0 && iLookup > iLock && iNotOk > iLookup && iNewIf >= 0 && iNew > iNewIf && iNew < iOpen && iErr > iOpen && iEnd > iErr &&
					iIns > iEnd && iUnl > iIns && iGo > iIns && hitOnlyUnlocks && noUnlockBefore &&
					count(evs, "assign", `^streams\[`) == 1 && count(evs, "call", `^sesh\.OpenStream\(\)$`) == 1
				// the failure path: singleplex closes the fresh session; unlock; continue; nothing inserted
				if iErr >= 0 && iEnd > iErr {
					fe := be[iErr+1 : iEnd]
					iS := idx(fe, 0, "if", `^singleplex$`)
					iC := idx(fe, iS, "call", `^sesh\.Close\(\)$`)
					iU := idx(fe, 0, "call", `^streamsMutex\.Unlock\(\)$`)
					iK := idx(fe, 0, "branch", `^continue$`)
					failPath = iS >= 0 && iC > iS && fe[iC].depth == fe[iS].depth+1 && iU >= 0 && iK > iU && iK == len(fe)-1 &&
						idx(fe, 0, "assign", `^streams\[`) < 0
				}
				// `<p> := addr` declared inside the miss branch (a fresh variable per iteration) and the goroutine's WriteTo uses it
				lits := routeGoLits(missBody)
				for _, e := range be {
					a, ok := e.node.(*ast.AssignStmt)
					if !ok || e.kind != "assign" || a.Tok != token.DEFINE || len(a.Lhs) != 1 || len(a.Rhs) != 1 || show(a.Rhs[0]) != "addr" {
						continue
					}
					p := show(a.Lhs[0])
					re := regexp.MustCompile(`localConn\.WriteTo\(\w+\[:\w+\], ` + regexp.QuoteMeta(p) + `\)`)
					reAssign := regexp.MustCompile(`(^|[^\w.])` + regexp.QuoteMeta(p) + `\s*(=[^=]|:=)`)
					if len(lits) == 1 && re.MatchString(show(lits[0].Body)) && strings.Count(show(lits[0].Body), "WriteTo(") == 1 &&
						len(reAssign.FindAllString(show(ru.Body), -1)) == 1 {
						capture = true
					}
				}
				// the goroutine: read error -> break; WriteTo error -> break; after the loop the locked delete and Close
				if len(lits) == 1 {
					ge := g14blockEvents(lits[0].Body)
					good, total := routeLockedDeletes(ge)
					mg, mt := routeLockedDeletes(evs)
					natFact(g, "routeUDPDeleteSites", good+mg, "RouteUDP: `streamsMutex.Lock(); delete(streams, addr.String()); streamsMutex.Unlock(); stream.Close()` — once after the return goroutine's loop, once on the stream.Write error path")
					boolFact(g, "routeUDPDeletesAllLocked", good == total && mg == mt && good == 1 && mg == 1, "RouteUDP: every delete on the table is of that shape")
					iGFor := idx(ge, 0, "for", `^$`)
					iGEnd := idx(ge, iGFor, "endfor", ``)
					iGRead := idx(ge, iGFor, "assign", `^n, err := stream\.Read\(\w+\)$`)
					iGW := idx(ge, iGRead, "call", `^localConn\.WriteTo\(`)
					iGDel := idx(ge, 0, "call", `^delete\(streams, addr\.String\(\)\)$`)
					brk := 0
					for j := iGFor; j >= 0 && j < iGEnd; j++ {
						if ge[j].kind == "if" && ge[j].text == "err != nil" {
							if s, ok := ge[j].node.(*ast.IfStmt); ok {
								b := g14blockEvents(s.Body)
								if len(b) > 0 && b[len(b)-1].kind == "branch" && b[len(b)-1].text == "break" {
									brk++
								}
							}
						}
					}
					boolFact(g, "routeUDPReturnLoop", iGFor >= 0 && iGRead > iGFor && iGW > iGRead && iGEnd > iGW && iGDel > iGEnd && brk == 2 &&
						count(ge, "return", ``) <= 1 && count(ge, "branch", `^continue$`) == 0,
						"RouteUDP return goroutine: for { n, err := stream.Read(buf); err -> break; localConn.WriteTo(buf[:n], proxyAddr); err -> break }; then the delete — the only ways out of the loop")
					refresh += count(ge, "call", `^stream\.SetReadDeadline\(time\.Now\(\)\.Add\(streamTimeout\)\)$`)
				} else {
					unrec(g, "routeUDPDeleteSites", "RouteUDP: exactly one `go func(...)` in the table-miss branch expected")
				}
			}
		}
		refresh += count(evs, "call", `^stream\.SetReadDeadline\(time\.Now\(\)\.Add\(streamTimeout\)\)$`)
		boolFact(g, "routeUDPLookupOpenInsertLocked", order,
			"RouteUDP: streamsMutex.Lock(); stream, ok := streams[addr.String()]; on a miss: if singleplex { sesh = newSeshFunc() }; stream, err = sesh.OpenStream(); (error path); streams[addr.String()] = stream; streamsMutex.Unlock(); go ... — one OpenStream, one insert; on a hit only the Unlock")
		boolFact(g, "routeUDPOpenFailPath", failPath, "RouteUDP: OpenStream error: if singleplex { sesh.Close() }; streamsMutex.Unlock(); continue — nothing inserted")
		boolFact(g, "routeUDPProxyAddrCaptured", capture, "RouteUDP: `proxyAddr := addr` declared in the miss branch (fresh per iteration, assigned once) and the return goroutine's only WriteTo sends to it")
		natFact(g, "routeUDPDeadlineRefreshSites", refresh, "RouteUDP: stream.SetReadDeadline(time.Now().Add(streamTimeout)) — after the insert, after each datagram read from the stream, after each datagram written to it")
		_ = iReuse
	}

	// ----- RouteTCP -----
	rt := fnOf(cl, "RouteTCP")
	if rt == nil {
		unrec(g, "routeTCPReuse", "client.RouteTCP not found")
		return
	}
	boolExpr(g, "routeTCPReuse", "(single seshNil seshClosed : Bool)", cl, ifCond(rt, `newSeshFunc|sesh`, `singleplex`, `IsClosed`), vars)
	lits := routeGoLits(rt.Body)
	if len(lits) != 1 {
		unrec(g, "routeTCPFirstReadBuf", "RouteTCP: one `go func(...)` per accepted connection expected")
		return
	}
	ge := g14blockEvents(lits[0].Body)
	var bufName string
	for _, e := range ge {
		if a, ok := e.node.(*ast.AssignStmt); ok && e.kind == "assign" && e.depth == 0 && len(a.Lhs) == 1 && len(a.Rhs) == 1 {
			if c, ok := a.Rhs[0].(*ast.CallExpr); ok && show(c.Fun) == "make" && len(c.Args) == 2 && show(c.Args[0]) == "[]byte" {
				if v, err := pkgs[cl].evalConst(c.Args[1], 0); err == nil {
					bufName = show(a.Lhs[0])
					emit(g, "routeTCPFirstReadBuf", "Int", fmt.Sprintf("%d", v), "RouteTCP: "+show(a))
				}
			}
		}
	}
	if bufName == "" {
		unrec(g, "routeTCPFirstReadBuf", "RouteTCP: `data := make([]byte, N)` not found")
		return
	}
	args := callArgs(lits[0].Body, `^io\.ReadAtLeast$`)
	if len(args) != 3 || show(args[0]) != "localConn" || show(args[1]) != bufName {
		unrec(g, "routeTCPFirstReadMin", "RouteTCP: io.ReadAtLeast(localConn, "+bufName+", N) not found")
	} else if v, err := pkgs[cl].evalConst(args[2], 0); err != nil {
		unrec(g, "routeTCPFirstReadMin", err.Error())
	} else {
		emit(g, "routeTCPFirstReadMin", "Int", fmt.Sprintf("%d", v), "RouteTCP: io.ReadAtLeast(localConn, "+bufName+", "+show(args[2])+")")
	}
	iDl := idx(ge, 0, "call", `^localConn\.SetReadDeadline\(time\.Now\(\)\.Add\(streamTimeout\)\)$`)
	iRd := idx(ge, iDl, "call", `^io\.ReadAtLeast\(`)
	iClr := idx(ge, iRd, "call", `^localConn\.SetReadDeadline\(zeroTime\)$`)
	iOpen := idx(ge, iClr, "assign", `^stream, err := sesh\.OpenStream\(\)$`)
	iWr := idx(ge, iOpen, "assign", `^_, err = stream\.Write\(`+regexp.QuoteMeta(bufName)+`\[:i\]\)$`)
	boolFact(g, "routeTCPFirstReadOrder", iDl >= 0 && iRd > iDl && iClr > iRd && iOpen > iClr && iWr > iOpen &&
		count(ge, "call", `^sesh\.OpenStream\(\)$`) == 1,
		"RouteTCP: SetReadDeadline(now+streamTimeout); io.ReadAtLeast; SetReadDeadline(zero); one sesh.OpenStream(); stream.Write(data[:i])")
	// what each error path closes: the sorted list of X.Close() calls in the `if err != nil` body after the call, which must end in return
	closes := func(after int) string {
		iIf := idx(ge, after, "if", `^err != nil$`)
		if iIf < 0 {
			return "?"
		}
		s, ok := ge[iIf].node.(*ast.IfStmt)
		if !ok {
			return "?"
		}
		be := g14blockEvents(s.Body)
		if len(be) == 0 || be[len(be)-1].kind != "return" {
			return "?"
		}
		var out []string
		for _, e := range be {
			if e.kind == "call" && strings.HasSuffix(e.text, ".Close()") {
				t := strings.TrimSuffix(e.text, ".Close()")
				if e.depth > 0 {
					t = "singleplex:" + t
				}
				out = append(out, t)
			}
		}
		// order of independent closes does not matter
		for i := range out {
			for j := i + 1; j < len(out); j++ {
				if out[j] < out[i] {
					out[i], out[j] = out[j], out[i]
				}
			}
		}
		return strings.Join(out, ",")
	}
	emit(g, "routeTCPReadFailCloses", "String", leanStr(closes(iRd)), "RouteTCP: first read fails")
	emit(g, "routeTCPOpenFailCloses", "String", leanStr(closes(iOpen)), "RouteTCP: OpenStream fails")
	emit(g, "routeTCPWriteFailCloses", "String", leanStr(closes(iWr)), "RouteTCP: first stream.Write fails")
	body := show(lits[0].Body)
	boolFact(g, "routeTCPCopiesBothWays", strings.Count(body, "common.Copy(localConn, stream)") == 1 && strings.Count(body, "common.Copy(stream, localConn)") == 1 &&
		strings.Count(body, "common.Copy(") == 2, "RouteTCP: after the first write exactly common.Copy(localConn, stream) (in a goroutine) and common.Copy(stream, localConn)")
}
