package main

import (
	"fmt"
	"go/ast"
	"go/token"
	"regexp"
	"strings"
)

// ---------- C18: user database (localmanager.go), admin API (api_router.go), userPanel.GetUser ----------
//
// Group "Store".  Everything the model of Model/UserStore.lean takes from the source:
//   * WriteUserInfo: (field, key, width) of every `if u.F != nil { bucket.Put([]byte("K"), iNNToB(*u.F)) }`
//   * the decoders applied to `bucket.Get(..)` (u64/u32): width and the "answer 0 without indexing" guard
//     (pinned tree: plain aliases of binary.BigEndian.UintNN -> guard `false`)
//   * per reading function the keys it decodes, in order, with the conversion chain
//   * the comparisons of AuthenticateUser / AuthoriseNewSession / UploadStatus as translated expressions
//   * api_router.go: for every http.Error its site, status and whether a `return` follows
//   * userPanel.GetUser: the test (if any) that refuses non-positive rates before mux.MakeValve

func init() { register(factsStore) }

var fHttpStatus = map[string]int{"http.StatusOK": 200, "http.StatusCreated": 201, "http.StatusBadRequest": 400,
	"http.StatusNotFound": 404, "http.StatusInternalServerError": 500, "http.StatusForbidden": 403,
	"http.StatusUnauthorized": 401, "http.StatusNoContent": 204, "http.StatusAccepted": 202, "http.StatusConflict": 409}

func fLeanStrList(xs []string) string {
	q := make([]string, len(xs))
	for i, x := range xs {
		q[i] = leanStr(x)
	}
	return "[" + strings.Join(q, ", ") + "]"
}

// fDecoderInfo describes a function D used as D(bucket.Get(..)): its width in bytes and guard.
type fDecoderInfo struct {
	width int
	guard string // Lean Bool term over `len : Int`
	src   string
}

var fReBE = regexp.MustCompile(`^binary\.BigEndian\.Uint(16|32|64)$`)

func fBeWidth(e ast.Expr) int {
	m := fReBE.FindStringSubmatch(show(e))
	if m == nil {
		return 0
	}
	switch m[1] {
	case "16":
		return 2
	case "32":
		return 4
	}
	return 8
}

// fFindDecoder recognises `var D = binary.BigEndian.UintNN` (no guard) and
// `func D(b []byte) uintNN { if <guard on b> { return 0 } ...; return binary.BigEndian.UintNN(b) }`.
func fFindDecoder(p *pkgInfo, name string) (*fDecoderInfo, string) {
	for _, f := range p.files {
		for _, d := range f.Decls {
			gd, ok := d.(*ast.GenDecl)
			if !ok || gd.Tok != token.VAR {
				continue
			}
			for _, s := range gd.Specs {
				vs := s.(*ast.ValueSpec)
				for i, nm := range vs.Names {
					if nm.Name == name && i < len(vs.Values) {
						if w := fBeWidth(vs.Values[i]); w > 0 {
							return &fDecoderInfo{w, "false", "var " + name + " = " + show(vs.Values[i]) + " (no length test: a short slice panics)"}, ""
						}
						return nil, "var " + name + " is not a binary.BigEndian decoder: " + show(vs.Values[i])
					}
				}
			}
		}
	}
	fn := p.funcs[name]
	if fn == nil || fn.Body == nil {
		return nil, "decoder " + name + " not found"
	}
	if fn.Type.Params == nil || len(fn.Type.Params.List) != 1 || len(fn.Type.Params.List[0].Names) != 1 {
		return nil, "decoder " + name + ": expected one parameter"
	}
	arg := fn.Type.Params.List[0].Names[0].Name
	vars := map[string]string{"len(" + arg + ")": "len"}
	var guards []string
	n := len(fn.Body.List)
	for i, st := range fn.Body.List {
		if i == n-1 {
			rs, ok := st.(*ast.ReturnStmt)
			if !ok || len(rs.Results) != 1 {
				return nil, "decoder " + name + ": last statement is not a return"
			}
			call, ok := rs.Results[0].(*ast.CallExpr)
			if !ok || len(call.Args) != 1 || show(call.Args[0]) != arg {
				return nil, "decoder " + name + ": unexpected result " + show(rs.Results[0])
			}
			w := fBeWidth(call.Fun)
			if w == 0 {
				return nil, "decoder " + name + ": result is not binary.BigEndian.UintNN(" + arg + ")"
			}
			g := "false"
			if len(guards) > 0 {
				g = "(" + strings.Join(guards, " || ") + ")"
			}
			return &fDecoderInfo{w, g, show(fn.Body)}, ""
		}
		is, ok := st.(*ast.IfStmt)
		if !ok || is.Init != nil || is.Else != nil || len(is.Body.List) != 1 {
			return nil, "decoder " + name + ": unexpected statement " + show(st)
		}
		rs, ok := is.Body.List[0].(*ast.ReturnStmt)
		if !ok || len(rs.Results) != 1 || show(rs.Results[0]) != "0" {
			return nil, "decoder " + name + ": guard does not return 0"
		}
		// `b == nil` is `len(b) == 0` for what bucket.Get returns (nil when the key is absent)
		c := is.Cond
		if b, ok := c.(*ast.BinaryExpr); ok && b.Op == token.EQL && show(b.X) == arg && show(b.Y) == "nil" {
			guards = append(guards, "decide (len = 0)")
			continue
		}
		x := &xlate{p: p, vars: vars}
		t := x.cond(c)
		if x.err != nil {
			return nil, "decoder " + name + ": " + x.err.Error()
		}
		guards = append(guards, t)
	}
	return nil, "decoder " + name + ": empty body"
}

var fReGetKey = regexp.MustCompile(`^bucket\.Get\(\[\]byte\("([A-Za-z]+)"\)\)$`)

// fReadSites lists, in source order, every D(bucket.Get([]byte("K"))) of fn as "K:D:conv" where conv is the chain
// of conversions wrapped around it (innermost first, e.g. "int64", "int32", "int", "int32.JustInt32").
func fReadSites(fn *ast.FuncDecl) (sites []string, rawGets int) {
	var parents []ast.Node
	ast.Inspect(fn.Body, func(n ast.Node) bool {
		if n == nil {
			parents = parents[:len(parents)-1]
			return true
		}
		parents = append(parents, n)
		c, ok := n.(*ast.CallExpr)
		if !ok {
			return true
		}
		if strings.HasSuffix(show(c.Fun), ".Get") {
			// a Get that is not the sole argument of a decoder call is unrecognised use
			if len(parents) < 2 {
				rawGets++
				return true
			}
			pc, ok := parents[len(parents)-2].(*ast.CallExpr)
			if !ok || len(pc.Args) != 1 || pc.Args[0] != ast.Expr(c) || fReGetKey.FindStringSubmatch(show(c)) == nil {
				rawGets++
			}
			return true
		}
		if len(c.Args) == 1 {
			if m := fReGetKey.FindStringSubmatch(show(c.Args[0])); m != nil {
				if id, ok := c.Fun.(*ast.Ident); ok {
					var conv []string
					for i := len(parents) - 2; i >= 0; i-- {
						pc, ok := parents[i].(*ast.CallExpr)
						if !ok || len(pc.Args) != 1 {
							break
						}
						conv = append(conv, show(pc.Fun))
					}
					sites = append(sites, m[1]+":"+id.Name+":"+strings.Join(conv, "."))
				}
			}
		}
		return true
	})
	return
}

func factsStore() {
	g := "Store"
	p := pkgs[um]

	// ---- WriteUserInfo: only present fields are Put, key = field name, width from the encoder ----
	encW := map[string]int{}
	for _, e := range []string{"i64ToB", "i32ToB"} {
		fn := fnOf(um, e)
		w := 0
		if fn != nil {
			if a := callArgs(fn.Body, `^make$`); len(a) == 2 {
				if v, err := p.evalConst(a[1], 0); err == nil {
					w = int(v)
				}
			}
			put := allCalls(fn.Body, `^binary\.BigEndian\.PutUint(32|64)$`)
			if len(put) != 1 || (strings.HasSuffix(show(put[0].Fun), "64") && w != 8) || (strings.HasSuffix(show(put[0].Fun), "32") && w != 4) {
				w = 0
			}
			// the value must be converted with the unsigned type of the same width (two's complement wrap)
			if w != 0 && len(put[0].Args) == 2 && !regexp.MustCompile(fmt.Sprintf(`^uint%d\(value\)$`, w*8)).MatchString(show(put[0].Args[1])) {
				w = 0
			}
		}
		if w == 0 {
			unrec(g, "enc_"+e, "encoder "+e+" not of the form make([]byte, N); PutUintNN(.., uintNN(value))")
			return
		}
		encW[e] = w
	}
	if fn := fnOf(um, "localManager.WriteUserInfo"); fn == nil {
		unrec(g, "writeFields", "WriteUserInfo not found")
	} else {
		var items []string
		puts := allCalls(fn.Body, `^bucket\.Put$`)
		matched := 0
		rePut := regexp.MustCompile(`^bucket\.Put\(\[\]byte\("([A-Za-z]+)"\), (i64ToB|i32ToB)\(\*u\.([A-Za-z]+)\)\)$`)
		ast.Inspect(fn.Body, func(n ast.Node) bool {
			is, ok := n.(*ast.IfStmt)
			if !ok || is.Init != nil {
				return true
			}
			m := regexp.MustCompile(`^u\.([A-Za-z]+) != nil$`).FindStringSubmatch(show(is.Cond))
			if m == nil {
				return true
			}
			for _, c := range allCalls(is.Body, `^bucket\.Put$`) {
				pm := rePut.FindStringSubmatch(show(c))
				if pm != nil && pm[3] == m[1] {
					items = append(items, fmt.Sprintf("(%s, %s, %d)", leanStr(pm[3]), leanStr(pm[1]), encW[pm[2]]))
					matched++
				}
			}
			return false
		})
		emit(g, "writeFields", "List (String × String × Nat)", "["+strings.Join(items, ", ")+"]",
			"WriteUserInfo: (field, key, width) of every `if u.F != nil { bucket.Put([]byte(K), iNNToB(*u.F)) }`")
		natFact(g, "writeOtherPuts", len(puts)-matched, "bucket.Put calls of WriteUserInfo outside that pattern")
		boolFact(g, "writeCreatesBucketFromBodyUID", len(allCalls(fn.Body, `^tx\.CreateBucketIfNotExists$`)) == 1 &&
			show(allCalls(fn.Body, `^tx\.CreateBucketIfNotExists$`)[0].Args[0]) == "u.UID", "tx.CreateBucketIfNotExists(u.UID)")
	}

	// ---- decoders ----
	for _, d := range []string{"u64", "u32"} {
		di, why := fFindDecoder(p, d)
		if di == nil {
			unrec(g, "decGuard_"+d, why)
			continue
		}
		natFact(g, "decWidth_"+d, di.width, "width of decoder "+d)
		emitFn(g, "decGuard_"+d, "(len : Int)", "Bool", di.guard, d+": "+di.src)
	}

	// ---- reads ----
	for _, f := range []string{"AuthenticateUser", "AuthoriseNewSession", "UploadStatus", "ListAllUsers", "GetUserInfo"} {
		fn := fnOf(um, "localManager."+f)
		if fn == nil {
			unrec(g, "reads"+f, "function not found")
			continue
		}
		sites, raw := fReadSites(fn)
		emit(g, "reads"+f, "List String", fLeanStrList(sites), f+": every D(bucket.Get([]byte(K))) as K:D:conversions, in source order")
		natFact(g, "otherGets"+f, raw, f+": bucket.Get uses outside that pattern")
	}

	// ---- comparisons ----
	nowV := "manager.world.Now().Unix()"
	if fn := fnOf(um, "localManager.AuthenticateUser"); fn != nil {
		vars := map[string]string{"upCredit": "upCredit", "downCredit": "downCredit", "expiryTime": "expiry", nowV: "now"}
		boolExpr(g, "authNoUp", "(upCredit : Int)", um, ifCond(fn, `^upCredit`), vars)
		boolExpr(g, "authNoDown", "(downCredit : Int)", um, ifCond(fn, `^downCredit`), vars)
		boolExpr(g, "authExpired", "(expiry now : Int)", um, ifCond(fn, `expiryTime`), vars)
		emit(g, "authOrder", "List String", fLeanStrList(fReturnOrder(fn)), "AuthenticateUser: order of the returns (error names; `ok` = the rates)")
	}
	if fn := fnOf(um, "localManager.AuthoriseNewSession"); fn != nil {
		vars := map[string]string{"upCredit": "upCredit", "downCredit": "downCredit", "expiryTime": "expiry", nowV: "now",
			"ainfo.NumExistingSessions": "n", "sessionsCap": "cap"}
		boolExpr(g, "authzNoUp", "(upCredit : Int)", um, ifCond(fn, `^upCredit`), vars)
		boolExpr(g, "authzNoDown", "(downCredit : Int)", um, ifCond(fn, `^downCredit`), vars)
		boolExpr(g, "authzExpired", "(expiry now : Int)", um, ifCond(fn, `expiryTime`), vars)
		boolExpr(g, "authzCapReached", "(n cap : Int)", um, ifCond(fn, `sessionsCap`), vars)
		emit(g, "authzOrder", "List String", fLeanStrList(fReturnOrder(fn)), "AuthoriseNewSession: order of the returns")
		boolFact(g, "authzPads16", strings.Contains(show(fn.Body), "var arrUID [16]byte") && strings.Contains(show(fn.Body), "copy(arrUID[:], UID)") &&
			strings.Contains(show(fn.Body), "tx.Bucket(arrUID[:])"), "AuthoriseNewSession looks the bucket up under the UID padded/truncated to 16 bytes")
	}
	if fn := fnOf(um, "localManager.UploadStatus"); fn != nil {
		vars := map[string]string{"oldUp": "old", "oldDown": "old", "status.UpUsage": "usage", "status.DownUsage": "usage",
			"newUp": "new", "newDown": "new", nowV: "now", "expiry": "expiry"}
		numExpr(g, "uploadNewUp", "(old usage : Int)", um, assignRHS(fn, `^newUp$`), vars)
		numExpr(g, "uploadNewDown", "(old usage : Int)", um, assignRHS(fn, `^newDown$`), vars)
		boolExpr(g, "uploadUpExhausted", "(new : Int)", um, ifCond(fn, `^newUp`), vars)
		boolExpr(g, "uploadDownExhausted", "(new : Int)", um, ifCond(fn, `^newDown`), vars)
		boolExpr(g, "uploadExpired", "(now expiry : Int)", um, ifCond(fn, `expiry`, `Now\(\)`), vars)
		// sequence of the interesting events of the loop body
		var seq []string
		var loopEvs []ev
		ast.Inspect(fn.Body, func(n ast.Node) bool {
			if l, ok := n.(*ast.FuncLit); ok && loopEvs == nil {
				walkStmts(l.Body.List, 0, &loopEvs)
				return false
			}
			return true
		})
		rePutNew := regexp.MustCompile(`^bucket\.Put\(\[\]byte\("([A-Za-z]+)"\), i64ToB\(([A-Za-z]+)\)\)$`)
		for _, e := range loopEvs {
			switch {
			case e.kind == "call" && len(e.node.(*ast.CallExpr).Args) == 1 && fReGetKey.MatchString(show(e.node.(*ast.CallExpr).Args[0])):
				seq = append(seq, "get "+fReGetKey.FindStringSubmatch(show(e.node.(*ast.CallExpr).Args[0]))[1])
			case e.kind == "call" && strings.HasPrefix(e.text, "bucket.Put("):
				if m := rePutNew.FindStringSubmatch(e.text); m != nil {
					seq = append(seq, "put "+m[1]+" "+m[2])
				} else {
					seq = append(seq, "put ? "+e.text)
				}
			case e.kind == "if" && (strings.HasPrefix(e.text, "newUp") || strings.HasPrefix(e.text, "newDown") || strings.Contains(e.text, "expiry")):
				seq = append(seq, "if "+e.text)
			case e.kind == "if" && e.text == "bucket == nil":
				seq = append(seq, "if bucket == nil")
			case e.kind == "branch":
				seq = append(seq, e.text)
			}
		}
		emit(g, "uploadSeq", "List String", fLeanStrList(seq), "UploadStatus loop body: gets, tests and puts in source order")
		msgs := regexp.MustCompile(`TERMINATE, "([^"]*)"`).FindAllStringSubmatch(show(fn.Body), -1)
		var ms []string
		for _, m := range msgs {
			ms = append(ms, m[1])
		}
		emit(g, "uploadMsgs", "List String", fLeanStrList(ms), "UploadStatus: messages of the TERMINATE responses in source order")
		boolFact(g, "uploadInOneUpdateTx", len(allCalls(fn.Body, `^manager\.db\.Update$`)) == 1 && len(allCalls(fn.Body, `^manager\.db\.`)) == 1, "the whole loop runs inside one db.Update")
	}
	// ---- ListAllUsers / GetUserInfo: whose memory is the UID of a returned UserInfo? ----
	// bbolt: the key slice handed to a ForEach callback points into the database mapping and is valid only for the life
	// of the transaction; the result of ListAllUsers is used (json.Marshal) after db.View has returned.
	if fn := fnOf(um, "localManager.ListAllUsers"); fn == nil {
		unrec(g, "listUIDIsCopy", "ListAllUsers not found")
	} else {
		fStoreListUID(g, fn)
	}
	if fn := fnOf(um, "localManager.GetUserInfo"); fn != nil {
		rhs := allAssignRHS(fn, `^uinfo\.UID$`)
		param := ""
		if fn.Type.Params != nil && len(fn.Type.Params.List) == 1 && len(fn.Type.Params.List[0].Names) == 1 {
			param = fn.Type.Params.List[0].Names[0].Name
		}
		boolFact(g, "getUIDIsCallersArgument", len(rhs) == 1 && param != "" && show(rhs[0]) == param,
			"GetUserInfo: uinfo.UID is the caller's own slice (the function parameter), not database memory")
	}
	if fn := fnOf(um, "localManager.DeleteUser"); fn != nil {
		boolFact(g, "deleteIsDeleteBucket", len(allCalls(fn.Body, `^tx\.DeleteBucket$`)) == 1 && show(allCalls(fn.Body, `^tx\.DeleteBucket$`)[0].Args[0]) == "UID" &&
			len(allCalls(fn.Body, `^manager\.db\.Update$`)) == 1, "DeleteUser = db.Update(tx.DeleteBucket(UID))")
	}

	// ---- api_router.go ----
	hl := map[string]string{"post": "APIRouter.writeUserInfoHlr", "get": "APIRouter.getUserInfoHlr", "del": "APIRouter.deleteUserHlr", "list": "APIRouter.listAllUsersHlr"}
	for _, h := range []string{"post", "get", "del", "list"} {
		fn := fnOf(um, hl[h])
		if fn == nil {
			unrec(g, h+"Sites", "handler not found")
			continue
		}
		evs := events(fn)
		var sites []string
		last := "start"
		for i, e := range evs {
			if e.kind != "call" {
				continue
			}
			t := e.text
			switch {
			case strings.HasPrefix(t, "base64.URLEncoding.DecodeString("):
				last = "b64"
			case strings.Contains(t, ".Decode(&uinfo)"):
				last = "json"
			case strings.HasPrefix(t, "bytes.Equal("):
				last = "mismatch"
			case strings.HasPrefix(t, "ar.manager."):
				last = "mgr"
			case strings.HasPrefix(t, "json.Marshal("):
				last = "marshal"
			case strings.HasPrefix(t, "gmux.Vars("):
				last = "empty"
			case strings.HasPrefix(t, "http.Error("):
				c := e.node.(*ast.CallExpr)
				st := -1
				if len(c.Args) == 3 {
					if v, ok := fHttpStatus[show(c.Args[2])]; ok {
						st = v
					} else if v, err := p.evalConst(c.Args[2], 0); err == nil {
						st = int(v)
					}
				}
				// a `return` follows if the next non-call event at this depth is one
				ret := false
				for j := i + 1; j < len(evs); j++ {
					if evs[j].kind == "call" && evs[j].depth == e.depth {
						if strings.HasPrefix(evs[j].text, "err.Error()") || strings.HasSuffix(evs[j].text, ".Error()") {
							continue
						}
						break
					}
					ret = evs[j].kind == "return" && evs[j].depth == e.depth
					break
				}
				// the enclosing if (nearest preceding `if` event one level up)
				cond := ""
				for j := i - 1; j >= 0; j-- {
					if evs[j].kind == "if" && evs[j].depth == e.depth-1 {
						cond = evs[j].text
						break
					}
				}
				name := last
				if name == "mgr" && strings.Contains(cond, "ErrUserNotFound") {
					name = "notfound"
				}
				sites = append(sites, fmt.Sprintf("%s:%d:%v", name, st, ret))
				natFact(g, h+"St_"+name, st, hl[h]+": status of the "+name+" error (`"+cond+"`)")
				boolFact(g, h+"Ret_"+name, ret, hl[h]+": a `return` follows the "+name+" error")
				if name == "mismatch" {
					boolFact(g, "postComparesUrlWithBody", regexp.MustCompile(`^!bytes\.Equal\((UID, uinfo\.UID|uinfo\.UID, UID)\)$`).MatchString(cond), cond)
				}
			case strings.HasPrefix(t, "w.WriteHeader("):
				c := e.node.(*ast.CallExpr)
				if v, ok := fHttpStatus[show(c.Args[0])]; ok && e.depth == 0 {
					natFact(g, h+"St_ok", v, hl[h]+": final "+t)
				}
			}
		}
		emit(g, h+"Sites", "List String", fLeanStrList(sites), hl[h]+": every http.Error as site:status:returns, in source order")
		var names []string
		for _, s := range sites {
			names = append(names, s[:strings.Index(s, ":")])
		}
		emit(g, h+"SiteNames", "List String", fLeanStrList(names), hl[h]+": the error sites in source order")
		switch h {
		case "post":
			a := callArgs(fn.Body, `^ar\.manager\.WriteUserInfo$`)
			boolFact(g, "postWritesDecodedBody", len(a) == 1 && show(a[0]) == "uinfo" && strings.Contains(show(fn.Body), "Decode(&uinfo)"), "WriteUserInfo(uinfo) with uinfo decoded from the body")
		case "get":
			a := callArgs(fn.Body, `^ar\.manager\.GetUserInfo$`)
			boolFact(g, "getReadsUrlUID", len(a) == 1 && show(a[0]) == "UID", "GetUserInfo(UID) with UID decoded from the URL")
		case "del":
			a := callArgs(fn.Body, `^ar\.manager\.DeleteUser$`)
			boolFact(g, "delDeletesUrlUID", len(a) == 1 && show(a[0]) == "UID", "DeleteUser(UID) with UID decoded from the URL")
		}
	}

	// ---- userPanel.GetUser: rates reach mux.MakeValve; is there a refusal of non-positive rates before it? ----
	if fn := fnOf(sv, "userPanel.GetUser"); fn == nil {
		unrec(g, "valveGuard", "userPanel.GetUser not found")
	} else {
		args := callArgs(fn.Body, `^mux\.MakeValve$`)
		auth := fAssignLHSOfCall(fn, `^panel\.Manager\.AuthenticateUser$`)
		if len(args) != 2 || len(auth) != 3 || show(args[0]) != auth[0] || show(args[1]) != auth[1] {
			unrec(g, "valveGuard", "GetUser: expected up, down, err := AuthenticateUser(UID); mux.MakeValve(up, down)")
		} else {
			up, down := auth[0], auth[1]
			vars := map[string]string{up: "up", down: "down"}
			var guards []string
			bad := ""
			mkPos := allCalls(fn.Body, `^mux\.MakeValve$`)[0].Pos()
			for _, st := range fn.Body.List {
				is, ok := st.(*ast.IfStmt)
				if !ok || is.Pos() > mkPos {
					continue
				}
				t := show(is.Cond)
				if !regexp.MustCompile(`\b`+up+`\b`).MatchString(t) && !regexp.MustCompile(`\b`+down+`\b`).MatchString(t) {
					continue
				}
				// body must leave the function with an error
				n := len(is.Body.List)
				rs, ok := is.Body.List[n-1].(*ast.ReturnStmt)
				if n == 0 || !ok || len(rs.Results) != 2 || show(rs.Results[0]) != "nil" || show(rs.Results[1]) == "nil" {
					bad = "rate test does not return (nil, error): " + show(is)
					break
				}
				x := &xlate{p: pkgs[sv], vars: vars}
				c := x.cond(is.Cond)
				if x.err != nil {
					bad = x.err.Error()
					break
				}
				guards = append(guards, c)
			}
			if bad != "" {
				unrec(g, "valveGuard", bad)
			} else {
				t := "false"
				src := "GetUser: no test of the rates between AuthenticateUser and mux.MakeValve(" + up + ", " + down + ")"
				if len(guards) > 0 {
					t = "(" + strings.Join(guards, " || ") + ")"
					src = "GetUser: rates refused before mux.MakeValve when this holds"
				}
				emitFn(g, "valveGuard", "(up down : Int)", "Bool", t, src)
			}
		}
	}
	// MakeValve hands each rate to ratelimit.NewBucketWithRate(float64(rate), rate): capacity = rate
	if fn := fnOf(mx, "MakeValve"); fn != nil {
		cs := allCalls(fn.Body, `^ratelimit\.NewBucketWithRate$`)
		ok := len(cs) == 2 && fn.Type.Params != nil
		if ok {
			var ps []string
			for _, f := range fn.Type.Params.List {
				for _, n := range f.Names {
					ps = append(ps, n.Name)
				}
			}
			ok = len(ps) == 2
			for i, c := range cs {
				ok = ok && len(c.Args) == 2 && show(c.Args[1]) == ps[i] && show(c.Args[0]) == "float64("+ps[i]+")"
			}
		}
		boolFact(g, "valveCapacityIsRate", ok, "MakeValve(rx, tx): ratelimit.NewBucketWithRate(float64(r), r) for both rates")
	}
}

// fReturnOrder lists what each top-level `return` of fn (outside closures) returns: the Err* name, or "ok".
func fReturnOrder(fn *ast.FuncDecl) []string {
	var out []string
	var walk func(list []ast.Stmt)
	walk = func(list []ast.Stmt) {
		for _, s := range list {
			switch s := s.(type) {
			case *ast.IfStmt:
				walk(s.Body.List)
			case *ast.ReturnStmt:
				t := show(s)
				if m := regexp.MustCompile(`Err[A-Za-z]+`).FindString(t); m != "" {
					out = append(out, m)
				} else if strings.HasSuffix(t, " err") {
					out = append(out, "err")
				} else {
					out = append(out, "ok")
				}
			}
		}
	}
	walk(fn.Body.List)
	return out
}

// fAssignLHSOfCall returns the printed left-hand sides of the assignment whose single RHS is a call matching funRe.
func fAssignLHSOfCall(fn *ast.FuncDecl, funRe string) []string {
	r := regexp.MustCompile(funRe)
	var out []string
	ast.Inspect(fn.Body, func(n ast.Node) bool {
		if s, ok := n.(*ast.AssignStmt); ok && out == nil && len(s.Rhs) == 1 {
			if c, ok := s.Rhs[0].(*ast.CallExpr); ok && r.MatchString(show(c.Fun)) {
				for _, l := range s.Lhs {
					out = append(out, show(l))
				}
			}
		}
		return true
	})
	return out
}

// fStoreListUID decides whether the UID stored in each listed UserInfo is a copy of the key slice bbolt hands to the
// tx.ForEach callback (its first parameter) or that slice itself.
func fStoreListUID(g string, fn *ast.FuncDecl) {
	var cb *ast.FuncLit
	ast.Inspect(fn.Body, func(n ast.Node) bool {
		if c, ok := n.(*ast.CallExpr); ok && cb == nil && strings.HasSuffix(show(c.Fun), ".ForEach") && len(c.Args) == 1 {
			if l, ok := c.Args[0].(*ast.FuncLit); ok {
				cb = l
			}
		}
		return true
	})
	if cb == nil || cb.Type.Params == nil || len(cb.Type.Params.List) == 0 || len(cb.Type.Params.List[0].Names) == 0 {
		unrec(g, "listUIDIsCopy", "ListAllUsers: tx.ForEach(func(key, bucket) ...) not found")
		return
	}
	key := cb.Type.Params.List[0].Names[0].Name
	kre := regexp.QuoteMeta(key)
	var rhs []ast.Expr
	ast.Inspect(cb.Body, func(n ast.Node) bool {
		if a, ok := n.(*ast.AssignStmt); ok && len(a.Lhs) == 1 && len(a.Rhs) == 1 && show(a.Lhs[0]) == "uinfo.UID" {
			rhs = append(rhs, a.Rhs[0])
		}
		return true
	})
	if len(rhs) != 1 {
		unrec(g, "listUIDIsCopy", fmt.Sprintf("ListAllUsers: expected one assignment to uinfo.UID in the ForEach callback, found %d", len(rhs)))
		return
	}
	t := show(rhs[0])
	copyForms := regexp.MustCompile(`^(append\(\[\]byte(\(nil\)|\{\}), ` + kre + `\.\.\.\)|bytes\.Clone\(` + kre + `\)|slices\.Clone\(` + kre + `\)|\[\]byte\(string\(` + kre + `\)\))$`)
	switch {
	case t == key:
		boolFact(g, "listUIDIsCopy", false, "ListAllUsers: uinfo.UID = "+t+" -- the key slice of the read transaction itself (database memory, valid only inside the transaction)")
	case copyForms.MatchString(t):
		boolFact(g, "listUIDIsCopy", true, "ListAllUsers: uinfo.UID = "+t+" -- a copy of the transaction's key slice")
	default:
		// e.g. a local filled by make + copy: recognise `x := make([]byte, len(key)); copy(x, key); uinfo.UID = x`
		src := show(cb.Body)
		if id, ok := rhs[0].(*ast.Ident); ok && regexp.MustCompile(regexp.QuoteMeta(id.Name)+` :?= make\(\[\]byte, len\(`+kre+`\)\)`).MatchString(src) &&
			strings.Contains(src, "copy("+id.Name+", "+key+")") {
			boolFact(g, "listUIDIsCopy", true, "ListAllUsers: uinfo.UID = "+t+" (make + copy of the transaction's key slice)")
			return
		}
		unrec(g, "listUIDIsCopy", "ListAllUsers: cannot tell whether `uinfo.UID = "+t+"` copies the transaction's key slice")
	}
}
