package main

// C15 — facts about session admission: ActiveUser.GetSession (one critical section under sessionsM around
// lookup / authorise / create), the comparisons of AuthoriseNewSession and AuthenticateUser (translated, in source
// order), what is passed as NumExistingSessions, which key the dispatcher replies with, whose valve a session gets.

import (
	"fmt"
	"go/ast"
	"strings"
)

func init() { register(factsC15) }

// oneSection: in every path all markers (cls >= 100) lie inside ONE critical section of class `cls`, no other
// acquire/release of that class happens between the first and the last marker, and some path has markers.
func oneSection(progs [][]lockEv, cls int) (bool, bool) {
	any := false
	for _, p := range progs {
		depth, sections, inSection := 0, 0, false
		seen := false
		for _, e := range p {
			switch {
			case e.cls >= 100:
				any, seen = true, true
				if depth == 0 {
					return false, any
				}
				if !inSection {
					inSection = true
					sections++
				}
			case e.cls == cls && e.acq:
				depth++
			case e.cls == cls && !e.acq:
				depth--
				if depth == 0 {
					inSection = false
				}
			}
		}
		if seen && sections != 1 {
			return false, any
		}
	}
	return true, any
}

// returnChecks: the top-level `if <cond> { return …, ErrXxx }` statements of fn (after the database read), in order
func returnChecks(g, name, params string, fn *ast.FuncDecl, vars map[string]string, errIdx int) {
	if fn == nil || fn.Body == nil {
		unrec(g, name, "function not found")
		return
	}
	var items []string
	var srcs []string
	for _, st := range fn.Body.List {
		is, ok := st.(*ast.IfStmt)
		if !ok {
			continue
		}
		c := show(is.Cond)
		if c == "err != nil" {
			continue
		}
		if is.Else != nil || is.Init != nil || len(is.Body.List) != 1 {
			unrec(g, name, "unexpected shape of check: "+c)
			return
		}
		rs, ok := is.Body.List[0].(*ast.ReturnStmt)
		if !ok || len(rs.Results) <= errIdx {
			unrec(g, name, "check does not return an error: "+c)
			return
		}
		en := show(rs.Results[len(rs.Results)-1])
		x := &xlate{p: pkgs[um], vars: vars}
		t := x.cond(is.Cond)
		if x.err != nil {
			unrec(g, name, x.err.Error())
			return
		}
		items = append(items, fmt.Sprintf("(%s, %s)", leanStr(en), t))
		srcs = append(srcs, "if "+c+" → "+en)
	}
	if len(items) == 0 {
		unrec(g, name, "no checks found")
		return
	}
	emitFn(g, name, params, "List (String × Bool)", "["+strings.Join(items, ", ")+"]", strings.Join(srcs, "; "))
}

// dbReads: assignments `v = conv(u64(bucket.Get([]byte("Key"))))` inside the View/Update closure → (var, conversion chain, key)
func dbReads(fn *ast.FuncDecl) []string {
	var out []string
	if fn == nil {
		return nil
	}
	ast.Inspect(fn.Body, func(n ast.Node) bool {
		as, ok := n.(*ast.AssignStmt)
		if !ok || len(as.Lhs) != 1 || len(as.Rhs) != 1 {
			return true
		}
		t := show(as.Rhs[0])
		i := strings.Index(t, `(bucket.Get([]byte("`)
		if i < 0 {
			return true
		}
		j := strings.Index(t[i:], `")))`)
		if j < 0 {
			return true
		}
		key := t[i+len(`(bucket.Get([]byte("`) : i+j]
		conv := t[:i]
		if strings.ContainsAny(conv, " {") {
			return true
		}
		out = append(out, fmt.Sprintf("(%s, %s, %s)", leanStr(show(as.Lhs[0])), leanStr(conv), leanStr(key)))
		return true
	})
	return out
}

func factsC15() {
	g := "Panel"
	classes := map[string]int{"usageUpdateQueueM": 0, "activeUsersM": 1, "sessionsM": 2}
	// --- GetSession: one critical section
	w := &lockWalker{dir: sv, classes: classes, listed: map[string]string{}, stack: map[string]bool{}, cache: map[string][][]lockEv{}}
	w.markerOf = func(n ast.Node) (int, bool) {
		switch x := n.(type) {
		case *ast.SelectorExpr: // any mention of the session table: lookup, len, range, delete, insert
			if x.Sel.Name == "sessions" {
				return 100, true
			}
		case *ast.CallExpr:
			f := show(x.Fun)
			if strings.HasSuffix(f, ".AuthoriseNewSession") {
				return 101, true
			}
			if strings.HasSuffix(f, "MakeSession") {
				return 102, true
			}
		}
		return 0, false
	}
	progs := w.fnPrograms("ActiveUser.GetSession")
	okSec, anyM := oneSection(progs, 2)
	if len(w.bad) > 0 || !anyM {
		unrec(g, "getSessionUnderLock", "GetSession: table accesses not found "+strings.Join(w.bad, ";"))
	} else {
		boolFact(g, "getSessionUnderLock", okSec, "GetSession: table lookup, len(), AuthoriseNewSession, MakeSession and the table insert all lie in one sessionsM critical section on every path")
	}
	// same for CloseSession's removal and closeAllSessions
	for _, f := range []string{"CloseSession", "closeAllSessions", "NumSession"} {
		w2 := &lockWalker{dir: sv, classes: classes, listed: map[string]string{}, stack: map[string]bool{}, cache: map[string][][]lockEv{}, markerOf: w.markerOf}
		pr := w2.fnPrograms("ActiveUser." + f)
		o, a := oneSection(pr, 2)
		nm := strings.ToLower(f[:1]) + f[1:] + "UnderLock"
		if !a {
			unrec(g, nm, f+": table accesses not found")
		} else {
			boolFact(g, nm, o, f+": every access to u.sessions lies in one sessionsM critical section")
		}
	}
	// --- GetUser / GetBypassUser: lookup-or-create in one activeUsersM section
	for _, f := range []string{"GetUser", "GetBypassUser"} {
		w3 := &lockWalker{dir: sv, classes: classes, listed: map[string]string{}, stack: map[string]bool{}, cache: map[string][][]lockEv{}}
		w3.markerOf = func(n ast.Node) (int, bool) {
			switch x := n.(type) {
			case *ast.SelectorExpr:
				if x.Sel.Name == "activeUsers" {
					return 100, true
				}
			case *ast.CallExpr:
				if strings.HasSuffix(show(x.Fun), ".AuthenticateUser") {
					return 101, true
				}
			}
			return 0, false
		}
		pr := w3.fnPrograms("userPanel." + f)
		o, a := oneSection(pr, 1)
		nm := strings.ToLower(f[:1]) + f[1:] + "UnderLock"
		if !a {
			unrec(g, nm, f+": activeUsers accesses not found")
		} else {
			boolFact(g, nm, o, f+": lookup, AuthenticateUser and insert lie in one activeUsersM critical section")
		}
	}

	// --- AuthoriseNewSession / AuthenticateUser comparisons, in source order
	vars := map[string]string{"upCredit": "upCredit", "downCredit": "downCredit", "expiryTime": "expiryTime",
		"manager.world.Now().Unix()": "now", "ainfo.NumExistingSessions": "numExisting", "sessionsCap": "sessionsCap"}
	an := fnOf(um, "localManager.AuthoriseNewSession")
	returnChecks(g, "authoriseChecks", "(upCredit downCredit expiryTime now numExisting sessionsCap : Int)", an, vars, 0)
	au := fnOf(um, "localManager.AuthenticateUser")
	returnChecks(g, "authenticateChecks", "(upCredit downCredit expiryTime now : Int)", au, vars, 2)
	if r := dbReads(an); len(r) > 0 {
		emit(g, "authoriseReads", "List (String × String × String)", "["+strings.Join(r, ", ")+"]", "AuthoriseNewSession: variable, conversion, bucket key")
	} else {
		unrec(g, "authoriseReads", "no bucket reads found")
	}
	if r := dbReads(au); len(r) > 0 {
		emit(g, "authenticateReads", "List (String × String × String)", "["+strings.Join(r, ", ")+"]", "AuthenticateUser: variable, conversion, bucket key")
	} else {
		unrec(g, "authenticateReads", "no bucket reads found")
	}
	// how the cap is written: i32ToB = PutUint32(uint32(value))
	if fn := fnOf(um, "i32ToB"); fn != nil {
		a := callArgs(fn, `PutUint32$`)
		boolFact(g, "capWrittenAsU32", len(a) == 2 && show(a[1]) == "uint32(value)", "i32ToB stores uint32(value) big-endian")
	} else {
		unrec(g, "capWrittenAsU32", "i32ToB not found")
	}

	// --- call-site facts
	gs := fnOf(sv, "ActiveUser.GetSession")
	if gs != nil {
		found := false
		isLen := false
		ast.Inspect(gs.Body, func(n ast.Node) bool {
			if kv, ok := n.(*ast.KeyValueExpr); ok && show(kv.Key) == "NumExistingSessions" {
				found = true
				isLen = show(kv.Value) == "len(u.sessions)"
			}
			return true
		})
		if !found {
			unrec(g, "numExistingIsLen", "NumExistingSessions literal not found")
		} else {
			boolFact(g, "numExistingIsLen", isLen, "AuthorisationInfo{NumExistingSessions: len(u.sessions)}")
		}
		evs := events(gs)
		iv := idx(evs, 0, "assign", `^config\.Valve = u\.valve$`)
		im := idx(evs, 0, "call", `MakeSession\(sessionID, config\)`)
		is := idx(evs, 0, "assign", `^u\.sessions\[sessionID\] = sesh$`)
		boolFact(g, "valveFromUser", iv >= 0 && im > iv, "config.Valve = u.valve precedes MakeSession(sessionID, config)")
		boolFact(g, "sessionStoredUnderId", is > im && im >= 0, "u.sessions[sessionID] = sesh after MakeSession")
		a := callArgs(gs, `AuthoriseNewSession$`)
		boolFact(g, "authoriseArgIsOwnUID", len(a) == 2 && show(a[0]) == "u.arrUID[:]", "AuthoriseNewSession(u.arrUID[:], ainfo)")
		// the authorisation is skipped only for bypass users
		c := ifCond(gs, `bypass`)
		boolFact(g, "authoriseUnlessBypass", c != nil && strings.ReplaceAll(show(c), " ", "") == "!u.bypass", "`if !u.bypass { …AuthoriseNewSession… }`")
	} else {
		unrec(g, "numExistingIsLen", "GetSession not found")
	}
	if dc := fnOf(sv, "dispatchConnection"); dc != nil {
		evs := events(dc)
		ig := idx(evs, 0, "assign", `^sesh, existing, err :?= user\.GetSession\(ci\.SessionId, seshConfig\)$`)
		ifh := idx(evs, ig+1, "call", `^finishHandshake\(`)
		okk := false
		if ig >= 0 && ifh > ig {
			c := evs[ifh].node.(*ast.CallExpr)
			okk = len(c.Args) == 3 && show(c.Args[1]) == "sesh.GetSessionKey()"
		}
		boolFact(g, "replyKeyIsSessionKey", okk, "finishHandshake(conn, sesh.GetSessionKey(), …) with sesh the session returned by GetSession")
		ia := idx(evs, ifh+1, "call", `^sesh\.AddConnection\(preparedConn\)`)
		boolFact(g, "connAddedToJoinedSession", ifh >= 0 && ia > ifh, "sesh.AddConnection(preparedConn) follows on the same sesh")
	} else {
		unrec(g, "replyKeyIsSessionKey", "dispatchConnection not found")
	}
	if fn := fnOf(mx, "Session.GetSessionKey"); fn != nil && fn.Body != nil && len(fn.Body.List) == 1 {
		boolFact(g, "sessionKeyGetter", show(fn.Body.List[0]) == "return sesh.sessionKey", "GetSessionKey returns the obfuscator's sessionKey")
	} else {
		unrec(g, "sessionKeyGetter", "Session.GetSessionKey not found")
	}
}
