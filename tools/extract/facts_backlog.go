package main

import "regexp"

// ---------- nothing between a frame and the pipe but the branches the models know (deep backlogs, frames far ahead) ----------
// Group "Backlog". Round 7: a plausibility window in streamBuffer.Write (a frame more than 65535 ahead refused: seed C02-6) and a
// replacement of the byte pipe's buffer after a large drain (4096 zero bytes ahead of later data: seed C01-8) were invisible to
// the facts extracted so far: the ways out of streamBuffer.Write are counted, and the pipes' buffers are assigned nowhere.

func init() { register(factsBacklog) }

func factsBacklog() {
	g := "Backlog"
	if w := fnOf(mx, "streamBuffer.Write"); w == nil {
		unrec(g, "sbWriteReturns", "streamBuffer.Write not found")
	} else {
		evs := rawEvents(w)
		natFact(g, "sbWriteReturns", count(evs, "return", ``), "return statements of streamBuffer.Write (fast path: closing / stored; stale; drain loop: closing; end)")
		natFact(g, "sbWriteErrorReturns", count(evs, "return", `Errorf|errors\.New|err[A-Z]\w*$`), "returns of streamBuffer.Write that carry an error (the stale-frame refusal only)")
	}
	p := pkgs[mx]
	if p == nil {
		unrec(g, "pipeBufNeverReplaced", "package multiplex not loaded")
		return
	}
	re := regexp.MustCompile(`^\w+\.buf = |^\w+\.buf\.(Reset|Truncate|Grow)\(`)
	n := 0
	for name, fn := range p.funcs {
		if fn.Body == nil {
			continue
		}
		if !regexp.MustCompile(`^(streamBufferedPipe|datagramBufferedPipe)\.`).MatchString(name) {
			continue
		}
		for _, e := range rawEvents(fn) {
			if (e.kind == "assign" || e.kind == "call") && re.MatchString(e.text) {
				n++
			}
		}
	}
	boolFact(g, "pipeBufNeverReplaced", n == 0,
		"no method of streamBufferedPipe / datagramBufferedPipe assigns, resets, truncates or grows the pipe's bytes.Buffer: what was written stays until it is read")
}
