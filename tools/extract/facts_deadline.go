package main

import (
	"go/ast"
	"regexp"
)

// ---------- read deadlines of the two receive pipes (datagramBufferedPipe, streamBufferedPipe) ----------
// Group "Deadline" (Gen.Deadline.*). The wait loop of Read, SetReadDeadline and broadcastAfter of both pipes:
// the order of the tests inside the loop (EOF, deadline, data, arm the timer, wait), the comparison that decides
// "timed out", that a new deadline wakes a parked reader and that the timer is armed for the time left.
// client.RouteUDP sets a read deadline on every stream it serves, so these are part of what C14's datagrams go through.

func init() { register(factsDeadline) }

func factsDeadline() {
	g := "Deadline"
	for _, pp := range []struct{ pfx, typ, rv, empt string }{
		{"dg", "datagramBufferedPipe", "d", `len\(d\.pLens\)`},
		{"sp", "streamBufferedPipe", "p", `p\.buf\.Len\(\)`},
	} {
		rv := regexp.QuoteMeta(pp.rv)
		rd := fnOf(mx, pp.typ+".Read")
		if rd == nil {
			unrec(g, pp.pfx+"TimedOut", pp.typ+".Read not found")
			continue
		}
		evs := rawEvents(rd)
		until := "time.Until(" + pp.rv + ".rDeadline)"
		vars := map[string]string{until: "untilNs"}
		ifUntil := g14if(rd, `time\.Until\(`+rv+`\.rDeadline\)`)
		boolExpr(g, pp.pfx+"TimedOut", "(untilNs : Int)", mx, g14cond(ifUntil), vars)

		iFor := idx(evs, 0, "for", `^$`)
		iEnd := -1
		for i := iFor + 1; iFor >= 0 && i < len(evs); i++ {
			if evs[i].kind == "endfor" && evs[i].depth == evs[iFor].depth {
				iEnd = i
				break
			}
		}
		iEOF := idx(evs, 0, "if", rv+`\.closed`)
		// the local that remembers "a deadline is set" may have any name
		hasVar := "hasRDeadline"
		reHas := regexp.MustCompile(`^(\w+) := !` + rv + `\.rDeadline\.IsZero\(\)$`)
		for _, e := range evs {
			if e.kind == "assign" {
				if m := reHas.FindStringSubmatch(e.text); m != nil {
					hasVar = m[1]
					break
				}
			}
		}
		hv := regexp.QuoteMeta(hasVar)
		iHasAsg := idx(evs, 0, "assign", `^`+hv+` := !`+rv+`\.rDeadline\.IsZero\(\)$`)
		iHas1 := idx(evs, 0, "if", `^`+hv+`$`)
		iUntil := g14evIdx(evs, ifUntil, "if")
		untilReturns := false
		if ifUntil != nil {
			be := g14blockEvents(ifUntil.Body)
			untilReturns = len(be) == 1 && be[0].kind == "return" && be[0].text == "return 0, ErrTimeout"
		}
		iData := -1
		for i, e := range evs {
			if e.kind == "if" && regexp.MustCompile(pp.empt).MatchString(e.text) && !regexp.MustCompile(rv+`\.closed`).MatchString(e.text) {
				if s, ok := e.node.(*ast.IfStmt); ok {
					be := g14blockEvents(s.Body)
					if len(be) == 1 && be[0].kind == "branch" && be[0].text == "break" {
						iData = i
						break
					}
				}
			}
		}
		iHas2 := -1
		if iHas1 >= 0 {
			iHas2 = idx(evs, iHas1+1, "if", `^`+hv+`$`)
		}
		iBA := idx(evs, 0, "call", `^`+rv+`\.broadcastAfter\(time\.Until\(`+rv+`\.rDeadline\)\)$`)
		iWait := idx(evs, 0, "call", `^`+rv+`\.rwCond\.Wait\(\)$`)
		// the timer is armed inside the second `if hasRDeadline` and nowhere else
		armedInside := false
		if iHas2 >= 0 && iBA > iHas2 {
			for i := iHas2 + 1; i < len(evs); i++ {
				if evs[i].kind == "endif" && evs[i].depth == evs[iHas2].depth {
					armedInside = iBA < i && evs[iBA].depth == evs[iHas2].depth+1
					break
				}
			}
		}
		untilInside := false
		if iHas1 >= 0 && iUntil > iHas1 {
			for i := iHas1 + 1; i < len(evs); i++ {
				if evs[i].kind == "endif" && evs[i].depth == evs[iHas1].depth {
					untilInside = iUntil < i
					break
				}
			}
		}
		boolFact(g, pp.pfx+"DeadlineOrder",
			iFor >= 0 && iFor < iEOF && iEOF < iHasAsg && iHasAsg < iHas1 && iHas1 < iUntil && untilInside && untilReturns &&
				iUntil < iData && iData < iHas2 && armedInside && iBA < iWait && iWait < iEnd &&
				count(evs, "if", `^`+hv+`$`) == 2 && count(evs, "call", `broadcastAfter\(`) == 1 &&
				count(evs, "call", `^`+rv+`\.rwCond\.Wait\(\)$`) == 1 && count(evs, "return", `ErrTimeout`) == 1,
			pp.typ+".Read: inside the wait loop, in this order: the `closed && empty` test (io.EOF); `hasRDeadline := !rDeadline.IsZero()`; "+
				"`if hasRDeadline { if time.Until(rDeadline) <= 0 { return 0, ErrTimeout } }`; the has-data test (break); "+
				"`if hasRDeadline { broadcastAfter(time.Until(rDeadline)) }`; rwCond.Wait() — a timeout is decided before the data test and consumes nothing, the timer is armed only on the way to Wait")

		// SetReadDeadline: under the lock, store, wake every parked reader
		if sd := fnOf(mx, pp.typ+".SetReadDeadline"); sd == nil {
			unrec(g, pp.pfx+"SetDeadlineWakes", pp.typ+".SetReadDeadline not found")
		} else {
			e := rawEvents(sd)
			par := ""
			if sd.Type.Params != nil && len(sd.Type.Params.List) == 1 && len(sd.Type.Params.List[0].Names) == 1 {
				par = sd.Type.Params.List[0].Names[0].Name
			}
			iAsg := idx(e, 0, "assign", `^`+rv+`\.rDeadline = `+regexp.QuoteMeta(par)+`$`)
			iB := idx(e, 0, "call", `^`+rv+`\.rwCond\.Broadcast\(\)$`)
			boolFact(g, pp.pfx+"SetDeadlineWakes",
				par != "" && idx(e, 0, "call", `^`+rv+`\.rwCond\.L\.Lock\(\)$`) == 0 && idx(e, 0, "defer", `^`+rv+`\.rwCond\.L\.Unlock\(\)$`) == 1 &&
					iAsg > 1 && iB > iAsg && count(e, "return", ``) == 0,
				pp.typ+".SetReadDeadline: Lock; defer Unlock; rDeadline = t; rwCond.Broadcast() (a parked Read re-evaluates under the new deadline)")
		}
		// broadcastAfter: stop the previous timer, arm one for the given duration whose action is the broadcast
		if ba := fnOf(mx, pp.typ+".broadcastAfter"); ba == nil {
			unrec(g, pp.pfx+"TimerArms", pp.typ+".broadcastAfter not found")
		} else {
			e := rawEvents(ba)
			par := ""
			if ba.Type.Params != nil && len(ba.Type.Params.List) == 1 && len(ba.Type.Params.List[0].Names) == 1 {
				par = ba.Type.Params.List[0].Names[0].Name
			}
			iIf := idx(e, 0, "if", `^`+rv+`\.timeoutTimer != nil$`)
			iStop := idx(e, 0, "call", `^`+rv+`\.timeoutTimer\.Stop\(\)$`)
			iArm := idx(e, 0, "assign", `^`+rv+`\.timeoutTimer = time\.AfterFunc\(`+regexp.QuoteMeta(par)+`, `+rv+`\.rwCond\.Broadcast\)$`)
			boolFact(g, pp.pfx+"TimerArms",
				par != "" && iIf >= 0 && iStop > iIf && iArm > iStop && e[iArm].depth == e[iIf].depth && count(e, "return", ``) == 0,
				pp.typ+".broadcastAfter(d): `if timeoutTimer != nil { timeoutTimer.Stop() }`; timeoutTimer = time.AfterFunc(d, rwCond.Broadcast), unconditionally")
		}
	}
}
