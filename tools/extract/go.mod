module verifextract

go 1.23
