package main

// C07: the key agreement must refuse degenerate peer values. ecdh.GenerateSharedSecret has to return what
// curve25519.X25519 returns, error included (X25519 rejects small-order points, for which the shared secret is
// all-zero whatever the private key is), and both transports have to give up on that error.

func init() { register(factsAuthDH) }

func factsAuthDH() {
	g := "AuthDH"
	fn := fnOf("internal/ecdh", "GenerateSharedSecret")
	if fn == nil {
		unrec(g, "dhReturnsX25519WithError", "ecdh.GenerateSharedSecret not found")
		return
	}
	evs := events(fn)
	iRet := idx(evs, 0, "return", `^return curve25519\.X25519\(priv\[:\], pub\[:\]\)$`)
	boolFact(g, "dhReturnsX25519WithError", iRet >= 0 && count(evs, "return", ``) == 1 && count(evs, "call", `curve25519\.ScalarMult`) == 0,
		"GenerateSharedSecret: single `return curve25519.X25519(priv[:], pub[:])` (value and error)")
	for _, x := range []struct{ name, key string }{{"tlsStopsOnDHError", "TLS.unmarshalClientHello"}, {"wsStopsOnDHError", "WebSocket.unmarshalHidden"}} {
		f := fnOf(sv, x.key)
		if f == nil {
			unrec(g, x.name, x.key+" not found")
			continue
		}
		e := events(f)
		iDH := idx(e, 0, "assign", `^sharedSecret, err = ecdh\.GenerateSharedSecret\(staticPv, ephPub\)$`)
		iIf := idx(e, iDH, "if", `^err != nil$`)
		iCopy := idx(e, 0, "call", `^copy\(fragments\.sharedSecret\[:\], sharedSecret\)`)
		boolFact(g, x.name, iDH >= 0 && iIf == iDH+1 && e[iIf+1].kind == "return" && iCopy > iIf,
			x.key+": the error of GenerateSharedSecret returns before the secret is used")
	}
}
