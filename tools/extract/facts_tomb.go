package main

import "regexp"

// ---------- the stream table's closed-id marks are permanent (C13: a (stream id, seq) pair is never sent twice) ----------
// Group "Tomb". C13's nonce theorem for streams the peer numbered (`c13_nonce_unique_peer_ids`) assumes that the ids of the
// streams an endpoint ever creates are pairwise distinct: `recvDataFromRemote` creates a stream only for an id that is ABSENT
// from `sesh.streams`, and a closed stream leaves a nil entry. That holds only while nothing takes a nil entry out again.
// Facts: every statement of the package that writes `sesh.streams[...]` or deletes from it, by function.

func init() { register(factsTomb) }

func factsTomb() {
	g := "Tomb"
	p := pkgs[mx]
	if p == nil {
		unrec(g, "tombstonesPermanent", "package multiplex not loaded")
		return
	}
	reDel := regexp.MustCompile(`^delete\(\w+\.streams, `)
	reAsg := regexp.MustCompile(`^\w+\.streams\[[^\]]+\] = `)
	reWhole := regexp.MustCompile(`^\w+\.streams = `)
	dels := map[string]int{}
	asgNil := map[string]int{}
	asgVal := map[string]int{}
	whole := 0
	nDel, nAsg := 0, 0
	for name, fn := range p.funcs {
		if fn.Body == nil {
			continue
		}
		for _, e := range rawEvents(fn) {
			switch {
			case e.kind == "call" && reDel.MatchString(e.text):
				dels[name]++
				nDel++
			case e.kind == "assign" && reAsg.MatchString(e.text):
				nAsg++
				if regexp.MustCompile(`= nil$`).MatchString(e.text) {
					asgNil[name]++
				} else {
					asgVal[name]++
				}
			case e.kind == "assign" && reWhole.MatchString(e.text):
				whole++
			}
		}
	}
	// as in the tree: the only delete is the sweep of Session.closeSession (the whole session ends); a Stream value is stored
	// by OpenStream (own ids) and by recvDataFromRemote (an absent id); nil is stored by closeStream and by the refusal branch
	// of recvDataFromRemote
	boolFact(g, "tombstonesPermanent",
		nDel == 1 && dels["Session.closeSession"] == 1 &&
			asgVal["Session.OpenStream"] == 1 && asgVal["Session.recvDataFromRemote"] == 1 && len(asgVal) == 2 &&
			asgNil["Session.closeStream"] == 1 && asgNil["Session.recvDataFromRemote"] == 1 && len(asgNil) == 2 && nAsg == 4 && whole == 0,
		"package multiplex: the only `delete(sesh.streams, …)` is the sweep in Session.closeSession; `sesh.streams[id] = <stream>` only in OpenStream and recvDataFromRemote; `= nil` only in closeStream and recvDataFromRemote's refusal; the map itself is never replaced — a closed id stays marked until the session ends (seed C13-5: a timer that forgets the mark lets a late frame re-create the stream and (id, 0), (id, 1), … go out twice)")
	natFact(g, "streamTableDeletes", nDel, "number of delete(sesh.streams, …) statements in package multiplex")
}
