package main

import (
	"fmt"
	"go/ast"
	"regexp"
	"strings"
)

func init() { register(factsAuth) }

// ---------- C07: who is treated as a Cloak client (server/auth.go, dispatcher.go, state.go, usermanager/localmanager.go) ----------
//
//	Gen.Auth.windowReject ts now       the condition under which decryptClientInfo rejects the timestamp (translated)
//	Gen.Auth.adminGate adminLen uidEq sid
//	Gen.Auth.encMethods                case labels of MakeObfuscator's switch
//	Gen.Auth.creditBadUp/Down, expired, capReached   comparisons of AuthenticateUser / AuthoriseNewSession
//	Gen.Auth.<branch facts of dispatchConnection>
func factsAuth() {
	g := "Auth"
	constFact(g, "timestampTolerance", sv, "timestampTolerance")

	// --- the timestamp window ---
	fn := fnOf(sv, "decryptClientInfo")
	if fn == nil {
		unrec(g, "windowReject", "decryptClientInfo not found")
	} else {
		vars := map[string]string{"serverTime": "now", "serverTime.UTC()": "now"}
		var cond ast.Expr
		for _, s := range fn.Body.List {
			switch s := s.(type) {
			case *ast.AssignStmt:
				if len(s.Lhs) == 1 && len(s.Rhs) == 1 {
					if id, ok := s.Lhs[0].(*ast.Ident); ok {
						r := show(s.Rhs[0])
						if regexp.MustCompile(`^int64\(binary\.BigEndian\.Uint64\(plaintext\[\d+:\d+\]\)\)$`).MatchString(r) {
							vars[id.Name] = "ts"
						} else {
							x := &xlate{p: pkgs[sv], vars: vars}
							if t := x.tm(s.Rhs[0]); x.err == nil {
								vars[id.Name] = t
							}
						}
					}
				}
			case *ast.IfStmt:
				if cond == nil && contains(show(s.Body), "ErrTimestampOutOfWindow") {
					// the rejecting branch must leave the function
					hasRet := false
					for _, b := range s.Body.List {
						if _, ok := b.(*ast.ReturnStmt); ok {
							hasRet = true
						}
					}
					if hasRet && s.Else == nil {
						cond = s.Cond
					}
				}
			}
		}
		boolExpr(g, "windowReject", "(ts now : Int)", sv, cond, vars)
		evs := events(fn)
		iOpen := idx(evs, 0, "call", `^common\.AESGCMDecrypt\(`)
		iIfErr := idx(evs, iOpen, "if", `^err != nil$`)
		iWin := idx(evs, 0, "if", `After|Before`)
		iSid := idx(evs, 0, "assign", `^info\.SessionId = `)
		boolFact(g, "openBeforeWindow", iOpen >= 0 && iIfErr > iOpen && countIn(evs, iIfErr, iWin, "return", ``) >= 1 && iWin > iIfErr && iSid > iWin,
			"decryptClientInfo: AESGCMDecrypt; if err return; window test; session id only after the window test")
	}

	// --- MakeObfuscator: which encryption method bytes are served ---
	fn = fnOf(mx, "MakeObfuscator")
	if fn == nil {
		unrec(g, "encMethods", "MakeObfuscator not found")
	} else {
		var sw *ast.SwitchStmt
		ast.Inspect(fn.Body, func(n ast.Node) bool {
			if s, ok := n.(*ast.SwitchStmt); ok && sw == nil && s.Tag != nil && show(s.Tag) == "encryptionMethod" {
				sw = s
			}
			return true
		})
		if sw == nil {
			unrec(g, "encMethods", "switch encryptionMethod not found")
		} else {
			var vals []string
			okAll, hasDefaultErr := true, false
			for _, c := range sw.Body.List {
				cc := c.(*ast.CaseClause)
				if cc.List == nil {
					hasDefaultErr = contains(show(cc), "return o, fmt.Errorf") || contains(show(cc), "return o, errors.New")
					continue
				}
				for _, e := range cc.List {
					v, err := pkgs[mx].evalConst(e, 0)
					if err != nil {
						okAll = false
					}
					vals = append(vals, fmt.Sprint(v))
				}
			}
			if !okAll {
				unrec(g, "encMethods", "non-constant case label")
			} else {
				emit(g, "encMethods", "List Int", "["+strings.Join(vals, ", ")+"]", "case labels of `switch encryptionMethod` in MakeObfuscator")
				boolFact(g, "encDefaultIsError", hasDefaultErr, "default: returns an error")
			}
		}
	}

	// --- dispatchConnection ---
	fn = fnOf(sv, "dispatchConnection")
	if fn == nil {
		unrec(g, "adminGate", "dispatchConnection not found")
	} else {
		vars := map[string]string{"len(sta.AdminUID)": "adminLen", "bytes.Equal(ci.UID, sta.AdminUID)": "uidEq",
			"bytes.Equal(sta.AdminUID, ci.UID)": "uidEq", "ci.SessionId": "sid"}
		gate := ifCond(fn, `AdminUID`)
		boolExpr(g, "adminGate", "(adminLen : Int) (uidEq : Bool) (sid : Int)", sv, gate, vars)

		evs := events(fn)
		iRead := idx(evs, 0, "call", `^readFirstPacket\(`)
		iAuth := idx(evs, 0, "call", `^AuthFirstPacket\(data, transport, sta\)`)
		iObf := idx(evs, 0, "call", `^mux\.MakeObfuscator\(ci\.EncryptionMethod, sessionKey\)`)
		iGate := idx(evs, 0, "if", `AdminUID`)
		iGateEnd := matchingEnd(evs, iGate)
		iProxy := idx(evs, iGateEnd, "if", `^_, ok := sta\.ProxyBook\[.*\]; !ok$|^!ok$`)
		iByp := idx(evs, 0, "if", `^sta\.IsBypass\(ci\.UID\)$`)
		iBypEnd := matchingEnd(evs, iByp)
		iUserErr := idx(evs, iBypEnd, "if", `^err != nil$`)
		iGetS := idx(evs, 0, "call", `^user\.GetSession\(ci\.SessionId, seshConfig\)`)
		iGetSErr := idx(evs, iGetS, "if", `^err != nil$`)
		iFin2 := idx(evs, iGetS, "call", `^finishHandshake\(conn, sesh\.GetSessionKey\(\), sta\.WorldState\.Rand\)`)
		order := iRead >= 0 && iRead < iAuth && iAuth < iObf && iObf < iGate && iGate < iGateEnd && iGateEnd < iProxy &&
			iProxy < iByp && iByp < iUserErr && iUserErr < iGetS && iGetS < iGetSErr && iGetSErr < iFin2
		boolFact(g, "dispatchOrder", order, "readFirstPacket < AuthFirstPacket < MakeObfuscator < admin gate < ProxyBook < IsBypass/GetUser < GetSession < finishHandshake")

		// a rejecting branch: `if <cond> { …; goWeb(); return }` at depth 0 with no finishHandshake inside
		rejects := func(iIf int) bool {
			if iIf < 0 || evs[iIf].depth != 0 {
				return false
			}
			e := matchingEnd(evs, iIf)
			if e < 0 {
				return false
			}
			iWeb := idx(evs[:e], iIf, "call", `^goWeb\(\)$`)
			iRet := idx(evs[:e], iIf, "return", `^return$`)
			return iWeb > iIf && iRet > iWeb && countIn(evs, iIf, e, "call", `finishHandshake`) == 0 && countIn(evs, iIf, e, "else", ``) == 0
		}
		iAuthErr := idx(evs, iAuth, "if", `^err != nil$`)
		iObfErr := idx(evs, iObf, "if", `^err != nil$`)
		boolFact(g, "authErrWeb", iAuthErr > iAuth && iAuthErr < iObf && rejects(iAuthErr), "AuthFirstPacket error → goWeb(); return")
		boolFact(g, "obfErrWeb", iObfErr > iObf && iObfErr < iGate && rejects(iObfErr), "MakeObfuscator error → goWeb(); return")
		// the lookup key: the name as received, or its lower-case form (parseProxyBook stores the names lower-cased)
		reKeyRaw := regexp.MustCompile(`^_, ok := sta\.ProxyBook\[ci\.ProxyMethod\]$`)
		reKeyLow := regexp.MustCompile(`^_, ok := sta\.ProxyBook\[strings\.ToLower\(ci\.ProxyMethod\)\]$`)
		keyText := ""
		if iProxy > 0 && evs[iProxy-1].kind == "assign" {
			keyText = evs[iProxy-1].text
		}
		boolFact(g, "proxyMissWeb", rejects(iProxy) && (reKeyRaw.MatchString(keyText) || reKeyLow.MatchString(keyText)), "method not in ProxyBook → goWeb(); return")
		if reKeyRaw.MatchString(keyText) || reKeyLow.MatchString(keyText) {
			boolFact(g, "proxyLookupLowercases", reKeyLow.MatchString(keyText), "the ProxyBook lookup key is strings.ToLower(ci.ProxyMethod) (false: the name as received)")
		} else {
			unrec(g, "proxyLookupLowercases", "ProxyBook lookup not recognised")
		}
		// serveSession must find the address under the same key, and the book's own keys are lower-cased at load
		ssKey := ""
		if ss := fnOf(sv, "serveSession"); ss != nil {
			if rhs := assignRHS(ss, `^proxyAddr$`); rhs != nil {
				ssKey = show(rhs)
			}
		}
		sameKey := (reKeyRaw.MatchString(keyText) && ssKey == "sta.ProxyBook[ci.ProxyMethod]") || (reKeyLow.MatchString(keyText) && ssKey == "sta.ProxyBook[strings.ToLower(ci.ProxyMethod)]")
		pbLower := false
		if pb := fnOf(sv, "parseProxyBook"); pb != nil {
			pbLower = strings.Contains(show(pb.Body), "name = strings.ToLower(name)") && strings.Count(show(pb.Body), "proxyBook[name] = addr") == 2
		}
		boolFact(g, "proxyBookLowercasedAtLoad", pbLower, "parseProxyBook stores every name lower-cased (name = strings.ToLower(name))")
		boolFact(g, "proxyLookupSameKeyInServe", sameKey, "serveSession looks the proxy address up under the same key as the admission test")
		boolFact(g, "userErrWeb", rejects(iUserErr), "GetBypassUser/GetUser error → goWeb(); return")
		// the bypass split
		okSplit := false
		if iByp >= 0 && iBypEnd > iByp {
			iElse := idx(evs[:iBypEnd], iByp, "else", ``)
			okSplit = iElse > iByp && countIn(evs, iByp, iElse, "call", `^sta\.Panel\.GetBypassUser\(ci\.UID\)$`) == 1 &&
				countIn(evs, iElse, iBypEnd, "call", `^sta\.Panel\.GetUser\(ci\.UID\)$`) == 1
		}
		boolFact(g, "bypassSplit", okSplit, "if IsBypass(uid) GetBypassUser else GetUser")
		// what happens when GetSession fails (session cap reached, or the cached active user's credit / expiry no longer allows a new session)
		if iGetSErr > 0 {
			e := matchingEnd(evs, iGetSErr)
			iWeb := idx(evs[:e], iGetSErr, "call", `^goWeb\(\)$`)
			iRet := idx(evs[:e], iGetSErr, "return", `^return$`)
			boolFact(g, "getSessionErrGoesWeb", iWeb > iGetSErr && iRet > iWeb && countIn(evs, iGetSErr, e, "call", `^conn\.`) == 0,
				"GetSession error branch: …; goWeb(); return (the refused connection is handled as web traffic)")
			boolFact(g, "getSessionErrReturns", countIn(evs, iGetSErr, e, "return", ``) == 1 && countIn(evs, iGetSErr, e, "call", `finishHandshake`) == 0, "GetSession error branch returns without a reply")
		} else {
			unrec(g, "getSessionErrGoesWeb", "GetSession error branch not found")
		}
		// replies: exactly two finishHandshake calls, one inside the admin gate, one after GetSession; none earlier
		nFin := count(evs, "call", `^finishHandshake\(`)
		boolFact(g, "replyOnlyAfterChecks", nFin == 2 && countIn(evs, 0, iGate, "call", `^finishHandshake\(`) == 0 &&
			countIn(evs, iGate, iGateEnd, "call", `^finishHandshake\(`) == 1 && iFin2 > iGetSErr,
			"finishHandshake is called only inside the admin gate and after GetSession succeeded")
		// the admin API is reachable only inside the gate
		nAPI := 0
		for _, f := range pkgs[sv].funcs {
			nAPI += len(allCalls(f.Body, `APIRouterOf$`))
		}
		boolFact(g, "apiOnlyInsideGate", nAPI == 1 && countIn(evs, iGate, iGateEnd, "call", `usermanager\.APIRouterOf\(sta\.Panel\.Manager\)`) >= 1 &&
			countIn(evs, iGate, iGateEnd, "return", ``) >= 1,
			"the only APIRouterOf call of package server is inside the admin gate, which returns")
	}

	// --- IsBypass ---
	fn = fnOf(sv, "State.IsBypass")
	if fn == nil {
		unrec(g, "isBypassLookup", "State.IsBypass not found")
	} else {
		evs := events(fn)
		iCopy := idx(evs, 0, "call", `^copy\(arrUID\[:\], UID\)$`)
		iLook := idx(evs, 0, "assign", `^_, exist :?= sta\.BypassUID\[arrUID\]$`)
		iRet := idx(evs, 0, "return", `^return exist$`)
		boolFact(g, "isBypassLookup", iCopy >= 0 && iLook > iCopy && iRet > iLook, "IsBypass = membership of the 16-byte UID in sta.BypassUID")
	}

	// --- InitState: the key of every BypassUID / AdminUID entry is built in a FRESH 16-byte array (zero-padded entry), so that
	// an entry shorter than 16 bytes does not inherit bytes of the previous one ---
	if is := fnOf(sv, "InitState"); is == nil {
		unrec(g, "bypassKeyFreshPerEntry", "InitState not found")
	} else {
		fresh := true
		stores := 0
		// every `sta.BypassUID[arrUID] = struct{}{}` must be preceded, in its own innermost block, by `var arrUID [16]byte` and one copy
		ast.Inspect(is.Body, func(n ast.Node) bool {
			blk, ok := n.(*ast.BlockStmt)
			if !ok {
				return true
			}
			for i, st := range blk.List {
				as, isAs := st.(*ast.AssignStmt)
				if !isAs || len(as.Lhs) != 1 || !strings.HasPrefix(show(as.Lhs[0]), "sta.BypassUID[") {
					continue
				}
				stores++
				key := strings.TrimSuffix(strings.TrimPrefix(show(as.Lhs[0]), "sta.BypassUID["), "]")
				decl, copies := false, 0
				for _, prev := range blk.List[:i] {
					if ds, isDecl := prev.(*ast.DeclStmt); isDecl && strings.Contains(show(ds), "var "+key+" [16]byte") {
						decl, copies = true, 0
					}
					if es, isEs := prev.(*ast.ExprStmt); isEs && strings.HasPrefix(show(es.X), "copy("+key+"[:], ") {
						copies++
					}
				}
				if !decl || copies != 1 {
					fresh = false
				}
			}
			return true
		})
		boolFact(g, "bypassKeyFreshPerEntry", fresh && stores >= 1, "InitState: each sta.BypassUID[key] store uses a key array declared (zeroed) in the same block and filled by one copy")
	}

	// --- user database comparisons ---
	for _, spec := range []struct{ fn, pre string }{{"localManager.AuthenticateUser", "authn"}, {"localManager.AuthoriseNewSession", "authz"}} {
		fn = fnOf(um, spec.fn)
		if fn == nil {
			unrec(g, spec.pre+"UpBad", spec.fn+" not found")
			continue
		}
		ifBodyHas := func(sub string) ast.Expr {
			var c ast.Expr
			ast.Inspect(fn.Body, func(n ast.Node) bool {
				if s, ok := n.(*ast.IfStmt); ok && c == nil && contains(show(s.Body), sub) && contains(show(s.Body), "return") && !contains(show(s.Cond), "nil") {
					c = s.Cond
				}
				return true
			})
			return c
		}
		boolExpr(g, spec.pre+"UpBad", "(c : Int)", um, ifBodyHas("ErrNoUpCredit"), map[string]string{"upCredit": "c"})
		boolExpr(g, spec.pre+"DownBad", "(c : Int)", um, ifBodyHas("ErrNoDownCredit"), map[string]string{"downCredit": "c"})
		boolExpr(g, spec.pre+"Expired", "(expiry nowSec : Int)", um, ifBodyHas("ErrUserExpired"),
			map[string]string{"expiryTime": "expiry", "manager.world.Now().Unix()": "nowSec", "manager.world.Now().UTC().Unix()": "nowSec"})
		if spec.pre == "authz" {
			boolExpr(g, "authzCapReached", "(n cap : Int)", um, ifBodyHas("ErrSessionsCapReached"),
				map[string]string{"ainfo.NumExistingSessions": "n", "sessionsCap": "cap"})
		}
		// order: missing user first, then up, down, expiry (all three must pass)
		evs := events(fn)
		hasNF := contains(show(fn.Body), "if bucket == nil { return ErrUserNotFound }")
		iU := idx(evs, 0, "return", `ErrNoUpCredit`)
		iD := idx(evs, 0, "return", `ErrNoDownCredit`)
		iE := idx(evs, 0, "return", `ErrUserExpired`)
		boolFact(g, spec.pre+"Order", hasNF && iU >= 0 && iD > iU && iE > iD, spec.fn+": not-found, up credit, down credit, expiry are all tested")
	}
}

// matchingEnd returns the index of the endif/endfor/endswitch closing the block opened at evs[i] (same node), -1 if none.
func matchingEnd(evs []ev, i int) int {
	if i < 0 || i >= len(evs) {
		return -1
	}
	for j := i + 1; j < len(evs); j++ {
		if evs[j].node == evs[i].node && strings.HasPrefix(evs[j].kind, "end") {
			return j
		}
	}
	return -1
}
