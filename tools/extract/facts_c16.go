package main

// C16 — facts about usage accounting: where bytes are metered (switchboard.send / deplex), how the valve is
// collected (Nullify = two atomic swaps), the direction chain rx→up / tx→down through updateUsageQueue*, the queue,
// commitUpdate and UploadStatus, which accesses are made under usageUpdateQueueM, and UploadStatus' arithmetic.

import (
	"go/ast"
	"strings"
)

func init() { register(factsC16) }

func nospace(s string) string { return strings.ReplaceAll(s, " ", "") }

func factsC16() {
	g := "Acct"
	// ---- metering points
	if fn := fnOf(mx, "switchboard.send"); fn != nil {
		evs := events(fn)
		iw := idx(evs, 0, "call", `^sb\.valve\.txWait\(len\(data\)\)$`)
		okPro, _ := sendPrologue(fn)
		boolFact(g, "txWaitBeforeWrite", iw >= 0 && okPro, "send: begins with the single unconditional sb.valve.txWait(len(data)), bare or inside the one-at-a-time turnstile")
		nWrite := count(evs, "call", `^conn\.Write\(data\)$`)
		nAssign := count(evs, "assign", `^n, err = conn\.Write\(data\)$`)
		iAdd := idx(evs, 0, "call", `^sb\.valve\.AddTx\(int64\(n\)\)$`)
		last := -1
		for i, e := range evs {
			if e.kind == "call" && e.text == "conn.Write(data)" {
				last = i
			}
		}
		// every Write is followed by `if err != nil { …; return n, err }` so AddTx is reached only after a successful Write
		guarded := 0
		for i, e := range evs {
			if e.kind == "assign" && e.text == "n, err = conn.Write(data)" {
				if i+1 < len(evs) && evs[i+1].kind == "if" && evs[i+1].text == "err != nil" {
					for j := i + 2; j < len(evs) && evs[j].kind != "endif"; j++ {
						if evs[j].kind == "return" && evs[j].depth == evs[i+1].depth+1 {
							guarded++
							break
						}
					}
				}
			}
		}
		boolFact(g, "addTxAfterWrite", nWrite >= 1 && nWrite == nAssign && guarded == nWrite && iAdd > last && iAdd >= 0 && evs[iAdd].depth == 0 &&
			count(evs, "call", `AddTx\(`) == 1, "send: every conn.Write result goes to n, a failed Write returns, then exactly one sb.valve.AddTx(int64(n))")
	} else {
		unrec(g, "addTxAfterWrite", "switchboard.send not found")
	}
	if fn := fnOf(mx, "switchboard.deplex"); fn != nil {
		evs := events(fn)
		ir := idx(evs, 0, "assign", `^n, err :?= conn\.Read\(buf\)$`)
		ok := ir >= 0 && ir+2 < len(evs) && evs[ir+1].kind == "call" && evs[ir+1].text == "sb.valve.rxWait(n)" &&
			evs[ir+2].kind == "call" && evs[ir+2].text == "sb.valve.AddRx(int64(n))" && evs[ir+2].depth == evs[ir].depth &&
			count(evs, "call", `AddRx\(`) == 1 && count(evs, "call", `conn\.Read\(`) == 1
		boolFact(g, "addRxEveryRead", ok, "deplex: n, err := conn.Read(buf); rxWait(n); AddRx(int64(n)) — before the error test, for every Read")
	} else {
		unrec(g, "addRxEveryRead", "switchboard.deplex not found")
	}
	// ---- the valve
	okv := true
	for _, f := range [][3]string{{"LimitedValve.AddRx", "atomic.AddInt64(v.rx, n)", ""}, {"LimitedValve.AddTx", "atomic.AddInt64(v.tx, n)", ""}} {
		fn := fnOf(mx, f[0])
		if fn == nil || fn.Body == nil || len(fn.Body.List) != 1 || show(fn.Body.List[0]) != f[1] {
			okv = false
		}
	}
	boolFact(g, "valveAdds", okv, "AddRx adds n to v.rx, AddTx adds n to v.tx (atomic)")
	if fn := fnOf(mx, "LimitedValve.Nullify"); fn != nil && fn.Body != nil && len(fn.Body.List) == 3 {
		a, b, c := show(fn.Body.List[0]), show(fn.Body.List[1]), show(fn.Body.List[2])
		boolFact(g, "nullifyIsSwapRxTx", a == "rx := atomic.SwapInt64(v.rx, 0)" && b == "tx := atomic.SwapInt64(v.tx, 0)" && c == "return rx, tx",
			"Nullify: rx := SwapInt64(v.rx, 0); tx := SwapInt64(v.tx, 0); return rx, tx")
	} else {
		unrec(g, "nullifyIsSwapRxTx", "LimitedValve.Nullify not recognised")
	}
	// ---- direction chain
	chain := func(key string) bool {
		fn := fnOf(sv, key)
		if fn == nil {
			return false
		}
		evs := events(fn)
		in := idx(evs, 0, "assign", `^upIncured, downIncured := user\.valve\.Nullify\(\)$`)
		a := idx(evs, in+1, "call", `^atomic\.AddInt64\(usage\.up, upIncured\)$`)
		b := idx(evs, in+1, "call", `^atomic\.AddInt64\(usage\.down, downIncured\)$`)
		c := idx(evs, in+1, "assign", `^usage = &usagePair\{&upIncured, &downIncured\}$`)
		d := idx(evs, c+1, "assign", `^panel\.usageUpdateQueue\[user\.arrUID\] = usage$`)
		e := idx(evs, in+1, "if", `^usage, ok := panel\.usageUpdateQueue\[user\.arrUID\]; ok$|^ok$`)
		return in >= 0 && a > in && b > in && c > in && d > c && e > in && count(evs, "call", `Nullify\(\)`) == 1
	}
	c1, c2 := chain("userPanel.updateUsageQueue"), chain("userPanel.updateUsageQueueForOne")
	boolFact(g, "collectChain", c1 && c2, "updateUsageQueue*: (up, down) := Nullify(); existing entry: AddInt64(usage.up, up), AddInt64(usage.down, down); else queue[uid] = &usagePair{&up, &down}")
	pairOrder := false
	if p := pkgs[sv]; p != nil {
		for _, f := range p.files {
			ast.Inspect(f, func(n ast.Node) bool {
				if ts, ok := n.(*ast.TypeSpec); ok && ts.Name.Name == "usagePair" {
					if st, ok := ts.Type.(*ast.StructType); ok && len(st.Fields.List) == 2 {
						pairOrder = len(st.Fields.List[0].Names) == 1 && st.Fields.List[0].Names[0].Name == "up" &&
							len(st.Fields.List[1].Names) == 1 && st.Fields.List[1].Names[0].Name == "down"
					}
				}
				return true
			})
		}
	}
	boolFact(g, "usagePairOrder", pairOrder, "type usagePair struct { up; down }")
	statusOK := false
	if fn := fnOf(sv, "userPanel.commitUpdate"); fn != nil {
		up, down, uid := false, false, false
		ast.Inspect(fn.Body, func(n ast.Node) bool {
			if kv, ok := n.(*ast.KeyValueExpr); ok {
				switch show(kv.Key) {
				case "UpUsage":
					up = show(kv.Value) == "*usage.up"
				case "DownUsage":
					down = show(kv.Value) == "*usage.down"
				case "UID":
					uid = show(kv.Value) == "arrUID[:]"
				}
			}
			return true
		})
		rng := false
		ast.Inspect(fn.Body, func(n ast.Node) bool {
			if rs, ok := n.(*ast.RangeStmt); ok && show(rs.X) == "panel.usageUpdateQueue" && show(rs.Key) == "arrUID" && show(rs.Value) == "usage" {
				rng = true
			}
			return true
		})
		statusOK = up && down && uid && rng
	}
	boolFact(g, "statusFromQueue", statusOK, "commitUpdate: for arrUID, usage := range queue → StatusUpdate{UID: arrUID[:], UpUsage: *usage.up, DownUsage: *usage.down}")

	// ---- UploadStatus
	us := fnOf(um, "localManager.UploadStatus")
	if us != nil {
		numExpr(g, "uploadNewUp", "(old usage : Int)", um, assignRHS(us, `^newUp$`), map[string]string{"oldUp": "old", "status.UpUsage": "usage"})
		numExpr(g, "uploadNewDown", "(old usage : Int)", um, assignRHS(us, `^newDown$`), map[string]string{"oldDown": "old", "status.DownUsage": "usage"})
		boolExpr(g, "uploadUpExhausted", "(newCredit : Int)", um, ifCond(us, `^newUp `), map[string]string{"newUp": "newCredit"})
		boolExpr(g, "uploadDownExhausted", "(newCredit : Int)", um, ifCond(us, `^newDown `), map[string]string{"newDown": "newCredit"})
		boolExpr(g, "uploadExpired", "(now expiry : Int)", um, ifCond(us, `expiry`), map[string]string{"manager.world.Now().Unix()": "now", "expiry": "expiry"})
		outer := events(us)
		var evs []ev
		ast.Inspect(us.Body, func(n ast.Node) bool { // the body of the db.Update closure
			if fl, ok := n.(*ast.FuncLit); ok && evs == nil {
				walkStmts(fl.Body.List, 0, &evs)
				return false
			}
			return true
		})
		ru := nospace(show(assignRHS(us, `^oldUp$`))) == `int64(u64(bucket.Get([]byte("UpCredit"))))`
		rd := nospace(show(assignRHS(us, `^oldDown$`))) == `int64(u64(bucket.Get([]byte("DownCredit"))))`
		re := nospace(show(assignRHS(us, `^expiry$`))) == `int64(u64(bucket.Get([]byte("ExpiryTime"))))`
		pu := idx(evs, 0, "call", `^bucket\.Put\(\[\]byte\("UpCredit"\), i64ToB\(newUp\)\)$`)
		pd := idx(evs, 0, "call", `^bucket\.Put\(\[\]byte\("DownCredit"\), i64ToB\(newDown\)\)$`)
		boolFact(g, "uploadReadsWrites", ru && rd && re && pu >= 0 && pd >= 0 && evs[pu].depth == evs[pd].depth &&
			count(evs, "call", `^bucket\.Put\(`) == 2, "UploadStatus reads Up/DownCredit and ExpiryTime, writes newUp to UpCredit and newDown to DownCredit unconditionally, once each")
		// every verdict is a TERMINATE response for status.UID; a missing bucket gives one and skips the arithmetic
		nTerm := 0
		ast.Inspect(us.Body, func(n ast.Node) bool {
			if cl, ok := n.(*ast.CompositeLit); ok && show(cl.Type) == "StatusResponse" && len(cl.Elts) == 3 &&
				show(cl.Elts[0]) == "status.UID" && show(cl.Elts[1]) == "TERMINATE" {
				nTerm++
			}
			return true
		})
		im := idx(evs, 0, "if", `^bucket == nil$`)
		ic := idx(evs, im+1, "branch", `^continue$`)
		iapp := count(evs, "assign", `^responses = append\(responses, resp\)$`)
		boolFact(g, "uploadVerdicts", nTerm == 4 && iapp == 4 && im >= 0 && ic > im && ic < idx(evs, 0, "assign", `^oldUp :?= `),
			"UploadStatus: four TERMINATE verdicts (no bucket → continue; newUp; newDown; expiry), each appended")
		boolFact(g, "uploadOneTransaction", count(outer, "call", `^manager\.db\.Update\(`) == 1 && count(outer, "call", `^manager\.db\.View\(`) == 0,
			"the whole upload is one db.Update transaction")
	} else {
		unrec(g, "uploadNewUp", "UploadStatus not found")
	}
	if fn := fnOf(um, "i64ToB"); fn != nil {
		a := callArgs(fn, `PutUint64$`)
		boolFact(g, "creditCodec", len(a) == 2 && show(a[1]) == "uint64(value)", "i64ToB stores uint64(value) big-endian; read back as int64(u64(·))")
	}

	// ---- lock scopes
	classes := map[string]int{"usageUpdateQueueM": 0, "activeUsersM": 1, "sessionsM": 2}
	mk := func() *lockWalker {
		w := &lockWalker{dir: sv, classes: classes, listed: map[string]string{}, stack: map[string]bool{}, cache: map[string][][]lockEv{}}
		w.markerOf = func(n ast.Node) (int, bool) {
			if x, ok := n.(*ast.SelectorExpr); ok && x.Sel.Name == "usageUpdateQueue" {
				return 100, true
			}
			return 0, false
		}
		return w
	}
	allOK, anyAll := true, true
	for _, f := range []string{"userPanel.updateUsageQueue", "userPanel.updateUsageQueueForOne", "userPanel.commitUpdate"} {
		o, a := oneSection(mk().fnPrograms(f), 0)
		allOK = allOK && o
		anyAll = anyAll && a
	}
	if !anyAll {
		unrec(g, "queueUnderLock", "queue accesses not found")
	} else {
		boolFact(g, "queueUnderLock", allOK, "every access to usageUpdateQueue in updateUsageQueue, updateUsageQueueForOne and commitUpdate lies in ONE usageUpdateQueueM section of that function (so commitUpdate's snapshot loop and its reset share a section)")
	}
	// no other function of the package touches the queue
	others := 0
	if p := pkgs[sv]; p != nil {
		for k, fn := range p.funcs {
			if k == "userPanel.updateUsageQueue" || k == "userPanel.updateUsageQueueForOne" || k == "userPanel.commitUpdate" || k == "MakeUserPanel" {
				continue
			}
			ast.Inspect(fn, func(n ast.Node) bool {
				if x, ok := n.(*ast.SelectorExpr); ok && x.Sel.Name == "usageUpdateQueue" {
					others++
				}
				return true
			})
		}
	}
	natFact(g, "queueAccessElsewhere", others, "mentions of usageUpdateQueue outside the three functions (and the constructor)")
	// collection of all users: iteration over activeUsers, Nullify and the queue update all inside both locks
	w := &lockWalker{dir: sv, classes: classes, listed: map[string]string{}, stack: map[string]bool{}, cache: map[string][][]lockEv{}}
	w.markerOf = func(n ast.Node) (int, bool) {
		switch x := n.(type) {
		case *ast.SelectorExpr:
			if x.Sel.Name == "usageUpdateQueue" || x.Sel.Name == "activeUsers" {
				return 100, true
			}
		case *ast.CallExpr:
			if strings.HasSuffix(show(x.Fun), ".Nullify") {
				return 101, true
			}
		}
		return 0, false
	}
	pr := w.fnPrograms("userPanel.updateUsageQueue")
	oq, aq := oneSection(pr, 0)
	oa, _ := oneSection(pr, 1)
	if !aq {
		unrec(g, "collectUnderBothLocks", "updateUsageQueue: accesses not found")
	} else {
		boolFact(g, "collectUnderBothLocks", oq && oa, "updateUsageQueue: the walk over activeUsers, every Nullify and every queue update lie inside one activeUsersM section and one usageUpdateQueueM section")
	}
	// ---- the response loop terminates, and termination collects before it closes and deletes
	if fn := fnOf(sv, "userPanel.commitUpdate"); fn != nil {
		evs := events(fn)
		iu := idx(evs, 0, "assign", `^responses, err := panel\.Manager\.UploadStatus\(statuses\)$`)
		ic := idx(evs, iu+1, "case", `^usermanager\.TERMINATE$`)
		il := idx(evs, ic+1, "assign", `^user := panel\.activeUsers\[arrUID\]$`)
		it := idx(evs, il+1, "call", `^panel\.TerminateActiveUser\(user, resp\.Message\)$`)
		icp := idx(evs, iu+1, "call", `^copy\(arrUID\[:\], resp\.UID\)$`)
		boolFact(g, "commitTerminates", iu >= 0 && icp > iu && ic > icp && il > ic && it > il && evs[it-1].kind == "if" && evs[it-1].text == "user != nil",
			"commitUpdate: for each response, case TERMINATE: user := activeUsers[resp.UID]; if user != nil { TerminateActiveUser(user, …) }")
	}
	if fn := fnOf(sv, "userPanel.TerminateActiveUser"); fn != nil {
		evs := events(fn)
		i1 := idx(evs, 0, "call", `^panel\.updateUsageQueueForOne\(user\)$`)
		i2 := idx(evs, i1+1, "call", `^user\.closeAllSessions\(reason\)$`)
		i3 := idx(evs, i2+1, "call", `^delete\(panel\.activeUsers, user\.arrUID\)$`)
		boolFact(g, "terminateOrder", i1 >= 0 && i2 > i1 && i3 > i2 && evs[i1].depth == 0 && evs[i2].depth == 0,
			"TerminateActiveUser: updateUsageQueueForOne(user); closeAllSessions; delete from activeUsers")
	}
	if fn := fnOf(sv, "ActiveUser.closeAllSessions"); fn != nil {
		evs := events(fn)
		ir := idx(evs, 0, "for", `^range u\.sessions$`)
		ic := idx(evs, ir+1, "call", `^sesh\.Close\(\)$`)
		id := idx(evs, ir+1, "call", `^delete\(u\.sessions, sessionID\)$`)
		boolFact(g, "closeAllClosesEvery", ir >= 0 && ic > ir && id > ir && evs[ic].depth == evs[ir].depth+1 && evs[id].depth == evs[ir].depth+1,
			"closeAllSessions: for every session: sesh.Close(); delete from the table")
	}
	// the valve a session meters into is its user's
	if fn := fnOf(sv, "userPanel.GetUser"); fn != nil {
		evs := events(fn)
		iv := idx(evs, 0, "assign", `^valve := mux\.MakeValve\(upRate, downRate\)$`)
		boolFact(g, "freshValvePerRecord", iv >= 0, "GetUser: each new ActiveUser gets a fresh LimitedValve")
	}
}
