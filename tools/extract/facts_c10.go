package main

// C10: facts of internal/server/TLSAux.go (composeServerHello, composeReply, addRecordLayer), internal/common/tls.go
// (AddRecordLayer, NewTLSConn, TLSConn.Write), internal/client/TLS.go, internal/server/TLS.go -> Gen/Wire.lean.

import (
	"fmt"
	"go/ast"
	"go/token"
	"strings"
)

func init() { register(factsWire) }

// c10bytes evaluates a []byte{...} composite literal of constants.
func c10bytes(p *pkgInfo, e ast.Expr) ([]int64, bool) {
	cl, ok := e.(*ast.CompositeLit)
	if !ok {
		return nil, false
	}
	if at, ok := cl.Type.(*ast.ArrayType); !ok || show(at.Elt) != "byte" || at.Len != nil {
		return nil, false
	}
	var out []int64
	for _, el := range cl.Elts {
		v, err := p.evalConst(el, 0)
		if err != nil || v < 0 || v > 255 {
			return nil, false
		}
		out = append(out, v)
	}
	return out, true
}

// c10foldRHS replaces a constant right-hand side of a comparison by its value (1<<14+256 -> 16640)
func c10foldRHS(p *pkgInfo, e ast.Expr) ast.Expr {
	b, ok := e.(*ast.BinaryExpr)
	if !ok {
		return e
	}
	if v, err := p.evalConst(b.Y, 0); err == nil {
		return &ast.BinaryExpr{X: b.X, Op: b.Op, Y: &ast.BasicLit{Kind: token.INT, Value: fmt.Sprint(v)}}
	}
	return e
}

func c10lean(bs []int64) string {
	s := make([]string, len(bs))
	for i, b := range bs {
		s[i] = fmt.Sprintf("0x%02x", b)
	}
	return "[" + strings.Join(s, ", ") + "]"
}

func factsWire() {
	g := "Wire"
	cp := pkgs[cm]
	for _, c := range [][2]string{{"versionTLS11", "VersionTLS11"}, {"versionTLS13", "VersionTLS13"}, {"recordLayerLength", "recordLayerLength"},
		{"handshakeType", "Handshake"}, {"applicationDataType", "ApplicationData"}} {
		constFact(g, c[0], cm, c[1])
	}
	constFact(g, "appDataMaxLengthClient", cl, "appDataMaxLength")
	constFact(g, "appDataMaxLengthServer", sv, "appDataMaxLength")
	factsComposeServerHello(g)
	factsComposeReply(g)
	factsTLSConnWrite(g, cp)
	factsClientHelloSend(g)
}

func factsComposeServerHello(g string) {
	p := pkgs[sv]
	fn := fnOf(sv, "composeServerHello")
	if fn == nil {
		unrec(g, "shPieces", "composeServerHello not found")
		return
	}
	// parameters: sessionId, nonce, encryptedSessionKeyWithTag
	params := []string{}
	for _, f := range fn.Type.Params.List {
		for _, n := range f.Names {
			params = append(params, n.Name)
		}
	}
	if len(params) != 3 {
		unrec(g, "shPieces", "composeServerHello does not take three parameters")
		return
	}
	sidP, nonceP, encP := params[0], params[1], params[2]
	pieces := map[int]string{}
	n := -1
	ok := true
	var ksHdr []int64
	ast.Inspect(fn.Body, func(node ast.Node) bool {
		switch s := node.(type) {
		case *ast.DeclStmt:
			// var serverHello [11][]byte
			if gd, isG := s.Decl.(*ast.GenDecl); isG {
				for _, sp := range gd.Specs {
					vs := sp.(*ast.ValueSpec)
					if len(vs.Names) == 1 && vs.Names[0].Name == "serverHello" {
						if at, isA := vs.Type.(*ast.ArrayType); isA && at.Len != nil {
							if v, err := p.evalConst(at.Len, 0); err == nil {
								n = int(v)
							}
						}
					}
				}
			}
		case *ast.AssignStmt:
			if len(s.Lhs) != 1 || len(s.Rhs) != 1 {
				return true
			}
			ix, isIx := s.Lhs[0].(*ast.IndexExpr)
			if isIx && show(ix.X) == "serverHello" {
				i64, err := p.evalConst(ix.Index, 0)
				if err != nil {
					ok = false
					return true
				}
				i := int(i64)
				rhs := s.Rhs[0]
				if bs, isLit := c10bytes(p, rhs); isLit {
					pieces[i] = fmt.Sprintf("(\"lit\", %s)", c10lean(bs))
				} else if id, isId := rhs.(*ast.Ident); isId && id.Name == sidP {
					pieces[i] = "(\"sid\", [])"
				} else if call, isCall := rhs.(*ast.CallExpr); isCall && show(call.Fun) == "append" && len(call.Args) == 2 {
					// append(nonce[a:b], enc[c:d]...) = the random ; append(keyShare, keyExchange...) = the key share
					a0, a1 := show(call.Args[0]), show(call.Args[1])
					if b0, lo0, hi0, s0 := c4slice(call.Args[0]); s0 && b0 == nonceP {
						if b1, lo1, hi1, s1 := c4slice(call.Args[1]); s1 && b1 == encP && call.Ellipsis != token.NoPos {
							pieces[i] = "(\"random\", [])"
							c4num(g, "shRandomNonceLo", "", lo0, nil, "serverHello random: "+show(rhs))
							c4num(g, "shRandomNonceHi", "", hi0, nil, "serverHello random: "+show(rhs))
							c4num(g, "shRandomEncLo", "", lo1, nil, "serverHello random: "+show(rhs))
							c4num(g, "shRandomEncHi", "", hi1, nil, "serverHello random: "+show(rhs))
						} else {
							ok = false
						}
					} else if a0 == "keyShare" && a1 == "keyExchange" && call.Ellipsis != token.NoPos {
						pieces[i] = "KEYSHARE"
					} else {
						ok = false
					}
				} else {
					ok = false
				}
			}
			if show(s.Lhs[0]) == "keyShare" {
				if bs, isLit := c10bytes(p, s.Rhs[0]); isLit {
					ksHdr = bs
				}
			}
		}
		return true
	})
	if !ok || n < 0 || len(pieces) != n || ksHdr == nil {
		unrec(g, "shPieces", "the serverHello pieces were not all recognised")
		return
	}
	var list []string
	for i := 0; i < n; i++ {
		s, have := pieces[i]
		if !have {
			unrec(g, "shPieces", fmt.Sprintf("serverHello[%d] not assigned", i))
			return
		}
		if s == "KEYSHARE" {
			s = fmt.Sprintf("(\"keyshare\", %s)", c10lean(ksHdr))
		}
		list = append(list, s)
	}
	emit(g, "shPieces", "List (String × List UInt8)", "["+strings.Join(list, ", ")+"]", "composeServerHello: serverHello[0.."+fmt.Sprint(n-1)+"] in order")
	// keyExchange := make([]byte, N); copy(keyExchange, enc[a:b]); common.CryptoRandRead(keyExchange[c:d])
	if e := c4assign(fn, "keyExchange"); e != nil {
		if c, isCall := e.(*ast.CallExpr); isCall && show(c.Fun) == "make" && len(c.Args) == 2 && show(c.Args[0]) == "[]byte" {
			numExpr(g, "shKeyExchangeLen", "", sv, c.Args[1], nil)
		} else {
			unrec(g, "shKeyExchangeLen", "keyExchange := make([]byte, n) not found")
		}
	} else {
		unrec(g, "shKeyExchangeLen", "keyExchange := make([]byte, n) not found")
	}
	if a := callArgs(fn.Body, `^copy$`); len(a) == 2 && show(a[0]) == "keyExchange" {
		if b, lo, hi, s := c4slice(a[1]); s && b == encP {
			c4num(g, "shKeyExchangeEncLo", "", lo, nil, "copy(keyExchange, "+show(a[1])+")")
			c4num(g, "shKeyExchangeEncHi", "", hi, nil, "copy(keyExchange, "+show(a[1])+")")
		} else {
			unrec(g, "shKeyExchangeEncLo", "copy(keyExchange, enc[a:b]) not found")
		}
	} else {
		unrec(g, "shKeyExchangeEncLo", "copy(keyExchange, enc[a:b]) not found")
	}
	if a := callArgs(fn.Body, `^common\.CryptoRandRead$`); len(a) == 1 {
		if b, lo, hi, s := c4slice(a[0]); s && b == "keyExchange" {
			c4num(g, "shKeyExchangeRandLo", "", lo, nil, "CryptoRandRead("+show(a[0])+")")
			c4num(g, "shKeyExchangeRandHi", "", hi, nil, "CryptoRandRead("+show(a[0])+")")
		} else {
			unrec(g, "shKeyExchangeRandLo", "CryptoRandRead(keyExchange[a:b]) not found")
		}
	} else {
		unrec(g, "shKeyExchangeRandLo", "CryptoRandRead(keyExchange[a:b]) not found")
	}
	// the result is the concatenation of the pieces in index order
	concat := false
	ast.Inspect(fn.Body, func(node ast.Node) bool {
		if rs, isR := node.(*ast.RangeStmt); isR && show(rs.X) == "serverHello" && len(rs.Body.List) == 1 {
			if show(rs.Body.List[0]) == "ret = append(ret, s...)" {
				concat = true
			}
		}
		return true
	})
	boolFact(g, "shConcatInOrder", concat, "for _, s := range serverHello { ret = append(ret, s...) }")
}

func factsComposeReply(g string) {
	p := pkgs[sv]
	fn := fnOf(sv, "composeReply")
	if fn == nil {
		unrec(g, "replyVersion", "composeReply not found")
		return
	}
	params := []string{}
	for _, f := range fn.Type.Params.List {
		for _, n := range f.Names {
			params = append(params, n.Name)
		}
	}
	if bs, ok := c10bytes(p, c4assign(fn, "TLS12")); ok {
		emit(g, "replyVersion", "List UInt8", c10lean(bs), "composeReply: TLS12 := "+show(c4assign(fn, "TLS12")))
	} else {
		unrec(g, "replyVersion", "TLS12 := []byte{..} not found")
	}
	// sh := composeServerHello(sid, nonce, enc) with the function's own first three parameters, in order
	if a := callArgs(fn.Body, `^composeServerHello$`); len(a) == 3 && len(params) == 4 && show(a[0]) == params[0] && show(a[1]) == params[1] && show(a[2]) == params[2] {
		boolFact(g, "replyHelloArgs", true, "composeServerHello("+params[0]+", "+params[1]+", "+params[2]+")")
	} else {
		unrec(g, "replyHelloArgs", "composeServerHello(sessionId, nonce, key) call not recognised")
	}
	rec := func(name, lhs, wantBody string) {
		c, ok := c4assign(fn, lhs).(*ast.CallExpr)
		if !ok || show(c.Fun) != "addRecordLayer" || len(c.Args) != 3 || show(c.Args[2]) != "TLS12" {
			unrec(g, name+"Type", lhs+" := addRecordLayer(x, typ, TLS12) not found")
			return
		}
		typ, ok2 := c10bytes(p, c.Args[1])
		if !ok2 {
			unrec(g, name+"Type", "record type of "+lhs+" is not a literal")
			return
		}
		emit(g, name+"Type", "List UInt8", c10lean(typ), lhs+" := "+show(c))
		if wantBody == "" {
			if bs, ok3 := c10bytes(p, c.Args[0]); ok3 {
				emit(g, name+"Body", "List UInt8", c10lean(bs), lhs+" := "+show(c))
			} else {
				unrec(g, name+"Body", "body of "+lhs+" is not a literal")
			}
		} else if show(c.Args[0]) != wantBody {
			unrec(g, name+"Type", "body of "+lhs+" is "+show(c.Args[0])+", expected "+wantBody)
		}
	}
	rec("replyHello", "shBytes", "sh")
	rec("replyCCS", "ccsBytes", "")
	if len(params) == 4 {
		rec("replyCert", "encryptedCertBytes", params[3])
	}
	evs := rawEvents(fn)
	i1 := idx(evs, 0, "assign", `^ret := append\(shBytes, ccsBytes\.\.\.\)$`)
	i2 := idx(evs, 0, "assign", `^ret = append\(ret, encryptedCertBytes\.\.\.\)$`)
	i3 := idx(evs, 0, "return", `^return ret$`)
	boolFact(g, "replyOrder", i1 >= 0 && i2 > i1 && i3 > i2, "ret = shBytes ++ ccsBytes ++ encryptedCertBytes")
	// addRecordLayer(input, typ, ver): typ at [0:1], ver at [1:3], big-endian uint16(len(input)) at [3:5], input at [5:]
	ar := fnOf(sv, "addRecordLayer")
	okAR := false
	if ar != nil {
		t := show(ar.Body)
		okAR = strings.Contains(t, "binary.BigEndian.PutUint16(length, uint16(len(input)))") && strings.Contains(t, "make([]byte, 5+len(input))") &&
			strings.Contains(t, "copy(ret[0:1], typ)") && strings.Contains(t, "copy(ret[1:3], ver)") && strings.Contains(t, "copy(ret[3:5], length)") &&
			strings.Contains(t, "copy(ret[5:], input)") && strings.Contains(t, "length := make([]byte, 2)")
	}
	boolFact(g, "addRecordLayerShape", okAR, "server addRecordLayer: typ | ver | uint16 length | input")
	// the responder writes the reply with one Write and wraps the connection in a TLSConn afterwards
	mr := fnOf(sv, "TLS.makeResponder")
	okResp := false
	if mr != nil {
		// the responder is a function literal: walk its body
		var lit *ast.FuncLit
		ast.Inspect(mr.Body, func(n ast.Node) bool {
			if f, ok := n.(*ast.FuncLit); ok && lit == nil {
				lit = f
			}
			return true
		})
		var e []ev
		if lit != nil {
			e = events(&ast.FuncDecl{Body: lit.Body})
		}
		a := idx(e, 0, "assign", `^reply := composeReply\(clientHelloSessionId, nonce, encryptedSessionKeyArr, cert\)$`)
		b := idx(e, 0, "assign", `^_, err = originalConn\.Write\(reply\)$`)
		c := idx(e, 0, "assign", `^preparedConn = common\.NewTLSConn\(originalConn\)$`)
		okResp = a >= 0 && b > a && c > b && count(e, "call", `originalConn\.Write\(`) == 1
	}
	boolFact(g, "responderWritesReplyThenWraps", okResp, "makeResponder: reply := composeReply(..); originalConn.Write(reply); preparedConn = NewTLSConn(originalConn)")
	// processFirstPacket hands the ClientHello's own session id to the responder
	pf := fnOf(sv, "TLS.processFirstPacket")
	boolFact(g, "responderGetsClientSid", pf != nil && strings.Contains(show(pf.Body), "TLS{}.makeResponder(ch.sessionId, fragments.sharedSecret)"),
		"respond = TLS{}.makeResponder(ch.sessionId, fragments.sharedSecret)")
	// lengths the server insists on: sessionId ++ keyShare has 64 bytes, the key share 32
	um := fnOf(sv, "TLS.unmarshalClientHello")
	if c := ifCond(um, `len\(ctxTag\)`); c != nil {
		boolExpr(g, "ctxTagBad", "(ctxTagLen : Int)", sv, c, map[string]string{"len(ctxTag)": "ctxTagLen"})
	} else {
		unrec(g, "ctxTagBad", "len(ctxTag) check not found")
	}
	boolFact(g, "ctxTagIsSidThenKeyShare", um != nil && strings.Contains(show(um.Body), "ctxTag := append(ch.sessionId, keyShare...)"), "ctxTag := append(ch.sessionId, keyShare...)")
	pk := fnOf(sv, "parseKeyShare")
	if c := ifCond(pk, `^length != `); c != nil {
		boolExpr(g, "keyShareBad", "(length : Int)", sv, c, map[string]string{"length": "length"})
	} else {
		unrec(g, "keyShareBad", "key share length check not found")
	}
	// cert lengths the responder draws from
	if mr != nil {
		var lens []int64
		ast.Inspect(mr.Body, func(n ast.Node) bool {
			if cl, ok := n.(*ast.CompositeLit); ok && show(cl.Type) == "[]int" && lens == nil {
				for _, el := range cl.Elts {
					if v, err := p.evalConst(el, 0); err == nil {
						lens = append(lens, v)
					}
				}
			}
			return true
		})
		if len(lens) > 0 {
			s := make([]string, len(lens))
			for i, v := range lens {
				s[i] = fmt.Sprint(v)
			}
			emit(g, "certLengths", "List Nat", "["+strings.Join(s, ", ")+"]", "possibleCertLengths")
		} else {
			unrec(g, "certLengths", "possibleCertLengths not found")
		}
	}
}

func factsTLSConnWrite(g string, cp *pkgInfo) {
	fn := fnOf(cm, "TLSConn.Write")
	if fn == nil {
		unrec(g, "tlsTooLong", "TLSConn.Write not found")
		return
	}
	vars := map[string]string{"msgLen": "msgLen", "len(in)": "msgLen"}
	if e := c4assign(fn, "msgLen"); e == nil || show(e) != "len(in)" {
		unrec(g, "tlsMsgLenIsLen", "msgLen := len(in) not found")
	} else {
		boolFact(g, "tlsMsgLenIsLen", true, "msgLen := len(in)")
	}
	if s := c4if(fn, `msgLen`); s != nil && c4returnsError(s.Body) && fn.Body.List[1] == ast.Stmt(s) {
		boolExpr(g, "tlsTooLong", "(msgLen : Int)", cm, c10foldRHS(cp, s.Cond), vars)
	} else {
		unrec(g, "tlsTooLong", "length guard with error return not found as the first check")
	}
	t := show(fn.Body)
	boolFact(g, "tlsWriteLenBytes", strings.Contains(t, "*writeBuf = append(*writeBuf, byte(msgLen>>8), byte(msgLen&0xFF))"), "length appended big-endian: byte(msgLen>>8), byte(msgLen&0xFF)")
	boolFact(g, "tlsWriteAppendsInput", strings.Contains(t, "*writeBuf = append(*writeBuf, in...)"), "then the input")
	natFact(g, "tlsWriteConnWrites", len(allCalls(fn.Body, `^tls\.Conn\.Write$`)), "underlying Conn.Write calls in TLSConn.Write")
	boolFact(g, "tlsWriteWritesBuf", strings.Contains(t, "tls.Conn.Write(*writeBuf)"), "the pooled buffer is what is written")
	boolFact(g, "tlsWriteResets", strings.Contains(t, "*writeBuf = (*writeBuf)[:3]"), "buffer reset to its 3-byte prefix before it returns to the pool")
	evs := events(fn)
	a := idx(evs, 0, "assign", `^\*writeBuf = append\(\*writeBuf, byte\(msgLen>>8\)`)
	b := idx(evs, 0, "assign", `^\*writeBuf = append\(\*writeBuf, in\.\.\.\)`)
	c := idx(evs, 0, "assign", `^n, err = tls\.Conn\.Write`)
	d := idx(evs, 0, "assign", `^\*writeBuf = \(\*writeBuf\)\[:3\]`)
	boolFact(g, "tlsWriteOrder", a >= 0 && b > a && c > b && d > c, "length, input, Write, reset")
	// the pool's New: 3-byte prefix ApplicationData, VersionTLS13 hi, lo
	nt := fnOf(cm, "NewTLSConn")
	okNew := nt != nil && strings.Contains(show(nt.Body), "b = append(b, ApplicationData, byte(VersionTLS13>>8), byte(VersionTLS13&0xFF))") &&
		strings.Contains(show(nt.Body), "b := make([]byte, 0, initialWriteBufSize)")
	boolFact(g, "tlsPoolPrefix", okNew, "pool New: empty buffer + ApplicationData, byte(VersionTLS13>>8), byte(VersionTLS13&0xFF)")
	// common.AddRecordLayer(input, typ, ver): typ, ver>>8, ver, len>>8, len, input
	ar := fnOf(cm, "AddRecordLayer")
	okAR := false
	if ar != nil {
		s := show(ar.Body)
		okAR = strings.Contains(s, "ret[0] = typ") && strings.Contains(s, "ret[1] = byte(ver >> 8)") && strings.Contains(s, "ret[2] = byte(ver)") &&
			strings.Contains(s, "ret[3] = byte(msgLen >> 8)") && strings.Contains(s, "ret[4] = byte(msgLen)") &&
			strings.Contains(s, "copy(ret[recordLayerLength:], input)") && strings.Contains(s, "retLen := msgLen + recordLayerLength") && strings.Contains(s, "msgLen := len(input)")
	}
	boolFact(g, "commonAddRecordLayerShape", okAR, "common.AddRecordLayer: typ | ver hi | ver lo | len hi | len lo | input")
	_ = cp
}

func factsClientHelloSend(g string) {
	fn := fnOf(cl, "DirectTLS.Handshake")
	if fn == nil {
		unrec(g, "clientHelloRecord", "DirectTLS.Handshake not found")
		return
	}
	evs := events(fn)
	a := idx(evs, 0, "assign", `^chWithRecordLayer := common\.AddRecordLayer\(ch, common\.Handshake, common\.VersionTLS11\)$`)
	b := idx(evs, 0, "assign", `^_, err = rawConn\.Write\(chWithRecordLayer\)$`)
	c := idx(evs, 0, "assign", `^tls\.TLSConn = common\.NewTLSConn\(rawConn\)$`)
	boolFact(g, "clientHelloRecord", a >= 0 && b > a && c > b && count(evs, "call", `rawConn\.Write\(`) == 1,
		"ClientHello wrapped by AddRecordLayer(ch, Handshake, VersionTLS11), written once, then the conn is wrapped in a TLSConn")
	bh := fnOf(cl, "buildClientHello")
	okSid := bh != nil && strings.Contains(show(bh.Body), "uclient.HandshakeState.Hello.SessionId = make([]byte, 32)") &&
		strings.Contains(show(bh.Body), "ServerName: fields.serverName")
	boolFact(g, "clientHelloSid32AndSNI", okSid, "SessionId = make([]byte, 32); utls.Config{ServerName: fields.serverName}")
}
