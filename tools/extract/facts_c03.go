package main

import (
	"go/ast"
	"regexp"
	"strings"
)

// ---------- C03: closing a stream (group "StreamClose") ----------
//
// Used BY the model (Model/Stream.lean): closesRecvBuf (does closeStream close the receive pipe?), writeChecksClosed,
// readMapsEOF, pipeEOF (the translated `closed && buf.Len() == 0` test), tombstones, recvDropsTombstoned,
// recvClosesOnFlag.  The other facts are compared with expected values in C03.gen_structure.

func init() { register(factsStreamClose) }

func firstStmtIn(body *ast.BlockStmt) ast.Stmt {
	if body == nil || len(body.List) == 0 {
		return nil
	}
	return body.List[0]
}

func factsStreamClose() {
	g := "StreamClose"
	cs := fnOf(mx, "Session.closeStream")
	if cs == nil {
		unrec(g, "casFirst", "Session.closeStream not found")
		return
	}
	for _, k := range []string{"Stream.recvFrame", "Stream.Read", "Session.recvDataFromRemote", "streamBufferedPipe.Read", "streamBufferedPipe.Write", "streamBufferedPipe.Close", "streamBuffer.Close", "Stream.passiveClose", "Session.closeSession"} {
		dumpEvents(k, events(fnOf(mx, k)))
	}
	ce := events(cs)
	// CAS first, returning when the stream was already closed
	iCas := idx(ce, 0, "if", `^!atomic\.CompareAndSwapUint32\(&s\.closed, 0, 1\)$`)
	casFirst := iCas >= 0 && iCas <= 1 && iCas+2 < len(ce) && idx(ce, iCas, "return", `errRepeatStreamClosing`) > iCas &&
		idx(ce, iCas, "return", `errRepeatStreamClosing`) < idx(ce, iCas, "endif", ``)
	boolFact(g, "casFirst", casFirst, "closeStream opens with `if !CAS(&s.closed,0,1) { return …errRepeatStreamClosing }`")
	// recvBuf.Close() unconditional (depth 0), after the CAS and before the `if active`
	iClose := idx(ce, 0, "call", `^s\.recvBuf\.Close\(\)$`)
	iAct := idx(ce, 0, "if", `^active$`)
	boolFact(g, "closesRecvBuf", iClose > iCas && iCas >= 0 && ce[iClose].depth == 0 && iAct > iClose,
		"closeStream: s.recvBuf.Close() unconditionally, right after the CAS")
	// active branch: Closing = closingStream, then obfuscateAndSend
	iSet := idx(ce, iAct, "assign", `^s\.writingFrame\.Closing = closingStream$`)
	iSend := idx(ce, iAct, "call", `\.obfuscateAndSend\(`)
	iElse := idx(ce, iAct, "else", ``)
	boolFact(g, "activeSendsClosing", iAct >= 0 && iSet > iAct && iSend > iSet && (iElse < 0 || iSend < iElse),
		"closeStream, active branch: writingFrame.Closing = closingStream precedes obfuscateAndSend")
	// a failed send in the active branch returns before the table update
	iErrRet := idx(ce, iSend, "return", `^return err$`)
	// tombstone under streamsM at depth 0
	iTomb := idx(ce, 0, "assign", `^sesh\.streams\[s\.id\] = nil$`)
	iL := idx(ce, 0, "call", `^sesh\.streamsM\.Lock\(\)$`)
	iU := idx(ce, iTomb, "call", `^sesh\.streamsM\.Unlock\(\)$`)
	boolFact(g, "tombstones", iTomb > iAct && iAct >= 0 && ce[iTomb].depth == 0 && iL >= 0 && iL < iTomb && iU > iTomb,
		"closeStream: sesh.streams[s.id] = nil under streamsM, after the active/passive branch")
	boolFact(g, "activeErrSkipsTombstone", iErrRet > iSend && iSend >= 0 && iErrRet < iTomb, "closeStream: a failed closing send returns before the tombstone")

	// passiveClose / Close arguments
	argOf := func(key string) string {
		fn := fnOf(mx, key)
		if fn == nil {
			return "?"
		}
		a := callArgs(fn.Body, `\.closeStream$`)
		if len(a) != 2 {
			return "?"
		}
		return show(a[0]) + "," + show(a[1])
	}
	boolFact(g, "passiveArg", argOf("Stream.passiveClose") == "s,false", "Stream.passiveClose → closeStream(s, false)")
	boolFact(g, "activeArg", argOf("Stream.Close") == "s,true", "Stream.Close → closeStream(s, true)")

	// Stream.Read: reads the receive buffer, maps io.EOF to ErrBrokenStream
	if rd := fnOf(mx, "Stream.Read"); rd != nil {
		re := events(rd)
		iR := idx(re, 0, "call", `^s\.recvBuf\.Read\(buf\)$`)
		iIf := idx(re, iR, "if", `^err == io\.EOF$`)
		ok := iR >= 0 && iIf > iR && iIf+1 < len(re) && re[iIf+1].kind == "return" && strings.Contains(re[iIf+1].text, "ErrBrokenStream")
		boolFact(g, "readMapsEOF", ok, "Stream.Read: n, err = s.recvBuf.Read(buf); if err == io.EOF { return n, ErrBrokenStream }")
	} else {
		unrec(g, "readMapsEOF", "Stream.Read not found")
	}
	// Stream.Write: closed test under the lock, before any send
	if w := fnOf(mx, "Stream.Write"); w != nil {
		we := events(w)
		iIf := idx(we, 0, "if", `^s\.isClosed\(\)$`)
		iS := idx(we, 0, "call", `\.obfuscateAndSend\(`)
		ok := wholeBodyLocked(we, reWLock, reWUnlock) && iIf >= 0 && iIf < iS && we[iIf].depth == 0 &&
			we[iIf+1].kind == "return" && strings.Contains(we[iIf+1].text, "ErrBrokenStream")
		boolFact(g, "writeChecksClosed", ok, "Stream.Write: under writingM, `if s.isClosed() { return 0, ErrBrokenStream }` before any send")
	} else {
		unrec(g, "writeChecksClosed", "Stream.Write not found")
	}
	if ic := fnOf(mx, "Stream.isClosed"); ic != nil {
		boolFact(g, "isClosedReadsFlag", regexp.MustCompile(`return atomic\.LoadUint32\(&s\.closed\) == 1`).MatchString(show(ic.Body)), "isClosed = atomic load of s.closed == 1")
	} else {
		unrec(g, "isClosedReadsFlag", "Stream.isClosed not found")
	}
	// recvFrame: buffer write; on the close report → passiveClose; a repeated close is not an error
	if rf := fnOf(mx, "Stream.recvFrame"); rf != nil {
		re := events(rf)
		iW := idx(re, 0, "call", `^s\.recvBuf\.Write\(frame\)$`)
		iIf := idx(re, iW, "if", `^toBeClosed$`)
		iP := idx(re, iIf, "call", `^s\.passiveClose\(\)$`)
		iEnd := idx(re, iIf, "endif", ``)
		boolFact(g, "recvClosesOnFlag", iW >= 0 && iIf > iW && iP > iIf && count(re, "call", `passiveClose`) == 1,
			"recvFrame: toBeClosed, err := s.recvBuf.Write(frame); if toBeClosed { s.passiveClose() … }")
		_ = iEnd
	} else {
		unrec(g, "recvClosesOnFlag", "Stream.recvFrame not found")
	}
	// recvDataFromRemote: table lookup under streamsM; a nil (tombstoned) entry → return nil before recvFrame
	if rr := fnOf(mx, "Session.recvDataFromRemote"); rr != nil {
		re := events(rr)
		iL := idx(re, 0, "call", `^sesh\.streamsM\.Lock\(\)$`)
		iLook := idx(re, iL, "assign", `^existingStream, existing := sesh\.streams\[frame\.StreamID\]$`)
		iEx := idx(re, iLook, "if", `^existing$`)
		iNil := idx(re, iEx, "if", `^existingStream == nil$`)
		iRecv := idx(re, iEx, "call", `^existingStream\.recvFrame\(frame\)$`)
		ok := iL >= 0 && iLook > iL && iEx > iLook && iNil > iEx && iRecv > iNil && re[iNil+1].kind == "return" && re[iNil+1].text == "return nil"
		boolFact(g, "recvDropsTombstoned", ok, "recvDataFromRemote: lookup under streamsM; `if existingStream == nil { return nil }` before recvFrame")
	} else {
		unrec(g, "recvDropsTombstoned", "Session.recvDataFromRemote not found")
	}
	// streamBufferedPipe.Read: the first test of the wait loop is `closed && buf.Len() == 0` → io.EOF
	if pr := fnOf(mx, "streamBufferedPipe.Read"); pr != nil {
		var loop *ast.ForStmt
		ast.Inspect(pr.Body, func(n ast.Node) bool {
			if f, ok := n.(*ast.ForStmt); ok && loop == nil {
				loop = f
			}
			return loop == nil
		})
		var first *ast.IfStmt
		if loop != nil {
			first, _ = firstStmtIn(loop.Body).(*ast.IfStmt)
		}
		if first != nil {
			boolExpr(g, "pipeEOF", "(closed : Bool) (bufLen : Int)", mx, first.Cond, map[string]string{"p.closed": "closed", "p.buf.Len()": "bufLen"})
			ret, _ := firstStmtIn(first.Body).(*ast.ReturnStmt)
			boolFact(g, "pipeEOFFirst", ret != nil && strings.Contains(show(ret), "io.EOF"), "streamBufferedPipe.Read: the first statement of the wait loop returns io.EOF on that test")
		} else {
			unrec(g, "pipeEOF", "wait loop / first if not found in streamBufferedPipe.Read")
		}
		pe := events(pr)
		iBrk := idx(pe, 0, "if", `^p\.buf\.Len\(\) > 0$`)
		iWait := idx(pe, 0, "call", `^p\.rwCond\.Wait\(\)$`)
		boolFact(g, "pipeDataBeforeWait", iBrk >= 0 && pe[iBrk+1].kind == "branch" && iWait > iBrk, "streamBufferedPipe.Read: `if p.buf.Len() > 0 { break }` precedes rwCond.Wait()")
	} else {
		unrec(g, "pipeEOF", "streamBufferedPipe.Read not found")
	}
	if pc := fnOf(mx, "streamBufferedPipe.Close"); pc != nil {
		pe := events(pc)
		iS := idx(pe, 0, "assign", `^p\.closed = true$`)
		iB := idx(pe, iS, "call", `^p\.rwCond\.Broadcast\(\)$`)
		boolFact(g, "pipeCloseSetsAndBroadcasts", iS >= 0 && iB > iS, "streamBufferedPipe.Close: p.closed = true; p.rwCond.Broadcast()")
	} else {
		unrec(g, "pipeCloseSetsAndBroadcasts", "streamBufferedPipe.Close not found")
	}
	if pw := fnOf(mx, "streamBufferedPipe.Write"); pw != nil {
		pe := events(pw)
		iC := idx(pe, 0, "if", `^p\.closed$`)
		iW := idx(pe, 0, "call", `^p\.buf\.Write\(input\)$`)
		iB := idx(pe, iW, "call", `^p\.rwCond\.Broadcast\(\)$`)
		boolFact(g, "pipeWriteRefusesClosed", iC >= 0 && pe[iC+1].kind == "return" && strings.Contains(pe[iC+1].text, "ErrClosedPipe") && iW > iC && iB > iW,
			"streamBufferedPipe.Write: `if p.closed { return 0, io.ErrClosedPipe }` before buf.Write; Broadcast after")
	} else {
		unrec(g, "pipeWriteRefusesClosed", "streamBufferedPipe.Write not found")
	}
	if sc := fnOf(mx, "streamBuffer.Close"); sc != nil {
		boolFact(g, "sbCloseClosesPipe", len(allCalls(sc.Body, `^sb\.buf\.Close$`)) == 1, "streamBuffer.Close → sb.buf.Close()")
	} else {
		unrec(g, "sbCloseClosesPipe", "streamBuffer.Close not found")
	}
	if sr := fnOf(mx, "streamBuffer.Read"); sr != nil {
		boolFact(g, "sbReadIsPipeRead", len(allCalls(sr.Body, `^sb\.buf\.Read$`)) == 1, "streamBuffer.Read → sb.buf.Read(buf)")
	} else {
		unrec(g, "sbReadIsPipeRead", "streamBuffer.Read not found")
	}
}
