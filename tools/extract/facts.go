package main

import (
	"fmt"
	"go/ast"
)

const mx = "internal/multiplex"
const cm = "internal/common"
const sv = "internal/server"
const um = "internal/server/usermanager"
const cl = "internal/client"

func constFact(group, name, dir, cname string) {
	p := pkgs[dir]
	e, ok := p.consts[cname]
	if !ok {
		unrec(group, name, "constant "+cname+" not found in "+dir)
		return
	}
	v, err := p.evalConst(e, p.iotas[cname])
	if err != nil {
		unrec(group, name, err.Error())
		return
	}
	emit(group, name, "Int", fmt.Sprintf("%d", v), dir+" const "+cname+" = "+show(e))
}

// boolExpr emits `def name params : Bool := <cond>`
func boolExpr(group, name, params string, dir string, e ast.Expr, vars map[string]string) {
	if e == nil {
		unrec(group, name, "expression not found")
		return
	}
	x := &xlate{p: pkgs[dir], vars: vars}
	t := x.cond(e)
	if x.err != nil {
		unrec(group, name, x.err.Error())
		return
	}
	emitFn(group, name, params, "Bool", t, show(e))
}

func numExpr(group, name, params string, dir string, e ast.Expr, vars map[string]string) {
	if e == nil {
		unrec(group, name, "expression not found")
		return
	}
	x := &xlate{p: pkgs[dir], vars: vars}
	t := x.num(e)
	if x.err != nil {
		unrec(group, name, x.err.Error())
		return
	}
	emitFn(group, name, params, "Int", t, show(e))
}

func boolFact(group, name string, v bool, src string) {
	emit(group, name, "Bool", fmt.Sprintf("%v", v), src)
}

func natFact(group, name string, v int, src string) {
	emit(group, name, "Nat", fmt.Sprintf("%d", v), src)
}

// every facts_*.go file registers its extraction functions in init()
var factFuncs []func()

func register(f func()) { factFuncs = append(factFuncs, f) }

func allFacts() {
	for _, f := range factFuncs {
		f()
	}
}

func init() { register(factsReorder) }

// ---------- C02: streamBuffer.Write ----------
func factsReorder() {
	g := "Reorder"
	fn := fnOf(mx, "streamBuffer.Write")
	if fn == nil {
		unrec(g, "sbFast", "streamBuffer.Write not found")
		return
	}
	vars := map[string]string{"len(sb.sh)": "heapLen", "f.Seq": "fSeq", "sb.nextRecvSeq": "next", "sb.sh[0].Seq": "headSeq"}
	// first if whose condition mentions both the heap length and the next expected number
	boolExpr(g, "sbFast", "(heapLen fSeq next : Int)", mx, ifCond(fn, `len\(sb\.sh\)`, `nextRecvSeq`), vars)
	// the stale test: an if on f.Seq and nextRecvSeq that does not mention the heap
	var stale ast.Expr
	ast.Inspect(fn.Body, func(n ast.Node) bool {
		if s, ok := n.(*ast.IfStmt); ok && stale == nil {
			t := show(s.Cond)
			if !contains(t, "sb.sh") && contains(t, "f.Seq") && contains(t, "nextRecvSeq") {
				stale = s.Cond
			}
		}
		return true
	})
	boolExpr(g, "sbStale", "(fSeq next : Int)", mx, stale, vars)
	boolExpr(g, "sbLoop", "(heapLen headSeq next : Int)", mx, forCond(fn, `nextRecvSeq`), vars)
	evs := eventsInl(mx, fn)
	// closing tests: both the fast path and the drain loop test Closing != closingNothing
	natFact(g, "sbClosingTests", count(evs, "if", `Closing != closingNothing`), "count of `Closing != closingNothing` tests in streamBuffer.Write")
	// payload copy precedes heap.Push
	iMake := idx(evs, 0, "assign", `saved\.Payload = make\(\[\]byte, len\(f\.Payload\)\)`)
	iCopy := idx(evs, 0, "call", `^copy\(saved\.Payload, f\.Payload\)`)
	iPush := idx(evs, 0, "call", `^heap\.Push\(&sb\.sh`)
	boolFact(g, "sbCopiesBeforePush", iMake >= 0 && iCopy > iMake && iPush > iCopy, "make+copy of payload precede heap.Push")
	// nextRecvSeq advances by exactly one after each pipe write (2 sites)
	natFact(g, "sbNextIncrs", count(evs, "assign", `^sb\.nextRecvSeq \+= 1$`)+count(evs, "incdec", `^sb\.nextRecvSeq\+\+$`), "increments of nextRecvSeq")
	natFact(g, "sbPipeWrites", count(evs, "call", `^sb\.buf\.Write\(\w+\.Payload\)`), "pipe writes")
	// lock held for the whole body
	iLock := idx(evs, 0, "call", `^sb\.recvM\.Lock\(\)`)
	iDefer := idx(evs, 0, "defer", `^sb\.recvM\.Unlock\(\)`)
	boolFact(g, "sbWriteLocked", iLock == 0 && iDefer == 1, "recvM.Lock(); defer recvM.Unlock() open the body")
}

func contains(s, sub string) bool {
	return len(sub) == 0 || (len(s) >= len(sub) && (indexOf(s, sub) >= 0))
}
func indexOf(s, sub string) int {
	for i := 0; i+len(sub) <= len(s); i++ {
		if s[i:i+len(sub)] == sub {
			return i
		}
	}
	return -1
}
