package main

// C05 — facts of internal/common/tls.go (TLSConn.Read / TLSConn.Write) and internal/common/websocket.go
// (WebSocketConn.Read / Write). Group "Record" → lean/CloakModel/Gen/Record.lean.

import (
	"fmt"
	"go/ast"
	"go/token"
	"regexp"
	"strings"
)

func init() { register(factsC05) }

// byteNum extends xlate.num with the two idioms Go uses to split a length into bytes:
// `x >> k` (→ x / 2^k) and `x & 0xFF` (→ x % 256), and the truncating conversion byte(...) (→ … % 256).
// Operands are assumed non-negative (lengths), where these identities are exact.
func byteNum(x *xlate, e ast.Expr) string {
	if v, ok := x.vars[show(e)]; ok {
		return v
	}
	switch e := e.(type) {
	case *ast.ParenExpr:
		return byteNum(x, e.X)
	case *ast.CallExpr:
		if show(e.Fun) == "byte" && len(e.Args) == 1 {
			return "(" + byteNum(x, e.Args[0]) + " % 256)"
		}
	case *ast.BinaryExpr:
		switch e.Op {
		case token.SHR:
			return "(" + byteNum(x, e.X) + " / 2 ^ (" + x.num(e.Y) + " : Int).toNat)"
		case token.AND:
			if m, err := x.p.evalConst(e.Y, 0); err == nil && m > 0 && (m&(m+1)) == 0 {
				return fmt.Sprintf("(%s %% %d)", byteNum(x, e.X), m+1)
			}
			x.fail("unsupported mask %s", show(e))
			return "sorryUnrecognised"
		}
	}
	return x.num(e)
}

// sliceBounds returns lo, hi of a slice expression `b[lo:hi]` (missing lo = 0); ok=false if e is not such a slice
// of the named base or has no upper bound.
func sliceBounds(e ast.Expr, baseRe string) (lo, hi ast.Expr, ok bool) {
	s, isS := e.(*ast.SliceExpr)
	if !isS || s.Slice3 || s.High == nil || !regexp.MustCompile(baseRe).MatchString(show(s.X)) {
		return nil, nil, false
	}
	lo = s.Low
	if lo == nil {
		lo = &ast.BasicLit{Kind: token.INT, Value: "0"}
	}
	return lo, s.High, true
}

// readCall describes one read of the underlying connection inside a function body.
type readCall struct {
	full bool     // io.ReadFull (true) or a plain Conn.Read (false)
	buf  ast.Expr // the destination slice
	pos  token.Pos
}

// connReads lists, in source order, the reads from the connection named by connRe.
func connReads(fn *ast.FuncDecl, connRe string) (rs []readCall, other int) {
	r := regexp.MustCompile(connRe)
	ast.Inspect(fn.Body, func(n ast.Node) bool {
		c, ok := n.(*ast.CallExpr)
		if !ok {
			return true
		}
		f := show(c.Fun)
		switch {
		case f == "io.ReadFull" && len(c.Args) == 2 && r.MatchString(show(c.Args[0])):
			rs = append(rs, readCall{true, c.Args[1], c.Pos()})
		case (f == "io.ReadAtLeast" || f == "io.Copy" || f == "io.CopyN" || f == "io.ReadAll") && len(c.Args) > 0 && r.MatchString(show(c.Args[0])):
			other++
		case strings.HasSuffix(f, ".Read") && r.MatchString(strings.TrimSuffix(f, ".Read")) && len(c.Args) == 1:
			rs = append(rs, readCall{false, c.Args[0], c.Pos()})
		}
		return true
	})
	return
}

func factsC05() {
	g := "Record"
	p := pkgs[cm]
	constFact(g, "recordLayerLength", cm, "recordLayerLength")

	// ---------- TLSConn.Read ----------
	rd := fnOf(cm, "TLSConn.Read")
	if rd == nil || len(rd.Type.Params.List) != 1 || len(rd.Type.Params.List[0].Names) != 1 {
		unrec(g, "tlsRead", "TLSConn.Read(buffer) not found")
	} else {
		bufName := rd.Type.Params.List[0].Names[0].Name
		recv := rd.Recv.List[0].Names[0].Name
		connRe := `^` + recv + `(\.Conn)?$`
		reads, other := connReads(rd, connRe)
		natFact(g, "tlsReadCalls", len(reads)+other*100, "reads of the underlying conn in TLSConn.Read (io.ReadFull or Conn.Read)")
		vars := map[string]string{"len(" + bufName + ")": "bufLen", "dataLength": "dataLength"}
		if len(reads) == 2 && other == 0 {
			for k, nm := range []string{"Hdr", "Body"} {
				boolFact(g, "tlsRead"+nm+"Full", reads[k].full, "read #"+fmt.Sprint(k+1)+" of TLSConn.Read uses io.ReadFull: "+show(reads[k].buf))
				lo, hi, ok := sliceBounds(reads[k].buf, `^`+bufName+`$`)
				if !ok {
					unrec(g, "tlsRead"+nm+"Lo", "destination is not a slice of the caller's buffer: "+show(reads[k].buf))
					continue
				}
				numExpr(g, "tlsRead"+nm+"Lo", "(dataLength bufLen : Int)", cm, lo, vars)
				numExpr(g, "tlsRead"+nm+"Hi", "(dataLength bufLen : Int)", cm, hi, vars)
			}
		} else {
			unrec(g, "tlsReadHdrFull", fmt.Sprintf("expected exactly two reads of the underlying conn, found %d (+%d other)", len(reads), other))
		}
		// the length field: dataLength := int(binary.BigEndian.Uint16(buffer[a:b]))
		rhs := assignRHS(rd, `^dataLength$`)
		var lenArg ast.Expr
		if rhs != nil {
			if a := callArgs(rhs, `^binary\.BigEndian\.Uint16$`); len(a) == 1 {
				lenArg = a[0]
			}
		}
		if lo, hi, ok := sliceBounds(lenArg, `^`+bufName+`$`); ok {
			numExpr(g, "tlsReadLenLo", "", cm, lo, nil)
			numExpr(g, "tlsReadLenHi", "", cm, hi, nil)
		} else {
			unrec(g, "tlsReadLenLo", "dataLength := int(binary.BigEndian.Uint16(buffer[a:b])) not found")
		}
		// the two guards, both must yield io.ErrShortBuffer and return
		var shortIf, overIf *ast.IfStmt
		ast.Inspect(rd.Body, func(n ast.Node) bool {
			if s, ok := n.(*ast.IfStmt); ok {
				t := show(s.Cond)
				if strings.Contains(t, "dataLength") && overIf == nil {
					overIf = s
				} else if strings.Contains(t, "len("+bufName+")") && !strings.Contains(t, "dataLength") && shortIf == nil {
					shortIf = s
				}
			}
			return true
		})
		guardOK := func(s *ast.IfStmt) bool {
			if s == nil || s.Else != nil {
				return false
			}
			var evs []ev
			walkStmts(s.Body.List, 0, &evs)
			if len(evs) == 0 || evs[len(evs)-1].kind != "return" {
				return false
			}
			t := ""
			for _, e := range evs {
				t += e.text + ";"
			}
			return strings.Contains(t, "io.ErrShortBuffer") && count(evs, "call", `.`) == 0
		}
		if shortIf != nil {
			boolExpr(g, "tlsReadShortBuf", "(bufLen : Int)", cm, shortIf.Cond, vars)
		} else {
			unrec(g, "tlsReadShortBuf", "guard on len(buffer) not found")
		}
		if overIf != nil {
			boolExpr(g, "tlsReadOversize", "(dataLength bufLen : Int)", cm, overIf.Cond, vars)
		} else {
			unrec(g, "tlsReadOversize", "guard on dataLength not found")
		}
		boolFact(g, "tlsReadGuardsReturnShortBuffer", guardOK(shortIf) && guardOK(overIf), "both guards end in `return` with io.ErrShortBuffer and call nothing")
		// order: short-buffer guard < header read < `if err != nil {return}` < length < oversize guard < body read (returned directly)
		order := false
		if len(reads) == 2 && shortIf != nil && overIf != nil && rhs != nil {
			var errIf *ast.IfStmt
			ast.Inspect(rd.Body, func(n ast.Node) bool {
				if s, ok := n.(*ast.IfStmt); ok && show(s.Cond) == "err != nil" && errIf == nil && s.Pos() > reads[0].pos {
					errIf = s
				}
				return true
			})
			errRet := false
			if errIf != nil && len(errIf.Body.List) == 1 {
				_, errRet = errIf.Body.List[0].(*ast.ReturnStmt)
			}
			lastRet := false
			if n := len(rd.Body.List); n > 0 {
				if r, ok := rd.Body.List[n-1].(*ast.ReturnStmt); ok && len(r.Results) == 1 {
					lastRet = r.Results[0].Pos() <= reads[1].pos && reads[1].pos < r.Results[0].End()
				}
			}
			order = shortIf.Pos() < reads[0].pos && errIf != nil && errRet && errIf.Pos() < rhs.Pos() && rhs.Pos() < overIf.Pos() &&
				overIf.End() < reads[1].pos && lastRet
		}
		boolFact(g, "tlsReadOrder", order, "short-buffer guard; header read; if err != nil {return}; dataLength; oversize guard; return <body read>")
	}

	// ---------- TLSConn.Write ----------
	wr := fnOf(cm, "TLSConn.Write")
	if wr == nil || len(wr.Type.Params.List) != 1 {
		unrec(g, "tlsWrite", "TLSConn.Write(in) not found")
	} else {
		inName := wr.Type.Params.List[0].Names[0].Name
		recv := wr.Recv.List[0].Names[0].Name
		evs := events(wr)
		// msgLen := len(in)
		ml := assignRHS(wr, `^msgLen$`)
		mlOK := ml != nil && show(ml) == "len("+inName+")"
		vars := map[string]string{"msgLen": "msgLen", "len(" + inName + ")": "msgLen"}
		var limIf *ast.IfStmt
		ast.Inspect(wr.Body, func(n ast.Node) bool {
			if s, ok := n.(*ast.IfStmt); ok && limIf == nil {
				t := show(s.Cond)
				if strings.Contains(t, "msgLen") || strings.Contains(t, "len("+inName+")") {
					limIf = s
				}
			}
			return true
		})
		if limIf != nil && (mlOK || !strings.Contains(show(limIf.Cond), "msgLen")) {
			boolExpr(g, "tlsWriteTooLong", "(msgLen : Int)", cm, limIf.Cond, vars)
			var b []ev
			walkStmts(limIf.Body.List, 0, &b)
			refuses := len(b) > 0 && b[len(b)-1].kind == "return" && count(b, "call", `Write`) == 0 && limIf.Else == nil
			boolFact(g, "tlsWriteRefusesBeforeWriting", refuses && idx(evs, 0, "call", `\.Write\(`) > idx(evs, 0, "if", `msgLen|len\(`+inName+`\)`),
				"the length guard returns an error before any write")
		} else {
			unrec(g, "tlsWriteTooLong", "length guard of TLSConn.Write not found")
		}
		// underlying writes
		wre := `^` + recv + `(\.Conn)?\.Write$`
		ws := allCalls(wr.Body, wre)
		natFact(g, "tlsWriteSingleWrite", len(ws), "number of underlying Conn.Write calls in TLSConn.Write")
		inLoop := false
		ast.Inspect(wr.Body, func(n ast.Node) bool {
			switch l := n.(type) {
			case *ast.ForStmt:
				if len(allCalls(l.Body, wre)) > 0 {
					inLoop = true
				}
			case *ast.RangeStmt:
				if len(allCalls(l.Body, wre)) > 0 {
					inLoop = true
				}
			}
			return true
		})
		boolFact(g, "tlsWriteNotInLoop", !inLoop, "no underlying write sits inside a loop")
		// the pool's prefix: append(b, ApplicationData, byte(VersionTLS13>>8), byte(VersionTLS13&0xFF))
		var prefix []string
		if nt := fnOf(cm, "NewTLSConn"); nt != nil {
			ast.Inspect(nt.Body, func(n ast.Node) bool {
				if fl, ok := n.(*ast.FuncLit); ok && prefix == nil {
					for _, c := range allCalls(fl.Body, `^append$`) {
						if len(c.Args) >= 2 && !c.Ellipsis.IsValid() {
							var vs []string
							good := true
							for _, a := range c.Args[1:] {
								v, err := p.evalConst(a, 0)
								if err != nil {
									good = false
									break
								}
								vs = append(vs, fmt.Sprint(v&0xff))
							}
							if good {
								prefix = vs
							}
						}
					}
				}
				return true
			})
		}
		if prefix != nil {
			emit(g, "tlsWritePrefix", "List Nat", "["+strings.Join(prefix, ", ")+"]", "NewTLSConn: bytes pre-loaded into every pooled write buffer")
		} else {
			unrec(g, "tlsWritePrefix", "pool New func with append(b, <consts>) not found")
		}
		// *writeBuf = append(*writeBuf, byte(msgLen>>8), byte(msgLen&0xFF)) ; *writeBuf = append(*writeBuf, in...)
		var lenApp, bodyApp *ast.CallExpr
		for _, c := range allCalls(wr.Body, `^append$`) {
			if len(c.Args) == 3 && !c.Ellipsis.IsValid() && lenApp == nil {
				lenApp = c
			}
			if len(c.Args) == 2 && c.Ellipsis.IsValid() && show(c.Args[1]) == inName && bodyApp == nil {
				bodyApp = c
			}
		}
		if lenApp != nil {
			for k, nm := range []string{"tlsWriteLenHi", "tlsWriteLenLo"} {
				x := &xlate{p: p, vars: vars}
				t := byteNum(x, lenApp.Args[1+k])
				if x.err != nil {
					unrec(g, nm, x.err.Error())
				} else {
					emitFn(g, nm, "(msgLen : Int)", "Int", t, show(lenApp.Args[1+k]))
				}
			}
		} else {
			unrec(g, "tlsWriteLenHi", "append of the two length bytes not found")
		}
		// order and buffer discipline: Get < lenApp < bodyApp < Write(*writeBuf) < reset to [:k] < Put ; k == len(prefix)
		iGet := idx(evs, 0, "call", `writeBufPool\.Get\(\)`)
		iW := idx(evs, 0, "call", `^`+recv+`(\.Conn)?\.Write\(\*writeBuf\)$`)
		iReset := idx(evs, 0, "assign", `^\*writeBuf = \(\*writeBuf\)\[:\d+\]$`)
		iPut := idx(evs, 0, "call", `writeBufPool\.Put\(writeBuf\)`)
		ok := lenApp != nil && bodyApp != nil && iGet >= 0 && iW > iGet && iReset > iW && iPut > iReset &&
			lenApp.Pos() < bodyApp.Pos() && len(ws) >= 1 && bodyApp.End() < ws[0].Pos() &&
			show(lenApp.Args[0]) == "*writeBuf" && show(bodyApp.Args[0]) == "*writeBuf"
		boolFact(g, "tlsWriteBufferDiscipline", ok, "pool.Get; append length bytes; append in...; Conn.Write(*writeBuf); reset; pool.Put")
		if iReset >= 0 {
			m := regexp.MustCompile(`\[:(\d+)\]$`).FindStringSubmatch(evs[iReset].text)
			emit(g, "tlsWriteResetLen", "Nat", m[1], evs[iReset].text)
		} else {
			unrec(g, "tlsWriteResetLen", "reset of the pooled buffer not found")
		}
	}

	// ---------- WebSocketConn (partial: gorilla assumed) ----------
	ww := fnOf(cm, "WebSocketConn.Write")
	if ww == nil {
		unrec(g, "wsWriteUnderMutex", "WebSocketConn.Write not found")
	} else {
		evs := events(ww)
		iL := idx(evs, 0, "call", `^ws\.writeM\.Lock\(\)$`)
		iM := idx(evs, 0, "call", `^ws\.WriteMessage\(websocket\.BinaryMessage, data\)$`)
		iU := idx(evs, 0, "call", `^ws\.writeM\.Unlock\(\)$`)
		iUd := idx(evs, 0, "defer", `^ws\.writeM\.Unlock\(\)$`)
		under := iL >= 0 && iM > iL && ((iU > iM) || (iUd > iL && iUd < iM)) && evs[iL].depth == 0 && evs[iM].depth == 0
		boolFact(g, "wsWriteUnderMutex", under, "writeM.Lock(); WriteMessage(BinaryMessage, data); writeM.Unlock()")
		natFact(g, "wsWriteMessages", count(evs, "call", `WriteMessage\(|NextWriter\(|WriteJSON\(|WritePreparedMessage\(`), "message-producing calls in WebSocketConn.Write")
	}
	wrd := fnOf(cm, "WebSocketConn.Read")
	if wrd == nil {
		unrec(g, "wsReadLoop", "WebSocketConn.Read not found")
	} else {
		evs := events(wrd)
		iNR := idx(evs, 0, "call", `^ws\.NextReader\(\)$`)
		iFor := idx(evs, 0, "for", `^$`)
		iRead := idx(evs, iFor, "call", `^r\.Read\(buf\[n:\]\)$`)
		iEOF := idx(evs, iFor, "if", `^err == io\.EOF$`)
		iZero := idx(evs, iFor, "if", `^read == 0$`)
		iAdd := idx(evs, iFor, "assign", `^n \+= read$`)
		zeroErr := false
		if iZero >= 0 {
			if s, ok := evs[iZero].node.(*ast.IfStmt); ok {
				t := show(s.Body)
				zeroErr = strings.Contains(t, "err = errors.New(") && strings.Contains(t, "break")
			}
		}
		boolFact(g, "wsReadLoop", iNR >= 0 && iFor > iNR && iRead > iFor && iEOF > iRead && iZero > iRead && iAdd > iRead && zeroErr &&
			count(evs, "call", `NextReader\(\)`) == 1,
			"one NextReader per Read; loop r.Read(buf[n:]) until io.EOF; a zero-length read is an error; n += read")
	}
}
