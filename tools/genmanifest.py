#!/usr/bin/env python3
"""Regenerates MANIFEST.json from checks_d/*.py (claimed properties) and properties.jsonl (everything else goes to
not_applicable with the reason given in NOT_CLAIMED below)."""
import json, os, sys
ROOT = os.path.join(os.path.dirname(os.path.abspath(__file__)), "..")
sys.path.insert(0, ROOT)
import checks
props = [json.loads(l) for l in open(os.path.join(ROOT, "properties.jsonl"))]
base = json.load(open("/root/.vp/BASELINE.json"))
NOTES = {  # Appendix E of DESIGN.md: what is assumed, in short
 "C01": "composition of proved lemmas over the session model; goroutine scheduling, sync.Map/Pool, Copy only via correspondence",
 "C02": "container/heap as a priority queue; recvM mutual exclusion",
 "C03": "wake-ups (Cond.Broadcast) only via correspondence under synctest",
 "C04": "lawful cipher interface; native Lean Salsa20 and Go AEAD oracle trusted for wire bytes",
 "C05": "io.ReadFull, TCP write atomicity; WebSocket half partial (gorilla assumed)",
 "C06": "uTLS, net/http, gorilla, base64 assumed; AES-GCM/X25519 as interface",
 "C07": "INT idealisation for the 'sealed to the server key, unmodified' clause; bbolt reads",
 "C08": "INT, DH12 for the altered-copy clause; map/mutex",
 "C09": "net/http.ReadRequest, Copy goroutines, virtual 15 s deadline",
 "C10": "server flight and record layer proved; ClientHello validity by validator on real uTLS output (partial)",
 "C11": "partial theorem under INT + open finding bytes 12-13",
 "C12": "step granularity from regenerated facts; wake-ups, timers, 'fault seen by both ends' assumed",
 "C13": "Go memory model inside a critical section",
 "C14": "bytes.Buffer; real UDP sockets not exercised",
 "C15": "bbolt; single-record premise imported from C17",
 "C16": "bbolt transaction atomicity; DB faults out of scope",
 "C17": "operations performed under a lock other than lock acquisitions terminate",
 "C18": "bbolt persistence, encoding/json, gorilla/mux",
 "C19": "juju/ratelimit modelled from source and compared at run time; 1 % clause checked, not proved",
 "C20": "encoding/json, net.JoinHostPort; free-form ssv values partial",
}
man = {
 "version": 1,
 "setup_cmd": "./setup.sh",
 "hooks": {"guard": "verif",
           "enable": "go build -tags verif -overlay .cache/overlay.json ./cmd/verifharness  (cwd=/repo; harness sources stay in /verif/harness and are overlaid as internal/<pkg>/zz_verif_*.go and cmd/verifharness)",
           "baseline_off_cmd": base["cmd"], "source_commits": ["9d6d629"], "add_only": True},
 "engines": [{"name": "lean4-proof+correspondence", "path": "check", "serves_properties": sorted(checks.CHECKS),
   "kind_free_text": "Lean 4 theorems over executable models; models tied to /repo on every run by (T1) a go/ast fact/expression extractor that regenerates lean/CloakModel/Gen/*.lean, which the models use and the theorems are re-checked against, and (T2) an in-process correspondence harness (go build -overlay) whose operation traces are replayed by the compiled Lean driver; impl-side monitors produce the concrete failing input"}],
 "checks": [], "notes": "see DESIGN.md; known findings in KNOWN_FINDINGS.txt", "not_applicable": []}
for p in props:
    pid = p["id"]
    if pid in checks.CHECKS:
        cfg = checks.CHECKS[pid]
        man["checks"].append({
          "property_id": pid, "quick_cmd": "./check %s --tier quick" % pid, "thorough_cmd": "./check %s --tier thorough" % pid,
          "evidence_file": "evidence/%s.json" % pid, "replay_cmd_template": "./check %s --replay {path}" % pid,
          "engine": "lean4-proof+correspondence",
          "level_claimed": {"category": "proof",
             "text": cfg.get("level_text", "Lean 4 theorems (%s) about an executable model whose constants/conditions/step boundaries are regenerated from the Go source on every run; the model is replayed against the real code by the correspondence harness" % ", ".join(cfg["obligations"][:4])),
             "design_ref": "DESIGN.md section 7 / %s" % pid},
          "level_note": cfg.get("level_note", NOTES.get(pid, "")) + "; extractor + harness + driver are trusted",
          "technique": cfg.get("technique", "Lean 4 proof over executable model + regenerated facts (go/ast) + differential correspondence")})
    else:
        man["not_applicable"].append({"property_id": pid, "reason": "not claimed yet: check under construction in this build round (see DESIGN.md section 7 for the planned model and theorems)"})
json.dump(man, open(os.path.join(ROOT, "MANIFEST.json"), "w"), indent=1)
print("claimed:", [c["property_id"] for c in man["checks"]])
