#!/bin/sh
# usage: tools/quicksweep.sh [seeds...]  — every check's quick tier for each seed on the unchanged /repo; one verdict line per run
SEEDS="$@"; [ -z "$SEEDS" ] && SEEDS="2 3 4 5 6 7"
./setup.sh > setup.log 2>&1 || { echo "setup failed"; tail -5 setup.log; exit 1; }
for s in $SEEDS; do
  for id in C01 C02 C03 C04 C05 C06 C07 C08 C09 C10 C11 C12 C13 C14 C15 C16 C17 C18 C19 C20; do
    res=$(./check $id --tier quick --seed $s 2>&1 | grep "^OK\|^VIOLATION\|^BROKEN" | cut -c1-200 | tr '\n' ' ')
    echo "seed=$s $id: $res"
  done
done
