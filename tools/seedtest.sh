#!/bin/sh
# usage: tools/seedtest.sh <seeded-dir (contains patch.diff)> <Cxx> [more checks...]
# Applies the seeded change to a scratch worktree of /repo HEAD (never to /repo), runs the named checks there, removes the worktree.
set -e
D=$1; shift
WT=/tmp/wt-seed-$$
git -C /repo worktree add --detach $WT HEAD -q
trap 'git -C /repo worktree remove --force '$WT' 2>/dev/null || true' EXIT
git -C $WT apply "$(cd "$D" && pwd)/patch.diff"
cd /verif
for id in "$@"; do
  echo "== $id on $(basename $D)"
  VERIF_REPO=$WT ./check $id ${VERIF_TIER:+--tier $VERIF_TIER} | cut -c1-900 || true
done
