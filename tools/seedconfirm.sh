#!/bin/sh
# usage: tools/seedconfirm.sh <seeded-dir> <package dir relative to repo> <Test regex>
# confirms in a scratch worktree: existing tests of the package pass with the change; the demo fails with it and passes without it
D=$(cd "$1" && pwd); PKG=$2; RX=$3
WT=/tmp/wt-confirm-$$
git -C /repo worktree add --detach $WT HEAD -q
cd $WT
export GOTOOLCHAIN=local GOFLAGS=-mod=mod GOPROXY=off GOSUMDB=off
GO=/root/go/pkg/mod/golang.org/toolchain@v0.0.1-go1.24.2.linux-amd64/bin/go
git apply $D/patch.diff
echo "build on changed: $($GO build ./... 2>&1 | tail -1)"
echo "existing tests on changed: $($GO test -count=1 -timeout 600s ./$PKG/ 2>&1 | grep -v '^time=' | tail -1)"
cp $D/*_test.go $PKG/
echo "demo on changed: $($GO test -count=1 -timeout 600s -run "$RX" ./$PKG/ 2>&1 | grep -v '^time=' | tail -1)"
git checkout -- . 
echo "demo on unchanged: $($GO test -count=1 -timeout 600s -run "$RX" ./$PKG/ 2>&1 | grep -v '^time=' | tail -1)"
cd /verif; git -C /repo worktree remove --force $WT
