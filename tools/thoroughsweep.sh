#!/bin/sh
# usage: tools/thoroughsweep.sh [seeds...]   (from a checkout of /verif; meant for `vp run -- sh tools/thoroughsweep.sh 1 2 3`)
# runs setup, then every check's thorough tier on the unchanged /repo for each seed; prints one verdict line per run
SEEDS="$@"; [ -z "$SEEDS" ] && SEEDS="1 2 3"
./setup.sh > setup.log 2>&1 || { echo "setup failed"; tail -5 setup.log; exit 1; }
for s in $SEEDS; do
  for id in C01 C02 C03 C04 C05 C06 C07 C08 C09 C10 C11 C12 C13 C14 C15 C16 C17 C18 C19 C20; do
    t0=$(date +%s)
    res=$(./check $id --tier thorough --seed $s 2>&1 | grep "^OK\|^VIOLATION\|^BROKEN" | cut -c1-220 | tr '\n' ' ')
    echo "seed=$s $id $(( $(date +%s) - t0 ))s: $res"
  done
done
