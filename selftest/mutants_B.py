#!/usr/bin/env python3
"""Mutation self-test for C05 and C09: applies each mutant to a scratch worktree of /repo, runs ./check, restores.
usage: selftest/mutants_B.py C05|C09 [name-substring]"""
import os, subprocess, sys, json, re
ROOT = os.path.dirname(os.path.dirname(os.path.abspath(__file__)))
WT = "/tmp/wt-B-selftest"
GO = "/root/go/pkg/mod/golang.org/toolchain@v0.0.1-go1.24.2.linux-amd64/bin/go"

M = {
 "C05": [
  ("body-single-read", "internal/common/tls.go",
   "return io.ReadFull(tls.Conn, buffer[:dataLength])", "return tls.Conn.Read(buffer[:dataLength])"),
  ("two-underlying-writes", "internal/common/tls.go",
   "\t*writeBuf = append(*writeBuf, in...)\n\tn, err = tls.Conn.Write(*writeBuf)\n",
   "\t_, err = tls.Conn.Write(*writeBuf)\n\tif err != nil {\n\t\treturn 0, err\n\t}\n\tn, err = tls.Conn.Write(in)\n\tn += recordLayerLength\n"),
  ("oversize-off-by-one", "internal/common/tls.go", "if dataLength > len(buffer) {", "if dataLength >= len(buffer) {"),
  ("limit-16384", "internal/common/tls.go", "if msgLen > 1<<14+256 {", "if msgLen > 1<<14 {"),
  ("len-hi-byte-shift", "internal/common/tls.go", "byte(msgLen>>8), byte(msgLen&0xFF))", "byte(msgLen>>7), byte(msgLen&0xFF))"),
  ("header-single-read", "internal/common/tls.go",
   "_, err = io.ReadFull(tls.Conn, buffer[:recordLayerLength])", "_, err = tls.Conn.Read(buffer[:recordLayerLength])"),
  ("ws-no-write-mutex", "internal/common/websocket.go",
   "\tws.writeM.Lock()\n\terr := ws.WriteMessage(websocket.BinaryMessage, data)\n\tws.writeM.Unlock()\n",
   "\terr := ws.WriteMessage(websocket.BinaryMessage, data)\n"),
  ("equivalent-rewrite(must pass)", "internal/common/tls.go", "if dataLength > len(buffer) {", "if !(len(buffer) >= dataLength) {"),
 ],
 "C09": [
  ("goweb-one-byte-short", "internal/server/dispatcher.go", "_, err = webConn.Write(data)", "_, err = webConn.Write(data[:len(data)-1])"),
  ("close-on-bad-method", "internal/server/dispatcher.go",
   "\t\t}).Error(ErrBadProxyMethod)\n\t\tgoWeb()\n", "\t\t}).Error(ErrBadProxyMethod)\n\t\tconn.Close()\n"),
  ("oversize-off-by-one", "internal/server/dispatcher.go", "if dataLength+recordLayerLength > len(buf) {", "if dataLength+recordLayerLength >= len(buf) {"),
  ("no-recover-parseKeyShare", "internal/server/TLSAux.go",
   "\tdefer func() {\n\t\tif r := recover(); r != nil {\n\t\t\terr = errors.New(\"malformed key_share\")\n\t\t}\n\t}()\n", ""),
  ("no-recover-parseClientHello", "internal/server/TLSAux.go",
   "\tdefer func() {\n\t\tif r := recover(); r != nil {\n\t\t\terr = errors.New(\"Malformed ClientHello\")\n\t\t}\n\t}()\n", ""),
  ("no-recover-parseExtensions (masked by parseClientHello's guard; must pass)", "internal/server/TLSAux.go",
   "\tdefer func() {\n\t\tif r := recover(); r != nil {\n\t\t\terr = errors.New(\"Malformed Extensions\")\n\t\t}\n\t}()\n", ""),
  ("unrecognised-closes", "internal/server/dispatcher.go", "return bufOffset, transport, true, ErrUnrecognisedProtocol", "return bufOffset, transport, false, ErrUnrecognisedProtocol"),
  ("ws-byte-0x48", "internal/server/dispatcher.go", "case 0x47:", "case 0x48:"),
  ("header-read-not-full", "internal/server/dispatcher.go", "i, err := io.ReadFull(conn, buf[bufOffset:recordLayerLength])", "i, err := conn.Read(buf[bufOffset:recordLayerLength])"),
  ("server-banner-on-reject", "internal/server/dispatcher.go",
   "\t\t}).Warn(err)\n\t\tgoWeb()\n", "\t\t}).Warn(err)\n\t\tconn.Write([]byte(\"HTTP/1.1 400 Bad Request\\r\\n\\r\\n\"))\n\t\tgoWeb()\n"),
  ("copy-to-peer-missing", "internal/server/dispatcher.go", "\t\tgo common.Copy(conn, webConn)\n", "\t\tgo func() { buf := make([]byte, 1); webConn.Read(buf) }()\n"),
  ("prefix-written-twice", "internal/server/dispatcher.go", "\t\t_, err = webConn.Write(data)\n", "\t\twebConn.Write(data)\n\t\t_, err = webConn.Write(data)\n"),
  ("line-terminator-lf-only", "internal/server/dispatcher.go", "if bytes.Equal(line, []byte(\"\\r\\n\")) {", "if bytes.Equal(line, []byte(\"\\n\")) {"),
  ("equivalent-rewrite(must pass)", "internal/server/dispatcher.go", "if dataLength+recordLayerLength > len(buf) {", "if len(buf) < recordLayerLength+dataLength {"),
 ],
}

def sh(cmd, **kw):
    return subprocess.run(cmd, stdout=subprocess.PIPE, stderr=subprocess.STDOUT, text=True, **kw)

def main():
    pid = sys.argv[1]
    flt = sys.argv[2] if len(sys.argv) > 2 else ""
    sh(["git", "-C", "/repo", "worktree", "remove", "--force", WT])
    r = sh(["git", "-C", "/repo", "worktree", "add", "--detach", WT, "HEAD"])
    if r.returncode != 0:
        print(r.stdout); sys.exit(2)
    rows = []
    try:
        for name, f, old, new in M[pid]:
            if flt and flt not in name:
                continue
            p = os.path.join(WT, f)
            src = open(p).read()
            if src.count(old) != 1:
                print("MUTANT %s: pattern occurs %d times" % (name, src.count(old))); continue
            open(p, "w").write(src.replace(old, new))
            b = sh([GO, "build", "./..."], cwd=WT, env=dict(os.environ, GOTOOLCHAIN="local", GOFLAGS="-mod=mod", GOPROXY="off", GOSUMDB="off"))
            r = sh([os.path.join(ROOT, "check"), pid], env=dict(os.environ, VERIF_REPO=WT))
            open(p, "w").write(src)
            lines = [l for l in r.stdout.splitlines() if "conda" not in l.lower()]
            verdict = lines[-1] if lines else "?"
            broken = [l[:160] for l in lines if l.startswith("BROKEN")]
            sig = ""
            m = re.search(r"replay=(\S+)", verdict)
            if m and os.path.exists(m.group(1)):
                d = json.load(open(m.group(1)))
                sig = d.get("signature", "") + " | broken: " + "; ".join("%s:%s" % (x["stage"], x["name"]) for x in d.get("broken", d.get("no_longer_checks", [])))
                if "failing_input" in d:
                    sig += " | input: " + json.dumps(d["failing_input"])[:200]
            print("== %s (compiles=%s)\n   %s\n   %s\n   %s" % (name, b.returncode == 0, verdict, sig, " / ".join(broken)[:300]))
            sys.stdout.flush()
    finally:
        sh(["git", "-C", "/repo", "worktree", "remove", "--force", WT])
        sh([os.path.join(ROOT, "check"), pid])   # regenerate Gen/ from the real tree

main()
