#!/usr/bin/env python3
"""Mutation self-test for C18 and C20 (engineer F).  Usage: selftest/mutants_F.py [C18|C20] [name ...]

Creates a scratch worktree of /repo under /tmp/wt-F-mut, applies the four planned fixes (fixes/C18-*.patch,
fixes/C20-keepalive.patch) so that the base is a tree on which both checks are OK, applies ONE mutant, runs
`VERIF_REPO=/tmp/wt-F-mut ./check Cxx`, prints what the check reported, reverts, next mutant.  The worktree is
removed at the end.  A mutant = (property, name, file, old text, new text)."""
import json, os, subprocess, sys

ROOT = os.path.dirname(os.path.dirname(os.path.abspath(__file__)))
WT = "/tmp/wt-F-mut"
LM = "internal/server/usermanager/localmanager.go"
AR = "internal/server/usermanager/api_router.go"
UP = "internal/server/userpanel.go"
ST = "internal/client/state.go"

MUTANTS = [
    # ---- C18: the three pinned defects, one at a time (Appendix F "(pinned) three defects") ----
    ("C18", "pinned-a-mismatch-no-return", AR,
     '\t\thttp.Error(w, "UID mismatch", http.StatusBadRequest)\n\t\treturn\n', '\t\thttp.Error(w, "UID mismatch", http.StatusBadRequest)\n'),
    ("C18", "pinned-b-unguarded-decode", LM,
     "\tif len(b) < 8 {\n\t\treturn 0\n\t}\n", ""),
    ("C18", "pinned-c-no-rate-refusal", UP,
     "\tif upRate <= 0 || downRate <= 0 {\n\t\treturn nil, ErrNonPositiveRate\n\t}\n", ""),
    # Appendix F: "accept negative SessionsCap as given"
    ("C18", "negative-sessionscap-as-given", LM,
     'sessionsCap = int(u32(bucket.Get([]byte("SessionsCap"))))', 'sessionsCap = int(int32(u32(bucket.Get([]byte("SessionsCap")))))'),
    # why_tests_cant: "zero or negative rates": only zero refused
    ("C18", "rate-guard-misses-negative", UP, "if upRate <= 0 || downRate <= 0 {", "if upRate == 0 || downRate == 0 {"),
    # own 1: no `return` after the JSON decode error: a body that fails to decode half-way (type error) is written
    ("C18", "badjson-no-return", AR,
     "\terr = json.NewDecoder(r.Body).Decode(&uinfo)\n\tif err != nil {\n\t\thttp.Error(w, err.Error(), http.StatusBadRequest)\n\t\treturn\n\t}",
     "\terr = json.NewDecoder(r.Body).Decode(&uinfo)\n\tif err != nil {\n\t\thttp.Error(w, err.Error(), http.StatusBadRequest)\n\t}"),
    # own 2: copy-paste in ListAllUsers: ExpiryTime read from the UpCredit key (needs UpCredit != ExpiryTime to show)
    ("C18", "list-expiry-from-upcredit", LM,
     'uinfo.ExpiryTime = JustInt64(int64(u64(bucket.Get([]byte("ExpiryTime")))))\n\t\t\tinfos = append',
     'uinfo.ExpiryTime = JustInt64(int64(u64(bucket.Get([]byte("UpCredit")))))\n\t\t\tinfos = append'),
    # own 3: an update also resets a field that was not mentioned (partial update semantics lost)
    ("C18", "update-clears-unmentioned-downrate", LM,
     "\t\tif u.DownRate != nil {\n\t\t\tif err = bucket.Put([]byte(\"DownRate\"), i64ToB(*u.DownRate)); err != nil {\n\t\t\t\treturn err\n\t\t\t}\n\t\t}",
     "\t\tif u.DownRate != nil {\n\t\t\tif err = bucket.Put([]byte(\"DownRate\"), i64ToB(*u.DownRate)); err != nil {\n\t\t\t\treturn err\n\t\t\t}\n\t\t} else {\n\t\t\t_ = bucket.Delete([]byte(\"DownRate\"))\n\t\t}"),
    # own 4: GET of an unknown user answers 200 with an empty record (the NotFound branch no longer returns)
    ("C18", "get-notfound-no-return", AR,
     "\t\thttp.Error(w, ErrUserNotFound.Error(), http.StatusNotFound)\n\t\treturn\n", "\t\thttp.Error(w, ErrUserNotFound.Error(), http.StatusNotFound)\n"),
    # own 5: DELETE answers 200 but deletes nothing
    ("C18", "delete-is-a-noop", LM, "\t\treturn tx.DeleteBucket(UID)\n", "\t\t_ = UID\n\t\treturn nil\n"),
    # ---- C20 ----
    ("C20", "pinned-keepalive", ST, "remote.KeepAlive = time.Duration(raw.KeepAlive) * time.Second", "remote.KeepAlive = remote.KeepAlive * time.Second"),
    # Appendix F
    ("C20", "streamtimeout-default-changed", ST, "local.Timeout = 300 * time.Second", "local.Timeout = 30 * time.Second"),
    ("C20", "aes-gcm-synonym-dropped", ST, 'case "aes-gcm", "aes-256-gcm":', 'case "aes-256-gcm":'),
    # why_tests_cant: a field parsed but then mis-scaled / dropped
    ("C20", "streamtimeout-misscaled", ST, "local.Timeout = time.Duration(raw.StreamTimeout) * time.Second", "local.Timeout = time.Duration(raw.StreamTimeout) * time.Millisecond"),
    ("C20", "numconn-zero-not-singleplex", ST, "if raw.NumConn <= 0 {", "if raw.NumConn < 0 {"),
    # own: needs something specific to manifest
    ("C20", "browsersig-case-sensitive", ST, "switch strings.ToLower(raw.BrowserSig) {", "switch raw.BrowserSig {"),
    ("C20", "cdn-path-default-empty", ST, '\t\t\traw.CDNWsUrlPath = "/"\n', '\t\t\traw.CDNWsUrlPath = ""\n'),
    ("C20", "ssv-udp-quoted", ST, 'unquoted := []string{"NumConn", "StreamTimeout", "KeepAlive", "UDP"}', 'unquoted := []string{"NumConn", "StreamTimeout", "KeepAlive"}'),
    ("C20", "empty-alternative-names-kept", ST, "if len(alternativeName) > 0 {", "if len(alternativeName) >= 0 {"),
    ("C20", "pubkey-length-unchecked", "internal/ecdh/curve25519.go", "if len(data) != 32 {", "if len(data) > 32 {"),
]

def sh(cmd, **kw):
    return subprocess.run(cmd, shell=True, stdout=subprocess.PIPE, stderr=subprocess.STDOUT, text=True, **kw).stdout

def main():
    args = sys.argv[1:]
    sh("git -C /repo worktree remove --force %s" % WT)
    print(sh("git -C /repo worktree add --detach %s HEAD" % WT).strip().splitlines()[-1])
    try:
        for p in sorted(os.listdir(os.path.join(ROOT, "fixes"))):
            if p.endswith(".patch") and (p.startswith("C18-") or p.startswith("C20-")):
                out = sh("git -C %s apply %s" % (WT, os.path.join(ROOT, "fixes", p)))
                if out.strip():
                    print("apply", p, out)
        rows = []
        for prop, name, path, old, new in MUTANTS:
            if args and prop not in args and name not in args:
                continue
            full = os.path.join(WT, path)
            if not os.path.exists(full):
                cands = sh("grep -rl 'func Unmarshal' %s/internal/ecdh" % WT).split()
                full = cands[0] if cands else full
            src = open(full).read()
            if src.count(old) != 1:
                print("MUTANT %s/%s: pattern occurs %d times in %s -- skipped" % (prop, name, src.count(old), path))
                continue
            open(full, "w").write(src.replace(old, new))
            build = sh("cd %s && GOTOOLCHAIN=local GOFLAGS=-mod=mod GOPROXY=off GOSUMDB=off /root/go/pkg/mod/golang.org/toolchain@v0.0.1-go1.24.2.linux-amd64/bin/go build ./... 2>&1 | grep -v conda | tail -3" % WT)
            out = sh("cd %s && VERIF_REPO=%s ./check %s 2>&1 | grep -v conda" % (ROOT, WT, prop))
            open(full, "w").write(src)
            last = out.strip().splitlines()[-1] if out.strip() else "(no output)"
            sig, broken = "", []
            rp = os.path.join(ROOT, "replays", "%s-quick-1.json" % prop)
            if "VIOLATION" in last and os.path.exists(rp):
                d = json.load(open(rp))
                sig = d.get("signature", "")
                broken = [(b["stage"], b["name"]) for b in d.get("broken", d.get("no_longer_checks", []))]
                fi = d.get("failing_input")
                extra = ""
                if isinstance(fi, dict) and "distinct_signatures" in fi:
                    extra = " | all: " + "; ".join(sorted(fi["distinct_signatures"].keys()))
                sig += extra
                if isinstance(fi, dict):
                    keep = {k: fi[k] for k in ("op", "status", "json_body", "panic", "returned", "observed", "documented", "error", "db_before", "db_after",
                                               "json", "tag") if k in fi}
                    keep.update({k: v for k, v in fi.items() if k.startswith("expected_")})
                    if "json" in keep:
                        keep.pop("op", None)
                    if "script" in fi:
                        keep["script_tail"] = fi["script"][-3:]
                    sig += " || input: " + json.dumps(keep)[:1500]
                elif broken and isinstance(d.get("no_longer_checks"), list):
                    det = d["no_longer_checks"][0].get("detail")
                    sig += " || " + (json.dumps(det) if not isinstance(det, str) else det)[:300]
            rows.append((prop, name, "compiles" if not build.strip() else "BUILD: " + build.strip()[:80], last.split(" replay=")[0] + (" no-failing-input-found" if "no-failing-input-found" in last else ""), broken, sig))
            print("| %s | %s | %s | %s | %s | %s |" % rows[-1])
            sys.stdout.flush()
    finally:
        sh("git -C /repo worktree remove --force %s" % WT)

if __name__ == "__main__":
    main()
