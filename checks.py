"""Per-property configuration of ./check: Lean obligations (audited with #print axioms on every run),
harness scenarios, reset ops of the line protocol, and the text that goes into the evidence."""

TRUSTED_BASE = [
    "Lean 4.33.0 kernel; axioms allowed: propext, Classical.choice, Quot.sound (audited per theorem on every run)",
    "tools/extract (go/ast pattern matcher + expression translator) regenerating lean/CloakModel/Gen/*.lean",
    "harness (go build -overlay into the Cloak module) + cloakdriver line protocol + canonicalisation",
    "Go runtime/stdlib and third-party libraries behave as documented (modelled, not verified)",
]

import os, glob, importlib.util

CHECKS = {}
for _f in sorted(glob.glob(os.path.join(os.path.dirname(os.path.abspath(__file__)), "checks_d", "C*.py"))):
    _spec = importlib.util.spec_from_file_location("checks_d_" + os.path.basename(_f)[:-3], _f)
    _m = importlib.util.module_from_spec(_spec)
    _spec.loader.exec_module(_m)
    CHECKS[os.path.basename(_f)[:-3]] = _m.CHECK
