CHECK = {
    "obligations": ["C07.gen_bypass_key", "C07.gen_proxy_book", "C07.c06_method_found", "C07.c07_method_served_only", "C07.pinned_mixed_case_refused", "C07.gen_dh", "C07.c07_sound", "C07.c07_else_web", "C07.c07_admin_gate", "C07.c07_window_exact", "C07.c07_sealed_to_server_key",
                    "C07.gen_admin_gate", "C07.gen_enc", "C07.gen_db_authn", "C07.gen_db_authz", "C07.gen_structure", "C07.gen_getsession_refusal",
                    "C07.c07_handled", "C07.c07_not_accepted_web", "C07.c07_refused_session_web", "C07.c07_stall_pinned_witness", "C07.dispatchInfo_no_stall",
                    "C07.dispatchInfo_entitled", "C07.authFrag_ok", "C07.dbAuthenticate_iff", "HS.window_exact", "HS.gen_tol"],
    "scenarios": ["C07"],
    "reset_ops": ["auth.new"],
    "timeout": {"quick": 300, "thorough": 2400},
    "rule": "real AuthFirstPacket and dispatchConnection (in-memory conns, real bbolt store) on: genuine first packets x {TLS chrome/firefox/safari, WebSocket} with "
            "single bits flipped (quick: first 160 bytes + key-share/hidden region + 300 random bits per flavour; thorough: every bit of all four), random multi-byte edits (overwrite/truncate/insert/delete), server clock at ts +-{179 s, 180 s-1 ns, 180 s, 180 s+1 ns, 181 s} and 0, +-1 ns, "
            "wrong server key, unknown UID, zero/negative credit, expiry = now-1 / now, session cap 0/1, credit withdrawn while active, unknown/case-changed/12-byte/empty method, "
            "encryption methods 0..5,128,255, admin UID x sid {0,7}, other UIDs with sid 0, no admin configured, replay, truncated / oversize / foreign framing. "
            "non-trivial = the packet differs from a genuine one or the server state is not the default; distinct by (flavour, bit | edit | case)",
    "assumptions": ["Lawful.open_sound (GCM decryption is deterministic: what opens is the sealing of what it opens to) for the 'encrypted to the server key, unmodified' reading of c07_sound; "
                    "that nobody without the ephemeral secret or the server's private key can PRODUCE such a sealing is the cryptographic strength of AES-GCM/X25519 and is outside the model",
                    "net/http.ReadRequest and base64 (WebSocket transport) are not modelled: the decoded hidden header is an ORACLE value",
                    "bbolt reads return what was written (real store used in T2)",
                    "time.Time arithmetic without overflow"],
    "trusted": ["crypto ORACLE: golang.org/x/crypto/curve25519 and crypto/aes+cipher called directly by the harness"],
}
