CHECK = {
    "obligations": ["C07.c07_sound", "C07.c07_window_exact", "C07.c07_admin_gate", "C07.c07_else_web", "C07.gen_structure"],
    "scenarios": ["C07"],
    "reset_ops": ["auth.new"],
    "timeout": {"quick": 300, "thorough": 2400},
    "rule": "TODO",
    "assumptions": [],
}
