CHECK = {
        "obligations": ["C09.c09_exact", "C09.c09_complete_redirects", "C09.c09_close_only_iff_ran_out", "C09.c09_prefix_stable",
                        "C09.c09_silent", "C09.c09_total", "C09.c09_target_unavailable", "C09.c09_unavailable_pinned_witness",
                        "C09.c09_reply_partial", "C09.c09_reply_witness", "C09.gen_goweb_errors", "FPS.relay_closes", "FPS.live_reply", "C09.readFirstPacket_flat", "C09.wsScan_flat",
                        "C09.gen_buf", "C09.gen_first", "C09.gen_bytes", "C09.gen_hdr", "C09.gen_len", "C09.gen_oversize", "C09.gen_body",
                        "C09.gen_crl_loop", "C09.gen_crl", "C09.gen_term", "C09.gen_redir", "C09.gen_shape", "C09.gen_actions",
                        "C09.gen_goweb", "C09.gen_recover",
                        "C09T.split_join", "C09T.split_host", "C09T.split_host_port", "C09T.split_bracket", "C09T.split_bare_v6", "C09T.redirSplit_total", "C09T.parseRedirAddr_no_panic",
                        "C09T.c09_target_with_port", "C09T.c09_target_default_port", "C09T.c09_target_unresolvable", "C09T.odd_empty_port", "C09T.odd_bracket_no_colon", "C09T.odd_bracket_no_port", "C09T.odd_empty",
                        "C09T.isBypass_iff", "C09T.c07_bypass_wellformed", "C09T.bypass_short_entry_witness", "C09T.key_length", "C09T.gen_key_len", "C09T.gen_admin_added",
                        "C09T.lower_idem", "C09T.parseEntry_spec", "C09T.parseEntry_no_panic", "C09T.parseProxyBook_no_panic", "C09T.gen_book_networks", "C09T.book_unknown_network_dropped",
                        "C09T.gen_structure", "C09T.gen_init_exprs",
                        "FPS.fpFlat_conserve", "FPS.fpFlat_close", "FPS.fpFlat_stable", "FPS.fpFlat_bound", "FPS.relay_fold", "Rec.readFull_spec"],
        "lean_module": "CloakModel.Props.C09All",
        "scenarios": ["C09", "C09target"],
        "reset_ops": ["fp.read", "fp.run"],
        "rule": "C09target: RedirAddr in the documented forms (host / host:port / [v6]:port / bare v6; v4, v6 full and compressed, zones, v4-mapped, names that do and do not resolve offline), 42 fixed odd texts, byte-level mutations; each through the real parseRedirAddr and through InitState + dispatchConnection with a recording RedirDialer (local addresses v4/v6/unparsable); bypass tables with entries of 0..32 bytes x uids (entry, padded, truncated, one byte off, tail of another entry, random); ProxyBooks (networks in every case, unknown networks, pairs of length 0..3, addresses that do not resolve); whole RawConfigs (cnc, database present/absent/unopenable, KeepAlive <=0 / >0, key lengths). "
                "C09: inputs: random bytes; every first byte value; 0x16 records of declared length 0,1,7,40,300,2994..2997,3000,16384,65535 (full / trailing bytes / "
                "truncated body / truncated header); genuine uTLS ClientHellos of 3 browsers with random Cloak fields (whole, trailing, truncated, bit-flipped, "
                "inner lengths broken, re-framed short); HTTP GETs with/without a (bogus, non-base64, short) hidden header, LF-only, bare G, body following; "
                "over-long lines and header blocks incl. a terminator ending at byte 2999/3000/3001; valid Cloak hellos (TLS x3 browsers, WebSocket) with unknown "
                "proxy method / unauthorised UID and their replays. readFirstPacket: every 1-cut of inputs <= 90 bytes, head/tail/random 1-cuts of longer ones, "
                "random multi-cuts. dispatchConnection in a synctest bubble with a scripted peer and RedirDialer target: 4+ segmentations x 2 (thorough 6) "
                "target scripts (t / t,p,t / p,t,te,p / t,pe,t / te / pe,t,te / none), peer ending by EOF or by the virtual 15 s deadline, chunks fed up-front or "
                "trickled to quiescence; one input per first-packet class (and the refused genuine hellos) with a RedirDialer whose Dial fails / whose conn fails its first Write. distinct by (input hash, cut positions, script)",
        "assumptions": ["net/http.ReadRequest, base64, AES-GCM and X25519 of the Go standard library do not panic (exercised, not modelled)",
                        "common.Copy goroutines: modelled as 'forward each chunk while both ends are open; the first EOF ends both and closes both conns' with every event processed to quiescence",
                        "a failed first write to the redirect target delivers nothing to it (the scripted conn fails the call outright)",
                        "the 15 s read deadline is honoured by the peer conn (virtual time in the harness)",
                        "what AuthFirstPacket/MakeObfuscator/ProxyBook/user lookup conclude is an input (Verdict) of the model; that only valid fresh hellos of authorised users escape the rejecting verdicts is C07/C08",
                        "c09_total: parser totality is tied through the recover() guards (T1) and exercised by mutated hellos (T2); the parsers themselves are not modelled here (C06's parser model)"],
        "trusted": ["net.ResolveIPAddr / ResolveTCPAddr / ResolveUDPAddr and net.SplitHostPort of the local address are EXTERNAL to Model/ServerConfig.lean: oracle tables computed by the harness with the same Go functions", "strings.ToLower is modelled on ASCII names only", "harness duplexEnd (blocking in-memory net.Conn honouring read deadlines) and testing/synctest quiescence"],
        "timeout": {"quick": 300, "thorough": 1800},
    }
