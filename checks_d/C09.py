CHECK = {
        "obligations": ["C09.gen_structure"],
        "scenarios": ["C09"],
        "reset_ops": ["fp.read", "fp.run"],
        "rule": "TBD",
        "assumptions": [],
        "timeout": {"quick": 300, "thorough": 1800},
    }
