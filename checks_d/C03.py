CHECK = {
        "obligations": ["C03.c03_close_after_data", "C03.c03_simultaneous", "C03.c03_local_close_keeps_buffer", "C03.c03_read_enabled",
                        "C03.sender_spec", "C03.gen_structure", "ST.gen_flags", "ST.gen_pipe_eof", "ST.pipeRead_eq", "ST.step_J", "ST.run_J",
                        "C02.write_sim", "C02.gen_fast", "C02.gen_stale", "C02.gen_loop",
                        "C03.c03_nothing_after_close", "C03.gen_chk_under_lock", "C03.gen_closing_payload", "C13.c13_chk_outside_witness"],
        "lean_module": "CloakModel.Props.C03Close",
        "scenarios": ["C03"],
        "reset_ops": ["st.new"],
        "rule": "pair of real Sessions (same key), every message captured and carried to the other side by the harness: (1) one sender run (<=3 data frames + closing frame on 1-3 connections) "
                "replayed at a fresh receiver in EVERY arrival order admissible under per-connection FIFO, reads interleaved; (2) random full-duplex scripts, 1-8 connections, "
                "writes of 0 bytes .. several frames, closes by either/both sides, frame limits 256/300/1000/default; (3) singleplex sessions; (4) zero bytes before close; "
                "(5) reader parked in Read, then peer close / local close / data / session close under testing/synctest. non-trivial = closing notice not delivered last, or a script with a close",
        "assumptions": ["each message is delivered at most once and per-connection order is FIFO (TCP)", "sync.Cond wake-ups behave as documented (exercised under synctest, not proved)",
                        "read deadlines / broadcastAfter timers are not used"],
        "trusted": ["C02 correspondence (RB model = streamBuffer.go) is checked by ./check C02; C03 re-exercises RB.write/read through st.recv/st.read"],
        "timeout": {"quick": 300, "thorough": 1800},
    }
