CHECK = {
    "obligations": ["C15.c15_same_session", "C15.c15_cap", "C15.c15_cap_zero", "C15.c15_exhausted", "C15.c15_exhausted_inactive",
                    "C15.c15_distinct_users", "C15.gen_authorise", "C15.gen_authenticate", "C15.gen_structure",
                    "Panel.created_spec", "Panel.joined_spec", "C15.loose_admits_cap_plus_one"],
    "scenarios": ["C15"],
    "reset_ops": ["sess.new"],
    "timeout": {"quick": 300, "thorough": 1200},
    "rule": "40 (quick) / 2000 (thorough) scripts x 3-8 waves of N = 2..32 simultaneous admissions (real GetUser/GetBypassUser + GetSession on goroutines "
            "released by one barrier) for one pair / one user several ids / several users, 1-3 limited users with caps 0..4 (also 20 and a stored -1), "
            "optionally a bypass user, credits 0/-1, expiry before/at/after now; between waves closures (incl. a user's last, sequentially), "
            "credit/expiry/cap edits, clock steps; a third of the waves with concurrent closures of other sessions. "
            "plus 5 (250) handshake scripts: 2-3 waves of 2..16 simultaneous REAL handshakes (client.DirectTLS.Handshake against dispatchConnection over "
            "in-memory connections) incl. an exhausted user that must be redirected: the key every client decrypts must be the joined session's key. "
            "non-trivial = a wave with at least one join, refusal or second creation; distinct by (script, wave, N, mode, outcome counts)",
    "assumptions": ["bbolt transactions are atomic", "one active record per user (C17's invariant; C15's generators never close a user's last session concurrently with an admission)",
                    "most admissions are driven through GetUser/GetSession as dispatchConnection calls them (the dispatcher's CloseSession-on-refusal is C17's race and is not replayed there); the handshake part goes through dispatchConnection itself"],
}
