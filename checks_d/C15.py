CHECK = {
    "obligations": ["C15.c15_same_session", "C15.c15_cap", "C15.c15_cap_zero", "C15.c15_exhausted", "C15.c15_exhausted_inactive",
                    "C15.c15_distinct_users", "C15.gen_authorise", "C15.gen_authenticate", "C15.gen_structure",
                    "Panel.created_spec", "Panel.joined_spec", "C15.loose_admits_cap_plus_one",
                    "C15.gen_refused_cleanup", "C15.c15_same_session_core", "C15.c15_connection_resolves_record",
                    "C15.c15_sibling_schedule", "C15.c15_refused_cleanup_witness", "C15.c15_cleanup_must_retire_witness",
                    "Panel.refusedCleanup_nonempty", "Panel.refusedCleanup_terminate_spec"],
    "scenarios": ["C15"],
    "reset_ops": ["sess.new"],
    "timeout": {"quick": 300, "thorough": 1200},
    "rule": "40 (quick) / 2000 (thorough) scripts x 3-8 waves of N = 2..32 simultaneous admissions (real GetUser/GetBypassUser + GetSession on goroutines "
            "released by one barrier) for one pair / one user several ids / several users, 1-3 limited users with caps 0..4 (also 20 and a stored -1), "
            "optionally a bypass user, credits 0/-1, expiry before/at/after now; between waves closures (incl. a user's last, sequentially), "
            "credit/expiry/cap edits, clock steps; a third of the waves with concurrent closures of other sessions. "
            "plus 5 (250) handshake scripts: 2-3 waves of 2..16 simultaneous REAL handshakes (client.DirectTLS.Handshake against dispatchConnection over "
            "in-memory connections) incl. an exhausted user that must be redirected: the key every client decrypts must be the joined session's key. "
            "plus the REFUSED connection as three separately scheduled steps (GetUser, GetSession refused, the dispatcher's clean-up of the user record run "
            "through VerifRefusedCleanup = the statement this tree's dispatchConnection executes): 4 scripted schedules (refused sibling / a slot frees by a "
            "closure of another session or by an admin edit / sibling creates / the refused one cleans up / third sibling arrives; refused first connection "
            "on an empty record; two refused siblings) and 40 (2000) seeded schedules of 20-45 steps (admissions for 1-2 users x 3 ids with caps 0..3, pending "
            "clean-ups at arbitrary later moments, closures of sessions that are not the user's last, cap/credit edits); at the end every attached pair is "
            "presented once more. non-trivial = a wave with at least one join, refusal or second creation, or a schedule with at least one clean-up; "
            "distinct by (script, wave, N, mode, outcome counts) / (schedule, clean-ups, clean-ups with a sibling session attached, terminations)",
    "assumptions": ["bbolt transactions are atomic", "one active record per user (C17's invariant; C15's generators never close a user's last session concurrently with an admission)",
                    "most admissions are driven through GetUser/GetSession as dispatchConnection calls them; in the simultaneous waves the refused connections do not run the dispatcher's clean-up "
                    "(it is driven step by step in the refused-connection schedules, by the statement the extractor found on the GetSession error path: Gen.Panel.refusedCleanupCall); the handshake part goes through dispatchConnection itself",
                    "there is no schedule point between GetSession's return and the clean-up in dispatchConnection: the clean-up statement is called by the shim, not by a parked dispatcher goroutine"],
}
