CHECK = {
        "obligations": ["C13.c13_gapfree", "C13.c13_wire_increasing", "C13.c13_section_exclusive", "C13.c13_order", "C13.c13_call_order", "C13.plsOf_prog", "C13.c13_nonce_unique", "C13.c13_nonce_unique_peer_ids", "C13T.c13_ids_never_reused", "C13T.gen_tombstones", "C13T.c13_forgetful_witness",
                        "C13.call_wf", "C13.gen_shape", "C13.gen_structure", "C13.gen_ids", "C13.c13_unlocked_witness",
                        "SN.step_inv", "SN.run_inv", "SN.step_Q",
                        "C13.c13_close_last", "C13.c13_one_closing", "C13.call_guarded", "C13.c13_chk_outside_witness", "SN.step_ci", "SN.run_ci"],
        "lean_module": "CloakModel.Props.C13Tomb",
        "scenarios": ["C13", "C13late"],
        "reset_ops": ["seq.new"],
        "rule": "late frames (scenario C13late, synctest virtual time): a frame of a stream closed at the accepting endpoint (by itself or by the peer) is held back while 3..1000 inactivity periods pass with another stream keeping the session alive, then arrives; the application writes on whatever Accept hands out; every message the endpoint sent is decoded and no (stream id, seq) may occur twice. "
                "real Session on tapped connections; concurrent Write (1 byte .. several frames) / ReadFrom / Close goroutines on one stream and on 2-6 streams, "
                "4 encryption methods, 1-4 connections, injected send failures, failed encodes, Close after joined writes; every message decoded with the real deobfuscate. "
                "Trace validation: the observed order of critical sections is replayed on the Lean interleaving model (seq.spawn/seq.run), which must assign the same numbers. "
                "non-trivial = script with more than one call; distinct by script",
        "assumptions": ["sync.Mutex provides mutual exclusion", "Go memory model inside a critical section", "sync.Pool hands out exclusive buffers",
                        "fewer than 2^32-2 streams per session and at most 2^64 frames per stream (guards of c13_nonce_unique)"],
        "trusted": ["tap order of one stream = order of its critical sections (the send is inside the section); the harness reconstructs the schedule from the numbers it observes"],
        "timeout": {"quick": 300, "thorough": 1800},
    }
