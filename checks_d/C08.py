CHECK = {
    "obligations": ["C08.c08_two_readings_witness", "C08.c08_once", "C08.c08_retention", "C08.c08_concurrent", "C08.c08_altered",
                    "C08.gen_evict_sound", "C08.gen_window_sound", "C08.gen_key_canonical", "C08.gen_structure",
                    "C08.step_sim", "C08.run_sim",
                    "C08.c08_retention_witness_pinned", "C08.c08_one_tol_insufficient", "C08.c08_altered_witness_pinned",
                    "C08.c08_concurrent_witness_split", "HS.window_exact", "HS.gen_tol"],
    "scenarios": ["C08"],
    "reset_ops": ["rc.new"],
    "timeout": {"quick": 300, "thorough": 1800},
    "rule": "virtual-time histories (testing/synctest, real UsedRandomCleaner, one subprocess each): the 3-step witness, the retention grid "
            "(first sighting 1 ns..400 s before a pass x client clock -100/0/+179 s x re-presentations 1 ns..178 s after it), multi-pass, random scripts; "
            "altered copies: every bit of random/session id/key share (TLS x chrome/firefox/safari, WebSocket hidden), other packet bits, multi-bit edits "
            "incl. bit 255, all presented after the original was accepted; n in {2,3,8,64} simultaneous presentations. "
            "non-trivial = a history that crosses a cleaner pass, an altered copy, or a concurrent batch; distinct by (kind, index, change)",
    "assumptions": ["INT and DH12 (explicit hypotheses of c08_once/c08_altered; jointly satisfiable with the laws: toy instance in Props/C08.lean)",
                    "X25519 ignores bit 255 (RFC 7748): hypothesis TopBit of the refutation witness only; validated against x/crypto by the harness on every run, not proved (no native Lean X25519 yet)",
                    "Go map + sync.RWMutex give mutual exclusion for the critical section the extractor saw",
                    "time.Time arithmetic without overflow; testing/synctest virtual clock"],
    "trusted": ["crypto ORACLE: golang.org/x/crypto/curve25519 and crypto/aes+cipher called directly by the harness",
                "for TLS packets the 32 random bytes fed to the cache machine are those the real parser extracted (parser itself is C06/C07's subject)"],
}
