CHECK = {
    "obligations": ["C07.gen_proxy_book", "C07.c06_method_found", "C07.pinned_mixed_case_refused", "C06.c06_fields", "C06.c06_reply", "C06.c06_reply_extract", "C06.c06_ws", "C06.c06_ws_carrier", "C06.c06_tls_carrier", "C06.parseClientHello_serialize", "C06.gen_hello_structure",
                    "HS.parseExts_correct", "HS.lookupExt_last", "HS.ksLoop_find", "HS.gen_ks",
                    "C06.serverHello_layout", "C06.gen_reply_structure", "C06.gen_ws_structure", "C06.gen_sNeed",
                    "HS.gen_client_layout", "HS.gen_server_layout", "HS.mkPlain_layout", "HS.window_exact",
                    # connector (client.MakeSession, common.backoff / RandRead / RandInt): Props/C06Connector.lean
                    "C06Connector.gen_structure", "C06Connector.gen_sleeps", "C06Connector.gen_fallback", "C06Connector.gen_config",
                    "C06Connector.gen_backoff_structure", "C06Connector.gen_randIntBound",
                    "C06Connector.mk_exactly_numConn", "C06Connector.mk_conns_succeeded", "C06Connector.mk_none_closed",
                    "C06Connector.mk_failed_closed", "C06Connector.mk_dial_fail_no_close", "C06Connector.mk_key_is_last",
                    "C06Connector.mk_key_agree", "C06Connector.mk_key_agree_witness", "C06Connector.mk_fallback_hsFail",
                    "C06Connector.mk_fallback_not_on_dialFail", "C06Connector.mk_fallback_private", "C06Connector.mk_fallback_run",
                    "C06Connector.mk_no_panic", "C06Connector.mk_zero_panics", "C06Connector.c20_numConn_pos", "C06Connector.mk_config",
                    "C06Connector.backoff_returned", "C06Connector.backoff_fatal", "C06Connector.backoff_total",
                    "C06Connector.randRead_full_witness", "C06Connector.randRead_full_partial", "C06Connector.randInt_range",
                    "C06ConnectorC15.sameKey_from_c15"],
    "lean_module": "CloakModel.Props.C06All",
    "scenarios": ["C06", "C06mk", "C06par"],
    "reset_ops": ["hs.oracle.reset"],
    "timeout": {"quick": 300, "thorough": 1800},
    "rule": "real handshakes in one process over in-memory connections: client DirectTLS.Handshake x {chrome, firefox, safari} and WSOverTLS.Handshake through a "
            "crypto/tls terminator playing the CDN, against readFirstPacket + AuthFirstPacket + Responder (and a subset through the whole dispatchConnection), "
            "x 4 encryption methods x session ids {0, 1, 2^31, 2^32-1, random} x both unordered flags x client clock offsets {-179 s, -60 s, 0, +60 s, +179 s, +179.999999999 s} "
            "x server names incl. 'random' x methods of 1..12 bytes, random UIDs and method bytes; composeReply byte for byte on random inputs. "
            "quick: 4 flavours x 4 x 5 x 2 cases with the other dimensions rotated + 80 random + 40 through dispatchConnection; thorough: the full product (240 per flavour x 6 clock offsets) + 4000 random + 400 through dispatchConnection. "
            "non-trivial: every handshake (fresh ephemeral key, uTLS-randomised hello); distinct by index. "
            "C06mk (connector): the real client.MakeSession in a testing/synctest bubble with a scripted Dialer (per attempt: dial failure / server hangs up / "
            "server answers garbage / server drops chrome hellos / the real dispatchConnection answers), NumConn 1..4 (thorough 1..8) x {chrome, firefox, safari}, "
            "14 (thorough 120) calls; per attempt the goroutine, the browser fingerprint the server saw and the virtual time are replayed by the Lean event machine, "
            "then key / connections / closed transports / options of the session; common.RandRead on scripted readers incl. the log.Fatal path (40 / 400), RandInt draws (40 / 400)",
    "assumptions": ["Lawful cipher interface (open.seal = id, tag length 16, DH commutativity, 32-byte outputs): true of AES-GCM / X25519, not proved here",
                    "uTLS emits a ClientHello that is a serialisation of the structural datatype of c06_tls_carrier with the given random / session id / X25519 share "
                    "(validated: every real hello of the run is parsed by the Lean parser and must agree with Go's parser)",
                    "net/http.ReadRequest, base64, gorilla/websocket framing, crypto/tls (the CDN) are not modelled",
                    "TLSConn.Read returns one whole record (C05)",
                    "connector: goroutines of MakeSession are modelled as interleaved atomic attempts (an attempt's dial, handshake, bookkeeping happen at one point of the history); "
                    "the order of _sessionKey.Store among simultaneous successes is not observable and taken to be the order of the dials in the replay",
                    "connector: SameKey (every successful handshake of one MakeSession call is given the same key) is the hypothesis of mk_key_agree; its server side is C15.c15_same_session "
                    "(restated as C06ConnectorC15.sameKey_from_c15), the client side C06.c06_reply; the cdn transport is not run through MakeSession (its fall-back behaviour is covered by gen_fallback only)",
                    "crypto/rand.Int returns a value below its bound and panics on a bound <= 0; a Close() on a DirectTLS without a connection is a nil dereference (library / language facts)"],
    "trusted": ["crypto ORACLE: golang.org/x/crypto/curve25519 and crypto/aes+cipher called directly by the harness"],
}
