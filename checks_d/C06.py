CHECK = {
    "obligations": ["C06.c06_fields", "C06.c06_reply", "C06.c06_reply_extract", "C06.c06_ws", "C06.c06_ws_carrier",
                    "C06.serverHello_layout", "C06.gen_reply_structure", "C06.gen_ws_structure", "C06.gen_sNeed",
                    "HS.gen_client_layout", "HS.gen_server_layout", "HS.mkPlain_layout", "HS.window_exact"],
    "scenarios": ["C06"],
    "reset_ops": ["hs.oracle.reset"],
    "timeout": {"quick": 300, "thorough": 1800},
    "rule": "TODO",
    "assumptions": [],
}
