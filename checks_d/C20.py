CHECK = {
        "obligations": ["C20.gen_udp_local_addr", "C20.c20_doc", "C20.c20_reject", "C20.c20_ssv_partial", "C20.gen_ssv", "C20.unescape_render", "CC.replaceAll_two", "C20.methods_exact", "C20.gen_structure", "C20.gen_numeric", "C20.gen_keepalive",
                        "C20.gen_pubkey", "C20.gen_altname", "C20.gen_tables", "C20.keepAlive_doc", "C20.timeout_doc",
                        "C20.numConn_doc", "C20.mockList_doc", "C20.transport_doc", "C20.pinned_keepalive", "C20.pinned_doc_false",
                        "C20.gen_parse", "C20.gen_main_derefs", "C20.c20_load_total", "C20.pinned_null_crashes",
                        "C20.c20_ssv_full_partial", "C20.ssv_semicolon_splits", "C20.c20_ssv_witness", "C20.ssv_mirrored_oddities",
                        "C20.gen_connect", "C20.processRaw_ok_fields", "C20.c20_no_crash_partial", "C20.c20_no_crash_witness",
                        "C20.c20_random_partial", "C20.c20_random_witness"],
        "scenarios": ["C20"],
        "reset_ops": ["cfg."],
        "rule": "logical configurations rendered as JSON and as the escaped option string: every presence/absence combination of the 9 optional keys "
                "(512) x 4 (thorough 60) value draws (mixed case names, `\\=` escapes in base64/paths/names, empty alternative names, IPv6 hosts, "
                "zero/negative/large numbers); each parsed through json.Unmarshal or ParseConfig(file) and ParseConfig(option string), both processed; "
                "the KeepAlive=5 witness; 360 (5400) invalid configurations (each mandatory key missing / empty, public key of wrong length, unknown method); "
                "600 (20000) arbitrary option strings over an alphabet with unescaped `; = \\ \" ,` for ssvToJson; "
                "12 configuration files whose top-level JSON value is null / not an object / the empty object (must end in an error, never (nil, nil)); "
                "3 CDN configurations whose CDNWsUrlPath contains `;` (option string with the SIP003 escape `\\;`); 14 small-order + 10 random PublicKey values "
                "through ProcessRawConfig and then makeAuthenticationPayload (first connection); ServerName random/RANDOM/Random/ordinary x direct (3 browsers) / CDN: "
                "SNI of three real ClientHellos each (DirectTLS.Handshake / WSOverTLS.Handshake against a pipe). "
                "non-trivial = at least one optional key present; distinct by (presence mask, draw)",
        "assumptions": ["encoding/json, net.JoinHostPort, file reading behave as documented (JSON decoding stays on the Go side)",
                        "strings.ToLower is a parameter of the theorems; the driver and the generators use ASCII",
                        "durations representable as time.Duration (hypothesis Fits of c20_doc)",
                        "StreamTimeout default 300 s: README does not state it; taken from example_config/ckclient.json and the RawConfig comment",
                        "curve25519.X25519 refuses exactly the small-order points (parameter dhFails of c20_no_crash_*; the harness asks the library itself)",
                        "the option-string escapes are those of ssvToJson's own unescape table (SIP003 plugin options): README.md does not describe the option-string syntax"],
        "trusted": ["harness/client/shim_c20.go (reads the unexported TransportConfig fields, exposes ssvToJson, makeAuthenticationPayload under recover, first record of a real Handshake over net.Pipe)"],
    }
