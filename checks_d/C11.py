CHECK = {
        "obligations": ["C11.c11_total", "C11.c11_auth_partial", "C11.only_12_13", "C11.c11_witness", "C11.c11_witness_general", "C11.forged_accepted",
                        "C11.c11_no_effect", "C11.c11_garbage_then_valid", "C11.gen_structure", "C11.gen_nonce_prefix", "C11.intC_ok", "C11.intC_INT",
                        "Codec.deobf_nf", "Codec.decode_honest"],
        "scenarios": ["C11"],
        "reset_ops": ["c11.base"],
        "timeout": {"quick": 600, "thorough": 3000},
        "rule": "for 12 (thorough 17) message sizes 1..4000 (..16132) under each of the three AEAD methods, base message from the real encoder (or the reference encoder with chosen padding): "
                "every single-bit flip at every position (sampled one bit per byte in the middle of messages > 300 B in quick), every truncation, extensions by 1..32 bytes, "
                "multi-byte corruptions, decoding under other keys / methods; arbitrary strings of length 0..20480 (all 0..64, limits, random) under all four methods into deobfuscate and "
                "into Session.recvDataFromRemote of a live session followed by a valid frame whose delivery is checked. The Lean decoder predicts accept/reject for every input. "
                "non-trivial = a base message with all its modification classes / a garbage batch / a session run",
        "assumptions": ["INT (AEAD ciphertext integrity) is a hypothesis of c11_auth_partial, shown satisfiable by C11.intC_INT; the real ciphers are trusted",
                        "c11_auth_full is refuted (c11_witness): open finding, header bytes 12-13"],
        "trusted": ["native Lean Salsa20; AEAD answers come from Go's libraries as an oracle keyed by (nonce, ciphertext digest)"],
    }
