CHECK = {
        "obligations": ["C14.gen_goroutines_own_values", "C14.gen_stream_read_empty", "C14.c14_stream_short_partial", "C14.c14_stream_short_witness", "C14.c14_stream_zero_keeps", "C14.gen_return", "C14.c14_exactly_once", "C14.c14_inv", "C14.c14_fifo_whole", "C14.c14_short", "C14.c14_drain", "C14.c14_oversize", "C14.c14_oversize_cloak",
                        "C14.c14_isolation", "C14.sess_sim",
                        "E2EDg.c14_end_to_end", "E2EDg.c14_end_to_end_isolation", "E2EDg.wire_sim", "E2EDg.isEnc_exists", "E2EDg.sender_one_frame", "E2EDg.undecodable_dropped",
                        "C14D.gen_deadline", "C14D.gen_write_stores", "C14D.gen_timed_out", "C14D.no_deadline_is_plain", "C14D.timeout_keeps", "C14D.c14_deadline_fifo", "C14D.c14_timeout_sound", "C14D.c14_timeout_complete", "C14D.c14_returns_by_deadline", "C14D.c14_parked_means_empty",
                        "E2EDg.c14_end_to_end_bytes", "E2EDg.c14_end_to_end_bytes_isolation", "E2EDg.c14_one_conn_order", "E2EDg.labelled",
                        "C14.gen_eof", "C14.gen_has", "C14.gen_short", "C14.gen_closing", "C14.gen_fits", "C14.gen_loop", "C14.gen_max",
                        "C14.gen_max_cloak", "C14.gen_structure", "C14.write_eq", "C14.read_eq", "DgDemux.isolation",
                        "C14.c14_entry_whole", "C14.c14_entry_transparent", "C14.c14_readfrom_whole", "C14.c14_readfrom_stream_unchanged",
                        "C14.gen_entry", "C14.gen_readfrom", "C14.gen_readfrom_refuses", "C14.gen_readfrom_room",
                        "C14.c14_entry_pinned_witness", "C14.c14_entry_pinned_truncates", "C14.c14_readfrom_pinned_witness",
                        "C14R.gen_route_reuse", "C14R.gen_route_structure", "C14R.gen_route_tcp", "C14R.inv_step", "C14R.c14r_isolation_in", "C14R.c14r_isolation_back",
                        "C14R.c14r_table_sound", "C14R.c14r_singleplex", "C14R.c14r_table_complete_witness"],
        "lean_module": "CloakModel.Props.C14All",
        "scenarios": ["C14", "C14dl", "C14backlog", "C14route"],
        "reset_ops": ["dg.new", "dg.snew", "pdl.new", "rt.new"],
        "rule": "(e) lagging reader (scenario C14backlog): unordered session pairs, one stream receiving 90 x 16132 B / 300 x 4000 B / 2500 x 600 B (thorough: 1200 x 16132 B, 40000 x 300 B) while nobody reads, then drained: every datagram Stream.Write accepted must come out whole and in order. "
                "(d) read deadlines (scenario C14dl): seeded scripts on the real datagramBufferedPipe inside a synctest bubble: writes (data/empty/closing), reads that return, time out or park and are woken by a write / close / new deadline / the pipe's timer, deadlines set / moved / cleared / already expired, time passing across and exactly up to the deadline; every answer, every woken read and the queue compared with Model/PipeDeadline.lean; at the end the deadline is cleared and everything outstanding must come out whole and in order. "
                "(c) entry points from a UDP socket: Stream.ReadFrom on unordered streams fed by a packet-oriented source (one Read = one datagram, "
                "excess discarded; sizes 1..max-1, max, max+1, max+2, max+300, 40000, 65507 + seeded, four methods, limit default/16401) and by a byte source; "
                "the REAL client.RouteUDP bound to 127.0.0.1:0 (loopback UDP, real time, 4 s deadline + one retry; non-arrival is not a violation) with datagrams of "
                "1, 100, 8191, 8192, 8193, 9000, 16132, 16133, 30000.. bytes from 1 (3) local sockets; the peer stream must read each datagram whole or nothing of it. "
                "(a) seeded op scripts on the real datagramBufferedPipe (writes of 0..3200 bytes incl. closing frames, reads with capacity head-1/head/head+k/0, "
                "local close, final drain) + concurrent writers with short reads in between; (b) unordered Session pairs over an in-memory network, four "
                "encryption methods, MsgOnWireSizeLimit default/16401: every per-connection-FIFO arrival order of n<=5 datagrams over 8 connections and 1-3 "
                "streams (coverage of the n! orders reported in harness_stats), then seeded cases with sizes 1..max, max, max+1.., sequential and concurrent "
                "senders, dropped records, a stream closed mid-way. non-trivial = pipe script with a short read and >1 datagram read, or an arrival order "
                "different from the sending order; distinct by script index / (n, order)",
        "assumptions": ["bytes.Buffer behaves as a byte FIFO", "fewer than 2^31-1 bytes are buffered per stream (datagramBufferedPipe.Write never parks)",
                        "one reading goroutine per stream (RouteUDP's per-stream goroutine, common.Copy); read deadlines on a virtual clock (testing/synctest)", "records on one TCP connection arrive in order; across connections in any order"],
        "trusted": ["the session-level T rows label each captured record with (stream id, closing, payload) obtained from the session's own deobfuscate"],
        "timeout": {"quick": 300, "thorough": 1800},
    }
