CHECK = {
    "obligations": ["C01.gen_goroutines_own_values", "C01R.gen_relay", "C01R.c01_relay_partial", "C01R.c01_relay_witness", "C01R.c01_relay_repaired", "C01.gen_session_served", "C01.c01_prefix", "C01.c01_complete", "C01.c01_chunks_flatten", "C01.isolation", "C01.Pool.c01_pick_ok",
                    "C01.Pool.c01_pick_pinned_witness", "C01.gen_loop", "C01.gen_fits", "C01.gen_unit", "C01.gen_limits",
                    "C01.gen_structure", "C01.gen_publish", "C02.c02_reassembly", "C02.c02_prefix_always", "C02.gen_structure",
                    "E2E.c01_end_to_end", "E2E.c01_end_to_end_prefix", "E2E.wire_sim", "E2E.isEnc_exists", "C04.c04_roundtrip",
                    "E2E.c01_end_to_end_bytes", "E2E.c01_end_to_end_bytes_prefix", "E2E.conn_handed", "E2E.labelled", "C05.c05_roundtrip", "C05.gen_structure",
                    "C15.gen_structure", "C15.c15_same_session",
                    "C01D.gen_deadline_sp", "C01D.gen_pipe_buf_stable", "C01D.gen_timed_out", "C01D.c01_deadline_prefix", "C01D.sp_no_deadline_is_plain", "C01D.sp_timeout_keeps", "C01D.sp_timeout_sound", "C01D.sp_timeout_complete", "C01D.c01_returns_by_deadline"],
    "lean_module": "CloakModel.Props.C01All",
    "scenarios": ["C01", "C01dl", "C01backlog"],
    "reset_ops": ["ss.new", "spl.new"],
    "rule": "lagging reader (scenario C01backlog): ordered session pairs, 1.2-1.6 MB (thorough: 9 MB, 150 kB in one-byte writes) written on one stream while nobody reads, drained, then a tail; what is read must be exactly what was written. "
            "read deadlines (scenario C01dl): seeded scripts on the real streamBufferedPipe inside a synctest bubble (writes, reads that return / time out / park and are woken by a write, close, new deadline or the pipe's timer; deadlines set / moved / cleared / already expired; time passing across and exactly up to the deadline), every answer and the fill compared with Model/StreamPipeDeadline.lean; "
            "core rig: session pairs (4 methods, 1..8 connections, singleplex, 1..64 (..500 thorough) streams), writes of sizes {1,2,unit-1,unit,unit+1,2unit+3,random} "
            "in both directions, every captured record delivered by the harness in a seeded cross-connection order with reads/accepts interleaved, every step "
            "compared with the Lean session+reorder model; TLS rig: common.TLSConn over a byte stream cut at arbitrary positions (1 byte, inside headers, "
            "coalesced records), monitors only; addConn-vs-send schedule via VerifPoint. all cases non-trivial; distinct by configuration tag",
    "assumptions": ["goroutine scheduling inside deplex/Copy, sync.Map, sync.Pool buffer reuse: exercised by the correspondence runs only",
                    "all connections of one session carry the session's key: C15.c15_same_session + C15.gen_structure (GetSession's one critical section) are obligations here too (round-6 seed C01-7); concrete inputs for that come from C15's waves", "the ciphers (C04) and record framing (C05) lemmas are proved in their own properties; C01's theorems are about the receive/chunking composition"],
    "timeout": {"quick": 600, "thorough": 3600},
}
