CHECK = {
        "obligations": ["C05.c05_seg_independent", "C05.c05_roundtrip", "C05.c05_oversize", "C05.c05_oversize_record",
                        "C05.c05_no_truncation", "C05.c05_writers", "C05.c05_writers_read", "C05.c05_writers_witness2",
                        "C05.c05_writers_witness2_damage", "C05.tlsRead_spec", "C05.tlsWrite_eq",
                        "C05.gen_shortbuf", "C05.gen_oversize", "C05.gen_hdr_len", "C05.gen_body_len", "C05.gen_len_field",
                        "C05.gen_toolong", "C05.gen_len_bytes", "C05.gen_structure", "C05.gen_ws",
                        "Rec.readFull_spec"],
        "scenarios": ["C05"],
        "reset_ops": ["rec.open", "rec.readall", "rec.write", "rec.wopen"],
        "rule": "real common.TLSConn over an in-memory conn delivering the stream in chosen chunks: every 1-cut (incl. empty first/last chunk) and every 2-cut "
                "(incl. an empty middle chunk) of exchanges of 1..3 messages of 0..4 bytes; random multi-cuts/coalescing for message lengths 0..16640 "
                "(boundary lengths 0,1,255..257,16383..16385,16639,16640 always) and refused lengths above; reader buffers 0,1,4,5,L-1,L,L+1,L+5; "
                "malformed/truncated streams; 1..16 concurrent writer goroutines with every underlying Write logged and replayed through the Lean "
                "interleaving model; WebSocketConn over a gorilla pair on net.Pipe (monitor only); thorough adds loopback TCP. "
                "non-trivial = at least one cut / more than one writer / buffer smaller than the record; distinct by (exchange, cut positions)",
        "assumptions": ["io.ReadFull behaves as documented", "one net.Conn.Write is atomic with respect to other Writes on the same conn (TCP)",
                        "WebSocket half PARTIAL: gorilla/websocket delivers whole messages in order; only Cloak's mutex-and-loop logic is tied (gen_ws) and monitored",
                        "goroutine schedules of the writer test are whatever the Go scheduler produces (validated against the model, not enumerated)"],
        "trusted": ["harness chunkConn (segmenting in-memory net.Conn, logs each Write)"],
        "timeout": {"quick": 300, "thorough": 1500},
    }
