CHECK = {
    "obligations": ["C16.c16_conservation", "C16.c16_at_most_once", "C16.c16_no_cross_charge", "C16.c16_exact", "C16.c16_exact_after_round",
                    "C16.c16_cutoff", "C16.c16_cutoff_stays", "C16.gen_direction", "C16.gen_structure", "C16.gen_verdict",
                    "Acct.gen_upload_arith", "Acct.step_inv", "Acct.step_nonneg"],
    "scenarios": ["C16"],
    "reset_ops": ["acct.new"],
    "timeout": {"quick": 300, "thorough": 1200},
    "rule": "40 (quick) / 1500 (thorough) scripts of 25-55 (60-140) seeded operations on 1-3 limited users over a bbolt store: traffic on current and "
            "retired records' valves (incl. amounts that exhaust a credit exactly), updateUsageQueue, updateUsageQueueForOne (current / retired record), "
            "commitUpdate, activation, session open / close (incl. the last), TerminateActiveUser, top-ups, expiry edits, deletion and re-creation, "
            "clock steps; two VerifPoint-steered overlaps (traffic while updateUsageQueue sits between its locks; collection + commit while a "
            "last-session closure sits before TerminateActiveUser). Wire part (10 / 375 scripts): a real client Session and the user's server Session joined by a "
            "byte-counting in-memory connection, 2-5 request/reply exchanges through real streams: the valve must show exactly the bytes read from / written to "
            "the client and the credits must drop by exactly those amounts. Thorough tier and search: 40 runs of a commitUpdate loop against a traffic + "
            "updateUsageQueueForOne loop (3000 iterations each), exactness checked at the end. Monitors after every op: granted - stored <= carried per user and direction; "
            "equality at qualified quiescence; cut-off after every commit. non-trivial = more than one user or at least one termination; distinct by script",
    "assumptions": ["bbolt transaction atomicity; a failing UploadStatus (database fault) is out of scope",
                    "one active record per user (C17's invariant): generators do not re-activate a user while a termination of its record is parked",
                    "in the op-sequence part the harness adds traffic at the valve (metering points are tied by Gen facts and exercised by the wire part)"],
}
