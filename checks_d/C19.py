CHECK = {
        "obligations": ["C19.c19_upper_ns", "C19.c19_witness_any", "C19.c19_upper", "C19.c19_literal_when_fits", "C19.c19_witness", "C19.c19_user_partial", "C19.c19_reactivation_witness", "C19.c19_not_starved", "C19.runBL_is_run",
                        "C19.gen_structure", "C19.gen_full", "C19.gen_over", "C19.gen_refill", "C19.gen_nonpos", "C19.gen_after", "C19.gen_enough",
                        "C19.gen_endTick", "C19.gen_currentTick", "C19.gen_endTime", "C19.adjust_sim", "C19.take_sim", "C19.run_sim",
                        "TBS.c19_upper", "TBS.not_starved_core",
                        "C19.gen_rate_cap", "C19.c19_refill_fits", "C19.c19_wait_fits", "C19.gen_search", "C19.search_sound", "C19.c19_search_total", "C19.c19_made_buckets_fit", "C19.c19_burnt_tokens_witness", "C19.gen_turnstile", "C19.c19_sent_lower_bounded", "C19.c19_refill_overflow_witness", "C19.c19_refill_sum_overflow_witness"],
        "lean_module": "CloakModel.Props.C19Search",
        "scenarios": ["C19"],
        "reset_ops": ["tb.new"],
        "rule": "(i) Lean bucket vs the real ratelimit.Bucket (NewBucketWithRateAndClock, fake clock): 21 fixed + seeded log-uniform rates 1..5e9, capacity = rate "
                "(as MakeValve) or arbitrary, 40 (80) seeded (now, count) steps each incl. count<=0, count>capacity, same-instant and multi-second gaps; the "
                "(quantum, fillInterval) the constructor chose is recorded per rate and the 1 % clause checked exactly. (ii) real Sessions with mux.MakeValve "
                "under testing/synctest (virtual clock), 10 (96) subprocess batches x 8 (12) cases: 1-4 sessions x 1-4 connections x 1-4 streams sharing one valve, "
                "ordered/unordered, four methods, rates 1 kB/s..100 MB/s (a fifth below the largest message), backlogged/bursty/periodic writers both directions; "
                "EVERY pair of event instants is checked. non-trivial = bucket step that had to wait / session case with > 20 timed events (iii) c19huge: mux.MakeValve(r, r) for r up to MaxInt64 driven through its own txWait/rxWait on the virtual clock (a record per millisecond; single reads after idle seconds..40 days): no wait allowed, every call a tb.take row. (iv) tb.search: the exact-arithmetic quantum search vs what the real constructor chose, for every rate built. (v) N first connections of one user arriving together; disconnect/reconnect of the user.",
        "assumptions": ["juju/ratelimit behaves as its source at the version pinned in go.mod says (modelled from that source, compared at run time)",
                        "time.Sleep wakes exactly on time (virtual clock); requests reach a bucket in non-decreasing clock order (its mutex)",
                        "the (quantum, fillInterval) found by NewBucketWithRate is within 1 % of the rate (checked for every rate used, not proved)",
                        "no int64 overflow in the bucket arithmetic (rates <= 5e9, waits far below 292 years)"],
        "trusted": ["testing/synctest virtual time; rx events are observed at delivery to the stream reader, tx events at the fake connection's Write"],
        "timeout": {"quick": 600, "thorough": 3000},
    }
