CHECK = {
        "obligations": ["C18.c18_refines", "C18.c18_no_panic", "C18.c18_rejected_unchanged", "C18.c18_deleted_absent",
                        "C18.c18_read_your_writes", "C18.c18_list_result_stable", "C18.reread_own", "C18.gen_good", "C18.gen_structure", "C18.spec_post_ok",
                        "C18.spec_rejected_unchanged", "C18.spec_deleted_absent", "C18.spec_no_panic",
                        "US.run_sim", "US.step_sim", "US.gen_status", "US.gen_auth_cmp", "US.gen_authz_cmp", "US.gen_upload",
                        "C18.pinned_not_good", "C18.pinned_mismatch_still_writes", "C18.pinned_partial_record_panics",
                        "C18.pinned_nonpositive_rate_panics", "C18.pinned_list_result_unstable", "C18.pinned_list_stable_false", "C18.pinned_refines_false", "C18.pinned_no_panic_false"],
        "scenarios": ["C18"],
        "reset_ops": ["db.new"],
        "rule": "real bbolt file per script, usermanager.APIRouterOf through httptest + UserManager methods + userPanel.GetUser (shim): "
                "(1) every subset of the six fields x 3 variants (single create / create+reopen / create+random update) then GET, list, "
                "authenticate, authorise, upload, activate on the record; (2) the Lean witness requests (incl. a list result kept across two unrelated writes, a delete and a reopen); (3) 1200 (thorough 20000) random "
                "sequences of 4..12 (..30) ops over 3 UIDs + a 1-byte and a 20-byte UID: create/update with random subsets and values "
                "{0,+-1,int32/int64 min/max, 2^32, random}, UID mismatch (other/absent/empty UID), undecodable bodies (truncated, bad base64, "
                "int32 overflow, wrong type, non-object), bad/empty URL UID, GET, list, DELETE, authenticate, authorise (n around 2^31/2^32), "
                "upload (extreme usages), activate, close/reopen, ListAllUsers called directly with the returned value KEPT (db.hold) and looked at again after every later "
                "write/reopen and at the end of the script (db.reread: must still say what it said when returned); then every probe on every record. "
                "non-trivial = not (the full six-field single create); distinct by script id",
        "assumptions": ["bbolt persists committed transactions and rolls back a transaction whose function returns an error or panics",
                        "bbolt: a key slice handed to a ForEach callback is valid only during the transaction; what it shows afterwards is not determined by the operation sequence (parameter `mem` of c18_list_result_stable)",
                        "encoding/json and gorilla/mux routing behave as documented (JSON decoding stays on the Go side of the line protocol)",
                        "juju/ratelimit v1.0.2: NewBucketWithRate panics iff capacity <= 0 for the rates used (modelled from its source; exercised up to MaxInt64)",
                        "integers of a decoded request body fit their Go types (hypothesis Op.WF of the theorems; true of any *int32/*int64)"],
        "trusted": ["harness/usermanager/shim_c18.go (httptest recorder, raw bbolt dump), harness/server/shim_c18.go (fresh userPanel without the upload goroutine)"],
    }
