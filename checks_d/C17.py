CHECK = {
    "obligations": ["C17.gen_close_retires", "C17.gen_retry_wait", "C17.c17_close_decision_blocks_admission", "C17.c17_stale_termination_witness", "C17.c17_no_deadlock", "C17.c17_single_record", "C17.gen_rank_ordered", "C17.gen_lock_classes",
                    "C17.gen_programs_nontrivial", "C17.gen_orphan_repair", "C17.gen_structure",
                    "Locks.locks_rank_ordered_no_deadlock", "Locks.ok_map", "Panel.inv_step", "Panel.inv_refusedCleanup", "C17.c17_single_record_either",
                    "C17.pinned_not_rank_orderable", "C17.pinned_deadlock_reachable", "C17.pinned_exec_deadlock",
                    "C17.c17_orphan_witness_pinned", "C17.c17_unguarded_delete_witness", "C17.c17_orphan_schedule_repaired"],
    "scenarios": ["C17"],
    "reset_ops": ["lk.new", "sess.new"],
    "timeout": {"quick": 300, "thorough": 900},
    "rule": "replays of the two Lean witness schedules on the real userPanel/ActiveUser over a bbolt store (deadlock: two upload rounds "
            "parked/released at the updateUsageQueue VerifPoint; orphan: admission vs last-session closure, plain and with the closer parked at "
            "ActiveUser.CloseSession:beforeTerminate; double termination of one record with a reconnect in between), each in its own process, "
            "plus 3 (quick) / 8 (thorough) seeded random overlaps of admissions (with the dispatcher's clean-up of a refused connection, whichever the tree has), closures, upload rounds "
            "(one user running out of credit so that commits carry TERMINATE verdicts) and traffic (8 goroutines x 400/2500 operations) under a watchdog. non-trivial = every case "
            "overlaps at least two bookkeeping operations; distinct by case name Plus the REAL dispatchConnection with real client handshakes: a second connection of the user dispatched while CloseSession of the last session is parked before TerminateActiveUser (database and bypass user) must be admitted.",
    "assumptions": ["operations performed while holding a bookkeeping lock that are not themselves bookkeeping-lock acquisitions (bbolt calls, "
                    "sesh.Close()) return", "a loop body is counted once in a lock program (sound for a rank argument over balanced bodies)",
                    "all per-record sessionsM instances have the same rank and no operation holds two of them (decided: S is never acquired while S is held)",
                    "Go RWMutex/Mutex: a refused acquisition has a holder other than the requester"],
    "trusted": ["goroutine-dump based deadlock verdict (two dumps 1.2 s apart + TryLock probes + director bookkeeping)"],
}
