CHECK = {
        "obligations": ["C10.c10_reply_valid", "C10.c10_sid32", "C10.c10_appdata", "C10.c10_server_stream", "C10.c10_frames_fit", "C10.c10_hello",
                        "C10.c10_hello_fields", "C10.gen_structure", "C10.gen_literals", "C10.sh_shape", "C10.parse_sh", "C10.wire_records",
                        "TLSWire.records_cons", "TLSWire.parseRecords_fuel2", "C04.c04_size"],
        "scenarios": ["C10"],
        "reset_ops": ["tls."],
        "timeout": {"quick": 900, "thorough": 3000},
        "rule": "a real ck-client (internal/client.MakeSession) and a real ck-server (internal/server.Serve) run in-process over an in-memory network whose every connection is tapped in both "
                "directions (each side's writes); per browser profile chrome/firefox/safari: 50 (thorough 200) sessions x 4 connections = >= 200 hellos, 4 encryption methods, configured and random server "
                "names, traffic patterns with payloads of 1 B .. 200 kB incl. exactly the per-frame maximum and maximum + 1, stream-closing notices from either side, session-closing notice, singleplex. "
                "Every tapped connection: client side and server side validated by an independent Go parser [monitor] and by the Lean RFC 8446 validator through the driver [T rows]. Plus composeReply vs its Lean "
                "mirror byte for byte (random bytes recorded), TLSConn.Write and AddRecordLayer vs their mirrors at the size limits. non-trivial = a session with all its connections validated",
        "assumptions": ["the ClientHello body is built by uTLS (third party): c10_hello is partial, its validity is established by the validator on real output only",
                        "one underlying Write is one record on the wire (TCP does not reorder within a connection)"],
        "trusted": ["the validator's reading of RFC 8446 (Model/TLSWire.lean part 2) is the oracle of this property"],
    }
