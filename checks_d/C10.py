CHECK = {
        "obligations": ["C10.stub"],
        "scenarios": ["C10"],
        "reset_ops": ["tls."],
        "timeout": {"quick": 900, "thorough": 3000},
        "rule": "tbd",
        "assumptions": [],
    }
