CHECK = {
        "obligations": ["C02.c02_reassembly", "C02.c02_prefix_always", "C02.gen_fast", "C02.gen_stale", "C02.gen_loop",
                        "C02.gen_structure", "C02.write_sim", "C02.drain_sim", "C02.run_sim",
                        "C02Heap.gen_structure", "C02Heap.gen_less", "C02Heap.gen_index", "C02Heap.gen_branches"],
        "lean_module": "CloakModel.Props.C02All",
        "scenarios": ["C02", "C02heap"],
        "reset_ops": ["sb.new", "hp.new", "hp.sbnew"],
        "rule": "every arrival order of n<=6 (quick) / n<=8 (thorough) frames x every closing position, reads interleaved from the seed, "
                "bases 0 / near 2^32 / above 2^63; random permutations up to 200 (2000) frames incl. just below 2^64; malformed duplicate/stale stream. "
                "non-trivial = arrival order differs from the identity; distinct by (order, closing position)",
        "assumptions": ["container/heap behaves as a priority queue", "recvM serialises Write/Close"],
    }
