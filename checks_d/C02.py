CHECK = {
        "obligations": ["C02.c02_reassembly", "C02.c02_prefix_always", "C02.gen_fast", "C02.gen_stale", "C02.gen_loop",
                        "C02.gen_structure", "C02.write_sim", "C02.drain_sim", "C02.run_sim",
                        "C02Heap.gen_structure", "C02Heap.gen_less", "C02Heap.gen_index", "C02Heap.gen_branches",
                        "C02Heap.c02_heap_invariant", "C02Heap.c02_heap_root_min", "C02Heap.c02_heap_pop_min", "C02Heap.c02_heap_push_perm",
                        "C02Heap.c02_heap_fuel", "C02Heap.c02_heap_bridge_partial", "C02Heap.c02_heap_bridge", "C02Heap.gen_write_exits", "C02Heap.drain_bridge", "C02Heap.ins_sorted", "C02Heap.ins_perm", "C02Heap.c02_heap_duplicate_wedges_witness", "C02Heap.c02_heap_duplicate_agrees_witness"],
        "lean_module": "CloakModel.Props.C02All",
        "scenarios": ["C02", "C02heap", "C02far"],
        "reset_ops": ["sb.new", "hp.new", "hp.sbnew"],
        "rule": "every arrival order of n<=6 (quick) / n<=8 (thorough) frames x every closing position, reads interleaved from the seed, "
                "bases 0 / near 2^32 / above 2^63; random permutations up to 200 (2000) frames incl. just below 2^64; malformed duplicate/stale stream. "
                "non-trivial = arrival order differs from the identity; distinct by (order, closing position). "
                "C02heap: seeded heap.Push/heap.Pop scripts on the real sorterHeap (tiny key ranges with duplicates, asc/desc/random/equal/sawtooth runs, keys near 2^64, "
                "up to ~2000 elements), whole array layout compared after every op; streamBuffer.Write scripts with the heap layout read after each write; duplicate-frame stream",
        "assumptions": ["container/heap is modelled from its GOROOT source (Model/GoHeap) and proved a priority queue (Props/C02Heap); the bridge from the array heap to the sorted list of Props/C02 is stated, not proved", "recvM serialises Write/Close"],
    }
