CHECK = {
    "obligations": ["C12.c12_count", "C12.c12_teardown", "C12.c12_refuses", "C12.c12_timeout", "C12.c12_timeout_witness", "C12.c12_backlog_bounded", "C12.c12_conns",
                    "C12.gen_structure", "C12.gen_timeout", "C12.gen_pipe_limit", "C12.gen_accept", "C12.gen_late_conn", "C12.gen_wake_all", "C12.c12_accept_drains_queue", "C12.c12_pinned_open_witness", "C12.c12_close_always_sweeps", "C12.c12_close_pinned_witness", "C12.gen_refusal", "C12.c12_refused_is_told", "C12.c12_refusal_events",
                    "C12L.c12_lock_order", "C12L.gen_rank_ordered", "C12L.gen_nontrivial", "C12L.gen_send_prologue", "C12L.ok_iff_ctx", "Locks.locks_rank_ordered_no_deadlock"],
    "lean_module": "CloakModel.Props.C12Locks",
    "scenarios": ["C12"],
    "reset_ops": ["ss.new"],
    "rule": "seeded scripts of 10..60 operations (open/write/deliver-one-record/accept/read/closeStream/close/fault/propagate/tick) on a pair of real "
            "sessions over a harness-controlled in-memory network inside testing/synctest, 4 methods, 1..4 connections, singleplex; a fault at every "
            "frame boundary of 1..4 in-flight frames; the OpenStream-vs-Close schedule via VerifPoint; accept-backlog overflow (1024+8 streams: refusals told, nothing drifts); a connection handed over after the teardown, while the first one is parked inside addConn, and while AddConnection is inside the connection's own LocalAddr/RemoteAddr; the closer of the last stream parked right before arming the inactivity check while another stream is opened; 2-3 Reads on one stream and 2 Accepts parked at teardown (four kinds of teardown, both pipes); the inactivity check parked between its test and its Close. The state compared after every operation includes the stream-closing frames / session notices each side has put on the wire. distinct = distinct op-kind sequences; all non-trivial",
    "assumptions": ["sync.Cond/channel wake-ups and timers are runtime behaviour: covered by the harness monitors under testing/synctest, not by the theorems",
                    "a connection fault is seen by both ends (property text)",
                    "lock order: a loop body is counted once; sync.Cond.Wait and the one channel send under streamsM (acceptCh, capacity 1024) return; RWMutex treated like Mutex; the turnstile of send (a channel of capacity one, nothing but the broken test and the limiter's bounded sleep inside: C12L.gen_send_prologue) is not a lock of the order"],
}
