CHECK = {
        "obligations": ["C04.c04_roundtrip", "C04.c04_extra_fits", "C04.c04_bound_pos", "C04.c04_size", "C04.c04_fits", "C04.c04_layout",
                        "C04.gen_structure", "C04.gen_exprs", "C04.gen_limits", "Codec.header_nf", "Codec.obf_nf", "Codec.deobf_nf",
                        "Codec.decode_honest", "C04.toy_lawful", "C04.toyPlain_lawful"],
        "scenarios": ["C04"],
        "reset_ops": ["obfs.oclear"],
        "timeout": {"quick": 300, "thorough": 1500},
        "rule": "every frame goes through the real obfuscate (dirty destination buffer, payload in place / copied from offset 0 / copied from another offset) and is "
                "(a) decoded by an independent Go implementation of the v2 layout [monitor], (b) decoded by the real deobfuscate [monitor], (c) decoded by the Lean codec, "
                "(d) re-encoded by the Lean codec from the observed padding draw and random bytes, which must reproduce Go's bytes exactly; plus reference-encoded messages with "
                "chosen padding (0, maximum, random) decoded by the real decoder and by Lean. Payload lengths: quick = 110 stratified (1..24, powers of two +-1, both ends of 1..16132), "
                "thorough = every length 1..16132; four methods; sequence numbers on both sides of 5; ids/seqs incl. 0, 2^32-1, 2^64-1; closing 0..2 and arbitrary bytes; "
                ">= 64 (400) padding draws per method per padded sequence number. non-trivial = the real encoder produced a message; distinct by (length, method) / draw index",
        "assumptions": ["the ciphers satisfy Codec.Lawful (Open inverts Seal, |Seal p| = |p| + overhead, 8 <= overhead <= 255, nonce <= 14 bytes); validated for Go's AEADs by T2",
                        "in-place vs copied payload is one function in the model; their equivalence on the real code is established by T2 only"],
        "trusted": ["native Lean Salsa20 (compared with x/crypto/salsa20 on every run); AES-GCM / ChaCha20-Poly1305 results come from Go's libraries as an oracle"],
    }
