CHECK = {
        "obligations": ["C04.stub"],
        "scenarios": ["C04"],
        "reset_ops": ["obfs.oclear"],
        "rule": "tbd",
        "assumptions": [],
    }
