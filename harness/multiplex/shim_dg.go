//go:build verif

package multiplex

import (
	"fmt"
	"io"
	"strings"
	"sync"
	"time"
)

// ---- C14: the real datagramBufferedPipe driven directly ----

// q and shut are the driver's OWN account of what it has handed to the pipe and taken out of it (lengths of the
// datagrams a Write accepted and no Read has returned yet; whether a closing frame was written or Close called): whether a
// Read is attempted, and what the next datagram's length should be, must not depend on how the pipe stores its queue.
type Verif14DG struct {
	p    *datagramBufferedPipe
	mu   sync.Mutex // several writer goroutines in the concurrent scenario
	q    []int
	shut bool
}

func Verif14NewDG() *Verif14DG { return &Verif14DG{p: NewDatagramBufferedPipe()} }

func (v *Verif14DG) Write(closing uint8, payload []byte) string {
	// the account is kept in the order in which the pipe accepted the writes: one lock around both
	v.mu.Lock()
	toBeClosed, err := v.p.Write(&Frame{StreamID: 1, Closing: closing, Payload: payload})
	if err == nil && !toBeClosed {
		v.q = append(v.q, len(payload))
	}
	v.mu.Unlock()
	switch {
	case err == io.ErrClosedPipe && toBeClosed:
		return "closed"
	case err != nil:
		return "err:" + err.Error()
	case toBeClosed:
		v.mu.Lock()
		v.shut = true
		v.mu.Unlock()
		return "close"
	}
	return "ok"
}

func verif14peek(p *datagramBufferedPipe) (head int, n int, bufLen int, closed bool) {
	p.rwCond.L.Lock()
	defer p.rwCond.L.Unlock()
	head = -1
	if len(p.pLens) > 0 {
		head = p.pLens[0]
	}
	return head, len(p.pLens), p.buf.Len(), p.closed
}

// HeadLen is the length of the next datagram, -1 if the queue is empty (by the driver's own account).
func (v *Verif14DG) HeadLen() int {
	v.mu.Lock()
	defer v.mu.Unlock()
	if len(v.q) == 0 {
		return -1
	}
	return v.q[0]
}

func verif14read(p *datagramBufferedPipe, capacity int) (string, []byte) {
	_, n, _, closed := verif14peek(p)
	if n == 0 && !closed {
		return "block", nil // the real Read would park in rwCond.Wait()
	}
	b := make([]byte, capacity)
	k, err := p.Read(b)
	switch err {
	case nil:
		return "data", b[:k]
	case io.EOF:
		return "eof", nil
	case io.ErrShortBuffer:
		return "short", nil
	}
	return "err:" + err.Error(), nil
}

// Read returns "block" instead of parking when the real Read would wait: nothing accepted is outstanding and the pipe
// was not closed. Otherwise the real Read is called, under a 300 ms read deadline as a safety net: a pipe that has
// lost what it accepted answers "lost" instead of hanging the driver.
func (v *Verif14DG) Read(capacity int) (string, []byte) {
	v.mu.Lock()
	idle := len(v.q) == 0 && !v.shut
	v.mu.Unlock()
	if idle {
		return "block", nil
	}
	v.p.SetReadDeadline(time.Now().Add(300 * time.Millisecond))
	b := make([]byte, capacity)
	k, err := v.p.Read(b)
	v.p.SetReadDeadline(time.Time{})
	switch err {
	case nil:
		v.mu.Lock()
		if len(v.q) > 0 {
			v.q = v.q[1:]
		}
		v.mu.Unlock()
		return "data", b[:k]
	case io.EOF:
		return "eof", nil
	case io.ErrShortBuffer:
		return "short", nil
	case ErrTimeout:
		return "lost", nil
	}
	return "err:" + err.Error(), nil
}

func (v *Verif14DG) Close() {
	v.mu.Lock()
	v.shut = true
	v.mu.Unlock()
	v.p.Close()
}

func verif14state(p *datagramBufferedPipe) string {
	p.rwCond.L.Lock()
	defer p.rwCond.L.Unlock()
	ss := make([]string, len(p.pLens))
	for i, l := range p.pLens {
		ss[i] = fmt.Sprint(l)
	}
	c := 0
	if p.closed {
		c = 1
	}
	return fmt.Sprintf("lens=[%s] buf=%d closed=%d", strings.Join(ss, ","), p.buf.Len(), c)
}

func (v *Verif14DG) State() string { return verif14state(v.p) }

// ---- C14: unordered sessions ----

func Verif14Recv(sesh *Session, data []byte) error { return sesh.recvDataFromRemote(data) }

// Verif14Decode runs the session's own deobfuscator on a copy of a record (the harness needs the
// stream id / closing flag / payload of captured records to label its operations).
func Verif14Decode(sesh *Session, data []byte) (sid uint32, seq uint64, closing uint8, payload []byte, err error) {
	f := &Frame{}
	cp := append([]byte(nil), data...)
	if err = sesh.deobfuscate(f, cp); err != nil {
		return
	}
	return f.StreamID, f.Seq, f.Closing, append([]byte(nil), f.Payload...), nil
}

func Verif14MaxUnit(sesh *Session) int { return sesh.maxStreamUnitWrite }
func Verif14StreamID(s *Stream) uint32 { return s.id }

// Verif14TryAccept returns a newly created stream if one is queued, without blocking.
func Verif14TryAccept(sesh *Session) *Stream {
	select {
	case s := <-sesh.acceptCh:
		return s
	default:
		return nil
	}
}

// Verif14IsDatagram reports whether makeStream gave this stream the datagram pipe.
func Verif14IsDatagram(s *Stream) bool { _, ok := s.recvBuf.(*datagramBufferedPipe); return ok }

func Verif14StreamState(s *Stream) string {
	p, ok := s.recvBuf.(*datagramBufferedPipe)
	if !ok {
		return "not-a-datagram-pipe"
	}
	return verif14state(p)
}

// Verif14StreamHead: length of the next datagram of the stream (-1 none, -2 not a datagram pipe)
func Verif14StreamHead(s *Stream) int {
	p, ok := s.recvBuf.(*datagramBufferedPipe)
	if !ok {
		return -2
	}
	h, _, _, _ := verif14peek(p)
	return h
}

// Verif14StreamRead is Stream.Read with the parking case turned into "block" by state inspection.
func Verif14StreamRead(s *Stream, capacity int) (string, []byte) {
	p, ok := s.recvBuf.(*datagramBufferedPipe)
	if !ok {
		return "not-a-datagram-pipe", nil
	}
	_, n, _, closed := verif14peek(p)
	if n == 0 && !closed {
		return "block", nil
	}
	// the inspection above reads the pipe's own queue of lengths; should the pipe keep its queue differently (or have
	// lost a datagram) the Read below would park: a short read deadline turns that into "block" instead of a hung driver
	if capacity > 0 {
		s.SetReadDeadline(time.Now().Add(300 * time.Millisecond))
		defer s.SetReadDeadline(time.Time{})
	}
	b := make([]byte, capacity)
	k, err := s.Read(b)
	switch err {
	case nil:
		return "data", b[:k]
	case ErrBrokenStream:
		return "eof", nil
	case io.ErrShortBuffer:
		return "short", nil
	case ErrTimeout:
		return "block", nil
	}
	return "err:" + err.Error(), nil
}
