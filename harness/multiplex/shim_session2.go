//go:build verif

package multiplex

import (
	"fmt"
	"sort"
	"strings"
	"sync/atomic"
	"time"
)

// VerifSessionState prints the bookkeeping state of a session canonically (compared with the Lean model).
func VerifSessionState(sesh *Session) string {
	sesh.streamsM.Lock()
	var open, closing, tomb []int
	for id, s := range sesh.streams {
		switch {
		case s == nil:
			tomb = append(tomb, int(id))
		case s.isClosed():
			closing = append(closing, int(id))
		default:
			open = append(open, int(id))
		}
	}
	q := len(sesh.acceptCh)
	sesh.streamsM.Unlock()
	sort.Ints(open)
	sort.Ints(closing)
	sort.Ints(tomb)
	f := func(l []int) string {
		ss := make([]string, len(l))
		for i, v := range l {
			ss[i] = fmt.Sprint(v)
		}
		return "[" + strings.Join(ss, ",") + "]"
	}
	b2i := func(b bool) int {
		if b {
			return 1
		}
		return 0
	}
	return fmt.Sprintf("closed=%d count=%d open=%s closing=%s tomb=%s accq=%d broken=%d", b2i(sesh.IsClosed()), sesh.streamCount(), f(open), f(closing), f(tomb), q,
		atomic.LoadUint32(&sesh.sb.broken))
}

func VerifOpenStreams(sesh *Session) int {
	sesh.streamsM.Lock()
	defer sesh.streamsM.Unlock()
	n := 0
	for _, s := range sesh.streams {
		if s != nil && !s.isClosed() {
			n++
		}
	}
	return n
}

func VerifPassiveClose(sesh *Session) error { return sesh.passiveClose() }
func VerifCheckTimeout(sesh *Session)       { sesh.checkTimeout() }
func VerifInactivity(sesh *Session) time.Duration {
	return sesh.InactivityTimeout
}

// VerifStreamBuffered reports whether a Read on the stream would return at once (data buffered or pipe closed).
func VerifStreamReadable(s *Stream) bool {
	switch rb := s.recvBuf.(type) {
	case *streamBuffer:
		p := rb.buf
		p.rwCond.L.Lock()
		defer p.rwCond.L.Unlock()
		return p.buf.Len() > 0 || p.closed
	case *datagramBufferedPipe:
		rb.rwCond.L.Lock()
		defer rb.rwCond.L.Unlock()
		return len(rb.pLens) > 0 || rb.closed
	}
	return false
}

// VerifDecode decodes one on-wire message with a fresh obfuscator for (method, key); the input is not modified.
func VerifDecode(method byte, key [32]byte, msg []byte) (sid uint32, seq uint64, closing uint8, payload []byte, err error) {
	o, err := MakeObfuscator(method, key)
	if err != nil {
		return
	}
	cp := append([]byte(nil), msg...)
	var f Frame
	if err = o.deobfuscate(&f, cp); err != nil {
		return
	}
	return f.StreamID, f.Seq, f.Closing, append([]byte(nil), f.Payload...), nil
}

func VerifConnsCount(sesh *Session) uint32 { return atomic.LoadUint32(&sesh.sb.connsCount) }
func VerifSetStrategyFixed(sesh *Session)  { sesh.sb.strategy = fixedConnMapping }

// VerifStreamsMFree reports whether the session's stream-table lock can be taken right now.
func VerifStreamsMFree(sesh *Session) bool {
	if sesh.streamsM.TryLock() {
		sesh.streamsM.Unlock()
		return true
	}
	return false
}

func VerifAcceptQueueLen(sesh *Session) int { return len(sesh.acceptCh) }
