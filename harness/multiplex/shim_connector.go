//go:build verif

package multiplex

import "net"

// Shims for the connector scenario (C06mk): what client.MakeSession put into the session.

func VerifSessionID(sesh *Session) uint32 { return sesh.id }

func VerifValveUnlimited(sesh *Session) bool { return sesh.Valve == UNLIMITED_VALVE }

func VerifSessionConns(sesh *Session) []net.Conn {
	var out []net.Conn
	sesh.sb.conns.Range(func(_, v interface{}) bool {
		if c, ok := v.(net.Conn); ok {
			out = append(out, c)
		}
		return true
	})
	return out
}
