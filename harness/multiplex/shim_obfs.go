//go:build verif

package multiplex

import (
	"fmt"
	"strings"
	"sync/atomic"
	"time"
)

// VerifObfs drives the real Obfuscator (obfuscate / deobfuscate) from the harness (C04, C11).
type VerifObfs struct{ o Obfuscator }

func VerifMakeObfuscator(method byte, key [32]byte) (*VerifObfs, error) {
	o, err := MakeObfuscator(method, key)
	if err != nil {
		return nil, err
	}
	return &VerifObfs{o}, nil
}

// AeadParams reports Overhead() and NonceSize() of the payload cipher (0,0 for the plain method).
func (v *VerifObfs) AeadParams() (int, int) {
	if v.o.payloadCipher == nil {
		return 0, 0
	}
	return v.o.payloadCipher.Overhead(), v.o.payloadCipher.NonceSize()
}

func verifObfErr(err error) string {
	switch {
	case err == nil:
		return ""
	case strings.Contains(err.Error(), "payload cannot be empty"):
		return "errEmpty"
	case strings.Contains(err.Error(), "buffer too small"):
		return "errSmall"
	}
	return "err:" + err.Error()
}

// Obfuscate calls the real obfuscate. inPlace=true: the payload is first placed at buf[frameHeaderLength:] and
// f.Payload aliases it (what Stream.ReadFrom and the closing notices do, payloadOffsetInBuf = frameHeaderLength);
// otherwise f.Payload is the caller's slice and payloadOffsetInBuf = off (Stream.Write uses 0).
// A panic is trapped and returned, never swallowed.
func (v *VerifObfs) Obfuscate(sid uint32, seq uint64, closing uint8, payload []byte, buf []byte, inPlace bool, off int) (n int, errs string, panicked string) {
	defer func() {
		if r := recover(); r != nil {
			panicked = fmt.Sprint(r)
		}
	}()
	f := &Frame{StreamID: sid, Seq: seq, Closing: closing, Payload: payload}
	if inPlace {
		off = frameHeaderLength
		if len(buf) >= frameHeaderLength+len(payload) {
			copy(buf[frameHeaderLength:], payload)
			f.Payload = buf[frameHeaderLength : frameHeaderLength+len(payload)]
		}
	}
	n, err := v.o.obfuscate(f, buf, off)
	return n, verifObfErr(err), ""
}

func verifDeobfErr(err error) string {
	switch {
	case err == nil:
		return ""
	case strings.Contains(err.Error(), "cannot be shorter than"):
		return "errShort"
	case strings.Contains(err.Error(), "extra length is negative"):
		return "errExtra"
	case strings.Contains(err.Error(), "message authentication failed"):
		return "errAuth"
	}
	return "err:" + err.Error()
}

// Deobfuscate calls the real deobfuscate on `in` (which it modifies in place; pass a copy).
func (v *VerifObfs) Deobfuscate(in []byte) (sid uint32, seq uint64, closing uint8, payload []byte, errs string, panicked string) {
	defer func() {
		if r := recover(); r != nil {
			panicked = fmt.Sprint(r)
		}
	}()
	var f Frame
	err := v.o.deobfuscate(&f, in)
	if err != nil {
		return 0, 0, 0, nil, verifDeobfErr(err), ""
	}
	return f.StreamID, f.Seq, f.Closing, f.Payload, "", ""
}

// VerifCodecConsts prints the compiled values of the constants the extractor reads from the source.
func VerifCodecConsts() string {
	return fmt.Sprintf("hdr=%d nonce=%d maxextra=%d padfirst=%d", frameHeaderLength, salsa20NonceSize, maxExtraLen, padFirstNFrames)
}

func VerifDefaultMaxOnWireSize() int { return defaultMaxOnWireSize }

// VerifSession is a real Session without connections, fed through recvDataFromRemote (C11).
type VerifSession struct{ s *Session }

func VerifMakeSession(method byte, key [32]byte, limit int, unordered bool) (*VerifSession, error) {
	o, err := MakeObfuscator(method, key)
	if err != nil {
		return nil, err
	}
	s := MakeSession(7, SessionConfig{Obfuscator: o, Unordered: unordered, MsgOnWireSizeLimit: limit, InactivityTimeout: 24 * time.Hour})
	return &VerifSession{s}, nil
}

// Sizes reports what MakeSession derived from the configured limit.
func (v *VerifSession) Sizes() string {
	return fmt.Sprintf("limit=%d max=%d sendbuf=%d recvbuf=%d", v.s.MsgOnWireSizeLimit, v.s.maxStreamUnitWrite, v.s.streamSendBufferSize, v.s.connReceiveBufferSize)
}

// Recv feeds one received message to Session.recvDataFromRemote; a panic is trapped and returned.
func (v *VerifSession) Recv(data []byte) (errs string, panicked string) {
	defer func() {
		if r := recover(); r != nil {
			panicked = fmt.Sprint(r)
		}
	}()
	err := v.s.recvDataFromRemote(data)
	if err != nil {
		return err.Error(), ""
	}
	return "", ""
}

// MaxUnit / SendBuf: the per-frame payload maximum and the send-buffer size the session derived from its limit.
func (v *VerifSession) MaxUnit() int { return v.s.maxStreamUnitWrite }
func (v *VerifSession) SendBuf() int { return v.s.streamSendBufferSize }
func (v *VerifSession) Limit() int   { return v.s.MsgOnWireSizeLimit }

func (v *VerifSession) IsClosed() bool { return v.s.IsClosed() }

// State is a digest of the session state a received frame can change: closed flag, number of live streams,
// number of stream-table entries (tombstones included), streams waiting in the accept queue.
func (v *VerifSession) State() string {
	v.s.streamsM.Lock()
	defer v.s.streamsM.Unlock()
	return fmt.Sprintf("closed=%d active=%d table=%d backlog=%d", atomic.LoadUint32(&v.s.closed), v.s.streamCount(), len(v.s.streams), len(v.s.acceptCh))
}

// TryAccept takes a stream from the accept queue without blocking.
func (v *VerifSession) TryAccept() (*VerifStream, bool) {
	select {
	case st := <-v.s.acceptCh:
		if st == nil {
			return nil, false
		}
		return &VerifStream{st}, true
	default:
		return nil, false
	}
}

func (v *VerifSession) Close() { v.s.Close() }

type VerifStream struct{ st *Stream }

func (v *VerifStream) ID() uint32 { return v.st.id }

// TryRead reads what is buffered without blocking ("block" when nothing is there and the stream is open).
func (v *VerifStream) TryRead(n int) (string, []byte) {
	sb, ok := v.st.recvBuf.(*streamBuffer)
	if !ok {
		return "unsupported", nil
	}
	p := sb.buf
	p.rwCond.L.Lock()
	empty := p.buf.Len() == 0
	closed := p.closed
	p.rwCond.L.Unlock()
	if empty && !closed {
		return "block", nil
	}
	b := make([]byte, n)
	k, err := v.st.Read(b)
	if err != nil {
		return "eof", nil
	}
	return "data", b[:k]
}
