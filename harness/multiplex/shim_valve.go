//go:build verif

package multiplex

import (
	"reflect"

	"github.com/juju/ratelimit"
)

// ---- C19: what the constructor chose for a valve's buckets ----

type Verif19Params struct{ Q, FI, Cap int64 }

func verif19bucket(b *ratelimit.Bucket) Verif19Params {
	v := reflect.ValueOf(b).Elem()
	return Verif19Params{Q: v.FieldByName("quantum").Int(), FI: v.FieldByName("fillInterval").Int(), Cap: v.FieldByName("capacity").Int()}
}

// Verif19ValveParams returns (quantum, fillInterval ns, capacity) of the rx and the tx bucket.
func Verif19ValveParams(v *LimitedValve) (rx, tx Verif19Params) {
	return verif19bucket(v.rxtb), verif19bucket(v.txtb)
}

// Verif19Decode decodes a captured record with a stand-alone obfuscator (same key and method as the session's).
func Verif19Decode(o Obfuscator, data []byte) (sid uint32, seq uint64, closing uint8, payload []byte, err error) {
	f := &Frame{}
	cp := append([]byte(nil), data...)
	if err = o.deobfuscate(f, cp); err != nil {
		return
	}
	return f.StreamID, f.Seq, f.Closing, append([]byte(nil), f.Payload...), nil
}

// VerifGateValve wraps a real Valve; its Nullify reads the counters (the inner Nullify) and then calls `after` before
// returning: the harness uses it to let another bookkeeping operation run between the moment a collection has taken
// the counters and the moment it adds them to the pending usage.
type VerifGateValve struct {
	Valve
	After func()
}

func (g *VerifGateValve) Nullify() (int64, int64) {
	a, b := g.Valve.Nullify()
	if g.After != nil {
		g.After()
	}
	return a, b
}

// Verif19Wait calls the valve's own rxWait / txWait (what deplex and send call).
func Verif19Wait(v *LimitedValve, tx bool, n int) {
	if tx {
		v.txWait(n)
	} else {
		v.rxWait(n)
	}
}
