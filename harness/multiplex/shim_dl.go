//go:build verif

package multiplex

import (
	"io"
	"time"
)

// ---- C14 with read deadlines: the real datagramBufferedPipe with a reader that may park (run inside a synctest bubble) ----

type Verif14DLRes struct {
	Kind string // data | short | eof | timeout | err:...
	Data []byte
}

type Verif14DL struct {
	p   *datagramBufferedPipe
	res chan Verif14DLRes
}

func Verif14NewDL() *Verif14DL {
	return &Verif14DL{p: NewDatagramBufferedPipe(), res: make(chan Verif14DLRes, 1)}
}

func (v *Verif14DL) Write(closing uint8, payload []byte) string {
	toBeClosed, err := v.p.Write(&Frame{StreamID: 1, Closing: closing, Payload: payload})
	switch {
	case err == io.ErrClosedPipe && toBeClosed:
		return "closed"
	case err != nil:
		return "err:" + err.Error()
	case toBeClosed:
		return "close"
	}
	return "ok"
}

func (v *Verif14DL) Close()            { v.p.Close() }
func (v *Verif14DL) SetDL(t time.Time) { v.p.SetReadDeadline(t) }
func (v *Verif14DL) State() string     { return verif14state(v.p) }

// StartRead calls the real Read in a goroutine of its own; the caller waits for quiescence and then Polls.
func (v *Verif14DL) StartRead(capacity int) {
	go func() {
		b := make([]byte, capacity)
		k, err := v.p.Read(b)
		switch err {
		case nil:
			v.res <- Verif14DLRes{"data", b[:k]}
		case io.EOF:
			v.res <- Verif14DLRes{"eof", nil}
		case io.ErrShortBuffer:
			v.res <- Verif14DLRes{"short", nil}
		case ErrTimeout:
			v.res <- Verif14DLRes{"timeout", nil}
		default:
			v.res <- Verif14DLRes{"err:" + err.Error(), nil}
		}
	}()
}

func (v *Verif14DL) Poll() (Verif14DLRes, bool) {
	select {
	case r := <-v.res:
		return r, true
	default:
		return Verif14DLRes{}, false
	}
}
