//go:build verif

package multiplex

import (
	"fmt"
	"sort"
	"strings"
)

// VerifSB drives the real streamBuffer (reorder buffer + byte pipe) from the harness.
type VerifSB struct{ sb *streamBuffer }

func VerifNewSB(next uint64) *VerifSB {
	sb := NewStreamBuffer()
	sb.nextRecvSeq = next
	return &VerifSB{sb}
}

func (v *VerifSB) Write(seq uint64, closing uint8, payload []byte) string {
	f := &Frame{StreamID: 1, Seq: seq, Closing: closing, Payload: payload}
	toBeClosed, err := v.sb.Write(f)
	switch {
	case err != nil:
		return "errOld"
	case toBeClosed:
		return "close"
	}
	return "ok"
}

// Read returns "block" instead of parking when the real Read would wait.
func (v *VerifSB) Read(n int) (string, []byte) {
	p := v.sb.buf
	p.rwCond.L.Lock()
	empty := p.buf.Len() == 0
	closed := p.closed
	p.rwCond.L.Unlock()
	if empty && !closed {
		return "block", nil
	}
	b := make([]byte, n)
	k, err := v.sb.Read(b)
	if err != nil {
		return "eof", nil
	}
	return "data", b[:k]
}

func (v *VerifSB) Close() { v.sb.Close() }

func (v *VerifSB) State() string {
	v.sb.recvM.Lock()
	defer v.sb.recvM.Unlock()
	seqs := make([]uint64, 0, len(v.sb.sh))
	for _, f := range v.sb.sh {
		seqs = append(seqs, f.Seq)
	}
	sort.Slice(seqs, func(i, j int) bool { return seqs[i] < seqs[j] })
	ss := make([]string, len(seqs))
	for i, s := range seqs {
		ss[i] = fmt.Sprint(s)
	}
	p := v.sb.buf
	p.rwCond.L.Lock()
	bl := p.buf.Len()
	p.rwCond.L.Unlock()
	return fmt.Sprintf("next=%d heap=[%s] buf=%d", v.sb.nextRecvSeq, strings.Join(ss, ","), bl)
}

// HoldPipe takes the byte pipe's own mutex (what a reader holds while it copies out) and returns the release function.
func (v *VerifSB) HoldPipe() (release func()) {
	v.sb.buf.rwCond.L.Lock()
	return func() { v.sb.buf.rwCond.L.Unlock() }
}

// RecvLocked reports whether some goroutine is inside streamBuffer.Write (holds recvM) right now.
func (v *VerifSB) RecvLocked() bool {
	if v.sb.recvM.TryLock() {
		v.sb.recvM.Unlock()
		return false
	}
	return true
}

// Buffered is the number of bytes handed over to the pipe so far and not yet read (caller must not hold the pipe).
func (v *VerifSB) Buffered() int {
	p := v.sb.buf
	p.rwCond.L.Lock()
	defer p.rwCond.L.Unlock()
	return p.buf.Len()
}
