//go:build verif

package multiplex

import (
	"errors"
	"sync/atomic"
)

// Shims for session-level rigs (C13 wire tap, C03/C01/C12 session pairs). They only expose unexported
// functions and read state; no behaviour is added.

// VerifRecv hands one received message to the session exactly as switchboard.deplex would
// (recvDataFromRemote decrypts in place, so the caller's slice is copied first).
func VerifRecv(sesh *Session, data []byte) error {
	buf := make([]byte, len(data))
	copy(buf, data)
	return sesh.recvDataFromRemote(buf)
}

// VerifFrame is a decoded message.
type VerifFrame struct {
	StreamID uint32
	Seq      uint64
	Closing  uint8
	Payload  []byte
}

// VerifDeobfuscate decodes one message with the REAL deobfuscate of the given obfuscator (data is not modified).
func VerifDeobfuscate(o *Obfuscator, data []byte) (VerifFrame, error) {
	buf := make([]byte, len(data))
	copy(buf, data)
	var f Frame
	if err := o.deobfuscate(&f, buf); err != nil {
		return VerifFrame{}, err
	}
	pl := make([]byte, len(f.Payload))
	copy(pl, f.Payload)
	return VerifFrame{f.StreamID, f.Seq, f.Closing, pl}, nil
}

func VerifStreamID(s *Stream) uint32 { return s.id }

// VerifStreamSeq reads writingFrame.Seq under the stream's write mutex.
func VerifStreamSeq(s *Stream) uint64 {
	s.writingM.Lock()
	defer s.writingM.Unlock()
	return s.writingFrame.Seq
}

func VerifStreamClosed(s *Stream) bool { return s.isClosed() }

// VerifReadWouldBlock inspects the receive pipe of an ordered stream: (bytes buffered, pipe closed).
// A Read with a non-empty target parks exactly when buffered == 0 && !closed (no read deadline set).
func VerifReadState(s *Stream) (buffered int, closed bool, ok bool) {
	sb, isSB := s.recvBuf.(*streamBuffer)
	if !isSB {
		return 0, false, false
	}
	p := sb.buf
	p.rwCond.L.Lock()
	defer p.rwCond.L.Unlock()
	return p.buf.Len(), p.closed, true
}

// VerifRecvBufState: next expected number and the numbers parked in the reorder heap (unsorted).
func VerifRecvBufState(s *Stream) (next uint64, parked []uint64, ok bool) {
	sb, isSB := s.recvBuf.(*streamBuffer)
	if !isSB {
		return 0, nil, false
	}
	sb.recvM.Lock()
	defer sb.recvM.Unlock()
	for _, f := range sb.sh {
		parked = append(parked, f.Seq)
	}
	return sb.nextRecvSeq, parked, true
}

// VerifStreamEntry reports the session table entry of a stream id: "absent", "tombstone" or "live".
func VerifStreamEntry(sesh *Session, id uint32) string {
	sesh.streamsM.Lock()
	defer sesh.streamsM.Unlock()
	s, ok := sesh.streams[id]
	switch {
	case !ok:
		return "absent"
	case s == nil:
		return "tombstone"
	}
	return "live"
}

// VerifGetStream returns the live stream with that id, if any (e.g. one created by an incoming frame,
// without consuming it from the accept queue).
func VerifGetStream(sesh *Session, id uint32) *Stream {
	sesh.streamsM.Lock()
	defer sesh.streamsM.Unlock()
	return sesh.streams[id]
}

func VerifStreamCount(sesh *Session) uint32 { return sesh.streamCount() }
func VerifMaxUnit(sesh *Session) int        { return sesh.maxStreamUnitWrite }
func VerifConnCount(sesh *Session) uint32   { return atomic.LoadUint32(&sesh.sb.connsCount) }
func VerifSwitchboardBroken(sesh *Session) bool {
	return atomic.LoadUint32(&sesh.sb.broken) == 1
}

// VerifErrName maps the package's error values to stable names for the line protocol.
func VerifErrName(err error) string {
	switch {
	case err == nil:
		return "nil"
	case errors.Is(err, ErrBrokenStream):
		return "ErrBrokenStream"
	case errors.Is(err, ErrBrokenSession):
		return "ErrBrokenSession"
	case errors.Is(err, errRepeatStreamClosing):
		return "errRepeatStreamClosing"
	case errors.Is(err, errRepeatSessionClosing):
		return "errRepeatSessionClosing"
	case errors.Is(err, errBrokenSwitchboard):
		return "errBrokenSwitchboard"
	case errors.Is(err, ErrTimeout):
		return "ErrTimeout"
	case errors.Is(err, errNoMultiplex):
		return "errNoMultiplex"
	}
	return "other:" + err.Error()
}

const VerifClosingNothing = closingNothing
const VerifClosingStream = closingStream
const VerifClosingSession = closingSession

// VerifTryAccept takes a stream out of the accept queue if one is waiting (never blocks).
func VerifTryAccept(sesh *Session) *Stream {
	select {
	case s := <-sesh.acceptCh:
		return s
	default:
		return nil
	}
}

// VerifForceCloseRecv closes the receive buffer of a stream directly (used by the harness only to release a
// goroutine that a faulty build left parked in Read, so that the run can end and report it).
func VerifForceCloseRecv(s *Stream) { _ = s.recvBuf.Close() }
