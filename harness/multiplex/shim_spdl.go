//go:build verif

package multiplex

import (
	"fmt"
	"io"
	"time"
)

// ---- C01 with read deadlines: the real streamBufferedPipe with a reader that may park (run inside a synctest bubble) ----

type Verif01SP struct {
	p   *streamBufferedPipe
	res chan Verif14DLRes
}

func Verif01NewSP() *Verif01SP {
	return &Verif01SP{p: NewStreamBufferedPipe(), res: make(chan Verif14DLRes, 1)}
}

func (v *Verif01SP) Write(b []byte) string {
	n, err := v.p.Write(b)
	switch {
	case err == io.ErrClosedPipe:
		return "closed"
	case err != nil:
		return "err:" + err.Error()
	case n != len(b):
		return fmt.Sprintf("short-write:%d", n)
	}
	return "ok"
}

func (v *Verif01SP) Close()            { v.p.Close() }
func (v *Verif01SP) SetDL(t time.Time) { v.p.SetReadDeadline(t) }

func (v *Verif01SP) State() string {
	v.p.rwCond.L.Lock()
	defer v.p.rwCond.L.Unlock()
	c := 0
	if v.p.closed {
		c = 1
	}
	return fmt.Sprintf("buf=%d closed=%d", v.p.buf.Len(), c)
}

func (v *Verif01SP) StartRead(capacity int) {
	go func() {
		b := make([]byte, capacity)
		k, err := v.p.Read(b)
		switch err {
		case nil:
			v.res <- Verif14DLRes{"data", b[:k]}
		case io.EOF:
			v.res <- Verif14DLRes{"eof", nil}
		case ErrTimeout:
			v.res <- Verif14DLRes{"timeout", nil}
		default:
			v.res <- Verif14DLRes{"err:" + err.Error(), nil}
		}
	}()
}

func (v *Verif01SP) Poll() (Verif14DLRes, bool) {
	select {
	case r := <-v.res:
		return r, true
	default:
		return Verif14DLRes{}, false
	}
}
