//go:build verif

package multiplex

import (
	"container/heap"
	"fmt"
	"strconv"
	"strings"
)

// VerifHeap drives the real sorterHeap through the real container/heap, with nothing in between.
type VerifHeap struct{ sh sorterHeap }

func VerifNewHeap() *VerifHeap { return &VerifHeap{sh: sorterHeap{}} }

func (v *VerifHeap) Push(seq uint64) { heap.Push(&v.sh, &Frame{Seq: seq}) }

// Pop pops the root; popping an empty heap panics in Go, which is reported instead of propagated.
func (v *VerifHeap) Pop() (seq uint64, panicked bool) {
	defer func() {
		if r := recover(); r != nil {
			seq, panicked = 0, true
		}
	}()
	return heap.Pop(&v.sh).(*Frame).Seq, false
}

func (v *VerifHeap) Len() int { return len(v.sh) }

// Seqs is the content in array order, as numbers (for the harness' multiset bookkeeping).
func (v *VerifHeap) Seqs() []uint64 {
	out := make([]uint64, len(v.sh))
	for i, f := range v.sh {
		out[i] = f.Seq
	}
	return out
}

func heapLayout(sh sorterHeap) string {
	var b strings.Builder
	b.Grow(2 + 8*len(sh))
	b.WriteByte('[')
	for i, f := range sh {
		if i > 0 {
			b.WriteByte(',')
		}
		b.WriteString(strconv.FormatUint(f.Seq, 10))
	}
	b.WriteByte(']')
	return b.String()
}

// Layout is the Seq of every slot in ARRAY order: [s0,s1,s2]
func (v *VerifHeap) Layout() string { return heapLayout(v.sh) }

// HeapState is State() with the reorder heap shown in array order (not sorted).
func (v *VerifSB) HeapState() string {
	v.sb.recvM.Lock()
	defer v.sb.recvM.Unlock()
	lay := heapLayout(v.sb.sh)
	p := v.sb.buf
	p.rwCond.L.Lock()
	bl := p.buf.Len()
	p.rwCond.L.Unlock()
	return fmt.Sprintf("next=%d heap=%s buf=%d", v.sb.nextRecvSeq, lay, bl)
}
