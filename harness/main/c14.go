//go:build verif

package main

import (
	"bytes"
	"errors"
	"fmt"
	"io"
	"net"
	"runtime"
	"sync"
	"time"

	mux "github.com/cbeuw/Cloak/internal/multiplex"
)

func init() { scenarios["C14"] = c14 }

// ---------------------------------------------------------------------------------------------
// (a) the datagram pipe on its own: scripted op sequences (T rows = model correspondence) with an
// impl-side monitor that only asserts the property: every datagram accepted by a write comes out of
// a read at most once, whole and identical; all of them once the pipe has been drained; a read whose
// buffer is smaller than the next datagram reports an error and consumes/truncates nothing.
// ---------------------------------------------------------------------------------------------

type c14pending struct {
	items     [][]byte
	shortSeen bool // a too-small read has happened and no datagram has been read since
}

func (p *c14pending) take(b []byte) bool {
	for i, x := range p.items {
		if bytes.Equal(x, b) {
			p.items = append(p.items[:i:i], p.items[i+1:]...)
			return true
		}
	}
	return false
}

func c14pipeScript(c *ctx, r *rng, nOps int, tag string, idx int) {
	o := c.o
	p := mux.Verif14NewDG()
	o.T("dg.new", "ok")
	pend := &c14pending{}
	var script []string
	note := func(s string) {
		if len(script) < 200 {
			script = append(script, s)
		}
	}
	serial := 0
	nShort, nData := 0, 0
	hit := false
	report := func(sig string, extra map[string]any) {
		if hit {
			return
		}
		hit = true
		extra["tag"], extra["script_index"], extra["ops"] = tag, idx, script
		o.V(sig, extra)
	}
	doRead := func(capacity int) {
		head := p.HeadLen()
		st, b := p.Read(capacity)
		op := fmt.Sprintf("dg.read cap=%d", capacity)
		note(op + " -> " + st)
		switch st {
		case "data":
			nData++
			o.T(op, fmt.Sprintf("data n=%d h=%d", len(b), fnv32(b)))
			wasShort := pend.shortSeen
			pend.shortSeen = false
			if !pend.take(b) {
				pend.shortSeen = wasShort
				sig := "C14 read returned something that is not one whole written datagram (merged/split/truncated/duplicated)"
				if pend.shortSeen {
					sig = "C14 short-read-destructive: after a too-small read the datagram no longer comes out intact"
				}
				report(sig, map[string]any{"got": hx(b), "outstanding": hxs(pend.items)})
			}
		case "short":
			nShort++
			pend.shortSeen = true
			o.T(op, "short")
		case "lost":
			o.T(op, st)
			report("C14 accepted-datagram-not-delivered: the pipe has nothing to read although accepted datagrams are outstanding", map[string]any{"cap": capacity, "outstanding": hxs(pend.items)})
		default:
			o.T(op, st)
		}
		if head >= 0 && capacity < head && st != "short" && st != "lost" {
			report("C14 read buffer smaller than the next datagram did not report an error", map[string]any{"cap": capacity, "next_len": head, "result": st})
		}
	}
	closed := false
	// every third script is write-heavy: the backlog grows to dozens of datagrams while the reader, lagging, keeps taking
	// some of them (a queue that is deep AND has been read from)
	wb := 10
	if idx%3 == 2 {
		wb = 16
		nOps += nOps / 2
	}
	for k := 0; k < nOps && !hit; k++ {
		switch x := r.intn(20); {
		case x < wb:
			n := 1 + r.intn(40)
			switch r.intn(12) {
			case 0:
				n = 0
			case 1:
				n = 200 + r.intn(3000)
			}
			pl := make([]byte, n)
			// distinguishable contents: serial number then seeded bytes
			rb := r.bytes(n)
			copy(pl, rb)
			if n >= 2 {
				pl[0], pl[1] = byte(serial>>8), byte(serial)
			}
			serial++
			closing := uint8(0)
			if r.intn(30) == 0 {
				closing = uint8(1 + r.intn(2))
			}
			res := p.Write(closing, append([]byte(nil), pl...))
			op := fmt.Sprintf("dg.write closing=%d pl=%s", closing, hx(pl))
			o.T(op, res)
			note(fmt.Sprintf("dg.write closing=%d len=%d -> %s", closing, n, res))
			if res == "ok" {
				pend.items = append(pend.items, pl)
			}
		case x < 19:
			head := p.HeadLen()
			capacity := r.intn(50)
			if head >= 0 {
				switch r.intn(6) {
				case 0, 1:
					if head > 0 {
						capacity = head - 1 - r.intn(min(head, 3))
						if capacity < 0 {
							capacity = 0
						}
					}
				case 2:
					capacity = head
				case 3:
					capacity = head + 1 + r.intn(5)
				case 4:
					capacity = 0
				}
			}
			doRead(capacity)
		default:
			if !closed && r.intn(3) == 0 {
				p.Close()
				closed = true
				o.T("dg.close", "ok")
				note("dg.close")
			}
		}
	}
	o.T("dg.state", p.State())
	// drain with adequate buffers: everything accepted must still come out, once
	for guard := 0; guard < 10000; guard++ {
		head := p.HeadLen()
		if head < 0 {
			break
		}
		doRead(head + r.intn(3))
	}
	o.T("dg.state", p.State())
	if len(pend.items) != 0 {
		sig := "C14 accepted datagram never delivered although the pipe was drained"
		report(sig, map[string]any{"lost": hxs(pend.items), "state": p.State()})
	}
	o.case_(fmt.Sprint(tag, idx), nShort > 0 && nData > 1)
	o.stat("pipe_scripts", 1)
	o.stat("pipe_short_reads", nShort)
	o.stat("pipe_data_reads", nData)
}

func hxs(bs [][]byte) []string {
	var out []string
	for i, b := range bs {
		if i >= 6 {
			out = append(out, fmt.Sprintf("... %d more", len(bs)-i))
			break
		}
		if len(b) > 40 {
			out = append(out, fmt.Sprintf("%s...(%d bytes)", hx(b[:40]), len(b)))
		} else {
			out = append(out, hx(b))
		}
	}
	return out
}

func fnv32(b []byte) uint32 {
	h := uint32(2166136261)
	for _, x := range b {
		h = (h ^ uint32(x)) * 16777619
	}
	return h
}

// concurrent writers and one reader on one real pipe; monitor only (the interleaving is the scheduler's)
func c14pipeConcurrent(c *ctx, r *rng, idx int) {
	o := c.o
	p := mux.Verif14NewDG()
	nw := 2 + r.intn(4)
	per := 20 + r.intn(60)
	want := map[string]int{}
	pls := make([][][]byte, nw)
	for w := 0; w < nw; w++ {
		for k := 0; k < per; k++ {
			n := 3 + r.intn(60)
			pl := r.bytes(n)
			pl[0], pl[1], pl[2] = byte(w), byte(k>>8), byte(k)
			pls[w] = append(pls[w], pl)
			want[string(pl)]++
		}
	}
	smallCaps := make([]int, 4096)
	for i := range smallCaps {
		smallCaps[i] = r.intn(8)
	}
	var wg sync.WaitGroup
	for w := 0; w < nw; w++ {
		wg.Add(1)
		go func(w int) {
			defer wg.Done()
			for _, pl := range pls[w] {
				p.Write(0, append([]byte(nil), pl...))
				if len(pl)%3 == 0 {
					runtime.Gosched()
				}
			}
		}(w)
	}
	done := make(chan struct{})
	go func() { wg.Wait(); close(done) }()
	got := map[string]int{}
	bad := ""
	writersDone := false
	ri := 0
	for guard := 0; guard < 10_000_000; guard++ {
		head := p.HeadLen()
		if head < 0 {
			if writersDone {
				break
			}
			select {
			case <-done:
				writersDone = true
			default:
				runtime.Gosched()
			}
			continue
		}
		capacity := head
		if ri < len(smallCaps) && smallCaps[ri] == 0 && head > 0 {
			capacity = head - 1 // a short read in between
		}
		ri++
		st, b := p.Read(capacity)
		if st == "data" {
			got[string(b)]++
			if want[string(b)] < got[string(b)] && bad == "" {
				bad = hx(b)
			}
		}
	}
	missing := 0
	for k, n := range want {
		if got[k] != n {
			missing++
		}
	}
	if bad != "" || missing != 0 {
		o.V("C14 concurrent writers: datagram multiset read differs from the multiset written", map[string]any{
			"script_index": idx, "writers": nw, "per_writer": per, "first_unexpected": bad, "missing_or_duplicated": missing, "state": p.State()})
	}
	o.case_(fmt.Sprint("conc", idx), true)
	o.stat("pipe_concurrent_runs", 1)
}

// ---------------------------------------------------------------------------------------------
// (b) unordered session pairs over an in-memory network
// ---------------------------------------------------------------------------------------------

type c14rec struct {
	conn int
	data []byte
}

type c14net struct {
	mu   sync.Mutex
	recs []c14rec
}

type c14conn struct {
	id     int
	nw     *c14net
	closed chan struct{}
	once   sync.Once
}

func (c *c14conn) Read(b []byte) (int, error) { <-c.closed; return 0, io.EOF }
func (c *c14conn) Write(b []byte) (int, error) {
	select {
	case <-c.closed:
		return 0, io.ErrClosedPipe
	default:
	}
	c.nw.mu.Lock()
	c.nw.recs = append(c.nw.recs, c14rec{c.id, append([]byte(nil), b...)})
	c.nw.mu.Unlock()
	return len(b), nil
}
func (c *c14conn) Close() error                       { c.once.Do(func() { close(c.closed) }); return nil }
func (c *c14conn) LocalAddr() net.Addr                { return c14addr{} }
func (c *c14conn) RemoteAddr() net.Addr               { return c14addr{} }
func (c *c14conn) SetDeadline(t time.Time) error      { return nil }
func (c *c14conn) SetReadDeadline(t time.Time) error  { return nil }
func (c *c14conn) SetWriteDeadline(t time.Time) error { return nil }

type c14addr struct{}

func (c14addr) Network() string { return "fake" }
func (c14addr) String() string  { return "fake" }

var c14methods = []string{"plain", "aes-256-gcm", "chacha20-poly1305", "aes-128-gcm"}

func c14session(method byte, key [32]byte, limit int, nconn int) (*mux.Session, *c14net, []*c14conn) {
	obfs, err := mux.MakeObfuscator(method, key)
	if err != nil {
		panic(err)
	}
	s := mux.MakeSession(0, mux.SessionConfig{Obfuscator: obfs, Unordered: true, MsgOnWireSizeLimit: limit, InactivityTimeout: time.Hour})
	nw := &c14net{}
	var conns []*c14conn
	for i := 0; i < nconn; i++ {
		cn := &c14conn{id: i, nw: nw, closed: make(chan struct{})}
		conns = append(conns, cn)
		s.AddConnection(cn)
	}
	return s, nw, conns
}

type c14dgram struct {
	stream int // index of the sender stream
	data   []byte
}

// one receiving end: deliver captured records in `order`, read as the seed says, drain, compare.
// returns false if a monitor fired.
type c14rx struct {
	c       *ctx
	sesh    *mux.Session
	streams map[uint32]*mux.Stream
	got     map[uint32][][]byte
	short   map[uint32]bool
	emitT   bool
}

func (x *c14rx) accept() {
	for {
		s := mux.Verif14TryAccept(x.sesh)
		if s == nil {
			return
		}
		x.streams[mux.Verif14StreamID(s)] = s
	}
}

func (x *c14rx) read(sid uint32, capacity int) string {
	s := x.streams[sid]
	if s == nil {
		return "nostream"
	}
	st, b := mux.Verif14StreamRead(s, capacity)
	op := fmt.Sprintf("dg.sread sid=%d cap=%d", sid, capacity)
	if st == "data" {
		// a zero-length buffer reads nothing: Stream.Read answers it (0, nil) before the pipe is asked (the known finding
		// reported by the caller) - that answer is not a datagram (no datagram is empty: obfuscate refuses an empty payload).
		// Recording it as one made the multiset monitor below report an extra "" at generator seed 4 (triage log, 2026-09-24)
		if capacity > 0 || len(b) > 0 {
			x.got[sid] = append(x.got[sid], b)
		}
		if x.emitT {
			x.c.o.T(op, fmt.Sprintf("data n=%d h=%d", len(b), fnv32(b)))
		}
	} else {
		if st == "short" {
			x.short[sid] = true
		}
		if x.emitT {
			x.c.o.T(op, st)
		}
	}
	return st
}

type c14caseSpec struct {
	method   byte
	limit    int
	nconn    int
	nstreams int
	sizes    [][]int // per stream: sizes to write (may include oversize)
	conc     bool    // concurrent writer goroutines (one per stream)
	closeAt  int     // if >=0: stream 0 is closed by the sender after that many of its writes
	tag      string
}

// runs the sender once; returns records, the datagrams accepted per sender stream id, problems
func c14sender(c *ctx, r *rng, sp c14caseSpec, key [32]byte, emitT bool) (recs []c14rec, accepted map[uint32][][]byte, ids []uint32, ok bool) {
	o := c.o
	ok = true
	tx, nw, _ := c14session(sp.method, key, sp.limit, sp.nconn)
	defer tx.Close()
	maxUnit := mux.Verif14MaxUnit(tx)
	if emitT {
		o.T(fmt.Sprintf("dg.snew limit=%d", c14limit(sp.limit)), fmt.Sprintf("ok max=%d", maxUnit))
	}
	accepted = map[uint32][][]byte{}
	var accM sync.Mutex
	streams := make([]*mux.Stream, sp.nstreams)
	for i := range streams {
		s, err := tx.OpenStream()
		if err != nil {
			panic(err)
		}
		streams[i] = s
		ids = append(ids, mux.Verif14StreamID(s))
		if !mux.Verif14IsDatagram(s) {
			o.V("C14 unordered session gave a stream a byte pipe instead of the datagram pipe", map[string]any{"tag": sp.tag})
			ok = false
		}
	}
	serial := 0
	mk := func(si, n int, rr *rng) []byte {
		b := rr.bytes(n)
		if n >= 4 {
			b[0], b[1], b[2], b[3] = 0xd6, byte(si), byte(serial>>8), byte(serial)
		}
		serial++
		return b
	}
	writeOne := func(si int, d []byte, seq bool) {
		before := 0
		if seq {
			nw.mu.Lock()
			before = len(nw.recs)
			nw.mu.Unlock()
		}
		n, err := streams[si].Write(d)
		oversize := len(d) > maxUnit
		if seq {
			nw.mu.Lock()
			emitted := len(nw.recs) - before
			nw.mu.Unlock()
			es := "ok"
			if errors.Is(err, io.ErrShortBuffer) {
				es = "short-buffer"
			} else if err != nil {
				es = "err:" + err.Error()
			}
			fr := "[]"
			if emitted == 1 {
				fr = fmt.Sprintf("[%d]", n)
			} else if emitted > 1 {
				fr = fmt.Sprintf("[%d records]", emitted)
			}
			if emitT {
				o.T(fmt.Sprintf("dg.swrite u=1 n=%d", len(d)), fmt.Sprintf("frames=%s err=%s", fr, es))
			}
			if oversize && (err == nil || emitted != 0) {
				o.V("C14 oversize datagram not refused at the sender", map[string]any{"tag": sp.tag, "len": len(d), "max": maxUnit, "records_emitted": emitted, "err": fmt.Sprint(err), "n": n})
				ok = false
			}
			// (a fitting write that is *refused* is not a statement of the property; it shows up in the T row only)
			if !oversize && err == nil && (emitted != 1 || n != len(d)) {
				o.V("C14 accepted datagram not sent as exactly one frame", map[string]any{"tag": sp.tag, "len": len(d), "max": maxUnit, "records_emitted": emitted, "err": fmt.Sprint(err), "n": n})
				ok = false
			}
		} else {
			if oversize && err == nil {
				o.V("C14 oversize datagram not refused at the sender", map[string]any{"tag": sp.tag, "len": len(d), "max": maxUnit, "err": "nil", "n": n})
				ok = false
			}
		}
		if err == nil && n == len(d) && len(d) > 0 {
			accM.Lock()
			accepted[ids[si]] = append(accepted[ids[si]], d)
			accM.Unlock()
		}
	}
	if sp.conc {
		plan := make([][][]byte, sp.nstreams)
		for si := range plan {
			for _, n := range sp.sizes[si] {
				plan[si] = append(plan[si], mk(si, n, r))
			}
		}
		var wg sync.WaitGroup
		for si := range plan {
			wg.Add(1)
			go func(si int) {
				defer wg.Done()
				for k, d := range plan[si] {
					writeOne(si, d, false)
					if k%2 == 0 {
						runtime.Gosched()
					}
				}
			}(si)
		}
		wg.Wait()
	} else {
		// round-robin over the streams, seeded
		pos := make([]int, sp.nstreams)
		closed0 := false
		left := 0
		for _, s := range sp.sizes {
			left += len(s)
		}
		for left > 0 {
			si := r.intn(sp.nstreams)
			if pos[si] >= len(sp.sizes[si]) {
				continue
			}
			if si == 0 && closed0 {
				// the stream has been closed by its owner: nothing more is written on it
				pos[si]++
				left--
				continue
			}
			writeOne(si, mk(si, sp.sizes[si][pos[si]], r), true)
			pos[si]++
			left--
			if si == 0 && sp.closeAt >= 0 && pos[0] == sp.closeAt {
				streams[0].Close()
				closed0 = true
			}
		}
	}
	nw.mu.Lock()
	recs = append(recs, nw.recs...)
	nw.mu.Unlock()
	return
}

// deliver `recs` in the given order to a fresh receiver and check the property per stream.
func c14receive(c *ctx, r *rng, sp c14caseSpec, key [32]byte, recs []c14rec, order []int, accepted map[uint32][][]byte, drop map[int]bool, emitT bool) bool {
	o := c.o
	rxs, _, _ := c14session(sp.method, key, sp.limit, 1)
	defer rxs.Close()
	x := &c14rx{c: c, sesh: rxs, streams: map[uint32]*mux.Stream{}, got: map[uint32][][]byte{}, short: map[uint32]bool{}, emitT: emitT}
	if emitT {
		o.T(fmt.Sprintf("dg.snew limit=%d", c14limit(sp.limit)), fmt.Sprintf("ok max=%d", mux.Verif14MaxUnit(rxs)))
	}
	delivered := map[uint32][][]byte{} // per stream: datagrams that reached the receiver while its stream was open
	closedSeen := map[uint32]bool{}
	for _, ri := range order {
		if drop[ri] {
			continue
		}
		rec := recs[ri]
		sid, _, closing, payload, err := mux.Verif14Decode(rxs, rec.data)
		if err != nil {
			o.V("C14 captured record does not decode", map[string]any{"tag": sp.tag, "err": err.Error()})
			return false
		}
		if closing == 2 { // closing-session notice (from tx.Close()); not part of the scripts
			continue
		}
		err = mux.Verif14Recv(rxs, append([]byte(nil), rec.data...))
		x.accept()
		st := "nostream"
		if s := x.streams[sid]; s != nil {
			st = mux.Verif14StreamState(s)
		}
		if emitT {
			o.T(fmt.Sprintf("dg.sdeliver sid=%d closing=%d pl=%s", sid, closing, hx(payload)), st)
		}
		if closing == 0 && !closedSeen[sid] {
			delivered[sid] = append(delivered[sid], payload)
		}
		if closing != 0 {
			closedSeen[sid] = true
		}
		_ = err
		// seeded reads in between, around the size of the next datagram
		for k := 0; k < 2; k++ {
			if r.intn(3) != 0 || len(x.streams) == 0 {
				continue
			}
			sid2 := c14pick(r, x.streams)
			head := mux.Verif14StreamHead(x.streams[sid2])
			capacity := 1 + r.intn(64)
			if head > 0 {
				switch r.intn(4) {
				case 0:
					capacity = head - 1 // 0 for a 1-byte datagram: the empty buffer is a buffer too
				case 1:
					capacity = head
				case 2:
					capacity = head + 1 + r.intn(9)
				}
			}
			res := x.read(sid2, capacity)
			if head > 0 && capacity == 0 && res == "data" {
				// Stream.Read answers an empty buffer (0, nil) before asking the pipe: "a read buffer too small for the
				// next datagram reports an error" fails for the 0-byte buffer (nothing is consumed: the drain below and the
				// multiset monitor see the datagram come out whole afterwards)
				o.V("C14 short-buffer-no-error zero-length-buffer", map[string]any{"tag": sp.tag, "cap": 0, "next_len": head, "result": "(0, nil)",
					"replay": "unordered session; a 1-byte datagram pending on a stream; Stream.Read(make([]byte, 0))"})
			} else if head > 0 && capacity < head && res != "short" {
				o.V("C14 read buffer smaller than the next datagram did not report an error", map[string]any{"tag": sp.tag, "cap": capacity, "next_len": head, "result": res})
				return false
			}
		}
	}
	// drain every stream with adequate buffers
	for sid, s := range x.streams {
		for guard := 0; guard < 100000; guard++ {
			head := mux.Verif14StreamHead(s)
			if head < 0 {
				break
			}
			capacity := head + r.intn(3)
			if capacity == 0 {
				capacity = 1
			}
			x.read(sid, capacity)
		}
	}
	// monitor: per stream, the datagrams read are exactly (as a multiset) the datagrams written on the SAME
	// stream that reached the receiver while the stream was open: each whole, identical, once.
	good := true
	for sid := range x.streams {
		if !c14sameMultiset(x.got[sid], delivered[sid]) {
			good = false
		}
	}
	for sid, d := range delivered {
		if x.streams[sid] == nil && len(d) > 0 {
			good = false
		}
	}
	// and whatever was delivered on a stream must have been written on that very stream (isolation)
	for sid, g := range x.got {
		if !c14subMultiset(g, accepted[sid]) {
			good = false
		}
	}
	if !good {
		sig := "C14 datagrams read on a stream differ from the datagrams written on it and delivered (whole/once/isolated)"
		for sid := range x.short {
			if !c14sameMultiset(x.got[sid], delivered[sid]) {
				sig = "C14 short-read-destructive: after a too-small read the datagram no longer comes out intact"
			}
		}
		det := map[string]any{"tag": sp.tag, "method": c14methods[sp.method], "order": order, "conns": c14connsOf(recs)}
		for sid := range x.streams {
			det[fmt.Sprintf("stream%d_read", sid)] = hxs(x.got[sid])
			det[fmt.Sprintf("stream%d_delivered", sid)] = hxs(delivered[sid])
		}
		o.V(sig, det)
		return false
	}
	return true
}

func c14limit(l int) int {
	if l <= 0 {
		return 16640
	}
	return l
}

func c14connsOf(recs []c14rec) []int {
	out := make([]int, len(recs))
	for i, r := range recs {
		out[i] = r.conn
	}
	return out
}

func c14pick(r *rng, m map[uint32]*mux.Stream) uint32 {
	ids := make([]uint32, 0, len(m))
	for k := range m {
		ids = append(ids, k)
	}
	// deterministic order
	for i := 1; i < len(ids); i++ {
		for j := i; j > 0 && ids[j] < ids[j-1]; j-- {
			ids[j], ids[j-1] = ids[j-1], ids[j]
		}
	}
	return ids[r.intn(len(ids))]
}

func c14sameMultiset(a, b [][]byte) bool {
	if len(a) != len(b) {
		return false
	}
	return c14subMultiset(a, b)
}

func c14subMultiset(a, b [][]byte) bool {
	m := map[string]int{}
	for _, x := range b {
		m[string(x)]++
	}
	for _, x := range a {
		m[string(x)]--
		if m[string(x)] < 0 {
			return false
		}
	}
	return true
}

// arrival orders: every permutation of the records that keeps each connection's records in FIFO order
func c14orders(recs []c14rec, f func([]int)) {
	n := len(recs)
	permutations(n, func(p []int) {
		last := map[int]int{}
		for _, ri := range p {
			cn := recs[ri].conn
			if l, ok := last[cn]; ok && l > ri {
				return
			}
			last[cn] = ri
		}
		f(append([]int(nil), p...))
	})
}

func c14randOrder(r *rng, recs []c14rec) []int {
	// random interleaving that keeps per-connection FIFO
	byConn := map[int][]int{}
	var conns []int
	for i, rc := range recs {
		if _, ok := byConn[rc.conn]; !ok {
			conns = append(conns, rc.conn)
		}
		byConn[rc.conn] = append(byConn[rc.conn], i)
	}
	var out []int
	for len(out) < len(recs) {
		k := r.intn(len(recs) - len(out))
		for _, cn := range conns {
			if k < len(byConn[cn]) {
				out = append(out, byConn[cn][0])
				byConn[cn] = byConn[cn][1:]
				break
			}
			k -= len(byConn[cn])
		}
	}
	return out
}

func c14(c *ctx) {
	o, r := c.o, c.r
	// (c) the entry points from a UDP socket into a stream (c14entry.go); run first and unconditionally
	c14readFromEntry(c, r.fork())
	c14udpEntry(c, r.fork())
	c14udpReturn(c, r.fork())
	for k := 0; k < 3; k++ {
		// the last round on a single processor: a goroutine started by the server's accept loop then runs only when the
		// loop blocks, i.e. after it has gone round again - the schedule in which a value the goroutine shares with the
		// loop has been overwritten by the time the goroutine reads it
		if k == 2 {
			old := runtime.GOMAXPROCS(1)
			c14system(c, k)
			runtime.GOMAXPROCS(old)
		} else {
			c14system(c, k)
		}
	}
	for k := 0; k < 16; k++ {
		c14smallBuffers(c, k)
	}
	// (a) pipe scripts
	nScripts, nOps, nConc := 3000, 40, 60
	if c.thorough() {
		nScripts, nOps, nConc = 30000, 60, 600
	}
	for i := 0; i < nScripts; i++ {
		c14pipeScript(c, r, nOps/2+r.intn(nOps), "pipe", i)
	}
	for i := 0; i < nConc; i++ {
		c14pipeConcurrent(c, r, i)
	}
	o.sample("pipe: dg.write closing=0 pl=<17 bytes>; dg.read cap=16 -> short; dg.read cap=17 -> data n=17 (same datagram)")

	var key [32]byte
	copy(key[:], r.bytes(32))

	// (b1) every arrival order across connections, n <= 5 datagrams, several streams, the four methods
	covered := map[string]bool{}
	tries := 30
	if c.thorough() {
		tries = 300
	}
	fact := []int{1, 1, 2, 6, 24, 120}
	for n := 1; n <= 5; n++ {
		cov := 0
		for t := 0; t < tries && cov < fact[n]; t++ {
			sp := c14caseSpec{method: byte(r.intn(4)), limit: []int{0, 16401}[r.intn(2)], nconn: 8, nstreams: 1 + r.intn(3), closeAt: -1, tag: fmt.Sprintf("orders n=%d try=%d", n, t)}
			sp.sizes = make([][]int, sp.nstreams)
			for k := 0; k < n; k++ {
				si := r.intn(sp.nstreams)
				sp.sizes[si] = append(sp.sizes[si], c14size(r, sp.limit, false))
			}
			recs, accepted, _, ok := c14sender(c, r, sp, key, t == 0)
			if !ok {
				return
			}
			if len(recs) != n {
				continue
			}
			first := true
			c14orders(recs, func(order []int) {
				emit := t == 0
				_ = first
				if !c14receive(c, r.fork(), sp, key, recs, order, accepted, nil, emit) {
					return
				}
				k := fmt.Sprint(n, order)
				nontriv := false
				for i := range order {
					if order[i] != i {
						nontriv = true
					}
				}
				if !covered[k] {
					covered[k] = true
					cov++
				}
				o.case_(k, nontriv)
			})
			if o.nV > 0 {
				return
			}
		}
		o.stat(fmt.Sprintf("orders_covered_n%d_of_%d", n, fact[n]), cov)
	}

	// (b2) larger seeded cases: sizes over the whole range incl. the boundary and oversize, sequential and
	// concurrent senders, random FIFO-respecting arrival orders, some records dropped, a stream closed mid-way
	nCases := 300
	if c.thorough() {
		nCases = 4000
	}
	for i := 0; i < nCases; i++ {
		sp := c14caseSpec{method: byte(i % 4), limit: []int{0, 16401, 16401}[r.intn(3)], nconn: 1 + r.intn(4), nstreams: 1 + r.intn(4),
			conc: i%3 == 2, closeAt: -1, tag: fmt.Sprintf("case %d", i)}
		sp.sizes = make([][]int, sp.nstreams)
		nd := 4 + r.intn(20)
		for k := 0; k < nd; k++ {
			si := r.intn(sp.nstreams)
			sp.sizes[si] = append(sp.sizes[si], c14size(r, sp.limit, true))
		}
		if !sp.conc && r.intn(5) == 0 && len(sp.sizes[0]) > 1 {
			sp.closeAt = 1 + r.intn(len(sp.sizes[0])-1)
		}
		emit := i < 60 || c.thorough() && i < 400
		recs, accepted, _, ok := c14sender(c, r, sp, key, emit && !sp.conc)
		if !ok {
			return
		}
		order := c14randOrder(r, recs)
		drop := map[int]bool{}
		if r.intn(4) == 0 {
			for k := range recs {
				if r.intn(6) == 0 {
					drop[k] = true
				}
			}
		}
		if !c14receive(c, r.fork(), sp, key, recs, order, accepted, drop, emit) {
			return
		}
		o.case_(fmt.Sprint("case", i), true)
		if i == 0 {
			o.sample(fmt.Sprintf("session pair: method=%s conns=%d streams=%d sizes=%v order=%v", c14methods[sp.method], sp.nconn, sp.nstreams, sp.sizes, order))
		}
	}
	o.stat("session_cases", nCases)
}

// sizes: 1..max with emphasis on the boundary; with `over` also just above
func c14size(r *rng, limit int, over bool) int {
	max := c14limit(limit) - 14 - 255
	switch r.intn(10) {
	case 0:
		return max
	case 1:
		return max - 1 - r.intn(3)
	case 2:
		if over {
			return max + 1 + r.intn(3)
		}
		return 1
	case 3:
		if over {
			return max + 1 + r.intn(40000)
		}
		return 2
	case 4:
		return 1 + r.intn(max)
	case 5:
		return 1 + r.intn(4)
	case 6:
		return 1200 + r.intn(400)
	}
	return 5 + r.intn(300)
}
