//go:build verif

package main

// C03 — closing a stream delivers everything written before it, then end-of-stream.
//
// Two real Sessions (same key) on tapped connections; the HARNESS carries every captured message to the other
// side (recvDataFromRemote through the shim) in an order drawn from the seed, respecting only the FIFO order of
// each connection — so the closing notice overtakes or trails data that travelled on other connections.
// Reads that would park are detected by inspecting the pipe (never by a timeout); the parked-reader-woken-by-close
// cases run under testing/synctest. The Lean stream model (ops st.*) runs the same operations.

import (
	"bytes"
	"fmt"
	"sort"
	"strings"
	"testing/synctest"

	mux "github.com/cbeuw/Cloak/internal/multiplex"
)

func init() { scenarios["C03"] = c03 }

type c03Side struct {
	name        string
	ep          *endpoint
	st          *mux.Stream
	wrote       []byte // bytes this side's Write calls accepted
	read        []byte // bytes this side's Read calls returned
	closedLocal bool   // this side's own Close got past the CAS
	gotBroken   bool
}

type c03Run struct {
	c    *ctx
	tag  string
	rig  *pairRig
	sid  uint32
	A, B *c03Side
	mtu  int
	rows [][2]string // T rows of this run (kept so that a sender can be replayed in front of several receivers)
	emit bool
	info map[string]any
}

func (r *c03Run) T(op, out string) {
	r.rows = append(r.rows, [2]string{op, out})
	if r.emit {
		r.c.o.T(op, out)
	}
}

func (r *c03Run) peer(s *c03Side) *c03Side {
	if s == r.A {
		return r.B
	}
	return r.A
}

func (r *c03Run) V(sig string, extra map[string]any) {
	d := map[string]any{"script": r.tag, "seed": r.c.seed, "mtu": r.mtu}
	for k, v := range r.info {
		d[k] = v
	}
	for k, v := range extra {
		d[k] = v
	}
	var ops []string
	for _, row := range r.rows {
		op := row[0]
		if len(op) > 90 {
			op = op[:90] + "…"
		}
		out := row[1]
		if len(out) > 60 {
			out = out[:60] + "…"
		}
		ops = append(ops, op+" -> "+out)
	}
	if len(ops) > 80 {
		ops = ops[len(ops)-80:]
	}
	d["ops"] = ops
	r.c.o.V(sig, d)
}

func natList(xs []uint64) string {
	ss := make([]string, len(xs))
	for i, x := range xs {
		ss[i] = fmt.Sprint(x)
	}
	return "[" + strings.Join(ss, ",") + "]"
}

// new messages of this stream captured on s's endpoint since `from`
func (r *c03Run) newRecs(s *c03Side, from int) []*tapRec {
	all := s.ep.tap.snapshot()
	return all[from:]
}

func (r *c03Run) write(s *c03Side, data []byte) {
	if s.st == nil {
		return
	}
	wasClosed := mux.VerifStreamClosed(s.st)
	before := len(s.ep.tap.snapshot())
	n, err := s.st.Write(data)
	op := fmt.Sprintf("st.write side=%s pl=%s", s.name, hx(data))
	switch mux.VerifErrName(err) {
	case "nil":
		var seqs, lens []uint64
		for _, rec := range r.newRecs(s, before) {
			seqs = append(seqs, rec.f.Seq)
			lens = append(lens, uint64(len(rec.f.Payload)))
		}
		r.T(op, fmt.Sprintf("sent seqs=%s lens=%s", natList(seqs), natList(lens)))
		s.wrote = append(s.wrote, data[:n]...)
		if wasClosed {
			r.V("C03 write accepted on a closed stream", map[string]any{"side": s.name})
		}
	case "ErrBrokenStream":
		r.T(op, "refused")
		if !wasClosed {
			r.V("C03 write refused on an open stream", map[string]any{"side": s.name})
		}
	default:
		r.T(op, "error "+mux.VerifErrName(err))
	}
}

func (r *c03Run) close(s *c03Side) {
	if s.st == nil {
		return
	}
	before := len(s.ep.tap.snapshot())
	err := s.st.Close()
	op := fmt.Sprintf("st.close side=%s", s.name)
	switch mux.VerifErrName(err) {
	case "nil":
		recs := r.newRecs(s, before)
		if len(recs) == 0 {
			r.T(op, "sent nothing")
			return
		}
		r.T(op, fmt.Sprintf("sent seq=%d", recs[0].f.Seq))
		s.closedLocal = true
	case "errRepeatStreamClosing":
		r.T(op, "repeated")
	default:
		r.T(op, "error "+mux.VerifErrName(err))
	}
}

// deliver one captured message of `from` to the other side
func (r *c03Run) recv(from *c03Side, rec *tapRec) {
	to := r.peer(from)
	if rec.f.Closing == mux.VerifClosingSession {
		err := r.rig.deliver(from.ep, rec)
		_ = err
		r.T(fmt.Sprintf("st.sessclose side=%s", to.name), "ok")
		if !to.ep.sesh.IsClosed() {
			r.V("C03 session-closing notice did not close the session", map[string]any{"side": to.name})
		}
		return
	}
	if rec.f.StreamID != r.sid {
		return
	}
	entry := mux.VerifStreamEntry(to.ep.sesh, r.sid)
	seshClosed := to.ep.sesh.IsClosed()
	closedBefore := to.st != nil && mux.VerifStreamClosed(to.st)
	err := r.rig.deliver(from.ep, rec)
	if to.st == nil {
		// the first frame brings the stream into being; take it from the accept queue (the table entry may
		// already be a tombstone if that frame was the closing frame)
		if st := mux.VerifTryAccept(to.ep.sesh); st != nil && mux.VerifStreamID(st) == r.sid {
			to.st = st
		}
	}
	cl := 0
	if rec.f.Closing != mux.VerifClosingNothing {
		cl = 1
	}
	op := fmt.Sprintf("st.recv side=%s seq=%d closing=%d pl=%s", to.name, rec.f.Seq, cl, hx(rec.f.Payload))
	switch {
	case entry == "tombstone" || seshClosed:
		r.T(op, "dropped")
	case err != nil && strings.Contains(err.Error(), "smaller than nextRecvSeq"):
		r.T(op, "errOld")
	case err != nil:
		r.T(op, "error "+mux.VerifErrName(err))
	case !closedBefore && to.st != nil && mux.VerifStreamClosed(to.st):
		r.T(op, "closed")
	default:
		r.T(op, "ok")
	}
}

// read asks for up to k bytes; returns the outcome ("data", "broken", "block")
func (r *c03Run) readOp(s *c03Side, k int) string {
	if s.st == nil || k <= 0 {
		return ""
	}
	op := fmt.Sprintf("st.read side=%s n=%d", s.name, k)
	buffered, pclosed, ok := mux.VerifReadState(s.st)
	if !ok {
		return ""
	}
	if buffered == 0 && !pclosed {
		r.T(op, "block")
		if mux.VerifStreamClosed(s.st) {
			r.V("C03 read parks on a closed stream", map[string]any{"side": s.name})
		}
		return "block"
	}
	buf := make([]byte, k)
	n, err := s.st.Read(buf)
	p := r.peer(s)
	switch mux.VerifErrName(err) {
	case "nil":
		r.T(op, "data "+hx(buf[:n]))
		off := len(s.read)
		if off+n > len(p.wrote) || !bytes.Equal(buf[:n], p.wrote[off:off+n]) {
			r.V("C03 bytes read are not the next bytes the peer wrote", map[string]any{"side": s.name, "offset": off, "got": hx(buf[:n])})
		}
		s.read = append(s.read, buf[:n]...)
		return "data"
	case "ErrBrokenStream":
		r.T(op, "broken")
		s.gotBroken = true
		if !s.closedLocal && len(s.read) != len(p.wrote) {
			// this side did not close the stream itself: the error may come only after everything the peer wrote
			r.V("C03 broken-stream error before all bytes written before the close were read", map[string]any{"side": s.name, "read": len(s.read), "written_by_peer": len(p.wrote)})
		}
		return "broken"
	}
	r.T(op, "error "+mux.VerifErrName(err))
	return "error"
}

func (r *c03Run) state(s *c03Side) {
	if s.st == nil {
		return
	}
	b := func(x bool) int {
		if x {
			return 1
		}
		return 0
	}
	next, parked, _ := mux.VerifRecvBufState(s.st)
	sort.Slice(parked, func(i, j int) bool { return parked[i] < parked[j] })
	buffered, pclosed, _ := mux.VerifReadState(s.st)
	entry := mux.VerifStreamEntry(s.ep.sesh, r.sid)
	r.T(fmt.Sprintf("st.state side=%s", s.name), fmt.Sprintf("closed=%d tomb=%d wseq=%d next=%d heap=%s buf=%d pipeclosed=%d",
		b(mux.VerifStreamClosed(s.st)), b(entry != "live"), mux.VerifStreamSeq(s.st), next, natList(parked), buffered, b(pclosed)))
}

// drain reads until the stream parks or breaks
func (r *c03Run) drain(s *c03Side) string {
	for i := 0; i < 1<<16; i++ {
		switch r.readOp(s, 1+r.c.r.intn(64)) {
		case "data":
			continue
		case "broken":
			return "broken"
		case "block":
			return "block"
		default:
			return ""
		}
	}
	return ""
}

var c03Methods = c13Methods

func c03mtuLimit(mtu int) int { return mtu + 14 + 255 }

// payload sizes around the frame limit, zero included
func c03size(c *ctx, mtu int) int {
	r := c.r
	switch r.intn(9) {
	case 0:
		return 0
	case 1:
		return 1
	case 2:
		return mtu - 1 + r.intn(3)
	case 3:
		if mtu <= 1100 {
			return 2*mtu - 1 + r.intn(3)
		}
	case 4:
		if mtu <= 1100 {
			return mtu + 1 + r.intn(2*mtu)
		}
	}
	return 1 + r.intn(40)
}

func newC03Run(c *ctx, tag string, method byte, nConns, mtu int, singleplex bool) *c03Run {
	var key [32]byte
	copy(key[:], c.r.bytes(32))
	tw := func(cfg *mux.SessionConfig) {
		if mtu != 0 {
			cfg.MsgOnWireSizeLimit = c03mtuLimit(mtu)
		}
	}
	a := newEndpoint("A", method, key, nConns, func(cfg *mux.SessionConfig) { tw(cfg); cfg.Singleplex = singleplex })
	b := newEndpoint("B", method, key, nConns, tw)
	run := &c03Run{c: c, tag: tag, rig: &pairRig{A: a, B: b}, emit: true}
	run.A = &c03Side{name: "A", ep: a}
	run.B = &c03Side{name: "B", ep: b}
	run.mtu = mux.VerifMaxUnit(a.sesh)
	st, err := a.sesh.OpenStream()
	if err != nil {
		panic(err)
	}
	run.A.st = st
	run.sid = mux.VerifStreamID(st)
	run.info = map[string]any{"method": method, "conns": nConns, "singleplex": singleplex}
	run.T(fmt.Sprintf("st.new mtu=%d", run.mtu), "ok")
	return run
}

// pick the head of a random non-empty connection queue of `from`
func (r *c03Run) deliverOne(from *c03Side) bool {
	qs := r.rig.queues(from.ep)
	var ne []int
	for i, q := range qs {
		if len(q) > 0 {
			ne = append(ne, i)
		}
	}
	if len(ne) == 0 {
		return false
	}
	r.recv(from, qs[ne[r.c.r.intn(len(ne))]][0])
	return true
}

// final verdicts once everything has been delivered and both sides have been drained
func (r *c03Run) verdict(s *c03Side, end string) {
	p := r.peer(s)
	if s.st == nil {
		return
	}
	switch {
	case p.closedLocal && !s.closedLocal:
		// the peer wrote p.wrote and closed; this side never closed itself: exactly those bytes, then the error
		if end != "broken" || !bytes.Equal(s.read, p.wrote) {
			r.V("C03 after the peer's close: reads are not exactly the bytes written before it followed by the error",
				map[string]any{"side": s.name, "end": end, "read": len(s.read), "written_by_peer": len(p.wrote)})
		}
	case s.closedLocal:
		if end != "broken" || !bytes.HasPrefix(p.wrote, s.read) {
			r.V("C03 after a local close: reads are not a prefix of the peer's bytes followed by the error", map[string]any{"side": s.name, "end": end})
		}
	default:
		if !s.ep.sesh.IsClosed() && (end != "block" || !bytes.Equal(s.read, p.wrote)) {
			r.V("C03 open stream: delivered bytes differ from written bytes", map[string]any{"side": s.name, "end": end, "read": len(s.read), "written_by_peer": len(p.wrote)})
		}
	}
}

// ---------- (1) one sender run, every admissible arrival order at a fresh receiver ----------
func c03exhaustive(c *ctx, idx int) {
	r := c.r
	method := c03Methods[r.intn(len(c03Methods))]
	nConns := 1 + r.intn(3)
	mtu := []int{256, 300, 1000, 0}[r.intn(4)]
	snd := newC03Run(c, fmt.Sprintf("exhaustive #%d", idx), method, nConns, mtu, false)
	snd.emit = false
	nw := r.intn(4)
	frames := 0
	for i := 0; i < nw && frames < 3; i++ {
		var n int
		switch r.intn(5) {
		case 0:
			n = 0
		case 1:
			if snd.mtu <= 1100 && frames <= 1 {
				n = snd.mtu + 1 + r.intn(snd.mtu) // two frames
			} else {
				n = 1 + r.intn(5)
			}
		default:
			n = 1 + r.intn(5)
		}
		snd.write(snd.A, r.bytes(n))
		frames += (n + snd.mtu - 1) / snd.mtu
	}
	snd.close(snd.A)
	recs := snd.A.ep.tap.snapshot()
	senderRows := snd.rows
	key := snd.A.ep.sesh.GetSessionKey()
	B := snd.A.wrote
	snd.rig.shutdown()
	if len(recs) == 0 || len(recs) > 4 {
		return
	}
	permutations(len(recs), func(p []int) {
		// FIFO per connection
		lastOn := map[int]int{}
		for _, i := range p {
			if l, ok := lastOn[recs[i].conn]; ok && l > i {
				return
			}
			lastOn[recs[i].conn] = i
		}
		rb := newEndpoint("B", method, key, 1, func(cfg *mux.SessionConfig) {
			if mtu != 0 {
				cfg.MsgOnWireSizeLimit = c03mtuLimit(mtu)
			}
		})
		run := &c03Run{c: c, tag: snd.tag, rig: &pairRig{A: snd.A.ep, B: rb}, emit: true, sid: snd.sid, mtu: snd.mtu}
		run.A = &c03Side{name: "A", ep: snd.A.ep, wrote: B, closedLocal: true}
		run.B = &c03Side{name: "B", ep: rb}
		order := append([]int(nil), p...)
		conns := make([]int, len(recs))
		for i, rec := range recs {
			conns[i] = rec.conn
		}
		run.info = map[string]any{"method": method, "order": order, "conn_of_frame": conns, "bytes_before_close": len(B)}
		for _, row := range senderRows {
			run.T(row[0], row[1])
		}
		overtakes := false
		for pos, i := range order {
			rec := *recs[i]
			run.recv(run.A, &rec)
			if rec.f.Closing != mux.VerifClosingNothing && pos != len(order)-1 {
				overtakes = true
			}
			if r.intn(2) == 0 {
				run.readOp(run.B, 1+r.intn(6))
			}
		}
		end := run.drain(run.B)
		run.state(run.B)
		run.verdict(run.B, end)
		if run.B.st != nil {
			run.write(run.B, []byte{1}) // B processed A's close: its writes must fail
		}
		rb.shutdown()
		c.o.case_(fmt.Sprint("ex", conns, order, len(B)), overtakes)
		if overtakes {
			c.o.stat("closing_overtakes_data", 1)
		}
	})
}

// ---------- (2) random full-duplex scripts ----------
func c03random(c *ctx, idx int, singleplex bool) {
	r := c.r
	method := c03Methods[r.intn(len(c03Methods))]
	nConns := 1 + r.intn(8)
	if singleplex {
		nConns = 1
	}
	mtu := []int{256, 300, 1000, 0, 0}[r.intn(5)]
	run := newC03Run(c, fmt.Sprintf("duplex #%d singleplex=%v", idx, singleplex), method, nConns, mtu, singleplex)
	steps := 10 + r.intn(40)
	pClose := 2 + r.intn(10)
	for i := 0; i < steps; i++ {
		switch k := r.intn(100); {
		case k < 18:
			run.write(run.A, r.bytes(c03size(c, run.mtu)))
		case k < 30:
			run.write(run.B, r.bytes(c03size(c, run.mtu)))
		case k < 30+pClose:
			if r.intn(2) == 0 {
				run.close(run.A)
			} else {
				run.close(run.B)
			}
		case k < 62:
			run.deliverOne(run.A)
		case k < 75:
			run.deliverOne(run.B)
		case k < 90:
			run.readOp(run.B, 1+r.intn(50))
		default:
			run.readOp(run.A, 1+r.intn(50))
		}
	}
	// at least one close in most scripts
	if r.intn(4) > 0 {
		if r.intn(2) == 0 {
			run.close(run.A)
		} else {
			run.close(run.B)
		}
		if r.intn(3) == 0 {
			run.close(run.A)
			run.close(run.B)
		}
	}
	for run.deliverOne(run.A) || run.deliverOne(run.B) {
		if r.intn(3) == 0 {
			run.readOp(run.B, 1+r.intn(50))
		}
	}
	endA, endB := run.drain(run.A), run.drain(run.B)
	// messages produced meanwhile (a singleplex session closes itself when its stream goes)
	for run.deliverOne(run.A) || run.deliverOne(run.B) {
	}
	if endA == "block" {
		endA = run.drain(run.A)
	}
	if endB == "block" {
		endB = run.drain(run.B)
	}
	run.state(run.A)
	run.state(run.B)
	run.verdict(run.A, endA)
	run.verdict(run.B, endB)
	run.write(run.A, []byte{7})
	run.write(run.B, []byte{7})
	both := run.A.closedLocal && run.B.closedLocal
	if both {
		c.o.stat("both_sides_closed", 1)
	}
	c.o.case_(run.tag, run.A.closedLocal || run.B.closedLocal)
	run.rig.shutdown()
}

// ---------- (3) a reader parked in Read is woken by the close (testing/synctest) ----------
func c03wakeups(c *ctx) {
	kinds := []string{"peer-close", "local-close", "data", "peer-close-after-data", "session-close"}
	for _, m := range c03Methods {
		for _, kind := range kinds {
			kind, m := kind, m
			var res, errName string
			var got []byte
			parkedFirst := false
			synctest.Run(func() {
				run := newC03Run(c, "wakeup "+kind, m, 2, 0, false)
				run.emit = false
				run.write(run.A, []byte{1, 2, 3})
				// B's stream comes into being with the first frame; read it away so that the next Read parks
				run.deliverOne(run.A)
				run.drain(run.B)
				done := make(chan struct{})
				go func() {
					buf := make([]byte, 16)
					n, err := run.B.st.Read(buf)
					got, errName = buf[:n], mux.VerifErrName(err)
					close(done)
				}()
				synctest.Wait()
				select {
				case <-done:
				default:
					parkedFirst = true
				}
				switch kind {
				case "peer-close":
					run.close(run.A)
					run.deliverOne(run.A)
				case "local-close":
					run.close(run.B)
				case "data":
					run.write(run.A, []byte{9})
					run.deliverOne(run.A)
				case "peer-close-after-data":
					run.write(run.A, []byte{8})
					run.close(run.A)
					qs := run.rig.queues(run.A.ep)
					var all []*tapRec
					for _, q := range qs {
						all = append(all, q...)
					}
					sort.Slice(all, func(i, j int) bool { return all[i].f.Seq > all[j].f.Seq }) // closing notice first
					for _, rec := range all {
						run.recv(run.A, rec)
					}
				case "session-close":
					run.B.ep.sesh.Close()
				}
				synctest.Wait()
				select {
				case <-done:
					res = "returned"
				default:
					res = "still-parked"
				}
				run.rig.shutdown()
				if res != "returned" {
					// release the reader so that the bubble can end; the verdict above stands
					mux.VerifForceCloseRecv(run.B.st)
				}
				<-done
			})
			want := map[string]string{"peer-close": "ErrBrokenStream", "local-close": "ErrBrokenStream", "data": "nil", "peer-close-after-data": "nil", "session-close": "ErrBrokenStream"}[kind]
			if !parkedFirst {
				c.o.N("wakeup " + kind + ": reader did not park first")
			}
			if res != "returned" || errName != want || (kind == "data" && !bytes.Equal(got, []byte{9})) || (kind == "peer-close-after-data" && !bytes.Equal(got, []byte{8})) {
				c.o.V("C03 parked reader not woken correctly by "+kind, map[string]any{"method": m, "result": res, "err": errName, "got": hx(got), "parked_first": parkedFirst})
			}
			c.o.case_("wakeup "+kind, true)
			c.o.stat("wakeups", 1)
		}
	}
}

func c03(c *ctx) {
	reps := func(q, t int) int {
		if c.thorough() {
			return t
		}
		return q
	}
	// zero bytes before the close, on every method: the reader parks, then gets the error right away
	for i, m := range c03Methods {
		run := newC03Run(c, fmt.Sprintf("zero-bytes m=%d", m), m, 1+i, 0, false)
		run.write(run.A, nil)
		run.close(run.A)
		run.readOp(run.A, 4)
		for run.deliverOne(run.A) {
		}
		end := run.drain(run.B)
		run.state(run.B)
		run.verdict(run.B, end)
		run.rig.shutdown()
		c.o.case_(run.tag, true)
	}
	for i := 0; i < reps(150, 2500); i++ {
		c03exhaustive(c, i)
	}
	for i := 0; i < reps(300, 5000); i++ {
		c03random(c, i, false)
	}
	for i := 0; i < reps(40, 500); i++ {
		c03random(c, i, true)
	}
	c03wakeups(c)
	c.o.sample("exhaustive: A writes 3 bytes + closes; frames on conns [0 2 1]; order [closing, 1, 0] -> B reads block, …, data, broken only after all 3 bytes")
	nrf := 24
	if c.thorough() {
		nrf = 300
	}
	for k := 0; k < nrf; k++ {
		c03readFrom(c, k)
	}
	ncr := 6
	if c.thorough() {
		ncr = 60
	}
	for k := 0; k < ncr; k++ {
		c03closeRace(c, k)
	}
	for k := 0; k < ncr; k++ {
		c03closeSendFails(c, k)
	}
	for k := 0; k < ncr; k++ {
		c03lateAccept(c, k)
	}
	ntcp := 1
	if c.thorough() {
		ntcp = 4
	}
	for k := 0; k < ntcp; k++ {
		c03tcpClose(c, k)
	}
}
