//go:build verif

package main

// C07 — only holders of valid, timely credentials are ever treated as Cloak clients.
//
// The real AuthFirstPacket and dispatchConnection run on: a genuine first packet (TLS ClientHello of
// three browsers, WebSocket GET) with single bits flipped and random multi-byte edits; the server clock
// at ts ± {179 s, 180 s − 1 ns, 180 s, 180 s + 1 ns, 181 s}; a client using the wrong server key; UIDs
// outside bypass list / user database (a real bbolt store), zero or negative credit, past expiry, reached
// session cap; unknown proxy methods and encryption methods; the admin UID with session id ≠ 0 and other
// UIDs with session id 0; malformed framing.  The Lean decision function (`auth.*` ops) gets the raw bytes
// plus the crypto ORACLE rows and must predict the same outcome.
//
// Monitor (the property as stated): a connection is answered with a handshake reply only if — by the
// harness' own knowledge of keys, clock and store — its payload is one a client sealed to the server key,
// unmodified, its timestamp is strictly inside the window, the UID is authorised and the method served
// (or, for the admin API, UID = AdminUID and session id 0); a complete first packet that is not answered is relayed to the
// redirect address — it is neither closed on nor left with no reply, no relay and no close.

import (
	"math/big"
	"bytes"
	"encoding/binary"
	"fmt"
	"github.com/cbeuw/Cloak/internal/client"
	"net"
	"os"
	"sort"
	"strings"
	"time"

	"github.com/cbeuw/Cloak/internal/common"
	"github.com/cbeuw/Cloak/internal/server"
	"github.com/cbeuw/Cloak/internal/server/usermanager"
)

func init() { scenarios["C07"] = c07 }

type fakeDialer struct {
	ev   chan string
	last *evConn
}

func (d *fakeDialer) Dial(network, address string) (net.Conn, error) {
	d.last = newEvConn("web", nil, d.ev)
	return d.last, nil
}

type c07rec struct{ up, down, expiry, cap int64 }

type c07env struct {
	c       *ctx
	keys    srvKeys
	cur     time.Time
	mgr     usermanager.UserManager
	db      map[string]c07rec
	sta     *server.State
	dialer  *fakeDialer
	admin   []byte
	bypass  [][]byte
	book    []string
	rows    map[string]bool
	genuine map[string]bool // every sealed block the client code produced in this run
	active  map[string]bool // harness bookkeeping: UIDs that have been given a session on this server
	nConn   int
}

func (e *c07env) now() time.Time { return e.cur }

// pad16: the 16-byte UID a BypassUID / AdminUID entry of the configuration stands for (zero-padded, cut at 16)
func pad16(b []byte) []byte {
	out := make([]byte, 16)
	copy(out, b)
	return out
}

func hexOrDash(b []byte) string {
	if len(b) == 0 {
		return "-"
	}
	return hx(b)
}

func (e *c07env) newServer(admin []byte, bypass [][]byte, book []string) {
	e.admin, e.bypass, e.book = admin, bypass, book
	pb := map[string][]string{}
	for _, m := range book {
		pb[m] = []string{"tcp", "127.0.0.1:9"}
	}
	e.sta = newState(e.keys, stateOpts{adminUID: admin, bypass: bypass, proxyBook: pb, now: e.now})
	server.VerifSetManager(e.sta, e.mgr)
	e.dialer = &fakeDialer{}
	e.sta.RedirDialer = e.dialer
	e.active = map[string]bool{}
	e.rows = map[string]bool{}
	var bs, ms []string
	for _, b := range bypass {
		bs = append(bs, hx(pad16(b)))
	}
	for _, m := range book {
		ms = append(ms, hx([]byte(strings.ToLower(m))))
	}
	j := func(x []string) string {
		if len(x) == 0 {
			return "-"
		}
		return strings.Join(x, ",")
	}
	e.c.o.T("auth.oracle.reset", "ok")
	e.c.o.T(fmt.Sprintf("auth.new sk=%s admin=%s bypass=%s book=%s", hx(e.keys.priv[:]), hexOrDash(admin), j(bs), j(ms)), "ok")
	uids := make([]string, 0, len(e.db))
	for u := range e.db {
		uids = append(uids, u)
	}
	sort.Strings(uids)
	for _, u := range uids {
		r := e.db[u]
		e.c.o.T(fmt.Sprintf("auth.user uid=%s up=%d down=%d expiry=%d cap=%d", u, r.up, r.down, r.expiry, r.cap), "ok")
	}
}

func (e *c07env) setUser(uid []byte, up, down, expiry int64, cap int32) {
	err := e.mgr.WriteUserInfo(usermanager.UserInfo{UID: uid, SessionsCap: usermanager.JustInt32(cap), UpRate: usermanager.JustInt64(1 << 20),
		DownRate: usermanager.JustInt64(1 << 20), UpCredit: usermanager.JustInt64(up), DownCredit: usermanager.JustInt64(down), ExpiryTime: usermanager.JustInt64(expiry)})
	if err != nil {
		panic(err)
	}
	e.db[hx(uid)] = c07rec{up, down, expiry, int64(cap)}
	e.c.o.T(fmt.Sprintf("auth.user uid=%s up=%d down=%d expiry=%d cap=%d", hx(uid), up, down, expiry, cap), "ok")
}

func (e *c07env) resetCache() {
	server.VerifResetReplay(e.sta)
	e.c.o.T("auth.resetcache", "ok")
}

// firstPacketOf mirrors only the FRAMING of readFirstPacket, to know for which bytes ORACLE rows are due.
func firstPacketOf(stream []byte) (tr string, pkt []byte) {
	if len(stream) == 0 {
		return "", nil
	}
	switch stream[0] {
	case 0x16:
		if len(stream) < 5 {
			return "", nil
		}
		dl := int(binary.BigEndian.Uint16(stream[3:5]))
		if dl+5 > 3000 || len(stream) < dl+5 {
			return "", nil
		}
		return "tls", stream[:dl+5]
	case 0x47:
		i := bytes.Index(stream, []byte("\n\r\n"))
		if i < 0 || i+3 > 3000 {
			return "", nil
		}
		return "ws", stream[:i+3]
	}
	return "", nil
}

// oracleRows emits the crypto rows the model may ask for on pkt and returns what the server will see.
func (e *c07env) oracleRows(tr string, pkt []byte) (parsed bool, rnd, ct []byte, ok bool, pt []byte) {
	parsed, rnd, ct = seenBy(tr, pkt)
	if !parsed {
		return
	}
	secret, reg := oracleDH(e.keys.priv[:], rnd)
	k := "dh" + hx(rnd)
	if !e.rows[k] {
		e.rows[k] = true
		out := "fail"
		if reg {
			out = hx(secret)
		}
		e.c.o.T(fmt.Sprintf("auth.oracle.dh priv=%s pub=%s out=%s", hx(e.keys.priv[:]), hx(rnd), out), "ok")
	}
	if !reg {
		return
	}
	pt, ok = hsOracleOpen(secret, rnd[:12], ct)
	k = "op" + hx(rnd) + hx(ct)
	if !e.rows[k] {
		e.rows[k] = true
		out := "fail"
		if ok {
			out = hx(pt)
		}
		e.c.o.T(fmt.Sprintf("auth.oracle.open key=%s nonce=%s ct=%s out=%s", hx(secret), hx(rnd[:12]), hx(ct), out), "ok")
	}
	return
}

func hiddenArg(tr string, pkt []byte) string {
	if tr != "ws" {
		return ""
	}
	h, parsed := hiddenOf(pkt)
	if !parsed {
		return " hidden=none"
	}
	return " hidden=" + hexOrDash(h)
}

// checkAccepted evaluates the property's clauses for an accepted connection.
func (e *c07env) checkAccepted(kind, desc string, tr string, pkt []byte, admin bool, joinsExisting ...bool) {
	parsed, rnd, ct := seenBy(tr, pkt)
	fail := func(clause string, extra map[string]any) {
		d := map[string]any{"clause": clause, "case": desc, "transport": tr, "first_packet": hx(pkt), "server_time_ns": e.cur.UnixNano(),
			"server_private_key": hx(e.keys.priv[:]), "admin_uid": hx(e.admin), "level": kind}
		for k, v := range extra {
			d[k] = v
		}
		e.c.o.V("C07 unsound-accept "+clause, d)
	}
	if !parsed {
		fail("not-a-hello", nil)
		return
	}
	_, ok, pt, _ := oracleView(e.keys.priv[:], rnd, ct)
	if !ok {
		fail("payload-does-not-open-under-server-key", nil)
		return
	}
	// "unmodified" is about the sealed authentication payload: it must be a block some client sealed in this run
	// and it must open under DH(server key, the 32 bytes that came with it).  (Bit 255 of those 32 bytes is
	// ignored by X25519; a copy with that bit flipped carries the same, unmodified, payload — whether such a
	// copy may be accepted a second time is C08's subject, not C07's.)
	if !e.genuine[hx(ct)] {
		fail("payload-modified", nil)
	}
	ts := plainTS(pt)
	nowNs := e.cur.UnixNano()
	tol := int64(180 * time.Second)
	// exact arithmetic: ts is whatever 64-bit value the payload carries, ts*1e9 need not fit an int64
	tsNs := new(big.Int).Mul(big.NewInt(ts), big.NewInt(1e9))
	off := new(big.Int).Sub(tsNs, big.NewInt(nowNs))
	if off.CmpAbs(big.NewInt(tol)) >= 0 {
		fail("timestamp-outside-window", map[string]any{"timestamp": ts, "offset_ns": off.String()})
	}
	if kind != "dispatch" {
		return
	}
	uid := pt[0:16]
	sid := binary.BigEndian.Uint32(pt[37:41])
	method := string(bytes.Trim(pt[16:28], "\x00"))
	if admin {
		if len(e.admin) == 0 || !bytes.Equal(uid, e.admin) || sid != 0 {
			fail("admin-api-without-admin-credentials", map[string]any{"uid": hx(uid), "sid": sid})
		}
		return
	}
	served := false
	for _, m := range e.book {
		if strings.ToLower(m) == strings.ToLower(method) { // names are matched without regard to case (parseProxyBook lower-cases the book)
			served = true
		}
	}
	if !served {
		fail("method-not-served", map[string]any{"method": method})
	}
	if pt[28] > 3 {
		fail("unknown-encryption-method", map[string]any{"enc": pt[28]})
	}
	// a connection that joins a session the user already has rides on that session's authorisation; a NEW session
	// needs the user to be authorised now, cached in the panel or not
	authorised := e.active[hx(uid)] && len(joinsExisting) > 0 && joinsExisting[0]
	for _, b := range e.bypass {
		if bytes.Equal(pad16(b), uid) { // an entry stands for the 16-byte UID it is a prefix of, zero-padded (State.IsBypass)
			authorised = true
		}
	}
	if bytes.Equal(uid, e.admin) && len(e.admin) != 0 {
		authorised = true
	}
	if r, in := e.db[hx(uid)]; in && r.up > 0 && r.down > 0 && r.expiry >= e.cur.Unix() {
		authorised = true
	}
	if !authorised {
		fail("uid-not-authorised", map[string]any{"uid": hx(uid)})
	}
}

// conn feeds one byte stream to the real dispatchConnection and records the decision.
func (e *c07env) conn(stream []byte, desc string) string {
	tr, pkt := firstPacketOf(stream)
	var uid []byte
	var sid uint32
	existedBefore := false
	if tr != "" {
		_, _, _, ok, pt := e.oracleRows(tr, pkt)
		if ok {
			uid, sid = pt[0:16], binary.BigEndian.Uint32(pt[37:41])
			_, existedBefore, _, _, _ = server.VerifSession(e.sta, uid, sid)
		}
	}
	// WebSocket: would the libraries upgrade this request at all (see c07ws.go)?
	upg := true
	if tr == "ws" && uid != nil {
		upg = wsUpgradable(pkt)
		if !upg {
			e.c.o.stat("ws_request_not_upgradable", 1)
		}
	}
	ev := make(chan string, 64)
	peer := newEvConn("peer", stream, ev)
	e.dialer.ev = ev
	e.dialer.last = nil
	go func() {
		server.VerifDispatch(peer, e.sta)
		select {
		case ev <- "return":
		default:
		}
	}()
	first := <-ev
	decision := ""
	if first == "peer:write" && tr == "ws" {
		// the handshake reply of this transport starts with the 101 of the upgrade; anything else written to the
		// peer is net/http's or gorilla's refusal of the request (it races with the close that follows it)
		time.Sleep(2 * time.Millisecond)
		if w := peer.written(); !bytes.HasPrefix(w, []byte("HTTP/1.1 101 ")) {
			first = "peer:close"
			if upg || uid == nil {
				e.c.o.V("C07 refusal-written-to-peer", map[string]any{"case": desc, "transport": tr, "first_packet": hx(pkt), "written": string(w[:min(len(w), 80)]),
					"what": "the server wrote something other than the upgrade reply to a peer whose request the libraries would upgrade, or whose credentials do not open"})
			}
		}
	}
	switch first {
	case "peer:write":
		_, has, _, _, _ := server.VerifSession(e.sta, uid, sid)
		if uid != nil && has {
			x := 0
			if existedBefore {
				x = 1
			}
			decision = fmt.Sprintf("proxy uid=%s sid=%d existing=%d", hx(uid), sid, x)
			e.checkAccepted("dispatch", desc, tr, pkt, false, existedBefore)
			e.active[hx(uid)] = true
		} else {
			decision = "admin"
			e.checkAccepted("dispatch", desc, tr, pkt, true)
		}
	case "web:write":
		decision = "web"
	case "peer:close":
		decision = "close"
		if tr == "ws" && uid != nil && !upg {
			// credentials that open, on a request that cannot be upgraded: refused after authentication. Whether the
			// credentials were good enough to get that far is the model's row (accepted-and-not-upgradable = close)
			if _, has, _, _, _ := server.VerifSession(e.sta, uid, sid); has {
				e.active[hx(uid)] = true
			}
		} else if tr != "" {
			// "every other first packet is handled as ordinary web traffic": a COMPLETE first packet was closed on
			e.c.o.V("C07 complete-packet-not-relayed", map[string]any{"case": desc, "transport": tr, "first_packet": hx(pkt),
				"server_time_ns": e.cur.UnixNano(), "server_private_key": hx(e.keys.priv[:]), "decision": "connection closed, nothing relayed"})
		}
	case "return":
		decision = "stall"
		if tr != "" {
			// dispatchConnection has returned on a COMPLETE first packet without a handshake reply, without relaying it
			// ("every other first packet is handled as ordinary web traffic") and without even closing the connection
			sig := "C07 connection-left-open"
			d := map[string]any{"case": desc, "transport": tr, "first_packet": hx(pkt), "server_time_ns": e.cur.UnixNano(),
				"server_private_key": hx(e.keys.priv[:]), "decision": "dispatchConnection returned: no reply, nothing relayed, connection not closed"}
			if uid != nil {
				// the payload opened under the server key: the packet got as far as the user lookup / GetSession
				_, has, _, _, _ := server.VerifSession(e.sta, uid, sid)
				if !has {
					sig += " getsession-refused"
				}
				d["uid"], d["session_id"] = hx(uid), sid
				if r, in := e.db[hx(uid)]; in {
					d["user_record"] = fmt.Sprintf("up=%d down=%d expiry=%d (now %d) cap=%d", r.up, r.down, r.expiry, e.cur.Unix(), r.cap)
				}
			}
			e.c.o.V(sig, d)
		}
	default:
		decision = "unexpected:" + first
	}
	if !strings.HasPrefix(decision, "proxy") && decision != "admin" {
		// nothing of the server's state hangs on this connection: release the relay goroutines
		peer.Close()
		if e.dialer.last != nil {
			e.dialer.last.Close()
		}
	}
	upgArg := ""
	if !upg {
		upgArg = " upg=0"
	}
	e.c.o.T(fmt.Sprintf("auth.conn stream=%s%s now=%d%s", hexOrDash(stream), hiddenArg(tr, pkt), e.cur.UnixNano(), upgArg), decision)
	e.nConn++
	e.c.o.stat("conn_"+strings.SplitN(decision, " ", 2)[0], 1)
	return decision
}

// first feeds one first packet to the real AuthFirstPacket.
func (e *c07env) first(tr string, pkt []byte, desc string) string {
	e.oracleRows(tr, pkt)
	buf := append([]byte(nil), pkt...)
	info, _, err := server.AuthFirstPacket(buf, transportOf(tr), e.sta)
	out := ""
	switch cl := classifyAuth(err); cl {
	case "accept":
		u := 0
		if info.Unordered {
			u = 1
		}
		out = fmt.Sprintf("accept uid=%s sid=%d method=%s enc=%d unordered=%d", hx(info.UID), info.SessionId, hexOrDash([]byte(info.ProxyMethod)), info.EncryptionMethod, u)
		e.checkAccepted("auth", desc, tr, pkt, false)
	case "reject":
		if strings.Contains(err.Error(), server.ErrTimestampOutOfWindow.Error()) {
			out = "reject window"
		} else {
			out = "reject open"
		}
	case "early":
		out = "unmarshal"
		if tr == "ws" {
			if _, parsed := hiddenOf(pkt); !parsed {
				out = "badhello"
			}
		}
	default:
		out = cl
	}
	e.c.o.T(fmt.Sprintf("auth.first tr=%s data=%s%s now=%d", tr, hexOrDash(pkt), hiddenArg(tr, pkt), e.cur.UnixNano()), out)
	e.c.o.stat("first_"+strings.SplitN(out, " ", 2)[0], 1)
	return out
}

func (e *c07env) packet(r *rng, tr string, br int, uid []byte, sid uint32, method string, enc byte, unordered bool, clientNow time.Time, keys *srvKeys) hsPacket {
	k := e.keys
	if keys != nil {
		k = *keys
	}
	p := buildFirstPacket(k, r, tr, br, uid, sid, method, enc, unordered, clientNow)
	e.genuine[hx(p.ct)] = true
	return p
}

func c07(c *ctx) {
	o, r := c.o, c.r
	e := &c07env{c: c, keys: newServerKeys(r), db: map[string]c07rec{}, genuine: map[string]bool{}}
	e.cur = time.Unix(1_750_000_000, 0)
	os.Remove("c07.db")
	mgr, err := usermanager.MakeLocalManager("c07.db", common.WorldState{Rand: cryptoRand{}, Now: e.now})
	if err != nil {
		panic(err)
	}
	e.mgr = mgr
	defer os.Remove("c07.db")

	admin := append([]byte("ADMIN-UID-"), r.bytes(6)...)
	byp := r.bytes(16)
	dbu := r.bytes(16)
	book := []string{"shadowsocks", "openvpn", "twelve-bytes", "MixedCaseSS"} // as the operator wrote them; the server keeps them lower-cased
	T := e.cur

	type flavour struct {
		tr string
		br int
	}
	flavours := []flavour{{"tls", brChrome}, {"tls", brFirefox}, {"tls", brSafari}, {"ws", 0}}

	// ---- (1) clock edges, both levels, every flavour ----
	e.newServer(admin, [][]byte{byp}, book)
	e.setUser(dbu, 1000, 1000, T.Unix()+100000, 5)
	sec := int64(time.Second)
	edges := []int64{-181 * sec, -180*sec - 1, -180 * sec, -180*sec + 1, -179 * sec, -1, 0, 1, 179 * sec, 180*sec - 1, 180 * sec, 180*sec + 1, 181 * sec}
	for fi, f := range flavours {
		for _, d := range edges {
			// the packet carries ts = T (whole seconds); the server clock stands at T + d
			for level := 0; level < 2; level++ {
				e.cur = T
				pk := e.packet(r, f.tr, f.br, byp, uint32(10+fi), "shadowsocks", 1, false, T, nil)
				e.cur = T.Add(time.Duration(d))
				if level == 0 {
					e.first(f.tr, pk.pkt, fmt.Sprintf("clock-edge %+dns", d))
				} else {
					e.conn(pk.pkt, fmt.Sprintf("clock-edge %+dns", d))
				}
				o.case_(fmt.Sprintf("edge/%d/%d/%d", fi, d, level), true)
			}
		}
	}
	e.cur = T

	// ---- (1a) timestamps far outside the window: beyond what a time.Duration can express (about 292 years),
	// around the int64 limits, and "negative" ones; the server clock stands at T ----
	{
		year := int64(365 * 86400)
		far := []int64{1 << 31, 1 << 32, 1 << 33, 250 * year, 292 * year, 293 * year, 300 * year, 1000 * year, 1 << 40, 1 << 53, 1<<62 - T.Unix(),
			1<<63 - 1 - T.Unix(), -(1 << 31), -(250 * year), -(293 * year), -(1000 * year), -(1 << 40), -(1 << 62), -T.Unix() - 1, -T.Unix() - (1 << 62)}
		for fi, f := range flavours {
			if !c.thorough() && fi != 0 && fi != 3 {
				continue
			}
			for _, d := range far {
				for level := 0; level < 2; level++ {
					e.cur = T
					pk := e.packet(r, f.tr, f.br, byp, uint32(20+fi), "shadowsocks", 1, false, time.Unix(T.Unix()+d, 0), nil)
					if level == 0 {
						e.first(f.tr, pk.pkt, fmt.Sprintf("far timestamp %+ds", d))
					} else {
						e.conn(pk.pkt, fmt.Sprintf("far timestamp %+ds", d))
					}
					o.case_(fmt.Sprintf("far/%d/%d/%d", fi, d, level), true)
				}
			}
		}
	}

	// ---- (1b) forged without the server's key: degenerate ephemeral values ----
	// For a small-order X25519 point the shared secret does not depend on any private key (it is all-zero), so
	// anyone can seal a payload "to" it.  golang.org/x/crypto's X25519 refuses such points; the server must never
	// accept a packet that was not sealed to ITS key.  The payload names an authorised (bypass) UID, a served
	// method and a timestamp inside the window.
	{
		e.newServer(admin, [][]byte{byp}, book)
		p25519 := func(delta int) []byte { // little-endian p + delta, p = 2^255 - 19
			b := make([]byte, 32)
			for i := range b {
				b[i] = 0xff
			}
			b[31] = 0x7f
			v := 0xed + delta
			b[0] = byte(v)
			if v > 0xff { // carry
				for i := 1; i < 32; i++ {
					b[i]++
					if b[i] != 0 {
						break
					}
				}
				b[31] &= 0xff
			}
			return b
		}
		lowOrder := [][]byte{
			make([]byte, 32),
			append([]byte{1}, make([]byte, 31)...),
			unhx("e0eb7a7c3b41b8ae1656e3faf19fc46ada098deb9c32b1fd866205165f49b800"),
			unhx("5f9c95bca3508c24b1d0b1559c83ef5b04445cc4581c8e86d8224eddd09f1157"),
			p25519(-1), p25519(0), p25519(1),
		}
		zeroKey := make([]byte, 32)
		for pi, pt := range lowOrder {
			for hb := 0; hb < 2; hb++ { // also with the ignored top bit set
				point := append([]byte(nil), pt...)
				if hb == 1 {
					point[31] |= 0x80
				}
				plain := make([]byte, 48)
				copy(plain, byp)
				copy(plain[16:28], "shadowsocks")
				plain[28] = 1
				binary.BigEndian.PutUint64(plain[29:37], uint64(T.Unix()))
				binary.BigEndian.PutUint32(plain[37:41], uint32(900+pi))
				ct := hsOracleSeal(zeroKey, point[:12], plain)
				var vp client.VerifPayload
				copy(vp.Rand[:], point)
				copy(vp.Ct[:], ct)
				for fi, f := range flavours {
					var pkt []byte
					if f.tr == "tls" {
						var err error
						pkt, err = client.VerifClientHello(f.br, vp, "www.example.com")
						if err != nil {
							continue
						}
					} else {
						pkt = wsGET(append(append([]byte(nil), point...), ct...), r.bytes(16))
					}
					desc := fmt.Sprintf("forged with small-order point #%d topbit=%d (no server key needed)", pi, hb)
					e.resetCache()
					e.first(f.tr, pkt, desc)
					e.resetCache()
					e.conn(pkt, desc)
					o.case_(fmt.Sprintf("loworder/%d/%d/%d", pi, hb, fi), true)
				}
			}
		}
	}
	e.cur = T

	// ---- (2) credentials matrix through dispatchConnection ----
	stranger := r.bytes(16)
	uZeroUp, uNegUp, uZeroDown, uExpired, uExpNow, uCap0, uCap1 := r.bytes(16), r.bytes(16), r.bytes(16), r.bytes(16), r.bytes(16), r.bytes(16), r.bytes(16)
	wrong := newServerKeys(r)
	for round := 0; round < 2; round++ {
		tr := []string{"tls", "ws"}[round]
		br := round
		e.newServer(admin, [][]byte{byp}, book)
		e.setUser(dbu, 1000, 1000, T.Unix()+100000, 5)
		e.setUser(uZeroUp, 0, 1000, T.Unix()+1000, 5)
		e.setUser(uNegUp, -5, 1000, T.Unix()+1000, 5)
		e.setUser(uZeroDown, 1000, 0, T.Unix()+1000, 5)
		e.setUser(uExpired, 1000, 1000, T.Unix()-1, 5)
		e.setUser(uExpNow, 1000, 1000, T.Unix(), 5)
		e.setUser(uCap0, 1000, 1000, T.Unix()+1000, 0)
		e.setUser(uCap1, 1000, 1000, T.Unix()+1000, 1)
		mk := func(uid []byte, sid uint32, method string, enc byte) []byte {
			return e.packet(r, tr, br, uid, sid, method, enc, sid%2 == 1, T, nil).pkt
		}
		e.conn(mk(byp, 1, "shadowsocks", 0), "bypass uid")
		e.conn(mk(byp, 1, "shadowsocks", 0), "bypass uid, same session")
		e.conn(mk(dbu, 2, "openvpn", 1), "database uid")
		e.conn(mk(stranger, 3, "shadowsocks", 1), "uid neither bypass nor in database")
		e.conn(mk(uZeroUp, 3, "shadowsocks", 1), "zero up credit")
		e.conn(mk(uNegUp, 3, "shadowsocks", 1), "negative up credit")
		e.conn(mk(uZeroDown, 3, "shadowsocks", 1), "zero down credit")
		e.conn(mk(uExpired, 3, "shadowsocks", 1), "expired one second ago")
		e.conn(mk(uExpNow, 3, "shadowsocks", 1), "expires this very second")
		e.conn(mk(uCap0, 3, "shadowsocks", 1), "session cap 0")
		e.conn(mk(uCap1, 3, "shadowsocks", 1), "session cap 1, first session")
		e.conn(mk(uCap1, 4, "shadowsocks", 1), "session cap 1, second session")
		e.conn(mk(uCap1, 3, "shadowsocks", 1), "session cap 1, first session again")
		// credentials withdrawn while active: existing session still joins, a new one is refused
		e.setUser(dbu, 0, 1000, T.Unix()+100000, 5)
		e.conn(mk(dbu, 2, "openvpn", 1), "active user, credit exhausted meanwhile, same session")
		e.conn(mk(dbu, 9, "openvpn", 1), "active user, credit exhausted meanwhile, new session")
		e.setUser(dbu, 1000, 1000, T.Unix()+100000, 5)
		// the same for each way an active user's authorisation can lapse (the panel keeps the user cached, so only
		// the new-session authorisation looks at the database)
		e.conn(mk(dbu, 2, "openvpn", 1), "active user re-credited, same session")
		e.setUser(dbu, 1000, 0, T.Unix()+100000, 5)
		e.conn(mk(dbu, 11, "openvpn", 1), "active user, down credit exhausted meanwhile (up credit left), new session")
		e.setUser(dbu, 1000, -7, T.Unix()+100000, 5)
		e.conn(mk(dbu, 12, "openvpn", 1), "active user, down credit negative meanwhile, new session")
		e.setUser(dbu, -1, 1000, T.Unix()+100000, 5)
		e.conn(mk(dbu, 13, "openvpn", 1), "active user, up credit negative meanwhile (down credit left), new session")
		e.setUser(dbu, 1000, 1000, T.Unix()-1, 5)
		e.conn(mk(dbu, 14, "openvpn", 1), "active user, expired meanwhile, new session")
		e.setUser(dbu, 1000, 1000, T.Unix(), 5)
		e.conn(mk(dbu, 15, "openvpn", 1), "active user, expires this very second, new session")
		e.setUser(dbu, 1000, 1000, T.Unix()+100000, 1)
		e.conn(mk(dbu, 16, "openvpn", 1), "active user, session cap lowered to the sessions it has, new session")
		e.setUser(dbu, 1000, 1000, T.Unix()+100000, 5)
		e.conn(mk(dbu, 17, "openvpn", 1), "active user, authorisation restored, new session")
		// methods
		e.conn(mk(byp, 5, "unknown", 1), "unknown proxy method")
		e.conn(mk(byp, 5, "Shadowsocks", 1), "method in another case than its ProxyBook entry")
		e.conn(mk(byp, 5, "MixedCaseSS", 1), "method written exactly like its mixed-case ProxyBook entry")
		e.conn(mk(byp, 5, "mixedcasess", 1), "lower-case form of a mixed-case ProxyBook entry")
		e.conn(mk(byp, 5, "MIXEDCASESS", 1), "upper-case form of a mixed-case ProxyBook entry")
		e.conn(mk(byp, 5, "MixedCaseS", 1), "prefix of a ProxyBook entry")
		e.conn(mk(byp, 5, "twelve-bytes", 2), "12-byte method name")
		e.conn(mk(byp, 5, "", 1), "empty method")
		// encryption methods
		for _, enc := range []byte{0, 1, 2, 3, 4, 5, 0x80, 0xff} {
			e.conn(mk(byp, 6, "shadowsocks", enc), fmt.Sprintf("encryption method %d", enc))
		}
		// admin gate
		e.conn(mk(admin, 0, "shadowsocks", 1), "admin uid, session id 0")
		e.conn(mk(admin, 7, "shadowsocks", 1), "admin uid, session id 7")
		e.conn(mk(admin, 0, "nonexistent", 1), "admin uid, session id 0, unknown method")
		e.conn(mk(byp, 0, "shadowsocks", 1), "bypass uid, session id 0")
		e.conn(mk(dbu, 0, "shadowsocks", 1), "database uid, session id 0")
		e.conn(mk(stranger, 0, "shadowsocks", 1), "unknown uid, session id 0")
		au := append([]byte(nil), admin...)
		au[15] ^= 1
		e.conn(mk(au, 0, "shadowsocks", 1), "uid one bit off the admin uid, session id 0")
		// wrong server key
		e.conn(e.packet(r, tr, br, byp, 8, "shadowsocks", 1, false, T, &wrong).pkt, "sealed to another server key")
		// replay of an accepted packet
		p := mk(byp, 1, "shadowsocks", 0)
		e.conn(p, "fresh")
		e.conn(p, "replayed")
		// framing
		e.conn(nil, "empty stream")
		e.conn([]byte{0x16, 3, 1}, "truncated record header")
		e.conn(p[:len(p)-1], "last byte missing")
		e.conn(append(append([]byte(nil), p...), 1, 2, 3), "trailing bytes")
		e.conn([]byte("POST / HTTP/1.1\r\n\r\n"), "other protocol")
		e.conn(append([]byte{0x16, 3, 1, 0x0b, 0xb4}, make([]byte, 10)...), "record length 2996 (one more than fits)")
		e.conn(r.bytes(200), "random bytes")
		o.case_(fmt.Sprintf("matrix/%d", round), true)
	}
	// BypassUID entries that are not 16 bytes long (operator slip): each stands for itself zero-padded and for nothing else —
	// in particular not for a UID made of its bytes and the TAIL OF THE PREVIOUS ENTRY
	{
		short := []byte("bob")
		e.newServer(admin, [][]byte{byp, short, {}}, book)
		mkU := func(uid []byte, sid uint32) []byte {
			return e.packet(r, "ws", 0, uid, sid, "shadowsocks", 1, false, T, nil).pkt
		}
		stranger := append(append([]byte(nil), short...), byp[len(short):]...) // "bob" + tail of the entry before it
		e.conn(mkU(stranger, 31), "uid made of a short bypass entry and the tail of the entry before it")
		e.conn(mkU(pad16(short), 32), "short bypass entry, zero-padded")
		e.conn(mkU(make([]byte, 16), 33), "all-zero uid with an empty bypass entry configured")
		e.conn(mkU(byp, 34), "full-length bypass entry next to short ones")
		adm5 := []byte("admin")
		e.newServer(adm5, [][]byte{byp}, book)
		strangerAdm := append(append([]byte(nil), adm5...), byp[len(adm5):]...)
		e.conn(mkU(strangerAdm, 35), "uid made of a short admin uid and the tail of the last bypass entry")
		o.case_("short bypass entries", true)
	}
	// no admin configured: nobody reaches the API, whatever the UID
	e.newServer(nil, [][]byte{byp}, book)
	e.conn(e.packet(r, "ws", 0, admin, 0, "shadowsocks", 1, false, T, nil).pkt, "no admin configured; old admin uid, session id 0")
	e.conn(e.packet(r, "tls", brFirefox, make([]byte, 16), 0, "shadowsocks", 1, false, T, nil).pkt, "no admin configured; all-zero uid, session id 0")
	e.conn(e.packet(r, "tls", brFirefox, byp, 0, "shadowsocks", 1, false, T, nil).pkt, "no admin configured; bypass uid, session id 0")

	// ---- (3) every single bit (sampled in quick) of a genuine packet, AuthFirstPacket level ----
	e.newServer(admin, [][]byte{byp}, book)
	for fi, f := range flavours {
		pk := e.packet(r, f.tr, f.br, byp, uint32(40+fi), "openvpn", byte(fi%4), fi%2 == 0, T.Add(time.Duration(r.intn(300)-150)*time.Second), nil)
		nbits := len(pk.pkt) * 8
		var bits []int
		if c.thorough() {
			for b := 0; b < nbits; b++ {
				bits = append(bits, b)
			}
		} else {
			// the structurally interesting parts in full, the rest sampled
			lim := 160 * 8
			if f.tr == "ws" || lim > nbits {
				lim = 0
			}
			for b := 0; b < lim; b++ {
				bits = append(bits, b)
			}
			mark := func(sub []byte) {
				if i := bytes.Index(pk.pkt, sub); i >= 0 {
					for b := (i - 12) * 8; b < (i+len(sub))*8; b++ {
						if b >= lim {
							bits = append(bits, b)
						}
					}
				}
			}
			if f.tr == "tls" {
				mark(pk.ct[32:])
			} else {
				i := bytes.Index(pk.pkt, []byte("Hidden: "))
				for b := i * 8; b < nbits; b++ {
					bits = append(bits, b)
				}
			}
			extra := 300
			if c.thorough() {
				extra = 3000
			}
			for k := 0; k < extra; k++ {
				bits = append(bits, r.intn(nbits))
			}
		}
		o.stat(fmt.Sprintf("bits_%s_%s", f.tr, browserNames[f.br]), len(bits))
		for _, b := range bits {
			v := append([]byte(nil), pk.pkt...)
			v[b/8] ^= 1 << (b % 8)
			e.resetCache()
			e.first(f.tr, v, fmt.Sprintf("bit %d of a genuine %s packet (%s) flipped", b, f.tr, browserNames[f.br]))
			o.case_(fmt.Sprintf("bit/%d/%d", fi, b), true)
		}
		// random multi-byte edits
		nEd := 150
		if c.thorough() {
			nEd = 1500
		}
		for k := 0; k < nEd; k++ {
			v := append([]byte(nil), pk.pkt...)
			switch r.intn(4) {
			case 0: // overwrite a run
				i := r.intn(len(v))
				for j := i; j < len(v) && j < i+1+r.intn(8); j++ {
					v[j] = byte(r.next())
				}
			case 1: // truncate
				v = v[:r.intn(len(v))]
			case 2: // insert
				i := r.intn(len(v))
				v = append(v[:i], append(r.bytes(1+r.intn(6)), v[i:]...)...)
			default: // delete
				i := r.intn(len(v))
				n := 1 + r.intn(6)
				if i+n > len(v) {
					n = len(v) - i
				}
				v = append(v[:i], v[i+n:]...)
			}
			e.resetCache()
			e.first(f.tr, v, "random multi-byte edit")
			o.case_(fmt.Sprintf("edit/%d/%d", fi, k), true)
		}
		// a sample through the whole dispatcher
		nD := 120
		if c.thorough() {
			nD = 600
		}
		for k := 0; k < nD; k++ {
			v := append([]byte(nil), pk.pkt...)
			b := r.intn(nbits)
			if k%3 == 0 && f.tr == "tls" {
				b = r.intn(160 * 8)
			}
			if k%2 == 0 && f.tr == "ws" {
				// the request line and the upgrade headers: credentials untouched, the request possibly no longer one
				// that net/http and gorilla upgrade (accepted, then closed without a reply), or no longer a GET (web)
				b = r.intn(bytes.Index(pk.pkt, []byte("Hidden: ")) * 8)
			}
			v[b/8] ^= 1 << (b % 8)
			e.resetCache()
			e.conn(v, fmt.Sprintf("bit %d of a genuine %s packet (%s) flipped", b, f.tr, browserNames[f.br]))
			o.case_(fmt.Sprintf("dbit/%d/%d", fi, b), true)
		}
	}
	o.stat("connections", e.nConn)
	o.sample("clock edge: ts = T, server clock T+180 s exactly → web; T+180 s−1 ns → accepted")
	o.sample("credentials: zero/negative credit, expired, unknown uid, unknown method, enc ≥ 4 → web; admin uid with sid 7 → ordinary proxy session")
}
