//go:build verif

package main

// C15 — Connections join the right session; the per-user session cap is never exceeded.
// Waves of N = 2..32 simultaneous admissions (GetUser/GetBypassUser + GetSession, as dispatchConnection performs them)
// for one or several (uid, sid) pairs against a bbolt store; caps 0..4; credit / expiry / cap edits and closures between
// waves; in some waves closures of OTHER sessions (never a user's last one: that race is C17's) run concurrently.
// After each wave the observed answers are linearised (creations, joins, refusals) and replayed as sess.* ops: the Lean
// model must give the same answers. Runs in a child process so that a runtime fatal error (unsynchronised map) is reported
// with the wave that caused it.

import (
	"fmt"
	"os"
	"sort"
	"sync"
	"time"

	mux "github.com/cbeuw/Cloak/internal/multiplex"
	"github.com/cbeuw/Cloak/internal/server"
	log "github.com/sirupsen/logrus"
)

func init() {
	scenarios["C15"] = c15
	scenarios["C15sub"] = c15sub
	scenarios["C15hs"] = func(c *ctx) { // the handshake part alone (debugging aid; VERIF_LOG=1 shows the server's log)
		if os.Getenv("VERIF_LOG") != "" {
			log.SetOutput(os.Stderr)
			log.SetLevel(log.TraceLevel)
		}
		c15handshakes(c, 0)
	}
}

func c15(c *ctx) {
	o := c.o
	res := runChildE(c, 600*time.Second, "C15sub")
	if res.exit != 0 {
		if sig := crashSignature(res.stderr); sig != "" {
			o.V("C15 simultaneous admissions crashed the server process: "+sig, map[string]any{"stderr_tail": tailE(res.stderr, 1500),
				"note": "see the last `wave` note line for the admissions in flight"})
			return
		}
		o.N(fmt.Sprintf("child exit=%d timedOut=%v stderr=%s", res.exit, res.timedOut, tailE(res.stderr, 300)))
		o.close()
		os.Exit(3)
	}
}

type c15user struct {
	uid        int
	bypass     bool
	cap        int32
	up, down   int64
	expiry     int64
	maxCapSeen int32
}

type c15req struct {
	uid    int
	sid    uint32
	key    [32]byte
	u      *server.ActiveUser
	uerr   error
	sesh   *mux.Session
	exist  bool
	sk     [32]byte
	err    error
	closer bool // a concurrent CloseSession of an older session instead of an admission
}

func c15sub(c *ctx) {
	n := 40
	if c.thorough() {
		n = 2000
	}
	for i := 0; i < n; i++ {
		c15script(c, i)
		c.o.flush()
	}
	for i := 0; i < n/8; i++ {
		c15handshakes(c, i)
		c.o.flush()
	}
	// first connections of a not yet active user, let in together (c15together.go)
	for i := 0; i < 4+n/20; i++ {
		c15together(c, i, i%2 == 1)
	}
	c.o.flush()
	// the refused connection's clean-up as a step of its own (c15refused.go)
	c15refusedScripted(c)
	c.o.flush()
	for i := 0; i < n; i++ {
		c15refusedRandom(c, i)
		c.o.flush()
	}
}

func c15script(c *ctx, idx int) {
	o, r := c.o, c.r
	now := int64(1000)
	rig := newPanelRig(now)
	defer rig.close()
	o.T("sess.new", "ok")
	users := map[int]*c15user{}
	put := func(u *c15user) {
		rig.putUser(u.uid, u.cap, u.up, u.down, u.expiry)
		if u.cap > u.maxCapSeen {
			u.maxCapSeen = u.cap
		}
		o.T(fmt.Sprintf("sess.put uid=%d cap=%d upc=%d downc=%d exp=%d", u.uid, u.cap, u.up, u.down, u.expiry), "ok")
	}
	nU := 1 + r.intn(3)
	for i := 1; i <= nU; i++ {
		u := &c15user{uid: i, cap: int32(r.intn(5)), up: 1000 + int64(r.intn(1000)), down: 1000 + int64(r.intn(1000)), expiry: now + 1000}
		switch r.intn(8) {
		case 0:
			u.up = int64(-r.intn(2)) // 0 or -1
		case 1:
			u.down = 0
		case 2:
			u.expiry = now - 1 - int64(r.intn(3))
		case 3:
			u.expiry = now // boundary: not expired
		}
		if idx%7 == 3 && i == 1 {
			u.cap = -1 // stored int32 -1 is read back as int(uint32) = 4294967295
		}
		if idx%3 == 1 && i == 1 {
			u.cap = 20 // roomy: waves with concurrent closures need a user whose cap cannot interfere
		}
		users[i] = u
		put(u)
	}
	if r.intn(3) == 0 {
		users[9] = &c15user{uid: 9, bypass: true}
	}
	var uids []int
	for k := range users {
		uids = append(uids, k)
	}
	sort.Ints(uids)
	type pairKey struct {
		rec int
		sid uint32
	}
	open := map[pairKey]*mux.Session{} // sessions the harness knows to be in a record's table
	exhausted := func(u *c15user) bool {
		return !u.bypass && (u.up <= 0 || u.down <= 0 || u.expiry < now)
	}
	waves := 3 + r.intn(3)
	if c.thorough() {
		waves = 4 + r.intn(5)
	}
	for w := 0; w < waves; w++ {
		// ---- build the wave
		N := 2 + r.intn(31)
		mode := r.intn(3) // 0: one pair, 1: one user several sids, 2: several users several sids
		withClosers := r.intn(3) == 0
		var reqs []*c15req
		baseU := uids[r.intn(len(uids))]
		baseS := uint32(1 + r.intn(4))
		for i := 0; i < N; i++ {
			q := &c15req{uid: baseU, sid: baseS, key: c.freshKey()}
			switch mode {
			case 1:
				q.sid = uint32(1 + r.intn(6))
			case 2:
				q.uid = uids[r.intn(len(uids))]
				q.sid = uint32(1 + r.intn(6))
			}
			reqs = append(reqs, q)
		}
		// concurrent closures: only in waves where no cap refusal can depend on their timing (cap high or bypass), only of
		// sessions no admission of this wave targets, and never all sessions of a record
		var closers []*c15req
		if withClosers {
			target := map[pairKey]bool{}
			for _, q := range reqs {
				if cur := rig.panel.ActiveRecord(uidBytes(q.uid)); cur != nil {
					id, _ := rig.idOf(cur)
					target[pairKey{id, q.sid}] = true
				}
			}
			perRec := map[int][]pairKey{}
			for pk := range open {
				perRec[pk.rec] = append(perRec[pk.rec], pk)
			}
			var recIDs []int
			for id := range perRec {
				recIDs = append(recIDs, id)
			}
			sort.Ints(recIDs)
			for _, id := range recIDs {
				pks := perRec[id]
				sort.Slice(pks, func(i, j int) bool { return pks[i].sid < pks[j].sid })
				u := users[uidNum(server.VerifUID(rig.recs[id]))]
				capSafe := u.bypass || int(u.cap) >= 12 || u.cap < 0
				if !capSafe || len(pks) < 2 {
					continue
				}
				for _, pk := range pks[1:] { // keep the first: never the last one
					if !target[pk] && r.intn(2) == 0 {
						closers = append(closers, &c15req{uid: u.uid, sid: pk.sid, u: rig.recs[id], closer: true})
					}
				}
			}
		}
		o.N(fmt.Sprintf("script %d wave %d: %d admissions mode=%d closers=%d", idx, w, N, mode, len(closers)))
		o.flush()
		// ---- run it
		var wg sync.WaitGroup
		start := make(chan struct{})
		for _, q := range append(append([]*c15req{}, reqs...), closers...) {
			wg.Add(1)
			go func(q *c15req) {
				defer wg.Done()
				<-start
				if q.closer {
					server.VerifCloseSession(q.u, q.sid, "")
					return
				}
				q.u, q.uerr = rig.panel.GetUser(uidBytes(q.uid), users[q.uid].bypass)
				if q.uerr != nil {
					return
				}
				q.sesh, q.exist, q.sk, q.err = server.VerifGetSession(q.u, q.sid, q.key)
			}(q)
		}
		close(start)
		wg.Wait()
		// ---- linearise: user lookups (creator first), then creations, joins, refusals, then the closures
		seenFresh := map[*server.ActiveUser]bool{}
		var lookups []*c15req
		for _, q := range reqs {
			if q.uerr == nil {
				if _, known := rig.recID[q.u]; !known && !seenFresh[q.u] {
					seenFresh[q.u] = true
					lookups = append([]*c15req{q}, lookups...)
					continue
				}
			}
			lookups = append(lookups, q)
		}
		// fresh ones must come in a fixed order: sort the fresh prefix by uid
		nf := len(seenFresh)
		sort.SliceStable(lookups[:nf], func(i, j int) bool { return lookups[i].uid < lookups[j].uid })
		for _, q := range lookups {
			b := 0
			if users[q.uid].bypass {
				b = 1
			}
			op := fmt.Sprintf("sess.getUser uid=%d bypass=%d now=%d", q.uid, b, now)
			if q.uerr != nil {
				o.T(op, "err="+errName(q.uerr))
				continue
			}
			id, fresh := rig.idOf(q.u)
			f := 0
			if fresh {
				f = 1
			}
			o.T(op, fmt.Sprintf("rec=%d fresh=%d", id, f))
		}
		class := func(q *c15req) int {
			switch {
			case q.err == nil && !q.exist:
				return 0
			case q.err == nil:
				return 1
			}
			return 2
		}
		var sops []*c15req
		for _, q := range reqs {
			if q.uerr == nil {
				sops = append(sops, q)
			}
		}
		sort.SliceStable(sops, func(i, j int) bool {
			a, b := sops[i], sops[j]
			if class(a) != class(b) {
				return class(a) < class(b)
			}
			ia, _ := rig.idOf(a.u)
			ib, _ := rig.idOf(b.u)
			if ia != ib {
				return ia < ib
			}
			return a.sid < b.sid
		})
		for _, q := range sops {
			id, _ := rig.idOf(q.u)
			o.T(fmt.Sprintf("sess.getSession rec=%d sid=%d key=%d now=%d", id, q.sid, keyNum(q.key), now), sessOut(q.exist, q.sk, q.err))
		}
		for _, q := range closers {
			id, _ := rig.idOf(q.u)
			delete(open, pairKey{id, q.sid})
			// remaining is not observable mid-wave; the model's answer is compared through sess.state below
			o.T(fmt.Sprintf("sess.closeQuiet rec=%d sid=%d", id, q.sid), "ok")
		}
		o.T("sess.state", rig.stateLine())
		// ---- the property, on the implementation
		byPair := map[pairKey][]*c15req{}
		for _, q := range sops {
			if q.err == nil {
				id, _ := rig.idOf(q.u)
				byPair[pairKey{id, q.sid}] = append(byPair[pairKey{id, q.sid}], q)
			}
		}
		seenSesh := map[*mux.Session]pairKey{}
		for pk, qs := range byPair {
			first := qs[0]
			for _, q := range qs {
				if q.sesh != first.sesh || q.sk != first.sk {
					o.V("C15 same (uid, session id) attached to different sessions or given different keys", map[string]any{
						"script": idx, "wave": w, "rec": pk.rec, "sid": pk.sid, "admissions": len(qs), "keys": []uint64{keyNum(first.sk), keyNum(q.sk)},
						"same_object": q.sesh == first.sesh})
					break
				}
			}
			if prev, ok := open[pk]; ok && prev != first.sesh && !prev.IsClosed() {
				o.V("C15 same (uid, session id) attached to different sessions or given different keys", map[string]any{
					"script": idx, "wave": w, "rec": pk.rec, "sid": pk.sid, "note": "a still open session of an earlier wave was not joined"})
			}
			if other, dup := seenSesh[first.sesh]; dup && other != pk {
				o.V("C15 different (uid, session id) pairs share a session", map[string]any{"script": idx, "wave": w, "a": fmt.Sprint(other), "b": fmt.Sprint(pk)})
			}
			seenSesh[first.sesh] = pk
			open[pk] = first.sesh
		}
		for id, rec := range rig.recs {
			u := users[uidNum(server.VerifUID(rec))]
			if u.bypass || server.VerifBypass(rec) {
				continue
			}
			capEff := int64(u.maxCapSeen)
			if u.maxCapSeen < 0 || u.cap < 0 {
				capEff = int64(uint32(u.cap))
			}
			if n := server.VerifNumSession(rec); int64(n) > capEff {
				o.V("C15 session cap exceeded", map[string]any{"script": idx, "wave": w, "uid": u.uid, "rec": id, "cap": capEff, "sessions": n, "admissions": N})
			}
		}
		for _, q := range reqs {
			u := users[q.uid]
			if exhausted(u) && ((q.uerr == nil && q.err == nil && !q.exist) || (q.uerr == nil && seenFresh[q.u])) {
				o.V("C15 exhausted or expired user started a session", map[string]any{"script": idx, "wave": w, "uid": u.uid, "up": u.up, "down": u.down,
					"expiry": u.expiry, "now": now, "became_active": seenFresh[q.u], "created": q.err == nil && !q.exist})
				break
			}
		}
		nCreated, nJoined, nRefused := 0, 0, 0
		for _, q := range sops {
			switch class(q) {
			case 0:
				nCreated++
			case 1:
				nJoined++
			default:
				nRefused++
			}
		}
		o.stat("admissions", N)
		o.stat("created", nCreated)
		o.stat("joined", nJoined)
		o.stat("refused", nRefused+len(reqs)-len(sops))
		o.stat("concurrent_closures", len(closers))
		caseC(o, fmt.Sprintf("s%d-w%d-N%d-m%d-c%d-j%d-r%d", idx, w, N, mode, nCreated, nJoined, nRefused), N >= 2 && (nJoined > 0 || nRefused > 0 || nCreated > 1))
		if w == 0 {
			o.sample(fmt.Sprintf("script %d wave 0: %d simultaneous admissions → %d created, %d joined, %d refused; %s", idx, N, nCreated, nJoined, nRefused+len(reqs)-len(sops), rig.stateLine()))
		}
		// ---- between waves (sequential): closures, admin edits, the clock
		for k := r.intn(4); k > 0; k-- {
			switch r.intn(6) {
			case 0, 1: // close one session; if it is the user's last one this (sequentially, no admission in flight) terminates the user
				var pks []pairKey
				for pk := range open {
					pks = append(pks, pk)
				}
				if len(pks) == 0 {
					continue
				}
				sort.Slice(pks, func(i, j int) bool {
					return pks[i].rec < pks[j].rec || (pks[i].rec == pks[j].rec && pks[i].sid < pks[j].sid)
				})
				pk := pks[r.intn(len(pks))]
				rec := rig.recs[pk.rec]
				before := server.VerifNumSession(rec)
				server.VerifCloseSession(rec, pk.sid, "")
				delete(open, pk)
				o.T(fmt.Sprintf("sess.closeLocked rec=%d sid=%d", pk.rec, pk.sid), fmt.Sprintf("remaining=%d", before-1))
				if before-1 == 0 {
					o.T(fmt.Sprintf("sess.terminate rec=%d", pk.rec), rig.stateLine())
				}
			case 2: // credit edit
				u := users[uids[r.intn(len(uids))]]
				if u.bypass {
					continue
				}
				switch r.intn(4) {
				case 0:
					u.up = int64(-r.intn(3))
				case 1:
					u.down = int64(-r.intn(3))
				default:
					u.up, u.down = 500+int64(r.intn(500)), 500+int64(r.intn(500))
				}
				put(u)
			case 3: // expiry edit
				u := users[uids[r.intn(len(uids))]]
				if u.bypass {
					continue
				}
				u.expiry = now - 2 + int64(r.intn(5))
				put(u)
			case 4: // raise the cap (never lowered below what is open)
				u := users[uids[r.intn(len(uids))]]
				if u.bypass || u.cap < 0 {
					continue
				}
				u.cap += int32(1 + r.intn(12))
				put(u)
			case 5:
				now += int64(r.intn(3))
				*rig.now = now
			}
		}
	}
	// leave no session behind
	for _, rec := range rig.recs {
		for _, s := range server.VerifSessions(rec) {
			s.Close()
		}
	}
}
