//go:build verif

package main

import (
	"bytes"
	"errors"
	"fmt"
	"os"
	"strings"
	"sync/atomic"
	"testing/synctest"
	"time"

	"github.com/cbeuw/Cloak/internal/common"
	mux "github.com/cbeuw/Cloak/internal/multiplex"
	log "github.com/sirupsen/logrus"
)

func init() { scenarios["C12"] = c12 }

type parked struct {
	done chan string // result: "data <hex>" | "eof" | "ok" | "refused"
	data *[]byte
}

// pairScript drives a pair of real sessions through one seeded script inside a synctest bubble.
type pairScript struct {
	c        *ctx
	rg       *seshPair
	sp       bool
	inact    time.Duration
	written  [2]map[uint32][]byte // bytes accepted by Write on stream id, per writing side
	readb    [2]map[uint32][]byte // bytes returned by Read on stream id, per reading side
	preader  [2]map[uint32]chan string
	paccept  [2]chan *mux.Stream
	hadStrm  [2]bool
	faulted  bool
	tag      string
	sawError [2]map[uint32]bool
	wfail    [2]bool

	sentClose, sentNotice [2]int64 // stream-closing frames / session-closing notices each side has put on the wire
}

func sname(i int) string { return string(rune('A' + i)) }

// state: the session's bookkeeping plus what this side has put on the wire so far: stream-closing frames / session-closing
// notices (decoded from every record its connections accepted for sending)
func (ps *pairScript) state(i int) string {
	return fmt.Sprintf("%s sent=%d/%d", mux.VerifSessionState(ps.rg.S[i].sesh), atomic.LoadInt64(&ps.sentClose[i]), atomic.LoadInt64(&ps.sentNotice[i]))
}

func (ps *pairScript) tapAll() {
	for i := 0; i < 2; i++ {
		i := i
		for _, cn := range ps.rg.S[i].conns {
			if cn.tap != nil {
				continue
			}
			cn.tap = func(rec []byte) {
				_, _, closing, _, err := mux.VerifDecode(ps.rg.method, ps.rg.key, rec)
				if err != nil {
					return
				}
				switch closing {
				case 1:
					atomic.AddInt64(&ps.sentClose[i], 1)
				case 2:
					atomic.AddInt64(&ps.sentNotice[i], 1)
				}
			}
		}
	}
}

func (ps *pairScript) viol(sig string, detail map[string]any) {
	detail["tag"] = ps.tag
	ps.c.o.V(sig, detail)
}

// monitors evaluated at every quiescent point — the clauses of C12, literally
func (ps *pairScript) monitors(after string) {
	// at a quiescent moment (every goroutine of the bubble durably blocked) nobody may be holding the stream-table
	// lock: whoever holds it is parked inside the critical section, and every other stream, Accept, OpenStream and the
	// teardown of the session wait behind it
	for i := 0; i < 2; i++ {
		if !mux.VerifStreamsMFree(ps.rg.S[i].sesh) {
			ps.viol("C12 goroutine-parked-while-holding-the-stream-table-lock", map[string]any{"side": sname(i), "after": after,
				"accept_queue_len": ps.acceptQueueLen(i)})
			ps.c.o.close()
			os.Exit(3) // nothing more can be observed on this session without blocking the harness itself
		}
	}
	for i := 0; i < 2; i++ {
		sesh := ps.rg.S[i].sesh
		open := mux.VerifOpenStreams(sesh)
		if !sesh.IsClosed() {
			if int(mux.VerifStreamCount(sesh)) != open {
				ps.viol("C12 count-differs-from-open-streams", map[string]any{"side": sname(i), "after": after, "count": mux.VerifStreamCount(sesh), "open": open, "state": ps.state(i)})
			}
			if ps.sp && ps.hadStrm[i] && open == 0 {
				ps.viol("C12 singleplex-session-outlives-its-stream", map[string]any{"side": sname(i), "after": after, "state": ps.state(i)})
			}
		} else {
			if open != 0 {
				ps.viol("C12 open-stream-in-closed-session", map[string]any{"side": sname(i), "after": after, "state": ps.state(i)})
			}
			for id, ch := range ps.preader[i] {
				if ch != nil && len(ch) == 0 {
					ps.viol("C12 read-still-blocked-after-session-close", map[string]any{"side": sname(i), "after": after, "stream": id})
				}
			}
			if ps.paccept[i] != nil && len(ps.paccept[i]) == 0 {
				ps.viol("C12 accept-still-blocked-after-session-close", map[string]any{"side": sname(i), "after": after})
			}
		}
	}
}

// collect parked readers/accepts that have returned; emits trace-validation rows
func (ps *pairScript) collect() {
	for i := 0; i < 2; i++ {
		for id, ch := range ps.preader[i] {
			if ch == nil {
				continue
			}
			select {
			case r := <-ch:
				ps.preader[i][id] = nil
				if strings.HasPrefix(r, "data ") {
					ps.readb[i][id] = append(ps.readb[i][id], unhx(r[5:])...)
					ps.c.o.T(fmt.Sprintf("ss.wake side=%s id=%d data=%s", sname(i), id, r[5:]), "ok")
				} else {
					ps.sawError[i][id] = true
					ps.c.o.T(fmt.Sprintf("ss.wake side=%s id=%d data=eof", sname(i), id), "ok")
				}
			default:
			}
		}
		if ps.paccept[i] != nil {
			select {
			case st := <-ps.paccept[i]:
				ps.paccept[i] = nil
				if st != nil {
					ps.rg.S[i].streams[mux.VerifStreamID(st)] = st
				}
			default:
			}
		}
	}
}

func (ps *pairScript) settle(after string) {
	synctest.Wait()
	ps.collect()
	ps.monitors(after)
}

func (ps *pairScript) acceptQueueLen(i int) int { return mux.VerifAcceptQueueLen(ps.rg.S[i].sesh) }

func (ps *pairScript) open(i int) {
	sd := ps.rg.S[i]
	st, err := sd.sesh.OpenStream()
	res := ""
	switch {
	case err == nil:
		id := mux.VerifStreamID(st)
		sd.streams[id] = st
		ps.hadStrm[i] = true
		res = fmt.Sprintf("ok id=%d", id)
	case errors.Is(err, mux.ErrBrokenSession):
		res = "refused"
	default:
		res = "nomux"
	}
	synctest.Wait()
	ps.c.o.T("ss.open side="+sname(i), res+" | "+ps.state(i))
	ps.collect()
	ps.monitors("open")
}

func (ps *pairScript) write(i int, id uint32, data []byte) {
	st := ps.rg.S[i].streams[id]
	live := !ps.rg.S[i].sesh.IsClosed() && !mux.VerifStreamClosed(st)
	n, _ := st.Write(data)
	ps.written[i][id] = append(ps.written[i][id], data[:n]...)
	if ps.wfail[i] && live {
		// every connection of this side refuses writes: the send fails and tears the session down
		synctest.Wait()
		ps.c.o.T("ss.sendfail side="+sname(i), ps.state(i))
		ps.collect()
		ps.monitors("write")
		return
	}
	ps.settle("write")
}

// wfault: the writer of side i sees the reset first — every Write on its connections fails from now on
func (ps *pairScript) wfault(i int) {
	if ps.wfail[i] {
		return
	}
	ps.wfail[i] = true
	for _, c := range ps.rg.S[i].conns {
		c.mu.Lock()
		c.wfail = true
		c.mu.Unlock()
	}
	ps.c.o.T("ss.wfault side="+sname(i), "ok")
}

func (ps *pairScript) deliver(from, k int) bool {
	c := ps.rg.S[from].conns[k]
	if c.pending() == 0 {
		return false
	}
	to := 1 - from
	peerDead := false
	select {
	case <-c.peer.dead:
		peerDead = true
	default:
	}
	rec, _ := ps.rg.deliver(from, k)
	if peerDead {
		return true
	}
	sid, seq, cl, pl, err := mux.VerifDecode(ps.rg.method, ps.rg.key, rec)
	synctest.Wait()
	if !mux.VerifStreamsMFree(ps.rg.S[to].sesh) {
		ps.monitors("deliver") // reports and stops
	}
	if err != nil {
		ps.viol("C12 undecodable-record-on-the-wire", map[string]any{"err": err.Error()})
		return true
	}
	if cl != 2 && !ps.rg.S[to].sesh.IsClosed() {
		ps.hadStrm[to] = true
	}
	ps.c.o.T(fmt.Sprintf("ss.recv side=%s sid=%d seq=%d closing=%d pl=%s", sname(to), sid, seq, cl, hx(pl)), ps.state(to))
	ps.collect()
	ps.monitors("deliver")
	return true
}

func (ps *pairScript) accept(i int, park bool) {
	sd := ps.rg.S[i]
	st := ps.state(i)
	q := 0
	fmt.Sscanf(st[strings.Index(st, "accq=")+5:], "%d", &q)
	if ps.paccept[i] != nil {
		return
	}
	switch {
	case sd.sesh.IsClosed():
		// the queue is closed: Accept hands out what was queued when the session closed, then refuses
		conn, err := sd.sesh.Accept()
		res := "refused"
		if err == nil {
			s := conn.(*mux.Stream)
			id := mux.VerifStreamID(s)
			sd.streams[id] = s
			res = fmt.Sprintf("ok id=%d", id)
		}
		ps.c.o.T("ss.accept side="+sname(i), res)
	case q > 0:
		conn, err := sd.sesh.Accept()
		if err != nil {
			ps.c.o.T("ss.accept side="+sname(i), "refused")
			return
		}
		s := conn.(*mux.Stream)
		id := mux.VerifStreamID(s)
		sd.streams[id] = s
		ps.c.o.T("ss.accept side="+sname(i), fmt.Sprintf("ok id=%d", id))
	default:
		if park {
			// the model is told that an Accept is parked: the next new stream goes straight to it
			ps.c.o.T("ss.accept side="+sname(i)+" park=1", "block")
			ch := make(chan *mux.Stream, 1)
			ps.paccept[i] = ch
			go func() {
				conn, err := sd.sesh.Accept()
				if err != nil {
					ch <- nil
					return
				}
				ch <- conn.(*mux.Stream)
			}()
		} else {
			ps.c.o.T("ss.accept side="+sname(i), "block")
		}
	}
	ps.settle("accept")
}

func (ps *pairScript) read(i int, id uint32, n int, park bool) {
	st := ps.rg.S[i].streams[id]
	if st == nil || ps.preader[i][id] != nil {
		return
	}
	if mux.VerifStreamReadable(st) {
		b := make([]byte, n)
		k, err := st.Read(b)
		if err != nil {
			ps.sawError[i][id] = true
			ps.c.o.T(fmt.Sprintf("ss.read side=%s id=%d n=%d", sname(i), id, n), "eof")
		} else {
			ps.readb[i][id] = append(ps.readb[i][id], b[:k]...)
			if ps.sawError[i][id] {
				ps.viol("C12 data-after-error", map[string]any{"side": sname(i), "stream": id})
			}
			ps.c.o.T(fmt.Sprintf("ss.read side=%s id=%d n=%d", sname(i), id, n), "data "+hx(b[:k]))
		}
	} else {
		ps.c.o.T(fmt.Sprintf("ss.read side=%s id=%d n=%d", sname(i), id, n), "block")
		if park {
			ch := make(chan string, 1)
			ps.preader[i][id] = ch
			go func() {
				b := make([]byte, n)
				k, err := st.Read(b)
				if err != nil {
					ch <- "eof"
				} else {
					ch <- "data " + hx(b[:k])
				}
			}()
		}
	}
	ps.settle("read")
}

func (ps *pairScript) closeStream(i int, id uint32) {
	st := ps.rg.S[i].streams[id]
	if st == nil {
		return
	}
	wasOpen := !mux.VerifStreamClosed(st)
	err := st.Close()
	res := "ok"
	if err != nil {
		res = "repeat"
		if wasOpen {
			res = "err"
		}
	}
	synctest.Wait()
	ps.c.o.T(fmt.Sprintf("ss.closeStream side=%s id=%d", sname(i), id), res+" | "+ps.state(i))
	ps.collect()
	ps.monitors("closeStream")
}

func (ps *pairScript) closeSession(i int) {
	wasOpen := !ps.rg.S[i].sesh.IsClosed()
	err := ps.rg.S[i].sesh.Close()
	res := "ok"
	if err != nil {
		res = "repeat"
		if wasOpen {
			res = "err"
		}
	}
	synctest.Wait()
	ps.c.o.T("ss.close side="+sname(i), res+" | "+ps.state(i))
	ps.collect()
	ps.monitors("close")
}

func (ps *pairScript) fault(k int) {
	ps.rg.fault(k)
	ps.faulted = true
	synctest.Wait()
	for i := 0; i < 2; i++ {
		ps.c.o.T("ss.fault side="+sname(i), ps.state(i))
	}
	ps.collect()
	ps.monitors("fault")
}

func (ps *pairScript) propagate() {
	var hit [2]bool
	for s := 0; s < 2; s++ {
		for _, c := range ps.rg.S[s].conns {
			if c.isClosed() {
				select {
				case <-c.peer.dead:
				default:
					c.peer.kill()
					hit[1-s] = true
				}
			}
		}
	}
	synctest.Wait()
	for i := 0; i < 2; i++ {
		if hit[i] {
			ps.c.o.T("ss.fault side="+sname(i), ps.state(i))
		}
	}
	ps.collect()
	ps.monitors("propagate")
}

func (ps *pairScript) tick(d time.Duration) {
	var openBefore [2]int
	var closedBefore [2]bool
	for i := 0; i < 2; i++ {
		openBefore[i] = mux.VerifOpenStreams(ps.rg.S[i].sesh)
		closedBefore[i] = ps.rg.S[i].sesh.IsClosed()
	}
	time.Sleep(d)
	synctest.Wait()
	ps.c.o.T(fmt.Sprintf("ss.tick d=%d", int64(d)), ps.state(0)+" || "+ps.state(1))
	for i := 0; i < 2; i++ {
		sesh := ps.rg.S[i].sesh
		if !closedBefore[i] && sesh.IsClosed() && sesh.TerminalMsg() == "timeout" && openBefore[i] > 0 {
			ps.viol("C12 inactivity-timer-closed-a-session-with-open-streams", map[string]any{"side": sname(i), "open_before": openBefore[i]})
		}
	}
	ps.collect()
	ps.monitors("tick")
}

// finish: close everything, let faults propagate, then check the end-state clauses
func (ps *pairScript) finish() {
	// a reset that so far only the writer of one side has seen is completed: both ends see it (property text)
	if ps.wfail[0] || ps.wfail[1] {
		for k := range ps.rg.S[0].conns {
			ps.rg.fault(k)
		}
		ps.faulted = true
		synctest.Wait()
		for i := 0; i < 2; i++ {
			ps.c.o.T("ss.fault side="+sname(i), ps.state(i))
		}
		ps.collect()
		ps.monitors("fault-completed")
	}
	if !ps.rg.S[0].sesh.IsClosed() && !ps.rg.S[1].sesh.IsClosed() {
		ps.closeSession(ps.c.r.intn(2))
	}
	for round := 0; round < 3; round++ {
		ps.propagate()
	}
	for i := 0; i < 2; i++ {
		sesh := ps.rg.S[i].sesh
		if !sesh.IsClosed() {
			ps.viol("C12 session-not-closed-after-peer-closed-all-connections", map[string]any{"side": sname(i), "state": ps.state(i)})
			sesh.Close()
		}
		for k, cn := range ps.rg.S[i].conns {
			if !cn.isClosed() {
				ps.viol("C12 connection-left-open-after-teardown", map[string]any{"side": sname(i), "conn": k})
				cn.Close()
			}
		}
		if _, err := sesh.OpenStream(); err == nil {
			ps.viol("C12 open-stream-accepted-on-closed-session", map[string]any{"side": sname(i)})
		}
		// every stream: remaining reads give buffered data then the error, never block
		for id, st := range ps.rg.S[i].streams {
			if ps.preader[i][id] != nil {
				continue
			}
			for guard := 0; guard < 1000; guard++ {
				if !mux.VerifStreamReadable(st) {
					ps.viol("C12 read-would-block-after-teardown", map[string]any{"side": sname(i), "stream": id})
					st.Close()
					break
				}
				b := make([]byte, 4096)
				k, err := st.Read(b)
				if err != nil {
					break
				}
				ps.readb[i][id] = append(ps.readb[i][id], b[:k]...)
			}
		}
	}
	synctest.Wait()
	ps.collect()
	ps.monitors("finish")
	// prefix clause
	for i := 0; i < 2; i++ {
		for id, got := range ps.readb[i] {
			w := ps.written[1-i][id]
			if !bytes.HasPrefix(w, got) {
				ps.viol("C12 reader-got-non-prefix", map[string]any{"side": sname(i), "stream": id, "got": hx(got), "written": hx(w)})
			}
		}
	}
}

func newPairScript(c *ctx, method byte, nconn int, sp bool, inact time.Duration, tag string) *pairScript {
	var key [32]byte
	copy(key[:], c.r.bytes(32))
	ps := &pairScript{c: c, sp: sp, inact: inact, tag: tag}
	ps.rg = newSeshPair(method, key, nconn, sp, false, inact)
	ps.tapAll()
	for i := 0; i < 2; i++ {
		ps.written[i] = map[uint32][]byte{}
		ps.readb[i] = map[uint32][]byte{}
		ps.preader[i] = map[uint32]chan string{}
		ps.sawError[i] = map[uint32]bool{}
	}
	synctest.Wait()
	b2i := 0
	if sp {
		b2i = 1
	}
	c.o.T(fmt.Sprintf("ss.new singleplex=%d conns=%d inact=%d", b2i, nconn, int64(inact)), "ok")
	return ps
}

func (ps *pairScript) anyStream(i int) (uint32, bool) {
	ids := make([]uint32, 0)
	for id := range ps.rg.S[i].streams {
		ids = append(ids, id)
	}
	if len(ids) == 0 {
		return 0, false
	}
	// deterministic choice
	min := ids[0]
	for _, v := range ids {
		if v < min {
			min = v
		}
	}
	pick := ps.c.r.intn(len(ids))
	cnt := 0
	for v := min; ; v++ {
		for _, x := range ids {
			if x == v {
				if cnt == pick {
					return v, true
				}
				cnt++
			}
		}
		if cnt >= len(ids) {
			break
		}
	}
	return min, true
}

func (ps *pairScript) randomOp(faultsAllowed bool) string {
	r := ps.c.r
	nconn := len(ps.rg.S[0].conns)
	for attempt := 0; attempt < 8; attempt++ {
		i := r.intn(2)
		switch x := r.intn(100); {
		case x < 10:
			// as in Cloak itself only the client side (A) opens streams; the server side accepts them
			// (both sides number their streams from 1, so opening on both would collide — outside the protocol)
			ps.open(0)
			return "open"
		case x < 32:
			if id, ok := ps.anyStream(i); ok {
				sizes := []int{1, 2, 17, 300, 3000}
				ps.write(i, id, r.bytes(sizes[r.intn(len(sizes))]))
				return "write"
			}
		case x < 60:
			from, k := r.intn(2), r.intn(nconn)
			for t := 0; t < 2*nconn; t++ {
				if ps.deliver(from, k) {
					return "deliver"
				}
				k = (k + 1) % nconn
				if k == 0 {
					from = 1 - from
				}
			}
		case x < 68:
			ps.accept(i, r.intn(3) == 0)
			return "accept"
		case x < 82:
			if id, ok := ps.anyStream(i); ok {
				ps.read(i, id, 1+r.intn(400), r.intn(3) == 0)
				return "read"
			}
		case x < 89:
			if id, ok := ps.anyStream(i); ok {
				ps.closeStream(i, id)
				return "closeStream"
			}
		case x < 93:
			ps.tick(time.Duration(1+r.intn(40)) * time.Second)
			return "tick"
		case x < 95:
			if faultsAllowed {
				ps.closeSession(i)
				return "close"
			}
		case x < 96:
			if faultsAllowed {
				ps.fault(r.intn(nconn))
				return "fault"
			}
		case x < 97:
			if faultsAllowed && !ps.wfail[i] {
				ps.wfault(i)
				return "wfault"
			}
		default:
			ps.propagate()
			return "propagate"
		}
	}
	return "none"
}

// the OpenStream-vs-Close race of DESIGN section 8 row 5, replayed with the VerifPoint in OpenStream
func (ps *pairScript) openRace() {
	var armed, parkedFlag int32
	release := make(chan struct{})
	atomic.StoreInt32(&armed, 1)
	common.SetVerifHook(func(label string) {
		if label == "Session.OpenStream:afterClosedCheck" && atomic.CompareAndSwapInt32(&armed, 1, 0) {
			atomic.StoreInt32(&parkedFlag, 1)
			<-release
		}
	})
	defer common.SetVerifHook(nil)
	sd := ps.rg.S[0]
	done := make(chan struct{})
	var st *mux.Stream
	go func() {
		s, err := sd.sesh.OpenStream()
		if err == nil {
			st = s
		}
		close(done)
	}()
	synctest.Wait()
	if atomic.LoadInt32(&parkedFlag) != 1 {
		close(release)
		<-done
		return
	}
	sd.sesh.Close() // runs to completion while OpenStream sits between its closed-test and its insert
	synctest.Wait()
	close(release)
	<-done
	synctest.Wait()
	if st != nil {
		sd.streams[mux.VerifStreamID(st)] = st
	}
	ps.c.o.N("openRace: OpenStream parked after its closed-test; Close() completed; OpenStream resumed: " + ps.state(0))
	ps.monitors("openRace")
	if st != nil {
		// a reader on that stream would park forever: show it, then release it
		if !mux.VerifStreamReadable(st) {
			ps.viol("C12 read-would-block-after-teardown", map[string]any{"side": "A", "stream": mux.VerifStreamID(st), "how": "stream opened concurrently with Session.Close"})
		}
		st.Close()
	}
}

// more peer-opened streams than the accept backlog holds, nobody accepting: the receive loop must not park inside the
// stream-table lock; streams beyond the backlog are refused, everything else keeps working, and the session tears down
func c12backlog(c *ctx) {
	synctest.Run(func() {
		ps := newPairScript(c, 0, 2, false, time.Hour, "accept backlog overflow")
		n := 1024 + 8
		for k := 0; k < n; k++ {
			st, err := ps.rg.S[0].sesh.OpenStream()
			if err != nil {
				return
			}
			id := mux.VerifStreamID(st)
			ps.rg.S[0].streams[id] = st
			ps.hadStrm[0] = true
			ps.c.o.T("ss.open side=A", fmt.Sprintf("ok id=%d | %s", id, ps.state(0)))
			ps.write(0, id, []byte{byte(k)})
		}
		for ps.deliverSome(1<<30) > 0 {
		}
		// B accepts a few, data still flows on an accepted stream, then everything is torn down
		for k := 0; k < 5; k++ {
			ps.accept(1, false)
		}
		// a refused stream is not a fault: every connection is still open and in use, both sessions are alive
		ps.rg.propagate()
		synctest.Wait()
		for side := 0; side < 2; side++ {
			if ps.rg.S[side].sesh.IsClosed() {
				ps.viol("C12 healthy-session-closed after a refused stream", map[string]any{"side": sname(side), "terminal": ps.rg.S[side].sesh.TerminalMsg()})
			}
			for k, cn := range ps.rg.S[side].conns {
				if cn.isClosed() {
					ps.viol("C12 connection-closed after a refused stream", map[string]any{"side": sname(side), "conn": k,
						"what": "the receive loop gave up its connection because recvDataFromRemote refused a frame (accept backlog full); the session goes on with a connection missing and the peer sees a fault that did not happen"})
				}
			}
		}
		ps.write(0, 1, []byte("after the overflow"))
		ps.deliverSome(1 << 30)
		ps.read(1, 1, 100, false)
		ps.read(1, 1, 100, false)
		ps.closeSession(1)
		ps.finish()
	})
	c.o.case_("accept backlog overflow", true)
}

type c12ParkHook struct {
	armed   int32
	substr  string // park at the log line containing this (default: the inactivity check's "terminal message set to timeout")
	parked  chan struct{}
	release chan struct{}
}

func (h *c12ParkHook) Levels() []log.Level { return []log.Level{log.DebugLevel} }
func (h *c12ParkHook) Fire(e *log.Entry) error {
	hit := e.Message == "terminal message set to timeout"
	if h.substr != "" {
		hit = strings.Contains(e.Message, h.substr)
	}
	if hit && atomic.CompareAndSwapInt32(&h.armed, 1, 0) {
		close(h.parked)
		<-h.release
	}
	return nil
}

// the inactivity check tests the stream count and only then closes: a stream opened in between (here: while the timer
// goroutine is parked in the log call between the two) is closed with the session
func c12timerRace(c *ctx, k int) {
	h := &c12ParkHook{}
	oldLevel := log.GetLevel()
	oldHooks := log.StandardLogger().ReplaceHooks(log.LevelHooks{})
	log.SetLevel(log.DebugLevel)
	log.AddHook(h)
	defer func() {
		log.SetLevel(oldLevel)
		log.StandardLogger().ReplaceHooks(oldHooks)
	}()
	synctest.Run(func() {
		// the channels must belong to the bubble, otherwise parking on them is not "durably blocked" for synctest
		h.parked, h.release = make(chan struct{}), make(chan struct{})
		atomic.StoreInt32(&h.armed, 1)
		ps := newPairScript(c, byte(k%4), 1+k%2, false, 10*time.Second, "inactivity check vs OpenStream")
		time.Sleep(10 * time.Second) // both sides' first inactivity check fires; A's timer goroutine parks after its test
		synctest.Wait()
		select {
		case <-h.parked:
		default:
			close(h.release)
			ps.finish()
			return
		}
		// which side is parked? the one that is not closed yet although its check has passed
		side := 0
		if ps.rg.S[0].sesh.IsClosed() {
			side = 1
		}
		var st *mux.Stream
		var err error
		if side == 0 {
			st, err = ps.rg.S[0].sesh.OpenStream()
		}
		opened := side == 0 && err == nil
		if opened {
			ps.rg.S[0].streams[mux.VerifStreamID(st)] = st
			st.Write([]byte("data on a stream opened after the inactivity check looked"))
		}
		openBefore := mux.VerifOpenStreams(ps.rg.S[side].sesh)
		close(h.release)
		synctest.Wait()
		sesh := ps.rg.S[side].sesh
		c.o.N(fmt.Sprintf("timer race: side %s parked after its test; stream opened=%v; afterwards closed=%v terminal=%q", sname(side), opened, sesh.IsClosed(), sesh.TerminalMsg()))
		if opened && openBefore > 0 && sesh.IsClosed() && sesh.TerminalMsg() == "timeout" {
			ps.viol("C12 inactivity-timer-race stream-opened-between-test-and-close", map[string]any{"side": sname(side), "open_streams_when_the_close_took_effect": openBefore,
				"how": "OpenStream succeeded (and data was written) after checkTimeout had read streamCount()==0 and before its Close()"})
		}
		ps.finish()
	})
	c.o.case_(fmt.Sprint("timer race ", k), true)
}

// "closes itself on its inactivity timer only while it has no open stream ... for all timer phases": the closer of the
// LAST stream has counted the session down to zero and stands right before arming the inactivity check (parked in the
// log line between the two) when another stream is opened; the new stream then stays open and idle for several
// inactivity periods. Whenever and however the check is armed, it must find the open stream.
func c12timerArmRace(c *ctx, k int) {
	h := &c12ParkHook{substr: "has no active stream left"}
	oldLevel := log.GetLevel()
	oldHooks := log.StandardLogger().ReplaceHooks(log.LevelHooks{})
	log.SetLevel(log.DebugLevel)
	log.AddHook(h)
	defer func() {
		log.SetLevel(oldLevel)
		log.StandardLogger().ReplaceHooks(oldHooks)
	}()
	tag := fmt.Sprint("last stream closed while another is opened, then idle ", k)
	synctest.Run(func() {
		h.parked, h.release = make(chan struct{}), make(chan struct{})
		var key [32]byte
		copy(key[:], c.r.bytes(32))
		rg := newSeshPair(byte(k%4), key, 1+k%2, false, false, 10*time.Second)
		A := rg.S[0].sesh
		st, err := A.OpenStream()
		if err != nil {
			panic(err)
		}
		st.Write([]byte("first"))
		synctest.Wait()
		atomic.StoreInt32(&h.armed, 1)
		closed := make(chan struct{})
		go func() { st.Close(); close(closed) }()
		synctest.Wait()
		select {
		case <-h.parked:
		default:
			c.o.N("C12 timer arm race: closing the last stream did not pass the log line before arming the check — case skipped")
			atomic.StoreInt32(&h.armed, 0)
			<-closed
			A.Close()
			rg.S[1].sesh.Close()
			return
		}
		st2, err := A.OpenStream()
		if err == nil {
			st2.Write([]byte("second stream, opened while the closer of the first stands before arming the inactivity check"))
		}
		close(h.release)
		<-closed
		synctest.Wait()
		time.Sleep(35 * time.Second) // three and a half inactivity periods, the second stream open and idle
		synctest.Wait()
		if err == nil && A.IsClosed() && mux.VerifOpenStreams(A) > 0 || (err == nil && A.IsClosed() && A.TerminalMsg() == "timeout") {
			c.o.V("C12 inactivity-close-with-open-stream armed-while-a-stream-was-being-opened", map[string]any{"tag": tag, "terminal": A.TerminalMsg(),
				"what": "the session closed itself on its inactivity timer although a stream had been open the whole time since before the timer was armed",
				"replay": "A opens stream 1, writes, closes it; the closer parked at the log line `no active stream left` (count already 0, check not yet armed); A opens stream 2 and writes; release; 35 s idle with inactivity timeout 10 s"})
		}
		if st2 != nil {
			st2.Close()
		}
		A.Close()
		rg.S[1].sesh.Close()
		rg.propagate()
		synctest.Wait()
	})
	c.o.case_(tag, true)
}

func c12(c *ctx) {
	r := c.r
	nScripts := 150
	if c.thorough() {
		nScripts = 2500
	}
	kinds := map[string]int{}
	for s := 0; s < nScripts; s++ {
		method := byte(r.intn(4))
		nconn := 1 + r.intn(4)
		sp := r.intn(6) == 0
		if sp {
			nconn = 1
		}
		inact := time.Duration(10+r.intn(40)) * time.Second
		nops := 10 + r.intn(50)
		tag := fmt.Sprintf("script=%d method=%d conns=%d singleplex=%v", s, method, nconn, sp)
		var trace []string
		synctest.Run(func() {
			ps := newPairScript(c, method, nconn, sp, inact, tag)
			for k := 0; k < nops; k++ {
				op := ps.randomOp(k > nops/3)
				trace = append(trace, op)
				kinds[op]++
			}
			ps.finish()
		})
		c.o.case_(strings.Join(trace, ","), true)
		if s == 0 {
			c.o.sample(tag + " ops=" + strings.Join(trace, ","))
		}
	}
	// fault at every frame boundary: one stream, k frames in flight over 2 connections, fault after j deliveries
	for total := 1; total <= 4; total++ {
		for j := 0; j <= total; j++ {
			for fk := 0; fk < 2; fk++ {
				tag := fmt.Sprintf("fault-boundary frames=%d delivered=%d conn=%d", total, j, fk)
				synctest.Run(func() {
					ps := newPairScript(c, byte(total%4), 2, false, 30*time.Second, tag)
					ps.open(0)
					ps.read(0, 1, 10, true) // a parked reader on A's side of the stream
					for f := 0; f < total; f++ {
						ps.write(0, 1, []byte{byte(f), byte(f + 1)})
					}
					d := 0
					for t := 0; t < 8 && d < j; t++ {
						if ps.deliver(0, t%2) {
							d++
						}
					}
					ps.accept(1, true)
					if id, ok := ps.anyStream(1); ok {
						ps.read(1, id, 100, true)
					}
					if (total+j+fk)%3 == 0 {
						// the writer sees the reset first: an active stream close (reader parked on it) runs into the failing send
						ps.wfault(0)
						ps.closeStream(0, 1)
					}
					ps.fault(fk)
					ps.finish()
				})
				c.o.case_(tag, true)
			}
		}
	}
	// the OpenStream / Close race (VerifPoint director)
	for k := 0; k < 3; k++ {
		synctest.Run(func() {
			ps := newPairScript(c, byte(k), 2, false, 30*time.Second, "open-vs-close race")
			if k > 0 {
				ps.open(0)
			}
			ps.openRace()
			ps.finish()
		})
		c.o.case_(fmt.Sprint("openRace", k), true)
	}
	c12tls(c)
	c12backlog(c)
	for k := 0; k < 2; k++ {
		c12timerRace(c, k)
	}
	for k := 0; k < 2; k++ {
		c12timerArmRace(c, k)
	}
	for k := 0; k < 3; k++ {
		c12lateConnection(c, k)
	}
	for k := 0; k < 2; k++ {
		c12closeWhileAdding(c, k)
	}
	for k := 0; k < 2; k++ {
		c12closeWhileAddrs(c, k)
	}
	nmw := 8
	if c.thorough() {
		nmw = 32
	}
	for k := 0; k < nmw; k++ {
		c12manyWaiters(c, k)
	}
	for v := 0; v < 3; v++ {
		sz := 6 << 20
		if c.thorough() {
			sz = 40 << 20
		}
		c12bigBacklog(c, v, sz)
	}
	for k, v := range kinds {
		c.o.stat("op_"+k, v)
	}
}
