//go:build verif

package main

import (
	"bytes"
	"fmt"
	"io"
	"testing/synctest"
	"time"
)

// C14 "a read buffer too small for the next datagram reports an error without consuming or truncating it ... all
// read-buffer sizes around the datagram size": for a datagram of n bytes (n = 1, 2, 3, a frame's worth) every buffer size
// 0 .. n-1 must report the error, and the datagram must come out whole afterwards. Size 0 is a size.
func c14smallBuffers(c *ctx, k int) {
	r := c.r
	method := byte(k % 4)
	n := []int{1, 2, 3, 1 + r.intn(600)}[(k/4)%4]
	tag := fmt.Sprintf("every too-small buffer #%d method=%d datagram=%dB", k, method, n)
	synctest.Run(func() {
		var key [32]byte
		copy(key[:], r.bytes(32))
		rg := newSeshPair(method, key, 1, false, true, time.Hour)
		A, B := rg.S[0].sesh, rg.S[1].sesh
		st, err := A.OpenStream()
		if err != nil {
			panic(err)
		}
		d := r.bytes(n)
		st.Write(d)
		synctest.Wait()
		for {
			if _, ok := rg.deliver(0, 0); !ok {
				break
			}
		}
		synctest.Wait()
		sb, err := B.Accept()
		if err != nil {
			c.o.N("C14 small buffers: the stream did not arrive — case skipped")
			return
		}
		caps := []int{0, n - 1}
		if n > 2 {
			caps = append(caps, 1, n/2)
		}
		for _, cp := range caps {
			if cp >= n {
				continue
			}
			got, err := sb.Read(make([]byte, cp))
			if err != io.ErrShortBuffer {
				sig := "C14 read buffer smaller than the next datagram did not report an error"
				if cp == 0 {
					sig = "C14 short-buffer-no-error zero-length-buffer"
				}
				c.o.V(sig, map[string]any{"tag": tag, "cap": cp, "next_len": n, "result": fmt.Sprintf("(%d, %v)", got, err),
					"replay": fmt.Sprintf("unordered session pair; A writes a %d-byte datagram; B accepts the stream and calls Read with a %d-byte buffer", n, cp)})
			}
		}
		buf := make([]byte, n)
		got, err := sb.Read(buf)
		if err != nil || got != n || !bytes.Equal(buf[:got], d) {
			c.o.V("C14 short-read-destructive: after a too-small read the datagram no longer comes out intact", map[string]any{"tag": tag, "next_len": n, "read": got, "err": fmt.Sprint(err)})
		}
		A.Close()
		B.Close()
		rg.propagate()
		synctest.Wait()
	})
	c.o.case_(tag, true)
}
