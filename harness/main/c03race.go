//go:build verif

package main

import (
	"fmt"
	"io"
	"net"
	"sync"
	"time"

	mux "github.com/cbeuw/Cloak/internal/multiplex"
)

// C03, Close racing a write that is already under way on the ReadFrom path: a Write is in flight (its connection
// write is held, so it owns the stream's write lock), Close is called and waits for the lock, then a ReadFrom that
// has already taken a chunk from its source arrives at the lock.  When the in-flight write completes, the
// closing notice and the chunk go out in SOME order; whichever it is, nothing may follow the closing notice on
// the wire (the peer drops it: a lost tail that ReadFrom reports as written), and a chunk that was not sent
// before the close must be refused.  Real goroutines and the real mutex: no synctest (a goroutine waiting for a
// mutex is not "durably blocked"), steps separated by short sleeps.  Monitors only.

type gateConn struct {
	mu     sync.Mutex
	recs   [][]byte
	gate   chan struct{} // the first Write waits for it
	first  sync.Once
	closed chan struct{}
	once   sync.Once
}

func (g *gateConn) Write(b []byte) (int, error) {
	g.first.Do(func() { <-g.gate })
	g.mu.Lock()
	g.recs = append(g.recs, append([]byte(nil), b...))
	g.mu.Unlock()
	return len(b), nil
}
func (g *gateConn) Read(b []byte) (int, error)         { <-g.closed; return 0, io.EOF }
func (g *gateConn) Close() error                       { g.once.Do(func() { close(g.closed) }); return nil }
func (g *gateConn) LocalAddr() net.Addr                { return addrT("gate") }
func (g *gateConn) RemoteAddr() net.Addr               { return addrT("gate-peer") }
func (g *gateConn) SetDeadline(t time.Time) error      { return nil }
func (g *gateConn) SetReadDeadline(t time.Time) error  { return nil }
func (g *gateConn) SetWriteDeadline(t time.Time) error { return nil }

type onceReader struct {
	data []byte
	done bool
	hold chan struct{}
}

func (r *onceReader) Read(b []byte) (int, error) {
	if !r.done {
		r.done = true
		return copy(b, r.data), nil
	}
	<-r.hold
	return 0, io.EOF
}

func c03closeRace(c *ctx, k int) {
	r := c.r
	method := byte(r.intn(4))
	var key [32]byte
	copy(key[:], r.bytes(32))
	ob, err := mux.MakeObfuscator(method, key)
	if err != nil {
		panic(err)
	}
	sesh := mux.MakeSession(5, mux.SessionConfig{Obfuscator: ob, InactivityTimeout: time.Hour, MsgOnWireSizeLimit: 16401})
	g := &gateConn{gate: make(chan struct{}), closed: make(chan struct{})}
	sesh.AddConnection(g)
	st, err := sesh.OpenStream()
	if err != nil {
		return
	}
	tag := fmt.Sprintf("close race #%d method=%d", k, method)
	inflight := r.bytes(1 + r.intn(200))
	chunk := r.bytes(1 + r.intn(200))
	wDone, cDone := make(chan struct{}), make(chan struct{})
	type res struct {
		n   int64
		err error
	}
	rDone := make(chan res, 1)
	go func() { st.Write(inflight); close(wDone) }() // owns the write lock, parked in the connection write
	time.Sleep(15 * time.Millisecond)
	go func() { st.Close(); close(cDone) }() // waits for the write lock
	time.Sleep(15 * time.Millisecond)
	src := &onceReader{data: chunk, hold: make(chan struct{})}
	go func() { n, err := st.ReadFrom(src); rDone <- res{n, err} }() // takes its chunk, then arrives at the lock
	time.Sleep(15 * time.Millisecond)
	close(g.gate)
	ok := true
	for _, ch := range []chan struct{}{wDone, cDone} {
		select {
		case <-ch:
		case <-time.After(20 * time.Second):
			ok = false
		}
	}
	var rr res
	gotR := false
	select {
	case rr = <-rDone:
		gotR = true
	case <-time.After(500 * time.Millisecond):
		// ReadFrom sent its chunk before the close and is back in its source: legitimate
	}
	close(src.hold)
	if !gotR {
		select {
		case rr = <-rDone:
		case <-time.After(20 * time.Second):
			ok = false
		}
	}
	if !ok {
		c.o.N("C03 close race: a step did not finish within 20 s — case skipped: " + tag)
		return
	}
	g.mu.Lock()
	recs := append([][]byte(nil), g.recs...)
	g.mu.Unlock()
	closingAt, after := -1, 0
	var order []string
	for i, rec := range recs {
		_, seq, closing, payload, derr := mux.VerifDecode(method, key, rec)
		if derr != nil {
			c.o.V("C03 undecodable-record", map[string]any{"tag": tag, "index": i})
			return
		}
		order = append(order, fmt.Sprintf("seq=%d closing=%d len=%d", seq, closing, len(payload)))
		if closingAt >= 0 {
			after++
		}
		if closing != 0 && closingAt < 0 {
			closingAt = i
		}
	}
	chunkCounted := rr.n >= int64(len(chunk))
	if after > 0 {
		c.o.V("C03 frame-sent-after-close racing-readfrom", map[string]any{"tag": tag, "wire_order": order, "readfrom_reported_bytes": rr.n, "chunk_len": len(chunk),
			"readfrom_err": fmt.Sprint(rr.err), "what": "a frame follows the stream's closing notice on the wire (the peer drops it), and ReadFrom counts its bytes as written",
			"replay": "Stream.Write in flight (connection write held) -> Stream.Close queued on the write lock -> Stream.ReadFrom reads a chunk and queues on the lock -> release the connection write"})
	} else if closingAt >= 0 && chunkCounted && len(recs) < 3 {
		c.o.V("C03 write-accepted-after-close racing-readfrom", map[string]any{"tag": tag, "wire_order": order, "readfrom_reported_bytes": rr.n, "chunk_len": len(chunk)})
	}
	sesh.Close()
	c.o.stat("close_race_cases", 1)
	c.o.case_(tag, true)
}
