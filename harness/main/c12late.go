//go:build verif

package main

import (
	"fmt"
	"net"
	"sync"
	"sync/atomic"
	"testing/synctest"
	"time"

	"github.com/cbeuw/Cloak/internal/common"
	mux "github.com/cbeuw/Cloak/internal/multiplex"
)

// C12 "all of the session's connections end up closed", for a connection that reaches the session late: the server finds
// the session (GetSession: existing), writes the handshake reply, and only then calls AddConnection — the session may have
// been closed in between (inactivity timeout, termination of the user, a fault on its other connections).  The connection
// handed to a torn-down session must end up closed like the others; otherwise the peer keeps a connection it believes
// healthy, on which every frame is dropped.
func c12lateConnection(c *ctx, k int) {
	r := c.r
	method := byte(r.intn(4))
	how := []string{"close", "fault", "peer-close"}[k%3]
	tag := fmt.Sprintf("late connection #%d method=%d teardown=%s", k, method, how)
	synctest.Run(func() {
		var key [32]byte
		copy(key[:], r.bytes(32))
		rg := newSeshPair(method, key, 2, false, false, time.Hour)
		switch how {
		case "close":
			rg.S[1].sesh.Close()
		case "fault":
			rg.fault(0)
			rg.fault(1)
		case "peer-close":
			rg.S[0].sesh.Close()
			synctest.Wait()
			for kk := 0; kk < 2; kk++ {
				for {
					if _, ok := rg.deliver(0, kk); !ok {
						break
					}
				}
			}
		}
		synctest.Wait()
		rg.propagate()
		synctest.Wait()
		if !rg.S[1].sesh.IsClosed() {
			return // the teardown did not reach this side: nothing to check
		}
		a, b := newPair("late")
		rg.S[1].sesh.AddConnection(b)
		synctest.Wait()
		if !b.isClosed() {
			c.o.V("C12 connection-left-open added-after-teardown", map[string]any{"tag": tag, "what": "a connection handed to AddConnection after the session had been torn down is stored and read from, but never closed by the session",
				"replay": "session pair; teardown of side B by " + how + "; then B.AddConnection(new connection); at quiescence the new connection is still open"})
		}
		a.kill()
		b.kill()
		rg.S[0].sesh.Close()
		rg.propagate()
		synctest.Wait()
	})
	c.o.case_(tag, true)
}

// the first connection of a session is being added (past its teardown test, parked at the schedule point inside addConn)
// when the session is closed — the inactivity timer can do that on the server, whose first AddConnection comes after the
// handshake reply.  The closing notice cannot be sent (there is no connection to send it on yet); the connection must end
// up closed all the same.
func c12closeWhileAdding(c *ctx, k int) {
	r := c.r
	method := byte(r.intn(4))
	tag := fmt.Sprintf("close while the first connection is being added #%d method=%d", k, method)
	// real goroutines (a goroutine waiting for a mutex is not "durably blocked" for synctest), steps separated by short sleeps
	var key [32]byte
	copy(key[:], r.bytes(32))
	ob, err := mux.MakeObfuscator(method, key)
	if err != nil {
		panic(err)
	}
	sesh := mux.MakeSession(21, mux.SessionConfig{Obfuscator: ob, InactivityTimeout: time.Hour, MsgOnWireSizeLimit: 16401})
	parked, release := make(chan struct{}), make(chan struct{})
	var armed int32 = 1
	common.SetVerifHook(func(label string) {
		if label == "switchboard.addConn:between" && atomic.CompareAndSwapInt32(&armed, 1, 0) {
			close(parked)
			<-release
		}
	})
	defer common.SetVerifHook(nil)
	a, b := newPair("first")
	added := make(chan struct{})
	go func() { sesh.AddConnection(b); close(added) }()
	select {
	case <-parked:
	case <-time.After(5 * time.Second):
		c.o.N("C12 close while adding: the schedule point was not reached — case skipped")
		return
	}
	closed := make(chan struct{})
	go func() { sesh.Close(); close(closed) }()
	time.Sleep(50 * time.Millisecond) // Close has set the closed flag and tried to send; it may be waiting for addConn's mutex now
	close(release)
	for _, ch := range []chan struct{}{closed, added} {
		select {
		case <-ch:
		case <-time.After(20 * time.Second):
			c.o.V("C12 close-did-not-return", map[string]any{"tag": tag})
			return
		}
	}
	time.Sleep(20 * time.Millisecond)
	if !b.isClosed() {
		c.o.V("C12 connection-left-open close-before-the-first-connection-was-added", map[string]any{"tag": tag,
			"what": "Session.Close returned (its closing notice could not be sent: no connection yet) without sweeping the connections; the connection whose AddConnection was under way is stored, read from and never closed",
			"replay": "MakeSession; AddConnection parked at switchboard.addConn:between; Session.Close(); release"})
	}
	a.kill()
	b.kill()
	c.o.case_(tag, true)
}

// gatedAddrConn is a connection whose LocalAddr / RemoteAddr park until released: every call that AddConnection makes
// into the connection it is given becomes a point at which the session can be closed.
type gatedAddrConn struct {
	*fconn
	parked  chan struct{}
	release chan struct{}
	once    sync.Once
}

func (g *gatedAddrConn) gate() {
	g.once.Do(func() { close(g.parked) })
	<-g.release
}
func (g *gatedAddrConn) LocalAddr() net.Addr  { g.gate(); return g.fconn.LocalAddr() }
func (g *gatedAddrConn) RemoteAddr() net.Addr { g.gate(); return g.fconn.RemoteAddr() }

// c12closeWhileAddrs: "session Close racing with ... ; all of the session's connections end up closed" -- the session is
// closed (by Close, or by the peer's closing notice on another connection) while AddConnection is inside a call to the
// connection's own LocalAddr()/RemoteAddr(). Wherever those calls sit relative to the insertion into the pool, the
// connection must end up closed: either the sweep finds it, or the insertion is refused.
func c12closeWhileAddrs(c *ctx, k int) {
	r := c.r
	method := byte(r.intn(4))
	how := []string{"close", "fault-on-first-connection"}[k%2]
	tag := fmt.Sprintf("session torn down (%s) while AddConnection is inside the connection's address calls #%d method=%d", how, k, method)
	var key [32]byte
	copy(key[:], r.bytes(32))
	ob, err := mux.MakeObfuscator(method, key)
	if err != nil {
		panic(err)
	}
	sesh := mux.MakeSession(22, mux.SessionConfig{Obfuscator: ob, InactivityTimeout: time.Hour, MsgOnWireSizeLimit: 16401})
	a0, b0 := newPair("zero")
	sesh.AddConnection(b0)
	a, b := newPair("late")
	g := &gatedAddrConn{fconn: b, parked: make(chan struct{}), release: make(chan struct{})}
	added := make(chan struct{})
	go func() { sesh.AddConnection(g); close(added) }()
	select {
	case <-g.parked:
	case <-time.After(5 * time.Second):
		c.o.N("C12 close while in the address calls: AddConnection made no address call — case skipped")
		close(g.release)
		return
	}
	down := make(chan struct{})
	go func() {
		if how == "close" {
			sesh.Close()
		} else {
			a0.kill() // a reset seen by both ends of the first connection
			b0.kill()
		}
		close(down)
	}()
	select {
	case <-down:
	case <-time.After(300 * time.Millisecond): // the teardown may be waiting for a lock AddConnection holds: let it
	}
	deadline := time.Now().Add(2 * time.Second)
	for !sesh.IsClosed() && time.Now().Before(deadline) {
		time.Sleep(5 * time.Millisecond)
	}
	time.Sleep(30 * time.Millisecond)
	close(g.release)
	for _, ch := range []chan struct{}{down, added} {
		select {
		case <-ch:
		case <-time.After(20 * time.Second):
			c.o.V("C12 close-did-not-return", map[string]any{"tag": tag})
			return
		}
	}
	time.Sleep(50 * time.Millisecond)
	if !b.isClosed() {
		c.o.V("C12 connection-left-open added-while-the-session-was-torn-down", map[string]any{"tag": tag,
			"what": "the session was torn down while AddConnection was under way; the connection it was adding is in the pool (or nowhere) and was never closed: its receive loop serves a closed session and the peer keeps a connection it believes healthy",
			"replay": "MakeSession; AddConnection(first); AddConnection(conn whose LocalAddr/RemoteAddr park) in a goroutine; " + how + "; wait until IsClosed; release the address calls"})
	}
	a.kill()
	b.kill()
	a0.kill()
	b0.kill()
	c.o.case_(tag, true)
}
