//go:build verif

package main

import (
	"fmt"
	"testing/synctest"
	"time"
)

// C12 "all of the session's connections end up closed", for a connection that reaches the session late: the server finds
// the session (GetSession: existing), writes the handshake reply, and only then calls AddConnection — the session may have
// been closed in between (inactivity timeout, termination of the user, a fault on its other connections).  The connection
// handed to a torn-down session must end up closed like the others; otherwise the peer keeps a connection it believes
// healthy, on which every frame is dropped.
func c12lateConnection(c *ctx, k int) {
	r := c.r
	method := byte(r.intn(4))
	how := []string{"close", "fault", "peer-close"}[k%3]
	tag := fmt.Sprintf("late connection #%d method=%d teardown=%s", k, method, how)
	synctest.Run(func() {
		var key [32]byte
		copy(key[:], r.bytes(32))
		rg := newSeshPair(method, key, 2, false, false, time.Hour)
		switch how {
		case "close":
			rg.S[1].sesh.Close()
		case "fault":
			rg.fault(0)
			rg.fault(1)
		case "peer-close":
			rg.S[0].sesh.Close()
			synctest.Wait()
			for kk := 0; kk < 2; kk++ {
				for {
					if _, ok := rg.deliver(0, kk); !ok {
						break
					}
				}
			}
		}
		synctest.Wait()
		rg.propagate()
		synctest.Wait()
		if !rg.S[1].sesh.IsClosed() {
			return // the teardown did not reach this side: nothing to check
		}
		a, b := newPair("late")
		rg.S[1].sesh.AddConnection(b)
		synctest.Wait()
		if !b.isClosed() {
			c.o.V("C12 connection-left-open added-after-teardown", map[string]any{"tag": tag, "what": "a connection handed to AddConnection after the session had been torn down is stored and read from, but never closed by the session",
				"replay": "session pair; teardown of side B by " + how + "; then B.AddConnection(new connection); at quiescence the new connection is still open"})
		}
		a.kill()
		b.kill()
		rg.S[0].sesh.Close()
		rg.propagate()
		synctest.Wait()
	})
	c.o.case_(tag, true)
}
