//go:build verif

package main

import (
	"bytes"
	"encoding/base64"
	"fmt"
	"io"
	"net"
	"regexp"
	"sync"
	"time"

	"github.com/cbeuw/Cloak/internal/client"
	"github.com/cbeuw/Cloak/internal/common"
	mux "github.com/cbeuw/Cloak/internal/multiplex"
	"github.com/cbeuw/Cloak/internal/server"
	"github.com/cbeuw/connutil"
)

func init() { scenarios["C10"] = c10 }

// ---------------------------------------------------------------------------------------------
// passive tap: every connection between ck-client and ck-server is a pair of in-memory pipe ends; each end
// records what is written to it (one entry per Write call), i.e. every byte either side puts on the wire.

type tapPair struct {
	mu       sync.Mutex
	c2s, s2c []byte
	c2sW     []int // sizes of the individual writes
	s2cW     []int
	accepted chan struct{}
}

type c10TapConn struct {
	net.Conn
	p      *tapPair
	client bool
}

func (t *c10TapConn) Write(b []byte) (int, error) {
	t.p.mu.Lock()
	if t.client {
		t.p.c2s = append(t.p.c2s, b...)
		t.p.c2sW = append(t.p.c2sW, len(b))
	} else {
		t.p.s2c = append(t.p.s2c, b...)
		t.p.s2cW = append(t.p.s2cW, len(b))
	}
	t.p.mu.Unlock()
	return t.Conn.Write(b)
}

type tapNet struct {
	dialM   sync.Mutex
	pending chan *tapPair
	mu      sync.Mutex
	pairs   []*tapPair
	inner   common.Dialer
	l       net.Listener
}

// Dial is serialised so that the listener's next Accept is the peer of this dial (exact pairing).
func (n *tapNet) Dial(network, address string) (net.Conn, error) {
	n.dialM.Lock()
	defer n.dialM.Unlock()
	p := &tapPair{accepted: make(chan struct{})}
	n.pending <- p
	conn, err := n.inner.Dial(network, address)
	if err != nil {
		<-n.pending
		return nil, err
	}
	<-p.accepted
	n.mu.Lock()
	n.pairs = append(n.pairs, p)
	n.mu.Unlock()
	return &c10TapConn{Conn: conn, p: p, client: true}, nil
}

func (n *tapNet) Accept() (net.Conn, error) {
	conn, err := n.l.Accept()
	if err != nil {
		return nil, err
	}
	p := <-n.pending
	close(p.accepted)
	return &c10TapConn{Conn: conn, p: p, client: false}, nil
}
func (n *tapNet) Close() error   { return n.l.Close() }
func (n *tapNet) Addr() net.Addr { return n.l.Addr() }

func (n *tapNet) take() []*tapPair {
	n.mu.Lock()
	defer n.mu.Unlock()
	ps := n.pairs
	n.pairs = nil
	return ps
}

// ---------------------------------------------------------------------------------------------
// impl-side monitor: an independent TLS record / hello parser in Go (RFC 8446 structure)

type c10rec struct {
	typ  byte
	ver  [2]byte
	body []byte
}

func c10records(b []byte) ([]c10rec, bool) {
	var out []c10rec
	for len(b) > 0 {
		if len(b) < 5 {
			return out, false
		}
		l := int(b[3])<<8 | int(b[4])
		if len(b) < 5+l {
			return out, false
		}
		out = append(out, c10rec{b[0], [2]byte{b[1], b[2]}, b[5 : 5+l]})
		b = b[5+l:]
	}
	return out, true
}

func c10app(r c10rec) bool {
	return r.typ == 23 && r.ver == [2]byte{3, 3} && len(r.body) > 0 && len(r.body) <= 16640
}

func c10exts(b []byte) (map[int][]byte, bool) {
	m := map[int][]byte{}
	for len(b) > 0 {
		if len(b) < 4 {
			return nil, false
		}
		t, l := int(b[0])<<8|int(b[1]), int(b[2])<<8|int(b[3])
		if len(b) < 4+l {
			return nil, false
		}
		if _, dup := m[t]; !dup {
			m[t] = b[4 : 4+l]
		}
		b = b[4+l:]
	}
	return m, true
}

type c10hello struct {
	random, sid, suites, comp []byte
	exts                      map[int][]byte
}

// c10parseHello parses a ClientHello (typ 1) or ServerHello (typ 2) handshake message.
func c10parseHello(b []byte, typ byte) (h c10hello, why string) {
	if len(b) < 6 || b[0] != typ {
		return h, "not the expected handshake type"
	}
	if int(b[1])<<16|int(b[2])<<8|int(b[3]) != len(b)-4 {
		return h, "handshake length does not match"
	}
	if b[4] != 3 || b[5] != 3 {
		return h, "legacy_version is not 0x0303"
	}
	r := b[6:]
	if len(r) < 33 {
		return h, "truncated random"
	}
	h.random, r = r[:32], r[32:]
	sl := int(r[0])
	r = r[1:]
	if sl > 32 || len(r) < sl {
		return h, "bad session id length"
	}
	h.sid, r = r[:sl], r[sl:]
	if typ == 2 {
		if len(r) < 5 {
			return h, "truncated after session id"
		}
		h.suites, h.comp = r[:2], r[2:3]
		if r[2] != 0 {
			return h, "compression method is not null"
		}
		if int(r[3])<<8|int(r[4]) != len(r)-5 {
			return h, "extensions length does not match"
		}
		r = r[5:]
	} else {
		if len(r) < 2 {
			return h, "truncated cipher suites"
		}
		n := int(r[0])<<8 | int(r[1])
		r = r[2:]
		if n < 2 || n%2 != 0 || len(r) < n {
			return h, "bad cipher suites length"
		}
		h.suites, r = r[:n], r[n:]
		if len(r) < 1 || int(r[0]) < 1 || len(r) < 1+int(r[0]) {
			return h, "bad compression methods"
		}
		h.comp, r = r[1:1+int(r[0])], r[1+int(r[0]):]
		if len(r) < 2 || int(r[0])<<8|int(r[1]) != len(r)-2 {
			return h, "extensions length does not match"
		}
		r = r[2:]
	}
	var ok bool
	h.exts, ok = c10exts(r)
	if !ok {
		return h, "extensions do not nest"
	}
	return h, ""
}

func c10stats(rs []c10rec) string {
	mx := 0
	for _, r := range rs {
		if len(r.body) > mx {
			mx = len(r.body)
		}
	}
	return fmt.Sprintf("records=%d max=%d", len(rs), mx)
}

// c10checkClient validates the client's side; returns the canonical verdict line and the reason when invalid.
func c10checkClient(b []byte) (verdict string, sid []byte, sni string, why string) {
	rs, ok := c10records(b)
	if !ok || len(rs) == 0 {
		return "invalid", nil, "", "byte stream is not a sequence of whole records"
	}
	r0 := rs[0]
	if r0.typ != 22 || r0.ver != [2]byte{3, 1} {
		return "invalid", nil, "", "first record is not handshake/0x0301"
	}
	h, why := c10parseHello(r0.body, 1)
	if why != "" {
		return "invalid", nil, "", "ClientHello: " + why
	}
	sn, ks := h.exts[0], h.exts[0x33]
	if len(sn) < 5 || int(sn[0])<<8|int(sn[1]) != len(sn)-2 || sn[2] != 0 || int(sn[3])<<8|int(sn[4]) != len(sn)-5 || len(sn) == 5 {
		return "invalid", nil, "", "server_name extension missing or malformed"
	}
	name := sn[5:]
	if len(ks) < 2 || int(ks[0])<<8|int(ks[1]) != len(ks)-2 {
		return "invalid", nil, "", "key_share extension missing or malformed"
	}
	shares, ok := c10exts(ks[2:])
	if !ok {
		return "invalid", nil, "", "key_share entries do not nest"
	}
	x := shares[0x1d]
	if len(x) != 32 {
		return "invalid", nil, "", "no 32-byte X25519 key share"
	}
	if len(h.sid) != 32 {
		return "invalid", nil, "", "session id is not 32 bytes"
	}
	if !bytes.Equal(h.comp, []byte{0}) {
		return "invalid", nil, "", "compression methods are not [null]"
	}
	for i, r := range rs[1:] {
		if !c10app(r) {
			return "invalid", nil, "", fmt.Sprintf("record %d after the ClientHello is not a valid application-data record (type %d version %x length %d)", i+1, r.typ, r.ver, len(r.body))
		}
	}
	return fmt.Sprintf("valid sid=%s sni=%s share=%s random=%s %s", hx(h.sid), hx(name), hx(x), hx(h.random), c10stats(rs)), h.sid, string(name), ""
}

func c10checkServer(sid []byte, b []byte) (verdict string, why string) {
	rs, ok := c10records(b)
	if !ok || len(rs) < 3 {
		return "invalid", "byte stream is not at least three whole records"
	}
	if rs[0].typ != 22 || rs[0].ver != [2]byte{3, 3} {
		return "invalid", "first record is not handshake/0x0303"
	}
	h, why := c10parseHello(rs[0].body, 2)
	if why != "" {
		return "invalid", "ServerHello: " + why
	}
	if !bytes.Equal(h.sid, sid) || len(h.sid) != 32 {
		return "invalid", "ServerHello does not echo the 32-byte session id"
	}
	if !bytes.Equal(h.suites, []byte{0x13, 0x02}) {
		return "invalid", "cipher suite is not 0x1302"
	}
	ks := h.exts[0x33]
	if len(ks) != 36 || !bytes.Equal(ks[:4], []byte{0, 0x1d, 0, 0x20}) {
		return "invalid", "key_share is not a 32-byte X25519 share"
	}
	if !bytes.Equal(h.exts[0x2b], []byte{3, 4}) {
		return "invalid", "supported_versions is not 0x0304"
	}
	if rs[1].typ != 20 || rs[1].ver != [2]byte{3, 3} || !bytes.Equal(rs[1].body, []byte{1}) {
		return "invalid", "second record is not ChangeCipherSpec"
	}
	for i, r := range rs[2:] {
		if !c10app(r) {
			return "invalid", fmt.Sprintf("record %d of the server's side is not a valid application-data record (type %d version %x length %d)", i+2, r.typ, r.ver, len(r.body))
		}
	}
	return "valid " + c10stats(rs), ""
}

// ---------------------------------------------------------------------------------------------

var c10uid = []byte{0, 1, 2, 3, 4, 5, 6, 7, 8, 9, 10, 11, 12, 13, 14, 15}
var c10pub, _ = base64.StdEncoding.DecodeString("7f7TuKrs264VNSgMno8PkDlyhGhVuOSR8JHLE6H4Ljc=")
var c10priv, _ = base64.StdEncoding.DecodeString("SMWeC6VuZF8S/id65VuFQFlfa7hTEJBpL6wWhqPP100=")

// echo server behind ck-server: echoes; a read that consists of the single byte 0xC2 makes it close the connection
// (nothing is in flight then), so that the server side of the stream sends a stream-closing notice
func c10echo(l net.Listener) {
	for {
		conn, err := l.Accept()
		if err != nil {
			return
		}
		go func(conn net.Conn) {
			defer conn.Close()
			buf := make([]byte, 32*1024)
			for {
				n, err := conn.Read(buf)
				if n == 1 && buf[0] == 0xC2 {
					return
				}
				if n > 0 {
					if _, e := conn.Write(buf[:n]); e != nil {
						return
					}
				}
				if err != nil {
					return
				}
			}
		}(conn)
	}
}

type c10world struct {
	tap    *tapNet
	sta    *server.State
	ws     common.WorldState
	broken bool // a handshake hung: later sessions are skipped (what reached the wire is still validated)
}

func c10setup(o *outw) *c10world {
	ws := common.WorldOfTime(time.Unix(1700000000, 0))
	sta, err := server.InitState(server.RawConfig{
		ProxyBook:  map[string][]string{"shadowsocks": {"tcp", "127.0.0.1:9999"}},
		BindAddr:   []string{"127.0.0.1:9999"},
		BypassUID:  [][]byte{c10uid},
		RedirAddr:  "127.0.0.1",
		PrivateKey: c10priv,
		KeepAlive:  15,
	}, ws)
	if err != nil {
		o.N("C10 rig: InitState failed: " + err.Error())
		return nil
	}
	d, l := connutil.DialerListener(10 * 1024)
	tap := &tapNet{pending: make(chan *tapPair, 1), inner: d, l: l}
	pd, pl := connutil.DialerListener(10 * 1024)
	rd, _ := connutil.DialerListener(10 * 1024)
	sta.ProxyDialer = pd
	sta.RedirDialer = rd
	go c10echo(pl)
	go server.Serve(tap, sta)
	return &c10world{tap: tap, sta: sta, ws: ws}
}

var c10randomName = regexp.MustCompile(`^[a-z]{3,12}\.(com|net|org|it|fr|me|ru|cn|es|tr|top|xyz|info)$`)

// c10session: one client session (numConn connections), a traffic pattern, closing notices; then every tapped
// connection is validated (Go parser = monitor; Lean validator = T rows).
func c10session(c *ctx, w *c10world, browser, enc, serverName string, numConn int, sid uint32, traffic []int, label string) {
	o, r := c.o, c.r
	if w.broken {
		o.stat("rig_sessions_skipped", 1)
		return
	}
	raw := client.RawConfig{ServerName: serverName, ProxyMethod: "shadowsocks", EncryptionMethod: enc, UID: c10uid, PublicKey: c10pub,
		NumConn: numConn, Transport: "direct", RemoteHost: "127.0.0.1", RemotePort: "9999", LocalHost: "127.0.0.1", LocalPort: "9999", BrowserSig: browser}
	_, rcc, ai, err := raw.ProcessRawConfig(w.ws)
	if err != nil {
		o.N("C10 rig: ProcessRawConfig failed: " + err.Error())
		return
	}
	ai.SessionId = sid
	var sesh *mux.Session
	done := make(chan struct{})
	go func() {
		sesh = client.MakeSession(rcc, ai, w.tap)
		close(done)
	}()
	select {
	case <-done:
	case <-time.After(30 * time.Second):
		// not a C10 verdict by itself: whatever reached the wire is still validated below
		o.N("C10 rig: handshake did not complete within 30 s (" + label + ")")
		o.stat("rig_handshake_timeouts", 1)
		w.broken = true
	}
	rigOK := true
	if sesh != nil {
		for i, n := range traffic {
			st, err := sesh.OpenStream()
			if err != nil {
				o.N("C10 rig: OpenStream failed: " + err.Error())
				rigOK = false
				break
			}
			data := r.bytes(n)
			serverCloses := i%3 == 2
			if len(data) == 1 && data[0] == 0xC2 {
				data[0] = 0
			}
			res := make(chan error, 1)
			go func() {
				if _, err := st.Write(data); err != nil {
					res <- fmt.Errorf("write: %v", err)
					return
				}
				got := make([]byte, len(data))
				if _, err := io.ReadFull(st, got); err != nil {
					res <- fmt.Errorf("read: %v", err)
					return
				}
				if !bytes.Equal(got, data) {
					res <- fmt.Errorf("echo differs")
					return
				}
				if serverCloses {
					// ask the far end to hang up, then wait for the server's stream-closing notice
					if _, err := st.Write([]byte{0xC2}); err != nil {
						res <- fmt.Errorf("write: %v", err)
						return
					}
					_, err := st.Read(make([]byte, 1))
					if err == nil {
						res <- fmt.Errorf("expected the stream to be closed by the server")
						return
					}
				}
				res <- nil
			}()
			select {
			case err := <-res:
				if err != nil {
					o.N(fmt.Sprintf("C10 rig: traffic failed (%s) stream #%d of %d bytes, serverCloses=%v: %v", label, i, n, serverCloses, err))
					rigOK = false
				}
			case <-time.After(30 * time.Second):
				o.N("C10 rig: traffic did not complete within 30 s (" + label + ")")
				rigOK = false
			}
			if !serverCloses {
				st.Close() // stream-closing notice client -> server
			}
			if !rigOK {
				break
			}
		}
		sesh.Close() // session-closing notice
	}
	if !rigOK {
		o.stat("rig_traffic_failures", 1)
	}
	for ci, p := range w.tap.take() {
		p.mu.Lock()
		c2s, s2c := append([]byte(nil), p.c2s...), append([]byte(nil), p.s2c...)
		c2sW := append([]int(nil), p.c2sW...)
		p.mu.Unlock()
		info := map[string]any{"session": label, "conn": ci, "browser": browser, "enc": enc, "server_name": serverName, "c2s_len": len(c2s), "s2c_len": len(s2c)}
		cv, csid, sni, why := c10checkClient(c2s)
		if why != "" {
			info["why"] = why
			info["c2s_prefix"] = hx(c2s[:min(len(c2s), 600)])
			o.V("C10 client-side-not-a-valid-TLS-stream", info)
		} else {
			if serverName == "random" {
				if !c10randomName.MatchString(sni) {
					info["sni"] = sni
					o.V("C10 random-server-name-malformed", info)
				}
			} else if sni != serverName {
				info["sni"] = sni
				o.V("C10 server-name-differs-from-configuration", info)
			}
			// the first flight is a single record, written at once
			if len(c2sW) > 0 {
				if rs, _ := c10records(c2s); len(rs) > 0 && c2sW[0] != 5+len(rs[0].body) {
					info["first_write"] = c2sW[0]
					o.V("C10 first-flight-not-one-record", info)
				}
			}
		}
		o.T("tls.client bytes="+hx(c2s), cv)
		if csid != nil {
			sv, why := c10checkServer(csid, s2c)
			if why != "" {
				info["why"] = why
				info["client_sid"] = hx(csid)
				info["s2c_prefix"] = hx(s2c[:min(len(s2c), 300)])
				o.V("C10 server-side-not-a-valid-TLS-stream", info)
			}
			o.T(fmt.Sprintf("tls.server sid=%s bytes=%s", hx(csid), hx(s2c)), sv)
		}
		o.stat("connections_tapped", 1)
		o.stat("hellos_"+browser, 1)
		o.stat("tapped_bytes", len(c2s)+len(s2c))
	}
	o.case_(label, true)
}

func c10(c *ctx) {
	o, r := c.o, c.r
	// --- constants and the byte-level mirrors ---
	lim, rl := 0, -1
	for n := 16000; n <= 17000; n++ {
		cap := &capConn{}
		if k, err := common.NewTLSConn(cap).Write(make([]byte, n)); err == nil {
			lim = n
			rl = len(cap.buf) - k // Write reports n - recordLayerLength
		}
	}
	o.T("tls.consts", fmt.Sprintf("ver11=%d ver13=%d rl=%d hs=%d app=%d limitC=%d limitS=%d tlsmax=%d", common.VersionTLS11, common.VersionTLS13, rl, common.Handshake,
		common.ApplicationData, client.VerifC10AppDataMaxLength(), server.VerifC10AppDataMaxLength(), lim))
	nrep := 60
	if c.thorough() {
		nrep = 600
	}
	for i := 0; i < nrep; i++ {
		sid := r.bytes(32)
		var nonce [12]byte
		var enc [48]byte
		copy(nonce[:], r.bytes(12))
		copy(enc[:], r.bytes(48))
		cert := r.bytes([]int{42, 27, 68, 59, 36, 44, 46, 1, 300}[i%9])
		reply := server.VerifC10ComposeReply(sid, nonce, enc, cert)
		if len(reply) < 121 {
			o.V("C10 composeReply-too-short", map[string]any{"len": len(reply)})
			continue
		}
		rand4 := reply[117:121] // the four bytes composeServerHello draws (keyExchange[28:32])
		fv := "valid"
		if v, why := c10checkServer(sid, reply); why != "" {
			o.V("C10 server-side-not-a-valid-TLS-stream", map[string]any{"where": "composeReply", "sid": hx(sid), "reply": hx(reply), "why": why, "verdict": v})
			fv = "invalid"
		}
		o.T(fmt.Sprintf("tls.reply sid=%s nonce=%s enc=%s rand4=%s cert=%s", hx(sid), hx(nonce[:]), hx(enc[:]), hx(rand4), hx(cert)), hx(reply))
		o.T(fmt.Sprintf("tls.flight sid=%s bytes=%s", hx(sid), hx(reply)), fv)
	}
	// TLSConn.Write: every write is one record; sizes at the limits
	for _, n := range []int{1, 2, 23, 255, 256, 257, 16401, 16402, 16639, 16640, 16641, 20000, 65535, 65536, 70000} {
		cap := &capConn{}
		in := r.bytes(n)
		_, err := common.NewTLSConn(cap).Write(in)
		out := "too-long"
		if err == nil {
			out = hx(cap.buf)
			if rs, ok := c10records(cap.buf); !ok || len(rs) != 1 || !c10app(rs[0]) || cap.writes != 1 {
				o.V("C10 TLSConn.Write-not-one-valid-record", map[string]any{"len": n, "writes": cap.writes, "out_prefix": hx(cap.buf[:min(len(cap.buf), 16)])})
			}
		}
		o.T("tls.write in="+hx(in), out)
	}
	// two writes through one TLSConn (the pooled buffer is reused)
	{
		cap := &capConn{}
		tc := common.NewTLSConn(cap)
		a, b := r.bytes(100), r.bytes(3000)
		tc.Write(a)
		tc.Write(b)
		o.T("tls.app bytes="+hx(cap.buf), "valid records=2 max=3000")
	}
	for _, n := range []int{0, 1, 200, 517, 1800} {
		ch := r.bytes(n)
		o.T("tls.chrec ch="+hx(ch), hx(common.AddRecordLayer(ch, common.Handshake, common.VersionTLS11)))
	}
	// --- real handshakes and traffic over the tapped in-memory network ---
	w := c10setup(o)
	if w == nil {
		o.V("C10 rig-setup-failed", "server.InitState failed")
		return
	}
	browsers := []string{"chrome", "firefox", "safari"}
	encs := []string{"plain", "aes-256-gcm", "aes-128-gcm", "chacha20-poly1305"}
	names := []string{"www.example.com", "random", "a.io", "bing.com", "random", "very-long-host-name-for-testing.sub.domain.example.org"}
	sid := uint32(1000 + c.seed%1000*1000)
	quick := 50
	if c.thorough() {
		quick = 200
	}
	k := 0
	for _, br := range browsers {
		// many handshakes (extension order is random per hello for chrome)
		for i := 0; i < quick; i++ {
			sid++
			k++
			c10session(c, w, br, encs[k%4], names[k%len(names)], 4, sid, nil, fmt.Sprintf("%s handshakes #%d", br, i))
		}
		// traffic: small, exactly one frame, one frame + 1, many frames; streams closed by either side; session closed
		patterns := [][]int{{1, 100, 3}, {16132, 16133, 5}, {50000, 7, 9}, {16131, 32264, 20}}
		if c.thorough() {
			patterns = append(patterns, []int{200000, 1, 1, 1, 1, 1}, []int{16132 * 3, 16132*3 + 1, 2}, []int{10, 20, 30, 40, 50, 60, 70, 80, 90})
		}
		for i, pat := range patterns {
			for _, nc := range []int{1, 3} {
				if nc == 3 && i%2 == 1 && !c.thorough() {
					continue
				}
				sid++
				k++
				c10session(c, w, br, encs[(i+nc)%4], names[k%len(names)], nc, sid, pat, fmt.Sprintf("%s traffic #%d conns=%d", br, i, nc))
			}
		}
		// singleplex (NumConn = 0)
		sid++
		c10session(c, w, br, encs[k%4], "www.example.com", 0, sid, []int{40000}, br+" singleplex")
	}
	c10emptyWrites(c)
	o.sample("tls.client bytes=<everything a client connection wrote> -> valid sid=.. sni=.. share=.. records=N max=M ; tls.server sid=.. bytes=<everything the server wrote> -> valid records=N max=M")
	o.sample("chrome/firefox/safari x 4 encryption methods x configured/random server names; traffic incl. frames of exactly the maximum payload, closing notices from both sides")
}

// capConn captures what is written to it
type capConn struct {
	buf    []byte
	writes int
}

func (c *capConn) Write(b []byte) (int, error) {
	c.buf = append(c.buf, b...)
	c.writes++
	return len(b), nil
}
func (c *capConn) Read(b []byte) (int, error)         { return 0, io.EOF }
func (c *capConn) Close() error                       { return nil }
func (c *capConn) LocalAddr() net.Addr                { return nil }
func (c *capConn) RemoteAddr() net.Addr               { return nil }
func (c *capConn) SetDeadline(t time.Time) error      { return nil }
func (c *capConn) SetReadDeadline(t time.Time) error  { return nil }
func (c *capConn) SetWriteDeadline(t time.Time) error { return nil }
