//go:build verif

package main

// C05 — record framing survives any TCP segmentation and concurrent writers.
// Real code: common.TLSConn.Read/Write over an in-memory conn that hands the byte stream over in chosen chunks and
// logs every underlying Write; common.WebSocketConn over a gorilla client/server pair on net.Pipe.
// T rows: rec.write / rec.readall / rec.wopen+wstep+wdone (the Lean model must answer the same).
// V rows: the property as stated — every read = exactly one written message, whole, in order; a record larger than
// the reader's buffer is an error; every underlying write is one whole record; per-writer order preserved.

import (
	"bytes"
	"fmt"
	"io"
	"net"
	"net/http"
	"net/url"
	"runtime"
	"sort"
	"strings"
	"sync"
	"sync/atomic"
	"time"

	"github.com/cbeuw/Cloak/internal/common"
	"github.com/gorilla/websocket"
)

func init() { scenarios["C05"] = c05 }

func hexChunks(cs [][]byte) string {
	if len(cs) == 0 {
		return "-"
	}
	s := make([]string, len(cs))
	for i, c := range cs {
		s[i] = hx(c)
	}
	return strings.Join(s, ",")
}

func intsCSV(v []int) string {
	s := make([]string, len(v))
	for i, x := range v {
		s[i] = fmt.Sprint(x)
	}
	return strings.Join(s, ",")
}

// c05Write runs the real TLSConn.Write(m) on a logging conn; returns the underlying writes.
func c05Write(c *ctx, m []byte) (writes [][]byte, ok bool) {
	cc := newChunkConn(nil)
	t := common.NewTLSConn(cc)
	n, err := t.Write(m)
	writes = cc.log()
	op := "rec.write m=" + hx(m)
	if err != nil {
		c.o.T(op, "err toolong")
		if len(writes) != 0 {
			c.o.V("C05 refused-message-partly-written", map[string]any{"len": len(m), "writes": len(writes)})
		}
		return writes, false
	}
	c.o.T(op, "wire "+hexChunks(writes))
	_ = n
	return writes, true
}

type rres struct {
	ok   bool
	data []byte
	kind string
}

func (r rres) String() string {
	if r.ok {
		return "ok " + hx(r.data)
	}
	return "err " + r.kind
}

// c05ReadAll runs len(bufs) real TLSConn.Read calls (fresh buffer each) on a conn delivering exactly `chunks`.
func c05ReadAll(c *ctx, bufs []int, chunks [][]byte, emit bool) []rres {
	t := common.NewTLSConn(newChunkConn(chunks))
	out := make([]rres, 0, len(bufs))
	for _, b := range bufs {
		var r rres
		func() {
			defer func() {
				if p := recover(); p != nil {
					r = rres{kind: "panic"}
					c.o.V("C05 panic-in-read", map[string]any{"buf": b, "chunks": hexChunks(chunks), "panic": fmt.Sprint(p)})
				}
			}()
			buf := make([]byte, b)
			n, err := t.Read(buf)
			switch {
			case err == nil:
				r = rres{ok: true, data: append([]byte(nil), buf[:n]...)}
			case err == io.ErrShortBuffer:
				r = rres{kind: "shortbuffer"}
			case err == io.EOF || err == io.ErrUnexpectedEOF:
				r = rres{kind: "eof"}
			default:
				r = rres{kind: "other:" + err.Error()}
			}
		}()
		out = append(out, r)
	}
	if emit {
		s := make([]string, len(out))
		for i, r := range out {
			s[i] = r.String()
		}
		c.o.T(fmt.Sprintf("rec.readall bufs=%s chunks=%s", intsCSV(bufs), hexChunks(chunks)), strings.Join(s, ";"))
	}
	return out
}

// monitor: messages ms were written one Write each; reads with bufs (len(ms)+1 of them, the last expecting EOF).
func c05CheckExchange(c *ctx, tag string, ms [][]byte, bufs []int, chunks [][]byte, got []rres) {
	for i, m := range ms {
		if i >= len(got) {
			break
		}
		if bufs[i] >= 5 && bufs[i] >= len(m) {
			if !got[i].ok || !bytes.Equal(got[i].data, m) {
				sig := "C05 read-not-one-whole-message"
				if got[i].ok && len(got[i].data) < len(m) && bytes.HasPrefix(m, got[i].data) {
					sig = "C05 message-delivered-truncated"
				}
				c.o.V(sig, map[string]any{"tag": tag, "index": i, "written": hx(m), "read": got[i].String(), "bufs": bufs,
					"chunk_lengths": lens(chunks), "chunks": hexChunks(chunks)})
				return
			}
		} else {
			if got[i].ok {
				c.o.V("C05 oversize-record-delivered", map[string]any{"tag": tag, "index": i, "msg_len": len(m), "buf": bufs[i], "read": got[i].String()})
			}
			return // after an error the stream position is unspecified by the property
		}
	}
	if len(got) > len(ms) && (got[len(ms)].ok || got[len(ms)].kind != "eof") && bufs[len(ms)] >= 5 {
		c.o.V("C05 extra-read-not-eof", map[string]any{"tag": tag, "read": got[len(ms)].String()})
	}
}

func lens(cs [][]byte) []int {
	l := make([]int, len(cs))
	for i, c := range cs {
		l[i] = len(c)
	}
	return l
}

func c05(c *ctx) {
	c05Cuts(c)
	c05Random(c)
	c05Buffers(c)
	c05Malformed(c)
	c05Writers(c)
	c05WebSocket(c)
	if c.thorough() {
		c05TCP(c)
	}
}

// (a) every cut position and every pair of cut positions of exchanges of up to 3 short messages
func c05Cuts(c *ctx) {
	r := c.r
	nEx := 12
	if c.thorough() {
		nEx = 60
	}
	for e := 0; e < nEx; e++ {
		k := 1 + r.intn(3)
		if e < 3 {
			k = e + 1
		}
		ms := make([][]byte, k)
		var stream []byte
		for i := range ms {
			ms[i] = r.bytes(r.intn(7))
			if e == 0 {
				ms[i] = []byte{}
			}
			w, ok := c05Write(c, ms[i])
			if !ok {
				c.o.V("C05 short-message-refused", map[string]any{"len": len(ms[i])})
				return
			}
			for _, p := range w {
				stream = append(stream, p...)
			}
		}
		bufs := make([]int, k+1)
		for i := range bufs {
			bufs[i] = 5 + r.intn(12)
			if r.intn(4) == 0 {
				bufs[i] = 16640
			}
		}
		run := func(pos []int) {
			chunks := cut(stream, pos)
			got := c05ReadAll(c, bufs, chunks, true)
			c05CheckExchange(c, "cuts", ms, bufs, chunks, got)
			c.o.case_(fmt.Sprint("cuts", e, pos), len(pos) > 0)
		}
		run(nil)
		for p := 0; p <= len(stream); p++ { // p=0 and p=len give an empty first/last chunk
			run([]int{p})
		}
		for p := 1; p < len(stream); p++ {
			for q := p; q < len(stream); q++ { // q == p: an empty chunk in the middle
				run([]int{p, q})
			}
		}
		if e == 1 {
			c.o.sample(fmt.Sprintf("every 1-cut and 2-cut of %d messages (stream %s), reads with bufs %v", k, hx(stream), bufs))
		}
	}
}

var c05Lens = []int{0, 1, 2, 5, 255, 256, 257, 1000, 4096, 16383, 16384, 16385, 16639, 16640}

// (b) random multi-cuts / coalescing for message lengths 0..16640; refused lengths above
func c05Random(c *ctx) {
	r := c.r
	n := 80
	if c.thorough() {
		n = 600
	}
	for i := 0; i < n; i++ {
		k := 1 + r.intn(3)
		ms := make([][]byte, 0, k)
		var stream []byte
		var bounds []int
		for j := 0; j < k; j++ {
			var l int
			switch r.intn(3) {
			case 0:
				l = c05Lens[r.intn(len(c05Lens))]
			case 1:
				l = r.intn(300)
			default:
				l = r.intn(16641)
			}
			if i < len(c05Lens) && j == 0 {
				l = c05Lens[i]
			}
			m := r.bytes(l)
			w, ok := c05Write(c, m)
			if !ok {
				c.o.V("C05 message-within-limit-refused", map[string]any{"len": l})
				continue
			}
			ms = append(ms, m)
			for _, p := range w {
				stream = append(stream, p...)
			}
			bounds = append(bounds, len(stream))
		}
		// cuts: random positions, biased to header/body boundaries; sometimes byte-by-byte prefix
		var pos []int
		nc := r.intn(9)
		for j := 0; j < nc; j++ {
			if len(stream) < 2 {
				break
			}
			p := 1 + r.intn(len(stream)-1)
			if r.intn(3) == 0 && len(bounds) > 0 {
				b := bounds[r.intn(len(bounds))] + r.intn(11) - 5
				if b > 0 && b < len(stream) {
					p = b
				}
			}
			pos = append(pos, p)
		}
		if r.intn(5) == 0 {
			for p := 1; p < len(stream) && p < 12; p++ {
				pos = append(pos, p)
			}
		}
		sort.Ints(pos)
		bufs := make([]int, len(ms)+1)
		for j := range bufs {
			bufs[j] = 16640
			if j < len(ms) && r.intn(3) == 0 {
				bufs[j] = len(ms[j])
				if bufs[j] < 5 {
					bufs[j] = 5
				}
			}
		}
		chunks := cut(stream, pos)
		got := c05ReadAll(c, bufs, chunks, true)
		c05CheckExchange(c, "random", ms, bufs, chunks, got)
		c.o.case_(fmt.Sprint("random", i), true)
		c.o.stat("random_bytes", len(stream))
	}
	// above the limit: refused, nothing written
	for _, l := range []int{16641, 16642, 17000, 65535, 65536, 70000} {
		m := r.bytes(l)
		w, ok := c05Write(c, m)
		if ok {
			// not refused: then it must at least round-trip (the property only demands whole delivery or an error)
			var stream []byte
			for _, p := range w {
				stream = append(stream, p...)
			}
			got := c05ReadAll(c, []int{l + 5}, [][]byte{stream}, false)
			if got[0].ok && !bytes.Equal(got[0].data, m) {
				c.o.V("C05 over-limit-message-corrupted", map[string]any{"len": l, "read_len": len(got[0].data)})
			}
		}
		c.o.case_(fmt.Sprint("overlimit", l), true)
	}
}

// (c) reader buffers around the record size
func c05Buffers(c *ctx) {
	r := c.r
	n := 12
	if c.thorough() {
		n = 80
	}
	for i := 0; i < n; i++ {
		l := []int{0, 1, 4, 5, 6, 7, 100, 16640}[i%8]
		if i >= 8 {
			l = r.intn(600)
		}
		m := r.bytes(l)
		m2 := r.bytes(1 + r.intn(6))
		w1, ok1 := c05Write(c, m)
		w2, ok2 := c05Write(c, m2)
		if !ok1 || !ok2 {
			continue
		}
		var stream []byte
		for _, p := range append(w1, w2...) {
			stream = append(stream, p...)
		}
		for _, b := range []int{0, 1, 4, 5, l - 1, l, l + 1, l + 5} {
			if b < 0 {
				continue
			}
			var pos []int
			if len(stream) > 2 {
				pos = []int{1 + r.intn(len(stream)-1)}
			}
			bufs := []int{b, 16, 16}
			chunks := cut(stream, pos)
			got := c05ReadAll(c, bufs, chunks, true)
			c05CheckExchange(c, "buffers", [][]byte{m, m2}, bufs, chunks, got)
			c.o.case_(fmt.Sprint("buf", l, b), b < l || b < 5)
		}
	}
}

// (d) malformed / truncated streams: model-vs-implementation agreement; monitor only "a successful read returns
// exactly the declared number of bytes following its header" (never truncated)
func c05Malformed(c *ctx) {
	r := c.r
	n := 300
	if c.thorough() {
		n = 3000
	}
	for i := 0; i < n; i++ {
		var stream []byte
		switch r.intn(3) {
		case 0:
			stream = r.bytes(r.intn(40))
		default:
			for j := 0; j < 1+r.intn(3); j++ {
				l := r.intn(12)
				hdr := []byte{byte(r.intn(256)), byte(r.intn(4)), byte(r.intn(4)), 0, byte(l)}
				if r.intn(6) == 0 {
					hdr[3] = byte(r.intn(2))
				}
				stream = append(stream, hdr...)
				stream = append(stream, r.bytes(l)...)
			}
			if r.intn(2) == 0 && len(stream) > 0 {
				stream = stream[:r.intn(len(stream))]
			}
		}
		var pos []int
		for j := 0; j < r.intn(4) && len(stream) > 1; j++ {
			pos = append(pos, 1+r.intn(len(stream)-1))
		}
		sort.Ints(pos)
		bufs := []int{5 + r.intn(20), r.intn(20), 16, 300}
		chunks := cut(stream, pos)
		got := c05ReadAll(c, bufs, chunks, true)
		// walk the stream the way a correct reader would, as long as reads succeed
		off := 0
		for k, g := range got {
			if !g.ok {
				break
			}
			if off+5 > len(stream) {
				c.o.V("C05 data-without-header", map[string]any{"read": g.String(), "stream": hx(stream)})
				break
			}
			dl := int(stream[off+3])<<8 | int(stream[off+4])
			if off+5+dl > len(stream) || !bytes.Equal(g.data, stream[off+5:off+5+dl]) {
				sig := "C05 read-not-one-whole-message"
				if len(g.data) < dl {
					sig = "C05 message-delivered-truncated"
				}
				c.o.V(sig, map[string]any{"tag": "malformed", "index": k, "declared": dl, "read": g.String(), "stream": hx(stream), "chunk_lengths": lens(chunks)})
				break
			}
			off += 5 + dl
		}
		c.o.case_(fmt.Sprint("malformed", i), true)
	}
}

// (e) 1..16 concurrent writer goroutines; the underlying Write calls are logged
func c05Writers(c *ctx) {
	r := c.r
	rounds := 40
	if c.thorough() {
		rounds = 400
	}
	interleaved := 0
	for round := 0; round < rounds; round++ {
		nw := 1 + r.intn(16)
		if round < 16 {
			nw = round + 1
		}
		progs := make([][][]byte, nw)
		for w := range progs {
			k := 1 + r.intn(4)
			for s := 0; s < k; s++ {
				l := 2 + r.intn(30)
				switch r.intn(12) {
				case 0:
					l = 16640
				case 1:
					l = 16641 + r.intn(10) // refused
				}
				m := r.bytes(l)
				m[0], m[1] = byte(w), byte(s) // unique per (writer, index)
				progs[w] = append(progs[w], m)
			}
		}
		cc := newChunkConn(nil)
		cc.yield = runtime.Gosched
		t := common.NewTLSConn(cc)
		var wg sync.WaitGroup
		start := make(chan struct{})
		errs := make([][]error, nw)
		for w := 0; w < nw; w++ {
			wg.Add(1)
			errs[w] = make([]error, len(progs[w]))
			go func(w int) {
				defer wg.Done()
				<-start
				for s, m := range progs[w] {
					_, errs[w][s] = t.Write(m)
					if s%2 == 0 {
						runtime.Gosched()
					}
				}
			}(w)
		}
		close(start)
		wg.Wait()
		log := cc.log()
		// T rows: the Lean interleaving model must accept the observed log as one of its runs
		ps := make([]string, nw)
		for w, p := range progs {
			ps[w] = hexChunks(p)
		}
		c.o.T("rec.wopen progs="+strings.Join(ps, ";"), "ok")
		next := make([]int, nw)
		skipRefused := func(w int) { // messages whose Write returned an error are not expected on the wire
			for next[w] < len(progs[w]) && errs[w][next[w]] != nil {
				next[w]++
			}
		}
		bad := false
		lastW := -1
		switches := 0
		var wireMsgs [][]byte
		for i, p := range log {
			who := "frag"
			if len(p) >= 7 && p[0] == 23 && p[1] == 3 && p[2] == 3 && int(p[3])<<8|int(p[4]) == len(p)-5 && int(p[5]) < nw {
				w := int(p[5])
				who = fmt.Sprintf("ok %d", w)
				skipRefused(w)
				if next[w] >= len(progs[w]) || !bytes.Equal(p[5:], progs[w][next[w]]) {
					if !bad {
						c.o.V("C05 writer-order-or-content", map[string]any{"round": round, "writer": w, "log_index": i, "write": hx(trunc(p, 64))})
					}
					bad = true
				} else {
					next[w]++
				}
				if w != lastW {
					switches++
				}
				lastW = w
				wireMsgs = append(wireMsgs, p[5:])
			} else {
				if !bad {
					c.o.V("C05 underlying-write-not-a-whole-record", map[string]any{"round": round, "writers": nw, "log_index": i, "write": hx(trunc(p, 64)), "write_len": len(p)})
				}
				bad = true
			}
			c.o.T("rec.wstep w="+hx(p), who)
		}
		c.o.T("rec.wdone", "done")
		for w := range progs {
			skipRefused(w)
			if next[w] != len(progs[w]) && !bad {
				c.o.V("C05 message-lost", map[string]any{"round": round, "writer": w, "written": next[w], "of": len(progs[w])})
				bad = true
			}
			for s, m := range progs[w] {
				if len(m) <= 16640 && errs[w][s] != nil && !bad {
					c.o.V("C05 message-within-limit-refused", map[string]any{"round": round, "writer": w, "len": len(m), "err": fmt.Sprint(errs[w][s])})
					bad = true
				}
			}
		}
		if switches > nw {
			interleaved++
		}
		// the reader's view of that wire, under a random chunking: the messages in wire order (per-writer order follows)
		if !bad {
			var stream []byte
			for _, p := range log {
				stream = append(stream, p...)
			}
			var pos []int
			for j := 0; j < r.intn(6) && len(stream) > 1; j++ {
				pos = append(pos, 1+r.intn(len(stream)-1))
			}
			sort.Ints(pos)
			bufs := make([]int, len(wireMsgs)+1)
			for j := range bufs {
				bufs[j] = 16640
			}
			chunks := cut(stream, pos)
			got := c05ReadAll(c, bufs, chunks, false)
			c05CheckExchange(c, "writers", wireMsgs, bufs, chunks, got)
		}
		c.o.case_(fmt.Sprint("writers", round), nw > 1)
	}
	c.o.stat("writer_rounds_with_interleaving", interleaved)
}

func trunc(b []byte, n int) []byte {
	if len(b) > n {
		return b[:n]
	}
	return b
}

// ---- WebSocket half (partial: gorilla assumed; no Lean model — monitor only) ----

type oneShotListener struct {
	ch   chan net.Conn
	once sync.Once
}

func (l *oneShotListener) Accept() (net.Conn, error) {
	c, ok := <-l.ch
	if !ok {
		return nil, io.EOF
	}
	return c, nil
}
func (l *oneShotListener) Close() error   { l.once.Do(func() { close(l.ch) }); return nil }
func (l *oneShotListener) Addr() net.Addr { return fakeAddr("127.0.0.1:80") }

func wsPair() (cl, sv *common.WebSocketConn, err error) {
	a, b := net.Pipe()
	got := make(chan *websocket.Conn, 1)
	l := &oneShotListener{ch: make(chan net.Conn, 1)}
	l.ch <- b
	up := websocket.Upgrader{ReadBufferSize: 16480, WriteBufferSize: 16480}
	go http.Serve(l, http.HandlerFunc(func(w http.ResponseWriter, rq *http.Request) {
		cn, e := up.Upgrade(w, rq, nil)
		if e != nil {
			got <- nil
			return
		}
		got <- cn
		l.Close()
	}))
	u, _ := url.Parse("ws://example.com/")
	cc, _, e := websocket.NewClient(a, u, http.Header{}, 16480, 16480)
	if e != nil {
		return nil, nil, e
	}
	sc := <-got
	if sc == nil {
		return nil, nil, fmt.Errorf("upgrade failed")
	}
	return &common.WebSocketConn{Conn: cc}, &common.WebSocketConn{Conn: sc}, nil
}

func c05WebSocket(c *ctx) {
	r := c.r
	for dir := 0; dir < 2; dir++ {
		cl, sv, err := wsPair()
		if err != nil {
			c.o.N("C05 websocket pair could not be built: " + err.Error())
			return
		}
		w, rd := cl, sv
		if dir == 1 {
			w, rd = sv, cl
		}
		// message preservation: one Write = one Read, whole, in order (incl. length 0 and exactly the buffer size)
		n := 40
		if c.thorough() {
			n = 300
		}
		var ms [][]byte
		for i := 0; i < n; i++ {
			l := []int{0, 1, 125, 126, 127, 300, 4096, 16479, 16480, 16481, 20000}[i%11]
			if i >= 11 {
				l = r.intn(2000)
			}
			ms = append(ms, r.bytes(l))
		}
		done := make(chan struct{})
		go func() {
			defer close(done)
			for _, m := range ms {
				if _, e := w.Write(m); e != nil {
					return
				}
			}
		}()
		buf := make([]byte, 20000)
		for i, m := range ms {
			k, e := rd.Read(buf)
			if e != nil || !bytes.Equal(buf[:k], m) {
				c.o.V("C05 websocket-read-not-one-whole-message", map[string]any{"index": i, "len": len(m), "read_len": k, "err": fmt.Sprint(e)})
				break
			}
			c.o.case_(fmt.Sprint("ws", dir, i), true)
		}
		<-done
		// concurrent writers: 8 goroutines x 6 messages; receiver must see each whole, per-writer order kept
		const NW, NM = 8, 6
		var wg sync.WaitGroup
		var wsPanic atomic.Value
		for g := 0; g < NW; g++ {
			wg.Add(1)
			go func(g int) {
				defer wg.Done()
				defer func() { // gorilla panics when it detects two writers inside WriteMessage
					if p := recover(); p != nil {
						wsPanic.Store(fmt.Sprint(p))
						cl.Conn.UnderlyingConn().Close()
						sv.Conn.UnderlyingConn().Close()
					}
				}()
				for s := 0; s < NM; s++ {
					m := bytes.Repeat([]byte{byte(g*16 + s)}, 3+g*50+s)
					m[0], m[1] = byte(g), byte(s)
					w.Write(m)
					runtime.Gosched()
				}
			}(g)
		}
		next := make([]int, NW)
		for i := 0; i < NW*NM; i++ {
			k, e := rd.Read(buf)
			if e != nil || k < 3 || int(buf[0]) >= NW {
				c.o.V("C05 websocket-concurrent-writers", map[string]any{"index": i, "read_len": k, "err": fmt.Sprint(e)})
				break
			}
			g, s := int(buf[0]), int(buf[1])
			want := bytes.Repeat([]byte{byte(g*16 + s)}, 3+g*50+s)
			want[0], want[1] = byte(g), byte(s)
			if s != next[g] || !bytes.Equal(buf[:k], want) {
				c.o.V("C05 websocket-concurrent-writers", map[string]any{"index": i, "writer": g, "seq": s, "expected_seq": next[g], "read_len": k})
				break
			}
			next[g]++
		}
		wg.Wait()
		if p := wsPanic.Load(); p != nil {
			c.o.V("C05 websocket-concurrent-writers", map[string]any{"panic": p})
			return
		}
		c.o.case_(fmt.Sprint("ws-writers", dir), true)
		// oversize: a message larger than the reader's buffer is an error, never delivered truncated
		big := r.bytes(5000)
		go w.Write(big)
		small := make([]byte, 1000)
		k, e := rd.Read(small)
		if e == nil {
			c.o.V("C05 websocket-oversize-delivered", map[string]any{"msg_len": len(big), "buf": len(small), "read_len": k})
		}
		c.o.case_(fmt.Sprint("ws-oversize", dir), true)
		cl.Close()
		sv.Close()
	}
	c.o.N("C05 WebSocket half: monitor only (gorilla/websocket framing assumed, not modelled)")
}

// thorough: real loopback TCP (segmentation chosen by the kernel); generous deadline, environment problems are notes
func c05TCP(c *ctx) {
	r := c.r
	l, err := net.Listen("tcp", "127.0.0.1:0")
	if err != nil {
		c.o.N("C05 loopback TCP unavailable: " + err.Error())
		return
	}
	defer l.Close()
	var ms [][]byte
	for i := 0; i < 400; i++ {
		ms = append(ms, r.bytes([]int{0, 1, 100, 1400, 1460, 1461, 4096, 16640}[r.intn(8)]))
	}
	go func() {
		cn, e := net.Dial("tcp", l.Addr().String())
		if e != nil {
			return
		}
		defer cn.Close()
		raw := cn
		t := common.NewTLSConn(cn)
		for i, m := range ms {
			if i%7 == 3 { // hand-made record written in three pieces to force separate segments
				rec := common.AddRecordLayer(m, common.ApplicationData, common.VersionTLS13)
				raw.Write(rec[:2])
				raw.Write(rec[2:5])
				raw.Write(rec[5:])
			} else {
				t.Write(m)
			}
		}
	}()
	cn, err := l.Accept()
	if err != nil {
		c.o.N("C05 loopback accept failed: " + err.Error())
		return
	}
	defer cn.Close()
	cn.SetDeadline(time.Now().Add(60 * time.Second))
	t := common.NewTLSConn(cn)
	buf := make([]byte, 16640)
	for i, m := range ms {
		k, e := t.Read(buf)
		if e != nil {
			if ne, ok := e.(net.Error); ok && ne.Timeout() {
				c.o.N("C05 loopback TCP read timed out (environment); skipped")
				return
			}
			c.o.V("C05 read-not-one-whole-message", map[string]any{"tag": "tcp", "index": i, "err": e.Error()})
			return
		}
		if !bytes.Equal(buf[:k], m) {
			c.o.V("C05 read-not-one-whole-message", map[string]any{"tag": "tcp", "index": i, "len": len(m), "read_len": k})
			return
		}
		c.o.case_(fmt.Sprint("tcp", i), true)
	}
}
