//go:build verif

package main

// Helpers shared by the handshake scenarios (C06, C07, C08): keys, crypto ORACLE (Go's stdlib and
// x/crypto called directly, never through Cloak's wrappers), packet builders, in-memory conns and the
// subprocess runner for virtual-time scenarios.

import (
	"bufio"
	"bytes"
	"crypto/aes"
	"crypto/cipher"
	crand "crypto/rand"
	"encoding/base64"
	"encoding/binary"
	"encoding/json"
	"errors"
	"fmt"
	"io"
	"net"
	"net/http"
	"os"
	"os/exec"
	"strconv"
	"strings"
	"sync"
	"time"

	"github.com/cbeuw/Cloak/internal/client"
	"github.com/cbeuw/Cloak/internal/common"
	"github.com/cbeuw/Cloak/internal/server"
	"golang.org/x/crypto/curve25519"
)

// ---- keys ----

type srvKeys struct{ priv, pub [32]byte }

func newServerKeys(r *rng) srvKeys {
	var k srvKeys
	copy(k.priv[:], r.bytes(32))
	k.priv[0] &= 248
	k.priv[31] &= 127
	k.priv[31] |= 64
	p, err := curve25519.X25519(k.priv[:], curve25519.Basepoint)
	if err != nil {
		panic(err)
	}
	copy(k.pub[:], p)
	return k
}

// seededReader makes the client's ephemeral key a function of the seed.
type seededReader struct{ r *rng }

func (s seededReader) Read(p []byte) (int, error) {
	copy(p, s.r.bytes(len(p)))
	return len(p), nil
}

// ---- oracle: stdlib / x-crypto directly ----

func oracleDH(priv, pub []byte) ([]byte, bool) {
	s, err := curve25519.X25519(priv, pub)
	if err != nil {
		return nil, false
	}
	return s, true
}

func gcmOf(key []byte) cipher.AEAD {
	b, err := aes.NewCipher(key)
	if err != nil {
		panic(err)
	}
	g, err := cipher.NewGCM(b)
	if err != nil {
		panic(err)
	}
	return g
}

func hsOracleOpen(key, nonce, ct []byte) ([]byte, bool) {
	pt, err := gcmOf(key).Open(nil, nonce, ct, nil)
	if err != nil {
		return nil, false
	}
	return pt, true
}

func hsOracleSeal(key, nonce, pt []byte) []byte { return gcmOf(key).Seal(nil, nonce, pt, nil) }

// oracleView computes what an honest reading of (rand, ct) under the server key gives:
// reg (key agreement defined), ok (block opens), the plaintext.
func oracleView(sk []byte, rnd, ct []byte) (reg, ok bool, pt []byte, secret []byte) {
	secret, reg = oracleDH(sk, rnd)
	if !reg {
		return
	}
	pt, ok = hsOracleOpen(secret, rnd[:12], ct)
	return
}

func plainTS(pt []byte) int64 { return int64(binary.BigEndian.Uint64(pt[29:37])) }

// ---- first packets ----

const (
	brChrome = iota
	brFirefox
	brSafari
)

var browserNames = []string{"chrome", "firefox", "safari"}

func mkAuthInfo(keys srvKeys, uid []byte, sid uint32, method string, enc byte, unordered bool, now func() time.Time, rnd io.Reader, domain string) client.AuthInfo {
	pub := keys.pub
	return client.AuthInfo{UID: uid, SessionId: sid, ProxyMethod: method, EncryptionMethod: enc, Unordered: unordered,
		ServerPubKey: &pub, MockDomain: domain, WorldState: common.WorldState{Rand: rnd, Now: now}}
}

// wsGET builds the plain HTTP upgrade request a CDN forwards to the server (what gorilla's client
// writes: method line, Host, Upgrade/Connection, key, version, then the extra header).
func wsGET(hidden []byte, key16 []byte) []byte {
	var b bytes.Buffer
	b.WriteString("GET / HTTP/1.1\r\nHost: cdn.example.com\r\nUpgrade: websocket\r\nConnection: Upgrade\r\n")
	b.WriteString("Sec-WebSocket-Key: " + base64.StdEncoding.EncodeToString(key16) + "\r\nSec-WebSocket-Version: 13\r\n")
	b.WriteString("Hidden: " + base64.StdEncoding.EncodeToString(hidden) + "\r\n\r\n")
	return b.Bytes()
}

// hiddenOf extracts what WebSocket.processFirstPacket will hand to unmarshalHidden, using net/http and
// base64 directly (an ORACLE row: these libraries are not modelled).
func hiddenOf(pkt []byte) (hidden []byte, parsed bool) {
	req, err := http.ReadRequest(bufio.NewReader(bytes.NewBuffer(pkt)))
	if err != nil {
		return nil, false
	}
	h, _ := base64.StdEncoding.DecodeString(req.Header.Get("hidden"))
	return h, true
}

// ---- server state ----

type stateOpts struct {
	adminUID  []byte
	bypass    [][]byte
	proxyBook map[string][]string
	now       func() time.Time
}

func newState(keys srvKeys, o stateOpts) *server.State {
	if o.proxyBook == nil {
		o.proxyBook = map[string][]string{"shadowsocks": {"tcp", "127.0.0.1:9"}, "openvpn": {"udp", "127.0.0.1:9"}, "MixedCaseSS": {"tcp", "127.0.0.1:9"}}
	}
	if o.now == nil {
		o.now = time.Now
	}
	raw := server.RawConfig{ProxyBook: o.proxyBook, BypassUID: o.bypass, RedirAddr: "127.0.0.1", PrivateKey: keys.priv[:], AdminUID: o.adminUID}
	sta, err := server.InitState(raw, common.WorldState{Rand: cryptoRand{}, Now: o.now})
	if err != nil {
		panic(err)
	}
	return sta
}

type cryptoRand struct{}

func (cryptoRand) Read(p []byte) (int, error) { return io.ReadFull(crand.Reader, p) }

// classify maps AuthFirstPacket's error to the line-protocol enum.
func classifyAuth(err error) string {
	switch {
	case err == nil:
		return "accept"
	case errors.Is(err, server.ErrReplay):
		return "replay"
	case errors.Is(err, server.ErrBadDecryption):
		return "reject"
	case errors.Is(err, server.ErrBadClientHello):
		return "badhello"
	default:
		return "early"
	}
}

// ---- event-recording in-memory connection (no timeouts: every outcome is an explicit event) ----

type evConn struct {
	mu     sync.Mutex
	rd     *bytes.Reader
	block  chan struct{} // closed on Close: unblocks readers
	once   sync.Once
	ev     chan string
	name   string
	wrote  bytes.Buffer
	closed bool
	// read deadline as set by the server.  The peer has sent `first` and stays silent, so a read that finds
	// no more data reports a timeout as soon as ANY deadline is set (the 15 s of readFirstPacket "elapse";
	// net/http's abortPendingRead sets one in the past); without a deadline it parks until Close.
	deadline time.Time
	dlCh     chan struct{} // closed (and replaced) whenever a non-zero deadline is set
}

func newEvConn(name string, first []byte, ev chan string) *evConn {
	return &evConn{rd: bytes.NewReader(first), block: make(chan struct{}), ev: ev, name: name, dlCh: make(chan struct{})}
}

func (c *evConn) Read(p []byte) (int, error) {
	for {
		c.mu.Lock()
		if c.rd.Len() > 0 {
			n, _ := c.rd.Read(p)
			c.mu.Unlock()
			return n, nil
		}
		if !c.deadline.IsZero() {
			c.mu.Unlock()
			return 0, os.ErrDeadlineExceeded
		}
		ch := c.dlCh
		c.mu.Unlock()
		select {
		case <-c.block:
			return 0, io.EOF
		case <-ch:
		}
	}
}
func (c *evConn) Write(p []byte) (int, error) {
	c.mu.Lock()
	if c.closed {
		c.mu.Unlock()
		return 0, io.ErrClosedPipe
	}
	first := c.wrote.Len() == 0
	c.wrote.Write(p)
	c.mu.Unlock()
	if first {
		select {
		case c.ev <- c.name + ":write":
		default:
		}
	}
	return len(p), nil
}
func (c *evConn) Close() error {
	c.mu.Lock()
	was := c.closed
	c.closed = true
	c.mu.Unlock()
	c.once.Do(func() { close(c.block) })
	if !was {
		select {
		case c.ev <- c.name + ":close":
		default:
		}
	}
	return nil
}
func (c *evConn) written() []byte {
	c.mu.Lock()
	defer c.mu.Unlock()
	return append([]byte(nil), c.wrote.Bytes()...)
}
func (c *evConn) LocalAddr() net.Addr           { return &net.TCPAddr{IP: net.IPv4(127, 0, 0, 1), Port: 443} }
func (c *evConn) RemoteAddr() net.Addr          { return &net.TCPAddr{IP: net.IPv4(127, 0, 0, 1), Port: 50000} }
func (c *evConn) SetDeadline(t time.Time) error { return c.SetReadDeadline(t) }
func (c *evConn) SetReadDeadline(t time.Time) error {
	c.mu.Lock()
	c.deadline = t
	if !t.IsZero() {
		close(c.dlCh)
		c.dlCh = make(chan struct{})
	}
	c.mu.Unlock()
	return nil
}
func (c *evConn) SetWriteDeadline(t time.Time) error { return nil }

// ---- subprocess runner for virtual-time sub-scenarios ----

// runChild re-executes this binary with `<name> <args…>` as scenario words, then folds the child's
// T/V/S/X/N rows into the parent's output.
func runChild(c *ctx, name string, args ...string) error {
	tmp, err := os.CreateTemp(".", "verifchild-*.trace")
	if err != nil {
		return err
	}
	tmp.Close()
	defer os.Remove(tmp.Name())
	argv := []string{"-tier", c.tier, "-seed", strconv.FormatUint(c.seed, 10), "-out", tmp.Name(), name}
	argv = append(argv, args...)
	cmd := exec.Command(os.Args[0], argv...)
	cmd.Env = os.Environ()
	out, err := cmd.CombinedOutput()
	if err != nil {
		return fmt.Errorf("child %s %v: %v: %s", name, args, err, lastLines(string(out), 30))
	}
	f, err := os.Open(tmp.Name())
	if err != nil {
		return err
	}
	defer f.Close()
	sc := bufio.NewScanner(f)
	sc.Buffer(make([]byte, 1<<20), 1<<26)
	for sc.Scan() {
		ln := sc.Text()
		switch {
		case strings.HasPrefix(ln, "T\t"):
			p := strings.SplitN(ln, "\t", 3)
			c.o.T(p[1], p[2])
		case strings.HasPrefix(ln, "V\t"):
			p := strings.SplitN(ln, "\t", 3)
			c.o.V(p[1], json.RawMessage(p[2]))
		case strings.HasPrefix(ln, "S\t"):
			p := strings.SplitN(ln, "\t", 3)
			v, _ := strconv.Atoi(p[2])
			switch p[1] {
			case "trace_lines", "monitor_hits", "distinct_nontrivial":
			default:
				c.o.stat(p[1], v)
			}
		case strings.HasPrefix(ln, "D\t"): // distinct non-trivial case keys of the child
			c.o.distinct[ln[2:]] = struct{}{}
		case strings.HasPrefix(ln, "X\t"):
			c.o.sample(ln[2:])
		case strings.HasPrefix(ln, "N\t"):
			c.o.N(ln[2:])
		}
	}
	return sc.Err()
}

// childFinish flushes the child's rows (plus its distinct-case keys) and leaves the process from
// inside the synctest bubble (synctest.Run would never return: the cleaner goroutine is immortal).
func childFinish(c *ctx) {
	for k := range c.o.distinct {
		c.o.w.WriteString("D\t" + strings.ReplaceAll(k, "\n", " ") + "\n")
	}
	c.o.close()
	os.Exit(0)
}

func lastLines(s string, n int) string {
	ls := strings.Split(strings.TrimSpace(s), "\n")
	if len(ls) > n {
		ls = ls[len(ls)-n:]
	}
	return strings.Join(ls, "\n")
}
