//go:build verif

package main

import (
	"fmt"

	mux "github.com/cbeuw/Cloak/internal/multiplex"
)

// C02 with frames FAR ahead of their turn: n frames of one stream (each delivered once) arrive in the order 1, 2, …, n-1, 0 (and
// n-1, …, 1, 0): tens of thousands of frames are parked before the missing one arrives; the reader must then get all payloads in
// sequence order. (Round-7 seed C02-6 - a plausibility window refusing a frame more than 65535 ahead of nextRecvSeq - was missed:
// the exhaustive orders stop at 8 frames, the random permutations at 2000.) Monitor only: the Lean store is a sorted list and
// would need n²/2 steps for these orders; the array heap these frames really go through is C02Heap's subject.

func init() { scenarios["C02far"] = c02far }

func c02far(c *ctx) {
	ns := []int{70000}
	if c.thorough() {
		ns = append(ns, 140000, 300000)
	}
	for k, n := range ns {
		for _, desc := range []bool{false, true} {
			c02farCase(c, k, n, desc)
		}
	}
}

func c02farCase(c *ctx, k, n int, desc bool) {
	base := uint64(c.r.intn(1000))
	sb := mux.VerifNewSB(base)
	tag := fmt.Sprintf("far ahead #%d n=%d descending=%v base=%d", k, n, desc, base)
	pay := func(i int) []byte { return []byte{byte(i), byte(i >> 8), byte(i >> 16)} }
	refused := -1
	deliver := func(i int) {
		if res := sb.Write(base+uint64(i), 0, pay(i)); res != "ok" && refused < 0 {
			refused = i
		}
	}
	if desc {
		for i := n - 1; i >= 1; i-- {
			deliver(i)
		}
	} else {
		for i := 1; i < n; i++ {
			deliver(i)
		}
	}
	deliver(0)
	bad := ""
	next := 0
	var b []byte
	for next < n {
		st, more := sb.Read(1 << 16)
		if st != "data" {
			bad = fmt.Sprintf("the reader gets %q after %d of %d frames", st, next, n)
			break
		}
		b = append(b, more...) // a payload may straddle two reads
		for len(b) >= 3 && bad == "" {
			if int(b[0])|int(b[1])<<8|int(b[2])<<16 != next&0xffffff {
				bad = fmt.Sprintf("payload of frame %d expected, got %x", next, b[:3])
			}
			b = b[3:]
			next++
		}
		if bad != "" {
			break
		}
	}
	if bad != "" || refused >= 0 {
		c.o.V("C02 reassembly far-ahead-frames: frames delivered once each, in an order that parks tens of thousands of them, do not come out whole and in sequence",
			map[string]any{"tag": tag, "what": bad, "first_frame_not_accepted": refused,
				"replay": fmt.Sprintf("one streamBuffer, nextRecvSeq=%d; frames %d+1 … %d+%d arrive (descending=%v), then frame %d+0; read to the end", base, base, base, n-1, desc, base)})
	}
	c.o.stat("far_frames", n)
	c.o.case_(tag, true)
}
