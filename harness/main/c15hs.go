//go:build verif

package main

// C15, handshake part: N simultaneous REAL handshakes (client.DirectTLS.Handshake against the real dispatchConnection
// over in-memory connections) for one or several (uid, session id) pairs, plus connections of an exhausted user.
// Observed: the session key each client decrypts from the server's reply; which handshakes are answered vs redirected.

import (
	"crypto/rand"
	"errors"
	"fmt"
	"net"
	"sort"
	"sync"
	"sync/atomic"
	"time"

	"github.com/cbeuw/Cloak/internal/client"
	"github.com/cbeuw/Cloak/internal/common"
	"github.com/cbeuw/Cloak/internal/ecdh"
	mux "github.com/cbeuw/Cloak/internal/multiplex"
	"github.com/cbeuw/Cloak/internal/server"
)

type closingDialer struct{}

// the redirect target: takes the first packet, answers a few bytes and hangs up (so the relayed peer sees the end)
func (closingDialer) Dial(network, address string) (net.Conn, error) {
	a, b := net.Pipe()
	go func() {
		buf := make([]byte, 8192)
		b.Read(buf)
		b.Write([]byte("HTTP/1.1 400 Bad Request\r\n\r\n"))
		b.Close()
	}()
	return a, nil
}

type failingDialer struct{}

func (failingDialer) Dial(network, address string) (net.Conn, error) {
	return nil, errors.New("no proxy in the harness")
}

func c15handshakes(c *ctx, idx int) {
	o, r := c.o, c.r
	now := int64(1000)
	rig := newPanelRig(now)
	defer rig.close()
	world := common.WorldState{Rand: rand.Reader, Now: func() time.Time { return time.Unix(atomic.LoadInt64(rig.now), 0) }}
	pv, pub, err := ecdh.GenerateKey(rand.Reader)
	if err != nil {
		o.N("handshake part: key generation failed")
		return
	}
	sta := server.VerifC15State(rig.panel, pv, world, closingDialer{}, failingDialer{}, "test")
	o.T("sess.new", "ok")
	put := func(uid int, cap int32, up, down, exp int64) {
		rig.putUser(uid, cap, up, down, exp)
		o.T(fmt.Sprintf("sess.put uid=%d cap=%d upc=%d downc=%d exp=%d", uid, cap, up, down, exp), "ok")
	}
	put(1, 20, 5000, 5000, now+1000)
	put(2, 20, 5000, 5000, now+1000)
	put(3, 20, 5000, 0, now+1000) // exhausted: must be redirected, never attached
	type hs struct {
		uid int
		sid uint32
		key [32]byte
		err error
	}
	type pairKey struct {
		uid int
		sid uint32
	}
	open := map[pairKey]bool{}
	var clientEnds []net.Conn
	var ceM sync.Mutex
	waves := 2 + r.intn(2)
	for w := 0; w < waves; w++ {
		N := 2 + r.intn(15)
		var reqs []*hs
		single := r.intn(2) == 0
		bu, bs := 1+r.intn(2), uint32(1+r.intn(3))
		for i := 0; i < N; i++ {
			q := &hs{uid: bu, sid: bs}
			if !single {
				q.uid, q.sid = 1+r.intn(2), uint32(1+r.intn(3))
			}
			if r.intn(8) == 0 {
				q.uid = 3
			}
			reqs = append(reqs, q)
		}
		o.N(fmt.Sprintf("handshake script %d wave %d: %d simultaneous handshakes", idx, w, N))
		o.flush()
		var wg sync.WaitGroup
		start := make(chan struct{})
		for _, q := range reqs {
			wg.Add(1)
			go func(q *hs) {
				defer wg.Done()
				a, b := net.Pipe()
				ceM.Lock()
				clientEnds = append(clientEnds, a)
				ceM.Unlock()
				go server.VerifC15Dispatch(b, sta)
				ai := client.AuthInfo{UID: uidBytes(q.uid), SessionId: q.sid, ProxyMethod: "test", EncryptionMethod: mux.EncryptionMethodPlain,
					ServerPubKey: pub, MockDomain: "www.example.com", WorldState: world}
				<-start
				a.SetDeadline(time.Now().Add(20 * time.Second)) // guard only; an expired guard gives no verdict
				q.key, q.err = (&client.DirectTLS{}).Handshake(a, ai)
			}(q)
		}
		close(start)
		wg.Wait()
		// linearise: lookups, then per pair one creation (if the pair was not open yet) and joins
		uidsSeen := map[int]bool{}
		var order []*hs
		order = append(order, reqs...)
		sort.SliceStable(order, func(i, j int) bool { return order[i].uid < order[j].uid })
		for _, q := range order {
			op := fmt.Sprintf("sess.getUser uid=%d bypass=0 now=%d", q.uid, now)
			if q.uid == 3 {
				out := "err=ErrNoDownCredit"
				if q.err == nil {
					out = "admitted"
					o.V("C15 exhausted or expired user started a session", map[string]any{"handshake_script": idx, "wave": w, "uid": 3, "down_credit": 0})
				}
				o.T(op, out)
				continue
			}
			rec := rig.panel.ActiveRecord(uidBytes(q.uid))
			if rec == nil {
				o.T(op, "norecord")
				continue
			}
			id, fresh := rig.idOf(rec)
			f := 0
			if fresh && !uidsSeen[q.uid] {
				f = 1
			}
			uidsSeen[q.uid] = true
			o.T(op, fmt.Sprintf("rec=%d fresh=%d", id, f))
		}
		byPair := map[pairKey][]*hs{}
		var pairs []pairKey
		for _, q := range reqs {
			if q.uid == 3 {
				continue
			}
			pk := pairKey{q.uid, q.sid}
			if _, ok := byPair[pk]; !ok {
				pairs = append(pairs, pk)
			}
			byPair[pk] = append(byPair[pk], q)
		}
		sort.Slice(pairs, func(i, j int) bool {
			return pairs[i].uid < pairs[j].uid || (pairs[i].uid == pairs[j].uid && pairs[i].sid < pairs[j].sid)
		})
		for _, pk := range pairs {
			rec := rig.panel.ActiveRecord(uidBytes(pk.uid))
			if rec == nil {
				continue
			}
			id, _ := rig.idOf(rec)
			qs := byPair[pk]
			var srvKey [32]byte
			if s := server.VerifSessions(rec)[pk.sid]; s != nil {
				srvKey = s.GetSessionKey()
			}
			for i, q := range qs {
				if q.err != nil {
					o.T(fmt.Sprintf("sess.getSession rec=%d sid=%d key=0 now=%d", id, pk.sid, now), "handshake-failed:"+errName(q.err))
					continue
				}
				if i == 0 && !open[pk] {
					o.T(fmt.Sprintf("sess.getSession rec=%d sid=%d key=%d now=%d", id, pk.sid, keyNum(srvKey), now), fmt.Sprintf("created key=%d", keyNum(q.key)))
				} else {
					o.T(fmt.Sprintf("sess.getSession rec=%d sid=%d key=0 now=%d", id, pk.sid, now), fmt.Sprintf("joined key=%d", keyNum(q.key)))
				}
				if q.key != qs[0].key || q.key != srvKey {
					o.V("C15 same (uid, session id) attached to different sessions or given different keys", map[string]any{
						"handshake_script": idx, "wave": w, "uid": pk.uid, "sid": pk.sid, "simultaneous_handshakes": len(qs),
						"key_of_first": keyNum(qs[0].key), "key_of_this": keyNum(q.key), "server_session_key": keyNum(srvKey)})
				}
			}
			open[pk] = true
		}
		o.T("sess.state", rig.stateLine())
		o.stat("handshakes", N)
		caseC(o, fmt.Sprintf("hs%d-w%d-N%d-p%d", idx, w, N, len(pairs)), N >= 2)
		if w == 0 && idx == 0 {
			o.sample(fmt.Sprintf("handshake script 0 wave 0: %d simultaneous real handshakes over %d pairs; %s", N, len(pairs), rig.stateLine()))
		}
	}
	for _, a := range clientEnds { // hang up first: a session's closing notice must not wait for a reader
		a.Close()
	}
	for _, rec := range rig.recs {
		for _, s := range server.VerifSessions(rec) {
			s.Close()
		}
	}
}
