//go:build verif

// Command verifharness runs the real Cloak code in-process on generated operation sequences and
// prints one canonical line per operation (see /verif/DESIGN.md, T2). It is compiled INTO the Cloak
// module with `go build -tags verif -overlay`, so /repo is never modified.
package main

import (
	"flag"
	"fmt"
	"io"
	"os"
	"runtime/debug"
	"strconv"

	log "github.com/sirupsen/logrus"
)

type ctx struct {
	tier   string
	seed   uint64
	r      *rng
	o      *outw
	replay string
	args   []string
}

func (c *ctx) thorough() bool { return c.tier == "thorough" }

var scenarios = map[string]func(*ctx){}

func main() {
	log.SetOutput(io.Discard)
	tier := flag.String("tier", "quick", "quick|thorough")
	seed := flag.Uint64("seed", 1, "seed")
	out := flag.String("out", "", "output file")
	replay := flag.String("replay", "", "replay file (ops)")
	flag.Parse()
	if flag.NArg() < 1 {
		fmt.Fprintln(os.Stderr, "usage: verifharness [flags] <scenario> [args]")
		os.Exit(2)
	}
	if s := os.Getenv("VERIF_SEED"); s != "" && *seed == 1 {
		if v, err := strconv.ParseUint(s, 10, 64); err == nil {
			*seed = v
		}
	}
	f, ok := scenarios[flag.Arg(0)]
	if !ok {
		fmt.Fprintln(os.Stderr, "unknown scenario", flag.Arg(0))
		os.Exit(2)
	}
	c := &ctx{tier: *tier, seed: *seed, r: &rng{*seed*0x2545F4914F6CDD1D + 0x1234567}, o: newOut(*out), replay: *replay, args: flag.Args()[1:]}
	defer func() {
		if r := recover(); r != nil {
			// keep what was observed so far (monitor hits included), then report the crash to the orchestrator
			c.o.N(fmt.Sprintf("harness panic: %v", r))
			c.o.close()
			fmt.Fprintf(os.Stderr, "harness panic: %v\n%s\n", r, debug.Stack())
			os.Exit(3)
		}
	}()
	f(c)
	c.o.close()
}
