//go:build verif

// Command verifharness runs the real Cloak code in-process on generated operation sequences and
// prints one canonical line per operation (see /verif/DESIGN.md, T2). It is compiled INTO the Cloak
// module with `go build -tags verif -overlay`, so /repo is never modified.
package main

import (
	"flag"
	"fmt"
	"io"
	"os"
	"regexp"
	"runtime"
	"runtime/debug"
	"sort"
	"strconv"
	"strings"
	"time"

	log "github.com/sirupsen/logrus"
)

type ctx struct {
	tier   string
	seed   uint64
	r      *rng
	o      *outw
	replay string
	args   []string
}

func (c *ctx) thorough() bool { return c.tier == "thorough" }

var scenarios = map[string]func(*ctx){}

func main() {
	log.SetOutput(io.Discard)
	tier := flag.String("tier", "quick", "quick|thorough")
	seed := flag.Uint64("seed", 1, "seed")
	out := flag.String("out", "", "output file")
	replay := flag.String("replay", "", "replay file (ops)")
	flag.Parse()
	if flag.NArg() < 1 {
		fmt.Fprintln(os.Stderr, "usage: verifharness [flags] <scenario> [args]")
		os.Exit(2)
	}
	if s := os.Getenv("VERIF_SEED"); s != "" && *seed == 1 {
		if v, err := strconv.ParseUint(s, 10, 64); err == nil {
			*seed = v
		}
	}
	f, ok := scenarios[flag.Arg(0)]
	if !ok {
		fmt.Fprintln(os.Stderr, "unknown scenario", flag.Arg(0))
		os.Exit(2)
	}
	c := &ctx{tier: *tier, seed: *seed, r: &rng{*seed*0x2545F4914F6CDD1D + 0x1234567}, o: newOut(*out), replay: *replay, args: flag.Args()[1:]}
	go hangWatchdog(c, flag.Arg(0))
	defer func() {
		if r := recover(); r != nil {
			// keep what was observed so far (monitor hits included), then report the crash to the orchestrator
			c.o.N(fmt.Sprintf("harness panic: %v", r))
			c.o.close()
			fmt.Fprintf(os.Stderr, "harness panic: %v\n%s\n", r, debug.Stack())
			os.Exit(3)
		}
	}()
	f(c)
	c.o.close()
}

// hangWatchdog gives a verdict when a scenario stops making progress because goroutines of the code under test
// are wedged on each other's mutexes (testing/synctest does not treat a mutex wait as durably blocked, so such a
// deadlock shows up as a silent hang). Evidence standard as in C17: no trace/monitor row for 45 s, then two
// whole-process goroutine dumps 5 s apart in which the SAME goroutines sit in sync lock-acquire frames under a
// Cloak function. Anything else that hangs for 15 minutes ends the run without a verdict (exit 3).
func hangWatchdog(c *ctx, scenario string) {
	sleepers := 0
	lockWaiters := func() map[string]string {
		buf := make([]byte, 64<<20)
		buf = buf[:runtime.Stack(buf, true)]
		out := map[string]string{}
		sleepers = strings.Count(string(buf), "\ntime.Sleep(")
		re := regexp.MustCompile(`^goroutine (\d+) \[`)
		for _, g := range strings.Split(string(buf), "\n\n") {
			m := re.FindStringSubmatch(g)
			if m == nil {
				continue
			}
			iLock := -1
			for _, lf := range []string{"sync.(*Mutex).Lock(", "sync.(*RWMutex).RLock(", "sync.(*RWMutex).Lock("} {
				if i := strings.Index(g, lf); i >= 0 && (iLock < 0 || i < iLock) {
					iLock = i
				}
			}
			iCloak := strings.Index(g, "github.com/cbeuw/Cloak/internal/")
			if iLock < 0 || iCloak < 0 || iLock > iCloak {
				continue
			}
			var fs []string
			for _, ln := range strings.Split(g, "\n") {
				if strings.HasPrefix(ln, "sync.(") || strings.HasPrefix(ln, "github.com/cbeuw/Cloak/internal/") {
					if k := strings.LastIndex(ln, "("); k > 0 {
						ln = ln[:k]
					}
					fs = append(fs, strings.TrimPrefix(ln, "github.com/cbeuw/Cloak/internal/"))
					if len(fs) >= 6 {
						break
					}
				}
			}
			out[m[1]] = strings.Join(fs, " <- ")
		}
		return out
	}
	last, lastChange := -1, time.Now()
	for {
		time.Sleep(5 * time.Second)
		p := c.o.progress()
		if os.Getenv("VERIF_WATCHDOG_DEBUG") != "" {
			fmt.Fprintf(os.Stderr, "watchdog: progress=%d last=%d since=%v\n", p, last, time.Since(lastChange))
		}
		if p != last {
			last, lastChange = p, time.Now()
			continue
		}
		if time.Since(lastChange) < 30*time.Second {
			continue
		}
		w1 := lockWaiters()
		if os.Getenv("VERIF_WATCHDOG_DEBUG") != "" {
			fmt.Fprintf(os.Stderr, "watchdog: waiters=%v sleepers=%d\n", w1, sleepers)
		}
		if len(w1) >= 1 {
			time.Sleep(5 * time.Second)
			w2 := lockWaiters()
			time.Sleep(5 * time.Second)
			w3 := lockWaiters()
			var same []string
			for id, fr := range w1 {
				if w2[id] == fr && w3[id] == fr {
					same = append(same, "goroutine "+id+": "+fr)
				}
			}
			// one goroutine alone counts only if nobody is asleep on the (possibly virtual) clock: inside a synctest bubble
			// a sleeper holding the lock could not be woken while somebody waits on that lock
			if (len(same) >= 2 || (len(same) == 1 && sleepers <= 1)) && c.o.progress() == last {
				sort.Strings(same)
				prop := scenario
				if len(prop) > 3 {
					prop = prop[:3]
				}
				c.o.V(prop+" deadlock: goroutines of the code under test wedged in lock acquisitions", map[string]any{"scenario": scenario,
					"no_progress_for_s": int(time.Since(lastChange).Seconds()), "same_goroutines_in_three_dumps_over_10s": same})
				c.o.close()
				os.Exit(3)
			}
		}
		if time.Since(lastChange) > 15*time.Minute {
			c.o.N("watchdog: no progress for 15 minutes without the recognised deadlock pattern — no verdict")
			c.o.close()
			os.Exit(3)
		}
	}
}
