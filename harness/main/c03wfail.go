//go:build verif

package main

import (
	"fmt"
	"testing/synctest"
	"time"

	mux "github.com/cbeuw/Cloak/internal/multiplex"
)

// C03 "once a side has closed the stream … its blocked reads return", when the closing notice cannot be sent: the
// connections have just died for writing (the receive loops have not noticed yet), a goroutine is parked in Read on the
// stream, and the application calls Close.  The Read must return whether or not the notice went out.
func c03closeSendFails(c *ctx, k int) {
	r := c.r
	method := byte(r.intn(4))
	nconn := 1 + r.intn(3)
	opener := k%2 == 0 // the stream was opened here / was accepted here
	tag := fmt.Sprintf("close with failing send #%d method=%d conns=%d opener=%v", k, method, nconn, opener)
	synctest.Run(func() {
		var key [32]byte
		copy(key[:], r.bytes(32))
		rg := newSeshPair(method, key, nconn, false, false, time.Hour)
		st, err := rg.S[0].sesh.OpenStream()
		if err != nil {
			return
		}
		st.Write([]byte("hello"))
		synctest.Wait()
		for kk := 0; kk < nconn; kk++ {
			for {
				if _, ok := rg.deliver(0, kk); !ok {
					break
				}
			}
		}
		synctest.Wait()
		target, side := st, 0
		if !opener {
			bst := mux.VerifTryAccept(rg.S[1].sesh)
			if bst == nil {
				return
			}
			buf := make([]byte, 16)
			bst.Read(buf) // take "hello": the next Read parks
			target, side = bst, 1
		}
		readDone := make(chan error, 1)
		go func() {
			buf := make([]byte, 16)
			_, err := target.Read(buf)
			readDone <- err
		}()
		synctest.Wait()
		for _, cn := range rg.S[side].conns { // writes fail from now on; reads still pend
			cn.mu.Lock()
			cn.wfail = true
			cn.mu.Unlock()
		}
		closeDone := make(chan struct{})
		go func() { target.Close(); close(closeDone) }()
		synctest.Wait()
		select {
		case <-closeDone:
		default:
			c.o.V("C03 close-did-not-return", map[string]any{"tag": tag})
		}
		select {
		case <-readDone:
		default:
			c.o.V("C03 blocked-read-not-released-by-local-close", map[string]any{"tag": tag, "what": "Stream.Close returned (its closing notice could not be sent: the connection writes fail) and the Read parked on the same stream is still parked",
				"replay": "session pair; stream with a reader parked in Read; all connection writes of that side start failing; Stream.Close()"})
		}
		rg.S[0].sesh.Close()
		rg.S[1].sesh.Close()
		for s := 0; s < 2; s++ {
			for _, cn := range rg.S[s].conns {
				cn.kill()
			}
		}
		synctest.Wait()
	})
	c.o.case_(tag, true)
}
