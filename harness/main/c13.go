//go:build verif

package main

// C13 — each stream's frames carry unique, gap-free sequence numbers in write order.
//
// A real mux.Session on tapped connections (rig_pair.go). Goroutines call Stream.Write / ReadFrom / Close
// concurrently on the same and on different streams; the tap decodes every message with the real deobfuscate.
// Impl-side monitor = the property statement on the tap. For the model: goroutine scheduling cannot be
// predicted, so the harness reconstructs the order of the critical sections from the numbers on the tap and
// replays that schedule on the Lean interleaving model (ops seq.*), which must assign the same numbers.

import (
	"bytes"
	"fmt"
	"io"
	"runtime"
	"sort"
	"strings"
	"sync"
	"sync/atomic"

	mux "github.com/cbeuw/Cloak/internal/multiplex"
)

func init() { scenarios["C13"] = c13 }

type c13Call struct {
	stream int
	kind   byte // 'w' Write, 'r' ReadFrom, 'c' Close
	tag    byte // 'w': tag of its data
	data   []byte
	chunks [][]byte // 'r': what the reader hands out, one chunk per Read (an empty chunk = (0, nil))
	tags   []byte   // 'r': tag per chunk
	after  []int    // indices of calls that must have returned before this one is made
	// results
	n          int64
	err        error
	start, end int64 // stamps of a global event counter: call made / call returned
	handed     int32 // 'r': chunks handed out by the reader
	done       chan struct{}
}

// data of a tagged unit: even offsets carry the tag, odd offsets the position (so frames of one Write cannot be
// exchanged unnoticed); a frame boundary (maxStreamUnitWrite is even) always starts with the tag.
func tagged(tag byte, n int) []byte {
	b := make([]byte, n)
	for j := range b {
		if j%2 == 0 {
			b[j] = tag
		} else {
			b[j] = byte(j/2) ^ byte(j>>9)
		}
	}
	return b
}

type c13Reader struct {
	call   *c13Call
	i      int
	yields int
}

func (r *c13Reader) Read(p []byte) (int, error) {
	for k := 0; k < r.yields; k++ {
		runtime.Gosched()
	}
	if r.i >= len(r.call.chunks) {
		return 0, io.EOF
	}
	c := r.call.chunks[r.i]
	r.i++
	atomic.AddInt32(&r.call.handed, 1)
	return copy(p, c), nil
}

type c13Script struct {
	name      string
	method    byte
	nConns    int
	nStreams  int
	calls     []*c13Call
	failIdx   int   // capture index of the Write to fail (-1: none)
	yields    []int // Gosched counts inside conn.Write, by capture index
	sessClose bool  // close the session (actively) after the calls: emits the session-closing notice
}

var c13Methods = []byte{mux.EncryptionMethodPlain, mux.EncryptionMethodAES256GCM, mux.EncryptionMethodChaha20Poly1305, mux.EncryptionMethodAES128GCM}

const c13EmptyPayloadErr = "payload cannot be empty"

// runs the script on real code, evaluates the monitor, emits the model trace
func c13run(c *ctx, sc *c13Script) {
	o := c.o
	var key [32]byte
	copy(key[:], c.r.bytes(32))
	ep := newEndpoint("A", sc.method, key, sc.nConns, nil)
	ep.tap.failIf = func(r *tapRec) bool { return r.idx == sc.failIdx }
	if len(sc.yields) > 0 {
		ep.tap.stir = func(r *tapRec) {
			for k := 0; k < sc.yields[r.idx%len(sc.yields)]; k++ {
				runtime.Gosched()
			}
		}
	}
	streams := make([]*mux.Stream, sc.nStreams)
	for i := range streams {
		st, err := ep.sesh.OpenStream()
		if err != nil {
			panic(err)
		}
		streams[i] = st
	}
	var clock int64
	var wg sync.WaitGroup
	for _, cl := range sc.calls {
		cl.done = make(chan struct{})
	}
	for i, cl := range sc.calls {
		wg.Add(1)
		go func(i int, cl *c13Call) {
			defer wg.Done()
			defer close(cl.done)
			for _, a := range cl.after {
				<-sc.calls[a].done
			}
			st := streams[cl.stream]
			cl.start = atomic.AddInt64(&clock, 1)
			switch cl.kind {
			case 'w':
				n, err := st.Write(cl.data)
				cl.n, cl.err = int64(n), err
			case 'r':
				cl.n, cl.err = st.ReadFrom(&c13Reader{call: cl, yields: i % 3})
			case 'c':
				cl.err = st.Close()
			}
			cl.end = atomic.AddInt64(&clock, 1)
		}(i, cl)
	}
	wg.Wait()
	type final struct {
		seq    uint64
		closed bool
	}
	fin := make([]final, sc.nStreams)
	for i, st := range streams {
		fin[i] = final{mux.VerifStreamSeq(st), mux.VerifStreamClosed(st)}
	}
	if sc.sessClose {
		ep.sesh.Close()
	}
	recs := ep.tap.snapshot()
	ep.shutdown()

	detail := func(extra map[string]any) map[string]any {
		d := map[string]any{"script": sc.name, "seed": c.seed, "method": sc.method, "conns": sc.nConns, "streams": sc.nStreams, "failIdx": sc.failIdx}
		var cs []string
		for i, cl := range sc.calls {
			cs = append(cs, fmt.Sprintf("#%d s%d %c len=%d chunks=%d after=%v -> n=%d err=%s [%d,%d]", i, cl.stream, cl.kind, len(cl.data), len(cl.chunks), cl.after, cl.n, mux.VerifErrName(cl.err), cl.start, cl.end))
		}
		d["calls"] = cs
		var ts []string
		for _, r := range recs {
			if r.decErr != nil {
				ts = append(ts, fmt.Sprintf("%d:undecodable", r.idx))
				continue
			}
			tg := -1
			if len(r.f.Payload) > 0 {
				tg = int(r.f.Payload[0])
			}
			ts = append(ts, fmt.Sprintf("%d:conn%d sid=%d seq=%d cl=%d len=%d tag=%d failed=%v", r.idx, r.conn, r.f.StreamID, r.f.Seq, r.f.Closing, len(r.f.Payload), tg, r.failed))
		}
		if len(ts) > 60 {
			ts = append(ts[:60], fmt.Sprintf("… %d more", len(ts)-60))
		}
		d["tap"] = ts
		for k, v := range extra {
			d[k] = v
		}
		return d
	}

	// ---------- monitor: the property on the tap ----------
	// (5) no two messages of this endpoint share (stream id, seq)
	pairs := map[[2]uint64]int{}
	for _, r := range recs {
		if r.decErr != nil {
			o.V("C13 undecodable message on the tap", detail(map[string]any{"idx": r.idx}))
			continue
		}
		k := [2]uint64{uint64(r.f.StreamID), r.f.Seq}
		pairs[k]++
		if pairs[k] == 2 {
			o.V("C13 duplicate (stream id, seq) pair", detail(map[string]any{"stream_id": r.f.StreamID, "seq": r.f.Seq}))
		}
	}
	for si, st := range streams {
		sid := mux.VerifStreamID(st)
		var fr []*tapRec
		for _, r := range recs {
			if r.decErr == nil && r.f.StreamID == sid {
				fr = append(fr, r)
			}
		}
		sort.SliceStable(fr, func(i, j int) bool { return fr[i].f.Seq < fr[j].f.Seq })
		// numbers consumed without a tap record: an encode that failed (empty payload)
		var encErrCalls []*c13Call
		for _, cl := range sc.calls {
			if cl.stream == si && cl.kind == 'r' && cl.err != nil && strings.Contains(cl.err.Error(), c13EmptyPayloadErr) {
				encErrCalls = append(encErrCalls, cl)
			}
		}
		N := fin[si].seq
		seen := map[uint64]bool{}
		for _, r := range fr {
			seen[r.f.Seq] = true
		}
		var missing []uint64
		for q := uint64(0); q < N; q++ {
			if !seen[q] {
				missing = append(missing, q)
			}
		}
		// the property: each number at most once (checked above), no gap except numbers consumed by a failed
		// encode ("a number may be skipped but never reused"). Whether a failed encode consumes its number is the
		// model's prediction and is compared in the trace rows, not here.
		// (a frame numbered at or beyond the stream's internal counter is not a violation by itself: the statement is
		// about the numbers on the wire — reuse is checked above, gaps here)
		for _, r := range fr {
			for q := N; q < r.f.Seq; q++ {
				if !seen[q] {
					missing = append(missing, q)
				}
			}
		}
		bad := len(missing) > len(encErrCalls)
		if bad {
			o.V("C13 gap or overrun in the sequence numbers", detail(map[string]any{"stream": si, "final_seq": N, "missing": missing, "failed_encodes": len(encErrCalls)}))
		}
		// (3) data in number order = whole accepted units, each contiguous and in its own order
		units := map[byte][]byte{}
		for _, cl := range sc.calls {
			if cl.stream != si {
				continue
			}
			if cl.kind == 'w' {
				units[cl.tag] = cl.data
			}
			for j, tg := range cl.tags {
				units[tg] = cl.chunks[j]
			}
		}
		got := map[byte][]byte{}
		okBytes := map[byte]int64{}
		closedTag := map[byte]bool{} // a unit is over once another unit's frame followed it
		tagOf := map[*tapRec]byte{}
		var last byte
		var closing []*tapRec
		for _, r := range fr {
			// writingFrame.Closing is a shared field that Close sets and nothing resets: the first flagged frame (in
			// number order) is the Close's own; a ReadFrom chunk encoded after it carries the flag as well
			if r.f.Closing != mux.VerifClosingNothing && len(closing) == 0 {
				closing = append(closing, r)
				last = 0
				continue
			}
			p := r.f.Payload
			if len(p) == 0 {
				o.V("C13 empty data frame", detail(map[string]any{"stream": si, "seq": r.f.Seq}))
				continue
			}
			// which unit continues here? the frame must be exactly the next bytes of a unit. An unfinished unit can
			// only be continued (a Write holds the mutex for all its frames); otherwise a new unit starts, and its
			// first byte is its tag.
			var tg byte
			fits := func(cand byte) bool {
				u, ok := units[cand]
				cur := len(got[cand])
				return ok && cand != 0 && cur+len(p) <= len(u) && bytes.Equal(p, u[cur:cur+len(p)])
			}
			if last != 0 && len(got[last]) < len(units[last]) && fits(last) {
				tg = last
			} else if len(got[p[0]]) == 0 && fits(p[0]) {
				tg = p[0]
			}
			if tg == 0 {
				o.V("C13 data frames do not carry the written bytes in order", detail(map[string]any{"stream": si, "seq": r.f.Seq, "len": len(p), "first_bytes": hx(p[:min(4, len(p))])}))
				bad = true
				continue
			}
			tagOf[r] = tg
			if last != 0 && last != tg {
				closedTag[last] = true
			}
			if closedTag[tg] {
				o.V("C13 frames of one write are not contiguous", detail(map[string]any{"stream": si, "tag": tg, "seq": r.f.Seq}))
				bad = true
			}
			got[tg] = append(got[tg], p...)
			if !r.failed {
				okBytes[tg] += int64(len(p))
			}
			last = tg
		}
		for _, cl := range sc.calls {
			if cl.stream != si {
				continue
			}
			switch cl.kind {
			case 'w':
				if okBytes[cl.tag] != cl.n || (cl.err == nil && cl.n != int64(len(cl.data))) {
					o.V("C13 bytes reported written differ from bytes sent", detail(map[string]any{"stream": si, "tag": cl.tag, "n": cl.n, "on_wire": okBytes[cl.tag]}))
				}
			case 'r':
				var s int64
				for _, tg := range cl.tags {
					s += okBytes[tg]
				}
				if s != cl.n {
					o.V("C13 bytes reported written differ from bytes sent", detail(map[string]any{"stream": si, "readfrom": true, "n": cl.n, "on_wire": s}))
				}
			}
		}
		// (4) the closing frame: at most one, present iff a Close got past its CAS; numbered above every frame of
		// the calls that had returned before that Close was made
		var winner *c13Call
		nWin := 0
		for _, cl := range sc.calls {
			if cl.stream == si && cl.kind == 'c' && mux.VerifErrName(cl.err) != "errRepeatStreamClosing" {
				winner = cl
				nWin++
			}
		}
		if len(closing) > 1 || nWin > 1 || (nWin == 1) != (len(closing) == 1) {
			o.V("C13 closing frame count", detail(map[string]any{"stream": si, "closing_frames": len(closing), "closes_past_cas": nWin}))
		} else if winner != nil {
			cq := closing[0].f.Seq
			for _, cl := range sc.calls {
				if cl.stream != si || cl.kind == 'c' || cl.end >= winner.start {
					continue
				}
				tgs := append([]byte{}, cl.tags...)
				if cl.kind == 'w' {
					tgs = append(tgs, cl.tag)
				}
				for _, r := range fr {
					if tg, ok := tagOf[r]; ok && bytes.IndexByte(tgs, tg) >= 0 && r.f.Seq >= cq {
						o.V("C13 closing frame numbered below a frame of a completed write", detail(map[string]any{"stream": si, "closing_seq": cq, "frame_seq": r.f.Seq}))
					}
				}
			}
		}
		o.stat("frames", len(fr))
		if len(missing) > 0 {
			o.stat("skipped_numbers", len(missing))
		}
		if bad {
			continue // no model trace for a stream whose numbering is already broken
		}
		var closingRec *tapRec
		if len(closing) == 1 {
			closingRec = closing[0]
		}
		c13trace(c, sc, si, fr, tagOf, closingRec, missing, encErrCalls, winner, fin[si].seq, fin[si].closed)
	}
	o.case_(sc.name, len(sc.calls) > 1)
}

// c13trace replays the observed order of critical sections on the Lean model.
func c13trace(c *ctx, sc *c13Script, si int, fr []*tapRec, tagOf map[*tapRec]byte, closing *tapRec, missing []uint64, encErr []*c13Call, winner *c13Call, finSeq uint64, finClosed bool) {
	o := c.o
	type section struct {
		first    uint64
		call     *c13Call
		chunk    int // 'r': chunk index
		frames   []*tapRec
		inferred bool
	}
	byTag := map[byte][]*tapRec{}
	for _, r := range fr {
		if tg, ok := tagOf[r]; ok && r != closing {
			byTag[tg] = append(byTag[tg], r)
		}
	}
	var secs []*section
	var mine []*c13Call
	for _, cl := range sc.calls {
		if cl.stream != si {
			continue
		}
		mine = append(mine, cl)
		switch cl.kind {
		case 'w':
			if f := byTag[cl.tag]; len(f) > 0 {
				secs = append(secs, &section{first: f[0].f.Seq, call: cl, frames: f})
			}
		case 'r':
			for j, tg := range cl.tags {
				if f := byTag[tg]; len(f) > 0 {
					secs = append(secs, &section{first: f[0].f.Seq, call: cl, chunk: j, frames: f})
				}
			}
		case 'c':
			if cl == winner && closing != nil {
				secs = append(secs, &section{first: closing.f.Seq, call: cl, frames: []*tapRec{closing}})
			}
		}
	}
	// a failed encode consumed the missing number (scripts have at most one per stream)
	if len(encErr) == 1 && len(missing) <= 1 {
		if len(missing) == 0 {
			missing = []uint64{finSeq} // the implementation did not consume a number; the model row below will differ
		}
		cl := encErr[0]
		secs = append(secs, &section{first: missing[0], call: cl, chunk: int(cl.handed) - 1, inferred: true})
	} else if len(encErr) > 0 {
		o.N("C13: more than one failed encode on one stream; model trace skipped")
		return
	}
	sort.Slice(secs, func(i, j int) bool { return secs[i].first < secs[j].first })

	o.T("seq.new", "ok")
	tid := map[*c13Call]int{}
	next := 0
	outc := func(r *tapRec) byte {
		if r.failed {
			return 'c'
		}
		return 'o'
	}
	spawn := func(cl *c13Call) int {
		if t, ok := tid[cl]; ok {
			return t
		}
		var op string
		switch cl.kind {
		case 'w':
			var pls []string
			var outs []byte
			for _, r := range byTag[cl.tag] {
				pls = append(pls, fmt.Sprint(len(r.f.Payload)))
				outs = append(outs, outc(r))
			}
			op = fmt.Sprintf("seq.spawn kind=w pls=%s outs=%s", strings.Join(pls, ","), outs)
		case 'r':
			var pls []string
			var outs []byte
			for j := 0; j < int(cl.handed); j++ {
				pls = append(pls, fmt.Sprint(len(cl.chunks[j])))
				switch f := byTag[cl.tags[j]]; {
				case len(cl.chunks[j]) == 0:
					outs = append(outs, 'e')
				case len(f) > 0:
					outs = append(outs, outc(f[0]))
				default:
					outs = append(outs, 'o')
				}
			}
			op = fmt.Sprintf("seq.spawn kind=r pls=%s outs=%s", strings.Join(pls, ","), outs)
		case 'c':
			if cl == winner && closing != nil {
				op = fmt.Sprintf("seq.spawn kind=c pl=%d out=%c", len(closing.f.Payload), outc(closing))
			} else {
				op = "seq.spawn kind=c pl=0 out=o"
			}
		}
		o.T(op, fmt.Sprintf("t=%d", next))
		tid[cl] = next
		next++
		return next - 1
	}
	showRun := func(frames []*tapRec, inferredSeq int64, ret string, done bool) string {
		var enc, wire []string
		for _, r := range frames {
			cl := 0
			if r.f.Closing != mux.VerifClosingNothing {
				cl = 1
			}
			enc = append(enc, fmt.Sprintf("%d:%d:%d", r.f.Seq, cl, len(r.f.Payload)))
			if !r.failed {
				wire = append(wire, fmt.Sprint(r.f.Seq))
			}
		}
		if inferredSeq >= 0 {
			enc = append(enc, fmt.Sprintf("%d:0:0", inferredSeq))
		}
		d := 0
		if done {
			d = 1
		}
		return fmt.Sprintf("enc=[%s] wire=[%s] ret=%s done=%d", strings.Join(enc, ","), strings.Join(wire, ","), ret, d)
	}
	// accepted empty writes ran while the stream was open: put them first
	for _, cl := range mine {
		if cl.kind == 'w' && len(cl.data) == 0 && cl.err == nil {
			t := spawn(cl)
			o.T(fmt.Sprintf("seq.run t=%d", t), showRun(nil, -1, "ok", true))
		}
	}
	// the section at which the model's closed flag is set: the Close, or a failed send
	closeAt := -1
	for i, s := range secs {
		if s.call.kind == 'c' {
			closeAt = i
			break
		}
		failed := false
		for _, r := range s.frames {
			failed = failed || r.failed
		}
		if failed {
			closeAt = i
			break
		}
	}
	prechecked := map[*c13Call]int{} // ReadFrom call -> chunk whose closed-test already ran
	for i, s := range secs {
		if i == closeAt {
			// a ReadFrom chunk numbered above the closing event passed its closed-test before it (the test is
			// outside the mutex): let those threads take that one step now
			for _, s2 := range secs[i+1:] {
				if s2.call.kind == 'r' {
					if _, dup := prechecked[s2.call]; !dup {
						t := spawn(s2.call)
						o.T(fmt.Sprintf("seq.run t=%d n=1", t), showRun(nil, -1, "ok", false))
						prechecked[s2.call] = s2.chunk
						o.stat("readfrom_after_close", 1)
					}
				}
			}
		}
		t := spawn(s.call)
		switch s.call.kind {
		case 'w':
			ret := "ok"
			if s.call.err != nil {
				ret = "senderr"
			}
			o.T(fmt.Sprintf("seq.run t=%d", t), showRun(s.frames, -1, ret, true))
		case 'c':
			ret := "ok"
			if s.call.err != nil {
				ret = "senderr"
			}
			o.T(fmt.Sprintf("seq.run t=%d", t), showRun(s.frames, -1, ret, true))
		case 'r':
			n := 6
			if pc, ok := prechecked[s.call]; ok && pc == s.chunk {
				n = 5
			}
			ret, done := "ok", false
			inf := int64(-1)
			if s.inferred {
				ret, done, inf = "senderr", true, int64(s.first)
			} else if s.frames[0].failed {
				ret, done = "senderr", true
			} else if s.chunk == len(s.call.chunks)-1 && s.call.err == io.EOF {
				done = true
			}
			o.T(fmt.Sprintf("seq.run t=%d n=%d", t, n), showRun(s.frames, inf, ret, done))
		}
	}
	// calls that found the stream closed: they change nothing, so the end is a consistent place for them
	for _, cl := range mine {
		name := mux.VerifErrName(cl.err)
		switch {
		case cl.kind == 'w' && name == "ErrBrokenStream":
			t := spawn(cl)
			o.T(fmt.Sprintf("seq.run t=%d", t), showRun(nil, -1, "refused", true))
		case cl.kind == 'c' && name == "errRepeatStreamClosing":
			t := spawn(cl)
			o.T(fmt.Sprintf("seq.run t=%d", t), showRun(nil, -1, "refused", true))
		case cl.kind == 'r' && name == "ErrBrokenStream":
			t := spawn(cl)
			o.T(fmt.Sprintf("seq.run t=%d", t), showRun(nil, -1, "refused", true))
		case cl.kind == 'r' && cl.err == io.EOF && cl.handed == 0:
			t := spawn(cl)
			o.T(fmt.Sprintf("seq.run t=%d", t), showRun(nil, -1, "ok", true))
		}
	}
	nOK := 0
	for _, r := range fr {
		if !r.failed {
			nOK++
		}
	}
	cl := 0
	if finClosed {
		cl = 1
	}
	o.T("seq.state", fmt.Sprintf("seq=%d closed=%d enc=%d wire=%d lock=none", finSeq, cl, finSeq, nOK))
}

// ---------- generators ----------

var c13mtu int

type c13Gen struct {
	c   *ctx
	sc  *c13Script
	tag []byte // next tag per stream
	mtu int
}

func newC13Gen(c *ctx, name string, nStreams int) *c13Gen {
	r := c.r
	sc := &c13Script{name: name, method: c13Methods[r.intn(len(c13Methods))], nConns: 1 + r.intn(4), nStreams: nStreams, failIdx: -1}
	if r.intn(3) > 0 {
		sc.yields = make([]int, 64)
		for i := range sc.yields {
			if r.intn(3) == 0 {
				sc.yields[i] = 1 + r.intn(3)
			}
		}
	}
	g := &c13Gen{c: c, sc: sc, tag: make([]byte, nStreams), mtu: c13mtu}
	return g
}
func (g *c13Gen) nextTag(s int) byte { g.tag[s]++; return g.tag[s] }
func (g *c13Gen) size() int {
	r := g.c.r
	switch r.intn(8) {
	case 0:
		return 1
	case 1:
		return g.mtu - 1 + r.intn(3) // around one frame
	case 2:
		return 2*g.mtu - 1 + r.intn(3) // around two frames
	case 3:
		return g.mtu + 1 + r.intn(2*g.mtu) // several frames
	}
	return 1 + r.intn(300)
}
func (g *c13Gen) write(s, n int, after ...int) int {
	tg := g.nextTag(s)
	g.sc.calls = append(g.sc.calls, &c13Call{stream: s, kind: 'w', tag: tg, data: tagged(tg, n), after: after})
	return len(g.sc.calls) - 1
}
func (g *c13Gen) readFrom(s int, sizes []int, after ...int) int {
	cl := &c13Call{stream: s, kind: 'r', after: after}
	for _, n := range sizes {
		tg := g.nextTag(s)
		cl.tags = append(cl.tags, tg)
		cl.chunks = append(cl.chunks, tagged(tg, n))
	}
	g.sc.calls = append(g.sc.calls, cl)
	return len(g.sc.calls) - 1
}
func (g *c13Gen) close(s int, after ...int) int {
	g.sc.calls = append(g.sc.calls, &c13Call{stream: s, kind: 'c', after: after})
	return len(g.sc.calls) - 1
}
func (g *c13Gen) chunkSizes(k int) []int {
	r := g.c.r
	out := make([]int, k)
	for i := range out {
		switch r.intn(4) {
		case 0:
			out[i] = g.mtu
		case 1:
			out[i] = 1
		default:
			out[i] = 1 + r.intn(400)
		}
	}
	return out
}

func c13(c *ctx) {
	r := c.r
	{
		ep := newEndpoint("probe", mux.EncryptionMethodPlain, [32]byte{}, 1, nil)
		c13mtu = mux.VerifMaxUnit(ep.sesh)
		ep.shutdown()
	}
	mtu := c13mtu
	reps := func(q, t int) int {
		if c.thorough() {
			return t
		}
		return q
	}
	// (a) one goroutine at a time (every call waits for the previous one): sizes around the frame limit, every method
	for _, m := range c13Methods {
		g := newC13Gen(c, fmt.Sprintf("sequential m=%d", m), 1)
		g.sc.method = m
		prev := -1
		chain := func(i int) {
			if prev >= 0 {
				g.sc.calls[i].after = []int{prev}
			}
			prev = i
		}
		for _, n := range []int{1, 0, 2, mtu - 1, mtu, mtu + 1, 2 * mtu, 2*mtu + 7, 3*mtu + 1} {
			chain(g.write(0, n))
		}
		chain(g.readFrom(0, []int{1, mtu, 5}))
		chain(g.readFrom(0, nil))
		chain(g.write(0, 9))
		chain(g.close(0))
		chain(g.write(0, 3))
		chain(g.close(0))
		chain(g.readFrom(0, []int{4}))
		chain(g.write(0, 0))
		c13run(c, g.sc)
	}
	// (b) concurrent calls on ONE stream, free-running goroutines, seeded yields inside the critical sections
	for i := 0; i < reps(400, 6000); i++ {
		g := newC13Gen(c, fmt.Sprintf("one-stream #%d", i), 1)
		k := 2 + r.intn(7)
		var ws []int
		for j := 0; j < k; j++ {
			switch r.intn(5) {
			case 0:
				g.readFrom(0, g.chunkSizes(1+r.intn(4)))
			default:
				ws = append(ws, g.write(0, g.size()))
			}
		}
		switch r.intn(4) {
		case 0: // Close racing with everything
			g.close(0)
		case 1: // Close made only after some of the writes have returned
			var after []int
			for _, w := range ws {
				if r.intn(2) == 0 {
					after = append(after, w)
				}
			}
			g.close(0, after...)
			if r.intn(2) == 0 {
				g.close(0)
			}
		case 2: // Close, then writes that must be refused or numbered… nothing: they are refused
			cl := g.close(0, ws...)
			g.write(0, g.size(), cl)
			g.readFrom(0, g.chunkSizes(1), cl)
		}
		c13run(c, g.sc)
	}
	// (c) several streams at once + the session-closing notice: (stream id, seq) pairs of the endpoint
	for i := 0; i < reps(80, 1000); i++ {
		ns := 2 + r.intn(5)
		g := newC13Gen(c, fmt.Sprintf("multi-stream #%d", i), ns)
		g.sc.sessClose = r.intn(2) == 0
		for s := 0; s < ns; s++ {
			k := 1 + r.intn(4)
			var ws []int
			for j := 0; j < k; j++ {
				if r.intn(4) == 0 {
					g.readFrom(s, g.chunkSizes(1+r.intn(3)))
				} else {
					ws = append(ws, g.write(s, g.size()))
				}
			}
			if r.intn(2) == 0 {
				g.close(s, ws[:r.intn(len(ws)+1)]...)
			}
		}
		c13run(c, g.sc)
	}
	// (d) a send is made to fail (that tears the session down): concurrent writes (+ Close) on one stream;
	// the failing message is chosen by capture index
	for i := 0; i < reps(120, 1500); i++ {
		g := newC13Gen(c, fmt.Sprintf("send-failure #%d", i), 1)
		k := 2 + r.intn(5)
		frames := 0
		for j := 0; j < k; j++ {
			n := g.size()
			frames += (n + mtu - 1) / mtu
			g.write(0, n)
		}
		if r.intn(3) == 0 {
			g.close(0)
			frames++
		}
		g.sc.failIdx = r.intn(frames)
		c13run(c, g.sc)
	}
	// (d') the same for ReadFrom, one goroutine at a time
	for i := 0; i < reps(30, 300); i++ {
		g := newC13Gen(c, fmt.Sprintf("readfrom-send-failure #%d", i), 1)
		a := g.write(0, g.size())
		nch := 1 + r.intn(4)
		b := g.readFrom(0, g.chunkSizes(nch), a)
		d := g.write(0, 5, b)
		g.close(0, d)
		g.sc.failIdx = (len(g.sc.calls[a].data)+mtu-1)/mtu + r.intn(nch)
		c13run(c, g.sc)
	}
	// (e) an encode that fails (ReadFrom hands out an empty chunk): its number is consumed and skipped
	for i := 0; i < reps(80, 1000); i++ {
		g := newC13Gen(c, fmt.Sprintf("failed-encode #%d", i), 1)
		sizes := g.chunkSizes(1 + r.intn(3))
		sizes = append(sizes, 0)
		g.readFrom(0, sizes)
		for j := 0; j < 1+r.intn(4); j++ {
			g.write(0, g.size())
		}
		if r.intn(3) == 0 {
			g.close(0)
		}
		c13run(c, g.sc)
	}
	// (f) stress: a multi-frame Write loop against a ReadFrom with full-size chunks on the same stream —
	// the two encode paths hammer writingFrame.Seq (this is where a send outside the mutex shows)
	for i := 0; i < reps(10, 100); i++ {
		g := newC13Gen(c, fmt.Sprintf("stress #%d", i), 1)
		g.sc.nConns = 2
		nf := reps(12, 40)
		sizes := make([]int, nf)
		for j := range sizes {
			sizes[j] = mtu
		}
		g.readFrom(0, sizes)
		for j := 0; j < 4; j++ {
			g.write(0, (nf/4)*mtu)
		}
		if i%2 == 0 {
			g.readFrom(0, sizes[:nf/2])
		}
		c13run(c, g.sc)
	}
	c.o.sample("one-stream: Write(16132+1) ∥ ReadFrom[3 chunks] ∥ Close → tap seqs 0..5, closing=4; model replay seq.spawn/seq.run agrees")
}
