//go:build verif

package main

import (
	"fmt"
	"net"
	"time"

	"github.com/cbeuw/Cloak/internal/common"
	mux "github.com/cbeuw/Cloak/internal/multiplex"
)

// C03 over a REAL TCP connection (loopback), one-connection-per-stream mode: one side writes B and closes its stream —
// which closes its session: closing frames, then the socket — while the other side, which closes nothing, is itself sending.
// The kernel answers data arriving at a closed socket (and unread data left in its receive queue) with a reset, and a reset
// discards what the other side has not yet read: its reader then gets a strict prefix of B and the error.  In-memory
// connections cannot show this.
func c03tcpClose(c *ctx, k int) {
	r := c.r
	l, err := net.Listen("tcp", "127.0.0.1:0")
	if err != nil {
		c.o.N("C03 tcp: no loopback TCP in this environment — part skipped")
		return
	}
	defer l.Close()
	method := byte(r.intn(4))
	var key [32]byte
	copy(key[:], r.bytes(32))
	mk := func() *mux.Session {
		ob, err := mux.MakeObfuscator(method, key)
		if err != nil {
			panic(err)
		}
		return mux.MakeSession(17, mux.SessionConfig{Obfuscator: ob, Singleplex: true, InactivityTimeout: time.Hour, MsgOnWireSizeLimit: 16401})
	}
	W, P := mk(), mk() // W writes B and closes; P reads B, closes nothing, and sends on its own
	accepted := make(chan net.Conn, 1)
	go func() {
		cn, err := l.Accept()
		if err == nil {
			accepted <- cn
		}
	}()
	cw, err := net.Dial("tcp", l.Addr().String())
	if err != nil {
		return
	}
	var cp net.Conn
	select {
	case cp = <-accepted:
	case <-time.After(5 * time.Second):
		return
	}
	W.AddConnection(common.NewTLSConn(cw))
	P.AddConnection(common.NewTLSConn(cp))
	total := 8 << 20
	chunk := r.bytes(16000)
	st, err := W.OpenStream()
	if err != nil {
		return
	}
	st.Write(chunk[:100])
	cn, err := P.Accept()
	if err != nil {
		return
	}
	pst := cn.(*mux.Stream)
	// P sends continuously (W's application never reads it)
	stopSend := make(chan struct{})
	go func() {
		junk := make([]byte, 16000)
		for {
			select {
			case <-stopSend:
				return
			default:
			}
			if _, err := pst.Write(junk); err != nil {
				return
			}
		}
	}()
	got := make(chan int, 1)
	go func() {
		n := 0
		buf := make([]byte, 65536)
		for {
			m, err := pst.Read(buf)
			n += m
			if err != nil {
				break
			}
		}
		got <- n
	}()
	sent := 100
	for sent < total {
		n, err := st.Write(chunk)
		sent += n
		if err != nil {
			c.o.N("C03 tcp: the writer's own write failed (" + err.Error() + ") — case skipped")
			close(stopSend)
			return
		}
	}
	st.Close()
	var n int
	select {
	case n = <-got:
	case <-time.After(30 * time.Second):
		close(stopSend)
		c.o.N("C03 tcp: the reader did not finish within 30 s — case skipped")
		return
	}
	close(stopSend)
	if n < sent {
		c.o.V("C03 lost-tail real-tcp close-while-peer-is-sending", map[string]any{"case": k, "method": method, "written_then_closed": sent, "read_before_the_error": n,
			"what": "the writer's Close (one-connection-per-stream mode: the session closes, closing frames are written, the socket is closed at once) met data from the peer that its application never read: the kernel reset the connection and the reader, which closed nothing, lost the tail of B",
			"replay": "two singleplex sessions over one loopback TCP connection; W: OpenStream, Write 8 MiB, Close; P: accepts, reads to the error, and writes continuously on the same stream meanwhile"})
	}
	P.Close()
	c.o.case_(fmt.Sprintf("tcp-close/%d", k), true)
}
