//go:build verif

package main

// C09 — unauthenticated peers see only the redirect target, byte for byte.
// Real code: server.readFirstPacket (through a shim) on every segmentation of each input, and the whole
// server.dispatchConnection with a scripted peer conn and a scripted RedirDialer target inside a synctest bubble
// (virtual 15 s deadline; quiescence = synctest.Wait, no sleeps on the wall clock).
// T rows: fp.read / fp.run.  V rows: the property as stated (relay exactness, silence, completeness, no panic, no wedge).

import (
	"bytes"
	"crypto/sha256"
	"errors"
	"fmt"
	"net"
	"sort"
	"strings"
	"testing/synctest"
	"time"

	"github.com/cbeuw/Cloak/internal/client"
	"github.com/cbeuw/Cloak/internal/common"
	"github.com/cbeuw/Cloak/internal/server"
	"golang.org/x/crypto/curve25519"
)

func init() { scenarios["C09"] = c09 }

// deterministic io.Reader for WorldState.Rand
type rngReader struct{ r *rng }

func (x rngReader) Read(p []byte) (int, error) {
	for i := range p {
		p[i] = byte(x.r.next())
	}
	return len(p), nil
}

type c09Dialer struct {
	target *duplexEnd
	dials  []string
	mode   string // "up": the target takes the connection; "dial": Dial fails; "write": the conn is handed out and fails its first Write
}

// c09FailWriteConn is a redirect target that accepted the connection and resets it on the first write
type c09FailWriteConn struct{ *duplexEnd }

func (c c09FailWriteConn) Write(p []byte) (int, error) {
	return 0, errors.New("write: connection reset by peer")
}

func (d *c09Dialer) Dial(network, address string) (net.Conn, error) {
	d.dials = append(d.dials, network+" "+address)
	switch d.mode {
	case "dial":
		return nil, errors.New("connection refused")
	case "write":
		return c09FailWriteConn{d.target}, nil
	}
	return d.target, nil
}

type c09Ev struct {
	kind string // p t pe te
	data []byte
}

type c09Input struct {
	class    string
	stream   []byte
	verdict  string // what dispatchConnection concludes once the first packet is complete
	complete int    // 1: the stream contains a complete first packet by construction; 0: it ends inside it; -1: unknown
}

type c09Env struct {
	c      *ctx
	sta    *server.State
	pub    [32]byte
	world  common.WorldState
	bypass []byte
}

func c09NewEnv(c *ctx) *c09Env {
	e := &c09Env{c: c}
	pv := c.r.bytes(32)
	var pvA [32]byte
	copy(pvA[:], pv)
	curve25519.ScalarBaseMult(&e.pub, &pvA)
	e.world = common.WorldState{Rand: rngReader{c.r.fork()}, Now: time.Now}
	e.bypass = c.r.bytes(16)
	sta, err := server.InitState(server.RawConfig{
		PrivateKey: pv,
		RedirAddr:  "127.0.0.1",
		ProxyBook:  map[string][]string{"shadowsocks": {"tcp", "127.0.0.1:1"}},
		BypassUID:  [][]byte{e.bypass},
	}, e.world)
	if err != nil {
		c.o.N("C09 InitState failed: " + err.Error())
		return nil
	}
	e.sta = sta
	return e
}

var c09gaps = []time.Duration{0, 7 * time.Second, 0, 40 * time.Second, 0, 3 * time.Hour, time.Millisecond}

func evsString(evs []c09Ev) string {
	if len(evs) == 0 {
		return "-"
	}
	s := make([]string, len(evs))
	for i, e := range evs {
		switch e.kind {
		case "p", "t":
			s[i] = e.kind + ":" + hx(e.data)
		default:
			s[i] = e.kind
		}
	}
	return strings.Join(s, ";")
}

// one whole connection against the real dispatchConnection
// tgMode: how the redirect target behaves ("up" / "dial" / "write", see c09Dialer)
func (e *c09Env) runConn(in c09Input, pos []int, end string, evs []c09Ev, trickle bool, tgMode string, buildInBubble func() []byte) {
	o := e.c.o
	var peerGot, targetGot []byte
	var dials []string
	var peerClosed, targetClosed, wedged, replyLost bool
	var panicked any
	var violation string
	var stream []byte
	var chunks [][]byte
	func() {
		defer func() {
			if r := recover(); r != nil {
				wedged = true
				panicked = fmt.Sprint("synctest: ", r)
			}
		}()
		synctest.Run(func() {
			stream = in.stream
			if buildInBubble != nil {
				stream = buildInBubble() // hellos carrying a timestamp are made under the bubble's clock
			}
			chunks = cut(stream, pos)
			peer := newDuplexEnd("10.1.1.1:443", "10.9.9.9:51000")
			target := newDuplexEnd("10.1.1.1:40000", "127.0.0.1:443")
			d := &c09Dialer{target: target, mode: tgMode}
			e.sta.RedirDialer = d
			if !trickle {
				for _, c := range chunks {
					peer.feed(c)
				}
			}
			done := make(chan struct{})
			go func() {
				defer close(done)
				defer func() {
					if r := recover(); r != nil {
						panicked = r
					}
				}()
				server.VerifDispatch(peer, e.sta)
			}()
			synctest.Wait()
			if trickle {
				for _, c := range chunks {
					peer.feed(c)
					synctest.Wait()
				}
			}
			// peerSent / targetLive: what each side has sent while neither had ended its stream (what the relay of the pinned
			// code forwards, compared with the model in the T row); targetFull: everything the target sends before IT ends its
			// stream — "the peer receives exactly the bytes the target replies with", whatever the peer does with its own
			// sending direction
			var peerSent, targetLive, targetFull []byte
			halfClosed, targetEnded := false, false
			peerSent = append(peerSent, stream...)
			check := func(when string) {
				if violation != "" || tgMode != "up" {
					return
				}
				pg, tg := peer.taken(), target.taken()
				if len(d.dials) > 0 {
					if !bytes.Equal(tg, peerSent) {
						violation = "C09 target-stream-differs-from-peer-stream"
					} else if !bytes.Equal(pg, targetFull) {
						if halfClosed && bytes.Equal(pg, targetLive) {
							// exactly the bytes the target sent after the peer's FIN are missing
							replyLost = true
						} else {
							violation = "C09 peer-stream-differs-from-target-stream"
						}
					}
				} else if len(pg) != 0 {
					violation = "C09 server-originated-bytes-to-peer"
				}
				if violation != "" {
					violation += " @" + when
				}
			}
			// the stream ended inside the first packet? then the peer goes away / stays silent
			if len(d.dials) == 0 && !peer.isClosed() {
				if end == "eof" {
					peer.eof()
				} else {
					time.Sleep(15*time.Second + time.Millisecond)
				}
				synctest.Wait()
			}
			open := len(d.dials) > 0
			check("first-packet")
			for i, ev := range evs {
				// time passes between the events of a relayed connection (seconds to hours, virtual): the relay has no clock
				// of its own, so neither side's later bytes may be lost (round-7 seed C09-6: a write deadline left on the
				// target connection ended the relay for a peer that spoke 5 s after the dial)
				if gap := c09gaps[(i+len(stream))%len(c09gaps)]; gap > 0 {
					time.Sleep(gap)
					synctest.Wait()
				}
				switch ev.kind {
				case "p":
					peer.feed(ev.data)
					if open {
						peerSent = append(peerSent, ev.data...)
					}
				case "t":
					target.feed(ev.data)
					if open {
						targetLive = append(targetLive, ev.data...)
					}
					if !targetEnded {
						targetFull = append(targetFull, ev.data...)
					}
				case "pe": // the peer ends its SENDING direction; it keeps reading (duplexEnd still accepts what the server writes)
					peer.eof()
					if open && !targetEnded {
						halfClosed = true
					}
					open = false
				case "te":
					target.eof()
					open = false
					targetEnded = true
				}
				synctest.Wait()
				check(fmt.Sprint("event#", i))
			}
			peerGot, targetGot = peer.taken(), target.taken()
			dials = d.dials
			peerClosed, targetClosed = peer.isClosed(), target.isClosed()
			// tear down: both ends go away, the deadline passes; every goroutine of the connection must finish
			peer.eof()
			target.eof()
			synctest.Wait()
			time.Sleep(16 * time.Second)
			synctest.Wait()
			select {
			case <-done:
			default:
				wedged = true
				peer.Close() // let the bubble end
				target.Close()
			}
		})
	}()
	pos2 := append([]int(nil), pos...)
	detail := func() map[string]any {
		return map[string]any{"class": in.class, "stream_len": len(stream), "stream": hx(trunc(stream, 96)), "cuts": pos2, "end": end,
			"events": evsString(evs), "dials": dials, "target_got": hx(trunc(targetGot, 96)), "target_got_len": len(targetGot),
			"peer_got": hx(trunc(peerGot, 96)), "peer_got_len": len(peerGot), "peer_closed": peerClosed, "trickle": trickle}
	}
	if panicked != nil {
		d := detail()
		d["panic"] = fmt.Sprint(panicked)
		if wedged {
			o.V("C09 wedged", d)
		} else {
			o.V("C09 panic", d)
		}
		return
	}
	if wedged {
		o.V("C09 wedged", detail())
	}
	if violation != "" {
		o.V(violation, detail())
	}
	b01 := func(x bool) string {
		if x {
			return "1"
		}
		return "0"
	}
	closed := " closed=" + b01(peerClosed) + b01(targetClosed)
	if tgMode != "up" {
		d := detail()
		d["redirect_target"] = map[string]string{"dial": "RedirDialer.Dial returns an error", "write": "the dialled conn fails its first Write"}[tgMode]
		d["target_conn_closed"] = targetClosed
		if len(peerGot) != 0 {
			o.V("C09 server-originated-bytes-to-peer", d)
		}
		// "acts as a transparent TCP relay … (or just closes)": the dispatcher went for the redirect target, the target is
		// unavailable, everything has come to rest — the peer connection must have been closed
		if len(dials) > 0 && !peerClosed {
			o.V("C09 connection-left-open redirect-unavailable", d)
		}
		impl := "drop"
		if peerClosed {
			impl = "close"
		}
		o.T(fmt.Sprintf("fp.run chunks=%s v=%s tg=%s evs=%s", hexChunks(chunks), in.verdict, tgMode, evsString(evs)), impl+closed)
		return
	}
	if replyLost {
		d := detail()
		d["lost"] = "the bytes the target sent after the peer ended its sending direction (half close) never reached the peer; everything before did"
		o.V("C09 reply-lost-after-peer-half-close", d)
	}
	if in.complete == 1 && len(dials) == 0 {
		o.V("C09 complete-first-packet-not-relayed", detail())
	}
	// (relaying a byte-exact prefix while the first packet is still incomplete would not contradict the property; whether the
	// code does so is compared with the model in the T row only)
	impl := "drop" + closed
	if len(dials) > 0 {
		impl = fmt.Sprintf("web target=%s peer=%s", hx(targetGot), hx(peerGot)) + closed
	} else if peerClosed {
		impl = "close" + closed
	}
	if len(dials) > 1 || (len(dials) == 1 && dials[0] != "tcp 127.0.0.1:443") {
		o.V("C09 wrong-redirect-target", detail())
	}
	o.T(fmt.Sprintf("fp.run chunks=%s v=%s evs=%s", hexChunks(chunks), in.verdict, evsString(evs)), impl)
}

// readFirstPacket alone on a non-blocking chunked conn
func (e *c09Env) readOnly(in c09Input, pos []int) {
	chunks := cut(in.stream, pos)
	cc := newChunkConn(chunks)
	var n int
	var t, ek string
	var redir bool
	func() {
		defer func() {
			if r := recover(); r != nil {
				e.c.o.V("C09 panic", map[string]any{"class": in.class, "where": "readFirstPacket", "panic": fmt.Sprint(r), "stream": hx(trunc(in.stream, 96)), "cuts": pos})
				ek = "panic"
			}
		}()
		n, t, redir, ek = server.VerifReadFirstPacket(cc)
	}()
	cc.mu.Lock()
	closed := cc.closed
	cc.mu.Unlock()
	b := func(x bool) string {
		if x {
			return "1"
		}
		return "0"
	}
	e.c.o.T("fp.read chunks="+hexChunks(chunks), fmt.Sprintf("n=%d t=%s redir=%s err=%s closed=%s", n, t, b(redir), ek, b(closed)))
	// property-level checks that need no model: consumed bytes never exceed what was sent / the buffer
	if n > len(in.stream) || n > 3000 {
		e.c.o.V("C09 consumed-more-than-sent", map[string]any{"class": in.class, "n": n, "stream_len": len(in.stream)})
	}
	if in.complete == 1 && ek == "read" {
		e.c.o.V("C09 complete-first-packet-not-relayed", map[string]any{"class": in.class, "where": "readFirstPacket", "stream_len": len(in.stream), "cuts": pos, "stream": hx(trunc(in.stream, 96))})
	}
}

func tlsRecord(first byte, v1, v2 byte, declared int, body []byte) []byte {
	return append([]byte{first, v1, v2, byte(declared >> 8), byte(declared)}, body...)
}

func (e *c09Env) inputs() []c09Input {
	r := e.c.r
	var ins []c09Input
	add := func(class string, s []byte, verdict string, complete int) {
		ins = append(ins, c09Input{class, s, verdict, complete})
	}
	// 1. random bytes
	for i := 0; i < 12; i++ {
		s := r.bytes(r.intn(60))
		cpl := -1
		if len(s) == 0 {
			cpl = 0
		} else if s[0] != 0x16 && s[0] != 0x47 {
			cpl = 1
		}
		add("random", s, "authFail", cpl)
	}
	add("empty", nil, "authFail", 0)
	// 2. every first byte value
	for b := 0; b < 256; b++ {
		s := append([]byte{byte(b)}, r.bytes(r.intn(6))...)
		cpl := 1
		if b == 0x16 || b == 0x47 {
			cpl = -1
		}
		add("first-byte", s, "authFail", cpl)
	}
	// 3. TLS records of every declared-length class
	for _, dl := range []int{0, 1, 7, 40, 300, 2994, 2995, 2996, 2997, 3000, 16384, 65535} {
		fits := dl+5 <= 3000
		bodyLen := dl
		if !fits {
			bodyLen = 20
		}
		body := r.bytes(bodyLen)
		add(fmt.Sprintf("tls-record-%d-full", dl), tlsRecord(0x16, 3, 1, dl, body), "authFail", 1)
		add(fmt.Sprintf("tls-record-%d-trailing", dl), append(tlsRecord(0x16, byte(r.intn(4)), byte(r.intn(4)), dl, body), r.bytes(1+r.intn(30))...), "authFail", 1)
		if fits && dl > 0 {
			add(fmt.Sprintf("tls-record-%d-truncated", dl), tlsRecord(0x16, 3, 1, dl, body[:r.intn(dl)]), "authFail", 0)
		}
	}
	for k := 1; k < 5; k++ {
		add("tls-header-truncated", tlsRecord(0x16, 3, 1, 100, nil)[:k], "authFail", 0)
	}
	// 4. genuine browser ClientHellos that fail authentication (random bytes in the three Cloak fields)
	for br := 0; br < 3; br++ {
		h, err := client.VerifHelloWithFields(r.bytes(32), r.bytes(32), r.bytes(32), "www.example.com", br)
		if err != nil {
			e.c.o.N("C09 buildClientHello failed: " + err.Error())
			continue
		}
		e.c.o.stat(fmt.Sprintf("hello_len_browser%d", br), len(h))
		add(fmt.Sprintf("browser-hello-%d", br), h, "authFail", 1)
		add(fmt.Sprintf("browser-hello-%d-trailing", br), append(append([]byte(nil), h...), r.bytes(40)...), "authFail", 1)
		add(fmt.Sprintf("browser-hello-%d-truncated", br), h[:5+r.intn(len(h)-5)], "authFail", 0)
		for k := 0; k < 6; k++ { // mutated: bit flips / byte changes anywhere, incl. the length fields
			m := append([]byte(nil), h...)
			for j := 0; j < 1+r.intn(3); j++ {
				p := r.intn(len(m))
				if k < 3 {
					p = r.intn(60)
				}
				m[p] ^= 1 << uint(r.intn(8))
			}
			add(fmt.Sprintf("browser-hello-%d-mutated", br), m, "authFail", -1)
		}
		// inner lengths broken while the record layer stays intact: exercises the recover() guards
		for k := 0; k < 6; k++ {
			m := append([]byte(nil), h...)
			p := 5 + r.intn(len(m)-5)
			m[p] = byte(r.intn(256))
			if k%2 == 0 && len(m) > 50 {
				m[43+r.intn(4)] = 0xff // session id length / cipher suites length region
			}
			add(fmt.Sprintf("browser-hello-%d-inner-mutated", br), m, "authFail", 1)
		}
		// record layer intact, body cut short and re-framed (parsers run out of bytes)
		for k := 0; k < 4; k++ {
			cutAt := 1 + r.intn(len(h)-6)
			body := h[5 : 5+cutAt]
			add(fmt.Sprintf("browser-hello-%d-reframed-short", br), tlsRecord(0x16, 3, 1, len(body), body), "authFail", 1)
		}
	}
	// 5. hand-made minimal ClientHellos: no key_share extension at all / malformed key_share contents
	// (parseKeyShare is reached outside parseClientHello, so its own recover() guard is what stands between these and a crash)
	mkHello := func(exts []byte) []byte {
		body := []byte{3, 3}
		body = append(body, r.bytes(32)...)
		body = append(body, 32)
		body = append(body, r.bytes(32)...)
		body = append(body, 0, 2, 0x13, 0x01, 1, 0)
		body = append(body, byte(len(exts)>>8), byte(len(exts)))
		body = append(body, exts...)
		hs := append([]byte{1, byte(len(body) >> 16), byte(len(body) >> 8), byte(len(body))}, body...)
		return tlsRecord(0x16, 3, 1, len(hs), hs)
	}
	ext := func(typ uint16, data []byte) []byte {
		return append([]byte{byte(typ >> 8), byte(typ), byte(len(data) >> 8), byte(len(data))}, data...)
	}
	add("minimal-hello-no-extensions", mkHello(nil), "authFail", 1)
	add("minimal-hello-no-keyshare", mkHello(ext(0x000a, []byte{0, 2, 0, 0x1d})), "authFail", 1)
	add("minimal-hello-keyshare-empty", mkHello(ext(0x0033, nil)), "authFail", 1)
	add("minimal-hello-keyshare-1byte", mkHello(ext(0x0033, []byte{0})), "authFail", 1)
	add("minimal-hello-keyshare-len-beyond", mkHello(ext(0x0033, []byte{0, 0xff, 0x00, 0x17, 0x00, 0x02, 1, 2})), "authFail", 1)
	add("minimal-hello-keyshare-x25519-truncated", mkHello(ext(0x0033, append([]byte{0, 36, 0x00, 0x1d, 0x00, 0x20}, r.bytes(10)...))), "authFail", 1)
	add("minimal-hello-keyshare-x25519-wronglen", mkHello(ext(0x0033, append([]byte{0, 20, 0x00, 0x1d, 0x00, 0x10}, r.bytes(16)...))), "authFail", 1)
	add("minimal-hello-keyshare-ok-garbage", mkHello(ext(0x0033, append([]byte{0, 36, 0x00, 0x1d, 0x00, 0x20}, r.bytes(32)...))), "authFail", 1)
	add("minimal-hello-extension-len-beyond", mkHello([]byte{0x00, 0x33, 0x00, 0x40, 1, 2, 3}), "authFail", 1)
	add("minimal-hello-extension-header-cut", mkHello([]byte{0x00, 0x33, 0x00}), "authFail", 1)
	// 6. HTTP requests
	get := "GET / HTTP/1.1\r\nHost: example.com\r\nUser-Agent: curl/8\r\n"
	add("http-get", []byte(get+"\r\n"), "authFail", 1)
	add("http-get-body-follows", []byte(get+"\r\nhello world"), "authFail", 1)
	add("http-get-bogus-hidden", []byte(get+"hidden: "+strings.Repeat("QUJD", 32)+"\r\n\r\n"), "authFail", 1)
	add("http-get-hidden-not-base64", []byte(get+"hidden: ***\r\n\r\n"), "authFail", 1)
	add("http-get-short-hidden", []byte(get+"hidden: QUJD\r\n\r\n"), "authFail", 1)
	add("http-get-truncated", []byte(get), "authFail", 0)
	add("http-get-lf-only", []byte("GET / HTTP/1.1\nHost: x\n\n"), "authFail", 0)
	add("http-G-crlf", []byte("G\r\n"), "authFail", 1)
	add("http-G", []byte("G"), "authFail", 0)
	add("http-garbage-request-line", []byte("G\x00\xff\x01 nonsense\r\n\r\n"), "authFail", 1)
	add("http-upgrade-no-hidden", []byte("GET /ws HTTP/1.1\r\nHost: x\r\nUpgrade: websocket\r\nConnection: Upgrade\r\nSec-WebSocket-Key: dGhlIHNhbXBsZSBub25jZQ==\r\nSec-WebSocket-Version: 13\r\n\r\n"), "authFail", 1)
	// 7. over-long lines / requests
	add("http-long-line", append([]byte("GET /"), bytes.Repeat([]byte("a"), 3500)...), "authFail", 1)
	add("http-long-line-2999", append([]byte("G"), bytes.Repeat([]byte("a"), 2998)...), "authFail", 0)
	add("http-long-line-3000", append([]byte("G"), bytes.Repeat([]byte("a"), 2999)...), "authFail", 1)
	add("http-many-lines-no-end", []byte("GET / HTTP/1.1\r\n"+strings.Repeat("X-Pad: aaaaaaaaaaaaaaaaaaaaaaaaaaaaaaaaaaaaaaaaaaaaaaaaaaaaaaaaaaaaaaaaaaaaaa\r\n", 45)), "authFail", 1)
	for _, total := range []int{2999, 3000, 3001} { // the terminator ends exactly at / around the buffer end
		pad := total - len("GET / HTTP/1.1\r\nX: ") - len("\r\n\r\n")
		s := "GET / HTTP/1.1\r\nX: " + strings.Repeat("b", pad) + "\r\n\r\n"
		add(fmt.Sprintf("http-terminator-ends-at-%d", total), []byte(s), "authFail", 1)
		add(fmt.Sprintf("http-terminator-ends-at-%d-more", total), []byte(s+"tail"), "authFail", 1)
	}
	return ins
}

func (e *c09Env) authInfo(uid []byte, method string, sid uint32) client.AuthInfo {
	pub := e.pub
	return client.AuthInfo{UID: uid, SessionId: sid, ProxyMethod: method, EncryptionMethod: 0, ServerPubKey: &pub,
		MockDomain: "www.bing.com", WorldState: e.world}
}

func c09(c *ctx) {
	e := c09NewEnv(c)
	if e == nil {
		c.o.V("C09 harness-setup", "InitState failed")
		return
	}
	r := c.r
	ins := e.inputs()
	if c.thorough() { // three more draws of every randomised input class
		for k := 0; k < 3; k++ {
			for _, in := range e.inputs() {
				if in.class != "first-byte" && !strings.HasPrefix(in.class, "http-") && in.class != "empty" {
					ins = append(ins, in)
				}
			}
		}
	}
	every := 90 // inputs up to this length get every 1-cut
	if c.thorough() {
		every = 700 // covers whole Firefox / Safari ClientHellos
	}
	// ---- (a) readFirstPacket alone: every 1-cut of short inputs; head/tail/random 1-cuts of long ones; random multi-cuts
	for _, in := range ins {
		n := len(in.stream)
		e.readOnly(in, nil)
		var cuts []int
		if n <= every {
			for p := 0; p <= n; p++ {
				cuts = append(cuts, p)
			}
		} else {
			for p := 0; p <= 12; p++ {
				cuts = append(cuts, p)
			}
			for p := n - 4; p <= n; p++ {
				cuts = append(cuts, p)
			}
			k := 6
			if c.thorough() {
				k = 60
			}
			for j := 0; j < k; j++ {
				cuts = append(cuts, 1+r.intn(n-1))
			}
		}
		for _, p := range cuts {
			e.readOnly(in, []int{p})
			c.o.case_(fmt.Sprint("read", in.class, sha256.Sum256(in.stream), p), true)
		}
		m := 3
		if c.thorough() {
			m = 20
		}
		for j := 0; j < m && n > 1; j++ {
			var pos []int
			for k := 0; k < 2+r.intn(6); k++ {
				pos = append(pos, 1+r.intn(n-1))
			}
			sort.Ints(pos)
			e.readOnly(in, pos)
			c.o.case_(fmt.Sprint("read-multi", in.class, j), true)
		}
	}
	// ---- (b) the whole connection
	targetScripts := func() [][]c09Ev {
		t1, t2, p1 := r.bytes(1+r.intn(40)), r.bytes(1+r.intn(2000)), r.bytes(1+r.intn(60))
		return [][]c09Ev{
			nil,
			{{"t", t1}},
			{{"t", t1}, {"p", p1}, {"t", t2}},
			{{"p", p1}, {"t", t1}, {"te", nil}, {"p", p1}},
			{{"t", t1}, {"pe", nil}, {"t", t2}},
			{{"te", nil}},
			{{"pe", nil}, {"t", t1}, {"te", nil}}, // request, FIN, then the answer: `printf … | nc -N host 443`
		}
	}
	nconn := 0
	for idx, in := range ins {
		if in.class == "first-byte" && !c.thorough() && idx%8 != 0 && in.stream[0] != 0x16 && in.stream[0] != 0x47 {
			continue
		}
		n := len(in.stream)
		segs := [][]int{nil}
		if n > 1 {
			segs = append(segs, []int{1 + r.intn(n-1)})
			if n > 6 {
				segs = append(segs, []int{1 + r.intn(5)})
			}
			var pos []int
			for k := 0; k < 2+r.intn(5); k++ {
				pos = append(pos, 1+r.intn(n-1))
			}
			sort.Ints(pos)
			segs = append(segs, pos)
		}
		if c.thorough() && n > 1 && n <= 40 {
			for p := 1; p < n; p++ {
				segs = append(segs, []int{p})
			}
		}
		scripts := targetScripts()
		for si, pos := range segs {
			ks := []int{(idx + si) % len(scripts), (idx + si + 2) % len(scripts)}
			if c.thorough() {
				ks = []int{0, 1, 2, 3, 4, 5, 6}
			}
			for _, k := range ks {
				end := "eof"
				if (idx+si+k)%3 == 0 {
					end = "timeout"
				}
				e.runConn(in, pos, end, scripts[k], (idx+si+k)%2 == 0, "up", nil)
				nconn++
				c.o.case_(fmt.Sprint("conn", in.class, idx, si, k), true)
			}
		}
	}
	// ---- (b') the redirect target is down (Dial fails) or resets the connection on the first write: the peer must end up
	// closed — never left open and silent — and nothing may reach it; one input per class of first packet, both fault points
	seenClass := map[string]bool{}
	for idx, in := range ins {
		cls := in.class
		if cls == "first-byte" {
			if in.stream[0] != 0x99 && in.stream[0] != 0x16 && in.stream[0] != 0x47 {
				continue
			}
			cls = fmt.Sprint(cls, in.stream[0])
		}
		want := cls == "random" || strings.HasPrefix(cls, "first-byte") || strings.HasPrefix(cls, "tls-record-40-") || cls == "tls-record-65535-full" ||
			cls == "browser-hello-0" || cls == "browser-hello-1-inner-mutated" || cls == "http-get" || cls == "http-get-truncated" ||
			cls == "http-long-line" || cls == "minimal-hello-no-extensions" || cls == "empty" || (c.thorough() && !strings.HasPrefix(cls, "first-byte"))
		if !want || (seenClass[cls] && !c.thorough()) {
			continue
		}
		seenClass[cls] = true
		for mi, mode := range []string{"dial", "write"} {
			var pos []int
			if n := len(in.stream); n > 1 && (idx+mi)%2 == 0 {
				pos = []int{1 + r.intn(n-1)}
			}
			end := "eof"
			if (idx+mi)%3 == 0 {
				end = "timeout"
			}
			var evs []c09Ev
			if idx%2 == 0 {
				evs = []c09Ev{{"p", r.bytes(1 + r.intn(20))}}
			}
			e.runConn(in, pos, end, evs, (idx+mi)%2 == 1, mode, nil)
			nconn++
			c.o.case_(fmt.Sprint("unavailable", cls, idx, mode), true)
		}
	}
	// ---- (c) valid Cloak hellos that must still end at the web server: unknown proxy method, unauthorised UID, replay
	type hv struct {
		class, method, verdict string
		uid                    []byte
	}
	hvs := []hv{
		{"valid-hello-unknown-method", "nosuchproxy", "badMethod", e.bypass},
		{"valid-hello-unauthorised-uid", "shadowsocks", "badUser", r.bytes(16)},
	}
	for _, h := range hvs {
		for br := 0; br < 3; br++ {
			var saved []byte
			build := func() []byte {
				pkt, err := client.VerifFirstPacketTLS(e.authInfo(h.uid, h.method, 1+uint32(r.intn(1000))), br)
				if err != nil {
					c.o.N("C09 VerifFirstPacketTLS failed: " + err.Error())
					return []byte{0x99}
				}
				saved = pkt
				return pkt
			}
			scripts := targetScripts()
			e.runConn(c09Input{h.class, nil, h.verdict, 1}, nil, "eof", scripts[2], false, "up", build)
			e.runConn(c09Input{h.class, nil, h.verdict, 1}, []int{1 + r.intn(200)}, "timeout", scripts[1], true, "up", build)
			// the same packet again: a replay → authFail → still the web server, byte for byte
			if saved != nil {
				rep := saved
				e.runConn(c09Input{h.class + "-replayed", nil, "authFail", 1}, []int{5}, "eof", scripts[2], false, "up", func() []byte { return rep })
			}
			// … and with the redirect target unavailable: a genuine hello that is refused must not be left hanging either
			mode := []string{"dial", "write"}[br%2]
			e.runConn(c09Input{h.class, nil, h.verdict, 1}, nil, "eof", nil, false, mode, build)
			nconn += 4
			c.o.case_(fmt.Sprint("valid", h.class, br), true)
		}
		// WebSocket transport: valid hidden header, same two rejections
		build := func() []byte {
			hid := client.VerifHiddenHeader(e.authInfo(h.uid, h.method, 7))
			return []byte("GET / HTTP/1.1\r\nHost: www.bing.com\r\nUpgrade: websocket\r\nConnection: Upgrade\r\nhidden: " + hid + "\r\nSec-WebSocket-Key: dGhlIHNhbXBsZSBub25jZQ==\r\nSec-WebSocket-Version: 13\r\n\r\n")
		}
		e.runConn(c09Input{h.class + "-ws", nil, h.verdict, 1}, []int{3, 40}, "eof", targetScripts()[2], false, "up", build)
		nconn++
	}
	c.o.stat("connections", nconn)
	c.o.stat("inputs", len(ins))
	c.o.sample("fp.run browser ClientHello with random Cloak fields, cut at a random position, target script t;p;t → web target=<peer stream> peer=<target stream>")
}
