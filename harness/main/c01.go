//go:build verif

package main

import (
	"bytes"
	"fmt"
	"net"
	"sync"
	"sync/atomic"
	"testing/synctest"
	"time"

	"github.com/cbeuw/Cloak/internal/common"
	mux "github.com/cbeuw/Cloak/internal/multiplex"
)

func init() { scenarios["C01"] = c01 }

// deliverAll delivers every pending record in a seeded global order (across connections and directions).
func (ps *pairScript) deliverSome(max int) int {
	r := ps.c.r
	n := 0
	nconn := len(ps.rg.S[0].conns)
	for n < max {
		var cand [][2]int
		for from := 0; from < 2; from++ {
			for k := 0; k < nconn; k++ {
				if ps.rg.S[from].conns[k].pending() > 0 {
					cand = append(cand, [2]int{from, k})
				}
			}
		}
		if len(cand) == 0 {
			break
		}
		ch := cand[r.intn(len(cand))]
		ps.deliver(ch[0], ch[1])
		n++
	}
	return n
}

func (ps *pairScript) acceptAll() {
	for guard := 0; guard < 1000; guard++ {
		st := ps.state(1)
		var q int
		fmt.Sscanf(st[indexOf(st, "accq=")+5:], "%d", &q)
		if q == 0 {
			return
		}
		ps.accept(1, false)
	}
}

func indexOf(s, sub string) int { return bytes.Index([]byte(s), []byte(sub)) }

func (ps *pairScript) drainReads() {
	for i := 0; i < 2; i++ {
		for id, st := range ps.rg.S[i].streams {
			for guard := 0; guard < 100000 && mux.VerifStreamReadable(st) && !mux.VerifStreamClosed(st); guard++ {
				before := len(ps.readb[i][id])
				ps.read(i, id, 1+ps.c.r.intn(40000), false)
				if len(ps.readb[i][id]) == before {
					break
				}
			}
		}
	}
}

// C01 end-state monitor: every stream's reader has received exactly what the peer wrote; nobody closed anything
func (ps *pairScript) checkDelivered(what string) {
	for i := 0; i < 2; i++ {
		if ps.rg.S[i].sesh.IsClosed() {
			ps.viol("C01 healthy-session-closed", map[string]any{"side": sname(i), "terminal": ps.rg.S[i].sesh.TerminalMsg(), "what": what})
		}
		for id, w := range ps.written[1-i] {
			got := ps.readb[i][id]
			if !bytes.Equal(got, w) {
				d := 0
				for d < len(got) && d < len(w) && got[d] == w[d] {
					d++
				}
				ps.viol("C01 bytes-read-differ-from-bytes-written", map[string]any{"reader": sname(i), "stream": id, "written_len": len(w), "read_len": len(got), "first_diff": d, "what": what})
			}
		}
	}
}

func c01sizes(r *rng, unit int) int {
	switch r.intn(9) {
	case 0:
		return 1
	case 1:
		return 2
	case 2:
		return unit - 1
	case 3:
		return unit
	case 4:
		return unit + 1
	case 5:
		return 2*unit + 3
	case 6:
		return 1 + r.intn(100)
	default:
		return 1 + r.intn(5000)
	}
}

func c01core(c *ctx, s int) {
	r := c.r
	method := byte(r.intn(4))
	nconn := 1 + r.intn(8)
	sp := r.intn(8) == 0
	nstreams := 1 + r.intn(6)
	if s%10 == 0 {
		nstreams = 20 + r.intn(44)
		if c.thorough() && s%50 == 0 {
			nstreams = 200 + r.intn(300)
		}
	}
	if sp {
		nconn, nstreams = 1, 1
	}
	tag := fmt.Sprintf("core script=%d method=%d conns=%d streams=%d singleplex=%v", s, method, nconn, nstreams, sp)
	synctest.Run(func() {
		ps := newPairScript(c, method, nconn, sp, 3600*time.Second, tag)
		unit := mux.VerifMaxUnit(ps.rg.S[0].sesh)
		for k := 0; k < nstreams; k++ {
			ps.open(0)
		}
		budget := 40000 + r.intn(60000) // bytes per script
		rounds := 3 + r.intn(5)
		for rd := 0; rd < rounds; rd++ {
			// writes in both directions on every stream known to the writer
			for i := 0; i < 2; i++ {
				for id, st := range ps.rg.S[i].streams {
					if mux.VerifStreamClosed(st) || r.intn(3) == 0 || budget <= 0 {
						continue
					}
					n := c01sizes(r, unit)
					if nstreams > 10 && n > 300 {
						n = 1 + r.intn(300)
					}
					budget -= n
					ps.write(i, id, r.bytes(n))
				}
			}
			// partial delivery in an arbitrary cross-connection order, with accepts and reads in between
			ps.deliverSome(r.intn(40))
			ps.acceptAll()
			for k := 0; k < 4; k++ {
				i := r.intn(2)
				if id, ok := ps.anyStream(i); ok {
					ps.read(i, id, 1+r.intn(3000), false)
				}
			}
		}
		ps.deliverSome(1 << 30)
		ps.acceptAll()
		ps.drainReads()
		ps.checkDelivered("all records delivered, all data read")
		ps.finish()
	})
	c.o.case_(tag, true)
	if s == 0 {
		c.o.sample(tag)
	}
}

// ---- byte-stream network under common.TLSConn: records are cut at arbitrary byte positions ----

type bconn struct {
	name string
	mu   sync.Mutex
	out  []byte // written, not yet delivered
	in   chan []byte
	rem  []byte
	dead chan struct{}
	once sync.Once
	peer *bconn
	nW   int
}

func newBPair(name string) (*bconn, *bconn) {
	a := &bconn{name: name + "a", in: make(chan []byte, 1<<16), dead: make(chan struct{})}
	b := &bconn{name: name + "b", in: make(chan []byte, 1<<16), dead: make(chan struct{})}
	a.peer, b.peer = b, a
	return a, b
}
func (c *bconn) Read(b []byte) (int, error) {
	if len(c.rem) == 0 {
		select {
		case r := <-c.in:
			c.rem = r
		case <-c.dead:
			return 0, fmt.Errorf("EOF")
		}
	}
	n := copy(b, c.rem)
	c.rem = c.rem[n:]
	return n, nil
}
func (c *bconn) Write(b []byte) (int, error) {
	c.mu.Lock()
	defer c.mu.Unlock()
	select {
	case <-c.dead:
		return 0, fmt.Errorf("closed")
	default:
	}
	c.out = append(c.out, b...)
	c.nW++
	return len(b), nil
}
func (c *bconn) Close() error                       { c.once.Do(func() { close(c.dead) }); return nil }
func (c *bconn) LocalAddr() net.Addr                { return addrT(c.name) }
func (c *bconn) RemoteAddr() net.Addr               { return addrT(c.peer.name) }
func (c *bconn) SetDeadline(t time.Time) error      { return nil }
func (c *bconn) SetReadDeadline(t time.Time) error  { return nil }
func (c *bconn) SetWriteDeadline(t time.Time) error { return nil }

// push moves up to n written bytes to the peer as ONE segment
func (c *bconn) push(n int) int {
	c.mu.Lock()
	if n > len(c.out) {
		n = len(c.out)
	}
	seg := append([]byte(nil), c.out[:n]...)
	c.out = c.out[n:]
	c.mu.Unlock()
	if n > 0 {
		c.peer.in <- seg
	}
	return n
}
func (c *bconn) pendingBytes() int { c.mu.Lock(); defer c.mu.Unlock(); return len(c.out) }

type addrT string

func (a addrT) Network() string { return "mem" }
func (a addrT) String() string  { return string(a) }

func c01tls(c *ctx, s int) {
	r := c.r
	method := byte(r.intn(4))
	nconn := 1 + r.intn(4)
	nstreams := 1 + r.intn(4)
	tag := fmt.Sprintf("tls script=%d method=%d conns=%d streams=%d", s, method, nconn, nstreams)
	synctest.Run(func() {
		var key [32]byte
		copy(key[:], r.bytes(32))
		var sesh [2]*mux.Session
		for i := 0; i < 2; i++ {
			ob, _ := mux.MakeObfuscator(method, key)
			sesh[i] = mux.MakeSession(9, mux.SessionConfig{Obfuscator: ob, MsgOnWireSizeLimit: 16401, InactivityTimeout: time.Hour})
		}
		var ends [2][]*bconn
		for k := 0; k < nconn; k++ {
			a, b := newBPair(fmt.Sprintf("t%d", k))
			ends[0] = append(ends[0], a)
			ends[1] = append(ends[1], b)
			sesh[0].AddConnection(common.NewTLSConn(connShim{a}))
			sesh[1].AddConnection(common.NewTLSConn(connShim{b}))
		}
		unit := mux.VerifMaxUnit(sesh[0])
		var st [2][]*mux.Stream
		written := [2]map[uint32][]byte{{}, {}}
		got := [2]map[uint32][]byte{{}, {}}
		for k := 0; k < nstreams; k++ {
			x, err := sesh[0].OpenStream()
			if err != nil {
				c.o.V("C01 healthy-session-closed", map[string]any{"tag": tag, "err": err.Error()})
				return
			}
			st[0] = append(st[0], x)
		}
		pushSome := func(all bool) {
			for guard := 0; guard < 100000; guard++ {
				var cand []*bconn
				for i := 0; i < 2; i++ {
					for _, e := range ends[i] {
						if e.pendingBytes() > 0 {
							cand = append(cand, e)
						}
					}
				}
				if len(cand) == 0 || (!all && r.intn(12) == 0) {
					return
				}
				e := cand[r.intn(len(cand))]
				var n int
				switch r.intn(6) {
				case 0:
					n = 1
				case 1:
					n = 1 + r.intn(5) // inside a record header
				case 2:
					n = 1 + r.intn(30)
				case 3:
					n = 1 + r.intn(2000)
				default:
					n = 1 + r.intn(40000) // several records coalesced
				}
				e.push(n)
				synctest.Wait()
			}
		}
		readAvail := func() {
			for i := 0; i < 2; i++ {
				for _, x := range st[i] {
					for guard := 0; guard < 100000 && mux.VerifStreamReadable(x) && !mux.VerifStreamClosed(x); guard++ {
						b := make([]byte, 1+r.intn(30000))
						k, err := x.Read(b)
						if err != nil {
							break
						}
						id := mux.VerifStreamID(x)
						got[i][id] = append(got[i][id], b[:k]...)
					}
				}
			}
		}
		for rd := 0; rd < 4+r.intn(4); rd++ {
			for i := 0; i < 2; i++ {
				for _, x := range st[i] {
					if r.intn(3) == 0 {
						continue
					}
					n := c01sizes(r, unit)
					data := r.bytes(n)
					k, _ := x.Write(data)
					id := mux.VerifStreamID(x)
					written[i][id] = append(written[i][id], data[:k]...)
				}
			}
			synctest.Wait()
			pushSome(false)
			// accept whatever arrived
			for {
				stt := mux.VerifSessionState(sesh[1])
				var q int
				fmt.Sscanf(stt[indexOf(stt, "accq=")+5:], "%d", &q)
				if q == 0 {
					break
				}
				cn, err := sesh[1].Accept()
				if err != nil {
					break
				}
				st[1] = append(st[1], cn.(*mux.Stream))
			}
			readAvail()
		}
		pushSome(true)
		for {
			stt := mux.VerifSessionState(sesh[1])
			var q int
			fmt.Sscanf(stt[indexOf(stt, "accq=")+5:], "%d", &q)
			if q == 0 {
				break
			}
			cn, err := sesh[1].Accept()
			if err != nil {
				break
			}
			st[1] = append(st[1], cn.(*mux.Stream))
		}
		readAvail()
		for i := 0; i < 2; i++ {
			if sesh[i].IsClosed() {
				c.o.V("C01 healthy-session-closed", map[string]any{"tag": tag, "side": sname(i), "terminal": sesh[i].TerminalMsg()})
			}
			for id, w := range written[1-i] {
				g := got[i][id]
				if !bytes.Equal(g, w) {
					d := 0
					for d < len(g) && d < len(w) && g[d] == w[d] {
						d++
					}
					c.o.V("C01 bytes-read-differ-from-bytes-written", map[string]any{"tag": tag, "reader": sname(i), "stream": id, "written_len": len(w), "read_len": len(g), "first_diff": d, "via": "TLSConn over a segmenting byte stream"})
				}
			}
		}
		sesh[0].Close()
		for _, e := range ends[1] {
			e.Close()
		}
		for _, e := range ends[0] {
			e.Close()
		}
		synctest.Wait()
		sesh[1].Close()
	})
	c.o.case_(tag, true)
	if s == 0 {
		c.o.sample(tag)
	}
}

// the add-vs-send publish race (DESIGN section 8 row 1): a connection is being added (parked at the
// VerifPoint inside addConn) while streams keep sending on the healthy session
func c01race(c *ctx, k int) {
	tag := fmt.Sprintf("addConn-vs-send race #%d", k)
	synctest.Run(func() {
		ps := newPairScript(c, byte(k%4), 1+k%3, false, time.Hour, tag)
		ps.open(0)
		var armed, parkedFlag int32 = 1, 0
		release := make(chan struct{})
		common.SetVerifHook(func(label string) {
			if label == "switchboard.addConn:between" && atomic.CompareAndSwapInt32(&armed, 1, 0) {
				atomic.StoreInt32(&parkedFlag, 1)
				<-release
			}
		})
		defer common.SetVerifHook(nil)
		a, b := newPair("late")
		ps.rg.S[0].conns = append(ps.rg.S[0].conns, a) // known to the rig (and tapped) before anything can be written on it
		ps.rg.S[1].conns = append(ps.rg.S[1].conns, b)
		ps.tapAll()
		done := make(chan struct{})
		go func() {
			ps.rg.S[0].sesh.AddConnection(a)
			close(done)
		}()
		synctest.Wait()
		sends := 0
		if atomic.LoadInt32(&parkedFlag) == 1 {
			for i := 0; i < 64 && !ps.rg.S[0].sesh.IsClosed(); i++ {
				ps.write(0, 1, []byte{byte(i)})
				sends++
			}
		}
		close(release)
		<-done
		ps.rg.S[1].sesh.AddConnection(b)
		synctest.Wait()
		c.o.N(fmt.Sprintf("%s: AddConnection parked inside addConn, %d sends meanwhile, session closed=%v (%s)", tag, sends, ps.rg.S[0].sesh.IsClosed(), ps.rg.S[0].sesh.TerminalMsg()))
		if ps.rg.S[0].sesh.IsClosed() {
			ps.viol("C01 healthy-session-closed", map[string]any{"side": "A", "terminal": ps.rg.S[0].sesh.TerminalMsg(), "what": "a connection was being added while streams were sending; no connection failed, nobody closed"})
		}
		ps.deliverSome(1 << 30)
		ps.acceptAll()
		ps.drainReads()
		if !ps.rg.S[0].sesh.IsClosed() {
			ps.checkDelivered("after a connection was added concurrently with sends")
		}
		ps.finish()
	})
	c.o.case_(tag, true)
}

type connShim struct{ *bconn }

func c01(c *ctx) {
	n1, n2 := 60, 60
	if c.thorough() {
		n1, n2 = 1200, 1500
	}
	for s := 0; s < n1; s++ {
		c01core(c, s)
	}
	for s := 0; s < n2; s++ {
		c01tls(c, s)
	}
	for k := 0; k < 6; k++ {
		c01race(c, k)
	}
	nb := 12
	if c.thorough() {
		nb = 150
	}
	for k := 0; k < nb; k++ {
		c01burst(c, k)
	}
	nrt := 8
	if c.thorough() {
		nrt = 80
	}
	for k := 0; k < nrt; k++ {
		c01route(c, k)
	}
	for k := 0; k < 2; k++ {
		c01staleTermination(c, k)
	}
	for k := 0; k < 2; k++ {
		c01creatorLost(c, k)
	}
	c01routeLong(c, 0)
	c01copyTruncation(c, 0)
	nsys := 6
	if c.thorough() {
		nsys = 60
	}
	for k := 0; k < nsys; k++ {
		c01system(c, k)
	}
}

// burst delivery: many records of ONE stream are handed to the deplex goroutines of several
// connections at the same time while the application reads in small pieces — real goroutine
// concurrency on the receive path (monitors only; no model rows because the schedule is the runtime's)
func c01burst(c *ctx, k int) {
	r := c.r
	nconn := 2 + r.intn(7)
	method := byte(r.intn(4))
	nframes := 1500
	tag := fmt.Sprintf("burst #%d method=%d conns=%d frames=%d", k, method, nconn, nframes)
	synctest.Run(func() {
		var key [32]byte
		copy(key[:], r.bytes(32))
		rg := newSeshPair(method, key, nconn, false, false, time.Hour)
		st, err := rg.S[0].sesh.OpenStream()
		if err != nil {
			return
		}
		var written []byte
		for f := 0; f < nframes; f++ {
			d := r.bytes(1 + r.intn(12))
			n, _ := st.Write(d)
			written = append(written, d[:n]...)
		}
		synctest.Wait()
		// collect the records in send order (sequence order) from all connections
		type rec struct {
			seq uint64
			b   []byte
		}
		var recs []rec
		for _, cn := range rg.S[0].conns {
			for {
				b := cn.pop()
				if b == nil {
					break
				}
				_, seq, _, _, err := mux.VerifDecode(method, key, b)
				if err != nil {
					c.o.V("C01 undecodable-record", map[string]any{"tag": tag})
					return
				}
				recs = append(recs, rec{seq, b})
			}
		}
		for i := range recs { // sort by seq
			for j := i + 1; j < len(recs); j++ {
				if recs[j].seq < recs[i].seq {
					recs[i], recs[j] = recs[j], recs[i]
				}
			}
		}
		var got []byte
		var gmu sync.Mutex
		done := make(chan struct{})
		var bst *mux.Stream
		go func() {
			defer close(done)
			cn, err := rg.S[1].sesh.Accept()
			if err != nil {
				return
			}
			bst = cn.(*mux.Stream)
			b := make([]byte, 8)
			for {
				n, err := bst.Read(b[:1+len(got)%7])
				if err != nil {
					return
				}
				gmu.Lock()
				got = append(got, b[:n]...)
				gmu.Unlock()
			}
		}()
		// consecutive frames go to different connections, all at once
		for i, rc := range recs {
			rg.S[1].conns[i%nconn].in <- rc.b
		}
		synctest.Wait()
		gmu.Lock()
		g := append([]byte(nil), got...)
		gmu.Unlock()
		if !bytes.Equal(g, written) {
			d := 0
			for d < len(g) && d < len(written) && g[d] == written[d] {
				d++
			}
			c.o.V("C01 bytes-read-differ-from-bytes-written", map[string]any{"tag": tag, "written_len": len(written), "read_len": len(g), "first_diff": d,
				"via": "concurrent delivery of consecutive frames on different connections with a small-read reader"})
		}
		if rg.S[0].sesh.IsClosed() || rg.S[1].sesh.IsClosed() {
			c.o.V("C01 healthy-session-closed", map[string]any{"tag": tag})
		}
		rg.S[0].sesh.Close()
		rg.S[1].sesh.Close()
		for s := 0; s < 2; s++ {
			for _, cn := range rg.S[s].conns {
				cn.Close()
			}
		}
		synctest.Wait()
		<-done
	})
	c.o.case_(tag, true)
}
