//go:build verif

package main

import (
	"errors"
	"fmt"
	"io"
	"net"
	"sync"
	"time"

	mux "github.com/cbeuw/Cloak/internal/multiplex"
)

// ---- in-memory network under harness control -------------------------------------------------
// One fconn is one endpoint of a connection. Every Write is captured as one record in `out`;
// nothing reaches the peer until the harness calls deliver(). A fault makes Read return an error
// on BOTH endpoints ("a reset or EOF seen by both ends").

type fconn struct {
	name   string
	mu     sync.Mutex
	out    [][]byte
	in     chan []byte
	dead   chan struct{}
	once   sync.Once
	peer   *fconn
	closed bool // Close() was called on this endpoint
	nClose int
	wfail  bool // next writes fail
	tap    func([]byte) // called with every record this endpoint accepts for sending
	log    *[]string
}

type faddr string

func (a faddr) Network() string { return "mem" }
func (a faddr) String() string  { return string(a) }

func newPair(name string) (*fconn, *fconn) {
	a := &fconn{name: name + "a", in: make(chan []byte, 4096), dead: make(chan struct{})}
	b := &fconn{name: name + "b", in: make(chan []byte, 4096), dead: make(chan struct{})}
	a.peer, b.peer = b, a
	return a, b
}

func (c *fconn) Read(b []byte) (int, error) {
	select {
	case r := <-c.in:
		n := copy(b, r)
		if n < len(r) {
			return n, io.ErrShortBuffer
		}
		return n, nil
	default:
	}
	select {
	case r := <-c.in:
		n := copy(b, r)
		return n, nil
	case <-c.dead:
		return 0, io.EOF
	}
}

func (c *fconn) Write(b []byte) (int, error) {
	c.mu.Lock()
	defer c.mu.Unlock()
	select {
	case <-c.dead:
		return 0, errors.New("write on dead conn")
	default:
	}
	if c.closed || c.wfail {
		return 0, errors.New("write on closed conn")
	}
	c.out = append(c.out, append([]byte(nil), b...))
	if c.tap != nil {
		c.tap(b)
	}
	return len(b), nil
}

func (c *fconn) kill() { c.once.Do(func() { close(c.dead) }) }

func (c *fconn) Close() error {
	c.mu.Lock()
	c.closed = true
	c.nClose++
	c.mu.Unlock()
	c.kill()
	return nil
}

func (c *fconn) isClosed() bool {
	c.mu.Lock()
	defer c.mu.Unlock()
	return c.closed
}

func (c *fconn) pending() int {
	c.mu.Lock()
	defer c.mu.Unlock()
	return len(c.out)
}

// pop removes the oldest undelivered record written on this endpoint.
func (c *fconn) pop() []byte {
	c.mu.Lock()
	defer c.mu.Unlock()
	if len(c.out) == 0 {
		return nil
	}
	r := c.out[0]
	c.out = c.out[1:]
	return r
}

func (c *fconn) LocalAddr() net.Addr                { return faddr(c.name) }
func (c *fconn) RemoteAddr() net.Addr               { return faddr(c.peer.name) }
func (c *fconn) SetDeadline(t time.Time) error      { return nil }
func (c *fconn) SetReadDeadline(t time.Time) error  { return nil }
func (c *fconn) SetWriteDeadline(t time.Time) error { return nil }

// ---- a pair of real sessions wired through fconns ---------------------------------------------

type side struct {
	name    string
	sesh    *mux.Session
	conns   []*fconn // this side's endpoints
	streams map[uint32]*mux.Stream
}

type seshPair struct {
	method byte
	key    [32]byte
	S      [2]*side
}

func newSeshPair(method byte, key [32]byte, nconn int, singleplex, unordered bool, inactivity time.Duration) *seshPair {
	rg := &seshPair{method: method, key: key}
	for i := 0; i < 2; i++ {
		ob, err := mux.MakeObfuscator(method, key)
		if err != nil {
			panic(err)
		}
		cfg := mux.SessionConfig{Obfuscator: ob, Singleplex: singleplex, Unordered: unordered, InactivityTimeout: inactivity, MsgOnWireSizeLimit: 16401}
		rg.S[i] = &side{name: string(rune('A' + i)), sesh: mux.MakeSession(uint32(7), cfg), streams: map[uint32]*mux.Stream{}}
	}
	for k := 0; k < nconn; k++ {
		rg.addConn(k)
	}
	return rg
}

func (rg *seshPair) addConn(k int) {
	a, b := newPair(fmt.Sprintf("c%d", k))
	rg.S[0].conns = append(rg.S[0].conns, a)
	rg.S[1].conns = append(rg.S[1].conns, b)
	rg.S[0].sesh.AddConnection(a)
	rg.S[1].sesh.AddConnection(b)
}

// deliver moves the oldest record written by side `from` on connection k to the peer's reader.
// returns the decoded frame header for the op line, or ok=false if nothing was pending.
func (rg *seshPair) deliver(from, k int) (rec []byte, ok bool) {
	c := rg.S[from].conns[k]
	r := c.pop()
	if r == nil {
		return nil, false
	}
	select {
	case <-c.peer.dead:
		return r, true // peer endpoint gone: the record is lost in the network
	default:
	}
	c.peer.in <- r
	return r, true
}

// fault kills connection k on both ends; undelivered records are lost.
func (rg *seshPair) fault(k int) {
	rg.S[0].conns[k].kill()
	rg.S[1].conns[k].kill()
}

// propagate: a Close() on one endpoint is eventually seen by the other as EOF.
func (rg *seshPair) propagate() int {
	n := 0
	for s := 0; s < 2; s++ {
		for _, c := range rg.S[s].conns {
			if c.isClosed() {
				select {
				case <-c.peer.dead:
				default:
					c.peer.kill()
					n++
				}
			}
		}
	}
	return n
}
