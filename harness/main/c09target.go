//go:build verif

package main

// C09 (links to C07/C06) — "the configured redirect target": the server's configuration loading
// (server.parseRedirAddr, parseProxyBook, InitState, State.IsBypass) and the address goWeb really dials for an
// unauthenticated peer (real dispatchConnection with a recording RedirDialer), compared with Model/ServerConfig.lean
// (driver ops scfg.*).  The resolvers are external to the model: every op line carries an oracle table computed here
// with Go's own net.Resolve*Addr for the candidate hosts.
//
// Monitors (property text only): for a RedirAddr written in one of the documented forms (host, host:port, [v6]:port,
// bare v6) from a host h and a port p, an unauthenticated peer is relayed to h's address at port p — or at the port of
// the connection's local address when no port was configured — and to nothing else; loading never panics.

import (
	"errors"
	"fmt"
	"net"
	"os"
	"path/filepath"
	"sort"
	"strings"
	"time"

	"github.com/cbeuw/Cloak/internal/common"
	"github.com/cbeuw/Cloak/internal/server"
)

func init() { scenarios["C09target"] = c09target }

type recDialer struct{ dials []string }

func (d *recDialer) Dial(network, address string) (net.Conn, error) {
	d.dials = append(d.dials, network+" "+address)
	return nil, errors.New("connection refused")
}

func t9hxs(s string) string {
	if s == "" {
		return "-"
	}
	return hx([]byte(s))
}

func t9hxb(b []byte) string {
	if len(b) == 0 {
		return "-"
	}
	return hx(b)
}

// resolveIP is Go's own resolver (not Cloak code): the oracle of the model
func oracleIP(h string) (string, bool) {
	a, err := net.ResolveIPAddr("ip", h)
	if err != nil {
		return "", false
	}
	return a.String(), true
}

// candidate hosts of s: s[a:b] with a in {0,1}, b a position of ':' or ']' or the end
func redirCandidates(s string) []string {
	seen := map[string]bool{}
	var out []string
	add := func(x string) {
		if !seen[x] {
			seen[x] = true
			out = append(out, x)
		}
	}
	ends := []int{len(s)}
	for i := 0; i < len(s); i++ {
		if s[i] == ':' || s[i] == ']' {
			ends = append(ends, i)
		}
	}
	for _, a := range []int{0, 1} {
		for _, b := range ends {
			if a <= b && a <= len(s) {
				add(s[a:b])
			}
		}
	}
	return out
}

var oracleCache = map[string]string{}

func redirOracle(s string) string {
	var items []string
	for _, h := range redirCandidates(s) {
		v, ok := oracleCache[h]
		if !ok {
			if c, good := oracleIP(h); good {
				v = t9hxs(c)
				if c == "" {
					v = "" // the empty address: hex of nothing
				}
			} else {
				v = "!"
			}
			oracleCache[h] = v
		}
		k := hx([]byte(h))
		items = append(items, k+":"+v)
	}
	if len(items) == 0 {
		return "-"
	}
	return strings.Join(items, ",")
}

func (c *ctx) t9pick(xs []string) string { return xs[c.r.intn(len(xs))] }

func c09tHost(c *ctx) (h string, v6 bool) {
	switch c.r.intn(12) {
	case 0, 1, 2:
		return fmt.Sprintf("%d.%d.%d.%d", c.r.intn(256), c.r.intn(256), c.r.intn(256), c.r.intn(256)), false
	case 3:
		return c.t9pick([]string{"127.0.0.1", "0.0.0.0", "255.255.255.255", "10.0.0.1"}), false
	case 4:
		return c.t9pick([]string{"::1", "::", "2001:db8::1", "fe80::1", "::ffff:1.2.3.4", "2001:db8:0:0:0:0:0:1", "1:2:3:4:5:6:7:8", "2001:DB8::A", "0:0:0:0:0:0:0:1", "::1:80"}), true
	case 5, 6:
		// random v6, possibly compressed
		var g []string
		n := 8
		for i := 0; i < n; i++ {
			g = append(g, fmt.Sprintf("%x", c.r.intn(65536)>>uint(c.r.intn(3)*6)))
		}
		if c.r.intn(2) == 0 {
			a := c.r.intn(7)
			b := a + 1 + c.r.intn(7-a)
			l := strings.Join(g[:a], ":")
			r := strings.Join(g[b:], ":")
			return l + "::" + r, true
		}
		return strings.Join(g, ":"), true
	case 7:
		return c.t9pick([]string{"fe80::1%eth0", "fe80::1%1", "fe80::abcd%lo", "ff02::1%en0"}), true
	case 8:
		return c.t9pick([]string{"localhost", "LOCALHOST", "vm"}), false
	case 9:
		return c.t9pick([]string{"example.invalid", "no-such-host.invalid", "a.b", "1.2.3", "1.2.3.4.5", "256.1.1.1", "1.2.3.4%eth0"}), false
	case 10:
		return c.t9pick([]string{"::g", "1::2::3", "12345::1", ":::", "1:2:3:4:5:6:7:8:9", "fe80::1%"}), true
	}
	return fmt.Sprintf("%d.%d.%d.%d", 1+c.r.intn(223), c.r.intn(256), c.r.intn(256), 1+c.r.intn(254)), false
}

func c09tPort(c *ctx) string {
	switch c.r.intn(8) {
	case 0:
		return "443"
	case 1:
		return "80"
	case 2:
		return "http"
	case 3:
		return "0"
	case 4:
		return "65535"
	}
	return fmt.Sprint(1 + c.r.intn(65535))
}

type c09tCase struct {
	s          string
	form       string
	documented bool
	h, p       string // intended host / port of a documented form
}

func c09tCases(c *ctx) []c09tCase {
	var cs []c09tCase
	n := 160
	if c.thorough() {
		n = 1500
	}
	for i := 0; i < n; i++ {
		h, v6 := c09tHost(c)
		p := c09tPort(c)
		switch {
		case !v6 && c.r.intn(2) == 0:
			cs = append(cs, c09tCase{h, "host", true, h, ""})
		case !v6:
			cs = append(cs, c09tCase{h + ":" + p, "host:port", true, h, p})
		case c.r.intn(2) == 0 && strings.Count(h, ":") >= 2:
			cs = append(cs, c09tCase{h, "bare-v6", true, h, ""})
		default:
			cs = append(cs, c09tCase{"[" + h + "]:" + p, "[v6]:port", true, h, p})
		}
	}
	// outside the documented forms
	fixed := []string{"", ":", ":80", "::", "[::1]", "[::1]:", "[::1", "::1]", "::1]:80", "[[::1]]:80", "[::1]:80:90", "x[::1]:80", "[::1]x:80",
		"[1.2.3.4]:80", "[1.2.3.4]", "1.2.3.4:", "1.2.3.4:80:90", "1.2.3.4::80", "localhost:", "[localhost]:80", "[]:80", "[]", "[:]:80", "[::]:80]:80",
		"[fe80::1%eth0]", "fe80::1%eth0:80", "[::1]:80]", " 1.2.3.4", "1.2.3.4 ", "1.2.3.4:80 ", "[::1] :80", "1.2.3.4:[80]", "[1.2.3.4:80]", "]:80", "[:80", "[::1]:[80]",
		"a]:80[b::", "::ffff:1.2.3.4:80", "[::ffff:1.2.3.4]:80", "::1:", "[::1]::", "::]:"}
	for _, s := range fixed {
		cs = append(cs, c09tCase{s: s, form: "fixed-odd"})
	}
	m := 80
	if c.thorough() {
		m = 1200
	}
	alpha := "[]::%.01fa: "
	for i := 0; i < m; i++ {
		base := cs[c.r.intn(n)].s
		b := []byte(base)
		switch c.r.intn(4) {
		case 0: // delete a byte
			if len(b) > 0 {
				k := c.r.intn(len(b))
				b = append(b[:k:k], b[k+1:]...)
			}
		case 1: // insert a byte
			k := c.r.intn(len(b) + 1)
			b = append(b[:k:k], append([]byte{alpha[c.r.intn(len(alpha))]}, b[k:]...)...)
		case 2: // replace
			if len(b) > 0 {
				b[c.r.intn(len(b))] = alpha[c.r.intn(len(alpha))]
			}
		case 3: // random over the alphabet
			b = b[:0]
			for j := c.r.intn(9); j > 0; j-- {
				b = append(b, alpha[c.r.intn(len(alpha))])
			}
		}
		cs = append(cs, c09tCase{s: string(b), form: "mutated"})
	}
	return cs
}

func c09tInitErrStage(err error) string {
	m := err.Error()
	switch {
	case strings.HasPrefix(m, "command & control"):
		return "cnc"
	case strings.HasPrefix(m, "unable to parse RedirAddr"):
		return "redir"
	case strings.HasPrefix(m, "unable to parse ProxyBook"):
		return "book"
	case strings.HasPrefix(m, "must have a valid private key"):
		return "key"
	}
	return "db"
}

func c09tShowBook(b map[string]string) string {
	var items []string
	for k, v := range b {
		items = append(items, hx([]byte(k))+">"+hx([]byte(v)))
	}
	if len(items) == 0 {
		return "-"
	}
	sort.Strings(items)
	return strings.Join(items, ",")
}

type c09tEnt struct {
	name string
	pair []string
}

func c09tEntsString(es []c09tEnt) string {
	if len(es) == 0 {
		return "-"
	}
	var out []string
	for _, e := range es {
		it := []string{hx([]byte(e.name))}
		for _, p := range e.pair {
			it = append(it, hx([]byte(p)))
		}
		out = append(out, strings.Join(it, "/"))
	}
	return strings.Join(out, ";")
}

// oracle for the ProxyBook resolvers: Go's own net.ResolveTCPAddr / ResolveUDPAddr on every address of every pair
func c09tBookOracle(es []c09tEnt) string {
	seen := map[string]bool{}
	var items []string
	for _, e := range es {
		for _, a := range e.pair {
			for _, r := range []string{"ResolveTCPAddr:tcp", "ResolveUDPAddr:udp"} {
				k := r + "|" + a
				if seen[k] {
					continue
				}
				seen[k] = true
				var addr net.Addr
				var err error
				if strings.HasPrefix(r, "ResolveTCP") {
					var t *net.TCPAddr
					t, err = net.ResolveTCPAddr("tcp", a)
					addr = t
				} else {
					var u *net.UDPAddr
					u, err = net.ResolveUDPAddr("udp", a)
					addr = u
				}
				v := "!"
				if err == nil {
					v = hx([]byte(server.VerifAddrString(addr)))
				}
				items = append(items, hx([]byte(k))+":"+v)
			}
		}
	}
	if len(items) == 0 {
		return "-"
	}
	return strings.Join(items, ",")
}

func c09tGenBook(c *ctx) []c09tEnt {
	names := []string{"shadowsocks", "Shadowsocks", "OpenVPN-TCP", "openvpn", "SS", "tor", "X", "a_b", "UPPER", "MiXeD9"}
	nets := []string{"tcp", "udp", "TCP", "Udp", "tcp", "udp", "tcp4", "unix", "", "tcp ", "ip", "UDP6"}
	addrs := []string{"127.0.0.1:8388", "127.0.0.1:1194", "[::1]:9001", "10.0.0.5:53", "1.2.3.4:http", "localhost:80", ":5000", "[fe80::1%eth0]:22",
		"127.0.0.1", "1.2.3.4:99999", "nohost.invalid:80", "", "::1:80", "1.2.3.4:-1"}
	var es []c09tEnt
	used := map[string]bool{}
	for n := c.r.intn(5); n > 0; n-- {
		nm := c.t9pick(names)
		if used[strings.ToLower(nm)] { // Go's map iteration order decides which of two entries with one lower-cased name wins: not generated
			continue
		}
		used[strings.ToLower(nm)] = true
		var pair []string
		switch c.r.intn(10) {
		case 0:
			pair = []string{c.t9pick(nets)}
		case 1:
			pair = []string{c.t9pick(nets), c.t9pick(addrs), c.t9pick(addrs)}
		case 2:
			pair = nil
		default:
			a := c.t9pick(addrs)
			if c.r.intn(3) > 0 {
				a = addrs[c.r.intn(8)]
			}
			nw := c.t9pick(nets)
			if c.r.intn(3) > 0 {
				nw = nets[c.r.intn(6)]
			}
			pair = []string{nw, a}
		}
		es = append(es, c09tEnt{nm, pair})
	}
	return es
}

func c09target(c *ctx) {
	o := c.o
	world := common.WorldState{Rand: rngReader{c.r.fork()}, Now: time.Now}
	pv := c.r.bytes(32)

	// ---------- RedirAddr → State → the address goWeb dials ----------
	for _, tc := range c09tCases(c) {
		res := redirOracle(tc.s)
		host, port, err, pan := server.VerifParseRedirAddr(tc.s)
		impl := ""
		switch {
		case pan != nil:
			impl = "panic"
		case err != nil:
			impl = "err"
		default:
			impl = fmt.Sprintf("ok host=%s port=%s", hx([]byte(host)), hx([]byte(port)))
		}
		o.T(fmt.Sprintf("scfg.redir s=%s res=%s", t9hxs(tc.s), res), impl)
		if pan != nil {
			o.V("C09 panic parseRedirAddr", map[string]any{"RedirAddr": tc.s, "panic": fmt.Sprint(pan)})
			continue
		}
		// the whole way: InitState, then an unauthenticated peer through the real dispatchConnection
		local := c.t9pick([]string{"10.1.1.1:443", "10.1.1.1:80", "10.1.1.1:8443", "[2001:db8::5]:443", "[::1]:" + fmt.Sprint(1+c.r.intn(65535)), "10.1.1.1:" + fmt.Sprint(1+c.r.intn(65535))})
		if c.r.intn(12) == 0 {
			local = c.t9pick([]string{"pipe", "", "10.1.1.1"})
		}
		_, lport, _ := net.SplitHostPort(local) // external to the model: the port of the connection's local address
		var dials []string
		var initErr error
		var pan2 any
		func() {
			defer func() {
				if r := recover(); r != nil {
					pan2 = r
				}
			}()
			var sta *server.State
			sta, initErr = server.InitState(server.RawConfig{PrivateKey: pv, RedirAddr: tc.s}, world)
			if initErr != nil {
				return
			}
			d := &recDialer{}
			sta.RedirDialer = d
			peer := newDuplexEnd(local, "10.9.9.9:51000")
			peer.feed([]byte{byte(c.r.intn(256)) &^ 0x56}) // neither 0x16 nor 0x47: unrecognised protocol, relayed at once
			server.VerifDispatch(peer, sta)
			dials = d.dials
		}()
		switch {
		case pan2 != nil:
			impl = "panic"
		case initErr != nil:
			impl = "err"
		case len(dials) == 1:
			sp := strings.SplitN(dials[0], " ", 2)
			impl = "dial " + sp[0] + " " + t9hxs(sp[1])
		default:
			impl = fmt.Sprintf("dials=%d", len(dials))
		}
		o.T(fmt.Sprintf("scfg.dial s=%s res=%s lport=%s", t9hxs(tc.s), res, t9hxs(lport)), impl)
		o.case_("redir|"+tc.s+"|"+local, true)
		o.stat("redir_form_"+tc.form, 1)
		o.stat("redir_"+strings.SplitN(impl, " ", 2)[0], 1)
		if pan2 != nil {
			o.V("C09 panic config-load-or-dispatch", map[string]any{"RedirAddr": tc.s, "panic": fmt.Sprint(pan2)})
			continue
		}
		if tc.documented {
			canon, resolves := oracleIP(tc.h)
			detail := map[string]any{"RedirAddr": tc.s, "form": tc.form, "configured_host": tc.h, "configured_port": tc.p, "host_resolves_to": canon,
				"local_addr": local, "dialled": dials, "init_error": fmt.Sprint(initErr)}
			if resolves {
				wantPort := tc.p
				if wantPort == "" {
					wantPort = lport
				}
				want := "tcp " + net.JoinHostPort(canon, wantPort)
				if initErr != nil {
					o.V("C09 documented-redirect-address-refused", detail)
				} else if len(dials) != 1 || dials[0] != want {
					detail["expected"] = want
					o.V("C09 wrong-redirect-target configured-address-misparsed", detail)
				}
			} else if initErr == nil {
				// the configured host does not resolve, and yet the server came up and relays somewhere
				detail["note"] = "the configured host does not resolve; the server started and relays to another address"
				o.V("C09 wrong-redirect-target unresolvable-host-accepted", detail)
			}
			if len(o.samples) < 3 {
				o.sample(fmt.Sprintf("RedirAddr %q local %s -> %v", tc.s, local, dials))
			}
		}
	}

	// ---------- BypassUID / AdminUID table and IsBypass ----------
	nb := 60
	if c.thorough() {
		nb = 600
	}
	lens := []int{0, 1, 3, 15, 16, 16, 16, 16, 17, 20, 32}
	for i := 0; i < nb; i++ {
		var tab [][]byte
		for n := c.r.intn(5); n > 0; n-- {
			tab = append(tab, c.r.bytes(lens[c.r.intn(len(lens))]))
		}
		if c.r.intn(4) == 0 && len(tab) > 0 { // an entry with trailing zeros / a prefix of another
			e := tab[c.r.intn(len(tab))]
			if len(e) > 2 {
				tab = append(tab, e[:len(e)/2])
			}
		}
		var admin []byte
		if c.r.intn(2) == 0 {
			admin = c.r.bytes([]int{16, 16, 16, 5, 20}[c.r.intn(5)])
		}
		sta, err := server.InitState(server.RawConfig{PrivateKey: pv, RedirAddr: "127.0.0.1", BypassUID: tab, AdminUID: admin}, world)
		if err != nil {
			o.V("C09 documented-redirect-address-refused", map[string]any{"RedirAddr": "127.0.0.1", "init_error": err.Error()})
			continue
		}
		all := append(append([][]byte{}, tab...), admin)
		var tabS []string
		for _, e := range tab {
			tabS = append(tabS, hx(e))
		}
		tabStr := strings.Join(tabS, ",")
		if len(tab) == 0 {
			tabStr = "-"
		}
		for j := 0; j < 8; j++ {
			var uid []byte
			e := all[c.r.intn(len(all))]
			switch c.r.intn(8) {
			case 0:
				uid = append([]byte(nil), e...)
			case 1: // zero-padded to 16
				uid = make([]byte, 16)
				copy(uid, e)
			case 2: // one byte changed
				uid = make([]byte, 16)
				copy(uid, e)
				uid[c.r.intn(16)] ^= byte(1 + c.r.intn(255))
			case 3: // a short entry completed by the tail of the entry before it (the pinned C07 defect)
				uid = make([]byte, 16)
				copy(uid, all[c.r.intn(len(all))])
				copy(uid, e)
			case 4:
				uid = c.r.bytes(16)
			case 5: // longer than 16: only the first 16 count
				uid = make([]byte, 16)
				copy(uid, e)
				uid = append(uid, c.r.bytes(1+c.r.intn(4))...)
			case 6:
				uid = make([]byte, 16)
			default:
				uid = c.r.bytes(c.r.intn(20))
			}
			got := sta.IsBypass(uid)
			o.T(fmt.Sprintf("scfg.bypass tab=%s admin=%s uid=%s", tabStr, t9hxb(admin), t9hxb(uid)), map[bool]string{true: "1", false: "0"}[got])
			o.case_("bypass|"+tabStr+"|"+hx(admin)+"|"+hx(uid), true)
			o.stat(fmt.Sprintf("bypass_%v", got), 1)
			// monitor (C07's "a UID the server currently authorises", as far as the text goes): among well-formed 16-byte UIDs,
			// exactly the configured ones are bypass users
			if len(uid) == 16 {
				listed, wellFormed := false, true
				for k, x := range all {
					if len(x) == 0 && k == len(all)-1 { // no AdminUID configured
						continue
					}
					if len(x) != 16 {
						wellFormed = false
					}
					if string(x) == string(uid) {
						listed = true
					}
				}
				if wellFormed && listed != got {
					o.V("C09 bypass-table-differs-from-configuration (C07 link)", map[string]any{"BypassUID": tabS, "AdminUID": hx(admin), "uid": hx(uid), "IsBypass": got, "configured": listed})
				}
			}
		}
	}

	// ---------- ProxyBook ----------
	nk := 120
	if c.thorough() {
		nk = 1200
	}
	for i := 0; i < nk; i++ {
		es := c09tGenBook(c)
		m := map[string][]string{}
		for _, e := range es {
			m[e.name] = e.pair
		}
		book, err, pan := server.VerifParseProxyBook(m)
		impl := ""
		switch {
		case pan != nil:
			impl = "panic"
		case err != nil:
			impl = "err"
		default:
			impl = "ok " + c09tShowBook(book)
		}
		o.T(fmt.Sprintf("scfg.book ents=%s res=%s", c09tEntsString(es), c09tBookOracle(es)), impl)
		o.case_("book|"+c09tEntsString(es), len(es) > 0)
		o.stat("book_"+strings.SplitN(impl, " ", 2)[0], 1)
		if pan != nil {
			o.V("C09 panic parseProxyBook", map[string]any{"ProxyBook": m, "panic": fmt.Sprint(pan)})
		}
	}

	// ---------- InitState as a whole ----------
	ni := 60
	if c.thorough() {
		ni = 500
	}
	tmp, _ := os.MkdirTemp("", "c09target")
	defer os.RemoveAll(tmp)
	for i := 0; i < ni; i++ {
		raw := server.RawConfig{PrivateKey: pv, RedirAddr: "127.0.0.1"}
		if c.r.intn(5) == 0 {
			raw.PrivateKey = c.r.bytes([]int{0, 0, 5, 31, 33, 40}[c.r.intn(6)])
		}
		if c.r.intn(8) == 0 {
			raw.CncMode = true
		}
		raw.KeepAlive = []int{0, 0, -1, -5, 1, 15, 300, 86400}[c.r.intn(8)]
		if c.r.intn(3) == 0 {
			cs := c09tCases(&ctx{tier: "quick", r: c.r})
			raw.RedirAddr = cs[c.r.intn(len(cs))].s
		}
		es := c09tGenBook(c)
		if c.r.intn(2) == 0 {
			es = es[:0]
			if c.r.intn(2) == 0 {
				es = append(es, c09tEnt{"Shadowsocks", []string{"TCP", "127.0.0.1:8388"}})
			}
		}
		raw.ProxyBook = map[string][]string{}
		for _, e := range es {
			raw.ProxyBook[e.name] = e.pair
		}
		for n := c.r.intn(3); n > 0; n-- {
			raw.BypassUID = append(raw.BypassUID, c.r.bytes([]int{16, 16, 3, 20}[c.r.intn(4)]))
		}
		if c.r.intn(2) == 0 {
			raw.AdminUID = c.r.bytes(16)
		}
		dbOpens := true
		switch c.r.intn(6) {
		case 0: // a database that opens (few: each one keeps a bbolt file open)
			if i < 12 && len(raw.AdminUID) > 0 {
				raw.DatabasePath = filepath.Join(tmp, fmt.Sprintf("u%d.db", i))
			}
		case 1: // a database that cannot be opened
			raw.DatabasePath = filepath.Join(tmp, "no-such-dir", "u.db")
			dbOpens = false
		}
		var tabS []string
		for _, e := range raw.BypassUID {
			tabS = append(tabS, hx(e))
		}
		byp := strings.Join(tabS, ",")
		if len(tabS) == 0 {
			byp = "-"
		}
		op := fmt.Sprintf("scfg.init cnc=%d admin=%s dbempty=%d dbopens=%d ka=%d key=%s redir=%s res=%s ents=%s bres=%s byp=%s",
			map[bool]int{true: 1, false: 0}[raw.CncMode], t9hxb(raw.AdminUID), map[bool]int{true: 1, false: 0}[raw.DatabasePath == ""],
			map[bool]int{true: 1, false: 0}[dbOpens], raw.KeepAlive, t9hxb(raw.PrivateKey), t9hxs(raw.RedirAddr), redirOracle(raw.RedirAddr),
			c09tEntsString(es), c09tBookOracle(es), byp)
		var sta *server.State
		var err error
		var pan any
		func() {
			defer func() {
				if r := recover(); r != nil {
					pan = r
				}
			}()
			sta, err = server.InitState(raw, world)
		}()
		impl := ""
		switch {
		case pan != nil:
			impl = "err=panic"
			o.V("C09 panic InitState", map[string]any{"config": fmt.Sprintf("%+v", raw), "panic": fmt.Sprint(pan)})
		case err != nil:
			impl = "err=" + c09tInitErrStage(err)
		default:
			v := server.VerifViewState(sta)
			impl = fmt.Sprintf("ok void=%d ka=%d host=%s port=%s pv=%s admin=%s nkeys=%d book=%s", map[bool]int{true: 1, false: 0}[v.VoidManager], v.ProxyKeepAlive,
				hx([]byte(v.RedirHost)), hx([]byte(v.RedirPort)), hx(v.Pv), hx(v.Admin), v.NKeys, c09tShowBook(v.Book))
		}
		o.T(op, impl)
		o.case_("init|"+op, true)
		o.stat("init_"+strings.SplitN(impl, " ", 2)[0], 1)
	}
}
