//go:build verif

package main

import (
	"fmt"
	"time"

	mux "github.com/cbeuw/Cloak/internal/multiplex"
)

// C02 "a stream-closing frame takes effect only once every lower-numbered frame has been handed over", with two
// receive loops delivering CONSECUTIVE frames at the same time (frames of one stream travel on different connections):
// frame k is on its way into the byte pipe — the pipe's mutex is held, as a reader copying out holds it — when the
// closing frame k+1 arrives on another connection.  The closing frame may not be reported as effective (nor may a data
// frame k+1 overtake) before frame k is in the pipe.  Real goroutines, real mutexes; monitors only.
func c02concurrent(c *ctx, k int) {
	r := c.r
	base := uint64(r.intn(5))
	closing := k%2 == 0
	sb := mux.VerifNewSB(base)
	release := sb.HoldPipe()
	p0 := r.bytes(1 + r.intn(20))
	p1 := r.bytes(1 + r.intn(20))
	r0, r1 := make(chan string, 1), make(chan string, 1)
	go func() { r0 <- sb.Write(base, 0, append([]byte(nil), p0...)) }()
	// the first deliverer must be inside streamBuffer.Write (it holds recvM and waits for the pipe's mutex) before the second
	// one starts: decided by looking at the mutex, not by the clock (a 20 ms sleep let the second deliverer win the race for
	// recvM on a machine loaded to several times its cores - its frame was then parked, correctly, and reported as an alarm)
	inside := false
	for i := 0; i < 200000 && !inside; i++ {
		inside = sb.RecvLocked()
		if !inside {
			time.Sleep(50 * time.Microsecond)
		}
	}
	if !inside {
		release()
		<-r0
		c.o.N("C02 concurrent pair: the first deliverer never entered Write - case skipped")
		return
	}
	cl := uint8(0)
	if closing {
		cl = 1
	}
	go func() { r1 <- sb.Write(base+1, cl, append([]byte(nil), p1...)) }()
	early := ""
	select {
	case early = <-r1:
	case <-time.After(60 * time.Millisecond):
	}
	release()
	res0 := <-r0
	res1 := early
	if res1 == "" {
		res1 = <-r1
	}
	var got []byte
	for {
		st, b := sb.Read(1 << 10)
		if st != "data" {
			break
		}
		got = append(got, b...)
	}
	want := append([]byte(nil), p0...)
	if !closing {
		want = append(want, p1...)
	}
	bad := ""
	switch {
	case early != "" && closing:
		bad = "the closing frame was reported effective (" + early + ") while the lower-numbered frame was still on its way into the pipe"
	case early != "" && !closing:
		bad = "frame k+1 was accepted (" + early + ") and handed over while frame k was still on its way into the pipe"
	}
	if bad == "" && (fmt.Sprint(got) != fmt.Sprint(want) || res0 == "errOld" || res1 == "errOld") {
		bad = "the reader did not get the payloads in sequence order"
	}
	if bad != "" {
		c.o.V("C02 concurrent-delivery-of-consecutive-frames", map[string]any{"case": k, "base": base, "second_frame_closing": closing, "what": bad,
			"first_result": res0, "second_result": res1, "got": hx(got), "want": hx(want),
			"replay": "hold the pipe mutex; goroutine 1: streamBuffer.Write(frame k); once it holds recvM, goroutine 2: streamBuffer.Write(frame k+1); 60 ms; release"})
	}
	c.o.stat("concurrent_pairs", 1)
	c.o.case_(fmt.Sprintf("conc/%d/%v", k, closing), true)
}
