//go:build verif

package main

import (
	"encoding/base64"
	"encoding/json"
	"fmt"
	"net"
	"os"
	"reflect"
	"strings"
	"time"

	"github.com/cbeuw/Cloak/internal/client"
	"github.com/cbeuw/Cloak/internal/common"
	mux "github.com/cbeuw/Cloak/internal/multiplex"
	"golang.org/x/crypto/curve25519"
)

func init() { scenarios["C20"] = c20 }

// ---- C20: client configuration honoured as documented, in both input syntaxes ----
//
// A logical configuration (which options are present, with which values) is rendered twice: as a JSON object
// and as the semicolon-separated option string plugin hosts produce ('=' inside values escaped as `\=`).
// Real code: json.Unmarshal into client.RawConfig / client.ParseConfig(file) for the JSON syntax,
// client.ParseConfig(optionString) for the other, then RawConfig.ProcessRawConfig.  T rows (ops "cfg.*") are
// compared with the Lean model.  The monitor is the README's description of each option evaluated on the
// processed structs, independent of the model; plus: both syntaxes give the same RawConfig; invalid or
// incomplete configurations give an error, never a panic.  Further: configuration files whose top-level JSON value is
// not an object (null, [], "x", ...) must end in an error, never in a nil configuration with a nil error; the first
// connection made with an accepted configuration (makeAuthenticationPayload) must not panic; the server name `random`
// must not be sent literally; a value with an escaped semicolon must mean the same in both syntaxes.

type c20Opt struct {
	key  string
	kind byte // 's' string, 'i' int, 'b' bool, 'y' bytes (base64), 'n' names
	s    string
	i    int
	b    bool
	y    []byte
	n    []string
}

type c20Conf []c20Opt

func (c c20Conf) get(key string) *c20Opt {
	for i := range c {
		if c[i].key == key {
			return &c[i]
		}
	}
	return nil
}
func (c c20Conf) str(key string) string {
	if o := c.get(key); o != nil {
		return o.s
	}
	return ""
}

func (c c20Conf) toJSON() string {
	var parts []string
	for _, o := range c {
		k, _ := json.Marshal(o.key)
		var v string
		switch o.kind {
		case 's':
			b, _ := json.Marshal(o.s)
			v = string(b)
		case 'i':
			v = fmt.Sprint(o.i)
		case 'b':
			v = fmt.Sprint(o.b)
		case 'y':
			v = `"` + base64.StdEncoding.EncodeToString(o.y) + `"`
		case 'n':
			b, _ := json.Marshal(o.n)
			v = string(b)
		}
		parts = append(parts, string(k)+":"+v)
	}
	return "{" + strings.Join(parts, ",") + "}"
}

// the option string as Shadowsocks plugin hosts build it: key=value; with '=' of the value escaped
func (c c20Conf) toSSV() string {
	var b strings.Builder
	// SIP003 plugin-option escaping: `\` -> `\\`, `=` -> `\=`, `;` -> `\;` (the three pairs ssvToJson's unescape names)
	esc := func(s string) string {
		s = strings.ReplaceAll(s, `\`, `\\`)
		s = strings.ReplaceAll(s, "=", `\=`)
		return strings.ReplaceAll(s, ";", `\;`)
	}
	for _, o := range c {
		var v string
		switch o.kind {
		case 's':
			v = o.s
		case 'i':
			v = fmt.Sprint(o.i)
		case 'b':
			v = fmt.Sprint(o.b)
		case 'y':
			v = base64.StdEncoding.EncodeToString(o.y)
		case 'n':
			v = strings.Join(o.n, ",")
		}
		b.WriteString(o.key + "=" + esc(v) + ";")
	}
	return b.String()
}

func c20hexList(xs []string) string {
	if len(xs) == 0 {
		return "-"
	}
	h := make([]string, len(xs))
	for i, x := range xs {
		h[i] = hx([]byte(x))
	}
	return strings.Join(h, ",")
}

func c20b(b bool) string {
	if b {
		return "1"
	}
	return "0"
}

func c20Op(raw *client.RawConfig) string {
	h := func(s string) string { return hx([]byte(s)) }
	return fmt.Sprintf("cfg.process sn=%s pm=%s em=%s uid=%s pk=%s nc=%d lh=%s lp=%s rh=%s rp=%s alt=%s udp=%s bs=%s tr=%s ch=%s cp=%s st=%d ka=%d",
		h(raw.ServerName), h(raw.ProxyMethod), h(raw.EncryptionMethod), hx(raw.UID), hx(raw.PublicKey), raw.NumConn,
		h(raw.LocalHost), h(raw.LocalPort), h(raw.RemoteHost), h(raw.RemotePort), c20hexList(raw.AlternativeNames), c20b(raw.UDP),
		h(raw.BrowserSig), h(raw.Transport), h(raw.CDNOriginHost), h(raw.CDNWsUrlPath), raw.StreamTimeout, raw.KeepAlive)
}

type c20Result struct {
	ok     bool
	errCls string
	panic  string
	local  client.LocalConnConfig
	remote client.RemoteConnConfig
	auth   client.AuthInfo
}

func c20Process(raw client.RawConfig) (res c20Result) {
	raw.AlternativeNames = append([]string(nil), raw.AlternativeNames...) // ProcessRawConfig rewrites the slice header only, keep ours
	defer func() {
		if r := recover(); r != nil {
			res.panic = fmt.Sprint(r)
		}
	}()
	l, rm, a, err := raw.ProcessRawConfig(common.WorldOfTime(time.Unix(1600000000, 0)))
	if err != nil {
		m := err.Error()
		switch {
		case strings.HasSuffix(m, " cannot be empty"):
			res.errCls = "empty:" + strings.TrimSuffix(m, " cannot be empty")
		case strings.HasPrefix(m, "failed to unmarshal Public key"):
			res.errCls = "badkey"
		case strings.HasPrefix(m, "unknown encryption method"):
			res.errCls = "unknownmethod"
		default:
			res.errCls = "other:" + m
		}
		return
	}
	res.ok, res.local, res.remote, res.auth = true, l, rm, a
	return
}

func (r *c20Result) show() string {
	if r.panic != "" {
		return "panic " + r.panic
	}
	if !r.ok {
		return "err " + r.errCls
	}
	h := func(s string) string { return hx([]byte(s)) }
	mode, ws, br := client.VerifC20Transport(r.remote.Transport)
	tr := "mode=" + mode + " br=" + br
	if mode == "cdn" {
		tr = "mode=cdn ws=" + h(ws)
	}
	pk := "?"
	if p, ok := r.auth.ServerPubKey.(*[32]byte); ok && p != nil {
		pk = hx(p[:])
	}
	return fmt.Sprintf("ok la=%s to=%d mock=%s sp=%s nc=%d ka=%d ra=%s %s uid=%s pm=%s enc=%d un=%s pk=%s md=%s",
		h(r.local.LocalAddr), int64(r.local.Timeout), c20hexList(r.local.MockDomainList), c20b(r.remote.Singleplex), r.remote.NumConn,
		int64(r.remote.KeepAlive), h(r.remote.RemoteAddr), tr, hx(r.auth.UID), h(r.auth.ProxyMethod), r.auth.EncryptionMethod,
		c20b(r.auth.Unordered), pk, h(r.auth.MockDomain))
}

// the README's description of every option, evaluated on the processed structs
func c20Monitor(o *outw, conf c20Conf, r *c20Result, ctxd map[string]any) {
	hit := func(sig string, got, want any) {
		d := map[string]any{"observed": got, "documented": want}
		for k, v := range ctxd {
			d[k] = v
		}
		o.V("C20 "+sig, d)
	}
	sec := func(n int) time.Duration { return time.Duration(n) * time.Second }
	// KeepAlive: "number of seconds ... Zero or negative value disables it. Default is 0 (disabled)"
	ka := 0
	if op := conf.get("KeepAlive"); op != nil {
		ka = op.i
	}
	if ka > 0 && r.remote.KeepAlive != sec(ka) {
		hit("keepalive-positive-ignored", r.remote.KeepAlive.String(), sec(ka).String())
	}
	if ka <= 0 && r.remote.KeepAlive >= 0 {
		hit("keepalive-nonpositive-not-disabled", r.remote.KeepAlive.String(), "negative (net.Dialer: keep-alives disabled)")
	}
	// StreamTimeout: seconds; 300 when unset (example config / ProcessRawConfig comment "defaults set")
	if op := conf.get("StreamTimeout"); op == nil || op.i == 0 {
		if r.local.Timeout != sec(300) {
			hit("streamtimeout-default", r.local.Timeout.String(), "5m0s")
		}
	} else if op.i > 0 && r.local.Timeout != sec(op.i) {
		hit("streamtimeout-value", r.local.Timeout.String(), sec(op.i).String())
	}
	// NumConn: "amount of underlying TCP connections"; <= 0 disables multiplexing (one connection per stream)
	if op := conf.get("NumConn"); op != nil {
		if op.i <= 0 && !(r.remote.Singleplex && r.remote.NumConn == 1) {
			hit("numconn-nonpositive-not-singleplex", fmt.Sprint(r.remote.Singleplex, r.remote.NumConn), "true 1")
		}
		if op.i > 0 && (r.remote.Singleplex || r.remote.NumConn != op.i) {
			hit("numconn-value", fmt.Sprint(r.remote.Singleplex, r.remote.NumConn), fmt.Sprint(false, op.i))
		}
	}
	mode, ws, br := client.VerifC20Transport(r.remote.Transport)
	// Transport: `direct` or `CDN` (documented in upper case, example config in lower case: case-insensitive); default direct
	trv := strings.ToLower(conf.str("Transport"))
	switch {
	case trv == "cdn":
		host := conf.str("CDNOriginHost")
		if host == "" {
			host = conf.str("RemoteHost")
		}
		path := conf.str("CDNWsUrlPath")
		if path == "" {
			path = "/"
		}
		want := "ws://" + net.JoinHostPort(host, conf.str("RemotePort")) + path
		if mode != "cdn" || ws != want {
			hit("transport-cdn", mode+" "+ws, "cdn "+want)
		}
	case trv == "direct" || conf.get("Transport") == nil:
		if mode != "direct" {
			hit("transport-direct", mode, "direct")
		}
		// BrowserSig: chrome, firefox, safari; default chrome
		bs := strings.ToLower(conf.str("BrowserSig"))
		if conf.get("BrowserSig") == nil {
			bs = "chrome"
		}
		if (bs == "chrome" || bs == "firefox" || bs == "safari") && br != bs {
			hit("browsersig", br, bs)
		}
	}
	// EncryptionMethod names
	want, known := map[string]byte{"plain": mux.EncryptionMethodPlain, "aes-256-gcm": mux.EncryptionMethodAES256GCM, "aes-gcm": mux.EncryptionMethodAES256GCM,
		"aes-128-gcm": mux.EncryptionMethodAES128GCM, "chacha20-poly1305": mux.EncryptionMethodChaha20Poly1305}[strings.ToLower(conf.str("EncryptionMethod"))]
	if known && r.auth.EncryptionMethod != want {
		hit("encryption-method", r.auth.EncryptionMethod, want)
	}
	// AlternativeNames used alongside ServerName; empty names dropped
	var names []string
	if op := conf.get("AlternativeNames"); op != nil {
		for _, n := range op.n {
			if n != "" {
				names = append(names, n)
			}
		}
	}
	names = append(names, conf.str("ServerName"))
	if !reflect.DeepEqual(r.local.MockDomainList, names) {
		hit("alternative-names", r.local.MockDomainList, names)
	}
	if r.auth.MockDomain != conf.str("ServerName") {
		hit("server-name", r.auth.MockDomain, conf.str("ServerName"))
	}
	if r.local.LocalAddr != net.JoinHostPort(conf.str("LocalHost"), conf.str("LocalPort")) || r.remote.RemoteAddr != net.JoinHostPort(conf.str("RemoteHost"), conf.str("RemotePort")) {
		hit("addresses", r.local.LocalAddr+" "+r.remote.RemoteAddr, "host:port of Local*/Remote*")
	}
	udp := false
	if op := conf.get("UDP"); op != nil {
		udp = op.b
	}
	if r.auth.Unordered != udp || r.auth.ProxyMethod != conf.str("ProxyMethod") || !reflect.DeepEqual(r.auth.UID, conf.get("UID").y) {
		hit("pass-through", fmt.Sprint(r.auth.Unordered, r.auth.ProxyMethod), fmt.Sprint(udp, conf.str("ProxyMethod")))
	}
	if p, ok := r.auth.ServerPubKey.(*[32]byte); !ok || p == nil || !reflect.DeepEqual(p[:], conf.get("PublicKey").y) {
		hit("public-key", fmt.Sprint(r.auth.ServerPubKey), hx(conf.get("PublicKey").y))
	}
}

// c20SNI parses the server_name extension out of a TLS ClientHello record ("" if absent / malformed)
func c20SNI(rec []byte) string {
	if len(rec) < 5+4+2+32+1 || rec[0] != 22 || rec[5] != 1 {
		return ""
	}
	b := rec[5+4+2+32:]
	skip := func(lenBytes int) bool {
		if len(b) < lenBytes {
			return false
		}
		n := 0
		for i := 0; i < lenBytes; i++ {
			n = n<<8 | int(b[i])
		}
		if len(b) < lenBytes+n {
			return false
		}
		b = b[lenBytes+n:]
		return true
	}
	if !skip(1) || !skip(2) || !skip(1) || len(b) < 2 { // session id, cipher suites, compression methods
		return ""
	}
	b = b[2:]
	for len(b) >= 4 {
		typ, n := int(b[0])<<8|int(b[1]), int(b[2])<<8|int(b[3])
		if len(b) < 4+n {
			return ""
		}
		ext := b[4 : 4+n]
		b = b[4+n:]
		if typ == 0 && len(ext) >= 5 && ext[2] == 0 {
			l := int(ext[3])<<8 | int(ext[4])
			if len(ext) >= 5+l {
				return string(ext[5 : 5+l])
			}
		}
	}
	return ""
}

// the small-order points of curve25519 (X25519 yields the all-zero secret for every private key and
// curve25519.X25519 answers "bad input point: low order point"); bit 255 is ignored by X25519
func c20LowOrder() [][]byte {
	p := func(d int) []byte { // p + d, p = 2^255 - 19, little endian
		b := make([]byte, 32)
		for i := range b {
			b[i] = 0xff
		}
		b[0], b[31] = byte(0xed+d), 0x7f
		return b
	}
	base := [][]byte{
		make([]byte, 32),
		append([]byte{1}, make([]byte, 31)...),
		unhx("e0eb7a7c3b41b8ae1656e3faf19fc46ada098deb9c32b1fd866205165f49b800"),
		unhx("5f9c95bca3508c24b1d0b1559c83ef5b04445cc4581c8e86d8224eddd09f1157"),
		p(-1), p(0), p(1),
	}
	var out [][]byte
	for _, pt := range base {
		out = append(out, pt)
		hb := append([]byte(nil), pt...)
		hb[31] |= 0x80
		out = append(out, hb)
	}
	return out
}

// does X25519 refuse this public value (independent of Cloak: the library directly, with a clamped scalar)
func c20DHFails(pk []byte) bool {
	sc := make([]byte, 32)
	sc[0], sc[31] = 8, 64
	_, err := curve25519.X25519(sc, pk)
	return err != nil
}

var c20Optional = []string{"NumConn", "AlternativeNames", "UDP", "BrowserSig", "Transport", "CDNOriginHost", "CDNWsUrlPath", "StreamTimeout", "KeepAlive"}

func c20Gen(r *rng, presence int) c20Conf {
	pick := func(xs ...string) string { return xs[r.intn(len(xs))] }
	picki := func(xs ...int) int { return xs[r.intn(len(xs))] }
	conf := c20Conf{
		{key: "ServerName", kind: 's', s: pick("www.bing.com", "random", "a.b", "Example.ORG")},
		{key: "ProxyMethod", kind: 's', s: pick("shadowsocks", "openvpn", "tor")},
		{key: "EncryptionMethod", kind: 's', s: pick("plain", "Plain", "aes-gcm", "AES-GCM", "aes-256-gcm", "AES-256-gcm", "aes-128-gcm", "Aes-128-Gcm", "chacha20-poly1305", "ChaCha20-Poly1305")},
		{key: "UID", kind: 'y', y: r.bytes(16)},
		{key: "PublicKey", kind: 'y', y: r.bytes(32)},
		{key: "RemoteHost", kind: 's', s: pick("1.2.3.4", "example.com", "::1", "2001:db8::1")},
		{key: "RemotePort", kind: 's', s: pick("443", "8443", "https")},
		{key: "LocalHost", kind: 's', s: pick("127.0.0.1", "localhost", "::1")},
		{key: "LocalPort", kind: 's', s: pick("1984", "1080")},
	}
	for i, k := range c20Optional {
		if presence&(1<<i) == 0 {
			continue
		}
		switch k {
		case "NumConn":
			conf = append(conf, c20Opt{key: k, kind: 'i', i: picki(4, 1, 0, -1, -3, 100, 2)})
		case "AlternativeNames":
			n := 1 + r.intn(3)
			var ns []string
			for j := 0; j < n; j++ {
				ns = append(ns, pick("cloudflare.com", "github.com", "", "a.io", "x=y.example"))
			}
			conf = append(conf, c20Opt{key: k, kind: 'n', n: ns})
		case "UDP":
			conf = append(conf, c20Opt{key: k, kind: 'b', b: r.intn(2) == 0})
		case "BrowserSig":
			conf = append(conf, c20Opt{key: k, kind: 's', s: pick("chrome", "firefox", "safari", "Firefox", "SAFARI", "ChRoMe", "FIREFOX", "opera", "")})
		case "Transport":
			conf = append(conf, c20Opt{key: k, kind: 's', s: pick("direct", "CDN", "cdn", "Direct", "DIRECT", "Cdn", "cDN", "weird", "")})
		case "CDNOriginHost":
			conf = append(conf, c20Opt{key: k, kind: 's', s: pick("origin.example.com", "::2", "", "cdn-origin.net")})
		case "CDNWsUrlPath":
			conf = append(conf, c20Opt{key: k, kind: 's', s: pick("/ws", "/a/b?x=1", "", "/", "/path=")})
		case "StreamTimeout":
			conf = append(conf, c20Opt{key: k, kind: 'i', i: picki(300, 1, 0, 60, -5, 86400)})
		case "KeepAlive":
			conf = append(conf, c20Opt{key: k, kind: 'i', i: picki(5, 1, 0, -1, 15, 3600, -20, 9000000000)})
		}
	}
	// member order is irrelevant in both syntaxes: shuffle
	for i := len(conf) - 1; i > 0; i-- {
		j := r.intn(i + 1)
		conf[i], conf[j] = conf[j], conf[i]
	}
	return conf
}

func c20(c *ctx) {
	o, r := c.o, c.r
	reps := 4
	if c.thorough() {
		reps = 60
	}
	parseJSON := func(js string, viaFile bool) (*client.RawConfig, error) {
		if viaFile {
			p := "c20_conf.json"
			if err := os.WriteFile(p, []byte(js), 0o600); err != nil {
				return nil, err
			}
			defer os.Remove(p)
			return client.ParseConfig(p)
		}
		raw := new(client.RawConfig)
		err := json.Unmarshal([]byte(js), raw)
		return raw, err
	}
	nKA := 0
	runConf := func(conf c20Conf, tag string, valid bool, idx int) {
		js, ssv := conf.toJSON(), conf.toSSV()
		if r.intn(2) == 0 {
			// plugin hosts do not end the option string with a semicolon: the last option (its value, its escapes) ends the string
			ssv = strings.TrimSuffix(ssv, ";")
		}
		ctxd := map[string]any{"tag": tag, "json": js, "option_string": ssv}
		var raw1, raw2 *client.RawConfig
		var e1, e2 error
		var pan string
		func() {
			defer func() {
				if x := recover(); x != nil {
					pan = fmt.Sprint(x)
				}
			}()
			raw1, e1 = parseJSON(js, idx%10 == 0)
			raw2, e2 = client.ParseConfig(ssv)
		}()
		if pan != "" {
			o.V("C20 panic parsing", map[string]any{"panic": pan, "tag": tag, "json": js, "option_string": ssv})
			return
		}
		if e1 != nil || e2 != nil {
			o.V("C20 syntaxes-differ parse-error", map[string]any{"json_error": fmt.Sprint(e1), "option_string_error": fmt.Sprint(e2), "tag": tag, "json": js, "option_string": ssv})
			return
		}
		if !reflect.DeepEqual(raw1, raw2) {
			o.V("C20 syntaxes-differ", map[string]any{"from_json": fmt.Sprintf("%+v", *raw1), "from_option_string": fmt.Sprintf("%+v", *raw2), "tag": tag, "json": js, "option_string": ssv})
		}
		o.T("cfg.ssv s="+hx([]byte(ssv)), hx(client.VerifC20SsvToJson(ssv)))
		for k, raw := range []*client.RawConfig{raw1, raw2} {
			op := c20Op(raw)
			res := c20Process(*raw)
			if k == 0 || !reflect.DeepEqual(raw1, raw2) {
				o.T(op, res.show())
			}
			ctxd["op"] = op
			ctxd["syntax"] = []string{"json", "option-string"}[k]
			switch {
			case res.panic != "":
				o.V("C20 panic processing", map[string]any{"panic": res.panic, "tag": tag, "json": js, "option_string": ssv})
			case valid && !res.ok:
				o.V("C20 valid-config-rejected", map[string]any{"error": res.errCls, "tag": tag, "json": js, "option_string": ssv})
			case !valid && res.ok:
				o.V("C20 invalid-config-accepted", map[string]any{"tag": tag, "json": js, "option_string": ssv, "processed": res.show()})
			case valid:
				c20Monitor(o, conf, &res, ctxd)
			}
		}
		if op := conf.get("KeepAlive"); op != nil && op.i > 0 {
			nKA++
		}
	}
	idx := 0
	// (1) every presence/absence combination of the nine optional keys x representative values
	for rep := 0; rep < reps; rep++ {
		for presence := 0; presence < 1<<len(c20Optional); presence++ {
			conf := c20Gen(r, presence)
			runConf(conf, fmt.Sprintf("presence=%09b rep=%d", presence, rep), true, idx)
			o.case_(fmt.Sprintf("%d/%d", presence, rep), presence != 0)
			idx++
		}
	}
	// (2) the Lean witness: KeepAlive = 5
	{
		conf := c20Gen(r, 0)
		conf = append(conf, c20Opt{key: "KeepAlive", kind: 'i', i: 5})
		runConf(conf, "witness KeepAlive=5", true, 1)
		o.case_("witness", true)
	}
	// (3) invalid / incomplete configurations: each must be an error, never a panic or a success
	mand := []string{"ServerName", "ProxyMethod", "EncryptionMethod", "UID", "PublicKey", "RemoteHost", "RemotePort", "LocalHost", "LocalPort"}
	nInv := 40
	if c.thorough() {
		nInv = 600
	}
	for i := 0; i < nInv; i++ {
		for _, m := range mand {
			conf := c20Gen(r, r.intn(1<<len(c20Optional)))
			mode := r.intn(3)
			tag := ""
			for k := range conf {
				if conf[k].key != m {
					continue
				}
				switch {
				case m == "PublicKey" && mode == 0:
					conf[k].y = r.bytes([]int{31, 33, 1, 16, 64}[r.intn(5)])
					tag = "PublicKey of wrong length"
				case m == "EncryptionMethod" && mode == 0:
					conf[k].s = []string{"aes", "rc4", "aes-192-gcm", "chacha20", "none", "plain "}[r.intn(6)]
					tag = "unknown EncryptionMethod"
				case mode == 1 && conf[k].kind == 's':
					conf[k].s = ""
					tag = "empty " + m
				case mode == 1 && conf[k].kind == 'y':
					conf[k].y = []byte{}
					tag = "empty " + m
				default:
					conf = append(conf[:k:k], conf[k+1:]...)
					tag = "missing " + m
				}
				break
			}
			runConf(conf, tag, false, idx)
			o.case_(fmt.Sprintf("invalid %d %s", i, m), true)
			idx++
		}
	}
	// (4) arbitrary option strings (outside the escaping alphabet too): ssvToJson model vs implementation, and
	// ParseConfig must answer with a value or an error, never a panic
	nS := 600
	if c.thorough() {
		nS = 20000
	}
	alpha := []string{"a", "B", "1", "=", ";", `\`, `\=`, `\;`, `\\`, ",", `"`, "NumConn", "AlternativeNames", "UDP", "KeepAlive", "StreamTimeout", "UID", " ", "{", ":", "/", "-5", "true"}
	for i := 0; i < nS; i++ {
		var b strings.Builder
		for k := r.intn(14); k > 0; k-- {
			b.WriteString(alpha[r.intn(len(alpha))])
		}
		s := b.String()
		var pan string
		var out []byte
		func() {
			defer func() {
				if x := recover(); x != nil {
					pan = fmt.Sprint(x)
				}
			}()
			out = client.VerifC20SsvToJson(s)
			if strings.Contains(s, ";") && strings.Contains(s, "=") {
				_, _ = client.ParseConfig(s)
			}
		}()
		if pan != "" {
			o.V("C20 panic option-string", map[string]any{"panic": pan, "option_string": s})
			o.T("cfg.ssv s="+hx([]byte(s)), "panic")
			continue
		}
		o.T("cfg.ssv s="+hx([]byte(s)), hx(out))
		o.stat("random_option_strings", 1)
	}
	// (5) configuration FILES whose top-level JSON value is not an object, and the empty object: an error, never a
	// nil configuration with a nil error (cmd/ck-client dereferences the result right away), never a panic
	docs := []struct{ text, kind string }{{"null", "null"}, {" null\n", "null"}, {"[]", "other"}, {`"x"`, "other"}, {"42", "other"}, {"true", "other"},
		{"", "other"}, {"{", "other"}, {`[{"ServerName":"a.b"}]`, "other"}, {"nul", "other"}, {"{}", "object"}, {`{"ServerName":null}`, "object"}}
	for _, d := range docs {
		p := "c20_doc.json"
		if err := os.WriteFile(p, []byte(d.text), 0o600); err != nil {
			continue
		}
		var raw *client.RawConfig
		var err error
		var pan string
		func() {
			defer func() {
				if x := recover(); x != nil {
					pan = fmt.Sprint(x)
				}
			}()
			raw, err = client.ParseConfig(p)
		}()
		os.Remove(p)
		det := map[string]any{"file_content": d.text}
		switch {
		case pan != "":
			o.V("C20 panic parsing document", map[string]any{"panic": pan, "file_content": d.text})
		case err != nil:
			if d.kind == "object" {
				o.V("C20 valid-json-object-unparsable", map[string]any{"error": err.Error(), "file_content": d.text})
			} else {
				o.T("cfg.doc kind="+d.kind, "parse-error")
			}
		case raw == nil:
			// ParseConfig answered (nil, nil): "no error", and there is no configuration; ck-client's next statement reads raw.RemoteHost
			det["ParseConfig_returned"] = "(nil, nil)"
			det["then"] = "cmd/ck-client reads rawConfig.RemoteHost / .LocalHost of the nil *RawConfig: nil pointer dereference instead of an error"
			o.V("C20 invalid-config-accepted "+d.kind+"-document", det)
			if d.kind != "object" {
				o.T("cfg.doc kind="+d.kind, "nil-config")
			}
		default:
			res := c20Process(*raw)
			if d.kind == "object" {
				o.T(c20Op(raw), res.show())
			} else {
				o.T("cfg.doc kind="+d.kind, res.show())
			}
			if res.panic != "" {
				o.V("C20 panic processing", map[string]any{"panic": res.panic, "file_content": d.text})
			} else if res.ok {
				o.V("C20 invalid-config-accepted "+d.kind+"-document", map[string]any{"file_content": d.text, "processed": res.show()})
			}
		}
		o.case_("doc "+d.text, true)
	}
	// (6) a value that contains a semicolon: JSON keeps it; the option string carries it as `\;` (the escape ssvToJson's own
	// unescape table names).  Known open finding: the string is split AFTER unescaping.
	for i, path := range []string{"/ws;v=1", "/a;b", "/x;y=1;z=2"} {
		conf := c20Gen(r, 0)
		conf = append(conf, c20Opt{key: "Transport", kind: 's', s: "CDN"}, c20Opt{key: "CDNWsUrlPath", kind: 's', s: path})
		js, ssv := conf.toJSON(), conf.toSSV()
		if r.intn(2) == 0 {
			// plugin hosts do not end the option string with a semicolon: the last option (its value, its escapes) ends the string
			ssv = strings.TrimSuffix(ssv, ";")
		}
		o.T("cfg.ssv s="+hx([]byte(ssv)), hx(client.VerifC20SsvToJson(ssv)))
		raw1, e1 := parseJSON(js, i == 0)
		var raw2 *client.RawConfig
		var e2 error
		var pan string
		func() {
			defer func() {
				if x := recover(); x != nil {
					pan = fmt.Sprint(x)
				}
			}()
			raw2, e2 = client.ParseConfig(ssv)
		}()
		if pan != "" {
			o.V("C20 panic parsing", map[string]any{"panic": pan, "json": js, "option_string": ssv})
			continue
		}
		if e1 != nil {
			o.V("C20 valid-config-rejected", map[string]any{"error": e1.Error(), "json": js})
			continue
		}
		if e2 != nil || raw2 == nil || !reflect.DeepEqual(raw1, raw2) {
			got := fmt.Sprint(e2)
			if e2 == nil && raw2 != nil {
				got = fmt.Sprintf("%+v", *raw2)
			}
			o.V("C20 syntaxes-differ escaped-semicolon-in-value", map[string]any{"json": js, "option_string": ssv, "from_json_CDNWsUrlPath": raw1.CDNWsUrlPath,
				"from_option_string": got, "ssvToJson": string(client.VerifC20SsvToJson(ssv))})
		}
		res := c20Process(*raw1)
		o.T(c20Op(raw1), res.show())
		if res.ok {
			c20Monitor(o, conf, &res, map[string]any{"json": js, "syntax": "json"})
		}
		o.case_("semicolon "+path, true)
	}
	// (7) the first connection made with an accepted configuration must not crash the client: PublicKey values that
	// X25519 refuses (small-order points; 32 zero bytes is the natural placeholder) against ordinary keys
	nConn := 0
	keys := c20LowOrder()
	for i := 0; i < 10; i++ {
		keys = append(keys, r.bytes(32))
	}
	for i, pk := range keys {
		conf := c20Gen(r, r.intn(1<<len(c20Optional)))
		conf.get("PublicKey").y = pk
		js := conf.toJSON()
		raw, err := parseJSON(js, false)
		if err != nil {
			continue
		}
		res := c20Process(*raw)
		o.T(c20Op(raw), res.show())
		if !res.ok {
			continue // rejected with an error: fine for a key X25519 refuses
		}
		fails := c20DHFails(pk)
		pan := client.VerifC20FirstPayload(res.auth)
		out := "proceeds"
		if pan != "" {
			out = "panics"
		}
		o.T(strings.Replace(c20Op(raw), "cfg.process", "cfg.connect", 1)+" dhfails="+c20b(fails), out)
		nConn++
		if pan != "" {
			sig := "C20 panic first-connection"
			if fails {
				sig = "C20 invalid-config-crashes low-order-public-key"
			}
			o.V(sig, map[string]any{"json": js, "PublicKey_hex": hx(pk), "ProcessRawConfig": "accepted (no error)", "first_connection": "makeAuthenticationPayload: panic: " + pan})
		}
		o.case_(fmt.Sprintf("connect %d", i), true)
	}
	o.stat("first_connections", nConn)
	// (8) ServerName: `random` (any case) is documented to be randomised for every connection; any other name is sent as is
	for _, tr := range []string{"direct", "CDN"} {
		for _, name := range []string{"random", "RANDOM", "Random", "www.bing.com"} {
			for _, bs := range []string{"chrome", "firefox", "safari"} {
				if tr == "CDN" && bs != "chrome" {
					continue
				}
				conf := c20Gen(r, 0)
				conf.get("ServerName").s = name
				conf = append(conf, c20Opt{key: "Transport", kind: 's', s: tr}, c20Opt{key: "BrowserSig", kind: 's', s: bs})
				js := conf.toJSON()
				raw, err := parseJSON(js, false)
				if err != nil {
					continue
				}
				res := c20Process(*raw)
				if !res.ok {
					o.V("C20 valid-config-rejected", map[string]any{"error": res.errCls, "json": js})
					continue
				}
				var snis []string
				literal := 0
				for k := 0; k < 3; k++ {
					sni := c20SNI(client.VerifC20ClientHello(res.remote.Transport, res.auth))
					snis = append(snis, sni)
					if sni == res.auth.MockDomain {
						literal++
					}
				}
				out := "fresh"
				if literal == 3 {
					out = "literal"
				} else if literal != 0 {
					out = "mixed"
				}
				o.T(strings.Replace(c20Op(raw), "cfg.process", "cfg.sni", 1), out)
				d := map[string]any{"json": js, "server_names_of_three_connections": snis, "transport": tr}
				switch {
				case strings.EqualFold(name, "random") && literal > 0:
					o.V("C20 servername-random-not-randomised "+strings.ToLower(tr), d)
				case !strings.EqualFold(name, "random") && literal != 3:
					o.V("C20 server-name-not-sent", d)
				}
				o.case_("sni "+tr+" "+name+" "+bs, true)
			}
		}
	}
	o.stat("configs", idx+1)
	o.stat("configs_with_positive_keepalive", nKA)
	o.sample(`{"KeepAlive":5,...} / "KeepAlive=5;..." => ok ... ka=5000000000 ...`)
	o.sample(`"UID=aGk\=;NumConn=4;AlternativeNames=a,,b;" => {"UID":"aGk=","NumConn":4,"AlternativeNames":["a","","b"]}`)
}
