//go:build verif

package main

import (
	"fmt"
	"io"
	"net"
	"time"

	"github.com/cbeuw/Cloak/internal/client"
	"github.com/cbeuw/Cloak/internal/common"
	mux "github.com/cbeuw/Cloak/internal/multiplex"
	"github.com/cbeuw/connutil"
)

// C01 at the application's end of the relay (client.RouteTCP -> common.Copy in both directions): the peer answers a
// request with B and closes its side of the stream; the local application is slow to read and, while B is still being
// handed to it, writes a few more bytes.  The application must still receive all of B ("nothing lost").
func c01copyTruncation(c *ctx, k int) {
	r := c.r
	method := byte(r.intn(4))
	var key [32]byte
	copy(key[:], r.bytes(32))
	mk := func() *mux.Session {
		ob, err := mux.MakeObfuscator(method, key)
		if err != nil {
			panic(err)
		}
		return mux.MakeSession(13, mux.SessionConfig{Obfuscator: ob, InactivityTimeout: time.Hour, MsgOnWireSizeLimit: 16401})
	}
	A, B := mk(), mk()
	for i := 0; i < 2; i++ {
		x, y := connutil.AsyncPipe()
		A.AddConnection(common.NewTLSConn(x))
		B.AddConnection(common.NewTLSConn(y))
	}
	reply := r.bytes(1<<20 + r.intn(1<<20))
	peerDone := make(chan struct{})
	go func() {
		defer close(peerDone)
		cn, err := B.Accept()
		if err != nil {
			return
		}
		st := cn.(*mux.Stream)
		buf := make([]byte, 100)
		st.Read(buf)
		st.Write(reply)
		st.Close()
	}()
	ln := &memListener{ch: make(chan net.Conn, 1)}
	go client.RouteTCP(ln, time.Hour, false, func() *mux.Session { return A })
	local, remote := net.Pipe()
	ln.ch <- remote
	local.Write([]byte("request"))
	select {
	case <-peerDone:
	case <-time.After(20 * time.Second):
		c.o.N("C01 copy truncation: the peer did not finish within 20 s — case skipped")
		return
	}
	time.Sleep(300 * time.Millisecond) // the peer's closing notice has been processed locally; the reply waits in the stream
	wdone := make(chan struct{})
	go func() { local.Write([]byte("one more line")); close(wdone) }()
	got := 0
	buf := make([]byte, 32768)
	local.SetReadDeadline(time.Now().Add(30 * time.Second))
	var rerr error
	for {
		n, err := local.Read(buf)
		got += n
		if err != nil {
			rerr = err
			break
		}
		if got >= len(reply) {
			break
		}
	}
	local.Close()
	<-wdone
	if got != len(reply) && (rerr == io.EOF || rerr == io.ErrClosedPipe) {
		c.o.V("C01 bytes-lost application-writes-after-peer-closed", map[string]any{"case": k, "method": method, "peer_wrote_then_closed": len(reply), "application_received": got,
			"then": fmt.Sprint(rerr),
			"what": "the relay direction application->stream ends with ErrBrokenStream (the stream was closed by the peer) and common.Copy's deferred clean-up closes the application's connection while the other direction is still handing the peer's bytes to it",
			"replay": "real client.RouteTCP; application sends a request; the peer reads it, writes B (1-2 MiB) and closes its stream; 300 ms later the application writes 13 more bytes, then reads to the end"})
	}
	A.Close()
	B.Close()
	c.o.case_(fmt.Sprintf("copy-truncation/%d", k), true)
}
