//go:build verif

package main

import (
	"strings"
	"sync/atomic"
	"time"

	"github.com/cbeuw/Cloak/internal/common"
	"github.com/cbeuw/Cloak/internal/server"
)

// C01 "while every underlying connection stays healthy and neither side closes it, a session with open streams keeps
// working", on the server's bookkeeping: the user's only session ends and CloseSession decides "no session left"; before
// it gets to TerminateActiveUser (schedule point ActiveUser.CloseSession:beforeTerminate) a new connection of the same
// user is dispatched — GetUser, GetSession with a new id, retrying the lookup when told the record is retired, exactly as
// dispatchConnection does.  The session that connection ends up with must still be alive after the termination has run:
// a fresh session, its connection healthy, must not be closed by a decision taken before it existed.
func c01staleTermination(c *ctx, k int) {
	o := c.o
	rig := newPanelRig(1000)
	defer rig.close()
	rig.putUser(7, 3, 1<<40, 1<<40, 1<<40)
	u0, err := rig.panel.GetUser(uidBytes(7), false)
	if err != nil {
		return
	}
	if _, _, _, err := server.VerifGetSession(u0, 1, c.freshKey()); err != nil {
		return
	}
	parked, release := make(chan struct{}), make(chan struct{})
	var armed int32 = 1
	common.SetVerifHook(func(label string) {
		if label == "ActiveUser.CloseSession:beforeTerminate" && atomic.CompareAndSwapInt32(&armed, 1, 0) {
			close(parked)
			<-release
		}
	})
	defer common.SetVerifHook(nil)
	done := make(chan struct{})
	go func() { server.VerifCloseSession(u0, 1, ""); close(done) }()
	select {
	case <-parked:
	case <-time.After(10 * time.Second):
		o.N("C01 stale termination: the schedule point was not reached — case skipped")
		return
	}
	// the new connection, as dispatchConnection handles it
	type got struct {
		sesh interface{ IsClosed() bool }
		rec  *server.ActiveUser
	}
	res := make(chan got, 1)
	go func() {
		for try := 0; try < 200000; try++ {
			u, err := rig.panel.GetUser(uidBytes(7), false)
			if err != nil {
				res <- got{}
				return
			}
			s, _, _, err := server.VerifGetSession(u, uint32(2+k), c.freshKey())
			if err == nil {
				res <- got{s, u}
				return
			}
			if !isRetiredErr(err) {
				res <- got{}
				return
			}
			time.Sleep(50 * time.Microsecond) // retired record: look the user up again
		}
		res <- got{}
	}()
	var g got
	early := false
	select {
	case g = <-res: // admitted while the termination is still parked
		early = true
	case <-time.After(100 * time.Millisecond):
	}
	close(release)
	<-done
	if !early {
		select {
		case g = <-res:
		case <-time.After(20 * time.Second):
			o.N("C01 stale termination: the new connection was not admitted within 20 s")
			return
		}
	}
	if g.sesh == nil {
		o.N("C01 stale termination: the new connection was refused")
		return
	}
	if g.sesh.IsClosed() {
		o.V("C01 healthy-session-closed by a stale last-session decision", map[string]any{"case": k, "admitted_before_the_termination_ran": early,
			"what": "a connection dispatched between CloseSession's \"no session left\" decision and TerminateActiveUser was given a fresh session in the record; the termination then closed it (terminal message: no session left)",
			"replay": "user with one session; CloseSession(that session) parked at ActiveUser.CloseSession:beforeTerminate; GetUser + GetSession(new id) as dispatchConnection does (retry on a retired record); release"})
	}
	o.case_("stale-termination", true)
	o.stat("stale_termination_cases", 1)
}

func isRetiredErr(err error) bool {
	return err != nil && (strings.Contains(err.Error(), "retired") || strings.Contains(err.Error(), "terminated"))
}
