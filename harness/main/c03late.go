//go:build verif

package main

import (
	"bytes"
	"fmt"
	"testing/synctest"
	"time"

	mux "github.com/cbeuw/Cloak/internal/multiplex"
)

// C03 with a short-lived singleplex session (one connection per stream, the NumConn <= 0 mode): the peer opens its stream,
// writes B and closes — which closes its session and sends the session-closing notice — before this side gets to Accept
// (the server calls Accept right after AddConnection: a short request can be over by then).  The side that has not
// closed anything must still read exactly B and only afterwards the error.
func c03lateAccept(c *ctx, k int) {
	r := c.r
	method := byte(r.intn(4))
	tag := fmt.Sprintf("late accept #%d method=%d", k, method)
	synctest.Run(func() {
		var key [32]byte
		copy(key[:], r.bytes(32))
		rg := newSeshPair(method, key, 1, true, false, time.Hour)
		A, B := rg.S[0].sesh, rg.S[1].sesh
		st, err := A.OpenStream()
		if err != nil {
			return
		}
		var want []byte
		for i := r.intn(4); i >= 0; i-- {
			d := r.bytes(1 + r.intn(3000))
			st.Write(d)
			want = append(want, d...)
		}
		st.Close() // singleplex: closes the session, closing notice goes out
		synctest.Wait()
		for {
			if _, ok := rg.deliver(0, 0); !ok {
				break
			}
		}
		synctest.Wait()
		// only now does this side call Accept
		type acc struct {
			s   *mux.Stream
			err error
		}
		ch := make(chan acc, 1)
		go func() {
			cn, err := B.Accept()
			if err != nil {
				ch <- acc{nil, err}
				return
			}
			ch <- acc{cn.(*mux.Stream), nil}
		}()
		synctest.Wait()
		var a acc
		select {
		case a = <-ch:
		default:
			c.o.V("C03 accept-parked-forever after the peer finished", map[string]any{"tag": tag})
			return
		}
		var got []byte
		if a.s != nil {
			buf := make([]byte, 4096)
			for {
				n, err := a.s.Read(buf)
				got = append(got, buf[:n]...)
				if err != nil {
					break
				}
			}
		}
		if !bytes.Equal(got, want) {
			e := "<nil>"
			if a.err != nil {
				e = a.err.Error()
			}
			c.o.V("C03 lost-tail accept-after-the-peer-finished", map[string]any{"tag": tag, "written_then_closed": len(want), "read": len(got), "accept_error": e,
				"what": "the peer's stream, with all of B, was queued for Accept when the peer's session-closing notice was processed; Accept called afterwards reports a broken session and B is never delivered",
				"replay": "singleplex session pair; A: OpenStream, Write(B), Close; every record delivered to B; then B.Accept()"})
		}
		rg.propagate()
		synctest.Wait()
	})
	c.o.case_(tag, true)
}
