//go:build verif

package main

// An independent implementation of the Cloak v2 frame layout, written from the format description
// (StreamID(4) | Seq(8) | Closing(1) | extraLen(1) masked with Salsa20 under the session key, nonce = last 8
// bytes of the message; body = AEAD(key, nonce = unmasked header[0:12], payload ++ padding) or, for the plain
// method, payload ++ padding ++ 8 random bytes; extraLen = padding + tag).  It calls Go's crypto/cipher and
// golang.org/x/crypto directly and shares no code with internal/multiplex.  It is (1) the impl-side monitor
// of C04 ("a peer built from an independent implementation of that layout decodes them and vice versa"),
// (2) the oracle that answers the Lean model's AEAD queries.

import (
	"crypto/aes"
	"crypto/cipher"
	"encoding/binary"
	"fmt"

	"golang.org/x/crypto/chacha20poly1305"
	"golang.org/x/crypto/salsa20"
)

type refFrame struct {
	sid     uint32
	seq     uint64
	closing uint8
	payload []byte
}

func (f refFrame) canon() string {
	return fmt.Sprintf("ok sid=%d seq=%d c=%d len=%d h=%s", f.sid, f.seq, f.closing, len(f.payload), fnvHex(f.payload))
}

func fnv64(b []byte) uint64 {
	h := uint64(0xcbf29ce484222325)
	for _, x := range b {
		h = (h ^ uint64(x)) * 0x100000001b3
	}
	return h
}
func fnvHex(b []byte) string { return fmt.Sprintf("%016x", fnv64(b)) }

// refAEAD: method 1 = AES-256-GCM (32-byte key), 2 = ChaCha20-Poly1305, 3 = AES-128-GCM (first 16 key bytes); 0 = none.
func refAEAD(m int, key [32]byte) cipher.AEAD {
	switch m {
	case 1:
		b, err := aes.NewCipher(key[:])
		if err != nil {
			panic(err)
		}
		a, err := cipher.NewGCM(b)
		if err != nil {
			panic(err)
		}
		return a
	case 2:
		a, err := chacha20poly1305.New(key[:])
		if err != nil {
			panic(err)
		}
		return a
	case 3:
		b, err := aes.NewCipher(key[:16])
		if err != nil {
			panic(err)
		}
		a, err := cipher.NewGCM(b)
		if err != nil {
			panic(err)
		}
		return a
	}
	return nil
}

func refTagLen(m int) int {
	if m == 0 {
		return 8
	}
	return 16
}

func refHeader(f refFrame, extra int) []byte {
	h := make([]byte, 14)
	binary.BigEndian.PutUint32(h[0:4], f.sid)
	binary.BigEndian.PutUint64(h[4:12], f.seq)
	h[12] = f.closing
	h[13] = byte(extra)
	return h
}

// refEncode builds a v2 message. pad = padding bytes; tail = the 8 trailing random bytes (plain method only).
func refEncode(m int, key [32]byte, f refFrame, pad, tail []byte) []byte {
	hdr := refHeader(f, len(pad)+refTagLen(m))
	var body []byte
	if a := refAEAD(m, key); a != nil {
		pt := append(append([]byte{}, f.payload...), pad...)
		body = a.Seal(nil, hdr[:12], pt, nil)
	} else {
		body = append(append(append([]byte{}, f.payload...), pad...), tail...)
	}
	masked := make([]byte, 14)
	salsa20.XORKeyStream(masked, hdr, body[len(body)-8:], &key)
	return append(masked, body...)
}

type refDecoded struct {
	f     refFrame
	hdr   []byte // unmasked header
	body  []byte
	extra int
	pad   []byte // padding bytes (AEAD: decrypted; plain: between payload and the 8-byte tail)
	tail  []byte // plain: last 8 bytes
	pt    []byte // AEAD: full plaintext
}

// refDecode decodes a v2 message; err is "" or short / extra / auth.
func refDecode(m int, key [32]byte, msg []byte) (d refDecoded, err string) {
	if len(msg) < 22 {
		return d, "errShort"
	}
	d.hdr = make([]byte, 14)
	salsa20.XORKeyStream(d.hdr, msg[:14], msg[len(msg)-8:], &key)
	d.body = msg[14:]
	d.f.sid = binary.BigEndian.Uint32(d.hdr[0:4])
	d.f.seq = binary.BigEndian.Uint64(d.hdr[4:12])
	d.f.closing = d.hdr[12]
	d.extra = int(d.hdr[13])
	tag := refTagLen(m)
	if d.extra > len(d.body) || d.extra < tag {
		return d, "errExtra"
	}
	plen := len(d.body) - d.extra
	if a := refAEAD(m, key); a != nil {
		pt, e := a.Open(nil, d.hdr[:12], d.body, nil)
		if e != nil {
			return d, "errAuth"
		}
		d.pt = pt
		d.f.payload = pt[:plen]
		d.pad = pt[plen:]
	} else {
		d.f.payload = d.body[:plen]
		d.pad = d.body[plen : len(d.body)-8]
		d.tail = d.body[len(d.body)-8:]
	}
	return d, ""
}

func refFrameEq(a, b refFrame) bool {
	return a.sid == b.sid && a.seq == b.seq && a.closing == b.closing && string(a.payload) == string(b.payload)
}

// ---- oracle rows -------------------------------------------------------------------------------

// oracleOpen answers the model's Open query for `msg` as an honest v2 receiver would form it:
// nonce = unmasked header[0:12], ciphertext = msg[14:].  Computed with Go's AEAD directly.
func oracleOpen(o *outw, pfx string, m int, key [32]byte, msg []byte) {
	a := refAEAD(m, key)
	if a == nil || len(msg) < 22 {
		return
	}
	hdr := make([]byte, 14)
	salsa20.XORKeyStream(hdr, msg[:14], msg[len(msg)-8:], &key)
	ct := msg[14:]
	out := "fail"
	if pt, err := a.Open(nil, hdr[:12], ct, nil); err == nil {
		out = hx(pt)
	}
	o.T(fmt.Sprintf("%soracle kind=open m=%d key=%s nonce=%s inlen=%d inh=%s out=%s", pfx, m, hx(key[:]), hx(hdr[:12]), len(ct), fnvHex(ct), out), "ok")
}

// oracleSeal answers the model's Seal query for a frame: nonce = header[0:12], plaintext = payload ++ pad.
func oracleSeal(o *outw, pfx string, m int, key [32]byte, f refFrame, pad []byte) {
	a := refAEAD(m, key)
	if a == nil {
		return
	}
	hdr := refHeader(f, 0)
	pt := append(append([]byte{}, f.payload...), pad...)
	ct := a.Seal(nil, hdr[:12], pt, nil)
	o.T(fmt.Sprintf("%soracle kind=seal m=%d key=%s nonce=%s inlen=%d inh=%s out=%s", pfx, m, hx(key[:]), hx(hdr[:12]), len(pt), fnvHex(pt), hx(ct)), "ok")
}
