//go:build verif

package main

// Session rigs shared by C13 (wire tap on one endpoint), C03 (session pair with harness-driven
// delivery) and reusable for C01/C12.
//
//   ep := newEndpoint("A", method, key, nConns, func(cfg *mux.SessionConfig){…})   // a real mux.Session whose
//        connections are tapConns: every Write is captured as one record (decoded with the REAL deobfuscate
//        of a second Obfuscator built from the same key), Read parks until the conn is closed.
//   ep.tap.snapshot()                 // records captured so far, in the order the Write calls were made
//   rig := newPairRig(method, key, nConns, singleplexA)      // two endpoints with the same key
//   rig.deliver(from, rec)            // hand one captured record of `from` to the OTHER session (recvDataFromRemote)
//   rig.queues(from)                  // undelivered records of `from`, per connection, FIFO
//
// Nothing is delivered by goroutines: the harness decides the order, so the closing record can overtake or
// trail data that travelled on other connections.

import (
	"errors"
	"io"
	"net"
	"sync"
	"time"

	mux "github.com/cbeuw/Cloak/internal/multiplex"
)

type tapRec struct {
	idx       int // capture index (order of the Write calls on this endpoint)
	conn      int
	data      []byte
	failed    bool // the Write was made to fail (the bytes never "arrived")
	f         mux.VerifFrame
	decErr    error
	delivered bool
}

type tap struct {
	mu     sync.Mutex
	recs   []*tapRec
	dec    *mux.Obfuscator
	failIf func(r *tapRec) bool // decides, under mu, whether this Write fails
	stir   func(r *tapRec)      // called after capture, outside mu, still inside the caller's critical section
}

func (t *tap) snapshot() []*tapRec {
	t.mu.Lock()
	defer t.mu.Unlock()
	return append([]*tapRec(nil), t.recs...)
}

var errInjected = errors.New("injected write failure")

type tapAddr string

func (a tapAddr) Network() string { return "tap" }
func (a tapAddr) String() string  { return string(a) }

type tapConn struct {
	t      *tap
	id     int
	closed chan struct{}
	once   sync.Once
}

func (c *tapConn) Write(b []byte) (int, error) {
	select {
	case <-c.closed:
		return 0, io.ErrClosedPipe
	default:
	}
	r := &tapRec{conn: c.id, data: append([]byte(nil), b...)}
	r.f, r.decErr = mux.VerifDeobfuscate(c.t.dec, r.data)
	c.t.mu.Lock()
	r.idx = len(c.t.recs)
	if c.t.failIf != nil && c.t.failIf(r) {
		r.failed = true
	}
	c.t.recs = append(c.t.recs, r)
	stir := c.t.stir
	c.t.mu.Unlock()
	if stir != nil {
		stir(r)
	}
	if r.failed {
		return 0, errInjected
	}
	return len(b), nil
}

// Read parks until the connection is closed: incoming data is injected by the harness through
// rig.deliver, never through the connection.
func (c *tapConn) Read(b []byte) (int, error) {
	<-c.closed
	return 0, io.EOF
}
func (c *tapConn) Close() error                       { c.once.Do(func() { close(c.closed) }); return nil }
func (c *tapConn) LocalAddr() net.Addr                { return tapAddr("local") }
func (c *tapConn) RemoteAddr() net.Addr               { return tapAddr("remote") }
func (c *tapConn) SetDeadline(t time.Time) error      { return nil }
func (c *tapConn) SetReadDeadline(t time.Time) error  { return nil }
func (c *tapConn) SetWriteDeadline(t time.Time) error { return nil }
func (c *tapConn) isClosed() bool {
	select {
	case <-c.closed:
		return true
	default:
		return false
	}
}

type endpoint struct {
	name  string
	sesh  *mux.Session
	tap   *tap
	conns []*tapConn
}

func mustObfuscator(method byte, key [32]byte) mux.Obfuscator {
	o, err := mux.MakeObfuscator(method, key)
	if err != nil {
		panic(err)
	}
	return o
}

// newEndpoint builds a real Session on nConns tapped connections. The inactivity timer is set far away so that
// no background close happens during a run; callers close the session when done (ep.shutdown()).
func newEndpoint(name string, method byte, key [32]byte, nConns int, tweak func(*mux.SessionConfig)) *endpoint {
	cfg := mux.SessionConfig{Obfuscator: mustObfuscator(method, key), InactivityTimeout: 24 * time.Hour}
	if tweak != nil {
		tweak(&cfg)
	}
	dec := mustObfuscator(method, key)
	ep := &endpoint{name: name, tap: &tap{dec: &dec}}
	ep.sesh = mux.MakeSession(1, cfg)
	for i := 0; i < nConns; i++ {
		c := &tapConn{t: ep.tap, id: i, closed: make(chan struct{})}
		ep.conns = append(ep.conns, c)
		ep.sesh.AddConnection(c)
	}
	return ep
}

// shutdown closes the session (releases the deplex goroutines parked in Read).
func (ep *endpoint) shutdown() {
	ep.tap.mu.Lock()
	ep.tap.failIf, ep.tap.stir = nil, nil
	ep.tap.mu.Unlock()
	ep.sesh.Close()
	for _, c := range ep.conns {
		c.Close()
	}
}

type pairRig struct {
	A, B *endpoint
}

func newPairRig(method byte, key [32]byte, nConns int, singleplexA bool) *pairRig {
	a := newEndpoint("A", method, key, nConns, func(c *mux.SessionConfig) { c.Singleplex = singleplexA })
	b := newEndpoint("B", method, key, nConns, nil)
	return &pairRig{A: a, B: b}
}

func (p *pairRig) other(ep *endpoint) *endpoint {
	if ep == p.A {
		return p.B
	}
	return p.A
}

// queues returns the undelivered, successfully written records of `from`, one FIFO per connection.
func (p *pairRig) queues(from *endpoint) [][]*tapRec {
	q := make([][]*tapRec, len(from.conns))
	for _, r := range from.tap.snapshot() {
		if !r.delivered && !r.failed {
			q[r.conn] = append(q[r.conn], r)
		}
	}
	return q
}

// deliver hands the record to the other session exactly as its deplex loop would.
func (p *pairRig) deliver(from *endpoint, r *tapRec) error {
	r.delivered = true
	return mux.VerifRecv(p.other(from).sesh, r.data)
}

func (p *pairRig) shutdown() {
	p.A.shutdown()
	p.B.shutdown()
}
