//go:build verif

package main

import (
	"bufio"
	"encoding/hex"
	"encoding/json"
	"fmt"
	"os"
	"sort"
	"strings"
	"sync"
	"sync/atomic"
)

// ---- one PRNG (splitmix64) from which every random choice is derived ----
type rng struct{ s uint64 }

func (r *rng) next() uint64 {
	// atomic: some scenarios draw from several goroutines (which goroutine gets which value is then the scheduler's
	// choice, but the stream of values is the seed's)
	z := atomic.AddUint64(&r.s, 0x9e3779b97f4a7c15)
	z = (z ^ (z >> 30)) * 0xbf58476d1ce4e5b9
	z = (z ^ (z >> 27)) * 0x94d049bb133111eb
	return z ^ (z >> 31)
}
func (r *rng) intn(n int) int {
	if n <= 0 {
		return 0
	}
	return int(r.next() % uint64(n))
}
func (r *rng) bytes(n int) []byte {
	b := make([]byte, n)
	for i := range b {
		b[i] = byte(r.next())
	}
	return b
}
func (r *rng) perm(n int) []int {
	p := make([]int, n)
	for i := range p {
		p[i] = i
	}
	for i := n - 1; i > 0; i-- {
		j := r.intn(i + 1)
		p[i], p[j] = p[j], p[i]
	}
	return p
}
func (r *rng) fork() *rng { return &rng{r.next()} }

// ---- output: T<TAB>op<TAB>impl-output | V<TAB>signature<TAB>json | S<TAB>key<TAB>value ----
type outw struct {
	mu       sync.Mutex // scenarios report from several goroutines, and the hang watchdog reads the progress
	w        *bufio.Writer
	nT, nV   int
	stats    map[string]int
	distinct map[string]struct{}
	samples  []string
}

func newOut(path string) *outw {
	f, err := os.Create(path)
	if err != nil {
		fmt.Fprintln(os.Stderr, err)
		os.Exit(2)
	}
	return &outw{w: bufio.NewWriterSize(f, 1<<20), stats: map[string]int{}, distinct: map[string]struct{}{}}
}

// T records one operation and what the implementation answered; the Lean driver must answer the same.
func (o *outw) T(op, out string) {
	o.mu.Lock()
	defer o.mu.Unlock()
	o.nT++
	o.w.WriteString("T\t" + op + "\t" + out + "\n")
}

// V records an impl-side monitor hit: the property itself failed on the real code.
func (o *outw) V(sig string, detail any) {
	o.mu.Lock()
	defer o.mu.Unlock()
	o.nV++
	js, _ := json.Marshal(detail)
	o.w.WriteString("V\t" + sig + "\t" + string(js) + "\n")
}

// N records a note line for the evidence (not compared).
func (o *outw) N(s string) {
	o.mu.Lock()
	defer o.mu.Unlock()
	o.w.WriteString("N\t" + s + "\n")
}

// progress is what the hang watchdog watches: rows, hits and cases reported so far
func (o *outw) progress() int {
	o.mu.Lock()
	defer o.mu.Unlock()
	return o.nT + o.nV + o.stats["cases"]
}

func (o *outw) stat(k string, d int) {
	o.mu.Lock()
	defer o.mu.Unlock()
	o.stats[k] += d
}
func (o *outw) case_(key string, nontrivial bool) {
	o.mu.Lock()
	defer o.mu.Unlock()
	o.stats["cases"]++
	if nontrivial {
		o.distinct[key] = struct{}{}
	}
}
func (o *outw) sample(s string) {
	o.mu.Lock()
	defer o.mu.Unlock()
	if len(o.samples) < 5 {
		o.samples = append(o.samples, s)
	}
}
func (o *outw) close() {
	o.mu.Lock()
	defer o.mu.Unlock()
	o.stats["trace_lines"] = o.nT
	o.stats["monitor_hits"] = o.nV
	o.stats["distinct_nontrivial"] = len(o.distinct)
	keys := make([]string, 0, len(o.stats))
	for k := range o.stats {
		keys = append(keys, k)
	}
	sort.Strings(keys)
	for _, k := range keys {
		fmt.Fprintf(o.w, "S\t%s\t%d\n", k, o.stats[k])
	}
	for _, s := range o.samples {
		o.w.WriteString("X\t" + strings.ReplaceAll(s, "\n", " | ") + "\n")
	}
	o.w.Flush()
}

func hx(b []byte) string { return hex.EncodeToString(b) }
func unhx(s string) []byte {
	b, err := hex.DecodeString(s)
	if err != nil {
		panic(err)
	}
	return b
}
