//go:build verif

package main

import (
	"context"
	"encoding/json"
	"fmt"
	"io"
	"math"
	"math/big"
	"net"
	"os"
	"os/exec"
	"reflect"
	"sort"
	"strconv"
	"strings"
	"sync"
	"testing/synctest"
	"time"

	mux "github.com/cbeuw/Cloak/internal/multiplex"
	"github.com/cbeuw/Cloak/internal/server"
	"github.com/juju/ratelimit"
)

func init() {
	scenarios["C19"] = c19
	scenarios["C19sub"] = c19sub
}

// =============================================================================================
// (i) the Lean bucket vs the real ratelimit.Bucket under a fake clock
// =============================================================================================

type c19clock struct{ t time.Time }

func (c *c19clock) Now() time.Time        { return c.t }
func (c *c19clock) Sleep(d time.Duration) {}

func c19bucketParams(b *ratelimit.Bucket) (q, fi, capacity int64) {
	v := reflect.ValueOf(b).Elem()
	return v.FieldByName("quantum").Int(), v.FieldByName("fillInterval").Int(), v.FieldByName("capacity").Int()
}

// exact version of the constructor's promise |q*1e9/fi - rate| / rate <= 1 % (with a relative 1e-9 for its float arithmetic)
func c19rateOKexact(q, fi, rate int64) bool {
	a := new(big.Int).Mul(big.NewInt(q), big.NewInt(1_000_000_000))
	b := new(big.Int).Mul(big.NewInt(rate), big.NewInt(fi))
	d := new(big.Int).Abs(new(big.Int).Sub(a, b))
	l := new(big.Int).Mul(big.NewInt(100_000_000_000), d)
	r := new(big.Int).Mul(big.NewInt(1_000_000_001), b)
	return l.Cmp(r) <= 0
}

// c19searchRow emits what the real constructor chose for an integer rate as a row for the model's exact-arithmetic search
// (`tb.search`). The constructor computes in float64: the row is skipped (with a note) for a rate at which one of the
// candidates it visits sits exactly on the 1 % boundary or on an integer boundary of the quotient, where rounding decides.
func c19searchRow(o *outw, rate, q, fi int64) {
	if rate <= 0 {
		return
	}
	big1e9 := big.NewInt(1_000_000_000)
	for cq := int64(1); cq <= q; {
		n := new(big.Int).Mul(big1e9, big.NewInt(cq))
		cfi, rem := new(big.Int).QuoRem(n, big.NewInt(rate), new(big.Int))
		x := new(big.Int).Mul(big.NewInt(rate), cfi)
		lhs := new(big.Int).Mul(big.NewInt(100), new(big.Int).Sub(n, x))
		if lhs.Cmp(x) == 0 && cfi.Sign() > 0 {
			o.N(fmt.Sprintf("C19 search: rate %d has a candidate quantum %d exactly on the 1%% boundary; comparison with the exact search skipped", rate, cq))
			return
		}
		_ = rem
		nq := cq * 11 / 10
		if nq == cq {
			nq++
		}
		cq = nq
	}
	o.T(fmt.Sprintf("tb.search rate=%d", rate), fmt.Sprintf("q=%d fi=%d", q, fi))
	o.stat("search_rows", 1)
}

func c19logRate(r *rng, lo, hi float64) int64 {
	u := float64(r.next()%1_000_000) / 1_000_000
	return int64(math.Exp(math.Log(lo) + u*(math.Log(hi)-math.Log(lo))))
}

func c19buckets(c *ctx) {
	o, r := c.o, c.r
	rates := []int64{1, 7, 100, 999, 1000, 1024, 4096, 16384, 16401, 20480, 65536, 100_000, 123_457, 1_000_000, 10_000_000,
		30_000_000, 100_000_000, 250_000_000, 300_000_000, 1_000_000_000, 3_000_000_000}
	n := 300
	steps := 40
	if c.thorough() {
		n, steps = 3000, 80
	}
	for i := 0; i < n; i++ {
		rates = append(rates, c19logRate(r, 1, 5e9))
	}
	for i, rate := range rates {
		capacity := rate // what MakeValve passes
		if i%3 == 2 {
			capacity = 1 + c19logRate(r, 1, 4*float64(rate)+10)
		}
		clk := &c19clock{t: time.Unix(1_600_000_000, 0)}
		start := clk.t
		b := ratelimit.NewBucketWithRateAndClock(float64(rate), capacity, clk)
		q, fi, cp := c19bucketParams(b)
		implOK := 0
		if math.Abs(b.Rate()-float64(rate))/float64(rate) <= 0.01 {
			implOK = 1
		}
		c19searchRow(o, rate, q, fi)
		o.T(fmt.Sprintf("tb.new rate=%d cap=%d q=%d fi=%d", rate, cp, q, fi), fmt.Sprintf("ok rateOK=%d", implOK))
		if !c19rateOKexact(q, fi, rate) {
			o.V("C19 constructor-rate-outside-1%: the limiter's real rate differs from the configured rate by more than 1 %",
				map[string]any{"rate": rate, "quantum": q, "fillInterval_ns": fi})
		}
		if q > cp+1 {
			o.stat("bucket_quantum_above_capacity", 1)
		}
		o.stat("bucket_rates", 1)
		if q > 1 {
			o.stat("bucket_rates_quantum_gt1", 1)
		}
		var now int64
		for k := 0; k < steps; k++ {
			switch r.intn(8) {
			case 0: // same instant
			case 1:
				now += int64(r.intn(int(min(fi, 1<<30)) + 1))
			case 2:
				now += fi * int64(r.intn(5))
			case 3:
				now += fi*int64(r.intn(1000)) + int64(r.intn(int(min(fi, 1<<30))+1))
			case 4:
				now += int64(r.intn(2_000_000_000)) // up to 2 s
			case 5:
				now += 1_000_000_000 + int64(r.intn(1000))
			default:
				now += int64(r.intn(50_000_000))
			}
			clk.t = start.Add(time.Duration(now))
			if r.intn(7) == 0 {
				o.T(fmt.Sprintf("tb.avail now=%d", now), fmt.Sprintf("avail=%d", b.Available()))
				continue
			}
			var count int64
			switch r.intn(9) {
			case 0:
				count = 0
			case 1:
				count = -int64(r.intn(5))
			case 2:
				count = cp
			case 3:
				count = cp + 1 + int64(r.intn(1000))
			case 4:
				count = 1
			case 5:
				count = 1 + int64(r.next()%uint64(min(20*cp, 2_000_000)+1))
			default:
				count = 1 + int64(r.next()%uint64(min(cp, 20480)+1))
			}
			d := b.Take(count)
			o.T(fmt.Sprintf("tb.take now=%d count=%d", now, count), fmt.Sprintf("wait=%d", int64(d)))
			o.case_(fmt.Sprint("tb", i, k), d > 0)
		}
	}
	o.sample("bucket: tb.new rate=1000 cap=1000 q=1 fi=1000000; tb.take now=0 count=16000 => wait=15000000000")
}

// =============================================================================================
// (ii) real sessions with a LimitedValve on a virtual clock (each batch of cases in its own subprocess)
// =============================================================================================

func c19(c *ctx) {
	c19buckets(c)
	ntv := 2
	if c.thorough() {
		ntv = 8
	}
	for k := 0; k < ntv; k++ {
		c19twoValves(c, k)
	}
	nb := 10
	if c.thorough() {
		nb = 96
	}
	type res struct {
		path string
		err  error
		out  []byte
	}
	results := make([]res, nb)
	sem := make(chan struct{}, 4)
	var wg sync.WaitGroup
	for b := 0; b < nb; b++ {
		wg.Add(1)
		go func(b int) {
			defer wg.Done()
			sem <- struct{}{}
			defer func() { <-sem }()
			path := fmt.Sprintf("c19sub_%d_%d.trace", os.Getpid(), b)
			cctx, cancel := context.WithTimeout(context.Background(), 20*time.Minute) // safety net only
			defer cancel()
			cmd := exec.CommandContext(cctx, os.Args[0], "-tier", c.tier, "-seed", strconv.FormatUint(c.seed, 10), "-out", path, "C19sub", strconv.Itoa(b))
			out, err := cmd.CombinedOutput()
			results[b] = res{path, err, out}
		}(b)
	}
	wg.Wait()
	failed := false
	for b, rs := range results {
		data, rerr := os.ReadFile(rs.path)
		os.Remove(rs.path)
		if rs.err != nil || rerr != nil {
			fmt.Fprintf(os.Stderr, "C19sub batch %d failed: %v %v\n%s\n", b, rs.err, rerr, tail(string(rs.out), 3000))
			failed = true
			continue
		}
		for _, ln := range strings.Split(string(data), "\n") {
			f := strings.SplitN(ln, "\t", 3)
			if len(f) < 3 && !(len(f) == 2 && (f[0] == "X" || f[0] == "N")) {
				continue
			}
			switch f[0] {
			case "T":
				c.o.T(f[1], f[2])
			case "V":
				c.o.V(f[1], json.RawMessage(f[2]))
			case "S":
				if v, err := strconv.Atoi(f[2]); err == nil && f[1] != "trace_lines" && f[1] != "monitor_hits" && f[1] != "distinct_nontrivial" {
					c.o.stat(f[1], v)
				}
			case "X":
				c.o.sample(strings.Join(f[1:], "\t"))
			case "N":
				c.o.N(strings.Join(f[1:], "\t"))
			case "K": // distinct non-trivial case keys of the child
				c.o.distinct[f[1]] = struct{}{}
			}
		}
	}
	if failed {
		c.o.close()
		os.Exit(3)
	}
	// rates up to MaxInt64 (own subprocess)
	if err := runChild(c, "C19huge"); err != nil {
		fmt.Fprintln(os.Stderr, err)
		c.o.close()
		os.Exit(3)
	}
	// a session closed while its writers wait in the user's bucket (own subprocess)
	if err := runChild(c, "C19burnt"); err != nil {
		fmt.Fprintln(os.Stderr, err)
		c.o.close()
		os.Exit(3)
	}
	// the allowance across a disconnect / reconnect of the user (own subprocess)
	if err := runChild(c, "C19re"); err != nil {
		fmt.Fprintln(os.Stderr, err)
		c.o.close()
		os.Exit(3)
	}
}

func tail(s string, n int) string {
	if len(s) > n {
		return s[len(s)-n:]
	}
	return s
}

// ---- in-bubble network ----

type c19queue struct {
	mu     sync.Mutex
	cond   *sync.Cond
	q      [][]byte
	closed bool
}

func newC19queue() *c19queue { q := &c19queue{}; q.cond = sync.NewCond(&q.mu); return q }
func (q *c19queue) put(b []byte) {
	q.mu.Lock()
	q.q = append(q.q, b)
	q.mu.Unlock()
	q.cond.Broadcast()
}
func (q *c19queue) close() { q.mu.Lock(); q.closed = true; q.mu.Unlock(); q.cond.Broadcast() }
func (q *c19queue) get(buf []byte) (int, error) {
	q.mu.Lock()
	defer q.mu.Unlock()
	for len(q.q) == 0 {
		if q.closed {
			return 0, io.EOF
		}
		q.cond.Wait()
	}
	b := q.q[0]
	q.q = q.q[1:]
	return copy(buf, b), nil // one record per Read, like TLSConn.Read
}

type c19conn struct {
	in, out *c19queue
	onWrite func(b []byte)
	closed  bool
	mu      sync.Mutex
}

func (c *c19conn) Read(b []byte) (int, error) { return c.in.get(b) }
func (c *c19conn) Write(b []byte) (int, error) {
	c.mu.Lock()
	cl := c.closed
	c.mu.Unlock()
	if cl {
		return 0, io.ErrClosedPipe
	}
	cp := append([]byte(nil), b...)
	c.onWrite(cp)
	c.out.put(cp)
	return len(b), nil
}
func (c *c19conn) Close() error {
	c.mu.Lock()
	c.closed = true
	c.mu.Unlock()
	c.in.close()
	return nil
}
func (c *c19conn) LocalAddr() net.Addr                { return c14addr{} }
func (c *c19conn) RemoteAddr() net.Addr               { return c14addr{} }
func (c *c19conn) SetDeadline(t time.Time) error      { return nil }
func (c *c19conn) SetReadDeadline(t time.Time) error  { return nil }
func (c *c19conn) SetWriteDeadline(t time.Time) error { return nil }

type c19ev struct {
	t int64 // ns since the valve was made
	n int64 // bytes on the wire
}

type c19plan struct {
	sizes  []int
	pauses []time.Duration // before each write
}

type c19case struct {
	kind      string // witness | backlog | mixed
	rxRate    int64
	txRate    int64
	nsess     int
	nconn     int
	nstream   int
	unordered bool
	viaPanel  bool // server sessions come from userPanel.GetUser / ActiveUser.GetSession
	method    byte
	tx        [][]c19plan // [session][stream]
	rx        [][]c19plan
}

type c19frame struct {
	payload int
	wire    int
	tag     string
}

type c19streamRx struct {
	mu     sync.Mutex
	frames []c19frame // ordered mode: in sending (= sequence) order
}

type c19world struct {
	mu        sync.Mutex
	t0        time.Time
	measuring bool
	txEv      []c19ev
	rxEv      []c19ev
	byTag     map[string]int // unordered: payload tag -> wire length
	txStart   int64          // when the (last started) server-side writer issued its first write
}

func (w *c19world) now() int64 { return int64(time.Since(w.t0)) }

const c19maxUnit = 16132

func c19mkPlan(r *rng, n int, style int, maxSize int, pauseScale time.Duration) c19plan {
	p := c19plan{}
	for i := 0; i < n; i++ {
		var sz int
		switch r.intn(8) {
		case 0:
			sz = maxSize
		case 1:
			sz = 8 + r.intn(20)
		case 2:
			sz = 1200 + r.intn(400)
		case 3:
			sz = 8 + r.intn(maxSize-8)
		default:
			sz = 20 + r.intn(3000)
		}
		if sz > maxSize {
			sz = maxSize
		}
		var pause time.Duration
		switch style {
		case 0: // backlogged
		case 1: // bursty: long silences, then back to back
			if r.intn(6) == 0 {
				pause = time.Duration(r.intn(3000)) * pauseScale
			}
		case 2: // periodic with jitter
			pause = time.Duration(200+r.intn(100)) * pauseScale / 10
		default:
			if r.intn(2) == 0 {
				pause = time.Duration(r.intn(500)) * pauseScale
			}
		}
		p.sizes = append(p.sizes, sz)
		p.pauses = append(p.pauses, pause)
	}
	return p
}

func c19genCase(r *rng, kind string, thorough bool) c19case {
	cs := c19case{kind: kind, method: byte(r.intn(4))}
	switch kind {
	case "witness":
		cs.rxRate, cs.txRate = 1000, 1000
		cs.nsess, cs.nconn, cs.nstream = 1, 1, 1
		cs.tx = [][]c19plan{{{sizes: []int{c19maxUnit, 100, c19maxUnit}, pauses: []time.Duration{0, 0, 0}}}}
		cs.rx = [][]c19plan{{{sizes: []int{c19maxUnit, c19maxUnit}, pauses: []time.Duration{0, 0}}}}
		return cs
	case "backlog":
		cs.nsess, cs.nconn, cs.nstream = 1, 1+r.intn(3), 1
		cs.rxRate = c19logRate(r, 1e3, 1e8)
		cs.txRate = c19logRate(r, 1e3, 1e8)
		n := 30 + r.intn(60)
		cs.tx = [][]c19plan{{c19mkPlan(r, n, 0, c19maxUnit, 0)}}
		cs.rx = [][]c19plan{{{}}}
		return cs
	}
	cs.nsess, cs.nconn, cs.nstream = 1+r.intn(4), 1+r.intn(4), 1+r.intn(4)
	cs.unordered = r.intn(2) == 0
	cs.viaPanel = r.intn(2) == 0
	switch r.intn(5) {
	case 0: // below the largest message
		cs.rxRate, cs.txRate = c19logRate(r, 1e3, 1.6e4), c19logRate(r, 1e3, 1.6e4)
	case 1: // around it
		cs.rxRate, cs.txRate = c19logRate(r, 1.4e4, 4e4), c19logRate(r, 1.4e4, 4e4)
	default:
		cs.rxRate, cs.txRate = c19logRate(r, 2e4, 1e8), c19logRate(r, 2e4, 1e8)
	}
	total := 120 + r.intn(200)
	if thorough {
		total = 200 + r.intn(500)
	}
	per := total / (cs.nsess * cs.nstream)
	if per < 3 {
		per = 3
	}
	// pauses in units that matter at the configured rate: one unit = time for ~100 bytes
	scale := func(rate int64) time.Duration { return time.Duration(100 * 1_000_000_000 / rate) }
	maxSize := c19maxUnit
	if !cs.unordered && r.intn(3) == 0 {
		maxSize = 3 * c19maxUnit // ordered writes larger than one frame are split
	}
	for s := 0; s < cs.nsess; s++ {
		var tx, rx []c19plan
		for k := 0; k < cs.nstream; k++ {
			tx = append(tx, c19mkPlan(r, per/2+r.intn(per), r.intn(4), maxSize, scale(cs.txRate)))
			if !cs.unordered && cs.nconn > 1 {
				// ordered frames spread over several connections may wait in the reorder buffer after they
				// were accepted; delivery time would not be acceptance time: measure tx only
				rx = append(rx, c19plan{})
			} else {
				rx = append(rx, c19mkPlan(r, per/2+r.intn(per), r.intn(4), maxSize, scale(cs.rxRate)))
			}
		}
		cs.tx = append(cs.tx, tx)
		cs.rx = append(cs.rx, rx)
	}
	return cs
}

// c19run executes one case inside the bubble and returns the event logs.
func c19run(c *ctx, r *rng, cs c19case) (w *c19world, rxP, txP mux.Verif19Params) {
	w = &c19world{byTag: map[string]int{}}
	w.t0 = time.Now()
	w.measuring = true
	// the server-side sessions of the one user: either handed one mux.MakeValve(rx, tx) directly, or obtained the way
	// the dispatcher obtains them -- panel.GetUser(uid) then user.GetSession(id, config) per session (the valve is
	// then made inside GetUser).  Either way the buckets start at this very (virtual) instant.
	keys := make([][32]byte, cs.nsess)
	srvCfg := make([]mux.SessionConfig, cs.nsess)
	ids := make([]uint32, cs.nsess)
	for si := range keys {
		copy(keys[si][:], r.bytes(32))
		ob, _ := mux.MakeObfuscator(cs.method, keys[si])
		srvCfg[si] = mux.SessionConfig{Obfuscator: ob, Unordered: cs.unordered, MsgOnWireSizeLimit: 16401, InactivityTimeout: 100000 * time.Hour}
		ids[si] = uint32(si + 1)
	}
	srvSessions := make([]*mux.Session, cs.nsess)
	if cs.viaPanel {
		ss, valves, err := server.Verif19UserSessions(cs.rxRate, cs.txRate, []byte("0123456789abcdef"), ids, srvCfg)
		if err != nil {
			panic(err)
		}
		copy(srvSessions, ss)
		lv, ok := valves[0].(*mux.LimitedValve)
		if !ok {
			c.o.V("C19 a limited user's session was not given a limiting valve", map[string]any{"rx": cs.rxRate, "tx": cs.txRate})
			lv = mux.MakeValve(cs.rxRate, cs.txRate)
		}
		rxP, txP = mux.Verif19ValveParams(lv)
	} else {
		valve := mux.MakeValve(cs.rxRate, cs.txRate)
		rxP, txP = mux.Verif19ValveParams(valve)
		for si := range srvSessions {
			srvCfg[si].Valve = valve
			srvSessions[si] = mux.MakeSession(ids[si], srvCfg[si])
		}
	}
	type sess struct {
		srv, cli *mux.Session
		sStreams map[uint32]*mux.Stream
		cStreams []*mux.Stream
		hello    []int
		rxq      map[uint32]*c19streamRx
	}
	sessions := make([]*sess, cs.nsess)
	serial := 0
	for si := 0; si < cs.nsess; si++ {
		key := keys[si]
		obC, _ := mux.MakeObfuscator(cs.method, key)
		obD, _ := mux.MakeObfuscator(cs.method, key)
		se := &sess{sStreams: map[uint32]*mux.Stream{}, rxq: map[uint32]*c19streamRx{}}
		se.srv = srvSessions[si]
		se.cli = mux.MakeSession(ids[si], mux.SessionConfig{Obfuscator: obC, Unordered: cs.unordered, MsgOnWireSizeLimit: 16401, InactivityTimeout: 100000 * time.Hour})
		for k := 0; k < cs.nconn; k++ {
			up, down := newC19queue(), newC19queue() // up: client -> server
			sc := &c19conn{in: up, out: down}
			cc := &c19conn{in: down, out: up}
			sc.onWrite = func(b []byte) {
				w.mu.Lock()
				if w.measuring {
					w.txEv = append(w.txEv, c19ev{w.now(), int64(len(b))})
				}
				w.mu.Unlock()
			}
			seL := se
			cc.onWrite = func(b []byte) {
				sid, _, closing, payload, err := mux.Verif19Decode(obD, b)
				if err != nil || closing != 0 {
					return
				}
				if cs.unordered {
					w.mu.Lock()
					w.byTag[string(payload[:min(len(payload), 8)])+fmt.Sprint(len(payload))] = len(b)
					w.mu.Unlock()
					return
				}
				w.mu.Lock()
				q := seL.rxq[sid]
				if q == nil {
					q = &c19streamRx{}
					seL.rxq[sid] = q
				}
				w.mu.Unlock()
				q.mu.Lock()
				q.frames = append(q.frames, c19frame{payload: len(payload), wire: len(b)})
				q.mu.Unlock()
			}
			se.srv.AddConnection(sc)
			se.cli.AddConnection(cc)
		}
		sessions[si] = se
	}
	mkPayload := func(n int) []byte {
		b := r.bytes(n)
		tag := fmt.Sprintf("%08x", serial)
		serial++
		copy(b, tag) // the first min(n,8) bytes identify the datagram (together with its length)
		return b
	}
	// open the streams: the client opens and says hello, the server accepts.  The reader of a stream is started at
	// the very (virtual) instant its stream is accepted, so that every delivery -- the hello included -- is observed
	// when it happens: every delivery is an "accepted from the user" event.
	var rwg, wwg sync.WaitGroup
	for si, se := range sessions {
		for k := 0; k < cs.nstream; k++ {
			st, err := se.cli.OpenStream()
			if err != nil {
				panic(err)
			}
			se.cStreams = append(se.cStreams, st)
			hello := mkPayload(8 + r.intn(8))
			se.hello = append(se.hello, len(hello))
			if _, err := st.Write(hello); err != nil {
				panic(err)
			}
		}
		for n := 0; n < cs.nstream; n++ {
			a, err := se.srv.Accept()
			if err != nil {
				panic(err)
			}
			sst := a.(*mux.Stream)
			sid := mux.Verif14StreamID(sst)
			se.sStreams[sid] = sst
			k := -1
			for i, cst := range se.cStreams {
				if mux.Verif14StreamID(cst) == sid {
					k = i
				}
			}
			if k < 0 {
				panic("accepted a stream the client did not open")
			}
			expect := se.hello[k]
			for _, sz := range cs.rx[si][k].sizes {
				expect += sz
			}
			rwg.Add(1)
			go func(se *sess, sid uint32, sst *mux.Stream, expect int) {
				defer rwg.Done()
				buf := make([]byte, 1<<17)
				got := 0 // payload bytes read so far, the hello included
				for got < expect {
					n, err := sst.Read(buf)
					if err != nil {
						return
					}
					got += n
					t := w.now()
					if cs.unordered {
						w.mu.Lock()
						wire, ok := w.byTag[string(buf[:min(n, 8)])+fmt.Sprint(n)]
						if ok && w.measuring {
							w.rxEv = append(w.rxEv, c19ev{t, int64(wire)})
						}
						w.mu.Unlock()
						continue
					}
					// ordered: n bytes = the payloads of whole frames accepted at this instant
					w.mu.Lock()
					q := se.rxq[sid]
					w.mu.Unlock()
					left := n
					for left > 0 && q != nil {
						q.mu.Lock()
						if len(q.frames) == 0 {
							q.mu.Unlock()
							break
						}
						f := q.frames[0]
						if f.payload > left {
							// the read stopped inside this frame (more than len(buf) bytes were waiting): it counts as
							// accepted when its last byte has been read -- at this same virtual instant
							q.frames[0].payload -= left
							left = 0
							q.mu.Unlock()
							break
						}
						q.frames = q.frames[1:]
						q.mu.Unlock()
						left -= f.payload
						w.mu.Lock()
						if w.measuring {
							w.rxEv = append(w.rxEv, c19ev{t, int64(f.wire)})
						}
						w.mu.Unlock()
					}
				}
			}(se, sid, sst, expect)
		}
	}
	// writers: one goroutine per stream and direction (never two on one stream: Stream.Write sleeps holding writingM)
	for si, se := range sessions {
		for k, cst := range se.cStreams {
			sid := mux.Verif14StreamID(cst)
			txPl, rxPl := cs.tx[si][k], cs.rx[si][k]
			txData := make([][]byte, len(txPl.sizes))
			for i, sz := range txPl.sizes {
				txData[i] = mkPayload(sz)
			}
			rxData := make([][]byte, len(rxPl.sizes))
			for i, sz := range rxPl.sizes {
				rxData[i] = mkPayload(sz)
			}
			wwg.Add(2)
			go func(st *mux.Stream, pl c19plan, data [][]byte) {
				defer wwg.Done()
				w.mu.Lock()
				w.txStart = w.now()
				w.mu.Unlock()
				for i, d := range data {
					if pl.pauses[i] > 0 {
						time.Sleep(pl.pauses[i])
					}
					if _, err := st.Write(d); err != nil {
						return
					}
				}
			}(se.sStreams[sid], txPl, txData)
			go func(st *mux.Stream, pl c19plan, data [][]byte) {
				defer wwg.Done()
				for i, d := range data {
					if pl.pauses[i] > 0 {
						time.Sleep(pl.pauses[i])
					}
					if _, err := st.Write(d); err != nil {
						return
					}
				}
			}(cst, rxPl, rxData)
		}
	}
	wwg.Wait()
	rwg.Wait()
	w.mu.Lock()
	w.measuring = false
	w.mu.Unlock()
	for _, se := range sessions {
		se.cli.Close()
		se.srv.Close()
	}
	return
}

// ---- the monitor: the property evaluated on the event log of one direction ----

type c19verdict struct {
	maxMsg      int64
	events      int
	known, viol bool
}

func c19monitor(c *ctx, dir string, cs c19case, rate int64, p mux.Verif19Params, evs []c19ev, caseKey string) c19verdict {
	o := c.o
	v := c19verdict{events: len(evs)}
	if len(evs) == 0 {
		return v
	}
	sort.SliceStable(evs, func(i, j int) bool { return evs[i].t < evs[j].t })
	var M int64
	for _, e := range evs {
		if e.n > M {
			M = e.n
		}
	}
	v.maxMsg = M
	// group by instant
	type inst struct{ t, n int64 }
	var ins []inst
	for _, e := range evs {
		if len(ins) > 0 && ins[len(ins)-1].t == e.t {
			ins[len(ins)-1].n += e.n
		} else {
			ins = append(ins, inst{e.t, e.n})
		}
	}
	pre := make([]int64, len(ins)+1)
	for i, x := range ins {
		pre[i+1] = pre[i] + x.n
	}
	// capacity of the theorem's instance = one second's worth of the configured rate (what MakeValve must build)
	thmMax := rate
	if M+p.Q-1 > thmMax {
		thmMax = M + p.Q - 1
	}
	detail := func(i, j int, bytes, bound int64) map[string]any {
		return map[string]any{"case": caseKey, "direction": dir, "rate": rate, "capacity": p.Cap, "one_second_worth": rate, "quantum": p.Q, "fillInterval_ns": p.FI,
			"largest_message": M, "from_ns": ins[i].t, "to_ns": ins[j].t, "bytes_in_interval": bytes, "bound": bound,
			"sessions": cs.nsess, "conns": cs.nconn, "streams": cs.nstream, "unordered": cs.unordered, "kind": cs.kind}
	}
	for i := 0; i < len(ins) && !(v.known && v.viol); i++ {
		ta := ins[i].t / p.FI
		for j := i; j < len(ins); j++ {
			bytes := pre[j+1] - pre[i]
			tb := ins[j].t / p.FI
			thm := thmMax + p.Q*(tb-ta)
			if bytes > thm {
				if !v.viol {
					v.viol = true
					o.V("C19 exceeds-proved-bound: more bytes in an interval than max(capacity, M+q-1) + q*ticks", detail(i, j, bytes, thm))
				}
				continue
			}
			// the property's literal bound: rate*t + one second's worth, 1 % tolerance, one quantum of granularity
			dt := ins[j].t - ins[i].t
			if float64(bytes-p.Q)*1e11 < 0.999*101*(float64(rate)*float64(dt)+float64(rate)*1e9) {
				continue // far below the literal bound; the exact comparison follows only near it
			}
			lhs := new(big.Int).Mul(big.NewInt(bytes-p.Q), big.NewInt(100_000_000_000))
			rhs := new(big.Int).Add(new(big.Int).Mul(big.NewInt(rate), big.NewInt(dt)), new(big.Int).Mul(big.NewInt(rate), big.NewInt(1_000_000_000)))
			rhs.Mul(rhs, big.NewInt(101))
			if lhs.Cmp(rhs) > 0 {
				lit := new(big.Int).Div(rhs, big.NewInt(100_000_000_000)).Int64() + p.Q
				if rate < M {
					if !v.known {
						v.known = true
						o.V("C19 burst-exceeds-one-second-worth rate<message", detail(i, j, bytes, lit))
					}
				} else if !v.viol {
					v.viol = true
					o.V("C19 literal-bound-exceeded although rate>=largest message", detail(i, j, bytes, lit))
				}
			}
		}
	}
	return v
}

// single backlogged sender: T rows against the Lean bucket and the not-starved clause
func c19backlog(c *ctx, cs c19case, p mux.Verif19Params, evs []c19ev, start int64, caseKey string) {
	o := c.o
	sort.SliceStable(evs, func(i, j int) bool { return evs[i].t < evs[j].t })
	if len(evs) < 2 {
		return
	}
	// the hello frames are client->server; every tx event is one message of the one backlogged server-side writer
	o.T(fmt.Sprintf("tb.new rate=%d cap=%d q=%d fi=%d", cs.txRate, p.Cap, p.Q, p.FI), "ok rateOK=1")
	var M int64
	for _, e := range evs {
		if e.n > M {
			M = e.n
		}
	}
	// request 0 is issued when the writer starts, request k at the release time of message k-1 (the writer never pauses)
	prev := start
	var sum int64
	for k, e := range evs {
		reqAt := prev
		o.T(fmt.Sprintf("tb.take now=%d count=%d", reqAt, e.n), fmt.Sprintf("wait=%d", e.t-reqAt))
		// not starved: while message k was pending (ticks in [tick(reqAt), tick(e.t)) ), released so far = sum
		if k > 0 && e.t > reqAt {
			tEnd := e.t/p.FI - 1
			if tEnd >= reqAt/p.FI {
				// property clause: a backlogged sender is not held below the rate (1 % granularity, one message in flight)
				// bytes so far >= 0.99*rate*t - M - q   with t measured from the start of the valve
				lhs := new(big.Int).Mul(big.NewInt(sum+M+p.Q), big.NewInt(100_000_000_000))
				rhs := new(big.Int).Mul(big.NewInt(99*cs.txRate), big.NewInt(max(0, tEnd*p.FI-start)))
				if lhs.Cmp(rhs) < 0 {
					o.V("C19 backlogged-sender-starved: held below the configured rate", map[string]any{"case": caseKey, "rate": cs.txRate,
						"quantum": p.Q, "fillInterval_ns": p.FI, "at_ns": tEnd * p.FI, "bytes_so_far": sum, "largest_message": M, "message_index": k})
					return
				}
			}
		}
		sum += e.n
		prev = e.t
	}
}

func c19sub(c *ctx) {
	batch := 0
	if len(c.args) > 0 {
		batch, _ = strconv.Atoi(c.args[0])
	}
	r := &rng{c.seed*0x9E3779B97F4A7C15 + uint64(batch)*0x1000193 + 77}
	ncases := 8
	if c.thorough() {
		ncases = 12
	}
	var deferred []c19hit
	synctest.Run(func() {
		for i := 0; i < ncases; i++ {
			kind := "mixed"
			if batch == 0 && i == 0 {
				kind = "witness"
			} else if i == 1 {
				kind = "backlog"
			}
			cs := c19genCase(r, kind, c.thorough())
			key := fmt.Sprintf("b%d.c%d %s rx=%d tx=%d sess=%d conn=%d str=%d unordered=%v panel=%v %s", batch, i, kind, cs.rxRate, cs.txRate, cs.nsess, cs.nconn, cs.nstream, cs.unordered, cs.viaPanel, c14methods[cs.method])
			w, rxP, txP := c19run(c, r, cs)
			vt := c19monitor(c, "tx", cs, cs.txRate, txP, w.txEv, key)
			vr := c19monitor(c, "rx", cs, cs.rxRate, rxP, w.rxEv, key)
			if kind == "backlog" {
				c19backlog(c, cs, txP, w.txEv, w.txStart, key)
			}
			for _, pp := range []struct {
				rate int64
				p    mux.Verif19Params
			}{{cs.rxRate, rxP}, {cs.txRate, txP}} {
				if pp.p.Cap > pp.rate+pp.rate/100 {
					deferred = append(deferred, c19hit{"C19 bucket capacity is more than one second's worth of the configured rate", map[string]any{"case": key, "rate": pp.rate, "capacity": pp.p.Cap}})
				}
				if !c19rateOKexact(pp.p.Q, pp.p.FI, pp.rate) {
					deferred = append(deferred, c19hit{"C19 constructor-rate-outside-1%: the limiter's real rate differs from the configured rate by more than 1 %",
						map[string]any{"case": key, "rate": pp.rate, "quantum": pp.p.Q, "fillInterval_ns": pp.p.FI}})
				}
			}
			c.o.stat("session_cases", 1)
			c.o.stat("session_tx_events", vt.events)
			c.o.stat("session_rx_events", vr.events)
			if cs.txRate < vt.maxMsg || cs.rxRate < vr.maxMsg {
				c.o.stat("session_cases_rate_below_message", 1)
			}
			nontriv := vt.events+vr.events > 20
			c.o.case_(key, nontriv)
			if nontriv {
				c.o.w.WriteString("K\t" + key + "\t1\n")
			}
			if i < 2 && batch == 0 {
				c.o.sample(fmt.Sprintf("%s: %d tx events, %d rx events, virtual duration %.3fs", key, vt.events, vr.events, float64(w.now())/1e9))
			}
		}
		// configuration-level hits after the traffic-level ones, so that a replay leads with a timed failing input
		for _, h := range deferred {
			c.o.V(h.sig, h.detail)
		}
		c.o.close()
		os.Exit(0)
	})
}

type c19hit struct {
	sig    string
	detail map[string]any
}
