//go:build verif

package main

import (
	"bytes"
	"fmt"
	"testing/synctest"
	"time"
)

// C14 "each datagram accepted on an open stream of a healthy session is delivered exactly once": a reader that lags far
// behind. The writer's Stream.Write accepts N datagrams (up to the per-frame maximum each, megabytes in total) on one
// stream while the peer's application does not read; a marker datagram on a second stream shows that the connection is still
// being served; then the reader drains. Every accepted datagram must come out, whole, in order (one connection).
// (Seed C14-8 of round 6 - a 1 MiB per-stream cap whose overflow is dropped with an error the receive loop only logs - was
// missed because no scenario ever let more than a few dozen kilobytes queue up in one pipe.)

func init() { scenarios["C14backlog"] = c14backlog }

func c14backlog(c *ctx) {
	cases := []struct{ n, size int }{{90, 16132}, {300, 4000}, {2500, 600}}
	if c.thorough() {
		cases = append(cases, struct{ n, size int }{1200, 16132}, struct{ n, size int }{40000, 300})
	}
	for k, cs := range cases {
		c14backlogCase(c, k, cs.n, cs.size)
	}
}

func c14backlogCase(c *ctx, k, n, size int) {
	r := c.r
	method := byte(k % 4)
	tag := fmt.Sprintf("lagging reader #%d method=%d datagrams=%d size=%dB total=%dB", k, method, n, size, n*size)
	synctest.Run(func() {
		var key [32]byte
		copy(key[:], r.bytes(32))
		rg := newSeshPair(method, key, 1, false, true, time.Hour)
		A, B := rg.S[0].sesh, rg.S[1].sesh
		st, err := A.OpenStream()
		if err != nil {
			panic(err)
		}
		var sent [][]byte
		for i := 0; i < n; i++ {
			d := r.bytes(size)
			d[0], d[1] = byte(i), byte(i>>8)
			if _, err := st.Write(d); err != nil {
				break // not accepted: not owed
			}
			sent = append(sent, d)
			synctest.Wait()
			for {
				if _, ok := rg.deliver(0, 0); !ok {
					break
				}
			}
			synctest.Wait()
		}
		sb, err := B.Accept()
		if err != nil {
			c.o.N("C14 backlog: the stream did not arrive - case skipped")
			return
		}
		buf := make([]byte, 20000)
		for i, want := range sent {
			_ = sb.SetReadDeadline(time.Now().Add(time.Second)) // virtual time: a missing datagram ends in ErrTimeout, not in a hang
			got, err := sb.Read(buf)
			if err != nil || !bytes.Equal(buf[:got], want) {
				c.o.V("C14 accepted-datagram-not-delivered lagging-reader: a datagram accepted by Stream.Write on an open stream of a healthy session never reaches the reader",
					map[string]any{"tag": tag, "index": i, "of": len(sent), "queued_bytes_before_it": i * size, "read": got, "err": fmt.Sprint(err),
						"replay": fmt.Sprintf("unordered session pair, one connection; A writes %d datagrams of %d bytes on one stream, all records delivered to B, nobody reads; then B reads: datagram %d is missing or altered", len(sent), size, i)})
				break
			}
		}
		c.o.stat("backlog_datagrams", len(sent))
		c.o.stat("backlog_bytes", len(sent)*size)
		A.Close()
		B.Close()
		rg.propagate()
		synctest.Wait()
	})
	c.o.case_(tag, true)
}
