//go:build verif

package main

import (
	"bytes"
	"fmt"
	"math"
	"sort"
	"strings"

	mux "github.com/cbeuw/Cloak/internal/multiplex"
)

func init() { scenarios["C02heap"] = c02heap }

// hpRun drives one real sorterHeap (through the real container/heap) and keeps a shadow multiset (sorted slice).
// Monitor = only what in-order reassembly needs from the heap: a pop returns a minimum, and no key is lost or duplicated.
type hpRun struct {
	c        *ctx
	tag      string
	h        *mux.VerifHeap
	shadow   []uint64 // sorted
	ops      []string // the last <= 40 ops
	nops     int
	before   string // layout before the last op
	lay      string // layout now
	pushes   int
	pops     int
	nontriv  bool
	maxSize  int
	desc     strings.Builder // compact description of the script (case key of the short scripts)
	longDesc bool
}

func hpNew(c *ctx, tag string) *hpRun {
	h := &hpRun{c: c, tag: tag, h: mux.VerifNewHeap(), lay: "[]"}
	c.o.T("hp.new", "ok")
	return h
}

func (h *hpRun) note(op string) {
	h.nops++
	if len(h.ops) == 40 {
		h.ops = append(h.ops[:0], h.ops[1:]...)
	}
	h.ops = append(h.ops, op)
	h.c.o.stat("heap_ops", 1)
}

func (h *hpRun) detail(extra map[string]any) map[string]any {
	d := map[string]any{"script": h.tag, "ops_total": h.nops, "ops": append([]string(nil), h.ops...),
		"layout_before": clip(h.before), "layout_after": clip(h.lay)}
	for k, v := range extra {
		d[k] = v
	}
	return d
}

func clip(s string) string {
	if len(s) > 600 {
		return s[:600] + "..."
	}
	return s
}

// the real heap's content as a multiset must equal the shadow
func (h *hpRun) checkMultiset(what string, key uint64) {
	got := h.h.Seqs()
	ok := len(got) == len(h.shadow)
	if ok {
		m := make(map[uint64]int, len(got))
		for _, x := range got {
			m[x]++
		}
		for _, x := range h.shadow {
			m[x]--
			if m[x] < 0 {
				ok = false
				break
			}
		}
	}
	if !ok {
		h.c.o.V("C02 heap-lost-or-duplicated-frame", h.detail(map[string]any{"after": what, "key": key,
			"len": len(got), "want_len": len(h.shadow)}))
		// resynchronise so that one defect is one hit
		h.shadow = append(h.shadow[:0], got...)
		sort.Slice(h.shadow, func(i, j int) bool { return h.shadow[i] < h.shadow[j] })
	}
}

func (h *hpRun) push(k uint64) {
	op := fmt.Sprintf("hp.push seq=%d", k)
	h.note(op)
	h.before = h.lay
	h.h.Push(k)
	h.lay = h.h.Layout()
	h.c.o.T(op, h.lay)
	h.pushes++
	if !h.longDesc {
		fmt.Fprintf(&h.desc, "+%d", k)
	}
	i := sort.Search(len(h.shadow), func(i int) bool { return h.shadow[i] >= k })
	h.shadow = append(h.shadow, 0)
	copy(h.shadow[i+1:], h.shadow[i:])
	h.shadow[i] = k
	if len(h.shadow) > h.maxSize {
		h.maxSize = len(h.shadow)
	}
	h.checkMultiset("push", k)
}

func (h *hpRun) pop() {
	h.note("hp.pop")
	h.before = h.lay
	k, panicked := h.h.Pop()
	if panicked {
		h.c.o.T("hp.pop", "panic")
		h.c.o.stat("heap_pop_panics", 1)
		if !h.longDesc {
			h.desc.WriteString("-!")
		}
		return
	}
	h.lay = h.h.Layout()
	h.c.o.T("hp.pop", fmt.Sprintf("k=%d %s", k, h.lay))
	h.pops++
	h.c.o.stat("heap_pops", 1)
	if h.pushes >= 3 {
		h.nontriv = true
	}
	if !h.longDesc {
		h.desc.WriteString("-")
	}
	i := sort.Search(len(h.shadow), func(i int) bool { return h.shadow[i] >= k })
	if i >= len(h.shadow) || h.shadow[i] != k {
		h.c.o.V("C02 heap-lost-or-duplicated-frame", h.detail(map[string]any{"after": "pop", "popped": k,
			"reason": "popped key was not in the heap"}))
	} else {
		h.shadow = append(h.shadow[:i], h.shadow[i+1:]...)
		if len(h.shadow) > 0 && h.shadow[0] < k {
			h.c.o.V("C02 heap-pop-not-minimum", h.detail(map[string]any{"popped": k, "smaller_remaining": h.shadow[0]}))
		}
	}
	h.checkMultiset("pop", k)
}

func (h *hpRun) popAll() {
	for len(h.shadow) > 0 && h.h.Len() > 0 {
		h.pop()
	}
}

func (h *hpRun) done() {
	key := h.tag
	if !h.longDesc {
		key = h.desc.String()
	}
	h.c.o.case_("heap "+key, h.nontriv)
	h.c.o.stat("heap_scripts", 1)
	if h.maxSize > hpMaxSize {
		h.c.o.stat("heap_max_size", h.maxSize-hpMaxSize)
		hpMaxSize = h.maxSize
	}
}

var hpMaxSize int

// keys of a structured run of length n
func hpPattern(r *rng, pat string, n int) []uint64 {
	ks := make([]uint64, n)
	switch pat {
	case "asc":
		b := uint64(r.intn(5))
		for i := range ks {
			ks[i] = b + uint64(i)
		}
	case "desc":
		b := uint64(r.intn(5))
		for i := range ks {
			ks[i] = b + uint64(n-1-i)
		}
	case "rand":
		for i := range ks {
			ks[i] = uint64(r.intn(4 * n))
		}
	case "equal":
		k := uint64(r.intn(9))
		if r.intn(3) == 0 {
			k = math.MaxUint64 - uint64(r.intn(3))
		}
		for i := range ks {
			ks[i] = k
		}
	case "nearmax": // a signed or truncated comparison misorders these
		for i := range ks {
			switch r.intn(5) {
			case 0:
				ks[i] = math.MaxUint64 - uint64(r.intn(4))
			case 1:
				ks[i] = 1<<63 - 2 + uint64(r.intn(4)) // around the sign bit
			case 2:
				ks[i] = 1<<32 - 2 + uint64(r.intn(4)) // around 32 bits
			case 3:
				ks[i] = uint64(r.intn(4))<<32 | uint64(r.intn(3)) // equal low words, different high words
			default:
				ks[i] = uint64(r.intn(6))
			}
		}
	case "sawtooth":
		w := 2 + r.intn(3)
		for i := range ks {
			ks[i] = uint64(i%w) + uint64(i/w)
		}
	case "dups":
		for i := range ks {
			ks[i] = uint64(r.intn(1 + n/8))
		}
	}
	return ks
}

func c02heap(c *ctx) {
	o, r := c.o, c.r
	mult := 1
	if c.thorough() {
		mult = 10
	}

	// ---- (a) the heap alone ----
	// one pop on an empty heap
	{
		h := hpNew(c, "empty-pop")
		h.pop()
		h.done()
	}
	// (a1) short random scripts, size <= 8, keys from a tiny range
	sampledShort, sampledSB := false, false
	for s := 0; s < 500*mult; s++ {
		h := hpNew(c, "short")
		capN := 1 + r.intn(8)
		kr := 1 + r.intn(5) // keys 0..kr-1: many duplicates
		var off uint64
		if r.intn(6) == 0 {
			off = math.MaxUint64 - uint64(kr) // the same tiny range, right below 2^64
		}
		L := 4 + r.intn(21)
		for i := 0; i < L; i++ {
			sz := len(h.shadow)
			if sz == 0 || (sz < capN && r.intn(5) < 3) {
				k := uint64(r.intn(kr)) + off
				if off != 0 && r.intn(3) == 0 {
					k = uint64(r.intn(kr)) // mixed with small keys
				}
				h.push(k)
			} else {
				h.pop()
			}
		}
		if r.intn(2) == 0 {
			h.popAll()
		}
		if !sampledShort && h.maxSize >= 5 && h.pops >= 3 {
			sampledShort = true
			o.sample("short heap script " + h.desc.String() + " -> " + h.lay)
		}
		h.done()
	}
	// (a2) structured runs for every size 1..8: push all, pop all
	pats := []string{"asc", "desc", "rand", "equal", "nearmax", "sawtooth"}
	for rep := 0; rep < 3*mult; rep++ {
		for n := 1; n <= 8; n++ {
			for _, pat := range pats {
				h := hpNew(c, fmt.Sprintf("%s n=%d", pat, n))
				for _, k := range hpPattern(r, pat, n) {
					h.push(k)
				}
				h.popAll()
				if pat == "nearmax" && n == 8 && rep == 0 {
					o.sample("keys near 2^64 mixed with small ones: " + h.desc.String())
				}
				h.done()
			}
		}
	}
	// (a3) a few hundred elements: push all, pop all
	for rep := 0; rep < mult; rep++ {
		for _, pat := range []string{"asc", "desc", "rand", "dups", "nearmax"} {
			n := 200 + r.intn(150)
			h := hpNew(c, fmt.Sprintf("mid %s n=%d rep=%d", pat, n, rep))
			h.longDesc = true
			for _, k := range hpPattern(r, pat, n) {
				h.push(k)
			}
			h.popAll()
			h.done()
		}
	}
	// (a4) interleaved, pop probability ~40%
	for rep := 0; rep < 3*mult; rep++ {
		nops := 700 + r.intn(200)
		h := hpNew(c, fmt.Sprintf("interleaved ops=%d rep=%d", nops, rep))
		h.longDesc = true
		kr := []int{20, 1000, 1 << 30}[rep%3]
		for i := 0; i < nops; i++ {
			if len(h.shadow) > 0 && r.intn(10) < 4 {
				h.pop()
			} else {
				k := uint64(r.intn(kr))
				if r.intn(40) == 0 {
					k = math.MaxUint64 - uint64(r.intn(8))
				}
				h.push(k)
			}
		}
		h.done()
	}
	// (a5) one big heap: 4 blocks of (520 pushes, 20 pops), then 340 pops: 2500 ops, peak size 2020
	nbig := 1
	if c.thorough() {
		nbig = 2
	}
	for rep := 0; rep < nbig; rep++ {
		h := hpNew(c, fmt.Sprintf("big rep=%d", rep))
		h.longDesc = true
		for b := 0; b < 4; b++ {
			for i := 0; i < 520; i++ {
				k := uint64(r.intn(5000))
				if r.intn(50) == 0 {
					k = math.MaxUint64 - uint64(r.intn(100))
				}
				h.push(k)
			}
			for i := 0; i < 20; i++ {
				h.pop()
			}
		}
		for i := 0; i < 340; i++ {
			h.pop()
		}
		o.sample(fmt.Sprintf("big heap script: %d ops, peak size %d, %d pops", h.nops, h.maxSize, h.pops))
		h.done()
	}

	// ---- (b) the heap inside the reorder buffer ----
	sbWrite := func(sb *mux.VerifSB, seq uint64, closing uint8, pl []byte) string {
		buf := append([]byte(nil), pl...)
		res := sb.Write(seq, closing, buf)
		for j := range buf { // the caller reuses its buffer
			buf[j] ^= 0xff
		}
		o.T(fmt.Sprintf("hp.sbwrite seq=%d closing=%d pl=%s", seq, closing, hx(pl)), res+" "+sb.HeapState())
		o.stat("sb_writes", 1)
		return res
	}
	pickBase := func(n int) uint64 {
		switch r.intn(3) {
		case 0:
			return 0
		case 1:
			return 1<<32 - uint64(r.intn(n+2)) // the run crosses 2^32
		}
		return 1<<63 + uint64(r.intn(1000)) + uint64(r.intn(2))<<40
	}
	maxN := 40
	if c.thorough() {
		maxN = 120
	}
	for s := 0; s < 300*mult; s++ {
		n := 1 + r.intn(maxN)
		base := pickBase(n)
		pls := make([][]byte, n)
		for i := range pls {
			pls[i] = r.bytes(r.intn(7))
		}
		cl := n
		if r.intn(3) == 0 {
			cl = r.intn(n)
		}
		order := r.perm(n)
		sb := mux.VerifNewSB(base)
		o.T(fmt.Sprintf("hp.sbnew next=%d", base), "ok")
		closes, errs := 0, 0
		for _, idx := range order {
			closing := uint8(0)
			if idx == cl {
				closing = 1
			}
			switch sbWrite(sb, base+uint64(idx), closing, pls[idx]) {
			case "close":
				closes++
			case "errOld":
				errs++
			}
		}
		var got []byte
		for k := 0; k < n+2; k++ {
			st, b := sb.Read(1 << 16)
			if st != "data" {
				break
			}
			got = append(got, b...)
		}
		var want []byte
		for i := 0; i < n && i < cl; i++ {
			want = append(want, pls[i]...)
		}
		wantCloses := 0
		if cl < n {
			wantCloses = 1
		}
		if !bytes.Equal(got, want) || closes != wantCloses || errs != 0 {
			o.V("C02 reassembly-heap", map[string]any{"base": base, "n": n, "order": order, "closing": cl,
				"got": hx(got), "want": hx(want), "closes": closes, "errOld": errs, "state": sb.HeapState()})
		}
		nontriv := false
		for i := range order {
			if order[i] != i {
				nontriv = true
			}
		}
		o.case_(fmt.Sprint("sb ", base, order, cl), nontriv)
		o.stat("sb_scripts", 1)
		if !sampledSB && n >= 6 && n <= 12 && nontriv {
			sampledSB = true
			o.sample(fmt.Sprintf("reorder buffer script base=%d n=%d closing=%d order=%v -> %s", base, n, cl, order, sb.HeapState()))
		}
	}
	// malformed (outside the property: a duplicate): the SAME frame twice, then the run completes. T rows only.
	for s := 0; s < 3*mult; s++ {
		next := []uint64{0, 1<<32 - 2, 1<<63 + 5}[s%3]
		if s >= 3 {
			next += uint64(r.intn(1000))
		}
		sb := mux.VerifNewSB(next)
		o.T(fmt.Sprintf("hp.sbnew next=%d", next), "ok")
		pl := make([][]byte, 5)
		for i := range pl {
			pl[i] = r.bytes(1 + r.intn(6))
		}
		for _, d := range []int{2, 2, 0, 1, 3, 4} {
			sbWrite(sb, next+uint64(d), 0, pl[d])
		}
		o.stat("sb_malformed_scripts", 1)
	}
}
