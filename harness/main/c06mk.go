//go:build verif

package main

// C06, connector part: the REAL client.MakeSession with a scripted common.Dialer, against the real
// server.dispatchConnection over in-memory connections, inside a testing/synctest bubble (the 3 s sleeps between
// attempts and the back-off waits of common.backoff are virtual).  Per attempt the dialer either fails, or hands out a
// connection whose server side refuses the handshake (hangs up, answers garbage, or — the case the chrome→firefox
// fall-back exists for — drops chrome ClientHellos), or lets the real server answer.  Observed: which goroutine made
// the attempt, the browser fingerprint of the ClientHello the server saw, the virtual time of the attempt, which
// connections the client closed, what the session finally holds (key, connections, options).
// The Lean event machine (ops mk.*) replays the same attempts.  Also: common.RandRead with a scripted reader,
// common.RandInt draws.

import (
	"errors"
	"fmt"
	"net"
	"regexp"
	"runtime"
	"sort"
	"strconv"
	"strings"
	"sync"
	"sync/atomic"
	"testing/synctest"
	"time"

	"github.com/cbeuw/Cloak/internal/client"
	"github.com/cbeuw/Cloak/internal/common"
	mux "github.com/cbeuw/Cloak/internal/multiplex"
	"github.com/cbeuw/Cloak/internal/server"
	log "github.com/sirupsen/logrus"
)

func init() {
	scenarios["C06mk"] = func(c *ctx) {
		if err := runChild(c, "C06mk.child"); err != nil {
			c.o.N("C06mk child failed: " + err.Error())
			c.o.T("mk.child", "failed: "+strings.ReplaceAll(err.Error(), "\n", " | "))
		}
	}
	scenarios["C06mk.child"] = func(c *ctx) {
		synctest.Run(func() {
			c06mkRun(c)
			childFinish(c)
		})
	}
}

// ---- ClientHello fingerprint: the cipher-suite list with GREASE values blanked ----
func helloSuites(rec []byte) string {
	// record header 5, handshake header 4, version 2, random 32, session id (1+len), cipher suites (2+len)
	p := 5 + 4 + 2 + 32
	if len(rec) < p+1 {
		return ""
	}
	p += 1 + int(rec[p])
	if len(rec) < p+2 {
		return ""
	}
	n := int(rec[p])<<8 | int(rec[p+1])
	p += 2
	if len(rec) < p+n {
		return ""
	}
	var sb strings.Builder
	for i := 0; i+1 < n; i += 2 {
		a, b := rec[p+i], rec[p+i+1]
		if a == b && a&0x0f == 0x0a {
			sb.WriteString("GG")
		} else {
			sb.WriteString(fmt.Sprintf("%02x%02x", a, b))
		}
	}
	return sb.String()
}

var gidRe = regexp.MustCompile(`^goroutine (\d+) `)

func goid() int {
	buf := make([]byte, 64)
	buf = buf[:runtime.Stack(buf, false)]
	m := gidRe.FindSubmatch(buf)
	if m == nil {
		return -1
	}
	v, _ := strconv.Atoi(string(m[1]))
	return v
}

type mkTrack struct {
	net.Conn
	closed int32
}

func (t *mkTrack) Close() error { atomic.StoreInt32(&t.closed, 1); return t.Conn.Close() }

type mkPrefix struct {
	net.Conn
	pre []byte
}

func (p *mkPrefix) Read(b []byte) (int, error) {
	if len(p.pre) > 0 {
		n := copy(b, p.pre)
		p.pre = p.pre[n:]
		return n, nil
	}
	return p.Conn.Read(b)
}

const (
	mkOK = iota
	mkDialFail
	mkHangUp
	mkGarbage
)

type mkAttempt struct {
	idx   int
	gid   int
	at    time.Duration
	plan  int
	conn  *mkTrack
	suite string
	seen  chan struct{}
}

type mkDialer struct {
	mu         sync.Mutex
	start      time.Time
	script     []int
	dropChrome bool
	chromeFP   string
	sta        *server.State
	garbage    []byte
	attempts   []*mkAttempt
}

func (d *mkDialer) Dial(network, address string) (net.Conn, error) {
	d.mu.Lock()
	a := &mkAttempt{idx: len(d.attempts), gid: goid(), at: time.Since(d.start), plan: mkOK, seen: make(chan struct{})}
	if a.idx < len(d.script) {
		a.plan = d.script[a.idx]
	}
	d.attempts = append(d.attempts, a)
	d.mu.Unlock()
	if a.plan == mkDialFail {
		return nil, errors.New("scripted dial failure")
	}
	cEnd, sEnd := net.Pipe()
	a.conn = &mkTrack{Conn: cEnd}
	go func() {
		buf := make([]byte, 16384)
		n, err := sEnd.Read(buf)
		if err != nil {
			close(a.seen)
			sEnd.Close()
			return
		}
		first := append([]byte(nil), buf[:n]...)
		a.suite = helloSuites(first)
		close(a.seen)
		switch {
		case a.plan == mkHangUp || (d.dropChrome && a.suite == d.chromeFP):
			sEnd.Close()
		case a.plan == mkGarbage:
			go func() { // keep draining so that the write below is not the one that blocks
				b := make([]byte, 4096)
				for {
					if _, err := sEnd.Read(b); err != nil {
						return
					}
				}
			}()
			sEnd.Write(d.garbage)
			sEnd.Close()
		default:
			server.VerifDispatch(&mkPrefix{Conn: sEnd, pre: first}, d.sta)
		}
	}()
	return a.conn, nil
}

type mkScripted struct {
	outcomes []int // per Read: -1 error, otherwise the number of bytes it reports (nil error)
	calls    int
	at       []time.Duration
	start    time.Time
}

func (s *mkScripted) Read(p []byte) (int, error) {
	i := s.calls
	s.calls++
	s.at = append(s.at, time.Since(s.start))
	if i < len(s.outcomes) && s.outcomes[i] >= 0 {
		n := s.outcomes[i]
		if n > len(p) {
			n = len(p)
		}
		for j := 0; j < n; j++ {
			p[j] = 0xAB
		}
		return n, nil
	}
	return 0, errors.New("scripted entropy failure")
}

func c06mkRun(c *ctx) {
	o, r := c.o, c.r
	keys := newServerKeys(r)
	byp := r.bytes(16)
	sta := newState(keys, stateOpts{bypass: [][]byte{byp}, now: time.Now})
	// reference fingerprints of the three browser signatures
	var fps [3]string
	for br := 0; br < 3; br++ {
		var p client.VerifPayload
		copy(p.Rand[:], r.bytes(32))
		copy(p.Ct[:], r.bytes(64))
		h, err := client.VerifClientHello(br, p, "www.example.com")
		if err != nil {
			o.N("reference hello failed: " + err.Error())
			return
		}
		fps[br] = helloSuites(h)
	}
	if fps[0] == fps[1] || fps[0] == fps[2] || fps[1] == fps[2] || fps[0] == "" {
		o.N("browser fingerprints are not distinct: the connector scenario cannot tell the browsers apart")
		o.T("mk.fingerprints", "not-distinct")
		return
	}
	brOf := func(s string) string {
		for i, f := range fps {
			if s == f {
				return strconv.Itoa(i)
			}
		}
		return "?"
	}
	nCases := 14
	maxN := 4
	if c.thorough() {
		nCases, maxN = 120, 8
	}
	garbage := r.bytes(300)
	for ci := 0; ci < nCases; ci++ {
		n := 1 + r.intn(maxN)
		br := []int{0, 0, 0, 1, 2}[r.intn(5)]
		if ci < 3 {
			br = ci
		}
		sp, un := r.intn(2) == 0, r.intn(2) == 0
		sid := uint32(0xC06C1000 + ci)
		enc := byte(r.intn(4))
		d := &mkDialer{sta: sta, chromeFP: fps[0], dropChrome: r.intn(3) == 0, garbage: garbage}
		for i := 0; i < 3*n+2; i++ {
			k := mkOK
			switch x := r.intn(20); {
			case x < 4:
				k = mkDialFail
			case x < 7:
				k = mkHangUp
			case x < 9:
				k = mkGarbage
			}
			if ci == 0 {
				k = mkOK
			}
			d.script = append(d.script, k)
		}
		if ci%5 == 4 { // a malformed stream of outcomes: a long run of failures first
			for i := range d.script {
				if i < 2*n {
					d.script[i] = []int{mkDialFail, mkHangUp, mkGarbage}[r.intn(3)]
				}
			}
		}
		ai := mkAuthInfo(keys, byp, sid, "shadowsocks", enc, un, time.Now, cryptoRand{}, "www.example.com")
		cfg := client.VerifRemoteConnConfig("direct", br, "", n, sp, "127.0.0.1:443")
		d.start = time.Now()
		var sesh *mux.Session
		done := make(chan struct{})
		go func() { sesh = client.MakeSession(cfg, ai, d); close(done) }()
		<-done
		synctest.Wait()
		o.T(fmt.Sprintf("mk.new mode=direct br=%d n=%d sp=%s un=%s sid=%d", br, n, b01(sp), b01(un), sid), "ok")
		active, has, srvKey, srvUn, _ := server.VerifSession(sta, byp, sid)
		gmap := map[int]int{}
		var closed, okConns []int
		fails := 0
		d.mu.Lock()
		atts := d.attempts
		d.mu.Unlock()
		for _, a := range atts {
			g, ok := gmap[a.gid]
			if !ok {
				g = len(gmap)
				gmap[a.gid] = g
			}
			kind, brs, key := "df", "-", uint64(0)
			if a.conn != nil {
				<-a.seen
				brs = brOf(a.suite)
				if atomic.LoadInt32(&a.conn.closed) == 1 {
					kind = "hf"
					closed = append(closed, a.idx)
				} else {
					kind, key = "ok", keyNum(srvKey)
					okConns = append(okConns, a.idx)
				}
			}
			if kind != "ok" {
				fails++
			}
			o.T(fmt.Sprintf("mk.ev k=%s g=%d conn=%d key=%d", kind, g, a.idx, key), fmt.Sprintf("br=%s at=%d", brs, int64(a.at)))
		}
		// what the session holds
		var inSesh []int
		for _, tc := range mux.VerifSessionConns(sesh) {
			if t, ok := client.VerifUnderlying(tc).(*mkTrack); ok {
				for _, a := range atts {
					if a.conn == t {
						inSesh = append(inSesh, a.idx)
					}
				}
			} else {
				inSesh = append(inSesh, -1)
			}
		}
		sort.Ints(inSesh)
		sort.Ints(closed)
		cliKey := sesh.GetSessionKey()
		o.T("mk.end", fmt.Sprintf("ok sid=%d key=%d nconns=%d conns=%s closed=%s dials=%d sp=%s un=%s limit=%d valvenil=%s panicked=0",
			mux.VerifSessionID(sesh), keyNum(cliKey), mux.VerifConnCount(sesh), intsStr(inSesh), intsStr(closed), len(atts),
			b01(sesh.Singleplex), b01(sesh.Unordered), sesh.MsgOnWireSizeLimit, b01(mux.VerifValveUnlimited(sesh))))
		// C06 as stated: both ends hold the same session key, the server recovered the configured options
		det := map[string]any{"case": ci, "numConn": n, "browser": browserNames[br], "session_id": sid, "attempts": len(atts), "failed_attempts": fails,
			"drop_chrome": d.dropChrome}
		switch {
		case !active || !has:
			det["active"], det["has_session"] = active, has
			o.V("C06 connector no-session-on-server", det)
		case cliKey != srvKey:
			det["client_key"], det["server_key"] = hx(cliKey[:]), hx(srvKey[:])
			o.V("C06 connector session-key-mismatch", det)
		case srvUn != un || sesh.Unordered != un:
			det["configured"], det["server"], det["client_session"] = un, srvUn, sesh.Unordered
			o.V("C06 connector unordered-flag-mismatch", det)
		}
		o.case_(fmt.Sprintf("mk/%d/n%d/br%d/f%d", ci, n, br, fails), fails > 0 || n > 1)
		o.stat("mk_attempts", len(atts))
		if ci == 1 {
			o.sample(fmt.Sprintf("MakeSession NumConn=%d browser=%s: %d attempts (%d failed), session key agrees=%v", n, browserNames[br], len(atts), fails, cliKey == srvKey))
		}
		sesh.Close()
		synctest.Wait()
	}

	// ---- common.RandRead on a scripted reader (virtual back-off waits) ----
	log.StandardLogger().ExitFunc = func(int) { panic("verif: log.Fatal") }
	nb := 40
	if c.thorough() {
		nb = 400
	}
	for i := 0; i < nb; i++ {
		k := r.intn(13)
		if i%7 == 0 {
			k = 12 // never succeeds within the retries: log.Fatal
		}
		var oc []int
		for j := 0; j < k; j++ {
			oc = append(oc, -1)
		}
		oc = append(oc, 32)
		var oks []string
		for j := 0; j < 12; j++ {
			if j < len(oc) && oc[j] >= 0 {
				oks = append(oks, "1")
			} else {
				oks = append(oks, "0")
			}
		}
		op := "mk.backoff ok=" + strings.Join(oks, ",")
		src := &mkScripted{outcomes: oc, start: time.Now()}
		buf := make([]byte, 32)
		fatal := false
		func() {
			// log.Fatal ends in logrus' ExitFunc: make it unwind instead of leaving the process
			defer func() {
				if x := recover(); x != nil {
					if x != "verif: log.Fatal" {
						panic(x)
					}
					fatal = true
				}
			}()
			common.RandRead(src, buf)
		}()
		if fatal {
			o.T(op, fmt.Sprintf("fatal calls=%d slept=%d", src.calls, int64(time.Since(src.start))))
		} else {
			o.T(op, fmt.Sprintf("returned calls=%d slept=%d", src.calls, int64(time.Since(src.start))))
		}
		o.case_(fmt.Sprintf("backoff/%d", k), k > 0)
	}
	// ---- common.RandInt ----
	for i := 0; i < nb; i++ {
		n := 1 + r.intn(1000)
		if i%4 == 0 {
			n = 1 + r.intn(3)
		}
		v := common.RandInt(n)
		o.T(fmt.Sprintf("mk.randint n=%d r=%d", n, v), "in-range")
	}
}

func b01(b bool) string {
	if b {
		return "1"
	}
	return "0"
}

func intsStr(xs []int) string {
	var q []string
	for _, x := range xs {
		q = append(q, strconv.Itoa(x))
	}
	return "[" + strings.Join(q, ",") + "]"
}
