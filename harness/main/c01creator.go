//go:build verif

package main

import (
	"bytes"
	"errors"
	"fmt"
	"net"
	"sync"
	"time"

	"github.com/cbeuw/Cloak/internal/client"
	"github.com/cbeuw/Cloak/internal/common"
	mux "github.com/cbeuw/Cloak/internal/multiplex"
	"github.com/cbeuw/Cloak/internal/server"
)

// C01 "a session with open streams keeps working", when the connection that CREATED the session at the server is lost
// while the server writes its handshake reply (a reset at that moment): that connection never becomes a connection of the
// session on either side; the client's other connections (and its re-dial of the lost one) join the session the server has
// registered, all healthy.  Streams opened on it must be served (reach the proxy, be echoed).

type failingReplyConn struct {
	net.Conn
	mu   sync.Mutex
	fail bool
}

func (f *failingReplyConn) Write(b []byte) (int, error) {
	f.mu.Lock()
	fl := f.fail
	f.mu.Unlock()
	if fl {
		return 0, errors.New("connection reset by peer")
	}
	return f.Conn.Write(b)
}

func c01creatorLost(c *ctx, k int) {
	r := c.r
	keys := newServerKeys(r)
	pv, pub := &keys.priv, &keys.pub
	ws := k%2 == 1 // the lost connection came over the WebSocket (CDN) transport
	uid := r.bytes(16)
	world := common.RealWorldState
	seg := func(avail int) int { return avail }
	var umu sync.Mutex
	var upstream []byte
	proxy := funcDialer(func() (net.Conn, error) {
		a, b := newSpipe("upstream", seg)
		go func() {
			buf := make([]byte, 4096)
			for {
				n, err := b.Read(buf)
				if n > 0 {
					umu.Lock()
					upstream = append(upstream, buf[:n]...)
					umu.Unlock()
					b.Write(buf[:n])
				}
				if err != nil {
					return
				}
			}
		}()
		return a, nil
	})
	redir := funcDialer(func() (net.Conn, error) { return nil, errors.New("no web server in the harness") })
	sta := server.VerifC15State(server.VerifNewPanel(nil), pv, world, redir, proxy, "test")
	var arr [16]byte
	copy(arr[:], uid)
	sta.BypassUID[arr] = struct{}{}
	sid := uint32(1 + r.intn(1<<30))
	enc := byte(r.intn(4))
	ai := client.AuthInfo{UID: uid, SessionId: sid, ProxyMethod: "test", EncryptionMethod: enc, ServerPubKey: pub, MockDomain: "www.example.com", WorldState: world}
	// connection 1 creates the session at the server; the server's reply cannot be written
	a1, b1 := newSpipe("creator", seg)
	d1 := make(chan struct{})
	go func() { server.VerifC15Dispatch(&failingReplyConn{Conn: b1, fail: true}, sta); close(d1) }()
	h1 := make(chan error, 1)
	if ws {
		// the upgrade request a CDN forwards, with valid credentials; the server's 101 reply cannot be written
		pk := buildFirstPacket(keys, r, "ws", 0, uid, sid, "test", enc, false, time.Now())
		a1.Write(pk.pkt)
		select {
		case <-d1:
		case <-time.After(2 * time.Second): // dispatchConnection has not returned: it may be parked in the responder
		}
	} else {
		go func() {
			a1.SetDeadline(time.Now().Add(2 * time.Second))
			_, err := client.VerifNewDirectTLS(r.intn(3)).Handshake(a1, ai)
			h1 <- err
		}()
		<-h1
	}
	a1.Close()
	// connection 2 of the same client session: a healthy connection that joins
	a2, b2 := newSpipe("joiner", seg)
	go server.VerifC15Dispatch(b2, sta)
	tr := client.VerifNewDirectTLS(r.intn(3))
	a2.SetDeadline(time.Now().Add(20 * time.Second))
	key, err := tr.Handshake(a2, ai)
	if err != nil {
		c.o.N("C01 creator lost: the second connection's handshake failed (" + err.Error() + ") — case skipped")
		return
	}
	a2.SetDeadline(time.Time{})
	ob, err := mux.MakeObfuscator(enc, key)
	if err != nil {
		return
	}
	sesh := mux.MakeSession(sid, mux.SessionConfig{Obfuscator: ob, InactivityTimeout: time.Hour, MsgOnWireSizeLimit: 16401})
	sesh.AddConnection(tr)
	st, err := sesh.OpenStream()
	if err != nil {
		return
	}
	msg := r.bytes(1 + r.intn(2000))
	st.Write(msg)
	got := make(chan []byte, 1)
	go func() {
		buf := make([]byte, len(msg))
		n := 0
		for n < len(msg) {
			m, err := st.Read(buf[n:])
			n += m
			if err != nil {
				break
			}
		}
		got <- buf[:n]
	}()
	var echoed []byte
	select {
	case echoed = <-got:
	case <-time.After(4 * time.Second):
	}
	if !bytes.Equal(echoed, msg) {
		umu.Lock()
		up := len(upstream)
		umu.Unlock()
		_, has, _, _, n := server.VerifSession(sta, uid, sid)
		c.o.V("C01 session-not-served creating-connection-lost-during-handshake-reply", map[string]any{"case": k, "enc": enc, "lost_connection_transport": map[bool]string{false: "direct", true: "websocket"}[ws],
			"written": len(msg), "echoed": len(echoed), "bytes_that_reached_the_proxy": up, "server_has_the_session": has, "sessions_of_the_user": n,
			"what": "the session is registered at the server and the joining connection is healthy on both sides, yet a stream opened on it is never served: the only Accept loop belongs to the connection that created the session, and that connection returned when its handshake reply could not be written",
			"replay": "connection 1 (new session id): server's reply write fails; connection 2, same session id: real handshake succeeds (joins); client opens a stream and writes; nothing comes back within 4 s"})
	}
	sesh.Close()
	c.o.stat("creator_lost_cases", 1)
	c.o.case_(fmt.Sprintf("creator-lost/%d/%d/%v", k, enc, ws), true)
}
