//go:build verif

package main

import (
	"fmt"
	"sync"
	"time"

	mux "github.com/cbeuw/Cloak/internal/multiplex"
	"github.com/cbeuw/Cloak/internal/server"
)

// C19 "each user's traffic ... summed over all of that user's sessions": N first connections of one not yet active
// user arriving together must end up under ONE allowance (one valve).  Each user-manager query announces itself and
// waits until all N are inside it or 300 ms have passed: code that serialises the lookup-and-insert lets only one query
// in at a time (each waits out its 300 ms alone); code that lets them overlap shows N queries together and, if it then
// inserts N records, N valves.
func c19twoValves(c *ctx, k int) {
	r := c.r
	n := 2 + r.intn(3)
	uid := r.bytes(16)
	var mu sync.Mutex
	inside, maxInside := 0, 0
	all := make(chan struct{})
	var once sync.Once
	enter := func() {
		mu.Lock()
		inside++
		if inside > maxInside {
			maxInside = inside
		}
		if inside == n {
			once.Do(func() { close(all) })
		}
		mu.Unlock()
		select {
		case <-all:
		case <-time.After(300 * time.Millisecond):
		}
		mu.Lock()
		inside--
		mu.Unlock()
	}
	ids := make([]uint32, n)
	for i := range ids {
		ids[i] = uint32(100 + i)
	}
	var key [32]byte
	copy(key[:], r.bytes(32))
	cfg := func() mux.SessionConfig {
		ob, err := mux.MakeObfuscator(byte(r.intn(1)), key)
		if err != nil {
			panic(err)
		}
		return mux.SessionConfig{Obfuscator: ob, InactivityTimeout: time.Hour}
	}
	valves, errs := server.Verif19ConcurrentAdmit(1<<20, 1<<20, uid, ids, cfg, enter)
	distinct := map[mux.Valve]bool{}
	admitted := 0
	for i, v := range valves {
		if errs[i] == nil && v != nil {
			distinct[v] = true
			admitted++
		}
	}
	if len(distinct) > 1 {
		c.o.V("C19 one-user-several-allowances simultaneous-first-connections", map[string]any{"case": k, "connections": n, "admitted": admitted,
			"distinct_valves": len(distinct), "queries_overlapping": maxInside,
			"what": "connections of the same user that arrived together are limited by different token buckets: the user gets a multiple of the configured rate and burst",
			"replay": "panel.GetUser(uid) + GetSession(new id) from N goroutines at once, user not active before; the user manager's AuthenticateUser is held until all N queries are inside it (300 ms cap)"})
	}
	c.o.stat("simultaneous_first_connections", n)
	c.o.case_(fmt.Sprintf("two-valves/%d/%d", k, n), true)
}
