//go:build verif

package main

// C08 — a captured handshake can never be replayed successfully.
//
//	C08      parent: (1) virtual-time histories, each in its own subprocess (C08sub), (2) altered copies
//	         (every bit of random / session id / key share / hidden, random other bits and multi-bit edits),
//	         (3) N simultaneous presentations of one packet.
//	C08sub i child: one history of presentations around passes of the real UsedRandomCleaner inside a
//	         testing/synctest bubble (the cleaner's 12 h sleep elapses virtually).
//
// T rows drive the Lean cache machine (`rc.*`, Model/ReplayCache.lean) with what the server saw: the 32
// random bytes, whether key agreement / opening succeed and the timestamp (ORACLE: x/crypto + crypto/aes
// called directly), and the server clock.  Monitor (the property as stated): per sealed identity block
// at most one presentation is accepted.

import (
	"bytes"
	"fmt"
	"sort"
	"sync"
	"testing/synctest"
	"time"

	"github.com/cbeuw/Cloak/internal/client"
	"github.com/cbeuw/Cloak/internal/server"
)

func init() {
	scenarios["C08"] = c08
	scenarios["C08sub"] = c08sub
}

type hsPacket struct {
	tr   string // "tls" | "ws"
	pkt  []byte
	rand []byte
	ct   []byte
}

var c08UID = []byte{0xc0, 0x8c, 0x08, 1, 2, 3, 4, 5, 6, 7, 8, 9, 10, 11, 12, 13}

// buildFirstPacket makes a genuine first packet with the client's own code.
func buildFirstPacket(keys srvKeys, r *rng, tr string, br int, uid []byte, sid uint32, method string, enc byte, unordered bool, clientNow time.Time) hsPacket {
	ai := mkAuthInfo(keys, uid, sid, method, enc, unordered, func() time.Time { return clientNow }, seededReader{r}, "www.example.com")
	p := client.VerifMakePayload(ai)
	out := hsPacket{tr: tr, rand: append([]byte(nil), p.Rand[:]...), ct: append([]byte(nil), p.Ct[:]...)}
	if tr == "tls" {
		pkt, err := client.VerifClientHello(br, p, "www.example.com")
		if err != nil {
			panic(err)
		}
		out.pkt = pkt
	} else {
		out.pkt = wsGET(append(append([]byte(nil), p.Rand[:]...), p.Ct[:]...), r.bytes(16))
	}
	return out
}

func transportOf(tr string) server.Transport {
	if tr == "tls" {
		return server.TLS{}
	}
	return server.WebSocket{}
}

// seen returns what the server's transport layer extracts from pkt (so that the cache machine is fed
// the same 32 bytes): for TLS the real parser (shim), for WebSocket net/http + base64 directly.
func seenBy(tr string, pkt []byte) (reg bool, rnd, ct []byte) {
	if tr == "tls" {
		random, sid, ks, stage := server.VerifParseClientHello(append([]byte(nil), pkt...))
		if stage != "ok" || len(sid)+len(ks) != 64 || len(random) != 32 {
			return false, nil, nil
		}
		return true, append([]byte(nil), random...), append(append([]byte(nil), sid...), ks...)
	}
	h, parsed := hiddenOf(pkt)
	if !parsed || len(h) != 96 {
		return false, nil, nil
	}
	return true, h[:32], h[32:]
}

// present calls the real AuthFirstPacket and emits the T row; returns the class.
func c08present(c *ctx, keys srvKeys, sta *server.State, tr string, pkt []byte, now time.Time) (class string, ctKey string) {
	parsed, rnd, ct := seenBy(tr, pkt)
	reg, ok := false, false
	var ts int64
	if parsed {
		var pt []byte
		reg, ok, pt, _ = oracleView(keys.priv[:], rnd, ct)
		if ok {
			ts = plainTS(pt)
		}
	}
	buf := make([]byte, len(pkt))
	copy(buf, pkt)
	_, _, err := server.AuthFirstPacket(buf, transportOf(tr), sta)
	class = classifyAuth(err)
	if class == "badhello" {
		class = "early"
	}
	b := func(x bool) int {
		if x {
			return 1
		}
		return 0
	}
	if !parsed {
		rnd = make([]byte, 32)
	}
	c.o.T(fmt.Sprintf("rc.present rand=%s reg=%d ok=%d ts=%d now=%d", hx(rnd), b(reg), b(ok), ts, now.UnixNano()), class)
	return class, hx(ct)
}

// ---------------------------------------------------------------------------------------------------
// child: one virtual-time history
// ---------------------------------------------------------------------------------------------------

type c08Plan struct {
	firstBefore time.Duration   // first presentation at boundary − firstBefore
	boundary    int             // which cleaner pass (1-based)
	clientOff   time.Duration   // client clock − server clock at the first presentation
	later       []time.Duration // further presentations at boundary + d (d may be negative)
	tr          string
	br          int
}

func c08plans(r *rng, idx int, thorough bool) (plans []c08Plan, label string) {
	sec := time.Second
	switch {
	case idx == 0:
		// the three-step history of the design: present, replay refused, clean-up, present again
		return []c08Plan{{firstBefore: 5 * sec, boundary: 1, clientOff: 0, later: []time.Duration{-4 * sec, 1 * sec}, tr: "tls", br: brChrome},
			{firstBefore: 2 * sec, boundary: 1, clientOff: 0, later: []time.Duration{1}, tr: "ws"}}, "witness"
	case idx == 1:
		// the retention boundary: first sightings 1 ns .. 400 s before the pass, client clock up to 179 s ahead
		var ps []c08Plan
		for _, fb := range []time.Duration{1, sec, 100 * sec, 179 * sec, 180 * sec, 180*sec + 1, 181 * sec, 359 * sec, 360 * sec, 360*sec + 1, 361 * sec, 400 * sec} {
			for _, off := range []time.Duration{179 * sec, 0, -100 * sec} {
				ps = append(ps, c08Plan{firstBefore: fb, boundary: 1, clientOff: off, later: []time.Duration{1, sec, 100 * sec, 178 * sec}, tr: "ws"})
			}
		}
		return ps, "grid"
	case idx == 2:
		// several passes; a packet seen shortly before each of them
		var ps []c08Plan
		for b := 1; b <= 3; b++ {
			ps = append(ps, c08Plan{firstBefore: time.Duration(b) * 7 * sec, boundary: b, clientOff: 60 * sec, later: []time.Duration{-sec, 500 * time.Millisecond, 30 * sec}, tr: "tls", br: b % 3})
		}
		return ps, "multi-pass"
	case idx == 3:
		// the server reads its clock more than once per presentation (registration, then the window test): with a clock that
		// moves 2 ms per reading (c08sub), the first reading of the first presentation is 1 ms before a whole second and the
		// window test 1 ms after it; the client is 179.999 s ahead; the pass comes 359.501 s later; then the packet again
		return []c08Plan{{firstBefore: 359*sec + 501*time.Millisecond, boundary: 1, clientOff: 180*sec + time.Millisecond,
			later: []time.Duration{100 * time.Millisecond}, tr: "ws"},
			{firstBefore: 359*sec + 501*time.Millisecond, boundary: 2, clientOff: 180*sec + time.Millisecond,
				later: []time.Duration{100 * time.Millisecond}, tr: "tls", br: brFirefox}}, "clock-moves-between-readings"
	}
	n := 6 + r.intn(10)
	nb := 1 + r.intn(2)
	for i := 0; i < n; i++ {
		p := c08Plan{boundary: 1 + r.intn(nb), tr: "ws"}
		if r.intn(4) == 0 {
			p.tr, p.br = "tls", r.intn(3)
		}
		switch r.intn(4) {
		case 0:
			p.firstBefore = time.Duration(r.intn(10_000_000_000)) // within 10 s
		case 1:
			p.firstBefore = time.Duration(170+r.intn(20))*sec + time.Duration(r.intn(1_000_000_000))
		case 2:
			p.firstBefore = time.Duration(350+r.intn(20))*sec + time.Duration(r.intn(1_000_000_000))
		default:
			p.firstBefore = time.Duration(r.intn(800))*sec + time.Duration(r.intn(1_000_000_000))
		}
		p.clientOff = time.Duration(r.intn(400)-200) * sec
		if r.intn(3) == 0 {
			p.clientOff = time.Duration(r.intn(360)-180) * sec
		}
		for k := 0; k < 1+r.intn(4); k++ {
			d := time.Duration(r.intn(400))*sec + time.Duration(r.intn(1_000_000_000))
			if r.intn(3) == 0 {
				d = time.Duration(1 + r.intn(2_000_000_000))
			}
			if r.intn(5) == 0 {
				d = -time.Duration(r.intn(int(p.firstBefore) + 1))
			}
			p.later = append(p.later, d)
		}
		plans = append(plans, p)
	}
	return plans, "random"
}

func c08sub(c *ctx) {
	idx := 0
	if len(c.args) > 0 {
		fmt.Sscan(c.args[0], &idx)
	}
	r := &rng{c.seed*0x9e3779b97f4a7c15 + uint64(idx)*0x1234567 + 77}
	synctest.Run(func() {
		keys := newServerKeys(r)
		nowFn := time.Now
		if idx == 3 {
			// a clock that moves between two readings, and cleaner passes that do not fall on whole seconds
			nowFn = func() time.Time { t := time.Now(); time.Sleep(2 * time.Millisecond); return t }
			time.Sleep(500 * time.Millisecond)
		}
		sta := newState(keys, stateOpts{bypass: [][]byte{c08UID}, now: nowFn})
		t0 := time.Now()
		period := server.VerifCleanerPeriod()
		c.o.T("rc.new", "ok")
		plans, label := c08plans(r, idx, c.thorough())
		type event struct {
			at  time.Time
			pk  int
			seq int
		}
		var evs []event
		pkts := make([]hsPacket, len(plans))
		for i, p := range plans {
			b := t0.Add(time.Duration(p.boundary) * period)
			first := b.Add(-p.firstBefore)
			pkts[i] = buildFirstPacket(keys, r, p.tr, p.br, c08UID, uint32(i+1), "shadowsocks", 1, false, first.Add(p.clientOff))
			evs = append(evs, event{first, i, 0})
			for k, d := range p.later {
				at := b.Add(d)
				if at.Before(first) {
					at = first
				}
				evs = append(evs, event{at, i, k + 1})
			}
		}
		sort.SliceStable(evs, func(i, j int) bool {
			if !evs[i].at.Equal(evs[j].at) {
				return evs[i].at.Before(evs[j].at)
			}
			if evs[i].pk != evs[j].pk {
				return evs[i].pk < evs[j].pk
			}
			return evs[i].seq < evs[j].seq
		})
		passes := 0
		type hist struct {
			At     int64  `json:"server_time_ns"`
			What   string `json:"what"`
			Result string `json:"result,omitempty"`
		}
		history := map[int][]hist{}
		accepted := map[int]int{}
		for _, e := range evs {
			// never park exactly on a pass (order of two timers at one instant is not ours to choose)
			for k := 1; k <= 4; k++ {
				if e.at.Equal(t0.Add(time.Duration(k) * period)) {
					e.at = e.at.Add(1)
				}
			}
			if d := e.at.Sub(time.Now()); d > 0 {
				time.Sleep(d)
				synctest.Wait()
			}
			now := time.Now()
			for now.After(t0.Add(time.Duration(passes+1) * period)) {
				passes++
				pt := t0.Add(time.Duration(passes) * period)
				c.o.T(fmt.Sprintf("rc.clean now=%d", pt.UnixNano()), fmt.Sprintf("n=%d", server.VerifUsedCount(sta)))
				for i := range plans {
					if len(history[i]) > 0 {
						history[i] = append(history[i], hist{At: pt.UnixNano(), What: "UsedRandomCleaner pass (virtual 12 h sleep elapsed)"})
					}
				}
				c.o.stat("cleaner_passes", 1)
			}
			class, _ := c08present(c, keys, sta, pkts[e.pk].tr, pkts[e.pk].pkt, now)
			history[e.pk] = append(history[e.pk], hist{At: now.UnixNano(), What: "present packet " + fmt.Sprint(e.pk), Result: class})
			c.o.stat("presentations", 1)
			c.o.stat("class_"+class, 1)
			if class == "accept" {
				accepted[e.pk]++
				if accepted[e.pk] == 2 {
					c.o.V("C08 replay-after-cleanup", map[string]any{"script": idx, "kind": label, "transport": pkts[e.pk].tr,
						"history": history[e.pk], "first_packet": hx(pkts[e.pk].pkt), "server_private_key": hx(keys.priv[:]),
						"bubble_start_ns": t0.UnixNano(),
						"note":            "the same first packet was accepted twice; its timestamp was still inside the window the second time"})
				}
			}
		}
		c.o.case_(fmt.Sprintf("%s/%d/%d", label, idx, len(evs)), passes > 0)
		if idx == 0 {
			c.o.sample(fmt.Sprintf("virtual-time history #0: %v", history[0]))
		}
		childFinish(c)
	})
}

// ---------------------------------------------------------------------------------------------------
// parent
// ---------------------------------------------------------------------------------------------------

func c08(c *ctx) {
	o, r := c.o, c.r
	// (1) virtual-time histories
	nScripts := 12
	if c.thorough() {
		nScripts = 120
	}
	for i := 0; i < nScripts; i++ {
		if err := runChild(c, "C08sub", fmt.Sprint(i)); err != nil {
			panic(err)
		}
	}
	o.stat("virtual_time_scripts", nScripts)
	// (1b) handshakes arriving while a clean-up pass runs (own subprocess)
	if err := runChild(c, "C08race"); err != nil {
		panic(err)
	}

	// (2) altered copies of an accepted packet, presented afterwards
	keys := newServerKeys(r)
	now0 := time.Unix(1_700_000_000, 123_456_789)
	type orig struct {
		tr string
		br int
	}
	origs := []orig{{"tls", brChrome}, {"tls", brFirefox}, {"tls", brSafari}, {"ws", 0}}
	for oi, og := range origs {
		sta := newState(keys, stateOpts{bypass: [][]byte{c08UID}, now: func() time.Time { return now0 }})
		o.T("rc.new", "ok")
		pk := buildFirstPacket(keys, r, og.tr, og.br, c08UID, uint32(100+oi), "shadowsocks", byte(oi%4), oi%2 == 1, now0.Add(time.Duration(r.intn(300)-150)*time.Second))
		class, _ := c08present(c, keys, sta, pk.tr, pk.pkt, now0)
		if class != "accept" {
			o.V("C08 genuine-packet-refused", map[string]any{"transport": og.tr, "browser": browserNames[og.br], "class": class, "packet": hx(pk.pkt)})
			continue
		}
		class, _ = c08present(c, keys, sta, pk.tr, pk.pkt, now0)
		if class == "accept" {
			o.V("C08 exact-copy-accepted", map[string]any{"transport": og.tr, "packet": hx(pk.pkt)})
		}
		// regions that carry the handshake material
		type region struct {
			name string
			off  int
			n    int
		}
		var regs []region
		var hiddenOff int
		if og.tr == "tls" {
			regs = append(regs, region{"random", bytes.Index(pk.pkt, pk.rand), 32}, region{"session_id", bytes.Index(pk.pkt, pk.ct[:32]), 32},
				region{"key_share", bytes.Index(pk.pkt, pk.ct[32:]), 32})
		} else {
			hiddenOff = 1 // marker: variants are rebuilt from the 96 hidden bytes
			regs = append(regs, region{"random", 0, 32}, region{"session_id", 32, 32}, region{"key_share", 64, 32})
		}
		variant := func(mut func(material []byte, whole []byte)) []byte {
			if og.tr == "tls" {
				v := append([]byte(nil), pk.pkt...)
				mut(nil, v)
				return v
			}
			h := append(append([]byte(nil), pk.rand...), pk.ct...)
			mut(h, nil)
			return wsGET(h, []byte("0123456789abcdef"))
		}
		_ = hiddenOff
		try := func(desc string, v []byte) {
			cl, _ := c08present(c, keys, sta, pk.tr, v, now0)
			o.case_(fmt.Sprintf("alt/%d/%s", oi, desc), true)
			o.stat("altered_"+cl, 1)
			if cl == "accept" {
				_, rnd2, ct2 := seenBy(pk.tr, v)
				if bytes.Equal(ct2, pk.ct) {
					o.V("C08 altered-copy-accepted "+desc, map[string]any{"transport": og.tr, "browser": browserNames[og.br], "change": desc,
						"original_packet": hx(pk.pkt), "altered_packet": hx(v), "original_random": hx(pk.rand), "altered_random": hx(rnd2),
						"server_private_key": hx(keys.priv[:]), "server_time_ns": now0.UnixNano(),
						"history": []string{"original → accept", "exact copy → replay", "altered copy (same sealed identity block) → accept"}})
				} else {
					o.V("C08 forged-block-accepted "+desc, map[string]any{"transport": og.tr, "change": desc, "altered_packet": hx(v)})
				}
			}
		}
		for _, rg := range regs {
			for bit := 0; bit < rg.n*8; bit++ {
				bit := bit
				v := variant(func(h, whole []byte) {
					if whole != nil {
						whole[rg.off+bit/8] ^= 1 << (bit % 8)
					} else {
						h[rg.off+bit/8] ^= 1 << (bit % 8)
					}
				})
				try(fmt.Sprintf("%s-bit-%d", rg.name, bit), v)
			}
		}
		// other bits of the whole packet (TLS: anything in the hello; WS: the request text) and multi-bit edits
		nOther, nMulti := 150, 40
		if c.thorough() {
			nOther, nMulti = len(pk.pkt)*8, 400
		}
		for k := 0; k < nOther; k++ {
			bit := k
			if !c.thorough() {
				bit = r.intn(len(pk.pkt) * 8)
			}
			v := append([]byte(nil), pk.pkt...)
			v[bit/8] ^= 1 << (bit % 8)
			try(fmt.Sprintf("packet-bit-%d", bit), v)
		}
		for k := 0; k < nMulti; k++ {
			nb := 2 + r.intn(4)
			var bits []int
			v := variant(func(h, whole []byte) {
				for j := 0; j < nb; j++ {
					rg := regs[0] // multi-bit edits of the random, always including some with bit 255
					bit := r.intn(rg.n * 8)
					if j == 0 && k%2 == 0 {
						bit = 255
					}
					bits = append(bits, bit)
					if whole != nil {
						whole[rg.off+bit/8] ^= 1 << (bit % 8)
					} else {
						h[rg.off+bit/8] ^= 1 << (bit % 8)
					}
				}
			})
			try(fmt.Sprintf("random-bits-%v", bits), v)
		}
		// top-bit insensitivity of X25519 (hypothesis `TopBit` of the Lean witness), validated against x/crypto
		fl := append([]byte(nil), pk.rand...)
		fl[31] ^= 0x80
		s1, ok1 := oracleDH(keys.priv[:], pk.rand)
		s2, ok2 := oracleDH(keys.priv[:], fl)
		if !ok1 || !ok2 || !bytes.Equal(s1, s2) {
			o.N("x/crypto X25519 is NOT insensitive to bit 255 for " + hx(pk.rand))
			o.V("C08 oracle top-bit", map[string]any{"rand": hx(pk.rand)})
		}
		o.stat("topbit_validated", 1)
	}

	// (3) N simultaneous presentations of one packet
	reps := 20
	if c.thorough() {
		reps = 200
	}
	for rep := 0; rep < reps; rep++ {
		for _, n := range []int{2, 3, 8, 64} {
			was := rep%4 == 3
			sta := newState(keys, stateOpts{bypass: [][]byte{c08UID}, now: func() time.Time { return now0 }})
			tr := []string{"ws", "tls"}[rep%2]
			pk := buildFirstPacket(keys, r, tr, rep%3, c08UID, 7, "shadowsocks", 1, false, now0)
			if was {
				server.AuthFirstPacket(append([]byte(nil), pk.pkt...), transportOf(tr), sta)
			}
			var wg, ready sync.WaitGroup
			start := make(chan struct{})
			res := make([]string, n)
			for g := 0; g < n; g++ {
				wg.Add(1)
				ready.Add(1)
				go func(g int) {
					defer wg.Done()
					buf := append([]byte(nil), pk.pkt...)
					ready.Done()
					<-start
					_, _, err := server.AuthFirstPacket(buf, transportOf(tr), sta)
					res[g] = classifyAuth(err)
				}(g)
			}
			ready.Wait()
			close(start)
			wg.Wait()
			acc := 0
			for _, x := range res {
				if x == "accept" {
					acc++
				}
			}
			w := 0
			if was {
				w = 1
			}
			o.T(fmt.Sprintf("rc.conc n=%d was=%d", n, w), fmt.Sprintf("fresh=%d", acc))
			o.case_(fmt.Sprintf("conc/%d/%d/%d", n, w, rep), true)
			if acc > 1 || (was && acc > 0) {
				o.V("C08 concurrent-accepted", map[string]any{"goroutines": n, "already_presented": was, "accepted": acc, "results": res, "packet": hx(pk.pkt)})
			}
		}
	}
	o.sample("altered copies: every bit of random/session id/key share (hidden for WebSocket) of an accepted packet, presented afterwards")
	o.sample("concurrent: n ∈ {2,3,8,64} goroutines present one packet at once; exactly one accept")
}
