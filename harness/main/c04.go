//go:build verif

package main

import (
	"fmt"

	mux "github.com/cbeuw/Cloak/internal/multiplex"
	"golang.org/x/crypto/salsa20"
)

func init() { scenarios["C04"] = c04 }

const c4limit = 16401 // MsgOnWireSizeLimit both endpoints configure (checked against the source by obfs.maxunit / Gen)
const c4maxPayload = 16401 - 14 - 255

type c4case struct {
	m       int
	key     [32]byte
	f       refFrame
	inPlace bool
	off     int
	bufLen  int
}

func c4key(r *rng) (k [32]byte) {
	copy(k[:], r.bytes(32))
	return
}

func canonGo(sid uint32, seq uint64, closing uint8, payload []byte, errs, pan string) string {
	if pan != "" {
		return "panic"
	}
	if errs != "" {
		return errs
	}
	return refFrame{sid, seq, closing, payload}.canon()
}

// c4run: one frame through the real obfuscate (into a dirty buffer), the reference decoder, the real
// deobfuscate, and the Lean codec (enc row: trace validation of the encoder given the observed padding and
// random bytes; dec row: the Lean decoder on Go's bytes).
func c4run(c *ctx, cs c4case, key string) {
	o, r := c.o, c.r
	ob, err := mux.VerifMakeObfuscator(byte(cs.m), cs.key)
	if err != nil {
		o.V("C04 MakeObfuscator-failed", map[string]any{"m": cs.m, "err": err.Error()})
		return
	}
	buf := r.bytes(cs.bufLen) // dirty destination
	pl := append([]byte(nil), cs.f.payload...)
	n, errs, pan := ob.Obfuscate(cs.f.sid, cs.f.seq, cs.f.closing, pl, buf, cs.inPlace, cs.off)
	in := map[string]any{"m": cs.m, "key": hx(cs.key[:]), "sid": cs.f.sid, "seq": cs.f.seq, "closing": cs.f.closing,
		"payload_len": len(cs.f.payload), "in_place": cs.inPlace, "off": cs.off, "buf_len": cs.bufLen}
	if len(cs.f.payload) <= 64 {
		in["payload"] = hx(cs.f.payload)
	}
	o.T("obfs.oclear", "ok")
	if pan != "" {
		o.V("C04 obfuscate-panicked", map[string]any{"input": in, "panic": pan})
		return
	}
	if errs != "" {
		// error outcomes are compared with the model; the property itself only speaks about non-empty payloads up to
		// the maximum in a session-sized buffer, where an error is a violation
		if len(cs.f.payload) >= 1 && len(cs.f.payload) <= c4maxPayload && cs.bufLen >= c4limit {
			o.V("C04 obfuscate-refused-valid-frame", map[string]any{"input": in, "err": errs})
		}
		o.T(fmt.Sprintf("obfs.enc m=%d key=%s sid=%d seq=%d c=%d pl=%s buflen=%d pad=0 rnd=", cs.m, hx(cs.key[:]), cs.f.sid, cs.f.seq, cs.f.closing, hx(cs.f.payload), cs.bufLen), errs)
		o.case_(key, false)
		return
	}
	msg := append([]byte(nil), buf[:n]...)
	in["go_msg_len"] = n
	if n <= 200 {
		in["go_msg"] = hx(msg)
	}
	// --- impl-side monitors: the property as stated ---
	if len(cs.f.payload) <= c4maxPayload && (n > c4limit || n > 16640) {
		o.V("C04 message-exceeds-limit", map[string]any{"input": in, "limit": c4limit})
	}
	d, derr := refDecode(cs.m, cs.key, msg)
	if derr != "" || !refFrameEq(d.f, cs.f) {
		o.V("C04 go-encoding-not-decodable-by-reference", map[string]any{"input": in, "reference_error": derr, "reference_frame": d.f.canon(), "want": cs.f.canon()})
	}
	sid, seq, cl, gpl, gerr, gpan := ob.Deobfuscate(append([]byte(nil), msg...))
	goDec := canonGo(sid, seq, cl, gpl, gerr, gpan)
	if goDec != cs.f.canon() {
		o.V("C04 roundtrip", map[string]any{"input": in, "decoded": goDec, "want": cs.f.canon()})
	}
	// --- correspondence with the Lean codec ---
	oracleOpen(o, "obfs.", cs.m, cs.key, msg)
	o.T(fmt.Sprintf("obfs.dec m=%d key=%s msg=%s", cs.m, hx(cs.key[:]), hx(msg)), goDec)
	if derr == "" && refFrameEq(d.f, cs.f) {
		// the draw and the random bytes, read off the message
		pad := len(d.pad)
		var rnd []byte
		if cs.m == 0 {
			rnd = append(append([]byte{}, d.pad...), d.tail...)
		} else {
			rnd = append(append([]byte{}, d.pad...), make([]byte, 16)...) // the last 16 random bytes are overwritten by the tag
			oracleSeal(o, "obfs.", cs.m, cs.key, cs.f, d.pad)
		}
		draw := "unused"
		if cs.f.seq < 5 {
			draw = "valid"
		}
		o.T(fmt.Sprintf("obfs.enc m=%d key=%s sid=%d seq=%d c=%d pl=%s buflen=%d pad=%d rnd=%s", cs.m, hx(cs.key[:]), cs.f.sid, cs.f.seq, cs.f.closing,
			hx(cs.f.payload), cs.bufLen, pad, hx(rnd)), fmt.Sprintf("ok len=%d h=%s draw=%s", n, fnvHex(msg), draw))
		o.stat(fmt.Sprintf("pad_draws_m%d", cs.m), 1)
		if cs.f.seq < 5 {
			if pad == 0 {
				o.stat("pad_zero", 1)
			}
			if pad == 255-refTagLen(cs.m) {
				o.stat("pad_max", 1)
			}
		}
	}
	o.case_(key, true)
}

// c4ref: a message built by the reference encoder with a CHOSEN padding length and tail, decoded by the real
// deobfuscate (monitor) and by the Lean decoder; where the padding is one the real encoder could have drawn,
// the Lean encoder must produce the same bytes.
func c4ref(c *ctx, m int, key [32]byte, f refFrame, padLen int, key2 string) {
	o, r := c.o, c.r
	ob, err := mux.VerifMakeObfuscator(byte(m), key)
	if err != nil {
		o.V("C04 MakeObfuscator-failed", map[string]any{"m": m, "err": err.Error()})
		return
	}
	pad := r.bytes(padLen)
	tail := r.bytes(8)
	msg := refEncode(m, key, f, pad, tail)
	sid, seq, cl, gpl, gerr, gpan := ob.Deobfuscate(append([]byte(nil), msg...))
	goDec := canonGo(sid, seq, cl, gpl, gerr, gpan)
	in := map[string]any{"m": m, "key": hx(key[:]), "frame": f.canon(), "pad_len": padLen, "msg_len": len(msg)}
	if len(msg) <= 300 {
		in["msg"] = hx(msg)
	}
	if goDec != f.canon() {
		o.V("C04 reference-encoding-not-decodable-by-go", map[string]any{"input": in, "decoded": goDec})
	}
	o.T("obfs.oclear", "ok")
	oracleOpen(o, "obfs.", m, key, msg)
	o.T(fmt.Sprintf("obfs.dec m=%d key=%s msg=%s", m, hx(key[:]), hx(msg)), goDec)
	if f.seq < 5 || padLen == 0 {
		var rnd []byte
		if m == 0 {
			rnd = append(append([]byte{}, pad...), tail...)
		} else {
			rnd = append(append([]byte{}, pad...), r.bytes(16)...)
			oracleSeal(o, "obfs.", m, key, f, pad)
		}
		draw := "unused"
		if f.seq < 5 {
			draw = "valid"
		}
		o.T(fmt.Sprintf("obfs.enc m=%d key=%s sid=%d seq=%d c=%d pl=%s buflen=%d pad=%d rnd=%s", m, hx(key[:]), f.sid, f.seq, f.closing,
			hx(f.payload), c4limit, padLen, hx(rnd)), fmt.Sprintf("ok len=%d h=%s draw=%s", len(msg), fnvHex(msg), draw))
	}
	o.case_(key2, true)
}

var c4sids = []uint32{0, 1, 2, 7, 0xffffffff, 0xfffffffe, 0x80000000, 0x01020304}
var c4seqs = []uint64{0, 1, 2, 3, 4, 5, 6, 7, 255, 256, 1 << 32, 1<<32 - 1, 1<<63 + 5, 1<<64 - 1, 1<<64 - 2, 0x0102030405060708}

func c4frame(r *rng, plen int) refFrame {
	f := refFrame{payload: r.bytes(plen), closing: uint8(r.intn(3))}
	if r.intn(3) == 0 {
		f.sid = uint32(r.next())
	} else {
		f.sid = c4sids[r.intn(len(c4sids))]
	}
	switch r.intn(4) {
	case 0:
		f.seq = r.next()
	case 1:
		f.seq = uint64(r.intn(5)) // padded frames
	default:
		f.seq = c4seqs[r.intn(len(c4seqs))]
	}
	if r.intn(40) == 0 {
		f.closing = uint8(r.next()) // any byte value travels
	}
	return f
}

func c4lengths(c *ctx) []int {
	var ls []int
	if c.thorough() {
		for l := 1; l <= c4maxPayload; l++ {
			ls = append(ls, l)
		}
		return ls
	}
	seen := map[int]bool{}
	add := func(l int) {
		if l >= 1 && l <= c4maxPayload && !seen[l] {
			seen[l] = true
			ls = append(ls, l)
		}
	}
	for l := 1; l <= 24; l++ {
		add(l)
	}
	for _, l := range []int{31, 32, 33, 63, 64, 65, 127, 128, 129, 239, 240, 241, 247, 248, 249, 254, 255, 256, 257, 511, 512, 1023, 1024, 1025, 1500,
		4095, 4096, 8191, 8192, 16000, 16383 - 255 - 14} {
		add(l)
	}
	for l := c4maxPayload - 12; l <= c4maxPayload; l++ {
		add(l)
	}
	for len(ls) < 110 {
		switch c.r.intn(3) {
		case 0:
			add(1 + c.r.intn(300))
		case 1:
			add(1 + c.r.intn(c4maxPayload))
		default:
			add(c4maxPayload - c.r.intn(600))
		}
	}
	return ls
}

func c04(c *ctx) {
	o, r := c.o, c.r
	// --- constants, derived sizes, cipher parameters, native Salsa20 ---
	o.T("obfs.consts", mux.VerifCodecConsts()+fmt.Sprintf(" default=%d", mux.VerifDefaultMaxOnWireSize()))
	for _, lim := range []int{c4limit, 16640, 0, -7, 1000, 300} {
		s, err := mux.VerifMakeSession(0, [32]byte{}, lim, false)
		if err != nil {
			o.V("C04 MakeSession-failed", err.Error())
			continue
		}
		o.T(fmt.Sprintf("obfs.maxunit limit=%d", lim), s.Sizes())
	}
	for m := 1; m <= 3; m++ {
		ob, err := mux.VerifMakeObfuscator(byte(m), c4key(r))
		if err != nil {
			o.V("C04 MakeObfuscator-failed", map[string]any{"m": m, "err": err.Error()})
			continue
		}
		ov, ns := ob.AeadParams()
		o.T(fmt.Sprintf("obfs.aead m=%d overhead=%d nonce=%d", m, ov, ns), "ok")
	}
	if _, err := mux.VerifMakeObfuscator(4, [32]byte{}); err == nil {
		o.V("C04 unknown-method-accepted", 4)
	}
	for i := 0; i < 24; i++ {
		key, nonce := c4key(r), r.bytes(8)
		n := []int{14, 1, 64, 65, 128, 200}[i%6]
		out := make([]byte, n)
		salsa20.XORKeyStream(out, make([]byte, n), nonce, &key)
		o.T(fmt.Sprintf("obfs.salsa key=%s nonce=%s n=%d", hx(key[:]), hx(nonce), n), hx(out))
	}
	// --- payload lengths (stratified / exhaustive) through the real encoder ---
	ls := c4lengths(c)
	for i, l := range ls {
		methods := []int{(i + int(c.seed)) % 4}
		if !c.thorough() || l <= 300 || l >= c4maxPayload-64 {
			methods = []int{0, 1, 2, 3}
		}
		for _, m := range methods {
			cs := c4case{m: m, key: c4key(r), f: c4frame(r, l), bufLen: c4limit}
			switch r.intn(4) {
			case 0:
				cs.inPlace = true
			case 1:
				cs.off = r.intn(200) // any offset other than 14 means "copy"
				if cs.off == 14 {
					cs.off = 0
				}
			}
			if r.intn(5) == 0 { // other buffer sizes, never too small for the largest padding
				cs.bufLen = 14 + l + 255 + r.intn(64)
			}
			c4run(c, cs, fmt.Sprintf("len=%d m=%d", l, m))
		}
	}
	o.stat("payload_lengths", len(ls))
	// --- the padding draw: many draws per method for each padded sequence number, plus unpadded ---
	draws := 64
	if c.thorough() {
		draws = 400
	}
	for m := 0; m <= 3; m++ {
		key := c4key(r)
		for seq := uint64(0); seq < 7; seq++ {
			for k := 0; k < draws; k++ {
				if seq >= 5 && k >= 8 {
					break
				}
				f := c4frame(r, 1+r.intn(40))
				f.seq = seq
				c4run(c, c4case{m: m, key: key, f: f, bufLen: c4limit, inPlace: k%2 == 0}, fmt.Sprintf("draw m=%d seq=%d k=%d", m, seq, k))
			}
		}
	}
	// --- both buffer modes on the same frame decode to the same frame (bytes differ by the random draw only) ---
	// (each c4run above already checks its own mode against the reference; here the boundary buffer sizes)
	for m := 0; m <= 3; m++ {
		for _, l := range []int{1, 100, c4maxPayload} {
			for _, seq := range []uint64{0, 9} {
				f := c4frame(r, l)
				f.seq = seq
				maxUseful := 14 + l + 255
				if seq >= 5 {
					maxUseful = 14 + l + refTagLen(m)
				}
				// exactly enough for the worst draw; one byte short of the smallest possible message; empty payload
				c4run(c, c4case{m: m, key: c4key(r), f: f, bufLen: maxUseful, inPlace: true}, fmt.Sprintf("exact m=%d l=%d seq=%d", m, l, seq))
				c4run(c, c4case{m: m, key: c4key(r), f: f, bufLen: 14 + l + refTagLen(m) - 1, off: 0}, fmt.Sprintf("small m=%d l=%d seq=%d", m, l, seq))
			}
		}
		c4run(c, c4case{m: m, key: c4key(r), f: refFrame{sid: 1, seq: 9, payload: nil}, bufLen: c4limit}, fmt.Sprintf("empty m=%d", m))
	}
	// --- the session's own per-frame maximum in the session's own send buffer, many padding draws: the message
	// must be produced and must not exceed the session's limit (monitor only; the bytes are not sent to the driver) ---
	for ci, configured := range []int{c4limit, 16640, 4096, 1500} {
		sess, err := mux.VerifMakeSession(0, [32]byte{}, configured, false)
		if err != nil {
			continue
		}
		// the limit that counts is the one that was CONFIGURED, not what the session says it made of it
		maxUnit, sendBuf, limit := sess.MaxUnit(), sess.SendBuf(), configured
		nd := 1500
		if c.thorough() {
			nd = 8000
		}
		if ci > 0 {
			nd /= 5
		}
		for m := 0; m <= 3; m++ {
			key := c4key(r)
			ob, err := mux.VerifMakeObfuscator(byte(m), key)
			if err != nil || maxUnit < 1 {
				continue
			}
			for k := 0; k < nd; k++ {
				f := c4frame(r, maxUnit)
				f.seq = uint64(k % 5)
				buf := make([]byte, sendBuf)
				n, errs, pan := ob.Obfuscate(f.sid, f.seq, f.closing, f.payload, buf, k%2 == 0, 0)
				in := map[string]any{"m": m, "key": hx(key[:]), "sid": f.sid, "seq": f.seq, "closing": f.closing, "payload_len": maxUnit,
					"payload_fnv": fnvHex(f.payload), "buf_len": sendBuf, "session_limit": limit, "draw_index": k}
				switch {
				case pan != "":
					o.V("C04 obfuscate-panicked", map[string]any{"input": in, "panic": pan})
				case errs != "":
					o.V("C04 obfuscate-refused-valid-frame", map[string]any{"input": in, "err": errs})
				case n > limit || n > 16640:
					in["go_msg_len"] = n
					o.V("C04 message-exceeds-limit", map[string]any{"input": in, "limit": limit})
				default:
					if d, derr := refDecode(m, key, buf[:n]); derr != "" || !refFrameEq(d.f, f) {
						in["go_msg_len"] = n
						o.V("C04 go-encoding-not-decodable-by-reference", map[string]any{"input": in, "reference_error": derr})
					}
				}
				o.stat("max_payload_draws", 1)
			}
		}
		o.case_(fmt.Sprintf("max-payload draws limit=%d", configured), true)
	}
	// --- reference-encoded messages with chosen padding, decoded by the real decoder ---
	nref := 40
	if c.thorough() {
		nref = 400
	}
	for m := 0; m <= 3; m++ {
		key := c4key(r)
		maxPad := 255 - refTagLen(m)
		for k := 0; k < nref; k++ {
			var l int
			switch k % 4 {
			case 0:
				l = 1 + r.intn(8)
			case 1:
				l = 1 + r.intn(2000)
			case 2:
				l = c4maxPayload - r.intn(3)
			default:
				l = 1 + r.intn(c4maxPayload)
			}
			f := c4frame(r, l)
			pad := []int{0, maxPad, 1, maxPad - 1, r.intn(maxPad + 1), r.intn(maxPad + 1)}[k%6]
			c4ref(c, m, key, f, pad, fmt.Sprintf("ref m=%d k=%d", m, k))
		}
	}
	o.sample(fmt.Sprintf("payload lengths through the real encoder: %d (1..%d); methods 0..3; both buffer modes; dirty buffers", len(ls), c4maxPayload))
	o.sample("obfs.enc row = Lean encoder reproduces Go's bytes from the observed padding draw and random bytes; obfs.dec row = Lean decoder on Go's bytes")
}
