//go:build verif

package main

import (
	"bytes"
	"errors"
	"fmt"
	"io"
	"net"
	"time"

	"github.com/cbeuw/Cloak/internal/client"
	mux "github.com/cbeuw/Cloak/internal/multiplex"
)

// ---------------------------------------------------------------------------------------------
// (c) the two places where datagrams of a UDP socket ENTER an unordered stream:
//       Stream.ReadFrom(r)   — the server's common.Copy(stream, udpConn)
//       client.RouteUDP      — the client's local UDP listener
// The monitors assert only the property text: a datagram that the entry point takes is delivered to
// the peer's read on the same stream as one whole message with identical content (never truncated),
// and a datagram too large for one frame is refused (nothing of it is delivered).
// ---------------------------------------------------------------------------------------------

// c14pktSrc is a packet-oriented source as a UDP socket is one: one Read = one datagram, and what does
// not fit the caller's buffer is discarded without an error. It has the method set of net.PacketConn.
type c14pktSrc struct{ q [][]byte }

func (p *c14pktSrc) Read(b []byte) (int, error) {
	if len(p.q) == 0 {
		return 0, io.EOF
	}
	d := p.q[0]
	p.q = p.q[1:]
	return copy(b, d), nil
}
func (p *c14pktSrc) ReadFrom(b []byte) (int, net.Addr, error) {
	n, err := p.Read(b)
	return n, c14addr{}, err
}
func (p *c14pktSrc) WriteTo(b []byte, _ net.Addr) (int, error) { return len(b), nil }
func (p *c14pktSrc) Close() error                              { return nil }
func (p *c14pktSrc) LocalAddr() net.Addr                       { return c14addr{} }
func (p *c14pktSrc) SetDeadline(time.Time) error               { return nil }
func (p *c14pktSrc) SetReadDeadline(time.Time) error           { return nil }
func (p *c14pktSrc) SetWriteDeadline(time.Time) error          { return nil }

var _ net.PacketConn = (*c14pktSrc)(nil)

// c14byteSrc is a byte-stream source (TCP-like): a Read takes what fits, the rest stays.
type c14byteSrc struct{ rest []byte }

func (p *c14byteSrc) Read(b []byte) (int, error) {
	if len(p.rest) == 0 {
		return 0, io.EOF
	}
	n := copy(b, p.rest)
	p.rest = p.rest[n:]
	return n, nil
}

// c14peer is the receiving end for the entry scenarios: captured records are handed to a fresh unordered
// session in capture order; whatever a stream holds is read with a buffer larger than any datagram.
type c14peer struct {
	sesh    *mux.Session
	streams map[uint32]*mux.Stream
}

func (p *c14peer) feed(rec []byte) (sid uint32, closing uint8, payloadLen int, msgs [][]byte, err error) {
	var payload []byte
	sid, _, closing, payload, err = mux.Verif14Decode(p.sesh, rec)
	if err != nil {
		return
	}
	payloadLen = len(payload)
	_ = mux.Verif14Recv(p.sesh, append([]byte(nil), rec...))
	for {
		s := mux.Verif14TryAccept(p.sesh)
		if s == nil {
			break
		}
		p.streams[mux.Verif14StreamID(s)] = s
	}
	if s := p.streams[sid]; s != nil {
		for mux.Verif14StreamHead(s) >= 0 {
			st, b := mux.Verif14StreamRead(s, 70000)
			if st != "data" {
				break
			}
			msgs = append(msgs, b)
		}
	}
	return
}

func c14entryPayload(r *rng, tag byte, src byte, serial int, n int) []byte {
	b := r.bytes(n)
	if n >= 4 {
		b[0], b[1], b[2], b[3] = tag, src, byte(serial>>8), byte(serial)
	}
	return b
}

// c14judge compares a message the peer read with the datagrams that were handed to the entry point.
// "" = it is one of them, whole.
func c14judge(msg []byte, sent [][]byte) (verdict string, of int) {
	for i := len(sent) - 1; i >= 0; i-- { // the latest first: tiny datagrams may repeat
		if bytes.Equal(sent[i], msg) {
			return "", i
		}
	}
	for i := len(sent) - 1; i >= 0; i-- {
		if d := sent[i]; len(msg) < len(d) && len(msg) > 0 && bytes.Equal(d[:len(msg)], msg) {
			return "truncated", i
		}
	}
	return "foreign", -1
}

// ---- Stream.ReadFrom fed by a packet source (and, for the model rows, by a byte source) ----
func c14readFromEntry(c *ctx, r *rng) {
	o := c.o
	var key [32]byte
	copy(key[:], r.bytes(32))
	truncSeen := false
	nSess := 4
	if c.thorough() {
		nSess = 16
	}
	for k := 0; k < nSess; k++ {
		method := byte(k % 4)
		limit := []int{16401, 0}[(k+k/4)%2]
		tx, nw, _ := c14session(method, key, limit, 1+r.intn(3))
		rxs, _, _ := c14session(method, key, limit, 1)
		peer := &c14peer{sesh: rxs, streams: map[uint32]*mux.Stream{}}
		max := mux.Verif14MaxUnit(tx)
		o.T(fmt.Sprintf("dg.snew limit=%d", c14limit(limit)), fmt.Sprintf("ok max=%d", max))
		st, err := tx.OpenStream()
		if err != nil {
			panic(err)
		}
		sizes := []int{1, 2, 1400, max - 1, max, max + 1, max + 2, max + 300, 40000, 65507, max, 7}
		nRand := 6
		if c.thorough() {
			nRand = 60
		}
		for i := 0; i < nRand; i++ {
			sizes = append(sizes, c14size(r, limit, true))
		}
		processed := 0
		for serial, n := range sizes {
			d := c14entryPayload(r, 0xd8, 0, serial, n)
			_, rerr := st.ReadFrom(&c14pktSrc{q: [][]byte{append([]byte(nil), d...)}})
			nw.mu.Lock()
			recs := append([]c14rec(nil), nw.recs[processed:]...)
			processed = len(nw.recs)
			nw.mu.Unlock()
			var frames []int
			var msgs [][]byte
			for _, rc := range recs {
				_, closing, pl, m, derr := peer.feed(rc.data)
				if derr != nil {
					o.V("C14 captured record does not decode", map[string]any{"part": "readfrom-entry", "err": derr.Error()})
					return
				}
				if closing == 0 {
					frames = append(frames, pl)
				}
				msgs = append(msgs, m...)
			}
			refused := "0"
			switch {
			case errors.Is(rerr, io.ErrShortBuffer):
				refused = "1"
			case rerr != nil && rerr != io.EOF:
				refused = "err:" + rerr.Error()
			}
			o.T(fmt.Sprintf("dg.sreadfrom pkt=1 n=%d", n), fmt.Sprintf("frames=%s refused=%s", c14ints(frames), refused))
			// the property: what the peer reads is the datagram, whole — or nothing of it
			whole := 0
			for _, m := range msgs {
				switch v, _ := c14judge(m, [][]byte{d}); v {
				case "":
					whole++
				case "truncated":
					sig := "C14 datagram-truncated-at-readfrom-entry"
					if truncSeen {
						continue
					}
					truncSeen = true // reported once; the remaining sizes still run for the model rows
					o.V(sig, map[string]any{"datagram_len": n, "max_for_one_frame": max, "peer_read_len": len(m), "prefix_of_the_datagram": true,
						"readfrom_error": fmt.Sprint(rerr), "method": c14methods[method], "on_wire_limit": c14limit(limit),
						"replay": "unordered session pair; stream.ReadFrom(packet source holding one datagram of datagram_len bytes; one Read = one datagram, excess discarded); peer reads with a 70000-byte buffer"})
				default:
					o.V("C14 readfrom-entry: peer read a message that is not the datagram handed in", map[string]any{"datagram_len": n, "peer_read_len": len(m), "max_for_one_frame": max})
					return
				}
			}
			if n > max && whole > 0 {
				o.V("C14 oversize datagram not refused at the sender", map[string]any{"part": "readfrom-entry", "len": n, "max": max, "err": fmt.Sprint(rerr), "frames": frames})
				return
			}
			if whole > 1 {
				o.V("C14 readfrom-entry: datagram delivered more than once", map[string]any{"datagram_len": n, "times": whole})
				return
			}
			if n <= max && (rerr == nil || rerr == io.EOF) && whole != 1 {
				o.V("C14 readfrom-entry: datagram taken without error but not delivered", map[string]any{"datagram_len": n, "max_for_one_frame": max, "frames": frames})
				return
			}
			o.case_(fmt.Sprint("readfrom", k, serial), n > max)
			o.stat("readfrom_entry_datagrams", 1)
		}
		// byte-stream sources: model correspondence only (frames = consecutive chunks of at most max bytes, never refused)
		for _, n := range []int{1, max, max + 1, 2*max + 5, 50000} {
			_, rerr := st.ReadFrom(&c14byteSrc{rest: r.bytes(n)})
			nw.mu.Lock()
			recs := append([]c14rec(nil), nw.recs[processed:]...)
			processed = len(nw.recs)
			nw.mu.Unlock()
			var frames []int
			for _, rc := range recs {
				_, closing, pl, _, derr := peer.feed(rc.data)
				if derr == nil && closing == 0 {
					frames = append(frames, pl)
				}
			}
			refused := "0"
			if errors.Is(rerr, io.ErrShortBuffer) {
				refused = "1"
			} else if rerr != nil && rerr != io.EOF {
				refused = "err:" + rerr.Error()
			}
			o.T(fmt.Sprintf("dg.sreadfrom pkt=0 n=%d", n), fmt.Sprintf("frames=%s refused=%s", c14ints(frames), refused))
		}
		tx.Close()
		rxs.Close()
	}
	o.sample("readfrom entry: unordered stream.ReadFrom(packet source) with datagrams of max-1, max, max+1, max+300, 65507 bytes; peer must read each whole or nothing")
}

func c14ints(xs []int) string {
	s := "["
	for i, x := range xs {
		if i > 0 {
			s += ","
		}
		s += fmt.Sprint(x)
	}
	return s + "]"
}

// ---- the REAL client.RouteUDP over loopback UDP ----
func c14udpEntry(c *ctx, r *rng) {
	o := c.o
	probe, err := net.ListenUDP("udp", &net.UDPAddr{IP: net.IPv4(127, 0, 0, 1)})
	if err != nil {
		o.N("C14 udp entry: no loopback UDP in this environment (" + err.Error() + ") — part skipped")
		return
	}
	probe.Close()
	var key [32]byte
	copy(key[:], r.bytes(32))
	const limit = 16401 // what cmd/ck-client configures (appDataMaxLength)
	method := byte(1 + r.intn(3))
	tx, nw, _ := c14session(method, key, limit, 2)
	rxs, _, _ := c14session(method, key, limit, 1)
	peer := &c14peer{sesh: rxs, streams: map[uint32]*mux.Stream{}}
	max := mux.Verif14MaxUnit(tx)
	o.T(fmt.Sprintf("dg.snew limit=%d", limit), fmt.Sprintf("ok max=%d", max))

	bound := make(chan *net.UDPConn, 1)
	bind := func() (*net.UDPConn, error) {
		l, err := net.ListenUDP("udp", &net.UDPAddr{IP: net.IPv4(127, 0, 0, 1)})
		if err == nil {
			bound <- l
		}
		return l, err
	}
	// RouteUDP never returns; its goroutine stays parked in the socket read when this part is over
	// (the socket is deliberately left open: RouteUDP would spin on the read error of a closed socket)
	go client.RouteUDP(bind, time.Hour, false, func() *mux.Session { return tx })
	var local *net.UDPConn
	select {
	case local = <-bound:
	case <-time.After(10 * time.Second):
		o.N("C14 udp entry: RouteUDP did not bind within 10 s — part skipped")
		return
	}
	nApps := 1
	sizes := []int{1, 100, 8191, 8192, 8193, 9000, 16132, 16133, 30000, 1400, 16132, 5}
	if c.thorough() {
		nApps = 3
		for i := 0; i < 150; i++ {
			sizes = append(sizes, c14size(r, limit, true))
		}
	}
	apps := make([]*net.UDPConn, nApps)
	for i := range apps {
		a, err := net.DialUDP("udp", nil, local.LocalAddr().(*net.UDPAddr))
		if err != nil {
			o.N("C14 udp entry: cannot open the application socket: " + err.Error())
			return
		}
		defer a.Close()
		apps[i] = a
	}
	processed := 0
	newRecs := func(deadline time.Duration) []c14rec {
		t0 := time.Now()
		for {
			nw.mu.Lock()
			n := len(nw.recs)
			nw.mu.Unlock()
			if n > processed {
				// let a straggler (the copy of a retried datagram) arrive too
				time.Sleep(20 * time.Millisecond)
				nw.mu.Lock()
				recs := append([]c14rec(nil), nw.recs[processed:]...)
				processed = len(nw.recs)
				nw.mu.Unlock()
				return recs
			}
			if time.Since(t0) > deadline {
				return nil
			}
			time.Sleep(time.Millisecond)
		}
	}
	var sent [][]byte             // every datagram handed to the socket so far
	var sentSrc []int             // which application socket
	streamSrc := map[uint32]int{} // stream id -> application socket whose datagrams arrive on it
	delivered := map[string]int{} // by content: how often the peer read it
	sends := map[string]int{}     // by content: how often it was handed to the socket (retries included)
	truncSeen := false
	for serial, n := range sizes {
		if n > 65507 {
			n = 65507
		}
		src := r.intn(nApps)
		d := c14entryPayload(r, 0xd7, byte(src), serial, n)
		sent = append(sent, d)
		sentSrc = append(sentSrc, src)
		tries := 0
		var recs []c14rec
		for tries < 2 && recs == nil {
			tries++
			if _, err := apps[src].Write(d); err != nil {
				o.N(fmt.Sprintf("C14 udp entry: the socket refused a %d-byte datagram: %v", n, err))
				break
			}
			sends[string(d)]++
			recs = newRecs(4 * time.Second)
		}
		if recs == nil {
			// UDP may drop: not a statement of the property
			o.N(fmt.Sprintf("C14 udp entry: nothing arrived for a %d-byte datagram after %d sends", n, tries))
			o.stat("udp_entry_no_arrival", 1)
			continue
		}
		closed := false
		type c14arr struct {
			sid uint32
			m   []byte
		}
		var arrived []c14arr
		var frames []int // payload lengths of the data records that carry (a part of) THIS datagram
		foreignRecords := 0
		for _, rc := range recs {
			sid, closing, pl, msgs, derr := peer.feed(rc.data)
			if derr != nil {
				o.V("C14 captured record does not decode", map[string]any{"part": "udp-entry", "err": derr.Error()})
				return
			}
			if closing != 0 {
				closed = true
				continue
			}
			mine := false
			for _, m := range msgs {
				arrived = append(arrived, c14arr{sid, m})
				if _, of := c14judge(m, sent); of == serial {
					mine = true
				}
			}
			if mine {
				frames = append(frames, pl)
			} else {
				foreignRecords++ // a late copy of an earlier (retried) datagram: judged below, not part of this row
			}
		}
		// model correspondence: what RouteUDP handed to the wire for this datagram (first arrival)
		if tries == 1 && foreignRecords == 0 {
			switch {
			case len(frames) == 1 && !closed:
				o.T(fmt.Sprintf("dg.entry n=%d", n), fmt.Sprintf("frames=[%d] err=ok", frames[0]))
			case len(frames) == 0 && closed:
				o.T(fmt.Sprintf("dg.entry n=%d", n), "frames=[] err=short-buffer")
			default:
				o.N(fmt.Sprintf("C14 udp entry: %d data records for one %d-byte datagram", len(frames), n))
			}
		}
		// the property: whatever the peer read is one whole datagram that was sent, on a stream of its own source
		for _, a := range arrived {
			sid, m := a.sid, a.m
			v, of := c14judge(m, sent)
			switch v {
			case "":
				if len(sent[of]) > max {
					o.V("C14 oversize datagram not refused at the sender", map[string]any{"part": "udp-entry", "len": len(sent[of]), "max": max})
					return
				}
				delivered[string(m)]++
				if delivered[string(m)] > sends[string(m)] {
					o.V("C14 udp-entry: datagram delivered more often than it was sent", map[string]any{"datagram_len": len(m), "times": delivered[string(m)], "sends": sends[string(m)]})
					return
				}
				if len(m) < 4 {
					break // too short to carry its source tag
				}
				if prev, ok := streamSrc[sid]; ok && prev != sentSrc[of] {
					o.V("C14 udp-entry: datagrams of two local sources arrived on one stream", map[string]any{"stream": sid, "sources": []int{prev, sentSrc[of]}})
					return
				}
				streamSrc[sid] = sentSrc[of]
			case "truncated":
				if !truncSeen {
					o.V("C14 datagram-truncated-at-udp-entry", map[string]any{"datagram_len": len(sent[of]), "max_for_one_frame": max, "peer_read_len": len(m),
						"prefix_of_the_datagram": true, "fits_one_frame": len(sent[of]) <= max, "method": c14methods[method], "on_wire_limit": limit,
						"replay": "real client.RouteUDP bound to 127.0.0.1:0 with newSeshFunc returning an unordered session (MsgOnWireSizeLimit 16401); one datagram of datagram_len bytes sent from a local UDP socket; the peer session's stream read with a 70000-byte buffer"})
				}
				truncSeen = true // reported once; the remaining sizes still run for the model rows
			default:
				o.V("C14 udp-entry: peer read a message that is not one whole datagram that was sent", map[string]any{"peer_read_len": len(m), "last_datagram_len": n})
				return
			}
		}
		o.case_(fmt.Sprint("udp", serial), n > 8192)
		o.stat("udp_entry_datagrams", 1)
	}
	o.sample(fmt.Sprintf("udp entry: real client.RouteUDP on %v, datagram sizes %v..., peer stream must read each whole or nothing", local.LocalAddr(), sizes[:9]))
}
