//go:build verif

package main

import (
	"bytes"
	"fmt"

	mux "github.com/cbeuw/Cloak/internal/multiplex"
)

func init() { scenarios["C02"] = c02 }

// one script: frames 0..n-1 (payload pl[i], frame c closing if c<n) based at `base`, arriving in `order`,
// with reads interleaved. Impl-side monitor = the property statement itself.
func c02script(c *ctx, base uint64, pls [][]byte, cl int, order []int, reads []int, tag string) {
	o := c.o
	n := len(pls)
	sb := mux.VerifNewSB(base)
	o.T(fmt.Sprintf("sb.new next=%d", base), "ok")
	var got []byte
	closes, errs := 0, 0
	doRead := func(k int) {
		st, b := sb.Read(k)
		if st == "data" {
			got = append(got, b...)
			o.T(fmt.Sprintf("sb.read n=%d", k), "data "+hx(b))
		} else {
			o.T(fmt.Sprintf("sb.read n=%d", k), st)
		}
	}
	for i, idx := range order {
		closing := uint8(0)
		if idx == cl {
			closing = 1
		}
		buf := append([]byte(nil), pls[idx]...)
		r := sb.Write(base+uint64(idx), closing, buf)
		for j := range buf { // the caller reuses its buffer: a parked frame must have been copied
			buf[j] ^= 0xff
		}
		o.T(fmt.Sprintf("sb.write seq=%d closing=%d pl=%s", base+uint64(idx), closing, hx(pls[idx])), r)
		switch r {
		case "close":
			closes++
		case "errOld":
			errs++
		}
		if i < len(reads) && reads[i] > 0 {
			doRead(reads[i])
		}
	}
	o.T("sb.state", sb.State())
	// drain
	for k := 0; k < n+2; k++ {
		st, b := sb.Read(1 << 16)
		if st != "data" {
			break
		}
		got = append(got, b...)
	}
	var want []byte
	m := n
	if cl < n {
		m = cl
	}
	for i := 0; i < m; i++ {
		want = append(want, pls[i]...)
	}
	wantCloses := 0
	if cl < n {
		wantCloses = 1
	}
	if !bytes.Equal(got, want) || closes != wantCloses || errs != 0 {
		o.V("C02 reassembly", map[string]any{"tag": tag, "base": base, "order": order, "closing": cl, "reads": reads,
			"got": hx(got), "want": hx(want), "closes": closes, "errOld": errs})
	}
}

func permutations(n int, f func([]int)) {
	p := make([]int, n)
	for i := range p {
		p[i] = i
	}
	var rec func(k int)
	rec = func(k int) {
		if k == n {
			f(p)
			return
		}
		for i := k; i < n; i++ {
			p[k], p[i] = p[i], p[k]
			rec(k + 1)
			p[k], p[i] = p[i], p[k]
		}
	}
	rec(0)
}

func c02(c *ctx) {
	o, r := c.o, c.r
	maxN := 6
	if c.thorough() {
		maxN = 8
	}
	mkpl := func(n int, mode int) [][]byte {
		pls := make([][]byte, n)
		for i := range pls {
			switch mode {
			case 0:
				pls[i] = []byte{byte(i + 1)}
			case 1:
				pls[i] = []byte{byte(i + 1), byte(0xa0 + i)}
			default:
				pls[i] = r.bytes(r.intn(10)) // 0..9 bytes: an empty data frame is a frame too
			}
		}
		return pls
	}
	// (a) exhaustive: every arrival order of n frames x every position of the closing frame
	for n := 1; n <= maxN; n++ {
		permutations(n, func(p []int) {
			for cl := 0; cl <= n; cl++ {
				order := append([]int(nil), p...)
				reads := make([]int, n)
				for i := range reads {
					if r.intn(3) == 0 {
						reads[i] = 1 + r.intn(4)
					}
				}
				base := uint64(0)
				switch r.intn(8) {
				case 0:
					base = 1<<32 - uint64(r.intn(n+1))
				case 1:
					base = 1<<63 + uint64(r.intn(5))
				}
				c02script(c, base, mkpl(n, r.intn(3)), cl, order, reads, "exhaustive")
				nontriv := false
				for i := range order {
					if order[i] != i {
						nontriv = true
					}
				}
				o.case_(fmt.Sprint(order, cl), nontriv)
			}
		})
	}
	o.stat("exhaustive_max_n", maxN)
	// (b) random long permutations
	nr := 60
	if c.thorough() {
		nr = 600
	}
	for i := 0; i < nr; i++ {
		n := 9 + r.intn(192)
		if c.thorough() && i%10 == 0 {
			n = 500 + r.intn(1500)
		}
		order := r.perm(n)
		cl := n
		if r.intn(2) == 0 {
			cl = r.intn(n)
		}
		reads := make([]int, n)
		for j := range reads {
			if r.intn(4) == 0 {
				reads[j] = 1 + r.intn(40)
			}
		}
		base := uint64(0)
		if r.intn(4) == 0 {
			base = ^uint64(0) - uint64(n) - uint64(r.intn(3)) // right below the wrap, never across it
		}
		c02script(c, base, mkpl(n, 2), cl, order, reads, "random")
		o.case_(fmt.Sprint("rand", i, n, cl), true)
		if i == 0 {
			o.sample(fmt.Sprintf("random permutation n=%d closing=%d order[:8]=%v", n, cl, order[:8]))
		}
	}
	// (c) malformed stream (outside the property's precondition): duplicates and stale numbers;
	// only model-vs-implementation agreement is checked, no monitor
	nm := 300
	if c.thorough() {
		nm = 3000
	}
	for i := 0; i < nm; i++ {
		sb := mux.VerifNewSB(0)
		o.T("sb.new next=0", "ok")
		closedPipe := false
		// duplicates are identical frames (payload and flag are functions of the number), so the
		// unspecified pop order of Go's heap among equal numbers cannot show
		pls := make([][]byte, 7)
		cls := make([]uint8, 7)
		for k := range pls {
			pls[k] = r.bytes(1 + r.intn(3))
			if r.intn(9) == 0 {
				cls[k] = 1
			}
		}
		for k := 0; k < 12; k++ {
			switch r.intn(8) {
			case 0:
				n := 1 + r.intn(5)
				st, b := sb.Read(n)
				if st == "data" {
					o.T(fmt.Sprintf("sb.read n=%d", n), "data "+hx(b))
				} else {
					o.T(fmt.Sprintf("sb.read n=%d", n), st)
				}
			case 1:
				if !closedPipe && r.intn(4) == 0 {
					sb.Close()
					closedPipe = true
					o.T("sb.close", "ok")
				}
			default:
				seq := r.intn(7)
				res := sb.Write(uint64(seq), cls[seq], append([]byte(nil), pls[seq]...))
				o.T(fmt.Sprintf("sb.write seq=%d closing=%d pl=%s", seq, cls[seq], hx(pls[seq])), res)
			}
		}
		o.T("sb.state", sb.State())
		o.stat("malformed_scripts", 1)
	}
	c02wireAll(c)
	ncc := 4
	if c.thorough() {
		ncc = 30
	}
	for k := 0; k < ncc; k++ {
		c02concurrent(c, k)
	}
	o.sample("exhaustive: order=[2 0 1] closing=1 reads interleaved; sb.write seq=2 ... -> ok; sb.write seq=0 -> ok; sb.write seq=1 closing=1 -> close")
}
