//go:build verif

package main

import (
	"fmt"
	"net"
	"os"
	"sync"
	"testing/synctest"
	"time"

	mux "github.com/cbeuw/Cloak/internal/multiplex"
)

// C19 "counted across all of the user's sessions ... and a backlogged sender is not held below that rate": two sessions of
// one user share the user's valve. Session A has K streams with backlogged writers - each has reserved a frame in the
// token bucket (switchboard.send: txWait comes first) and sleeps for its turn - when A is closed. Session B has a
// backlogged sender all along. What the user is SENT over the following seconds must still be about rate x t: tokens
// reserved for frames that are never sent are tokens the user does not get. Virtual clock; own subprocess.

func init() { scenarios["C19burnt"] = c19burntChild }

type c19sink struct {
	mu   sync.Mutex
	t0   time.Time
	evs  []c19ev
	dead chan struct{}
	once sync.Once
}

func (c *c19sink) Read(b []byte) (int, error) { <-c.dead; return 0, fmt.Errorf("closed") }
func (c *c19sink) Write(b []byte) (int, error) {
	select {
	case <-c.dead:
		return 0, fmt.Errorf("closed")
	default:
	}
	c.mu.Lock()
	c.evs = append(c.evs, c19ev{int64(time.Since(c.t0)), int64(len(b))})
	c.mu.Unlock()
	return len(b), nil
}
func (c *c19sink) Close() error                       { c.once.Do(func() { close(c.dead) }); return nil }
func (c *c19sink) LocalAddr() net.Addr                { return faddr("l") }
func (c *c19sink) RemoteAddr() net.Addr               { return faddr("r") }
func (c *c19sink) SetDeadline(t time.Time) error      { return nil }
func (c *c19sink) SetReadDeadline(t time.Time) error  { return nil }
func (c *c19sink) SetWriteDeadline(t time.Time) error { return nil }
func (c *c19sink) between(from, to time.Duration) (sum int64) {
	c.mu.Lock()
	defer c.mu.Unlock()
	for _, e := range c.evs {
		if e.t >= int64(from) && e.t < int64(to) {
			sum += e.n
		}
	}
	return
}

func c19burntChild(c *ctx) {
	r := c.r
	synctest.Run(func() {
		for k := 0; k < 2; k++ {
			rate := int64(100_000 * (1 + k))
			K := 40 + r.intn(40)
			closeA := true
			valve := mux.MakeValve(rate, rate)
			t0 := time.Now()
			mk := func(id uint32) (*mux.Session, *c19sink) {
				var key [32]byte
				copy(key[:], r.bytes(32))
				ob, _ := mux.MakeObfuscator(0, key)
				s := mux.MakeSession(id, mux.SessionConfig{Obfuscator: ob, Valve: valve, MsgOnWireSizeLimit: 16401, InactivityTimeout: 1000 * time.Hour})
				cn := &c19sink{t0: t0, dead: make(chan struct{})}
				s.AddConnection(cn)
				return s, cn
			}
			A, sinkA := mk(1)
			B, sinkB := mk(2)
			stop := make(chan struct{})
			var wg sync.WaitGroup
			for i := 0; i < K; i++ {
				st, err := A.OpenStream()
				if err != nil {
					panic(err)
				}
				wg.Add(1)
				go func() {
					defer wg.Done()
					buf := make([]byte, 16000)
					for {
						if _, err := st.Write(buf); err != nil {
							return
						}
					}
				}()
			}
			stB, err := B.OpenStream()
			if err != nil {
				panic(err)
			}
			wg.Add(1)
			go func() {
				defer wg.Done()
				buf := make([]byte, 1000)
				for {
					select {
					case <-stop:
						return
					default:
					}
					if _, err := stB.Write(buf); err != nil {
						return
					}
				}
			}()
			time.Sleep(time.Second)
			if closeA {
				// the client goes away: session A's connection is lost, its receive loop tears the session down at once
				// (passiveClose: the switchboard is broken from this moment on; a local Close would first queue its notice
				// behind the waiting senders and let their frames out)
				sinkA.Close()
			}
			time.Sleep(11 * time.Second)
			// what the USER is sent: on either session's connection (a frame of the closed session that still goes out
			// before its connections are closed is a frame the user gets)
			got := sinkB.between(2*time.Second, 12*time.Second) + sinkA.between(2*time.Second, 12*time.Second)
			want := rate * 10
			c.o.stat("burnt_cases", 1)
			c.o.sample(fmt.Sprintf("burnt tokens: rate %d B/s, %d backlogged streams on the closed session, the user was sent %d B in [2s,12s) on both sessions together (rate x t = %d)", rate, K, got, want))
			if got < want/2 {
				c.o.V("C19 held-below-rate tokens-burnt-by-a-closed-session", map[string]any{"rate": rate, "streams_waiting_in_the_closed_session": K,
					"sent_to_the_user_in_2s_12s": got, "rate_times_t": want,
					"what": "a session with K writers waiting for their turn in the user's token bucket was closed; their reservations (about K x 16 KB) stay deducted although nothing is sent for them, and the backlogged sender of the user's other session waits behind them",
					"replay": fmt.Sprintf("v := MakeValve(%d, %d); sessions A, B with Valve v; %d streams on A each in a Write loop of 16000 B; one stream on B in a Write loop of 1000 B; t=1s: A's connection is lost (passiveClose); bytes written to the two sessions' connections in [2s,12s)", rate, rate, K)})
			}
			close(stop)
			B.Close()
			A.Close()
			wg.Wait()
			c.o.case_(fmt.Sprintf("burnt/%d", k), true)
		}
		c.o.close()
		os.Exit(0)
	})
}
