//go:build verif

package main

import (
	"fmt"
	"io"
	"testing/synctest"
	"time"

	mux "github.com/cbeuw/Cloak/internal/multiplex"
)

// C03, the ReadFrom write path (what common.Copy uses for every relayed connection): a ReadFrom
// that is parked in its source's Read when the stream gets closed (locally, or by processing the
// peer's close) must not send what the source yields afterwards: "once a side has closed the stream
// or processed the peer's close, its writes fail".  Monitors only (the schedule is the point).

type chanReader struct{ ch chan []byte }

func (r *chanReader) Read(b []byte) (int, error) {
	d, ok := <-r.ch
	if !ok {
		return 0, io.EOF
	}
	return copy(b, d), nil
}

func c03readFrom(c *ctx, k int) {
	r := c.r
	how := []string{"local-close", "peer-close-processed", "session-close"}[k%3]
	method := byte(r.intn(4))
	nconn := 1 + r.intn(3)
	tag := fmt.Sprintf("readfrom #%d %s method=%d conns=%d", k, how, method, nconn)
	synctest.Run(func() {
		var key [32]byte
		copy(key[:], r.bytes(32))
		rg := newSeshPair(method, key, nconn, false, false, time.Hour)
		viol := func(sig string, d map[string]any) { d["tag"] = tag; c.o.V(sig, d) }
		st, err := rg.S[0].sesh.OpenStream()
		if err != nil {
			return
		}
		src := &chanReader{ch: make(chan []byte)}
		type res struct {
			n   int64
			err error
		}
		done := make(chan res, 1)
		go func() {
			n, err := st.ReadFrom(src)
			done <- res{n, err}
		}()
		first := r.bytes(1 + r.intn(300))
		src.ch <- first
		synctest.Wait()
		// carry the first frame to B so that B has the stream
		moved := 0
		for kk := 0; kk < nconn; kk++ {
			for {
				if _, ok := rg.deliver(0, kk); !ok {
					break
				}
				moved++
			}
		}
		synctest.Wait()
		var bst *mux.Stream
		if cn := mux.VerifTryAccept(rg.S[1].sesh); cn != nil {
			bst = cn
		}
		pendingBefore := 0
		switch how {
		case "local-close":
			st.Close()
		case "peer-close-processed":
			if bst == nil {
				return
			}
			bst.Close()
			synctest.Wait()
			for kk := 0; kk < nconn; kk++ {
				for {
					if _, ok := rg.deliver(1, kk); !ok {
						break
					}
				}
			}
		case "session-close":
			rg.S[0].sesh.Close()
		}
		synctest.Wait()
		if !mux.VerifStreamClosed(st) {
			return // the close did not take effect on A (nothing to check)
		}
		for _, cn := range rg.S[0].conns {
			pendingBefore += cn.pending()
		}
		// ReadFrom is (still) parked in src.Read; now the source yields more data
		late := r.bytes(1 + r.intn(300))
		select {
		case rr := <-done:
			// ReadFrom already returned: fine, as long as it reported a failure
			if rr.err == nil {
				viol("C03 readfrom-returned-success-on-closed-stream", map[string]any{"how": how, "n": rr.n})
			}
		default:
			src.ch <- late
			synctest.Wait()
			select {
			case rr := <-done:
				if rr.n != int64(len(first)) || rr.err == nil {
					viol("C03 write-accepted-after-close", map[string]any{"how": how, "path": "Stream.ReadFrom parked in its source when the stream was closed",
						"bytes_before_close": len(first), "bytes_reported_written": rr.n, "err": fmt.Sprint(rr.err)})
				}
			default:
				// it went back to reading: then the late chunk was accepted
				viol("C03 write-accepted-after-close", map[string]any{"how": how, "path": "Stream.ReadFrom kept going after the close", "bytes_before_close": len(first)})
				close(src.ch)
				synctest.Wait()
			}
		}
		pendingAfter := 0
		for _, cn := range rg.S[0].conns {
			pendingAfter += cn.pending()
		}
		if pendingAfter > pendingBefore {
			viol("C03 frame-sent-after-close", map[string]any{"how": how, "records_after_close": pendingAfter - pendingBefore})
		}
		// teardown
		rg.S[0].sesh.Close()
		rg.S[1].sesh.Close()
		for s := 0; s < 2; s++ {
			for _, cn := range rg.S[s].conns {
				cn.Close()
			}
		}
		synctest.Wait()
	})
	c.o.case_(tag, true)
}
