//go:build verif

package main

import (
	"bytes"
	"fmt"
	"net"
	"time"

	"github.com/cbeuw/Cloak/internal/client"
	"github.com/cbeuw/Cloak/internal/common"
	mux "github.com/cbeuw/Cloak/internal/multiplex"
	"github.com/cbeuw/connutil"
)

// C14 on the way BACK to the local application: datagrams the peer's stream Write has accepted (any size up to one
// frame's payload) must come out of the real client.RouteUDP's local socket whole, each exactly once, while the stream
// stays open and the session healthy.  (The way in is c14udpEntry.)
func c14udpReturn(c *ctx, r *rng) {
	o := c.o
	probe, err := net.ListenUDP("udp", &net.UDPAddr{IP: net.IPv4(127, 0, 0, 1)})
	if err != nil {
		o.N("C14 udp return: no loopback UDP in this environment — part skipped")
		return
	}
	probe.Close()
	var key [32]byte
	copy(key[:], r.bytes(32))
	method := byte(r.intn(4))
	mk := func() *mux.Session {
		ob, err := mux.MakeObfuscator(method, key)
		if err != nil {
			panic(err)
		}
		return mux.MakeSession(11, mux.SessionConfig{Obfuscator: ob, Unordered: true, InactivityTimeout: time.Hour, MsgOnWireSizeLimit: 16401})
	}
	tx, rx := mk(), mk()
	for i := 0; i < 2; i++ {
		x, y := connutil.AsyncPipe()
		tx.AddConnection(common.NewTLSConn(x))
		rx.AddConnection(common.NewTLSConn(y))
	}
	max := mux.Verif14MaxUnit(tx)
	bound := make(chan *net.UDPConn, 1)
	bind := func() (*net.UDPConn, error) {
		l, err := net.ListenUDP("udp", &net.UDPAddr{IP: net.IPv4(127, 0, 0, 1)})
		if err == nil {
			bound <- l
		}
		return l, err
	}
	go client.RouteUDP(bind, time.Hour, false, func() *mux.Session { return tx }) // never returns
	var local *net.UDPConn
	select {
	case local = <-bound:
	case <-time.After(10 * time.Second):
		o.N("C14 udp return: RouteUDP did not bind within 10 s — part skipped")
		return
	}
	app, err := net.DialUDP("udp", nil, local.LocalAddr().(*net.UDPAddr))
	if err != nil {
		return
	}
	defer app.Close()
	app.Write([]byte("hello"))
	acc := make(chan *mux.Stream, 1)
	go func() {
		cn, err := rx.Accept()
		if err != nil {
			acc <- nil
			return
		}
		acc <- cn.(*mux.Stream)
	}()
	var ps *mux.Stream
	select {
	case ps = <-acc:
	case <-time.After(10 * time.Second):
	}
	if ps == nil {
		o.N("C14 udp return: the peer did not get the stream within 10 s — part skipped")
		return
	}
	hb := make([]byte, 100)
	ps.Read(hb)
	sizes := []int{1, 1400, 8191, 8192, 8193, 9000, max - 1, max, 5}
	if c.thorough() {
		for i := 0; i < 60; i++ {
			sizes = append(sizes, 1+r.intn(max))
		}
	}
	buf := make([]byte, 70000)
	for serial, n := range sizes {
		d := c14entryPayload(r, 0x3c, 0, serial, n)
		wn, werr := ps.Write(d)
		if werr != nil || wn != n {
			o.V("C14 udp return: admissible datagram refused by the peer's write", map[string]any{"len": n, "max": max, "err": fmt.Sprint(werr)})
			return
		}
		app.SetReadDeadline(time.Now().Add(3 * time.Second))
		k, rerr := app.Read(buf)
		if rerr != nil || !bytes.Equal(buf[:k], d) {
			o.V("C14 accepted-datagram-not-delivered at the client's udp return path", map[string]any{"datagram_len": n, "max_for_one_frame": max,
				"peer_write": fmt.Sprintf("n=%d err=%v", wn, werr), "application_read": fmt.Sprintf("n=%d err=%v", k, rerr), "method": method,
				"what": "the peer's stream Write accepted the datagram (it fits one frame), the stream was open and the session healthy; the local UDP application never received it",
				"replay": "real client.RouteUDP on 127.0.0.1:0, unordered session pair (limit 16401) over in-memory connections; application sends 'hello'; the peer accepts the stream and writes one datagram of datagram_len bytes; the application reads with a 70000-byte buffer, 3 s"})
			return
		}
		o.case_(fmt.Sprint("udp-return", serial), n > 8192)
		o.stat("udp_return_datagrams", 1)
	}
	// two applications at once: each must only ever see its own datagrams (the per-stream goroutines of RouteUDP run
	// concurrently; loopback UDP may drop under pressure, so only the CONTENT of what arrives is judged)
	app2, err := net.DialUDP("udp", nil, local.LocalAddr().(*net.UDPAddr))
	if err == nil {
		defer app2.Close()
		app2.Write([]byte("hello2"))
		var ps2 *mux.Stream
		go func() {
			cn, err := rx.Accept()
			if err != nil {
				acc <- nil
				return
			}
			acc <- cn.(*mux.Stream)
		}()
		select {
		case ps2 = <-acc:
		case <-time.After(10 * time.Second):
		}
		if ps2 != nil {
			ps2.Read(hb)
			const each = 250
			send := func(st *mux.Stream, tag byte, seed uint64) {
				rr := &rng{seed}
				for i := 0; i < each; i++ {
					d := bytes.Repeat([]byte{tag}, 1+rr.intn(1200))
					if _, err := st.Write(d); err != nil {
						return
					}
				}
			}
			type res struct {
				n       int
				foreign string
			}
			recv := func(a *net.UDPConn, tag byte, out chan res) {
				b := make([]byte, 70000)
				n := 0
				for n < each {
					a.SetReadDeadline(time.Now().Add(1500 * time.Millisecond))
					k, err := a.Read(b)
					if err != nil {
						break
					}
					n++
					for i := 0; i < k; i++ {
						if b[i] != tag {
							out <- res{n, fmt.Sprintf("datagram #%d of %d bytes: byte %d is %q, this application's datagrams consist of %q", n, k, i, b[i], tag)}
							return
						}
					}
				}
				out <- res{n, ""}
			}
			r1, r2 := make(chan res, 1), make(chan res, 1)
			go recv(app, 'A', r1)
			go recv(app2, 'B', r2)
			go send(ps, 'A', r.next())
			go send(ps2, 'B', r.next())
			x1, x2 := <-r1, <-r2
			for _, x := range []res{x1, x2} {
				if x.foreign != "" {
					o.V("C14 datagram-mixed-with-another-stream at the client's udp return path", map[string]any{"what": x.foreign, "method": method,
						"replay": "real client.RouteUDP; two local UDP applications, one stream each; the peer writes 250 datagrams of one repeated letter on each stream concurrently"})
					break
				}
			}
			o.stat("udp_return_concurrent_received", x1.n+x2.n)
			o.case_("udp-return-concurrent", true)
		}
	}
	o.sample(fmt.Sprintf("udp return: peer stream writes datagrams of %v bytes, the local UDP application behind the real client.RouteUDP must read each whole", sizes[:9]))
}
