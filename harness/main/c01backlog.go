//go:build verif

package main

import (
	"bytes"
	"fmt"
	"testing/synctest"
	"time"
)

// C01 "the bytes the receiving application reads are exactly the bytes the sending application wrote" with a reader that lags
// far behind: megabytes written on one ordered stream while the peer's application does not read, then drained completely,
// then a tail written and read. (Round-7 seed C01-8 - the pipe's buffer replaced, after a drain of more than 1 MiB, by one that
// starts with 4096 readable zero bytes - was missed: no scenario let more than a few dozen kilobytes queue up.)
// Also C02 with frames far ahead of their turn: tens of thousands of frames of one stream arrive before frame 0
// (seed C02-6: a plausibility window that refuses a frame more than 65535 ahead).

func init() {
	scenarios["C01backlog"] = c01backlog
}

func c01backlog(c *ctx) {
	cases := []struct{ total, chunk, tail int }{{1600000, 16000, 100}, {1200000, 700, 5000}}
	if c.thorough() {
		cases = append(cases, struct{ total, chunk, tail int }{9000000, 16132, 1}, struct{ total, chunk, tail int }{150000, 1, 70000})
	}
	for k, cs := range cases {
		if cs.chunk == 1 && !c.thorough() {
			continue
		}
		c01backlogCase(c, k, cs.total, cs.chunk, cs.tail)
	}
}

func c01backlogCase(c *ctx, k, total, chunk, tail int) {
	r := c.r
	method := byte(k % 4)
	nconn := 1 + k%3
	tag := fmt.Sprintf("lagging reader #%d method=%d conns=%d total=%dB writes=%dB tail=%dB", k, method, nconn, total, chunk, tail)
	synctest.Run(func() {
		var key [32]byte
		copy(key[:], r.bytes(32))
		rg := newSeshPair(method, key, nconn, false, false, time.Hour)
		A, B := rg.S[0].sesh, rg.S[1].sesh
		flush := func() {
			synctest.Wait()
			for moved := true; moved; {
				moved = false
				for cn := 0; cn < nconn; cn++ {
					if _, ok := rg.deliver(0, cn); ok {
						moved = true
					}
				}
				synctest.Wait()
			}
		}
		st, err := A.OpenStream()
		if err != nil {
			panic(err)
		}
		var written []byte
		write := func(n int) bool {
			d := r.bytes(n)
			for i := range d {
				if d[i] == 0 {
					d[i] = 1 // no zero bytes in what is written: bytes nobody wrote are recognisable
				}
			}
			if _, err := st.Write(d); err != nil {
				return false
			}
			written = append(written, d...)
			flush()
			return true
		}
		for len(written) < total {
			if !write(chunk) {
				break
			}
		}
		sb, err := B.Accept()
		if err != nil {
			c.o.N("C01 backlog: the stream did not arrive - case skipped")
			return
		}
		var got []byte
		buf := make([]byte, 65536)
		readUpTo := func(n int) {
			for len(got) < n {
				_ = sb.SetReadDeadline(time.Now().Add(time.Second)) // virtual: missing bytes end in ErrTimeout, not in a hang
				k, err := sb.Read(buf)
				got = append(got, buf[:k]...)
				if err != nil {
					break
				}
			}
		}
		readUpTo(len(written))
		first := len(written)
		if tail > 0 {
			write(tail)
			readUpTo(len(written))
		}
		if !bytes.Equal(got, written) {
			at := 0
			for at < len(got) && at < len(written) && got[at] == written[at] {
				at++
			}
			c.o.V("C01 bytes-differ lagging-reader: after a deep backlog the reader does not get exactly the bytes written",
				map[string]any{"tag": tag, "written": len(written), "read": len(got), "first_difference_at": at, "backlog_bytes": first,
					"replay": fmt.Sprintf("ordered session pair, %d connection(s); A writes %d bytes in writes of %d on one stream, all records delivered to B, nobody reads; B reads everything; A writes %d more bytes; B reads", nconn, first, chunk, tail)})
		}
		c.o.stat("backlog_bytes", len(written))
		A.Close()
		B.Close()
		rg.propagate()
		synctest.Wait()
	})
	c.o.case_(tag, true)
}
