//go:build verif

package main

import (
	"fmt"
	"sync/atomic"
	"testing/synctest"
	"time"

)

// C12 "every blocked read, write and accept on that session returns": SEVERAL callers parked on the same object — two
// or three Reads on one stream (ordered and datagram pipes), two Accepts on one session — when the session is torn down
// (Close on this side, the peer's Close, a fault on every connection) or the stream is closed by the peer.  A wake-up
// that reaches only one of the waiters leaves the others parked for ever.
func c12manyWaiters(c *ctx, k int) {
	r := c.r
	method := byte(r.intn(4))
	unordered := k%2 == 1
	how := []string{"close", "peer-close", "fault", "peer-closes-the-stream"}[(k/2)%4]
	nread := 2 + r.intn(2)
	tag := fmt.Sprintf("several waiters #%d method=%d unordered=%v readers=%d accepts=2 teardown=%s", k, method, unordered, nread, how)
	synctest.Run(func() {
		var key [32]byte
		copy(key[:], r.bytes(32))
		rg := newSeshPair(method, key, 2, false, unordered, time.Hour)
		A, B := rg.S[0].sesh, rg.S[1].sesh
		st, err := A.OpenStream()
		if err != nil {
			panic(err)
		}
		st.Write([]byte("hello"))
		synctest.Wait()
		for kk := 0; kk < 2; kk++ {
			for {
				if _, ok := rg.deliver(0, kk); !ok {
					break
				}
			}
		}
		synctest.Wait()
		sb, err := B.Accept()
		if err != nil {
			c.o.N("C12 several waiters: the stream did not arrive — case skipped")
			return
		}
		buf := make([]byte, 64)
		sb.Read(buf) // drain "hello": the next Reads park
		var readsBack, acceptsBack int32
		for i := 0; i < nread; i++ {
			go func() {
				b := make([]byte, 64)
				sb.Read(b)
				atomic.AddInt32(&readsBack, 1)
			}()
		}
		for i := 0; i < 2; i++ {
			go func() {
				B.Accept()
				atomic.AddInt32(&acceptsBack, 1)
			}()
		}
		synctest.Wait()
		if atomic.LoadInt32(&readsBack) != 0 || atomic.LoadInt32(&acceptsBack) != 0 {
			c.o.N("C12 several waiters: a caller returned before the teardown — case skipped")
			return
		}
		pump := func(from int) {
			synctest.Wait()
			for kk := 0; kk < 2; kk++ {
				for {
					if _, ok := rg.deliver(from, kk); !ok {
						break
					}
				}
			}
			synctest.Wait()
		}
		switch how {
		case "close":
			B.Close()
		case "peer-close":
			A.Close()
			pump(0)
		case "fault":
			rg.fault(0)
			rg.fault(1)
		case "peer-closes-the-stream":
			st.Close()
			pump(0)
		}
		synctest.Wait()
		rg.propagate()
		synctest.Wait()
		wantAccepts := int32(2)
		if how == "peer-closes-the-stream" {
			wantAccepts = 0 // the session lives on: its Accepts stay parked, rightly
		}
		if got := atomic.LoadInt32(&readsBack); got != int32(nread) {
			c.o.V("C12 blocked-read-not-woken several-readers-on-one-stream", map[string]any{"tag": tag, "readers_parked": nread, "readers_returned": got,
				"what": "several Reads were parked on one stream when it was closed; not all of them returned",
				"replay": "session pair; A opens a stream and writes; B accepts, drains, parks N Reads on it; teardown by " + how + "; at quiescence count the Reads that returned"})
		}
		if got := atomic.LoadInt32(&acceptsBack); got != wantAccepts {
			c.o.V("C12 blocked-accept-not-woken several-accepts", map[string]any{"tag": tag, "accepts_parked": 2, "accepts_returned": got, "expected": wantAccepts,
				"replay": "session pair; two Accepts parked on B; teardown by " + how})
		}
		A.Close()
		B.Close()
		rg.propagate()
		synctest.Wait()
	})
	c.o.case_(tag, true)
}
