//go:build verif

package main

import (
	"bytes"
	"fmt"

	mux "github.com/cbeuw/Cloak/internal/multiplex"
)

// C02 at the level the property is stated: the frames of ONE stream arrive as wire messages at a real Session
// (recvDataFromRemote -> Stream.recvFrame -> streamBuffer.Write), in any order, with the application reading
// through Stream.Read in between.  Messages are built by the harness' own reference encoder, so payload sizes the
// sending side would never produce (0 bytes) are covered too — the receiver takes them from the wire.
// Monitor only (the statement itself); the reorder-buffer model is compared in c02script.
func c02wire(c *ctx, method int, pls [][]byte, cl int, order []int, reads []int, tag string) {
	o, r := c.o, c.r
	var key [32]byte
	copy(key[:], r.bytes(32))
	vs, err := mux.VerifMakeSession(byte(method), key, 0, false)
	if err != nil {
		panic(err)
	}
	defer vs.Close()
	sid := uint32(1 + r.intn(1<<20))
	var st *mux.VerifStream
	var got []byte
	sawEnd := false
	doRead := func(k int) {
		if st == nil {
			return
		}
		s, b := st.TryRead(k)
		switch s {
		case "data":
			got = append(got, b...)
		case "eof":
			sawEnd = true
		}
	}
	n := len(pls)
	var recvErrs []string
	for i, idx := range order {
		closing := uint8(0)
		if idx == cl {
			closing = 1
		}
		pl := pls[idx]
		if closing == 1 {
			pl = r.bytes(1 + r.intn(40)) // a closing frame carries padding, not data
		}
		var pad []byte
		if r.intn(3) == 0 {
			pad = r.bytes(r.intn(20))
		}
		msg := refEncode(method, key, refFrame{sid, uint64(idx), closing, pl}, pad, r.bytes(8))
		es, pn := vs.Recv(msg)
		if pn != "" {
			recvErrs = append(recvErrs, "panic: "+pn)
		} else if es != "" {
			recvErrs = append(recvErrs, es)
		}
		if st == nil {
			if s, ok := vs.TryAccept(); ok {
				st = s
			}
		}
		if i < len(reads) && reads[i] > 0 {
			doRead(reads[i])
		}
	}
	for k := 0; k < 2*n+4 && !sawEnd; k++ {
		before := len(got)
		doRead(1 << 16)
		if len(got) == before {
			break
		}
	}
	doRead(1)
	var want []byte
	m := n
	if cl < n {
		m = cl
	}
	for i := 0; i < m; i++ {
		want = append(want, pls[i]...)
	}
	// frames above an effective closing frame may be refused (the stream is gone); nothing else may fail
	bad := st == nil || !bytes.Equal(got, want) || (cl < n) != sawEnd
	if cl >= n && len(recvErrs) > 0 {
		bad = true
	}
	if bad {
		lens := make([]int, n)
		for i := range pls {
			lens[i] = len(pls[i])
		}
		o.V("C02 reassembly through Stream.recvFrame", map[string]any{"tag": tag, "method": method, "order": order, "closing": cl, "reads": reads,
			"payload_lengths": lens, "got": hx(got), "want": hx(want), "end_of_stream_seen": sawEnd, "accepted": st != nil, "recv_errors": recvErrs})
	}
	o.stat("wire_scripts", 1)
}

func c02wireAll(c *ctx) {
	r := c.r
	maxN := 5
	if c.thorough() {
		maxN = 6
	}
	mk := func(n int) [][]byte {
		pls := make([][]byte, n)
		for i := range pls {
			switch r.intn(4) {
			case 0:
				pls[i] = nil // an empty data frame
			case 1:
				pls[i] = []byte{byte(i + 1)}
			default:
				pls[i] = r.bytes(1 + r.intn(9))
			}
		}
		return pls
	}
	for n := 1; n <= maxN; n++ {
		permutations(n, func(p []int) {
			for cl := 0; cl <= n; cl++ {
				reads := make([]int, n)
				for i := range reads {
					if r.intn(3) == 0 {
						reads[i] = 1 + r.intn(4)
					}
				}
				c02wire(c, r.intn(4), mk(n), cl, append([]int(nil), p...), reads, "wire-exhaustive")
				c.o.case_(fmt.Sprint("wire", p, cl), true)
			}
		})
	}
	nr := 40
	if c.thorough() {
		nr = 400
	}
	for i := 0; i < nr; i++ {
		n := 7 + r.intn(120)
		cl := n
		if r.intn(2) == 0 {
			cl = r.intn(n)
		}
		reads := make([]int, n)
		for j := range reads {
			if r.intn(4) == 0 {
				reads[j] = 1 + r.intn(40)
			}
		}
		c02wire(c, r.intn(4), mk(n), cl, r.perm(n), reads, "wire-random")
		c.o.case_(fmt.Sprint("wire-rand", i, n, cl), true)
	}
	c.o.sample("wire level: frames of one stream as encoded messages (reference encoder, 4 methods, payload lengths 0..9) -> Session.recvDataFromRemote in every order, Stream.Read in between")
}
