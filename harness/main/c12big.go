//go:build verif

package main

import (
	"fmt"
	"testing/synctest"
	"time"

	mux "github.com/cbeuw/Cloak/internal/multiplex"
)

// C12 with a reader that has fallen far behind: several MiB sit unread on one stream while a second stream has a
// reader parked in Read.  The receive loops must keep taking frames (they hold a stream's lock while they hand a frame
// to its buffer), and a fault, a session close or a local close of the backlogged stream must go through: every
// blocked call returns, the connections end up closed.
func c12bigBacklog(c *ctx, variant int, total int) {
	r := c.r
	method := byte(r.intn(4))
	tag := fmt.Sprintf("big backlog variant=%d method=%d bytes=%d", variant, method, total)
	synctest.Run(func() {
		var key [32]byte
		copy(key[:], r.bytes(32))
		rg := newSeshPair(method, key, 2, false, false, time.Hour)
		A, B := rg.S[0].sesh, rg.S[1].sesh
		deliverAll := func() {
			for moved := true; moved; {
				moved = false
				for k := range rg.S[0].conns {
					if _, ok := rg.deliver(0, k); ok {
						moved = true
					}
				}
			}
			synctest.Wait()
		}
		s1, err := A.OpenStream()
		if err != nil {
			return
		}
		s2, err := A.OpenStream()
		if err != nil {
			return
		}
		s2.Write([]byte("x"))
		chunk := r.bytes(16000)
		sent := 0
		for sent < total {
			n, err := s1.Write(chunk)
			if err != nil {
				c.o.V("C12 write-failed-on-healthy-session", map[string]any{"tag": tag, "after_bytes": sent, "error": err.Error()})
				return
			}
			sent += n
			if sent%(1<<20) < len(chunk) {
				deliverAll()
			}
		}
		deliverAll()
		var b1, b2 *mux.Stream
		for i := 0; i < 2; i++ {
			st := mux.VerifTryAccept(B)
			if st == nil {
				break
			}
			if mux.VerifStreamID(st) == mux.VerifStreamID(s1) {
				b1 = st
			} else {
				b2 = st
			}
		}
		if b1 == nil || b2 == nil {
			c.o.V("C12 stream-not-delivered", map[string]any{"tag": tag})
			return
		}
		buffered, _, _ := mux.VerifReadState(b1)
		if buffered != sent {
			c.o.V("C12 receive-loop-stalled-on-unread-backlog", map[string]any{"tag": tag, "written_and_delivered": sent, "buffered_at_receiver": buffered,
				"what": "every record was handed to the receiving session's connections and the session is healthy, yet part of the stream never reached its buffer: a receive loop is parked inside the stream's buffer"})
		}
		// a reader parked on the quiet stream
		readDone := make(chan error, 1)
		go func() {
			buf := make([]byte, 10)
			b2.Read(buf) // the one byte
			_, err := b2.Read(buf)
			readDone <- err
		}()
		synctest.Wait()
		done := make(chan struct{})
		go func() {
			defer close(done)
			switch variant {
			case 0:
				B.Close()
			case 1:
				rg.fault(0)
				rg.fault(1)
			case 2:
				b1.Close()
				B.Close()
			}
		}()
		synctest.Wait()
		select {
		case <-done:
		default:
			c.o.V("C12 teardown-blocked-by-unread-backlog", map[string]any{"tag": tag, "what": "the close / fault handling has not returned at quiescence"})
			return
		}
		rg.propagate()
		synctest.Wait()
		select {
		case <-readDone:
		default:
			c.o.V("C12 blocked-read-not-released", map[string]any{"tag": tag, "stream": "the quiet one", "what": "a Read parked on another stream of the session is still parked after the teardown"})
		}
		if !B.IsClosed() {
			c.o.V("C12 session-not-closed", map[string]any{"tag": tag, "side": "B"})
		}
		for k, cn := range rg.S[1].conns {
			if !cn.isClosed() {
				c.o.V("C12 connection-left-open", map[string]any{"tag": tag, "side": "B", "conn": k})
			}
		}
		// the backlogged stream's reader gets a prefix of what was written, then an error
		got := 0
		buf := make([]byte, 1<<20)
		for {
			n, err := b1.Read(buf)
			got += n
			if err != nil {
				break
			}
		}
		if got > sent {
			c.o.V("C12 read-more-than-written", map[string]any{"tag": tag, "written": sent, "read": got})
		}
		A.Close()
		rg.propagate()
		synctest.Wait()
	})
	c.o.stat("big_backlog_bytes", total)
	c.o.case_(tag, true)
}
