//go:build verif

package main

import (
	"bytes"
	"fmt"
	"io"
	"net"
	"sync"
	"time"

	"github.com/cbeuw/Cloak/internal/client"
	"github.com/cbeuw/Cloak/internal/common"
	mux "github.com/cbeuw/Cloak/internal/multiplex"
	"github.com/cbeuw/connutil"
)

// C01 through the client's entry glue: the REAL client.RouteTCP accepts K local proxy connections at the same
// time, takes each one's first packet, opens a stream and relays both ways (common.Copy); the peer session echoes
// every stream.  Each application must get back exactly what it wrote, and the peer must have received, per stream,
// exactly one application's bytes.  All K handlers are held at the schedule point inside OpenStream until every
// one of them has taken its first packet (or 300 ms have passed), which is the interleaving a per-connection
// buffer shared by mistake needs.

type memListener struct{ ch chan net.Conn }

func (l *memListener) Accept() (net.Conn, error) { return <-l.ch, nil }
func (l *memListener) Close() error              { return nil }
func (l *memListener) Addr() net.Addr            { return addrT("mem-listener") }

func c01route(c *ctx, k int) {
	r := c.r
	method := byte(r.intn(4))
	nconn := 1 + r.intn(4)
	K := 2 + r.intn(5)
	var key [32]byte
	copy(key[:], r.bytes(32))
	mk := func() *mux.Session {
		ob, err := mux.MakeObfuscator(method, key)
		if err != nil {
			panic(err)
		}
		return mux.MakeSession(9, mux.SessionConfig{Obfuscator: ob, InactivityTimeout: time.Hour, MsgOnWireSizeLimit: 16401})
	}
	A, B := mk(), mk()
	for i := 0; i < nconn; i++ {
		x, y := connutil.AsyncPipe()
		A.AddConnection(common.NewTLSConn(x))
		B.AddConnection(common.NewTLSConn(y))
	}
	// peer: echo every stream, remember what it carried
	var mu sync.Mutex
	recvd := map[uint32][]byte{}
	go func() {
		for {
			cn, err := B.Accept()
			if err != nil {
				return
			}
			st := cn.(*mux.Stream)
			go func() {
				buf := make([]byte, 20000)
				for {
					n, err := st.Read(buf)
					if n > 0 {
						mu.Lock()
						recvd[mux.VerifStreamID(st)] = append(recvd[mux.VerifStreamID(st)], buf[:n]...)
						mu.Unlock()
						if _, werr := st.Write(buf[:n]); werr != nil {
							return
						}
					}
					if err != nil {
						return
					}
				}
			}()
		}
	}()
	// hold the handlers between "first packet taken" and "stream opened"
	var hm sync.Mutex
	arrived := 0
	all := make(chan struct{})
	common.SetVerifHook(func(label string) {
		if label != "Session.OpenStream:afterClosedCheck" {
			return
		}
		hm.Lock()
		arrived++
		if arrived == K {
			close(all)
		}
		hm.Unlock()
		select {
		case <-all:
		case <-time.After(300 * time.Millisecond):
		}
	})
	defer common.SetVerifHook(nil)
	ln := &memListener{ch: make(chan net.Conn, K)}
	go client.RouteTCP(ln, time.Hour, false, func() *mux.Session { return A }) // never returns; parked in Accept afterwards

	type app struct {
		wrote, echoed []byte
		err           string
	}
	apps := make([]*app, K)
	var wg sync.WaitGroup
	for i := 0; i < K; i++ {
		ap := &app{}
		apps[i] = ap
		// what this application sends: a first packet of an interesting size, then a few more writes
		sizes := []int{1 + r.intn(40), 100 + r.intn(2000), 10239, 10240, 10241, 1 + r.intn(16000)}
		first := sizes[r.intn(len(sizes))]
		chunks := [][]byte{c01tagged(r, i, first)}
		for j := r.intn(4); j > 0; j-- {
			chunks = append(chunks, c01tagged(r, i, 1+r.intn(30000)))
		}
		for _, ch := range chunks {
			ap.wrote = append(ap.wrote, ch...)
		}
		local, remote := net.Pipe()
		ln.ch <- remote
		wg.Add(1)
		go func() {
			defer wg.Done()
			done := make(chan struct{})
			go func() {
				defer close(done)
				buf := make([]byte, len(ap.wrote))
				n, _ := io.ReadFull(local, buf)
				ap.echoed = buf[:n]
			}()
			for _, ch := range chunks {
				if _, err := local.Write(ch); err != nil {
					ap.err = "write: " + err.Error()
					break
				}
			}
			select {
			case <-done:
			case <-time.After(60 * time.Second):
				ap.err += " echo incomplete after 60 s"
				local.Close()
				<-done
			}
			local.Close()
		}()
	}
	wg.Wait()
	mu.Lock()
	defer mu.Unlock()
	bad := ""
	for i, ap := range apps {
		if !bytes.Equal(ap.echoed, ap.wrote) {
			bad = fmt.Sprintf("application %d wrote %d bytes and got back %d bytes that differ from them (first difference at %d) %s", i, len(ap.wrote), len(ap.echoed), c01firstDiff(ap.echoed, ap.wrote), ap.err)
			break
		}
	}
	if bad == "" {
		// each stream carried exactly one application's bytes
		used := map[int]bool{}
		for id, b := range recvd {
			found := false
			for i, ap := range apps {
				if !used[i] && bytes.Equal(ap.wrote, b) {
					used[i], found = true, true
					break
				}
			}
			if !found {
				bad = fmt.Sprintf("stream %d carried %d bytes that are not what any one application wrote", id, len(b))
				break
			}
		}
		if bad == "" && len(recvd) != K {
			bad = fmt.Sprintf("%d applications, %d streams at the peer", K, len(recvd))
		}
	}
	if bad != "" {
		lens := []int{}
		for _, ap := range apps {
			lens = append(lens, len(ap.wrote))
		}
		c.o.V("C01 bytes-differ via RouteTCP", map[string]any{"case": k, "method": method, "connections": nconn, "applications": K, "written_lengths": lens, "what": bad,
			"replay": "real client.RouteTCP on an in-memory listener; K local connections accepted together, every handler held at Session.OpenStream:afterClosedCheck until all have read their first packet; peer session echoes each stream"})
	}
	A.Close()
	B.Close()
	c.o.stat("route_apps", K)
	c.o.case_(fmt.Sprintf("route/%d/%d/%d/%d", k, method, nconn, K), true)
}

// tagged: n bytes that name the application they belong to in every position
func c01tagged(r *rng, app, n int) []byte {
	b := r.bytes(n)
	for i := range b {
		b[i] = b[i]&0xf8 | byte(app&7)
	}
	return b
}

func c01firstDiff(a, b []byte) int {
	for i := 0; i < len(a) && i < len(b); i++ {
		if a[i] != b[i] {
			return i
		}
	}
	if len(a) < len(b) {
		return len(a)
	}
	return len(b)
}

// a local connection that lives longer than StreamTimeout (which only bounds the wait for the FIRST packet): traffic
// exchanged after that time must still get through
func c01routeLong(c *ctx, k int) {
	r := c.r
	method := byte(r.intn(4))
	var key [32]byte
	copy(key[:], r.bytes(32))
	mk := func() *mux.Session {
		ob, err := mux.MakeObfuscator(method, key)
		if err != nil {
			panic(err)
		}
		return mux.MakeSession(9, mux.SessionConfig{Obfuscator: ob, InactivityTimeout: time.Hour, MsgOnWireSizeLimit: 16401})
	}
	A, B := mk(), mk()
	x, y := connutil.AsyncPipe()
	A.AddConnection(common.NewTLSConn(x))
	B.AddConnection(common.NewTLSConn(y))
	go func() {
		cn, err := B.Accept()
		if err != nil {
			return
		}
		buf := make([]byte, 4096)
		for {
			n, err := cn.Read(buf)
			if n > 0 {
				cn.Write(buf[:n])
			}
			if err != nil {
				return
			}
		}
	}()
	const streamTimeout = 400 * time.Millisecond
	ln := &memListener{ch: make(chan net.Conn, 1)}
	go client.RouteTCP(ln, streamTimeout, false, func() *mux.Session { return A })
	local, remote := net.Pipe()
	ln.ch <- remote
	t0 := time.Now()
	bad := ""
	for i := 0; time.Since(t0) < 3*streamTimeout+200*time.Millisecond; i++ {
		msg := c01tagged(r, i, 1+r.intn(200))
		local.SetDeadline(time.Now().Add(10 * time.Second))
		if _, err := local.Write(msg); err != nil {
			bad = fmt.Sprintf("write %d, %v after the connection was accepted: %v", i, time.Since(t0).Round(time.Millisecond), err)
			break
		}
		got := make([]byte, len(msg))
		if _, err := io.ReadFull(local, got); err != nil || !bytes.Equal(got, msg) {
			bad = fmt.Sprintf("echo %d, %v after the connection was accepted: %v", i, time.Since(t0).Round(time.Millisecond), err)
			break
		}
		time.Sleep(100 * time.Millisecond)
	}
	if bad != "" {
		c.o.V("C01 connection-cut-after-StreamTimeout", map[string]any{"case": k, "stream_timeout": streamTimeout.String(), "what": bad,
			"replay": "real client.RouteTCP with StreamTimeout 400 ms; one local connection exchanging a small message with an echoing peer every 100 ms for 1.4 s"})
	}
	local.Close()
	A.Close()
	B.Close()
	c.o.case_(fmt.Sprintf("route-long/%d", k), true)
}
