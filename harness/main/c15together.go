//go:build verif

package main

import (
	"fmt"
	"sync"
	"time"

	mux "github.com/cbeuw/Cloak/internal/multiplex"
	"github.com/cbeuw/Cloak/internal/server"
)

// C15 "all connections presenting the same UID and session id are attached to one session and are given the same session
// key, in whatever order or simultaneity they arrive": N first connections of a user that is NOT YET ACTIVE arrive while
// the panel's lock is held by somebody else, so that they queue up at the panel and are let in at the same moment. A
// lookup that is not atomic with the insertion of the new record gives each of them a record, a session and a key of its
// own. For a database user and for a bypass user (the two ways a record is made).
func c15together(c *ctx, k int, bypass bool) {
	o, r := c.o, c.r
	now := int64(1000)
	rig := newPanelRig(now)
	defer rig.close()
	kind := "database user"
	if bypass {
		kind = "bypass user"
	} else {
		rig.putUser(1, 20, 1<<40, 1<<40, now+100000)
	}
	uid := uidBytes(1)
	n := 3 + r.intn(5)
	type res struct {
		rec  *server.ActiveUser
		sesh *mux.Session
		key  [32]byte
		err  error
	}
	out := make([]res, n)
	release := rig.panel.HoldActiveUsers()
	var wg sync.WaitGroup
	for i := 0; i < n; i++ {
		wg.Add(1)
		go func(i int) {
			defer wg.Done()
			u, err := rig.panel.GetUser(uid, bypass)
			if err != nil {
				out[i].err = err
				return
			}
			s, _, sk, err := server.VerifGetSession(u, 7, c.freshKey())
			out[i] = res{u, s, sk, err}
		}(i)
	}
	time.Sleep(30 * time.Millisecond) // all of them are waiting at the panel now
	release()
	wg.Wait()
	recs, seshs, keys := map[*server.ActiveUser]bool{}, map[*mux.Session]bool{}, map[[32]byte]bool{}
	admitted := 0
	for _, x := range out {
		if x.err != nil || x.sesh == nil {
			continue
		}
		admitted++
		recs[x.rec], seshs[x.sesh], keys[x.key] = true, true, true
	}
	if len(seshs) > 1 || len(keys) > 1 || len(recs) > 1 {
		o.V("C15 same-pair-different-sessions simultaneous-first-connections", map[string]any{"case": k, "user": kind, "connections": n, "admitted": admitted,
			"distinct_records": len(recs), "distinct_sessions": len(seshs), "distinct_session_keys": len(keys),
			"what": "connections presenting the same UID and session id, arriving together while the user was not active yet, were attached to different sessions with different keys",
			"replay": fmt.Sprintf("user not active; panel lock held; %d goroutines: GetUser/GetBypassUser(uid) then GetSession(7); release the lock", n)})
	}
	o.stat("first_connections_let_in_together", n)
	o.case_(fmt.Sprintf("together/%d/%s/%d", k, kind, n), true)
}
